package props

// C19 - generated primes and pre-parameters have the structure the proofs assume.
//
// Design level : spec/SafePrimeGen.tla (producers / consumer / canceller of GetRandomSafePrimesConcurrent, with the
//                switches SendSelectsOnCancel and CloseBeforeWait that reproduce two wrong designs) and
//                spec/Samplers.tla (rejection loops of common/random.go, shape of a safe-prime pair, algebra of the
//                pre-parameters at toy size) are model-checked by TLC.
// Binding      : (A) every run of the real generator is an event record that SafePrimeGen_Trace.tla must explain;
//                (C) TLC predicts for which arguments a helper can never return and which pairs exist per toy bit
//                length, and validates every toy-sized value the real code returned (Samplers_Trace.tla).
// Verdict      : only from the real code - returned values judged with math/big (and TLC for toy sizes), calls that
//                do not return (confirmed by re-running the case alone, with the goroutine dump), goroutines left behind.

import (
	"encoding/json"
	"fmt"
	"math/big"
	"math/rand"
	"os"
	"path/filepath"
	"regexp"
	"sort"
	"strconv"
	"strings"
	"sync"
	"time"

	"verif/harness/core"
	"verif/harness/pump"
	"verif/harness/sandbox"
	"verif/harness/tlc"
)

func init() { Workers["c19-worker"] = C19Worker; Registry["C19"] = C19 }

// ------------------------------------------------------------------ plan of generator runs

func c19Deadline(bits int) int {
	switch c19SizeClass(bits) {
	case "toy", "small":
		return 30
	case "medium":
		return 240
	}
	return 1500
}

func c19GenPlan(ctx *core.Ctx) []c19GenCase {
	rng := rand.New(rand.NewSource(ctx.Seed*7331 + 19))
	var cases []c19GenCase
	add := func(c c19GenCase) {
		c.Idx = len(cases)
		c.Seed = ctx.Seed*1000003 + int64(c.Idx)*13 + 7
		if c.Entropy == "" {
			c.Entropy = "inf"
		}
		if c.Cancel == "" {
			c.Cancel = "none"
		}
		if c.Procs == 0 {
			c.Procs = []int{1, 16}[c.Idx%2]
		}
		c.DeadlineS = c19Deadline(c.Bits)
		cases = append(cases, c)
	}
	reps := ctx.Pick(1, 20)
	// undisturbed runs: every toy bit length x concurrency x numPrimes x GOMAXPROCS
	for r := 0; r < reps; r++ {
		for bits := 6; bits <= 16; bits++ {
			for c := 1; c <= 8; c++ {
				for n := 1; n <= 3; n++ {
					for _, procs := range []int{1, 16} {
						add(c19GenCase{Bits: bits, C: c, N: n, Procs: procs})
					}
				}
			}
		}
	}
	// the bit lengths whose top byte holds a single bit (the b == 1 branch of the mask code): 10, 18, 26, 34
	for r := 0; r < ctx.Pick(6, 40); r++ {
		for _, bits := range []int{10, 18, 26, 34} {
			add(c19GenCase{Bits: bits, C: 1 + rng.Intn(4), N: 1 + rng.Intn(3)})
		}
	}
	for r := 0; r < ctx.Pick(10, 200); r++ {
		for _, bits := range []int{32, 64} {
			add(c19GenCase{Bits: bits, C: 1 + rng.Intn(8), N: 1 + rng.Intn(3)})
		}
	}
	for r := 0; r < ctx.Pick(2, 10); r++ {
		add(c19GenCase{Bits: 128, C: 1 + rng.Intn(8), N: 1 + rng.Intn(2), Procs: 16})
		add(c19GenCase{Bits: 256, C: 2 + rng.Intn(7), N: 1 + rng.Intn(2), Procs: 16})
	}
	for r := 0; r < ctx.Pick(1, 6); r++ {
		add(c19GenCase{Bits: 512, C: 4 + rng.Intn(5), N: 1, Procs: 16})
	}
	if ctx.Thorough() {
		for r := 0; r < 4; r++ {
			add(c19GenCase{Bits: 1024, C: 8, N: 1 + r/3, Procs: 16})
		}
	}
	// context done before the call
	for r := 0; r < ctx.Pick(1, 10); r++ {
		for bits := 6; bits <= 16; bits++ {
			for _, c := range []int{1, 2 + rng.Intn(3), 5 + rng.Intn(4)} {
				add(c19GenCase{Bits: bits, C: c, N: 1 + rng.Intn(3), Cancel: "pre", Entropy: []string{"inf", "inf", "zero", "finite"}[rng.Intn(4)], FailAfter: 1 + rng.Intn(40)})
			}
		}
	}
	for _, bits := range []int{64, 512, 1024} {
		add(c19GenCase{Bits: bits, C: 4, N: 2, Cancel: "pre", Procs: 16})
	}
	// cancellation while the call runs, after short random delays
	for r := 0; r < ctx.Pick(8, 150); r++ {
		for bits := 6; bits <= 16; bits++ {
			d := []int{0, 1, 5, 20, 50, 100, 200, 400, 800, 1500, 3000}[rng.Intn(11)]
			add(c19GenCase{Bits: bits, C: 1 + rng.Intn(8), N: 1 + rng.Intn(3), Cancel: "during", DelayUs: d + rng.Intn(1+d/2)})
		}
	}
	for r := 0; r < ctx.Pick(3, 20); r++ {
		add(c19GenCase{Bits: 64, C: 1 + rng.Intn(8), N: 3, Cancel: "during", DelayUs: rng.Intn(20000)})
		add(c19GenCase{Bits: 256, C: 2 + rng.Intn(6), N: 2, Cancel: "during", DelayUs: rng.Intn(100000), Procs: 16})
		add(c19GenCase{Bits: 512, C: 2 + rng.Intn(6), N: 2, Cancel: "during", DelayUs: rng.Intn(300000), Procs: 16})
		add(c19GenCase{Bits: 1024, C: 2 + rng.Intn(6), N: 2, Cancel: "during", DelayUs: 1000 + rng.Intn(1500000), Procs: 16})
	}
	// entropy sources that fail: at the first byte, after k bytes for many k
	for r := 0; r < ctx.Pick(1, 6); r++ {
		for bits := 6; bits <= 16; bits++ {
			for _, c := range []int{1, 2 + rng.Intn(3), 5 + rng.Intn(4)} {
				add(c19GenCase{Bits: bits, C: c, N: 1 + rng.Intn(3), Entropy: "zero"})
			}
		}
	}
	for r := 0; r < ctx.Pick(1, 5); r++ {
		for _, k := range []int{1, 2, 3, 4, 5, 6, 7, 8, 9, 10, 12, 14, 16, 20, 24, 32, 40, 48, 64, 96, 128, 200, 400, 1000} {
			bits := 6 + rng.Intn(11)
			add(c19GenCase{Bits: bits, C: 1 + rng.Intn(8), N: 1 + rng.Intn(3), Entropy: "finite", FailAfter: k})
			if k%3 == 0 {
				add(c19GenCase{Bits: bits, C: 1 + rng.Intn(8), N: 1 + rng.Intn(3), Entropy: "finite", FailAfter: k, Cancel: "during", DelayUs: rng.Intn(300)})
			}
		}
	}
	// entropy sources that fail for all producers at the same moment (SafePrimeGen.tla: cfg.bar = c): after j Read calls
	// (j < numPrimes: the call cannot have its primes, so every producer arrives at the failing Read), for every
	// concurrency 1..8; alone ("the consumer receives one error, nobody receives the others") and with the caller's
	// context cancelled while the producers are inside the Read ("nobody receives any of them")
	barReps := ctx.Pick(1, 8)
	if os.Getenv("VERIF_C19_NOBARRIER") != "" {
		barReps = 0 // sensitivity experiments only: what the check sees without the forced schedules
	}
	for r := 0; r < barReps; r++ {
		for c := 1; c <= 8; c++ {
			for j := 0; j <= 2; j++ {
				for _, can := range []string{"none", "held"} {
					bits := 6 + rng.Intn(11)
					if j == 2 && r == 0 {
						bits = []int{18, 32, 64, 128}[c%4]
					}
					add(c19GenCase{Bits: bits, C: c, N: j + 1 + rng.Intn(3-j), Entropy: "barrier", OkReads: j, Cancel: can, Procs: []int{1, 16}[(c+j+r)%2]})
				}
			}
		}
	}
	// a transient fault: Read call number j+1 fails, all the others succeed - one producer reports the error and exits,
	// the others go on; the call has to return (the error, or its primes if it had them first)
	for r := 0; r < ctx.Pick(1, 6); r++ {
		for c := 1; c <= 8; c++ {
			for _, j := range []int{0, 1, 3} {
				add(c19GenCase{Bits: 6 + rng.Intn(11), C: c, N: 1 + rng.Intn(3), Entropy: "transient", OkReads: j})
			}
		}
	}
	for _, bits := range []int{256, 1024}[:2*min(barReps, 1)] {
		add(c19GenCase{Bits: bits, C: 8, N: 2, Entropy: "barrier", OkReads: 1, Procs: 16})
		add(c19GenCase{Bits: bits, C: 6, N: 1, Entropy: "barrier", OkReads: 0, Cancel: "held", Procs: 16})
	}
	for _, bits := range []int{64, 256, 1024} {
		add(c19GenCase{Bits: bits, C: 3, N: 2, Entropy: "zero", Procs: 16})
		add(c19GenCase{Bits: bits, C: 3, N: 2, Entropy: "finite", FailAfter: bits / 8 * 3, Procs: 16})
		add(c19GenCase{Bits: bits, C: 3, N: 2, Entropy: "finite", FailAfter: 7, Procs: 16})
	}
	return cases
}

// ------------------------------------------------------------------ running cases in children, with confirmation of hangs

type c19Done struct {
	Payload c19Payload
	Status  string // sandbox status: ok | crash | hang | panic | harness-error
	Detail  string
	Raw     json.RawMessage
	WallMs  int64
}

func c19RunBatch(pls []c19Payload, parallel int, perCase time.Duration) ([]c19Done, error) {
	if len(pls) == 0 {
		return nil, nil
	}
	rs, err := c19Sandbox(pls, parallel, perCase)
	if err != nil {
		return nil, err
	}
	out := make([]c19Done, len(rs))
	for i, r := range rs {
		out[i] = c19Done{Payload: pls[i], Status: r.Status, Detail: r.Detail, Raw: r.Output, WallMs: r.WallMs}
	}
	return out, nil
}

var c19ReLibFrame = regexp.MustCompile(`bnb-chain/tss-lib/v2/[\w/]+\.[\w.()*]+`)

func c19HasLibFrames(dump string) bool { return c19ReLibFrame.MatchString(dump) }

// ------------------------------------------------------------------ TLC jobs

type c19Job struct {
	Name string
	Opt  tlc.Options
	Res  tlc.Result
}

var c19TLCSem = make(chan struct{}, 3)

func c19RunJob(j *c19Job, wg *sync.WaitGroup) {
	wg.Add(1)
	go func() {
		defer wg.Done()
		c19TLCSem <- struct{}{}
		defer func() { <-c19TLCSem }()
		j.Res = tlc.Run(j.Opt)
	}()
}

const c19SPGInvs = "TypeOK WaitGroupExact NoLeak NoSendOnClosed ErrSendNeverBlocks ResultCount NoSpuriousError PreCancelled NoEntropyNoPrimes PromptCancelBound HeldOnlyAtFailure"
const c19SPGProps = "PromptCancel PromptEntropyFailure Terminates Settles"

// capacities of the two channels: the code's (SafePrimeGen!CodePrimeCap, CodeErrCap) and the wrong ones of the regression runs
const c19SPGWrap = "---- MODULE MC_SafePrimeGen ----\nEXTENDS SafePrimeGen\nConfigsVal == %s\n" +
	"ErrCapOne(c) == 1\nErrCapAllButOne(c) == c.c - 1\nPrimeCapN(c) == c.n\n====\n"

func c19SPGOpt(configs string, maxC int, sendSelects, closeBeforeWait, liveness bool, workers int, timeout time.Duration) tlc.Options {
	return c19SPGOptCaps(configs, maxC, sendSelects, closeBeforeWait, liveness, workers, timeout, "CodePrimeCap", "CodeErrCap", c19SPGInvs)
}

func c19SPGOptCaps(configs string, maxC int, sendSelects, closeBeforeWait, liveness bool, workers int, timeout time.Duration, primeCap, errCap, invs string) tlc.Options {
	wrap := fmt.Sprintf(c19SPGWrap, configs)
	cfg := fmt.Sprintf("SPECIFICATION Spec\nCONSTANTS\n  Configs <- ConfigsVal\n  SendSelectsOnCancel = %s\n  CloseBeforeWait = %s\n  MaxC = %d\n  PrimeCapOf <- %s\n  ErrCapOf <- %s\nINVARIANTS %s\n",
		c13TLCBool(sendSelects), c13TLCBool(closeBeforeWait), maxC, primeCap, errCap, invs)
	if liveness {
		cfg += "PROPERTIES " + c19SPGProps + "\n"
	}
	return tlc.Options{Module: "MC_SafePrimeGen", Cfg: cfg, Workers: workers, Heap: "3g", Timeout: timeout, Files: map[string]string{"MC_SafePrimeGen.tla": wrap}}
}

// c19LastState is the text of the last state of TLC's error trace.
func c19LastState(out string) string {
	if i := strings.LastIndex(out, "State "); i >= 0 {
		return out[i:]
	}
	return ""
}

// c19Printed extracts the JSON payload of a line <<"TAG", "...">> printed by TLC.
func c19Printed(out, tag string) (string, bool) {
	prefix := fmt.Sprintf("<<%q, ", tag)
	for _, line := range strings.Split(out, "\n") {
		line = strings.TrimSpace(line)
		if !strings.HasPrefix(line, prefix) || !strings.HasSuffix(line, ">>") {
			continue
		}
		s, err := strconv.Unquote(line[len(prefix) : len(line)-2])
		if err != nil {
			continue
		}
		return s, true
	}
	return "", false
}

type c19Prediction struct {
	Dead []struct {
		Fn   string  `json:"fn"`
		Args []int64 `json:"args"`
	} `json:"dead"`
	Safe []struct {
		Bits int     `json:"bits"`
		Qs   []int64 `json:"qs"`
	} `json:"safe"`
	NoBeta []struct {
		P      int64   `json:"P"`
		Q      int64   `json:"Q"`
		Alphas []int64 `json:"alphas"`
	} `json:"nobeta"`
}

func c19SamplersOpt(thorough bool) tlc.Options {
	moduli := "{<<7, 11>>}"
	if thorough {
		moduli = "{<<7, 11>>, <<11, 23>>}"
	}
	wrap := "---- MODULE MC_Samplers ----\nEXTENDS Samplers, Json\n" +
		"BoundsVal == " + c19TLASet(c19ToyBounds(thorough)) + "\n" +
		"ToyModuli == " + moduli + "\n" +
		"ASSUME GeneratorShape\n" +
		"ASSUME \\A m \\in ToyModuli : PreParamsRelations(m[1], m[2])\n" +
		"ASSUME PrintT(<<\"C19PREDICT\", ToJson([\n" +
		"   dead   |-> {[fn |-> fn, args |-> DeadArgs(fn)] : fn \\in Fns},\n" +
		"   safe   |-> {[bits |-> b, qs |-> SafePairs(b)] : b \\in 6..12},\n" +
		"   nobeta |-> {[P |-> m[1], Q |-> m[2], alphas |-> AlphaWithoutBeta(m[1], m[2])] : m \\in ToyModuli} ])>>)\n====\n"
	cfg := "SPECIFICATION Spec\nCONSTANTS\n  Bounds <- BoundsVal\nINVARIANTS Contract Exact\nCHECK_DEADLOCK FALSE\n"
	return tlc.Options{Module: "MC_Samplers", Cfg: cfg, Workers: 4, Heap: "3g", Timeout: 30 * time.Minute, Files: map[string]string{"MC_Samplers.tla": wrap}}
}

func c19WriteTmp(pattern string, lines []string) (string, error) {
	tmpBase := os.Getenv("VERIF_TMP")
	if tmpBase == "" {
		tmpBase = os.TempDir()
	}
	tf, err := os.CreateTemp(tmpBase, pattern)
	if err != nil {
		return "", err
	}
	_, err = tf.WriteString(strings.Join(lines, "\n") + "\n")
	tf.Close()
	if err != nil {
		os.Remove(tf.Name())
		return "", err
	}
	return filepath.Abs(tf.Name())
}

// c19TraceRun validates lines against a *_Trace module; returns the number of lines explained.
func c19TraceRun(module, cfg string, lines []string, timeout time.Duration) (hw int, res tlc.Result, err error) {
	path, err := c19WriteTmp("verif-c19-trace-*.ndjson", lines)
	if err != nil {
		return 0, res, err
	}
	defer os.Remove(path)
	c19TLCSem <- struct{}{}
	res = tlc.Run(tlc.Options{Module: module, Cfg: cfg, Env: map[string]string{"TRACE": path}, Workers: 1, Heap: "3g", Timeout: timeout})
	<-c19TLCSem
	if res.Err != nil {
		return 0, res, res.Err
	}
	if res.Len != len(lines) {
		return 0, res, fmt.Errorf("%s read %d lines of %d", module, res.Len, len(lines))
	}
	return res.HW, res, nil
}

func c19SPGTraceCfg(maxC int) string {
	return fmt.Sprintf("SPECIFICATION TraceSpec\nCONSTANTS\n  Configs = {}\n  SendSelectsOnCancel = TRUE\n  CloseBeforeWait = FALSE\n  MaxC = %d\n  PrimeCapOf <- CodePrimeCap\n  ErrCapOf <- CodeErrCap\nINVARIANTS TraceInv\nCONSTRAINT HighWater\nPOSTCONDITION TraceAccepted\nCHECK_DEADLOCK FALSE\n", maxC)
}

const c19OracleCfg = "SPECIFICATION TraceSpec\nCONSTANTS\n  Bounds = {}\nCONSTRAINT HighWater\nPOSTCONDITION TraceAccepted\nCHECK_DEADLOCK FALSE\n"

// ------------------------------------------------------------------ oracle records

type c19Record struct {
	Fn  string  `json:"fn"`
	Arg []int64 `json:"arg"`
	Ret []int64 `json:"ret"`
	// not serialised: the direct (math/big) judgement and where the record came from
	defect string
	origin c19Payload
}

// key of the violation a defective record stands for (the same keys as the direct judgement uses)
func (r c19Record) key() string {
	switch r.Fn {
	case "SafePrime":
		return fmt.Sprintf("C19:GetRandomSafePrimesConcurrent:bad-pair:%s:toy", r.defect)
	case "PaillierKey":
		return "C19:paillier.GenerateKeyPair:" + r.defect
	case "NTilde":
		return "C19:GenerateNTildei:" + r.defect
	}
	return fmt.Sprintf("C19:%s:%s:toy", r.Fn, r.defect)
}

func (r c19Record) line() string {
	b, _ := json.Marshal(struct {
		Fn  string  `json:"fn"`
		Arg []int64 `json:"arg"`
		Ret []int64 `json:"ret"`
	}{r.Fn, r.Arg, r.Ret})
	return string(b)
}

// ------------------------------------------------------------------ the check

type c19State struct {
	ctx   *core.Ctx
	cov   *core.Cov
	mu    sync.Mutex
	notes []string
}

// c19Dbg prints phase timings when VERIF_C19_DEBUG is set.
func (s *c19State) dbg(format string, a ...any) {
	if os.Getenv("VERIF_C19_DEBUG") != "" {
		fmt.Fprintf(os.Stderr, "[c19 %6.1fs] %s\n", time.Since(s.ctx.Started).Seconds(), fmt.Sprintf(format, a...))
	}
}

func (s *c19State) report(v c19Viol, pl c19Payload) { s.ctx.Report(v.Key, v.What, pl) }

// c19Confirm re-runs a case alone in its own child (deadline scaled) and returns the result.
func c19Confirm(pl c19Payload, scale int) (c19Done, error) {
	perCase := 3 * time.Minute
	switch {
	case pl.Gen != nil:
		g := *pl.Gen
		g.DeadlineS *= scale
		pl = c19Payload{Gen: &g}
		perCase = time.Duration(g.DeadlineS+120) * time.Second
	case pl.Sampler != nil:
		c := *pl.Sampler
		c.DeadlineS *= scale
		pl = c19Payload{Sampler: &c}
		perCase = time.Duration(c.DeadlineS+120) * time.Second
	case pl.Pre != nil:
		perCase = time.Duration(pl.Pre.DeadlineS+180) * time.Second
	}
	ds, err := c19RunBatch([]c19Payload{pl}, 1, perCase)
	if err != nil {
		return c19Done{}, err
	}
	return ds[0], nil
}

// c19ConfirmMany re-runs cases, each alone in its own child, at most `width` children at a time.
func c19ConfirmMany(pls []c19Payload, scale, width int) ([]c19Done, error) {
	out := make([]c19Done, len(pls))
	errs := make([]error, len(pls))
	sem := make(chan struct{}, width)
	var wg sync.WaitGroup
	for i := range pls {
		wg.Add(1)
		go func(i int) {
			defer wg.Done()
			sem <- struct{}{}
			defer func() { <-sem }()
			out[i], errs[i] = c19Confirm(pls[i], scale)
		}(i)
	}
	wg.Wait()
	for _, e := range errs {
		if e != nil {
			return nil, e
		}
	}
	return out, nil
}

type c19GenSummary struct {
	results   []c19Done // final result per case that ran (ok status)
	stopped   bool      // a confirmed hang / crash stopped further runs
	notRun    int
	unsettled []string // cases whose hang could not be confirmed nor refuted
}

// c19ForcingTwin returns, for a case whose entropy source fails, the case with the same arguments in which the source
// fails for all producers at the same moment (the barrier reader): what the load of the machine did by accident in the
// batch, done on purpose.
func c19ForcingTwin(cs c19GenCase) (c19GenCase, bool) {
	if cs.Entropy != "zero" && cs.Entropy != "finite" {
		return cs, false
	}
	t := cs
	t.Entropy, t.OkReads, t.FailAfter = "barrier", 0, 0
	if cs.Entropy == "finite" {
		if per := (cs.Bits - 1 + 7) / 8; per > 0 {
			t.OkReads = cs.FailAfter / per
		}
		if t.OkReads > 3 {
			t.OkReads = 3
		}
	}
	if cs.Cancel == "during" {
		t.Cancel, t.DelayUs = "held", 0
	}
	return t, true
}

// genAbnormal handles a generator case that did not come back normally. Returns (violation reported, resolved result).
//
// A call that does not return contradicts "stops promptly with an error ... and leaves no goroutine behind".  It is
// reported when (a) it shows again in a fresh process that runs nothing else (up to three re-runs of the case, then of
// its forcing twin), or (b) the dump taken in the batch is itself a proof: at least four consecutive identical dumps in
// which every library goroutine is parked by a library frame on an object local to the call (c19DeadlockCert) - a
// deadlock that needs a particular schedule is a deadlock.
func (s *c19State) genAbnormal(d c19Done) (reported bool, resolved *c19Done, err error) {
	cs := *d.Payload.Gen
	size := c19SizeClass(cs.Bits)
	desc := c19GenDesc(cs)
	read := func(d c19Done) (kind, dump string, o c19GenOut) {
		if d.Status == "ok" {
			json.Unmarshal(d.Raw, &o)
			return o.Outcome, o.Dump, o
		}
		return d.Status, d.Detail, o // crash | hang (seen by the parent) | panic
	}
	kind, dump, o := read(d)
	scale := 1
	if kind == "busy" {
		scale = 4
	}
	abnormal := func(k string) bool {
		return k == "deadlock" || k == "busy" || k == "crash" || k == "hang" || k == "panic" || k == "harness-error"
	}
	var again c19Done
	kind2, dump2 := "", ""
	var o2 c19GenOut
	scenario := d.Payload
	attempts := 1
	if kind == "deadlock" || kind == "crash" {
		attempts = 3 // these depend on the schedule, not on the load: they need not show again at once
	}
	for a := 0; a < attempts; a++ {
		again, err = c19Confirm(d.Payload, scale)
		if err != nil {
			return false, nil, err
		}
		kind2, dump2, o2 = read(again)
		if abnormal(kind2) {
			break
		}
	}
	how := "in the batch and again alone in a fresh process"
	if !abnormal(kind2) && kind == "deadlock" {
		if twin, ok := c19ForcingTwin(cs); ok {
			tw, e := c19Confirm(c19Payload{Gen: &twin}, 1)
			if e != nil {
				return false, nil, e
			}
			if k, dm, ot := read(tw); k == "deadlock" && ot.Cert != "" {
				kind2, dump2, o2 = k, dm, ot
				scenario = c19Payload{Gen: &twin}
				desc = c19GenDesc(twin)
				how = fmt.Sprintf("in the batch (case %s, where the load of the machine let the producers fail together) and again alone in a fresh process with the entropy source made to fail for all producers at the same moment", cs.ID())
			}
		}
	}
	if !abnormal(kind2) {
		if kind == "deadlock" && o.Cert != "" && o.Samples >= 4 {
			// not reproduced alone, but the dump of the batch run is a proof by itself
			s.ctx.Report(fmt.Sprintf("C19:GetRandomSafePrimesConcurrent:never-returns:deadlock:%s", size),
				fmt.Sprintf("%s did not return: in %d consecutive dumps one second apart every goroutine of the library is parked by a library frame on a channel / WaitGroup local to the call, none runnable, no action of the harness pending [%s]; this needs a particular schedule (%d re-runs alone returned):\n%s",
					desc, o.Samples, o.Cert, attempts, core.Short(dump, 5000)), d.Payload)
			return true, nil, nil
		}
		if kind == "deadlock" || kind == "crash" {
			// seen once, with the dump, but not reproducible alone: neither a verdict nor nothing
			s.ctx.Note("generator case %s: %s once in the batch, not in %d re-runs alone:\n%s", cs.ID(), kind, attempts, core.Short(dump, 3000))
			return false, nil, nil
		}
		// alone it came back: the first observation was the load of the machine: use the second run
		s.ctx.Note("generator case %s: %s in the batch, %s when re-run alone", cs.ID(), kind, kind2)
		return false, &again, nil
	}
	if !c19HasLibFrames(dump2) && !c19HasLibFrames(dump) {
		s.ctx.Note("generator case %s: %s twice but no library frame in the dumps", cs.ID(), kind2)
		return false, nil, nil
	}
	if !c19HasLibFrames(dump2) {
		dump2 = dump
	}
	switch kind2 {
	case "deadlock":
		cert := ""
		if o2.Cert != "" {
			cert = " [" + o2.Cert + "]"
		}
		s.ctx.Report(fmt.Sprintf("C19:GetRandomSafePrimesConcurrent:never-returns:deadlock:%s", size),
			fmt.Sprintf("%s did not return (%s; watchdog limit %d s): every goroutine of the library is blocked, the same goroutines in the same blocking states in consecutive dumps, no action of the harness pending%s:\n%s", desc, how, cs.DeadlineS, cert, core.Short(dump2, 5000)), scenario)
		return true, nil, nil
	case "busy":
		if size == "toy" || size == "small" {
			s.ctx.Report(fmt.Sprintf("C19:GetRandomSafePrimesConcurrent:never-returns:busy:%s", size),
				fmt.Sprintf("%s did not return within %d s in the batch nor within %d s alone in a fresh process (an undisturbed call of this size takes milliseconds); library goroutines at the deadline:\n%s", desc, cs.DeadlineS, 4*cs.DeadlineS, core.Short(dump2, 5000)), d.Payload)
			return true, nil, nil
		}
		s.ctx.Note("generator case %s still computing at both deadlines (not judged at this size)", cs.ID())
		return false, nil, nil
	case "crash", "panic":
		s.ctx.Report(fmt.Sprintf("C19:GetRandomSafePrimesConcurrent:crash:%s", size),
			fmt.Sprintf("%s killed the process (twice; the second time alone in a fresh process):\n%s", desc, core.Short(dump2, 5000)), d.Payload)
		return true, nil, nil
	}
	s.ctx.Note("generator case %s: %s / %s, not judged", cs.ID(), kind, kind2)
	return false, nil, nil
}

// runGen runs the generator cases in rounds; stops after the first confirmed hang / crash.
func (s *c19State) runGen(cases []c19GenCase, parallel int) (sum c19GenSummary, err error) {
	var fast, slow []c19Payload
	for i := range cases {
		pl := c19Payload{Gen: &cases[i]}
		if c := c19SizeClass(cases[i].Bits); c == "toy" || c == "small" {
			fast = append(fast, pl)
		} else {
			slow = append(slow, pl)
		}
	}
	var mu sync.Mutex
	runSet := func(todo []c19Payload, par int, perCase time.Duration) error {
		for round := 0; round < 4 && len(todo) > 0; round++ {
			mu.Lock()
			stop := sum.stopped
			mu.Unlock()
			if stop {
				break
			}
			ds, e := c19RunBatch(todo, par, perCase)
			if e != nil {
				return e
			}
			var retry []c19Payload
			confirmations := 0
			// cases whose schedule is forced (barrier reader) first: what they show, they show again when re-run alone
			sort.SliceStable(ds, func(i, j int) bool {
				return ds[i].Payload.Gen.Entropy == "barrier" && ds[j].Payload.Gen.Entropy != "barrier"
			})
			for _, d := range ds {
				var o c19GenOut
				if d.Status == "ok" {
					if e := json.Unmarshal(d.Raw, &o); e != nil {
						return fmt.Errorf("cannot parse the output of %s: %v", d.Payload.ID(), e)
					}
					if o.Skipped {
						retry = append(retry, d.Payload)
						continue
					}
					if o.Outcome != "deadlock" && o.Outcome != "busy" {
						mu.Lock()
						sum.results = append(sum.results, d)
						mu.Unlock()
						continue
					}
				}
				// deadlock / busy / crash / hang / panic / harness-error
				if d.Status == "harness-error" {
					return fmt.Errorf("case %s: %s", d.Payload.ID(), d.Detail)
				}
				mu.Lock()
				stop := sum.stopped
				mu.Unlock()
				if stop || confirmations >= 3 {
					retry = append(retry, d.Payload)
					continue
				}
				confirmations++
				rep, resolved, e := s.genAbnormal(d)
				if e != nil {
					return e
				}
				mu.Lock()
				switch {
				case rep:
					sum.stopped = true
				case resolved != nil:
					sum.results = append(sum.results, *resolved)
				default:
					sum.unsettled = append(sum.unsettled, d.Payload.ID())
				}
				mu.Unlock()
			}
			todo = retry
		}
		mu.Lock()
		sum.notRun += len(todo)
		mu.Unlock()
		return nil
	}
	var wg sync.WaitGroup
	var e1, e2 error
	wg.Add(2)
	go func() { defer wg.Done(); e1 = runSet(fast, parallel, 150*time.Second) }()
	go func() { defer wg.Done(); e2 = runSet(slow, 2, 40*time.Minute) }()
	wg.Wait()
	if e1 != nil {
		return sum, e1
	}
	return sum, e2
}

func c19BigArgs() ([]c19BigArg, error) {
	keys, err := pump.LoadEcFixtures(2)
	if err != nil {
		return nil, err
	}
	var out []c19BigArg
	k := keys[0]
	bp := new(big.Int).Add(new(big.Int).Lsh(k.P, 1), c19One)
	bq := new(big.Int).Add(new(big.Int).Lsh(k.Q, 1), c19One)
	out = append(out, c19BigArg{"NTilde0", k.NTildei, []*big.Int{bp, bq}})
	sk := keys[1].PaillierSK
	out = append(out, c19BigArg{"PaillierN1", sk.N, []*big.Int{sk.P, sk.Q}})
	out = append(out, c19BigArg{"2^2048", new(big.Int).Lsh(c19One, 2048), nil})
	out = append(out, c19BigArg{"2^2048-1", new(big.Int).Sub(new(big.Int).Lsh(c19One, 2048), c19One), nil})
	p25519 := new(big.Int).Sub(new(big.Int).Lsh(c19One, 255), big.NewInt(19))
	out = append(out, c19BigArg{"2^255-19", p25519, []*big.Int{p25519}})
	out = append(out, c19BigArg{"P^2(2048bit)", new(big.Int).Mul(sk.P, sk.P), nil})
	out = append(out, c19BigArg{"3^1291", new(big.Int).Exp(big.NewInt(3), big.NewInt(1291), nil), nil})
	return out, nil
}

// C19: violations already reported stand, also when a later part of the machinery is inconclusive.
func C19(ctx *core.Ctx) error {
	s := &c19State{ctx: ctx, cov: core.NewCov()}
	err := c19Main(s)
	if err != nil && len(ctx.Violations()) > 0 {
		ctx.Note("after the violations above a later part of the check was inconclusive: %v", err)
		s.cov.Set("incomplete", true)
		return ctx.WriteEvidence("model_checking", "run cut short after violations; see notes", s.cov, nil, "")
	}
	return err
}

func c19Main(s *c19State) error {
	ctx := s.ctx
	cov := s.cov

	// ---------------- replay of one stored case
	if ctx.Replay != "" {
		var pl c19Payload
		if _, err := core.LoadReplay(ctx.Replay, &pl); err != nil {
			return core.Inconcl("cannot load replay: %v", err)
		}
		return s.replay(pl)
	}

	// ---------------- TLC on the designs (background)
	var twg sync.WaitGroup
	maxC := ctx.Pick(2, 3)
	jobs := map[string]*c19Job{}
	addJob := func(name string, o tlc.Options) {
		j := &c19Job{Name: name, Opt: o}
		jobs[name] = j
		c19RunJob(j, &twg)
	}
	addJob("samplers", c19SamplersOpt(ctx.Thorough()))
	// the two wrong designs (regression demonstrations): the deadlock of the code before commit 89caa94, and closing before the join
	one := "{[c |-> 2, n |-> 1, budget |-> -1, pre |-> FALSE, bar |-> 0, heal |-> FALSE]}"
	if ctx.Thorough() {
		one = "{[c |-> 3, n |-> 2, budget |-> -1, pre |-> FALSE, bar |-> 0, heal |-> FALSE]}"
	}
	addJob("spg-defect-send", c19SPGOpt(one, 3, false, false, false, 1, 10*time.Minute))
	addJob("spg-defect-close", c19SPGOpt(one, 3, true, true, false, 1, 10*time.Minute))
	// errCh with less room than one error per producer: (1) capacity 1, three producers whose entropy source has failed -
	// the consumer receives one error and returns, one more fits, the third producer blocks in its send for ever and
	// wg.Wait() with it; (2) capacity c-1: the same as soon as the consumer returns for another reason (cancellation)
	addJob("spg-defect-errcap-1", c19SPGOptCaps("[c : {3}, n : {1}, budget : {0}, pre : {FALSE}, bar : {0, 3}, heal : {FALSE}]", 3, true, false, false, 1, 10*time.Minute, "CodePrimeCap", "ErrCapOne", "TypeOK"))
	addJob("spg-defect-errcap-c-1", c19SPGOptCaps(fmt.Sprintf("[c : 2..%d, n : {1}, budget : {0, 1}, pre : {FALSE}, bar : {0}, heal : {FALSE}]", ctx.Pick(2, 3)), 3, true, false, false, 1, 10*time.Minute, "CodePrimeCap", "ErrCapAllButOne", "TypeOK"))
	if ctx.Thorough() {
		addJob("spg-safety", c19SPGOpt("[c : 1..4, n : 1..3, budget : {-1, 0, 1, 2, 3, 4}, pre : BOOLEAN, bar : {0}, heal : {FALSE}] \\cup [c : 1..4, n : 1..3, budget : {0, 1, 2}, pre : {FALSE}, bar : {1, 4}, heal : {FALSE}] \\cup [c : 1..4, n : 1..3, budget : {0, 1, 2}, pre : BOOLEAN, bar : {0}, heal : {TRUE}]", 4, true, false, false, 6, 40*time.Minute))
		addJob("spg-liveness", c19SPGOpt("[c : 1..3, n : 1..2, budget : {-1, 0, 1, 2, 3}, pre : BOOLEAN, bar : {0}, heal : {FALSE}] \\cup [c : {3}, n : 1..2, budget : {0, 1}, pre : {FALSE}, bar : {3}, heal : {FALSE}] \\cup [c : 2..3, n : 1..2, budget : {0, 1}, pre : {FALSE}, bar : {0}, heal : {TRUE}]", 3, true, false, true, 6, 40*time.Minute))
		// primeCh with room for numPrimes results only: harmless, because that send gives up when the generator context is done
		addJob("spg-primecap-n", c19SPGOptCaps("[c : 1..3, n : 1..2, budget : {-1, 0, 2}, pre : BOOLEAN, bar : {0}, heal : {FALSE}]", 3, true, false, true, 6, 40*time.Minute, "PrimeCapN", "CodeErrCap", c19SPGInvs))
	} else {
		// quick: invariants and liveness for c <= 2 in one run (all budgets), invariants for c = 3 on the two budgets that matter
		// and on the sources that fail for all three producers at once
		addJob("spg-safety", c19SPGOpt("[c : {3}, n : 1..2, budget : {-1, 2}, pre : BOOLEAN, bar : {0}, heal : {FALSE}] \\cup [c : {3}, n : 1..2, budget : {0, 1}, pre : {FALSE}, bar : {3}, heal : {FALSE}] \\cup [c : {3}, n : 1..2, budget : {0, 1}, pre : {FALSE}, bar : {0}, heal : {TRUE}]", 3, true, false, false, 3, 20*time.Minute))
		addJob("spg-liveness", c19SPGOpt("[c : 1..2, n : 1..2, budget : {-1, 0, 1, 2}, pre : BOOLEAN, bar : {0}, heal : {FALSE}] \\cup [c : {2}, n : {1}, budget : {0, 1}, pre : {FALSE}, bar : {2}, heal : {FALSE}] \\cup [c : {2}, n : 1..2, budget : {0, 1}, pre : {FALSE}, bar : {0}, heal : {TRUE}]", 2, true, false, true, 3, 20*time.Minute))
	}

	// ---------------- the real code, wave 1: generator, helpers, pre-parameters in child processes
	genCases := c19GenPlan(ctx)
	bigs, err := c19BigArgs()
	if err != nil {
		twg.Wait()
		return core.Inconcl("cannot load the vendored parameter sets: %v", err)
	}
	samplerCases := c19SamplerPlan(ctx.Seed, ctx.Thorough(), bigs)
	var preCases []c19PreCase
	for i := 0; i < ctx.Pick(2, 6); i++ {
		preCases = append(preCases, c19PreCase{Mode: "tape", Seed: ctx.Seed*31 + int64(i), Conc: 3, DeadlineS: 300})
	}
	for i, bits := range []int{18, 20, 22, 24, 26, 28, 30, 32, 40, 64, 128, 256} {
		reps := ctx.Pick(1, 4)
		if bits <= 22 {
			reps = ctx.Pick(6, 20) // few safe primes of 9..11 bits exist: P = Q is likely unless the code excludes it
		}
		for r := 0; r < reps; r++ {
			preCases = append(preCases, c19PreCase{Mode: "toy-paillier", Bits: bits, Seed: ctx.Seed*37 + int64(i*10+r), Conc: 1 + (i+r)%4, DeadlineS: 240})
		}
	}
	// one generation with crypto/rand (6.5 s on the idle 16-core machine, minutes under load): thorough tier unless
	// VERIF_C19_FRESH=0, quick tier only with VERIF_C19_FRESH=1; a run that meets its context deadline is recorded, not judged
	if fr := os.Getenv("VERIF_C19_FRESH"); (ctx.Thorough() && fr != "0") || fr == "1" {
		preCases = append([]c19PreCase{{Mode: "fresh", Seed: ctx.Seed, DeadlineS: 900}}, preCases...)
	}

	var genSum c19GenSummary
	var genErr, samplerErr, preErr error
	var samplerDone, preDone []c19Done
	var wg sync.WaitGroup
	t0 := time.Now()
	wg.Add(3)
	go func() { defer wg.Done(); genSum, genErr = s.runGen(genCases, 5) }()
	go func() {
		defer wg.Done()
		pls := make([]c19Payload, len(samplerCases))
		for i := range samplerCases {
			pls[i] = c19Payload{Sampler: &samplerCases[i]}
		}
		samplerDone, samplerErr = c19RunBatch(pls, 3, 5*time.Minute)
	}()
	go func() {
		defer wg.Done()
		pls := make([]c19Payload, len(preCases))
		for i := range preCases {
			pls[i] = c19Payload{Pre: &preCases[i]}
		}
		preDone, preErr = c19RunBatch(pls, 2, 30*time.Minute)
	}()
	wg.Wait()
	wave1 := time.Since(t0).Seconds()
	s.dbg("wave 1 done")
	for _, e := range []error{genErr, samplerErr, preErr} {
		if e != nil {
			twg.Wait()
			return core.Inconcl("child processes: %v", e)
		}
	}

	// ---------------- generator runs: verdicts, trace lines, oracle records
	var records []c19Record
	outcomes := map[string]int{}
	traceMult := map[string]int{}
	var traceOrder []string
	traceOwner := map[string]c19Payload{}
	seenPairs := map[int]map[string]bool{}
	var toyPrimes []int64
	toySeen := map[int64]bool{}
	maxAfterCancel := map[string]float64{}
	// the calls with a barrier reader are validated in a run of their own, with more producers in the model
	barMaxC := ctx.Pick(4, 6)
	var barOrder []string
	barStats := map[string]int{}
	for _, d := range genSum.results {
		cs := *d.Payload.Gen
		var o c19GenOut
		json.Unmarshal(d.Raw, &o)
		vs := c19JudgeGen(cs, o)
		for _, v := range vs {
			s.report(v, d.Payload)
		}
		cov.Case("gen|"+cs.class(), true)
		outcomes[cs.Cancel+"/"+cs.Entropy+" -> "+o.Outcome]++
		if o.CancelBefore && o.AfterCancelMs > maxAfterCancel[c19SizeClass(cs.Bits)] {
			maxAfterCancel[c19SizeClass(cs.Bits)] = o.AfterCancelMs
		}
		if cs.Entropy == "barrier" {
			switch {
			case !o.BarOpened:
				barStats["reader never opened during the call"]++
			case o.BarForced:
				barStats["reader opened before all producers were inside (time limit)"]++
			case cs.Cancel == "held":
				barStats[fmt.Sprintf("all producers failed together after the cancellation: c=%d", cs.C)]++
			default:
				barStats[fmt.Sprintf("all producers failed together: c=%d", cs.C)]++
			}
		}
		if len(vs) == 0 {
			mc := maxC
			if cs.Entropy == "barrier" {
				mc = barMaxC
			}
			if lines := c19TraceLines(cs, o, mc); lines != nil {
				k := strings.Join(lines, "\n")
				if traceMult[k] == 0 {
					if cs.Entropy == "barrier" {
						barOrder = append(barOrder, k)
					} else {
						traceOrder = append(traceOrder, k)
					}
					traceOwner[k] = d.Payload
				}
				traceMult[k]++
			}
		}
		if o.Outcome == "primes" {
			for _, pr := range o.Pairs {
				q, p := c19Big(pr[0]), c19Big(pr[1])
				if seenPairs[cs.Bits] == nil {
					seenPairs[cs.Bits] = map[string]bool{}
				}
				if seenPairs[cs.Bits][pr[0]] {
					continue
				}
				seenPairs[cs.Bits][pr[0]] = true
				if cs.Bits <= 16 && p.BitLen() <= 17 && q.BitLen() <= 16 {
					records = append(records, c19Record{Fn: "SafePrime", Arg: []int64{int64(cs.Bits)}, Ret: []int64{q.Int64(), p.Int64()},
						defect: c19PairDefect(q, p, cs.Bits), origin: d.Payload})
					if c19PairDefect(q, p, cs.Bits) == "" && !toySeen[p.Int64()] {
						toySeen[p.Int64()] = true
						toyPrimes = append(toyPrimes, p.Int64())
					}
				}
			}
			if o.ValidateFalse {
				ctx.Note("drift: GermainSafePrime.Validate() returned false for a pair returned by case %s", cs.ID())
			}
		}
	}
	cov.Sample(map[string]any{"generator_outcomes (cancellation/entropy -> outcome)": outcomes}, 12)
	if genSum.stopped {
		ctx.Note("generator runs stopped after a confirmed hang / crash; %d cases were not run", genSum.notRun)
	} else if genSum.notRun > 0 || len(genSum.unsettled) > 0 {
		twg.Wait()
		return core.Inconcl("%d generator cases could not be run, %d did not come back and could be neither confirmed nor refuted (%v)", genSum.notRun, len(genSum.unsettled), genSum.unsettled)
	}

	// ---------------- wave 2: crypto.GenerateNTildei on safe primes the real generator returned
	sort.Slice(toyPrimes, func(i, j int) bool { return toyPrimes[i] < toyPrimes[j] })
	var ntCases []c19PreCase
	if !genSum.stopped {
		rng := rand.New(rand.NewSource(ctx.Seed + 4242))
		want := ctx.Pick(6, 30)
		// half of the cases on moduli TLC can square (all ordered pairs with P*Q < 46341), half on any two returned primes
		var small [][2]int64
		for _, P := range toyPrimes {
			for _, Q := range toyPrimes {
				if P*Q < 46341 {
					small = append(small, [2]int64{P, Q})
				}
			}
		}
		rng.Shuffle(len(small), func(i, j int) { small[i], small[j] = small[j], small[i] })
		for i := 0; i < len(small) && i < want/2; i++ {
			ntCases = append(ntCases, c19PreCase{Mode: "toy-ntilde", P: fmt.Sprint(small[i][0]), Q: fmt.Sprint(small[i][1]), Seed: ctx.Seed*41 + int64(i), DeadlineS: 60})
		}
		for i := 0; len(ntCases) < want && len(toyPrimes) >= 2 && i < want; i++ {
			P, Q := toyPrimes[rng.Intn(len(toyPrimes))], toyPrimes[rng.Intn(len(toyPrimes))]
			ntCases = append(ntCases, c19PreCase{Mode: "toy-ntilde", P: fmt.Sprint(P), Q: fmt.Sprint(Q), Seed: ctx.Seed*43 + int64(i), DeadlineS: 60})
		}
	}
	var ntDone []c19Done
	if len(ntCases) > 0 {
		pls := make([]c19Payload, len(ntCases))
		for i := range ntCases {
			pls[i] = c19Payload{Pre: &ntCases[i]}
		}
		ntDone, err = c19RunBatch(pls, 2, 5*time.Minute)
		if err != nil {
			twg.Wait()
			return core.Inconcl("child processes (GenerateNTildei): %v", err)
		}
	}

	// ---------------- helpers: verdicts and oracle records
	samplerHangs := map[string][]int64{} // fn -> toy args for which the real helper did not return
	samplerOutcomes := map[string]int{}
	realDead := map[string]bool{}
	// cases that did not come back are re-run, each alone in a fresh process (all of them at once)
	var reIdx []int
	var rePls []c19Payload
	for i, d := range samplerDone {
		var o c19SamplerOut
		if d.Status == "ok" {
			json.Unmarshal(d.Raw, &o)
		}
		if d.Status != "ok" || o.Outcome == "hang" {
			reIdx = append(reIdx, i)
			rePls = append(rePls, d.Payload)
		}
	}
	reDone, err := c19ConfirmMany(rePls, 2, 8)
	if err != nil {
		twg.Wait()
		return core.Inconcl("child processes: %v", err)
	}
	reOf := map[int]c19Done{}
	for k, i := range reIdx {
		reOf[i] = reDone[k]
	}
	s.dbg("helper cases re-run alone: %d", len(reIdx))
	for di, d := range samplerDone {
		cs := *d.Payload.Sampler
		arg := c19Big(cs.Arg)
		var factors []*big.Int
		for _, f := range cs.Factors {
			factors = append(factors, c19Big(f))
		}
		argName := cs.Arg
		if cs.Label != "" {
			argName = cs.Label
		}
		if d.Status != "ok" {
			// the child died or stopped: a helper that kills the process
			again := reOf[di]
			if again.Status != "ok" && c19HasLibFrames(again.Detail) {
				ctx.Report(fmt.Sprintf("C19:%s:crash:%s", cs.Fn, c19ArgClass(arg)),
					fmt.Sprintf("common.%s(%s) killed the process (twice, the second time alone):\n%s", cs.Fn, argName, core.Short(again.Detail, 3000)), d.Payload)
				continue
			}
			if again.Status != "ok" {
				twg.Wait()
				return core.Inconcl("helper case %s: child %s without library frames: %s", cs.ID(), again.Status, core.Short(again.Detail, 500))
			}
			d = again
		}
		var o c19SamplerOut
		if e := json.Unmarshal(d.Raw, &o); e != nil {
			twg.Wait()
			return core.Inconcl("cannot parse the output of %s: %v", cs.ID(), e)
		}
		if o.Outcome == "hang" {
			again := reOf[di]
			var o2 c19SamplerOut
			if again.Status == "ok" {
				json.Unmarshal(again.Raw, &o2)
			}
			if again.Status == "ok" && o2.Outcome != "hang" {
				ctx.Note("helper case %s did not return in the batch but did when re-run alone", cs.ID())
				o = o2
			} else if again.Status == "ok" && c19HasLibFrames(o2.Dump) {
				samplerOutcomes[cs.Fn+" -> never returns"]++
				cov.Case("helper|"+cs.Fn+"|"+argName, true)
				if arg.IsInt64() && cs.Label == "" {
					samplerHangs[cs.Fn] = append(samplerHangs[cs.Fn], arg.Int64())
					realDead[cs.Fn+"|"+cs.Arg] = true
				}
				ctx.Report(fmt.Sprintf("C19:%s:never-returns:%s", cs.Fn, c19ArgClass(arg)),
					fmt.Sprintf("common.%s(rand, %s) did not return within %d s nor, alone in a fresh process, within %d s (a call with a neighbouring argument takes microseconds); the goroutine at the deadline:\n%s",
						cs.Fn, argName, cs.DeadlineS, 2*cs.DeadlineS, core.Short(o2.Dump, 2500)), d.Payload)
				continue
			} else {
				twg.Wait()
				return core.Inconcl("helper case %s did not return twice but the dump shows no library frame (%s)", cs.ID(), again.Status)
			}
		}
		cov.Case("helper|"+cs.Fn+"|"+argName, true)
		samplerOutcomes[cs.Fn+" -> "+o.Outcome]++
		switch o.Outcome {
		case "panic":
			ctx.Report(fmt.Sprintf("C19:%s:panic:%s", cs.Fn, c19ArgClass(arg)),
				fmt.Sprintf("common.%s(rand, %s) panicked: %s", cs.Fn, argName, core.Short(o.Panic, 300)), d.Payload)
			continue
		case "nil":
			// a refusal; it contradicts the property only where a value inside the documented range exists - decided below
			// against the model's prediction (toy arguments) / always for the large ones of the plan (all have values)
			if cs.Label != "" {
				ctx.Report(fmt.Sprintf("C19:%s:returns-nil:%s", cs.Fn, c19ArgClass(arg)),
					fmt.Sprintf("common.%s(rand, %s) returned nil although values inside the documented range exist", cs.Fn, argName), d.Payload)
			} else {
				realDead[cs.Fn+"|"+cs.Arg] = true
				samplerHangs[cs.Fn+" (nil)"] = append(samplerHangs[cs.Fn+" (nil)"], arg.Int64())
			}
			continue
		}
		if o.Nils > 0 {
			ctx.Report(fmt.Sprintf("C19:%s:returns-nil-sometimes:%s", cs.Fn, c19ArgClass(arg)),
				fmt.Sprintf("common.%s(rand, %s) returned nil in %d of %d calls", cs.Fn, argName, o.Nils, o.Calls), d.Payload)
		}
		for _, vs := range o.Values {
			v := c19Big(vs)
			def := c19HelperDefect(cs.Fn, arg, v, factors)
			if cs.Label == "" && arg.IsInt64() && v.IsInt64() && v.Int64() < 1<<30 {
				records = append(records, c19Record{Fn: cs.Fn, Arg: []int64{arg.Int64()}, Ret: []int64{v.Int64()}, defect: def, origin: d.Payload})
			} else if def != "" {
				ctx.Report(fmt.Sprintf("C19:%s:%s:large", cs.Fn, def),
					fmt.Sprintf("common.%s(rand, %s) returned %s: %s", cs.Fn, argName, core.Short(vs, 80), def), d.Payload)
			}
		}
	}

	// ---------------- pre-parameters: vendored sets, fresh runs, toy sizes
	preOutcomes := map[string]int{}
	fix, err := pump.LoadEcFixtures(5)
	if err != nil {
		twg.Wait()
		return core.Inconcl("cannot load the vendored parameter sets: %v", err)
	}
	for i := range fix {
		ds := c19PreParamsDefects(c19PreFields(&fix[i].LocalPreParams))
		cov.Case(fmt.Sprintf("pre|vendored|%d", i), true)
		if len(ds) > 0 {
			// stored data, not a behaviour of the code under test: recorded, not judged
			ctx.Note("vendored pre-parameter set %d does not have the structure of the property: %v", i, ds)
			preOutcomes["vendored: defects"]++
		} else {
			preOutcomes["vendored: ok"]++
		}
	}
	freshOK := 0
	preAll := append(append([]c19Done(nil), preDone...), ntDone...)
	{
		// cases that did not come back (deadlock / busy, seen by the watchdog of the child) are confirmed alone; cases the
		// child skipped after such an event are run again
		var abIdx []int
		var abPls []c19Payload
		var skipped []int
		for i, d := range preAll {
			var o c19PreOut
			if d.Status == "ok" {
				json.Unmarshal(d.Raw, &o)
			}
			switch o.Outcome {
			case "deadlock", "busy":
				if len(abPls) < 3 {
					abIdx = append(abIdx, i)
					abPls = append(abPls, d.Payload)
				} else {
					skipped = append(skipped, i)
				}
			case "skipped":
				skipped = append(skipped, i)
			}
		}
		confirmedHang := genSum.stopped // a generator that does not return is already reported: same cause
		for attempt := 0; attempt < 3 && len(abPls) > 0; attempt++ {
			// a deadlock that depends on the schedule need not show again at once: up to three re-runs, each alone
			again, e := c19ConfirmMany(abPls, 1, 3)
			if e != nil {
				twg.Wait()
				return core.Inconcl("child processes: %v", e)
			}
			var restIdx []int
			var restPls []c19Payload
			for k, i := range abIdx {
				cs := *preAll[i].Payload.Pre
				var o2 c19PreOut
				if again[k].Status == "ok" {
					json.Unmarshal(again[k].Raw, &o2)
				}
				switch {
				case again[k].Status == "ok" && o2.Outcome == "deadlock" && c19HasLibFrames(o2.Dump):
					confirmedHang = true
					ctx.Report(fmt.Sprintf("C19:pre-parameters:%s:never-returns:deadlock", cs.Mode),
						fmt.Sprintf("pre-parameter case %s did not return in the batch and again alone in a fresh process (re-run %d): every goroutine of the library is blocked:\n%s", cs.ID(), attempt+1, core.Short(o2.Dump, 5000)), preAll[i].Payload)
					preAll[i].Status = "judged"
				case again[k].Status == "ok" && o2.Outcome == "busy":
					ctx.Note("pre-parameter case %s was still computing at its deadline twice: not judged", cs.ID())
					preAll[i].Status = "judged"
				case attempt < 2 && again[k].Status == "ok" && o2.Outcome != "deadlock":
					restIdx = append(restIdx, i)
					restPls = append(restPls, abPls[k])
					preAll[i] = again[k] // it came back this time
				default:
					preAll[i] = again[k]
				}
			}
			abIdx, abPls = restIdx, restPls
		}
		if len(abPls) > 0 && !confirmedHang {
			twg.Wait()
			return core.Inconcl("pre-parameter case %s: the watchdog saw every library goroutine blocked once in the batch; three re-runs alone came back normally", abPls[0].ID())
		}
		if len(skipped) > 0 {
			if confirmedHang {
				ctx.Note("%d pre-parameter cases were not run after a confirmed hang", len(skipped))
				for _, i := range skipped {
					preAll[i].Status = "judged"
				}
			} else {
				pls := make([]c19Payload, len(skipped))
				for k, i := range skipped {
					pls[k] = preAll[i].Payload
				}
				again, e := c19RunBatch(pls, 2, 30*time.Minute)
				if e != nil {
					twg.Wait()
					return core.Inconcl("child processes: %v", e)
				}
				for k, i := range skipped {
					var o2 c19PreOut
					if again[k].Status == "ok" {
						json.Unmarshal(again[k].Raw, &o2)
					}
					if confirmedHang && (o2.Outcome == "skipped" || o2.Outcome == "deadlock" || o2.Outcome == "busy") {
						preAll[i].Status = "judged"
						continue
					}
					if o2.Outcome == "skipped" || o2.Outcome == "deadlock" || o2.Outcome == "busy" {
						twg.Wait()
						return core.Inconcl("pre-parameter case %s did not come back in the second round either (%s) although the first hang was not confirmed", pls[k].ID(), o2.Outcome)
					}
					preAll[i] = again[k]
				}
			}
		}
	}
	for _, d := range preAll {
		if d.Status == "judged" {
			continue
		}
		cs := *d.Payload.Pre
		if d.Status != "ok" {
			again, e := c19Confirm(d.Payload, 1)
			if e != nil {
				twg.Wait()
				return core.Inconcl("child processes: %v", e)
			}
			if again.Status != "ok" && c19HasLibFrames(again.Detail) {
				ctx.Report(fmt.Sprintf("C19:pre-parameters:%s:%s", cs.Mode, again.Status),
					fmt.Sprintf("pre-parameter case %s: the child process ended with %s twice (the second time alone):\n%s", cs.ID(), again.Status, core.Short(again.Detail, 4000)), d.Payload)
				continue
			}
			if again.Status != "ok" {
				twg.Wait()
				return core.Inconcl("pre-parameter case %s: child %s without library frames", cs.ID(), again.Status)
			}
			d = again
		}
		var o c19PreOut
		if e := json.Unmarshal(d.Raw, &o); e != nil {
			twg.Wait()
			return core.Inconcl("cannot parse the output of %s: %v", cs.ID(), e)
		}
		cov.Case("pre|"+cs.Mode+"|"+fmt.Sprint(cs.Bits), true)
		preOutcomes[cs.Mode+": "+o.Outcome]++
		switch o.Outcome {
		case "panic":
			ctx.Report(fmt.Sprintf("C19:pre-parameters:%s:panic", cs.Mode), fmt.Sprintf("pre-parameter case %s panicked: %s", cs.ID(), core.Short(o.Panic, 400)), d.Payload)
			continue
		case "error":
			if o.CtxExpired {
				ctx.Note("pre-parameter case %s ended with its context deadline after %.0f s (tape served %d primes, dry=%v): not judged", cs.ID(), o.ElapsedS, o.TapeServed, o.TapeDry)
			} else {
				ctx.Report(fmt.Sprintf("C19:pre-parameters:%s:error", cs.Mode),
					fmt.Sprintf("pre-parameter case %s returned the error %q although its context was live and its entropy source worked", cs.ID(), o.Err), d.Payload)
			}
			continue
		}
		f := map[string]*big.Int{}
		for k, v := range o.Fields {
			f[k] = c19Big(v)
		}
		switch cs.Mode {
		case "tape", "fresh":
			ds := c19PreParamsDefects(o.Fields)
			if !o.ValidateOK {
				ds = append(ds, "Validate-or-ValidateWithProof-false")
			}
			for _, dd := range ds {
				ctx.Report("C19:GeneratePreParams:"+dd, fmt.Sprintf("keygen.GeneratePreParamsWithContextAndRandom (case %s) returned pre-parameters with the defect %q (all defects: %v)", cs.ID(), dd, ds), d.Payload)
			}
			if len(ds) == 0 {
				freshOK++
			}
			cov.Sample(map[string]any{"pre_parameters": cs.Mode, "elapsed_s": o.ElapsedS, "tape_primes_served": o.TapeServed, "tape_dry": o.TapeDry,
				"NTildei": core.Short(o.Fields["NTildei"], 40), "defects": ds}, 12)
		case "toy-paillier":
			ds := c19PaillierDefects(f, cs.Bits)
			if pn := f["PublicN"]; pn == nil || f["PaillierN"] == nil || pn.Cmp(f["PaillierN"]) != 0 {
				ds = append(ds, "public-key-differs")
			}
			for _, dd := range ds {
				ctx.Report("C19:paillier.GenerateKeyPair:"+dd, fmt.Sprintf("paillier.GenerateKeyPair(modulusBitLen=%d) returned a key with the defect %q: P=%s Q=%s N=%s", cs.Bits, dd,
					core.Short(o.Fields["PaillierP"], 40), core.Short(o.Fields["PaillierQ"], 40), core.Short(o.Fields["PaillierN"], 40)), d.Payload)
			}
			if cs.Bits <= 30 && f["PaillierN"] != nil && f["PaillierP"] != nil && f["PaillierQ"] != nil && f["PaillierPhiN"] != nil && f["PaillierLambdaN"] != nil {
				def := ""
				if len(ds) > 0 {
					def = ds[0]
				}
				records = append(records, c19Record{Fn: "PaillierKey", Arg: []int64{int64(cs.Bits)},
					Ret: []int64{f["PaillierP"].Int64(), f["PaillierQ"].Int64(), f["PaillierN"].Int64(), f["PaillierPhiN"].Int64(), f["PaillierLambdaN"].Int64()}, defect: def, origin: d.Payload})
			}
		case "toy-ntilde":
			P, Q := c19Big(cs.P), c19Big(cs.Q)
			N, h1, h2 := f["NTildei"], f["H1i"], f["H2i"]
			def := ""
			switch {
			case N == nil || h1 == nil || h2 == nil:
				def = "missing-value"
			case new(big.Int).Mul(P, Q).Cmp(N) != 0:
				def = "ntilde-is-not-P*Q"
			default:
				var fs []*big.Int
				if P.Cmp(Q) != 0 {
					fs = []*big.Int{P, Q}
				} else if N.BitLen() > 16 {
					fs = nil
				}
				for name, h := range map[string]*big.Int{"h1": h1, "h2": h2} {
					var dd string
					if P.Cmp(Q) == 0 && N.BitLen() > 16 {
						dd = c19HelperDefect("GetRandomPositiveRelativelyPrimeInt", N, h, nil) // a square modulus above the brute-force range: unit only
					} else {
						if P.Cmp(Q) == 0 {
							fs = nil
						}
						dd = c19HelperDefect("GetRandomGeneratorOfTheQuadraticResidue", N, h, fs)
					}
					if dd != "" && def == "" {
						def = name + "-" + dd
					}
				}
			}
			if def != "" && (N == nil || N.Cmp(big.NewInt(46341)) >= 0) {
				ctx.Report("C19:GenerateNTildei:"+def, fmt.Sprintf("crypto.GenerateNTildei on the safe primes %s, %s returned NTilde=%v h1=%v h2=%v: %s", cs.P, cs.Q, N, h1, h2, def), d.Payload)
			}
			if N != nil && h1 != nil && h2 != nil && N.Cmp(big.NewInt(46341)) < 0 {
				records = append(records, c19Record{Fn: "NTilde", Arg: []int64{P.Int64(), Q.Int64()}, Ret: []int64{N.Int64(), h1.Int64(), h2.Int64()}, defect: def, origin: d.Payload})
			}
		}
	}

	// ---------------- binding (A): the generator runs against SafePrimeGen_Trace
	bindA := func() error {
		traced := 0
		if len(traceOrder)+len(barOrder) > 0 {
			type chunk struct {
				lines []string
				owner []string
				maxC  int
			}
			var cks []*chunk
			split := func(order []string, chunks, mc int) {
				if len(order) == 0 {
					return
				}
				if chunks > len(order) {
					chunks = 1
				}
				base := len(cks)
				for i := 0; i < chunks; i++ {
					cks = append(cks, &chunk{maxC: mc})
				}
				for i, k := range order {
					c := cks[base+i%chunks]
					for _, l := range strings.Split(k, "\n") {
						c.lines = append(c.lines, l)
						c.owner = append(c.owner, k)
					}
				}
			}
			split(traceOrder, ctx.Pick(2, 4), maxC)
			split(barOrder, ctx.Pick(1, 2), barMaxC)
			var cwg sync.WaitGroup
			errs := make([]error, len(cks))
			for i := range cks {
				cwg.Add(1)
				go func(i int) {
					defer cwg.Done()
					hw, res, e := c19TraceRun("SafePrimeGen_Trace", c19SPGTraceCfg(cks[i].maxC), cks[i].lines, 30*time.Minute)
					if e != nil {
						errs[i] = fmt.Errorf("trace validation machinery: %v", e)
						return
					}
					cov.AddMC(res.Distinct, res.Generated)
					s.dbg("trace chunk %d (MaxC %d): %d lines, %d distinct / %d generated states, %.1fs", i, cks[i].maxC, len(cks[i].lines), res.Distinct, res.Generated, res.Wall)
					if !(res.OK && hw == len(cks[i].lines)) {
						line := hw + 1
						if line > len(cks[i].lines) {
							line = len(cks[i].lines)
						}
						errs[i] = fmt.Errorf("SafePrimeGen_Trace does not explain line %d (%s) of the recorded call\n%s\n(case %s; TLC: %s) - the model and the observation disagree although no clause of the property is broken",
							line, cks[i].lines[line-1], cks[i].owner[line-1], traceOwner[cks[i].owner[line-1]].ID(), res.Violated)
					}
				}(i)
			}
			// self tests: corrupted records must be rejected at the corrupted line
			var selfErr [2]error
			selfTest := func(slot int, what string, order []string, mc int, pick func(k string) bool, corrupt func(line string) (string, bool)) {
				cwg.Add(1)
				go func() {
					defer cwg.Done()
					var base []string
					for _, k := range order {
						if pick(k) {
							base = strings.Split(k, "\n")
							break
						}
					}
					if base == nil {
						return
					}
					bad := make([]string, len(base))
					copy(bad, base)
					at := -1
					for i := range bad {
						if nl, ok := corrupt(bad[i]); ok && at < 0 {
							bad[i], at = nl, i
						}
					}
					if at < 0 {
						return
					}
					hw, _, e := c19TraceRun("SafePrimeGen_Trace", c19SPGTraceCfg(mc), bad, 10*time.Minute)
					if e != nil {
						selfErr[slot] = fmt.Errorf("trace self test: %v", e)
					} else if hw != at {
						selfErr[slot] = fmt.Errorf("trace self test: %s was explained up to line %d (expected %d)", what, hw, at)
					}
				}()
			}
			selfTest(0, "an undisturbed call recorded as returning ErrGeneratorCancelled", traceOrder, maxC,
				func(k string) bool { return strings.Contains(k, `"outcome":"primes"`) && !strings.Contains(k, `"Cancel"`) },
				func(l string) (string, bool) {
					if strings.Contains(l, `"ev":"Return"`) {
						return `{"count":0,"ev":"Return","outcome":"cancelled"}`, true
					}
					return l, false
				})
			// a reader recorded as having opened by itself with one producer fewer inside than its width
			selfTest(1, "a barrier reader recorded as open by count with a producer missing", barOrder, barMaxC,
				func(k string) bool {
					return strings.Contains(k, `"forced":false`) && !strings.Contains(k, `"held":1}`) && !strings.Contains(k, `"Cancel"`)
				},
				func(l string) (string, bool) {
					if strings.Contains(l, `"ev":"BarrierOpen"`) {
						var e struct {
							Held int `json:"held"`
						}
						json.Unmarshal([]byte(l), &e)
						return fmt.Sprintf(`{"ev":"BarrierOpen","forced":false,"held":%d}`, e.Held-1), true
					}
					return l, false
				})
			cwg.Wait()
			for _, e := range errs {
				if e != nil {
					return core.Inconcl("%v", e)
				}
			}
			for _, e := range selfErr {
				if e != nil {
					return core.Inconcl("%v", e)
				}
			}
			for _, k := range traceOrder {
				traced += traceMult[k]
			}
			for _, k := range barOrder {
				traced += traceMult[k]
			}
			cov.AddTraces(traced)
			cov.Set("generator_runs_explained_by_SafePrimeGen_Trace", traced)
			cov.Set("distinct_recorded_calls", len(traceOrder)+len(barOrder))
			cov.Set("distinct_recorded_calls_with_barrier_reader", len(barOrder))
			cov.Set("trace_concurrency_projection", fmt.Sprintf("min(concurrency, %d); calls with a barrier reader min(concurrency, %d)", maxC, barMaxC))
		}

		s.dbg("trace validation done (%d + %d distinct calls)", len(traceOrder), len(barOrder))
		return nil
	}
	// ---------------- binding (C): TLC as oracle for the toy-sized values
	bindC := func() error {
		sort.SliceStable(records, func(i, j int) bool { return records[i].Fn < records[j].Fn })
		{
			seen := map[string]bool{}
			var uniq []c19Record
			for _, r := range records {
				if l := r.line(); !seen[l] {
					seen[l] = true
					uniq = append(uniq, r)
				}
			}
			records = uniq
		}
		oracleRejected := 0
		if len(records) > 0 {
			var selfErr error
			var swg sync.WaitGroup
			swg.Add(1)
			go func() {
				defer swg.Done()
				// self test: a good record followed by a corrupted one
				var good *c19Record
				for i := range records {
					if records[i].defect == "" && (records[i].Fn == "SafePrime" || records[i].Fn == "GetRandomPositiveInt") {
						good = &records[i]
						if (ctx.Seed+int64(i))%2 == 0 {
							break
						}
					}
				}
				if good == nil {
					return
				}
				bad := *good
				bad.Ret = append([]int64(nil), good.Ret...)
				if bad.Fn == "SafePrime" {
					bad.Ret[1] += 2
				} else {
					bad.Ret[0] = bad.Arg[0]
				}
				hw, _, e := c19TraceRun("Samplers_Trace", c19OracleCfg, []string{good.line(), bad.line()}, 10*time.Minute)
				if e != nil {
					selfErr = fmt.Errorf("oracle self test: %v", e)
				} else if hw != 1 {
					selfErr = fmt.Errorf("oracle self test: corrupted record %s was not rejected (explained %d lines)", bad.line(), hw)
				}
			}()
			rest := records
			accepted := 0
			for round := 0; round < 6 && len(rest) > 0; round++ {
				lines := make([]string, len(rest))
				for i, r := range rest {
					lines[i] = r.line()
				}
				hw, res, e := c19TraceRun("Samplers_Trace", c19OracleCfg, lines, 30*time.Minute)
				if e != nil {
					swg.Wait()
					return core.Inconcl("oracle machinery: %v", e)
				}
				accepted += hw
				// every explained record must also be clean for math/big
				for i := 0; i < hw && i < len(rest); i++ {
					if rest[i].defect != "" {
						swg.Wait()
						return core.Inconcl("Samplers_Trace explains %s, math/big finds the defect %q: the oracles disagree", rest[i].line(), rest[i].defect)
					}
				}
				if res.OK && hw == len(rest) {
					rest = nil
					break
				}
				bad := rest[hw]
				if bad.defect == "" {
					swg.Wait()
					return core.Inconcl("Samplers_Trace rejects %s, math/big finds no defect: the oracles disagree", bad.line())
				}
				oracleRejected++
				ctx.Report(bad.key(),
					fmt.Sprintf("the real code returned %v for %s%v: %s (rejected by TLC on Samplers_Trace.tla and by math/big)", bad.Ret, bad.Fn, bad.Arg, bad.defect), bad.origin)
				rest = rest[hw+1:]
			}
			swg.Wait()
			if selfErr != nil {
				return core.Inconcl("%v", selfErr)
			}
			if len(rest) > 0 {
				ctx.Note("%d toy records were not looked at by TLC after %d rejected ones", len(rest), oracleRejected)
				for _, r := range rest {
					if r.defect != "" {
						ctx.Report(r.key(), fmt.Sprintf("the real code returned %v for %s%v: %s (math/big)", r.Ret, r.Fn, r.Arg, r.defect), r.origin)
					}
				}
			}
			cov.AddTraces(accepted)
			cov.Set("toy_values_validated_by_TLC", accepted)
			cov.Set("toy_values_rejected_by_TLC", oracleRejected)
		}

		s.dbg("oracle done (%d records)", len(records))
		return nil
	}
	design := func() error {
		// ---------------- TLC: results of the design runs
		s.dbg("real-code judgement done, waiting for TLC")
		twg.Wait()
		for n, j := range jobs {
			s.dbg("tlc %s: %.1fs", n, j.Res.Wall)
		}
		var mcOut []map[string]any
		for _, name := range []string{"spg-safety", "spg-liveness", "samplers"} {
			j := jobs[name]
			if j.Res.Err != nil {
				return core.Inconcl("TLC %s: %v", name, j.Res.Err)
			}
			if !j.Res.OK {
				return core.Inconcl("TLC %s: the design violates %s:\n%s", name, j.Res.Violated, j.Res.ErrorTrace(2500))
			}
			cov.AddMC(j.Res.Distinct, j.Res.Generated)
			mcOut = append(mcOut, map[string]any{"run": name, "distinct": j.Res.Distinct, "generated": j.Res.Generated, "depth": j.Res.Depth, "wall_s": j.Res.Wall})
		}
		// the wrong designs must be refuted by TLC in the expected way (self test of the model)
		if j := jobs["spg-defect-send"]; j.Res.Err != nil || j.Res.Violated != "deadlock" ||
			!strings.Contains(c19LastState(j.Res.Output), `cpc = "ret_wait"`) ||
			!strings.Contains(c19LastState(j.Res.Output), `"send"`) {
			return core.Inconcl("SafePrimeGen with SendSelectsOnCancel = FALSE (the design before commit 89caa94) should deadlock with producers in \"send\" and the consumer in \"ret_wait\": err=%v violated=%q", j.Res.Err, j.Res.Violated)
		} else {
			mcOut = append(mcOut, map[string]any{"run": "spg-defect-send (SendSelectsOnCancel=FALSE)", "expected": "deadlock: producers blocked in send, consumer in wg.Wait", "found": j.Res.Violated, "distinct": j.Res.Distinct, "generated": j.Res.Generated})
		}
		for _, name := range []string{"spg-defect-errcap-1", "spg-defect-errcap-c-1"} {
			j := jobs[name]
			if j.Res.Err != nil || j.Res.Violated != "deadlock" ||
				!strings.Contains(c19LastState(j.Res.Output), `cpc = "ret_wait"`) ||
				!strings.Contains(c19LastState(j.Res.Output), `"senderr"`) {
				return core.Inconcl("SafePrimeGen with an error channel of capacity below the number of producers (%s) should deadlock with a producer in \"senderr\" and the consumer in \"ret_wait\": err=%v violated=%q", name, j.Res.Err, j.Res.Violated)
			}
			mcOut = append(mcOut, map[string]any{"run": name + " (ErrCap < c)", "expected": "deadlock: producers blocked in the error send, consumer in wg.Wait", "found": j.Res.Violated, "distinct": j.Res.Distinct, "generated": j.Res.Generated})
		}
		if j, ok := jobs["spg-primecap-n"]; ok {
			if j.Res.Err != nil || !j.Res.OK {
				return core.Inconcl("SafePrimeGen with PrimeCap = numPrimes (the result send gives up on cancellation) should satisfy the design: err=%v violated=%q", j.Res.Err, j.Res.Violated)
			}
			cov.AddMC(j.Res.Distinct, j.Res.Generated)
			mcOut = append(mcOut, map[string]any{"run": "spg-primecap-n (PrimeCap = numPrimes)", "expected": "no error", "distinct": j.Res.Distinct, "generated": j.Res.Generated})
		}
		if j := jobs["spg-defect-close"]; j.Res.Err != nil || j.Res.Violated != "NoSendOnClosed" {
			return core.Inconcl("SafePrimeGen with CloseBeforeWait = TRUE should violate NoSendOnClosed: err=%v violated=%q", j.Res.Err, j.Res.Violated)
		} else {
			mcOut = append(mcOut, map[string]any{"run": "spg-defect-close (CloseBeforeWait=TRUE)", "expected": "NoSendOnClosed violated", "found": j.Res.Violated, "distinct": j.Res.Distinct, "generated": j.Res.Generated})
		}
		cov.Set("mc_runs", mcOut)

		// ---------------- prediction of the Samplers model against the real helpers
		var pred c19Prediction
		if js, ok := c19Printed(jobs["samplers"].Res.Output, "C19PREDICT"); !ok || json.Unmarshal([]byte(js), &pred) != nil {
			return core.Inconcl("cannot read the prediction printed by MC_Samplers")
		}
		predDead := map[string]bool{}
		deadOut := map[string][]int64{}
		for _, dd := range pred.Dead {
			sort.Slice(dd.Args, func(i, j int) bool { return dd.Args[i] < dd.Args[j] })
			deadOut[dd.Fn] = dd.Args
			for _, a := range dd.Args {
				predDead[fmt.Sprintf("%s|%d", dd.Fn, a)] = true
			}
		}
		for k := range predDead {
			if !realDead[k] {
				return core.Inconcl("Samplers.tla predicts that %s can never return, the real helper returned values (and none was judged out of range): model and code disagree", k)
			}
		}
		for k := range realDead {
			if !predDead[k] {
				// the real helper hangs / refuses where the model has accepted draws: the hang was reported above; a nil is a violation here
				parts := strings.SplitN(k, "|", 2)
				found := false
				for _, a := range samplerHangs[parts[0]] {
					if fmt.Sprint(a) == parts[1] {
						found = true
					}
				}
				if !found {
					ctx.Report(fmt.Sprintf("C19:%s:returns-nil:%s", parts[0], c19ArgClass(c19Big(parts[1]))),
						fmt.Sprintf("common.%s(rand, %s) returned nil although values inside the documented range exist (Samplers!Returnable is not empty)", parts[0], parts[1]), c19Payload{Sampler: &c19SamplerCase{Fn: parts[0], Arg: parts[1], Reps: 40, Seed: ctx.Seed, DeadlineS: 8}})
				}
			}
		}
		cov.Set("helpers_predicted_never_to_return (Samplers!DeadArgs)", deadOut)
		cov.Set("helpers_observed_not_returning", samplerHangs)
		// pairs per toy bit length: all real ones must be predicted; how many of the predicted ones were seen
		pairCov := map[string]string{}
		for _, sp := range pred.Safe {
			set := map[string]bool{}
			for _, q := range sp.Qs {
				set[fmt.Sprint(q)] = true
			}
			seen := 0
			for q := range seenPairs[sp.Bits] {
				if set[q] {
					seen++
				}
			}
			pairCov[fmt.Sprint(sp.Bits)] = fmt.Sprintf("%d of %d predicted pairs returned by the real generator", seen, len(sp.Qs))
		}
		cov.Set("safe_pairs_per_toy_bit_length", pairCov)
		if len(pred.NoBeta) > 0 {
			n := pred.NoBeta[0]
			cov.Set("design_observation_alpha_without_beta", fmt.Sprintf("toy NTilde=%d*%d: %d of the alphas coprime to NTilde have no inverse modulo p*q (prepare.go draws alpha coprime to NTilde, not to p*q; probability about 2^-1022 at real size: not reachable, not judged)", n.P, n.Q, len(n.Alphas)))
		}

		return nil
	}
	var errA, errC error
	var bwg sync.WaitGroup
	bwg.Add(2)
	go func() { defer bwg.Done(); errA = bindA() }()
	go func() { defer bwg.Done(); errC = bindC() }()
	errD := design()
	bwg.Wait()
	if errD != nil {
		return errD
	}
	if errA != nil {
		return errA
	}
	if errC != nil {
		return errC
	}
	// ---------------- evidence
	cov.Set("generator_cases", len(genCases))
	cov.Set("generator_cases_finished", len(genSum.results))
	cov.Set("generator_outcomes", outcomes)
	cov.Set("barrier_reader_schedules", barStats)
	cov.Set("max_ms_between_cancellation_and_return", maxAfterCancel)
	cov.Set("helper_cases", len(samplerCases))
	cov.Set("helper_outcomes", samplerOutcomes)
	cov.Set("pre_parameter_outcomes", preOutcomes)
	cov.Set("fresh_pre_parameter_sets_ok", freshOK)
	cov.Set("wave1_wall_s", wave1)
	cov.Set("exhaustive", false)
	return ctx.WriteEvidence("model_checking",
		"one case = one real call: GetRandomSafePrimesConcurrent (bit length, concurrency, numPrimes, GOMAXPROCS, entropy reader, cancellation mode), a helper of common/random.go (function, argument; "+
			"many calls per case), a pre-parameter generation (vendored set / fresh run / toy size); distinct = distinct input classes. Verdict from the real outputs: pairs and values judged with math/big "+
			"(toy sizes also by TLC on Samplers_Trace.tla), calls that never return (confirmed alone, goroutine dump), producer goroutines left after a settle loop. states/transitions: TLC on "+
			"SafePrimeGen.tla (invariants "+c19SPGInvs+"; liveness "+c19SPGProps+"; deadlock check), Samplers.tla (Contract, Exact, GeneratorShape, PreParamsRelations) and the trace runs; "+
			"traces: generator runs explained by SafePrimeGen_Trace.tla plus toy values validated by Samplers_Trace.tla",
		cov, []string{
			"math/big (ProbablyPrime(32), GCD, Exp) as the judge above TLC's integer range; TLC trial division / brute-force residuosity below it",
			"a call is 'not returning' when it exceeds a deadline of 30 s (toy / small sizes; milliseconds normally) in a batch and again alone in a fresh process; larger sizes are judged only when every library goroutine is blocked",
			"goroutines are attributed to the generator by the frame common.runGenPrimeRoutine in runtime.Stack",
			"the fresh pre-parameter runs use an entropy reader that serves the Sophie Germain primes of the vendored sets when exactly 128 bytes are requested: primality, bit length and distinctness of the primes in these runs hold by construction; judged there are the assembly of the Paillier key, NTilde, h1, h2, alpha, beta",
			"the generator's concurrency is projected to min(c, MaxC) for the trace model; the arithmetic of a producer is one non-deterministic choice per attempt in SafePrimeGen.tla",
			"the vendored pre-parameter sets are data (recorded if they break the structure, not judged)",
		}, "java tlc2.TLC MC_SafePrimeGen.tla / SafePrimeGen_Trace.tla / MC_Samplers.tla / Samplers_Trace.tla")
}

// replay re-runs one stored case alone in a fresh child and judges it.
func (s *c19State) replay(pl c19Payload) error {
	ctx := s.ctx
	d, err := c19Confirm(pl, 1)
	if err != nil {
		return core.Inconcl("replay: %v", err)
	}
	switch {
	case pl.Gen != nil:
		var o c19GenOut
		if d.Status == "ok" {
			json.Unmarshal(d.Raw, &o)
		}
		if d.Status != "ok" || o.Outcome == "deadlock" || o.Outcome == "busy" {
			_, _, err := s.genAbnormal(d)
			if err != nil {
				return core.Inconcl("replay: %v", err)
			}
			return nil
		}
		fmt.Printf("replay %s: outcome %s, %d pair(s), library goroutines left %d\n", pl.ID(), o.Outcome, o.Count, o.LibAfter-o.LibBase)
		for _, v := range c19JudgeGen(*pl.Gen, o) {
			s.report(v, pl)
		}
	case pl.Sampler != nil:
		cs := *pl.Sampler
		arg := c19Big(cs.Arg)
		var o c19SamplerOut
		if d.Status != "ok" {
			if c19HasLibFrames(d.Detail) {
				ctx.Report(fmt.Sprintf("C19:%s:crash:%s", cs.Fn, c19ArgClass(arg)), fmt.Sprintf("common.%s(%s) killed the process:\n%s", cs.Fn, cs.Arg, core.Short(d.Detail, 3000)), pl)
				return nil
			}
			return core.Inconcl("replay: child %s", d.Status)
		}
		json.Unmarshal(d.Raw, &o)
		fmt.Printf("replay %s: outcome %s, %d value(s)\n", pl.ID(), o.Outcome, len(o.Values))
		var factors []*big.Int
		for _, f := range cs.Factors {
			factors = append(factors, c19Big(f))
		}
		switch o.Outcome {
		case "hang":
			ctx.Report(fmt.Sprintf("C19:%s:never-returns:%s", cs.Fn, c19ArgClass(arg)),
				fmt.Sprintf("common.%s(rand, %s) did not return within %d s; the goroutine at the deadline:\n%s", cs.Fn, core.Short(cs.Arg, 60), cs.DeadlineS, core.Short(o.Dump, 2500)), pl)
		case "panic":
			ctx.Report(fmt.Sprintf("C19:%s:panic:%s", cs.Fn, c19ArgClass(arg)), fmt.Sprintf("common.%s(rand, %s) panicked: %s", cs.Fn, core.Short(cs.Arg, 60), o.Panic), pl)
		case "nil":
			ctx.Report(fmt.Sprintf("C19:%s:returns-nil:%s", cs.Fn, c19ArgClass(arg)), fmt.Sprintf("common.%s(rand, %s) returned nil", cs.Fn, core.Short(cs.Arg, 60)), pl)
		default:
			for _, vs := range o.Values {
				if def := c19HelperDefect(cs.Fn, arg, c19Big(vs), factors); def != "" {
					size := "toy"
					if cs.Label != "" {
						size = "large"
					}
					ctx.Report(fmt.Sprintf("C19:%s:%s:%s", cs.Fn, def, size), fmt.Sprintf("common.%s(rand, %s) returned %s: %s", cs.Fn, core.Short(cs.Arg, 60), core.Short(vs, 80), def), pl)
				}
			}
		}
	case pl.Pre != nil:
		cs := *pl.Pre
		if d.Status != "ok" {
			if c19HasLibFrames(d.Detail) {
				ctx.Report(fmt.Sprintf("C19:pre-parameters:%s:%s", cs.Mode, d.Status), fmt.Sprintf("pre-parameter case %s: the child process ended with %s:\n%s", cs.ID(), d.Status, core.Short(d.Detail, 4000)), pl)
				return nil
			}
			return core.Inconcl("replay: child %s", d.Status)
		}
		var o c19PreOut
		json.Unmarshal(d.Raw, &o)
		fmt.Printf("replay %s: outcome %s\n", pl.ID(), o.Outcome)
		if o.Outcome == "deadlock" && c19HasLibFrames(o.Dump) {
			ctx.Report(fmt.Sprintf("C19:pre-parameters:%s:never-returns:deadlock", cs.Mode),
				fmt.Sprintf("pre-parameter case %s did not return: every goroutine of the library is blocked:\n%s", cs.ID(), core.Short(o.Dump, 5000)), pl)
		} else if o.Outcome == "ok" && (cs.Mode == "tape" || cs.Mode == "fresh") {
			ds := c19PreParamsDefects(o.Fields)
			if !o.ValidateOK {
				ds = append(ds, "Validate-or-ValidateWithProof-false")
			}
			for _, dd := range ds {
				ctx.Report("C19:GeneratePreParams:"+dd, fmt.Sprintf("keygen.GeneratePreParamsWithContextAndRandom (case %s) returned pre-parameters with the defect %q (all defects: %v)", cs.ID(), dd, ds), pl)
			}
		} else if o.Outcome == "ok" && cs.Mode == "toy-paillier" {
			f := map[string]*big.Int{}
			for k, v := range o.Fields {
				f[k] = c19Big(v)
			}
			for _, dd := range c19PaillierDefects(f, cs.Bits) {
				ctx.Report("C19:paillier.GenerateKeyPair:"+dd, fmt.Sprintf("paillier.GenerateKeyPair(modulusBitLen=%d) returned a key with the defect %q", cs.Bits, dd), pl)
			}
		} else if o.Outcome == "panic" {
			ctx.Report(fmt.Sprintf("C19:pre-parameters:%s:panic", cs.Mode), fmt.Sprintf("pre-parameter case %s panicked: %s", cs.ID(), core.Short(o.Panic, 400)), pl)
		} else {
			fmt.Printf("replay: %s %s (toy NTilde cases and errors are re-judged only in a full run)\n", o.Outcome, o.Err)
		}
	}
	return nil
}

var _ = sandbox.Result{}
