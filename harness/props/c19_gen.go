package props

// C19, part 1: runs of the real common.GetRandomSafePrimesConcurrent in journalled child processes.
//
// Every run is one case (bit length, concurrency, numPrimes, GOMAXPROCS, entropy reader, cancellation mode).
// The child records what can be seen from outside the function: the return value (class of the error, the
// pairs), whether the harness began cancelling before it saw the return, whether the reader ever failed, and
// the number of goroutines with runGenPrimeRoutine frames left after a settle loop.  A call that does not
// return by its deadline is dumped (runtime.Stack of all goroutines) and classified: "deadlock" when every
// library goroutine sits in a blocking state in two dumps taken apart, "busy" otherwise.

import (
	"context"
	"encoding/json"
	"errors"
	"fmt"
	"io"
	"math/big"
	"math/rand"
	"regexp"
	"runtime"
	"strings"
	"sync"
	"sync/atomic"
	"time"

	"github.com/bnb-chain/tss-lib/v2/common"

	"verif/harness/sandbox"
)

// ------------------------------------------------------------------ cases

type c19GenCase struct {
	Idx       int    `json:"idx"`
	Bits      int    `json:"bits"`
	C         int    `json:"c"`
	N         int    `json:"n"`
	Procs     int    `json:"procs"`      // GOMAXPROCS during the call
	Entropy   string `json:"entropy"`    // inf | zero | finite
	FailAfter int    `json:"fail_after"` // finite: bytes served before the reader fails
	Cancel    string `json:"cancel"`     // none | pre | during
	DelayUs   int    `json:"delay_us"`   // during: delay before the cancellation
	Seed      int64  `json:"seed"`
	DeadlineS int    `json:"deadline_s"` // watchdog inside the child
}

func (c c19GenCase) ID() string {
	return fmt.Sprintf("gen|b%d|c%d|n%d|p%d|%s:%d|%s:%d", c.Bits, c.C, c.N, c.Procs, c.Entropy, c.FailAfter, c.Cancel, c.DelayUs)
}

// class of the inputs (what the verdict keys and the coverage counters are made of)
func (c c19GenCase) class() string {
	return fmt.Sprintf("b%d|c%d|n%d|p%d|%s|%s", c.Bits, c.C, c.N, c.Procs, c.Entropy, c.Cancel)
}

func c19SizeClass(bits int) string {
	switch {
	case bits <= 16:
		return "toy"
	case bits <= 64:
		return "small"
	case bits <= 512:
		return "medium"
	}
	return "large"
}

type c19GenOut struct {
	Skipped       bool        `json:"skipped,omitempty"` // an earlier case of this child did not return: nothing was run
	Outcome       string      `json:"outcome"`           // primes | cancelled | entropy | othererr | deadlock | busy | panic
	ErrText       string      `json:"err_text,omitempty"`
	Count         int         `json:"count"`
	Pairs         [][2]string `json:"pairs,omitempty"` // q, p (decimal)
	NilPair       bool        `json:"nil_pair,omitempty"`
	ValidateFalse bool        `json:"validate_false,omitempty"` // GermainSafePrime.Validate() of a returned pair is false
	CancelBefore  bool        `json:"cancel_before"`            // the harness began cancelling before it saw the call return
	ReaderFailed  bool        `json:"reader_failed"`
	ReaderServed  int64       `json:"reader_served"`
	LibBase       int         `json:"lib_base"`   // library goroutines before the call (after settling)
	LibAfter      int         `json:"lib_after"`  // ... after the call and the settle loop
	LateReads     int         `json:"late_reads"` // reads of the entropy source after the call had returned
	ElapsedMs     float64     `json:"elapsed_ms"`
	AfterCancelMs float64     `json:"after_cancel_ms,omitempty"` // return time minus cancellation time (during)
	Dump          string      `json:"dump,omitempty"`            // goroutines of the library (hang / leak)
	Panic         string      `json:"panic,omitempty"`
}

// ------------------------------------------------------------------ entropy readers

var errC19Entropy = errors.New("c19: entropy source exhausted")

// c19Reader is a goroutine-safe deterministic byte source that can fail after a number of bytes.
type c19Reader struct {
	mu       sync.Mutex
	r        *rand.Rand
	left     int64 // < 0: unlimited
	failed   bool
	served   int64
	returned bool // the call this reader was handed to has returned
	late     int  // Read calls after that
}

func newC19Reader(seed int64, failAfter int64) *c19Reader {
	return &c19Reader{r: rand.New(rand.NewSource(seed)), left: failAfter}
}

func (r *c19Reader) Read(p []byte) (int, error) {
	r.mu.Lock()
	defer r.mu.Unlock()
	if r.returned {
		r.late++
	}
	if r.left < 0 {
		r.r.Read(p)
		r.served += int64(len(p))
		return len(p), nil
	}
	if r.left == 0 {
		r.failed = true
		return 0, errC19Entropy
	}
	n := len(p)
	if int64(n) > r.left {
		n = int(r.left)
	}
	r.r.Read(p[:n])
	r.left -= int64(n)
	r.served += int64(n)
	if n < len(p) {
		r.failed = true
		return n, errC19Entropy
	}
	return n, nil
}

func (r *c19Reader) state() (failed bool, served int64) {
	r.mu.Lock()
	defer r.mu.Unlock()
	return r.failed, r.served
}

// markReturned is called by the goroutine that made the call, immediately after the call returned.
func (r *c19Reader) markReturned() {
	r.mu.Lock()
	r.returned = true
	r.mu.Unlock()
}

func (r *c19Reader) lateReads() int {
	r.mu.Lock()
	defer r.mu.Unlock()
	return r.late
}

// ------------------------------------------------------------------ goroutine inspection

var c19ReGoroutine = regexp.MustCompile(`^goroutine (\d+) \[([^\]]*)\]:`)

type c19Goroutine struct {
	ID    string
	State string
	Text  string
}

func c19StackAll() string {
	buf := make([]byte, 1<<20)
	for {
		n := runtime.Stack(buf, true)
		if n < len(buf) {
			return string(buf[:n])
		}
		buf = make([]byte, 2*len(buf))
	}
}

// c19LibGoroutines returns the goroutines whose stack contains a frame of the generator's producers
// (producersOnly) or any frame of common/safe_prime.go.
func c19LibGoroutines(producersOnly bool) []c19Goroutine {
	buf := c19StackAll()
	var out []c19Goroutine
	for _, g := range strings.Split(buf, "\n\n") {
		isProd := strings.Contains(g, "common.runGenPrimeRoutine")
		isLib := isProd || strings.Contains(g, "common.GetRandomSafePrimesConcurrent") || strings.Contains(g, "common/safe_prime.go")
		if (producersOnly && !isProd) || !isLib {
			continue
		}
		m := c19ReGoroutine.FindStringSubmatch(g)
		if m == nil {
			continue
		}
		state := m[2]
		if i := strings.Index(state, ","); i >= 0 { // "chan send, 2 minutes"
			state = state[:i]
		}
		out = append(out, c19Goroutine{ID: m[1], State: state, Text: g})
	}
	return out
}

func c19Blocking(state string) bool {
	switch state {
	case "chan send", "chan receive", "select", "semacquire", "sync.WaitGroup.Wait", "sync.Mutex.Lock", "sync.Cond.Wait", "chan send (nil chan)", "chan receive (nil chan)", "select (no cases)":
		return true
	}
	return false
}

func c19DumpText(gs []c19Goroutine, max int) string {
	var sb strings.Builder
	for _, g := range gs {
		t := g.Text
		if len(t) > 1400 {
			t = t[:1400] + "\n\t..."
		}
		sb.WriteString(t)
		sb.WriteString("\n\n")
		if sb.Len() > max {
			sb.WriteString("...(more goroutines)\n")
			break
		}
	}
	return sb.String()
}

// c19Settle waits until no more than base producer goroutines exist.
func c19Settle(base int, limit time.Duration) []c19Goroutine {
	deadline := time.Now().Add(limit)
	sleep := 200 * time.Microsecond
	for {
		gs := c19LibGoroutines(true)
		if len(gs) <= base || time.Now().After(deadline) {
			return gs
		}
		time.Sleep(sleep)
		if sleep < 50*time.Millisecond {
			sleep *= 2
		}
	}
}

// c19Watch waits until `done` is closed.  It gives up (a) at the deadline, or (b) earlier when the call can be seen to be
// deadlocked: no action of the harness is pending, and in three dumps one second apart the same library goroutines sit in
// the same blocking states (channel send / receive, select, WaitGroup) - nothing inside the process can wake them.
// Returns "" when done, else "deadlock" / "busy" and the dump of the library goroutines.
func c19Watch(done <-chan struct{}, deadline time.Duration, pending func() bool, lib func() []c19Goroutine) (kind, dump string) {
	limit := time.After(deadline)
	tick := time.NewTicker(time.Second)
	defer tick.Stop()
	same := func(a, b []c19Goroutine) bool {
		if len(a) == 0 || len(a) != len(b) {
			return false
		}
		for i := range a {
			if a[i].ID != b[i].ID || a[i].State != b[i].State || !c19Blocking(a[i].State) {
				return false
			}
		}
		return true
	}
	var prev []c19Goroutine
	stable, ticks := 0, 0
	for {
		select {
		case <-done:
			return "", ""
		case <-limit:
			g1 := lib()
			time.Sleep(400 * time.Millisecond)
			select {
			case <-done:
				return "", ""
			default:
			}
			g2 := lib()
			if same(g1, g2) {
				return "deadlock", c19DumpText(g2, 6000)
			}
			return "busy", c19DumpText(g2, 6000)
		case <-tick.C:
			ticks++
			if ticks < 3 || (pending != nil && pending()) {
				prev, stable = nil, 0
				continue
			}
			cur := lib()
			if prev != nil && same(prev, cur) {
				stable++
			} else {
				stable = 0
			}
			prev = cur
			if stable >= 3 {
				select {
				case <-done:
					return "", ""
				default:
				}
				return "deadlock", c19DumpText(cur, 6000)
			}
		}
	}
}

// ------------------------------------------------------------------ the child

var c19Poisoned atomic.Bool // a call of this process never returned: its goroutines are still around

func c19RunGen(cs c19GenCase) (out c19GenOut) {
	if c19Poisoned.Load() {
		out.Skipped = true
		return
	}
	if cs.Procs > 0 {
		old := runtime.GOMAXPROCS(cs.Procs)
		defer runtime.GOMAXPROCS(old)
	}
	out.LibBase = len(c19Settle(0, 2*time.Second))
	failAfter := int64(-1)
	switch cs.Entropy {
	case "zero":
		failAfter = 0
	case "finite":
		failAfter = int64(cs.FailAfter)
	}
	rd := newC19Reader(cs.Seed, failAfter)
	ctx, cancel := context.WithCancel(context.Background())
	defer cancel()
	if cs.Cancel == "pre" {
		cancel()
	}
	type ret struct {
		primes    []*common.GermainSafePrime
		err       error
		panicked  string
		cancelled bool // the canceller had started when the return was seen
		at        time.Time
	}
	var cancelStarted atomic.Bool
	var cancelAt atomic.Int64
	done := make(chan ret, 1)
	t0 := time.Now()
	go func() {
		var r ret
		defer func() {
			if p := recover(); p != nil {
				r.panicked = fmt.Sprint(p)
				r.at = time.Now()
				done <- r
			}
		}()
		r.primes, r.err = common.GetRandomSafePrimesConcurrent(ctx, cs.Bits, cs.N, cs.C, rd)
		rd.markReturned()
		r.cancelled = cancelStarted.Load()
		r.at = time.Now()
		done <- r
	}()
	if cs.Cancel == "during" {
		go func() {
			if cs.DelayUs > 0 {
				time.Sleep(time.Duration(cs.DelayUs) * time.Microsecond)
			}
			cancelAt.Store(time.Now().UnixNano())
			cancelStarted.Store(true)
			cancel()
		}()
	}
	deadline := time.Duration(cs.DeadlineS) * time.Second
	if deadline <= 0 {
		deadline = 30 * time.Second
	}
	var r ret
	got := make(chan struct{})
	go func() { r = <-done; close(got) }()
	pending := func() bool { return cs.Cancel == "during" && !cancelStarted.Load() }
	if kind, dump := c19Watch(got, deadline, pending, func() []c19Goroutine { return c19LibGoroutines(false) }); kind != "" {
		out.Outcome, out.Dump = kind, dump
		out.ElapsedMs = float64(time.Since(t0).Microseconds()) / 1000
		out.ReaderFailed, out.ReaderServed = rd.state()
		out.CancelBefore = cancelStarted.Load() || cs.Cancel == "pre"
		c19Poisoned.Store(true)
		return
	}
	out.ElapsedMs = float64(r.at.Sub(t0).Microseconds()) / 1000
	out.CancelBefore = r.cancelled
	if r.cancelled {
		out.AfterCancelMs = float64(r.at.UnixNano()-cancelAt.Load()) / 1e6
	}
	cancel()
	after := c19Settle(out.LibBase, 15*time.Second)
	out.LibAfter = len(after)
	if len(after) > out.LibBase {
		out.Dump = c19DumpText(after, 4000)
	}
	out.ReaderFailed, out.ReaderServed = rd.state()
	out.LateReads = rd.lateReads()
	switch {
	case r.panicked != "":
		out.Outcome, out.Panic = "panic", r.panicked
	case r.err == nil:
		out.Outcome = "primes"
	case errors.Is(r.err, common.ErrGeneratorCancelled):
		out.Outcome = "cancelled"
	case errors.Is(r.err, errC19Entropy) || out.ReaderFailed:
		out.Outcome = "entropy"
	default:
		out.Outcome = "othererr"
	}
	if r.err != nil {
		out.ErrText = r.err.Error()
	}
	out.Count = len(r.primes)
	for _, sgp := range r.primes {
		if sgp == nil || sgp.Prime() == nil || sgp.SafePrime() == nil {
			out.NilPair = true
			continue
		}
		out.Pairs = append(out.Pairs, [2]string{sgp.Prime().String(), sgp.SafePrime().String()})
		if !sgp.Validate() {
			out.ValidateFalse = true
		}
	}
	return
}

// ------------------------------------------------------------------ verdict on one run (the property, on real outputs only)

type c19Viol struct {
	Key, What string
}

func c19Big(s string) *big.Int {
	v, ok := new(big.Int).SetString(s, 10)
	if !ok {
		return big.NewInt(-1)
	}
	return v
}

// c19PairDefect names the first clause of the property a returned pair breaks ("" if none).
func c19PairDefect(q, p *big.Int, bits int) string {
	switch {
	case q.Sign() <= 0 || p.Sign() <= 0:
		return "not-positive"
	case new(big.Int).Add(new(big.Int).Lsh(q, 1), big.NewInt(1)).Cmp(p) != 0:
		return "p-is-not-2q+1"
	case !q.ProbablyPrime(32):
		return "q-not-prime"
	case !p.ProbablyPrime(32):
		return "p-not-prime"
	case p.BitLen() != bits:
		return "p-wrong-bit-length"
	case p.Bit(bits-1) != 1 || p.Bit(bits-2) != 1:
		return "p-top-two-bits-not-set"
	}
	return ""
}

func c19JudgeGen(cs c19GenCase, o c19GenOut) (vs []c19Viol) {
	fn := "C19:GetRandomSafePrimesConcurrent"
	size := c19SizeClass(cs.Bits)
	desc := fmt.Sprintf("GetRandomSafePrimesConcurrent(bitLen=%d, numPrimes=%d, concurrency=%d) [GOMAXPROCS %d, entropy %s, cancellation %s]", cs.Bits, cs.N, cs.C, cs.Procs, cs.Entropy, cs.Cancel)
	add := func(key, what string) { vs = append(vs, c19Viol{key, what}) }
	disturbed := cs.Cancel == "pre" || o.CancelBefore || o.ReaderFailed
	switch o.Outcome {
	case "panic":
		add(fn+":panic:"+size, desc+" panicked: "+o.Panic)
		return
	case "primes":
		if o.Count != cs.N || o.NilPair {
			add(fmt.Sprintf("%s:wrong-count:%s", fn, size), fmt.Sprintf("%s returned %d pair(s) (nil among them: %v) and no error", desc, o.Count, o.NilPair))
		}
		for _, pr := range o.Pairs {
			if d := c19PairDefect(c19Big(pr[0]), c19Big(pr[1]), cs.Bits); d != "" {
				add(fmt.Sprintf("%s:bad-pair:%s:%s", fn, d, size), fmt.Sprintf("%s returned q=%s p=%s: %s", desc, pr[0], pr[1], d))
				break
			}
		}
		if cs.Cancel == "pre" {
			add(fn+":pre-cancelled-context-returns-primes", desc+" returned primes although its context was done before the call")
		}
		if cs.Entropy == "zero" {
			add(fn+":returns-primes-without-entropy", desc+" returned primes although its entropy source fails at the first byte")
		}
	case "cancelled":
		if !(cs.Cancel == "pre" || o.CancelBefore) {
			add(fn+":spurious-cancellation-error:"+size, desc+" returned ErrGeneratorCancelled although nobody had cancelled its context")
		}
	case "entropy":
		// the error of the reader (or an error while the reader had failed): legitimate
	case "othererr":
		if !disturbed {
			add(fn+":spurious-error:"+size, fmt.Sprintf("%s returned the error %q although its context was live and its entropy source worked", desc, o.ErrText))
		}
	}
	if o.LateReads > 0 {
		add(fn+":goroutine-running-after-return:"+size, fmt.Sprintf("%s returned (%s) while a producer goroutine was still running: the entropy source was read %d time(s) after the return", desc, o.Outcome, o.LateReads))
	}
	if o.LibAfter > o.LibBase {
		add(fn+":goroutine-leak:"+size, fmt.Sprintf("%s returned (%s) and left %d producer goroutine(s) behind (15 s settle loop):\n%s", desc, o.Outcome, o.LibAfter-o.LibBase, o.Dump))
	}
	return
}

// c19TraceLines renders a run for SafePrimeGen_Trace.tla (nil if the run has nothing the model speaks about).
func c19TraceLines(cs c19GenCase, o c19GenOut, maxC int) []string {
	if o.Outcome != "primes" && o.Outcome != "cancelled" && o.Outcome != "entropy" {
		return nil
	}
	if cs.N > 3 {
		return nil
	}
	c := cs.C
	if c > maxC {
		c = maxC
	}
	j := func(m map[string]any) string { b, _ := json.Marshal(m); return string(b) }
	lines := []string{j(map[string]any{"ev": "Call", "c": c, "n": cs.N, "entropy": cs.Entropy, "pre": cs.Cancel == "pre"})}
	if o.CancelBefore && cs.Cancel == "during" {
		lines = append(lines, j(map[string]any{"ev": "Cancel"}))
	}
	lines = append(lines, j(map[string]any{"ev": "Return", "outcome": o.Outcome, "count": o.Count}))
	lines = append(lines, j(map[string]any{"ev": "Settled", "lib_goroutines": o.LibAfter - o.LibBase, "late_reads": o.LateReads, "reader_failed": o.ReaderFailed}))
	return lines
}

// ------------------------------------------------------------------ sandbox plumbing

// c19Payload is what travels to the child: exactly one of the members is set.
type c19Payload struct {
	Gen     *c19GenCase     `json:"gen,omitempty"`
	Sampler *c19SamplerCase `json:"sampler,omitempty"`
	Pre     *c19PreCase     `json:"pre,omitempty"`
}

func (p c19Payload) ID() string {
	switch {
	case p.Gen != nil:
		return p.Gen.ID()
	case p.Sampler != nil:
		return p.Sampler.ID()
	case p.Pre != nil:
		return p.Pre.ID()
	}
	return "?"
}

// C19Worker is the sandbox child entry point.
func C19Worker(args []string) int {
	return sandbox.ChildMain(args, func(p json.RawMessage) (any, error) {
		var pl c19Payload
		if err := json.Unmarshal(p, &pl); err != nil {
			return nil, err
		}
		switch {
		case pl.Gen != nil:
			return c19RunGen(*pl.Gen), nil
		case pl.Sampler != nil:
			return c19RunSampler(*pl.Sampler), nil
		case pl.Pre != nil:
			return c19RunPre(*pl.Pre), nil
		}
		return nil, fmt.Errorf("empty payload")
	})
}

func c19Sandbox(pls []c19Payload, parallel int, perCase time.Duration) ([]sandbox.Result, error) {
	cs := make([]sandbox.Case, len(pls))
	for i, p := range pls {
		b, _ := json.Marshal(p)
		cs[i] = sandbox.Case{ID: fmt.Sprintf("%05d:%s", i, p.ID()), Payload: b}
	}
	return sandbox.Run("c19-worker", cs, parallel, perCase)
}

var _ = io.EOF
