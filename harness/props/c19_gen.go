package props

// C19, part 1: runs of the real common.GetRandomSafePrimesConcurrent in journalled child processes.
//
// Every run is one case (bit length, concurrency, numPrimes, GOMAXPROCS, entropy reader, cancellation mode).
// The child records what can be seen from outside the function: the return value (class of the error, the
// pairs), whether the harness began cancelling before it saw the return, whether the reader ever failed, and
// the number of goroutines with runGenPrimeRoutine frames left after a settle loop.  A call that does not
// return by its deadline is dumped (runtime.Stack of all goroutines) and classified: "deadlock" when every
// library goroutine sits in a blocking state in two dumps taken apart, "busy" otherwise.

import (
	"context"
	"encoding/json"
	"errors"
	"fmt"
	"io"
	"math/big"
	"math/rand"
	"regexp"
	"runtime"
	"strings"
	"sync"
	"sync/atomic"
	"time"

	"github.com/bnb-chain/tss-lib/v2/common"

	"verif/harness/sandbox"
)

// ------------------------------------------------------------------ cases

type c19GenCase struct {
	Idx       int    `json:"idx"`
	Bits      int    `json:"bits"`
	C         int    `json:"c"`
	N         int    `json:"n"`
	Procs     int    `json:"procs"`      // GOMAXPROCS during the call
	Entropy   string `json:"entropy"`    // inf | zero | finite | barrier | transient
	FailAfter int    `json:"fail_after"` // finite: bytes served before the reader fails
	// barrier: OkReads Read calls succeed; every later Read fails, and holds its callers until C of them are inside (or
	// the reader's time limit has passed), so that all producers meet the failure at the same moment
	// transient: OkReads Read calls succeed, the next one fails, all later ones succeed
	OkReads int    `json:"ok_reads,omitempty"`
	Cancel  string `json:"cancel"`   // none | pre | during | held (barrier: cancel once all producers are held, open afterwards)
	DelayUs int    `json:"delay_us"` // during: delay before the cancellation
	Seed      int64  `json:"seed"`
	DeadlineS int    `json:"deadline_s"` // watchdog inside the child
}

func (c c19GenCase) ID() string {
	if c.Entropy == "barrier" || c.Entropy == "transient" {
		return fmt.Sprintf("gen|b%d|c%d|n%d|p%d|%s:%d|%s:%d", c.Bits, c.C, c.N, c.Procs, c.Entropy, c.OkReads, c.Cancel, c.DelayUs)
	}
	return fmt.Sprintf("gen|b%d|c%d|n%d|p%d|%s:%d|%s:%d", c.Bits, c.C, c.N, c.Procs, c.Entropy, c.FailAfter, c.Cancel, c.DelayUs)
}

// class of the inputs (what the verdict keys and the coverage counters are made of)
func (c c19GenCase) class() string {
	return fmt.Sprintf("b%d|c%d|n%d|p%d|%s|%s", c.Bits, c.C, c.N, c.Procs, c.Entropy, c.Cancel)
}

func c19SizeClass(bits int) string {
	switch {
	case bits <= 16:
		return "toy"
	case bits <= 64:
		return "small"
	case bits <= 512:
		return "medium"
	}
	return "large"
}

type c19GenOut struct {
	Skipped       bool        `json:"skipped,omitempty"` // an earlier case of this child did not return: nothing was run
	Outcome       string      `json:"outcome"`           // primes | cancelled | entropy | othererr | deadlock | busy | panic
	ErrText       string      `json:"err_text,omitempty"`
	Count         int         `json:"count"`
	Pairs         [][2]string `json:"pairs,omitempty"` // q, p (decimal)
	NilPair       bool        `json:"nil_pair,omitempty"`
	ValidateFalse bool        `json:"validate_false,omitempty"` // GermainSafePrime.Validate() of a returned pair is false
	CancelBefore  bool        `json:"cancel_before"`            // the harness began cancelling before it saw the call return
	ReaderFailed  bool        `json:"reader_failed"`
	ReaderServed  int64       `json:"reader_served"`
	BarOpened     bool        `json:"bar_opened,omitempty"` // barrier reader: it opened before the call was seen to return
	BarHeld       int         `json:"bar_held,omitempty"`   // ... with this many callers inside its failing Read
	BarForced     bool        `json:"bar_forced,omitempty"` // ... before C callers were inside (time limit / the harness)
	LibBase       int         `json:"lib_base"`   // library goroutines before the call (after settling)
	LibAfter      int         `json:"lib_after"`  // ... after the call and the settle loop
	LateReads     int         `json:"late_reads"` // reads of the entropy source after the call had returned
	ElapsedMs     float64     `json:"elapsed_ms"`
	AfterCancelMs float64     `json:"after_cancel_ms,omitempty"` // return time minus cancellation time (during)
	Dump          string      `json:"dump,omitempty"`            // goroutines of the library (hang / leak)
	Samples       int         `json:"samples,omitempty"`         // deadlock: consecutive identical dumps (one second apart)
	Cert          string      `json:"cert,omitempty"`            // deadlock: every library goroutine is parked by a library frame (summary)
	Panic         string      `json:"panic,omitempty"`
}

// ------------------------------------------------------------------ entropy readers

var errC19Entropy = errors.New("c19: entropy source exhausted")

// c19Reader is a goroutine-safe deterministic byte source that can fail after a number of bytes, or (barrier mode)
// after a number of Read calls and then for all its callers at the same moment.
type c19Reader struct {
	mu       sync.Mutex
	r        *rand.Rand
	left     int64 // < 0: unlimited
	failed   bool
	served   int64
	returned bool // the call this reader was handed to has returned
	late     int  // Read calls after that

	// transient mode (SafePrimeGen.tla: cfg.heal): okLeft Read calls succeed, one fails, all later ones succeed
	transient bool

	// barrier mode (SafePrimeGen.tla: cfg.bar, the producers' state "held", the action BarOpen)
	barrier    bool
	okLeft     int           // Read calls that still succeed
	width      int           // the failing Read opens when this many callers are inside ...
	manual     bool          // ... unless the harness opens it itself (then `full` tells the harness)
	limit      time.Duration // time limit after the first caller arrived
	cond       *sync.Cond
	held       int
	open       bool
	timerOn    bool
	full       chan struct{} // closed when `width` callers are inside, or the time limit has passed
	fullClosed bool
	openHeld   int  // callers inside when the reader opened
	openForced bool // opened before `width` callers were inside
	openEarly  bool // opened before the call was marked as returned
}

func newC19Reader(seed int64, failAfter int64) *c19Reader {
	return &c19Reader{r: rand.New(rand.NewSource(seed)), left: failAfter}
}

func newC19BarrierReader(seed int64, okReads, width int, manual bool, limit time.Duration) *c19Reader {
	r := &c19Reader{r: rand.New(rand.NewSource(seed)), left: -1, barrier: true, okLeft: okReads, width: width, manual: manual, limit: limit, full: make(chan struct{})}
	r.cond = sync.NewCond(&r.mu)
	return r
}

// openLocked opens the barrier (r.mu held).
func (r *c19Reader) openLocked() {
	if r.open {
		return
	}
	r.open = true
	r.openHeld = r.held
	r.openForced = r.held < r.width
	r.openEarly = !r.returned
	r.cond.Broadcast()
}

func (r *c19Reader) fullLocked() {
	if !r.fullClosed {
		r.fullClosed = true
		close(r.full)
	}
}

// openNow is the harness opening the barrier itself (manual mode).
func (r *c19Reader) openNow() {
	r.mu.Lock()
	r.openLocked()
	r.mu.Unlock()
}

// waiting: callers are inside the failing Read and the reader has not opened yet (an action of the harness is pending).
func (r *c19Reader) waiting() bool {
	r.mu.Lock()
	defer r.mu.Unlock()
	return r.barrier && !r.open && r.held > 0
}

func (r *c19Reader) barrierState() (opened bool, held int, forced bool) {
	r.mu.Lock()
	defer r.mu.Unlock()
	return r.open && r.openEarly, r.openHeld, r.openForced
}

func (r *c19Reader) readBarrier(p []byte) (int, error) {
	if r.okLeft > 0 {
		r.okLeft--
		r.r.Read(p)
		r.served += int64(len(p))
		return len(p), nil
	}
	if !r.open {
		r.held++
		if !r.timerOn {
			r.timerOn = true
			go func() {
				time.Sleep(r.limit)
				r.mu.Lock()
				if r.manual {
					r.fullLocked()
				} else {
					r.openLocked()
				}
				r.mu.Unlock()
			}()
		}
		if r.held >= r.width {
			if r.manual {
				r.fullLocked()
			} else {
				r.openLocked()
			}
		}
		for !r.open {
			r.cond.Wait()
		}
		r.held--
	}
	r.failed = true
	return 0, errC19Entropy
}

func (r *c19Reader) Read(p []byte) (int, error) {
	r.mu.Lock()
	defer r.mu.Unlock()
	if r.returned {
		r.late++
	}
	if r.barrier {
		return r.readBarrier(p)
	}
	if r.transient {
		if r.okLeft > 0 || r.failed {
			if r.okLeft > 0 {
				r.okLeft--
			}
			r.r.Read(p)
			r.served += int64(len(p))
			return len(p), nil
		}
		r.failed = true
		return 0, errC19Entropy
	}
	if r.left < 0 {
		r.r.Read(p)
		r.served += int64(len(p))
		return len(p), nil
	}
	if r.left == 0 {
		r.failed = true
		return 0, errC19Entropy
	}
	n := len(p)
	if int64(n) > r.left {
		n = int(r.left)
	}
	r.r.Read(p[:n])
	r.left -= int64(n)
	r.served += int64(n)
	if n < len(p) {
		r.failed = true
		return n, errC19Entropy
	}
	return n, nil
}

func (r *c19Reader) state() (failed bool, served int64) {
	r.mu.Lock()
	defer r.mu.Unlock()
	return r.failed, r.served
}

// markReturned is called by the goroutine that made the call, immediately after the call returned.
func (r *c19Reader) markReturned() {
	r.mu.Lock()
	r.returned = true
	r.mu.Unlock()
}

func (r *c19Reader) lateReads() int {
	r.mu.Lock()
	defer r.mu.Unlock()
	return r.late
}

// ------------------------------------------------------------------ goroutine inspection

var c19ReGoroutine = regexp.MustCompile(`^goroutine (\d+) \[([^\]]*)\]:`)

type c19Goroutine struct {
	ID    string
	State string
	Text  string
}

func c19StackAll() string {
	buf := make([]byte, 1<<20)
	for {
		n := runtime.Stack(buf, true)
		if n < len(buf) {
			return string(buf[:n])
		}
		buf = make([]byte, 2*len(buf))
	}
}

// c19LibGoroutines returns the goroutines whose stack contains a frame of the generator's producers
// (producersOnly) or any frame of common/safe_prime.go.
func c19LibGoroutines(producersOnly bool) []c19Goroutine {
	buf := c19StackAll()
	var out []c19Goroutine
	for _, g := range strings.Split(buf, "\n\n") {
		isProd := strings.Contains(g, "common.runGenPrimeRoutine")
		isLib := isProd || strings.Contains(g, "common.GetRandomSafePrimesConcurrent") || strings.Contains(g, "common/safe_prime.go")
		if (producersOnly && !isProd) || !isLib {
			continue
		}
		m := c19ReGoroutine.FindStringSubmatch(g)
		if m == nil {
			continue
		}
		state := m[2]
		if i := strings.Index(state, ","); i >= 0 { // "chan send, 2 minutes"
			state = state[:i]
		}
		out = append(out, c19Goroutine{ID: m[1], State: state, Text: g})
	}
	return out
}

func c19Blocking(state string) bool {
	switch state {
	case "chan send", "chan receive", "select", "semacquire", "sync.WaitGroup.Wait", "sync.Mutex.Lock", "sync.Cond.Wait", "chan send (nil chan)", "chan receive (nil chan)", "select (no cases)":
		return true
	}
	return false
}

func c19DumpText(gs []c19Goroutine, max int) string {
	var sb strings.Builder
	for _, g := range gs {
		t := g.Text
		if len(t) > 1400 {
			t = t[:1400] + "\n\t..."
		}
		sb.WriteString(t)
		sb.WriteString("\n\n")
		if sb.Len() > max {
			sb.WriteString("...(more goroutines)\n")
			break
		}
	}
	return sb.String()
}

const c19LibPath = "github.com/bnb-chain/tss-lib/v2/"

// c19ParkedBy returns the innermost frame of a goroutine outside the run-time system (runtime, sync, internal/...): the
// function that executed the blocking operation.
func c19ParkedBy(g c19Goroutine) string {
	lines := strings.Split(g.Text, "\n")
	for _, l := range lines[1:] {
		if l == "" || l[0] == '\t' || strings.HasPrefix(l, "created by ") {
			continue
		}
		if strings.HasPrefix(l, "runtime.") || strings.HasPrefix(l, "sync.") || strings.HasPrefix(l, "internal/") || strings.HasPrefix(l, "sync/") {
			continue
		}
		if i := strings.LastIndex(l, "("); i > 0 {
			l = l[:i]
		}
		return l
	}
	return ""
}

// c19DeadlockCert decides from one dump of the library goroutines of a call that has not returned whether the dump
// itself shows a deadlock of the library: every goroutine is parked in a blocking operation (channel send / receive,
// select, WaitGroup) that a function of the library executed - none inside the entropy reader or any other code of the
// harness, none runnable.  The channels and the WaitGroup of GetRandomSafePrimesConcurrent are local to the call: only
// these goroutines can ever touch them, so none of them will run again.  The summary names state and function per goroutine.
func c19DeadlockCert(gs []c19Goroutine) (ok bool, summary string) {
	if len(gs) == 0 {
		return false, ""
	}
	count := map[string]int{}
	var order []string
	for _, g := range gs {
		by := c19ParkedBy(g)
		if !c19Blocking(g.State) || !strings.HasPrefix(by, c19LibPath) {
			return false, ""
		}
		op := g.State
		if strings.Contains(g.Text, "sync.(*WaitGroup).Wait") {
			op = "sync.(*WaitGroup).Wait"
		}
		k := op + " in " + strings.TrimPrefix(by, c19LibPath)
		if count[k] == 0 {
			order = append(order, k)
		}
		count[k]++
	}
	var parts []string
	for _, k := range order {
		parts = append(parts, fmt.Sprintf("%d x %s", count[k], k))
	}
	return true, strings.Join(parts, "; ")
}

// c19ConsumerJoining: the goroutine that called GetRandomSafePrimesConcurrent sits in its deferred WaitGroup.Wait().
func c19ConsumerJoining() bool {
	for _, g := range c19LibGoroutines(false) {
		if strings.Contains(g.Text, "common.GetRandomSafePrimesConcurrent") && strings.Contains(g.Text, "sync.(*WaitGroup).Wait") {
			return true
		}
	}
	return false
}

// c19Settle waits until no more than base producer goroutines exist.
func c19Settle(base int, limit time.Duration) []c19Goroutine {
	deadline := time.Now().Add(limit)
	sleep := 200 * time.Microsecond
	for {
		gs := c19LibGoroutines(true)
		if len(gs) <= base || time.Now().After(deadline) {
			return gs
		}
		time.Sleep(sleep)
		if sleep < 50*time.Millisecond {
			sleep *= 2
		}
	}
}

// c19Watch waits until `done` is closed.  It gives up (a) at the deadline, or (b) earlier when the call can be seen to be
// deadlocked: no action of the harness is pending, and in three dumps one second apart the same library goroutines sit in
// the same blocking states (channel send / receive, select, WaitGroup) - nothing inside the process can wake them.
// Returns "" when done, else "deadlock" / "busy" and the dump of the library goroutines.
func c19Watch(done <-chan struct{}, deadline time.Duration, pending func() bool, lib func() []c19Goroutine) (kind, dump string) {
	kind, dump, _, _ = c19WatchCert(done, deadline, pending, lib)
	return
}

// c19WatchCert is c19Watch that also returns the number of consecutive identical dumps behind a "deadlock" and the
// certificate of c19DeadlockCert for the last one.
func c19WatchCert(done <-chan struct{}, deadline time.Duration, pending func() bool, lib func() []c19Goroutine) (kind, dump string, samples int, cert string) {
	limit := time.After(deadline)
	tick := time.NewTicker(time.Second)
	defer tick.Stop()
	same := func(a, b []c19Goroutine) bool {
		if len(a) == 0 || len(a) != len(b) {
			return false
		}
		for i := range a {
			if a[i].ID != b[i].ID || a[i].State != b[i].State || !c19Blocking(a[i].State) {
				return false
			}
		}
		return true
	}
	var prev []c19Goroutine
	stable, ticks := 0, 0
	for {
		select {
		case <-done:
			return "", "", 0, ""
		case <-limit:
			g1 := lib()
			time.Sleep(400 * time.Millisecond)
			select {
			case <-done:
				return "", "", 0, ""
			default:
			}
			g2 := lib()
			if same(g1, g2) && !(pending != nil && pending()) {
				_, cert = c19DeadlockCert(g2)
				return "deadlock", c19DumpText(g2, 6000), 2, cert
			}
			return "busy", c19DumpText(g2, 6000), 0, ""
		case <-tick.C:
			ticks++
			if ticks < 3 || (pending != nil && pending()) {
				prev, stable = nil, 0
				continue
			}
			cur := lib()
			if prev != nil && same(prev, cur) {
				stable++
			} else {
				stable = 0
			}
			prev = cur
			if stable >= 3 {
				select {
				case <-done:
					return "", "", 0, ""
				default:
				}
				_, cert = c19DeadlockCert(cur)
				return "deadlock", c19DumpText(cur, 6000), stable + 1, cert
			}
		}
	}
}

// ------------------------------------------------------------------ the child

var c19Poisoned atomic.Bool // a call of this process never returned: its goroutines are still around

func c19RunGen(cs c19GenCase) (out c19GenOut) {
	if c19Poisoned.Load() {
		out.Skipped = true
		return
	}
	if cs.Procs > 0 {
		old := runtime.GOMAXPROCS(cs.Procs)
		defer runtime.GOMAXPROCS(old)
	}
	out.LibBase = len(c19Settle(0, 2*time.Second))
	failAfter := int64(-1)
	switch cs.Entropy {
	case "zero":
		failAfter = 0
	case "finite":
		failAfter = int64(cs.FailAfter)
	}
	rd := newC19Reader(cs.Seed, failAfter)
	if cs.Entropy == "transient" {
		rd.left, rd.transient, rd.okLeft = -1, true, cs.OkReads
	}
	if cs.Entropy == "barrier" {
		rd = newC19BarrierReader(cs.Seed, cs.OkReads, cs.C, cs.Cancel == "held", 5*time.Second)
	}
	ctx, cancel := context.WithCancel(context.Background())
	defer cancel()
	if cs.Cancel == "pre" {
		cancel()
	}
	type ret struct {
		primes    []*common.GermainSafePrime
		err       error
		panicked  string
		cancelled bool // the canceller had started when the return was seen
		at        time.Time
	}
	var cancelStarted atomic.Bool
	var cancelAt atomic.Int64
	done := make(chan ret, 1)
	t0 := time.Now()
	go func() {
		var r ret
		defer func() {
			if p := recover(); p != nil {
				r.panicked = fmt.Sprint(p)
				r.at = time.Now()
				done <- r
			}
		}()
		r.primes, r.err = common.GetRandomSafePrimesConcurrent(ctx, cs.Bits, cs.N, cs.C, rd)
		rd.markReturned()
		r.cancelled = cancelStarted.Load()
		r.at = time.Now()
		done <- r
	}()
	if cs.Cancel == "during" {
		go func() {
			if cs.DelayUs > 0 {
				time.Sleep(time.Duration(cs.DelayUs) * time.Microsecond)
			}
			cancelAt.Store(time.Now().UnixNano())
			cancelStarted.Store(true)
			cancel()
		}()
	}
	deadline := time.Duration(cs.DeadlineS) * time.Second
	if deadline <= 0 {
		deadline = 30 * time.Second
	}
	var r ret
	got := make(chan struct{})
	go func() { r = <-done; close(got) }()
	var heldDone atomic.Bool
	if cs.Cancel == "held" && rd.barrier {
		// every producer is inside the failing Read (or the reader's time limit has passed): cancel the caller's context,
		// give the consumer the time to return and to reach its deferred wg.Wait(), then let all the Reads fail at once -
		// nobody receives from errCh any more
		go func() {
			defer heldDone.Store(true)
			select {
			case <-rd.full:
			case <-time.After(6 * time.Second): // no producer ever arrived at the reader
			case <-got:
				return
			}
			cancelAt.Store(time.Now().UnixNano())
			cancelStarted.Store(true)
			cancel()
			for i := 0; i < 60 && !c19ConsumerJoining(); i++ {
				time.Sleep(250 * time.Microsecond)
			}
			rd.openNow()
		}()
	}
	pending := func() bool {
		return (cs.Cancel == "during" && !cancelStarted.Load()) || (cs.Cancel == "held" && rd.barrier && !heldDone.Load()) || rd.waiting()
	}
	if kind, dump, samples, cert := c19WatchCert(got, deadline, pending, func() []c19Goroutine { return c19LibGoroutines(false) }); kind != "" {
		out.Outcome, out.Dump, out.Samples, out.Cert = kind, dump, samples, cert
		out.BarOpened, out.BarHeld, out.BarForced = rd.barrierState()
		out.ElapsedMs = float64(time.Since(t0).Microseconds()) / 1000
		out.ReaderFailed, out.ReaderServed = rd.state()
		out.CancelBefore = cancelStarted.Load() || cs.Cancel == "pre"
		c19Poisoned.Store(true)
		return
	}
	out.ElapsedMs = float64(r.at.Sub(t0).Microseconds()) / 1000
	out.CancelBefore = r.cancelled
	if r.cancelled {
		out.AfterCancelMs = float64(r.at.UnixNano()-cancelAt.Load()) / 1e6
	}
	cancel()
	after := c19Settle(out.LibBase, 15*time.Second)
	out.LibAfter = len(after)
	if len(after) > out.LibBase {
		out.Dump = c19DumpText(after, 4000)
	}
	out.ReaderFailed, out.ReaderServed = rd.state()
	out.LateReads = rd.lateReads()
	out.BarOpened, out.BarHeld, out.BarForced = rd.barrierState()
	switch {
	case r.panicked != "":
		out.Outcome, out.Panic = "panic", r.panicked
	case r.err == nil:
		out.Outcome = "primes"
	case errors.Is(r.err, common.ErrGeneratorCancelled):
		out.Outcome = "cancelled"
	case errors.Is(r.err, errC19Entropy) || out.ReaderFailed:
		out.Outcome = "entropy"
	default:
		out.Outcome = "othererr"
	}
	if r.err != nil {
		out.ErrText = r.err.Error()
	}
	out.Count = len(r.primes)
	for _, sgp := range r.primes {
		if sgp == nil || sgp.Prime() == nil || sgp.SafePrime() == nil {
			out.NilPair = true
			continue
		}
		out.Pairs = append(out.Pairs, [2]string{sgp.Prime().String(), sgp.SafePrime().String()})
		if !sgp.Validate() {
			out.ValidateFalse = true
		}
	}
	return
}

// ------------------------------------------------------------------ verdict on one run (the property, on real outputs only)

type c19Viol struct {
	Key, What string
}

func c19Big(s string) *big.Int {
	v, ok := new(big.Int).SetString(s, 10)
	if !ok {
		return big.NewInt(-1)
	}
	return v
}

// c19PairDefect names the first clause of the property a returned pair breaks ("" if none).
func c19PairDefect(q, p *big.Int, bits int) string {
	switch {
	case q.Sign() <= 0 || p.Sign() <= 0:
		return "not-positive"
	case new(big.Int).Add(new(big.Int).Lsh(q, 1), big.NewInt(1)).Cmp(p) != 0:
		return "p-is-not-2q+1"
	case !q.ProbablyPrime(32):
		return "q-not-prime"
	case !p.ProbablyPrime(32):
		return "p-not-prime"
	case p.BitLen() != bits:
		return "p-wrong-bit-length"
	case p.Bit(bits-1) != 1 || p.Bit(bits-2) != 1:
		return "p-top-two-bits-not-set"
	}
	return ""
}

func c19GenDesc(cs c19GenCase) string {
	ent := cs.Entropy
	if cs.Entropy == "transient" {
		ent = fmt.Sprintf("source whose Read call number %d fails while all others succeed", cs.OkReads+1)
	}
	if cs.Entropy == "barrier" {
		ent = fmt.Sprintf("source that serves %d Read call(s) and then fails for all %d producers at the same moment", cs.OkReads, cs.C)
	}
	can := cs.Cancel
	if cs.Cancel == "held" {
		can = "once every producer is inside the failing Read, before the Reads return"
	}
	return fmt.Sprintf("GetRandomSafePrimesConcurrent(bitLen=%d, numPrimes=%d, concurrency=%d) [GOMAXPROCS %d, entropy %s, cancellation %s]", cs.Bits, cs.N, cs.C, cs.Procs, ent, can)
}

func c19JudgeGen(cs c19GenCase, o c19GenOut) (vs []c19Viol) {
	fn := "C19:GetRandomSafePrimesConcurrent"
	size := c19SizeClass(cs.Bits)
	desc := c19GenDesc(cs)
	add := func(key, what string) { vs = append(vs, c19Viol{key, what}) }
	disturbed := cs.Cancel == "pre" || o.CancelBefore || o.ReaderFailed
	switch o.Outcome {
	case "panic":
		add(fn+":panic:"+size, desc+" panicked: "+o.Panic)
		return
	case "primes":
		if o.Count != cs.N || o.NilPair {
			add(fmt.Sprintf("%s:wrong-count:%s", fn, size), fmt.Sprintf("%s returned %d pair(s) (nil among them: %v) and no error", desc, o.Count, o.NilPair))
		}
		for _, pr := range o.Pairs {
			if d := c19PairDefect(c19Big(pr[0]), c19Big(pr[1]), cs.Bits); d != "" {
				add(fmt.Sprintf("%s:bad-pair:%s:%s", fn, d, size), fmt.Sprintf("%s returned q=%s p=%s: %s", desc, pr[0], pr[1], d))
				break
			}
		}
		if cs.Cancel == "pre" {
			add(fn+":pre-cancelled-context-returns-primes", desc+" returned primes although its context was done before the call")
		}
		if cs.Entropy == "zero" || (cs.Entropy == "barrier" && cs.OkReads == 0) {
			add(fn+":returns-primes-without-entropy", desc+" returned primes although its entropy source fails at the first byte")
		}
	case "cancelled":
		if !(cs.Cancel == "pre" || o.CancelBefore) {
			add(fn+":spurious-cancellation-error:"+size, desc+" returned ErrGeneratorCancelled although nobody had cancelled its context")
		}
	case "entropy":
		// the error of the reader (or an error while the reader had failed): legitimate
	case "othererr":
		if !disturbed {
			add(fn+":spurious-error:"+size, fmt.Sprintf("%s returned the error %q although its context was live and its entropy source worked", desc, o.ErrText))
		}
	}
	if o.LateReads > 0 {
		add(fn+":goroutine-running-after-return:"+size, fmt.Sprintf("%s returned (%s) while a producer goroutine was still running: the entropy source was read %d time(s) after the return", desc, o.Outcome, o.LateReads))
	}
	if o.LibAfter > o.LibBase {
		add(fn+":goroutine-leak:"+size, fmt.Sprintf("%s returned (%s) and left %d producer goroutine(s) behind (15 s settle loop):\n%s", desc, o.Outcome, o.LibAfter-o.LibBase, o.Dump))
	}
	return
}

// c19TraceLines renders a run for SafePrimeGen_Trace.tla (nil if the run has nothing the model speaks about).
func c19TraceLines(cs c19GenCase, o c19GenOut, maxC int) []string {
	if o.Outcome != "primes" && o.Outcome != "cancelled" && o.Outcome != "entropy" {
		return nil
	}
	if cs.N > 3 {
		return nil
	}
	c := cs.C
	if c > maxC {
		c = maxC
	}
	j := func(m map[string]any) string { b, _ := json.Marshal(m); return string(b) }
	proj := func(k int) int {
		if k > maxC {
			return maxC
		}
		return k
	}
	reads, bar := 0, 0
	if cs.Entropy == "barrier" || cs.Entropy == "transient" {
		if cs.OkReads > 3 {
			return nil
		}
		reads = cs.OkReads
		if cs.Entropy == "barrier" {
			bar = c
		}
	}
	lines := []string{j(map[string]any{"ev": "Call", "c": c, "n": cs.N, "entropy": cs.Entropy, "reads": reads, "bar": bar, "pre": cs.Cancel == "pre"})}
	if o.CancelBefore && (cs.Cancel == "during" || cs.Cancel == "held") {
		lines = append(lines, j(map[string]any{"ev": "Cancel"}))
	}
	if cs.Entropy == "barrier" && o.BarOpened {
		// (with cancellation "held" the harness opens the reader after it has cancelled: the Cancel line comes first)
		lines = append(lines, j(map[string]any{"ev": "BarrierOpen", "held": proj(o.BarHeld), "forced": o.BarForced}))
	}
	lines = append(lines, j(map[string]any{"ev": "Return", "outcome": o.Outcome, "count": o.Count}))
	lines = append(lines, j(map[string]any{"ev": "Settled", "lib_goroutines": o.LibAfter - o.LibBase, "late_reads": o.LateReads, "reader_failed": o.ReaderFailed}))
	return lines
}

// ------------------------------------------------------------------ sandbox plumbing

// c19Payload is what travels to the child: exactly one of the members is set.
type c19Payload struct {
	Gen     *c19GenCase     `json:"gen,omitempty"`
	Sampler *c19SamplerCase `json:"sampler,omitempty"`
	Pre     *c19PreCase     `json:"pre,omitempty"`
}

func (p c19Payload) ID() string {
	switch {
	case p.Gen != nil:
		return p.Gen.ID()
	case p.Sampler != nil:
		return p.Sampler.ID()
	case p.Pre != nil:
		return p.Pre.ID()
	}
	return "?"
}

// C19Worker is the sandbox child entry point.
func C19Worker(args []string) int {
	return sandbox.ChildMain(args, func(p json.RawMessage) (any, error) {
		var pl c19Payload
		if err := json.Unmarshal(p, &pl); err != nil {
			return nil, err
		}
		switch {
		case pl.Gen != nil:
			return c19RunGen(*pl.Gen), nil
		case pl.Sampler != nil:
			return c19RunSampler(*pl.Sampler), nil
		case pl.Pre != nil:
			return c19RunPre(*pl.Pre), nil
		}
		return nil, fmt.Errorf("empty payload")
	})
}

func c19Sandbox(pls []c19Payload, parallel int, perCase time.Duration) ([]sandbox.Result, error) {
	cs := make([]sandbox.Case, len(pls))
	for i, p := range pls {
		b, _ := json.Marshal(p)
		cs[i] = sandbox.Case{ID: fmt.Sprintf("%05d:%s", i, p.ID()), Payload: b}
	}
	return sandbox.Run("c19-worker", cs, parallel, perCase)
}

var _ = io.EOF
