package props

// C19, part 3: pre-parameters.
//   - the five vendored sets (test/_ecdsa_fixtures) judged with math/big,
//   - fresh runs of keygen.GeneratePreParamsWithContextAndRandom whose entropy reader hands out, whenever the
//     library asks for exactly as many bytes as a 1023-bit candidate has, one of the Sophie Germain primes of the
//     vendored sets (each at most once; random bytes otherwise and when they run out).  The generator then finds
//     its primes at the first attempt and the whole of prepare.go / paillier.GenerateKeyPair runs in about a
//     second.  Nothing in the verdict depends on this: if the library read differently the run would merely be
//     slow and end with the context deadline (recorded, not judged),
//   - one run of keygen.GeneratePreParamsWithContext with crypto/rand (thorough tier; VERIF_C19_FRESH=0/1 overrides),
//   - toy sizes: crypto.GenerateNTildei on safe primes the real generator returned and
//     paillier.GenerateKeyPair for small modulus lengths (validated by TLC when they fit its integers).

import (
	"context"
	"fmt"
	"math/big"
	"math/rand"
	"strings"
	"sync"
	"time"

	"github.com/bnb-chain/tss-lib/v2/crypto"
	"github.com/bnb-chain/tss-lib/v2/crypto/paillier"
	eckg "github.com/bnb-chain/tss-lib/v2/ecdsa/keygen"

	"verif/harness/pump"
)

type c19PreCase struct {
	Mode      string `json:"mode"` // tape | fresh | toy-ntilde | toy-paillier
	Seed      int64  `json:"seed"`
	Conc      int    `json:"conc"`
	Bits      int    `json:"bits,omitempty"` // toy-paillier: modulus length
	P         string `json:"p,omitempty"`    // toy-ntilde: the two safe primes
	Q         string `json:"q,omitempty"`
	DeadlineS int    `json:"deadline_s"`
}

func (c c19PreCase) ID() string {
	return fmt.Sprintf("pre|%s|%d|%s|%s|%d", c.Mode, c.Bits, c19Short(c.P), c19Short(c.Q), c.Seed)
}

func c19Short(s string) string {
	if len(s) > 10 {
		return s[:6] + ".." + s[len(s)-3:]
	}
	return s
}

type c19PreOut struct {
	Outcome    string            `json:"outcome"` // ok | error | panic | deadlock | busy | skipped
	Dump       string            `json:"dump,omitempty"`
	Err        string            `json:"err,omitempty"`
	Panic      string            `json:"panic,omitempty"`
	Fields     map[string]string `json:"fields,omitempty"` // decimal
	ValidateOK bool              `json:"validate_ok"`      // LocalPreParams.Validate() && ValidateWithProof()
	TapeServed int               `json:"tape_served"`
	TapeDry    bool              `json:"tape_dry"` // the tape ran out of primes (random bytes from then on)
	ElapsedS   float64           `json:"elapsed_s"`
	CtxExpired bool              `json:"ctx_expired"`
}

// c19TapeReader: see the file comment.
type c19TapeReader struct {
	mu     sync.Mutex
	r      *rand.Rand
	blocks [][]byte
	served int
	dry    bool
}

func (t *c19TapeReader) Read(p []byte) (int, error) {
	t.mu.Lock()
	defer t.mu.Unlock()
	if len(t.blocks) > 0 && len(p) == len(t.blocks[0]) {
		copy(p, t.blocks[0])
		t.blocks = t.blocks[1:]
		t.served++
		return len(p), nil
	}
	if len(t.blocks) == 0 {
		t.dry = true
	}
	t.r.Read(p)
	return len(p), nil
}

// c19SophieGermainPrimes returns the 1023-bit primes q (2q+1 prime) of the vendored sets.
func c19SophieGermainPrimes() ([]*big.Int, error) {
	keys, err := pump.LoadEcFixtures(5)
	if err != nil {
		return nil, err
	}
	var out []*big.Int
	seen := map[string]bool{}
	add := func(q *big.Int) {
		if q == nil || q.BitLen() != 1023 || seen[q.String()] {
			return
		}
		p := new(big.Int).Add(new(big.Int).Lsh(q, 1), c19One)
		if q.ProbablyPrime(16) && p.ProbablyPrime(16) {
			seen[q.String()] = true
			out = append(out, q)
		}
	}
	for _, k := range keys {
		add(k.P)
		add(k.Q)
		if k.PaillierSK != nil && k.PaillierSK.P != nil && k.PaillierSK.Q != nil {
			add(new(big.Int).Rsh(k.PaillierSK.P, 1))
			add(new(big.Int).Rsh(k.PaillierSK.Q, 1))
		}
	}
	return out, nil
}

func c19PreFields(pp *eckg.LocalPreParams) map[string]string {
	m := map[string]string{}
	put := func(k string, v *big.Int) {
		if v != nil {
			m[k] = v.String()
		}
	}
	if pp.PaillierSK != nil {
		put("PaillierN", pp.PaillierSK.N)
		put("PaillierP", pp.PaillierSK.P)
		put("PaillierQ", pp.PaillierSK.Q)
		put("PaillierPhiN", pp.PaillierSK.PhiN)
		put("PaillierLambdaN", pp.PaillierSK.LambdaN)
	}
	put("NTildei", pp.NTildei)
	put("H1i", pp.H1i)
	put("H2i", pp.H2i)
	put("Alpha", pp.Alpha)
	put("Beta", pp.Beta)
	put("P", pp.P)
	put("Q", pp.Q)
	return m
}

// c19RunPre runs the case under a watchdog: the library functions called here sit on top of the safe-prime generator,
// so a generator that does not return makes them not return.
func c19RunPre(cs c19PreCase) (out c19PreOut) {
	if c19Poisoned.Load() {
		out.Outcome = "skipped"
		return
	}
	t0 := time.Now()
	var res c19PreOut
	fin := make(chan struct{})
	go func() { defer close(fin); res = c19RunPreInner(cs) }()
	deadline := time.Duration(cs.DeadlineS+60) * time.Second
	lib := func() []c19Goroutine {
		var gs []c19Goroutine
		for _, g := range c19AllGoroutines() {
			if strings.Contains(g.Text, "bnb-chain/tss-lib/v2/") {
				if i := strings.Index(g.State, ","); i >= 0 {
					g.State = g.State[:i]
				}
				gs = append(gs, g)
			}
		}
		return gs
	}
	if kind, dump := c19Watch(fin, deadline, nil, lib); kind != "" {
		c19Poisoned.Store(true)
		return c19PreOut{Outcome: kind, Dump: dump, ElapsedS: time.Since(t0).Seconds()}
	}
	return res
}

func c19RunPreInner(cs c19PreCase) (out c19PreOut) {
	t0 := time.Now()
	defer func() {
		if p := recover(); p != nil {
			out.Outcome, out.Panic = "panic", fmt.Sprint(p)
		}
		out.ElapsedS = time.Since(t0).Seconds()
	}()
	deadline := time.Duration(cs.DeadlineS) * time.Second
	if deadline <= 0 {
		deadline = 4 * time.Minute
	}
	ctx, cancel := context.WithTimeout(context.Background(), deadline)
	defer cancel()
	fail := func(err error) {
		out.Outcome, out.Err = "error", err.Error()
		out.CtxExpired = ctx.Err() != nil
	}
	switch cs.Mode {
	case "tape", "fresh":
		var pp *eckg.LocalPreParams
		var err error
		if cs.Mode == "fresh" {
			pp, err = eckg.GeneratePreParamsWithContext(ctx)
		} else {
			qs, e := c19SophieGermainPrimes()
			if e != nil {
				fail(e)
				return
			}
			rng := rand.New(rand.NewSource(cs.Seed))
			rng.Shuffle(len(qs), func(i, j int) { qs[i], qs[j] = qs[j], qs[i] })
			tape := &c19TapeReader{r: rand.New(rand.NewSource(cs.Seed ^ 0x7a9e))}
			for _, q := range qs {
				tape.blocks = append(tape.blocks, q.FillBytes(make([]byte, 128)))
			}
			pp, err = eckg.GeneratePreParamsWithContextAndRandom(ctx, tape, cs.Conc)
			tape.mu.Lock()
			out.TapeServed, out.TapeDry = tape.served, tape.dry
			tape.mu.Unlock()
		}
		if err != nil || pp == nil {
			if err == nil {
				err = fmt.Errorf("nil pre-parameters without an error")
			}
			fail(err)
			return
		}
		out.Outcome = "ok"
		out.Fields = c19PreFields(pp)
		out.ValidateOK = pp.Validate() && pp.ValidateWithProof()
	case "toy-ntilde":
		rd := newC19Reader(cs.Seed, -1)
		P, Q := c19Big(cs.P), c19Big(cs.Q)
		n, h1, h2, err := crypto.GenerateNTildei(rd, [2]*big.Int{P, Q})
		if err != nil {
			fail(err)
			return
		}
		out.Outcome = "ok"
		out.Fields = map[string]string{}
		for k, v := range map[string]*big.Int{"NTildei": n, "H1i": h1, "H2i": h2} {
			if v != nil {
				out.Fields[k] = v.String()
			}
		}
	case "toy-paillier":
		rd := newC19Reader(cs.Seed, -1)
		sk, pk, err := paillier.GenerateKeyPair(ctx, rd, cs.Bits, cs.Conc)
		if err != nil || sk == nil || pk == nil {
			if err == nil {
				err = fmt.Errorf("nil key without an error")
			}
			fail(err)
			return
		}
		out.Outcome = "ok"
		out.Fields = map[string]string{}
		for k, v := range map[string]*big.Int{"PaillierN": sk.N, "PaillierP": sk.P, "PaillierQ": sk.Q, "PaillierPhiN": sk.PhiN, "PaillierLambdaN": sk.LambdaN, "PublicN": pk.N} {
			if v != nil {
				out.Fields[k] = v.String()
			}
		}
	default:
		fail(fmt.Errorf("unknown mode %q", cs.Mode))
	}
	return
}

// ------------------------------------------------------------------ the property on a set of pre-parameters (math/big)

func c19IsSafePrime(p *big.Int, bits int) string {
	switch {
	case p == nil:
		return "missing"
	case !p.ProbablyPrime(32):
		return "not-prime"
	case !new(big.Int).Rsh(p, 1).ProbablyPrime(32):
		return "not-a-safe-prime"
	case bits > 0 && p.BitLen() != bits:
		return "wrong-bit-length"
	}
	return ""
}

// c19PaillierDefects: "a <bits>-bit Paillier key from two distinct safe primes".
func c19PaillierDefects(f map[string]*big.Int, bits int) (ds []string) {
	N, P, Q, phi, lam := f["PaillierN"], f["PaillierP"], f["PaillierQ"], f["PaillierPhiN"], f["PaillierLambdaN"]
	if N == nil || P == nil || Q == nil {
		return []string{"paillier-key-incomplete"}
	}
	if d := c19IsSafePrime(P, bits/2); d != "" {
		ds = append(ds, "paillier-P-"+d)
	}
	if d := c19IsSafePrime(Q, bits/2); d != "" {
		ds = append(ds, "paillier-Q-"+d)
	}
	if P.Cmp(Q) == 0 {
		ds = append(ds, "paillier-P-equals-Q")
	}
	if new(big.Int).Mul(P, Q).Cmp(N) != 0 {
		ds = append(ds, "paillier-N-is-not-P*Q")
	}
	if N.BitLen() != bits {
		ds = append(ds, "paillier-N-wrong-bit-length")
	}
	pm, qm := new(big.Int).Sub(P, c19One), new(big.Int).Sub(Q, c19One)
	wantPhi := new(big.Int).Mul(pm, qm)
	if phi == nil || phi.Cmp(wantPhi) != 0 {
		ds = append(ds, "paillier-PhiN-wrong")
	}
	wantLam := new(big.Int).Div(wantPhi, new(big.Int).GCD(nil, nil, pm, qm))
	if lam == nil || lam.Cmp(wantLam) != 0 {
		ds = append(ds, "paillier-LambdaN-is-not-lcm")
	}
	return
}

// c19PreParamsDefects lists the clauses of the property a full set of pre-parameters breaks.
func c19PreParamsDefects(fs map[string]string) (ds []string) {
	f := map[string]*big.Int{}
	for k, v := range fs {
		f[k] = c19Big(v)
	}
	ds = append(ds, c19PaillierDefects(f, 2048)...)
	NT, h1, h2, al, be, p, q := f["NTildei"], f["H1i"], f["H2i"], f["Alpha"], f["Beta"], f["P"], f["Q"]
	for k, v := range map[string]*big.Int{"NTildei": NT, "H1i": h1, "H2i": h2, "Alpha": al, "Beta": be, "P": p, "Q": q} {
		if v == nil {
			ds = append(ds, "missing-"+k)
		}
	}
	if len(ds) > 0 && (NT == nil || h1 == nil || h2 == nil || al == nil || be == nil || p == nil || q == nil) {
		return
	}
	bigP := new(big.Int).Add(new(big.Int).Lsh(p, 1), c19One)
	bigQ := new(big.Int).Add(new(big.Int).Lsh(q, 1), c19One)
	if d := c19IsSafePrime(bigP, 1024); d != "" {
		ds = append(ds, "ntilde-2p+1-"+d)
	}
	if d := c19IsSafePrime(bigQ, 1024); d != "" {
		ds = append(ds, "ntilde-2q+1-"+d)
	}
	if new(big.Int).Mul(bigP, bigQ).Cmp(NT) != 0 {
		ds = append(ds, "ntilde-is-not-(2p+1)(2q+1)")
	}
	if NT.BitLen() != 2048 {
		ds = append(ds, "ntilde-wrong-bit-length")
	}
	if bigP.Cmp(bigQ) == 0 {
		ds = append(ds, "ntilde-prime-factors-equal")
	}
	if N := f["PaillierN"]; N != nil && new(big.Int).GCD(nil, nil, N, NT).Cmp(c19One) != 0 {
		ds = append(ds, "ntilde-shares-a-prime-with-the-paillier-modulus")
	}
	pq := new(big.Int).Mul(p, q)
	if new(big.Int).Mod(new(big.Int).Mul(al, be), pq).Cmp(c19One) != 0 {
		ds = append(ds, "alpha*beta-is-not-1-mod-pq")
	}
	for name, h := range map[string]*big.Int{"h1": h1, "h2": h2} {
		switch {
		case h.Sign() <= 0 || h.Cmp(NT) >= 0:
			ds = append(ds, name+"-out-of-range")
		case h.Cmp(c19One) == 0:
			ds = append(ds, name+"-is-1")
		case new(big.Int).GCD(nil, nil, h, NT).Cmp(c19One) != 0:
			ds = append(ds, name+"-not-a-unit")
		case !c19IsResidue(h, NT, []*big.Int{bigP, bigQ}):
			ds = append(ds, name+"-not-a-square")
		}
	}
	if new(big.Int).Exp(h1, al, NT).Cmp(h2) != 0 {
		ds = append(ds, "h2-is-not-h1^alpha")
	}
	if new(big.Int).Exp(h2, be, NT).Cmp(h1) != 0 {
		ds = append(ds, "h1-is-not-h2^beta")
	}
	return
}
