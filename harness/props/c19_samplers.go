package props

// C19, part 2: the sampling helpers of common/random.go.  Every (helper, argument) pair is one case run in a
// child process (a helper whose rejection loop has no accepted draw never returns); the values returned for toy
// arguments are validated by TLC (Samplers_Trace.tla), all values are judged with math/big against the
// documented range / promise of the helper.

import (
	"fmt"
	"io"
	"math/big"
	"sort"
	"strings"
	"time"

	"github.com/bnb-chain/tss-lib/v2/common"
)

var c19HelperNames = []string{"MustGetRandomInt", "GetRandomPositiveInt", "GetRandomPositiveRelativelyPrimeInt",
	"GetRandomGeneratorOfTheQuadraticResidue", "GetRandomQuadraticNonResidue", "GetRandomPrimeInt"}

type c19SamplerCase struct {
	Fn        string   `json:"fn"`
	Arg       string   `json:"arg"`               // decimal: a bound / modulus, or a bit count
	Factors   []string `json:"factors,omitempty"` // the prime factorisation of a large modulus (for the residuosity tests)
	Reps      int      `json:"reps"`
	Seed      int64    `json:"seed"`
	DeadlineS int      `json:"deadline_s"`
	Label     string   `json:"label,omitempty"` // name of a large argument
}

func (c c19SamplerCase) ID() string {
	a := c.Arg
	if len(a) > 12 {
		a = c.Label
	}
	return "sampler|" + c.Fn + "|" + a
}

type c19SamplerOut struct {
	Outcome   string   `json:"outcome"`          // values | nil | hang | panic
	Values    []string `json:"values,omitempty"` // distinct returned values (decimal), in order of first appearance
	Calls     int      `json:"calls"`            // calls that returned
	Nils      int      `json:"nils"`
	Panic     string   `json:"panic,omitempty"`
	Dump      string   `json:"dump,omitempty"`
	ElapsedMs float64  `json:"elapsed_ms"`
}

// c19CallHelper calls the exported helper; arg is the bound / modulus or the bit count.
func c19CallHelper(fn string, rd io.Reader, arg *big.Int) *big.Int {
	switch fn {
	case "MustGetRandomInt":
		return common.MustGetRandomInt(rd, int(arg.Int64()))
	case "GetRandomPositiveInt":
		return common.GetRandomPositiveInt(rd, arg)
	case "GetRandomPositiveRelativelyPrimeInt":
		return common.GetRandomPositiveRelativelyPrimeInt(rd, arg)
	case "GetRandomGeneratorOfTheQuadraticResidue":
		return common.GetRandomGeneratorOfTheQuadraticResidue(rd, arg)
	case "GetRandomQuadraticNonResidue":
		return common.GetRandomQuadraticNonResidue(rd, arg)
	case "GetRandomPrimeInt":
		return common.GetRandomPrimeInt(rd, int(arg.Int64()))
	}
	panic("c19: unknown helper " + fn)
}

func c19RunSampler(cs c19SamplerCase) (out c19SamplerOut) {
	arg := c19Big(cs.Arg)
	rd := newC19Reader(cs.Seed, -1)
	type res struct {
		vals     []*big.Int
		panicked string
	}
	done := make(chan res, 1)
	progress := make(chan *big.Int, cs.Reps+1)
	t0 := time.Now()
	go func() {
		var r res
		defer func() {
			if p := recover(); p != nil {
				r.panicked = fmt.Sprint(p)
			}
			done <- r
		}()
		for i := 0; i < cs.Reps; i++ {
			v := c19CallHelper(cs.Fn, rd, arg)
			progress <- v
		}
	}()
	deadline := time.Duration(cs.DeadlineS) * time.Second
	if deadline <= 0 {
		deadline = 8 * time.Second
	}
	hung := false
	var r res
	select {
	case r = <-done:
	case <-time.After(deadline):
		// not returned: dump the goroutines inside the helpers, then make the reader fail so that the
		// spinning call ends (MustGetRandomInt panics on a reader error; recovered above)
		hung = true
		var gs []c19Goroutine
		for _, g := range c19AllGoroutines() {
			if strings.Contains(g.Text, "tss-lib/v2/common.") {
				gs = append(gs, g)
			}
		}
		out.Dump = c19DumpText(gs, 3000)
		rd.mu.Lock()
		rd.left = 0
		rd.mu.Unlock()
		select {
		case r = <-done:
		case <-time.After(5 * time.Second):
		}
	}
	close(progress)
	out.ElapsedMs = float64(time.Since(t0).Microseconds()) / 1000
	seen := map[string]bool{}
	for v := range progress {
		out.Calls++
		if v == nil {
			out.Nils++
			continue
		}
		s := v.String()
		if !seen[s] {
			seen[s] = true
			out.Values = append(out.Values, s)
		}
	}
	switch {
	case hung:
		out.Outcome = "hang"
	case r.panicked != "":
		out.Outcome, out.Panic = "panic", r.panicked
	case out.Nils == out.Calls:
		out.Outcome = "nil"
	default:
		out.Outcome = "values"
	}
	return
}

func c19AllGoroutines() []c19Goroutine {
	var out []c19Goroutine
	for _, g := range strings.Split(c19StackAll(), "\n\n") {
		m := c19ReGoroutine.FindStringSubmatch(g)
		if m == nil {
			continue
		}
		out = append(out, c19Goroutine{ID: m[1], State: m[2], Text: g})
	}
	return out
}

// ------------------------------------------------------------------ the documented contracts, with math/big

var (
	c19Zero = big.NewInt(0)
	c19One  = big.NewInt(1)
)

// c19IsResidue: is w a square modulo n?  factors = prime factorisation of n (nil: n is small, brute force).
func c19IsResidue(w, n *big.Int, factors []*big.Int) bool {
	if factors == nil {
		nn := n.Int64()
		ww := new(big.Int).Mod(w, n).Int64()
		for x := int64(0); x < nn; x++ {
			if (x*x)%nn == ww {
				return true
			}
		}
		return false
	}
	// n squarefree and odd, w coprime to n: a square iff a square modulo every prime factor (Euler's criterion)
	for _, p := range factors {
		e := new(big.Int).Rsh(new(big.Int).Sub(p, c19One), 1)
		if new(big.Int).Exp(w, e, p).Cmp(c19One) != 0 {
			return false
		}
	}
	return true
}

// c19HelperDefect names the clause of the documented contract that the value v breaks ("" if none).
// It is Samplers!Documented evaluated with math/big.
func c19HelperDefect(fn string, arg, v *big.Int, factors []*big.Int) string {
	if v == nil {
		return "nil"
	}
	if v.Sign() < 0 {
		return "negative"
	}
	gcd1 := func() bool { return new(big.Int).GCD(nil, nil, v, arg).Cmp(c19One) == 0 }
	switch fn {
	case "MustGetRandomInt":
		if v.BitLen() > int(arg.Int64()) {
			return "not-below-2^bits"
		}
	case "GetRandomPositiveInt":
		if v.Cmp(arg) >= 0 {
			return "not-below-bound"
		}
	case "GetRandomPositiveRelativelyPrimeInt":
		switch {
		case v.Cmp(arg) >= 0:
			return "not-below-bound"
		case v.Sign() == 0:
			return "zero"
		case !gcd1():
			return "not-coprime"
		}
	case "GetRandomGeneratorOfTheQuadraticResidue":
		switch {
		case v.Cmp(arg) >= 0:
			return "not-below-bound"
		case v.Sign() == 0:
			return "zero"
		case !gcd1():
			return "not-coprime"
		case (factors != nil || arg.BitLen() <= 16) && !c19IsResidue(v, arg, factors):
			return "not-a-square"
		}
	case "GetRandomQuadraticNonResidue":
		switch {
		case v.Cmp(arg) >= 0:
			return "not-below-bound"
		case !gcd1():
			return "not-coprime"
		case (factors != nil || arg.BitLen() <= 16) && c19IsResidue(v, arg, factors):
			return "is-a-square"
		}
	case "GetRandomPrimeInt":
		switch {
		case !v.ProbablyPrime(32):
			return "not-prime"
		case v.BitLen() != int(arg.Int64()):
			return "wrong-bit-length"
		}
	}
	return ""
}

// c19InDomain: Samplers!Domain for arbitrary sizes (arguments outside are not part of the property).
func c19InDomain(fn string, arg *big.Int) bool {
	switch fn {
	case "MustGetRandomInt":
		return arg.Sign() > 0 && arg.Cmp(big.NewInt(5000)) <= 0
	case "GetRandomPrimeInt":
		return arg.Cmp(big.NewInt(2)) >= 0
	case "GetRandomQuadraticNonResidue":
		return arg.Sign() > 0 && arg.Bit(0) == 1
	}
	return arg.Sign() > 0
}

// class of an argument for which a helper did not return (stable part of the violation key)
func c19ArgClass(arg *big.Int) string {
	if arg.Cmp(c19One) == 0 {
		return "n=1"
	}
	r := new(big.Int).Sqrt(arg)
	if new(big.Int).Mul(r, r).Cmp(arg) == 0 {
		if arg.Bit(0) == 1 {
			return "odd-square"
		}
		return "even-square"
	}
	return "other"
}

// ------------------------------------------------------------------ plan

func c19ToyBounds(thorough bool) []int64 {
	set := map[int64]bool{}
	for i := int64(1); i <= 40; i++ {
		set[i] = true
	}
	for _, v := range []int64{45, 49, 63, 64, 65, 75, 81, 121, 125, 127, 128, 129, 169, 225, 243, 255, 256, 257} {
		set[v] = true
	}
	if thorough {
		for i := int64(41); i <= 130; i++ {
			set[i] = true
		}
		for _, v := range []int64{143, 187, 209, 221, 289, 343, 361, 511, 512, 513} {
			set[v] = true
		}
	}
	var out []int64
	for v := range set {
		out = append(out, v)
	}
	sort.Slice(out, func(i, j int) bool { return out[i] < out[j] })
	return out
}

func c19TLASet(vs []int64) string {
	var sb strings.Builder
	sb.WriteString("{")
	for i, v := range vs {
		if i > 0 {
			sb.WriteString(", ")
		}
		fmt.Fprint(&sb, v)
	}
	sb.WriteString("}")
	return sb.String()
}

type c19BigArg struct {
	Label   string
	N       *big.Int
	Factors []*big.Int // nil: unknown / not squarefree
}

func c19SamplerPlan(seed int64, thorough bool, bigs []c19BigArg) []c19SamplerCase {
	var cases []c19SamplerCase
	reps := 40
	if thorough {
		reps = 400
	}
	k := int64(0)
	add := func(c c19SamplerCase) {
		k++
		c.Seed = seed*104729 + k
		cases = append(cases, c)
	}
	for _, fn := range c19HelperNames {
		for _, b := range c19ToyBounds(thorough) {
			arg := big.NewInt(b)
			if !c19InDomain(fn, arg) {
				continue
			}
			if (fn == "MustGetRandomInt" && b > 12) || (fn == "GetRandomPrimeInt" && b > 15) {
				continue // Samplers!Domain: what fits TLC
			}
			r := reps
			if b > 64 {
				r = 3 * reps
			}
			add(c19SamplerCase{Fn: fn, Arg: arg.String(), Reps: r, DeadlineS: 4})
		}
	}
	// large arguments (math/big only)
	for _, bits := range []int64{13, 16, 64, 255, 256, 1024, 2048, 5000} {
		add(c19SamplerCase{Fn: "MustGetRandomInt", Arg: fmt.Sprint(bits), Reps: 20, DeadlineS: 60, Label: fmt.Sprintf("bits%d", bits)})
	}
	for _, bits := range []int64{16, 17, 32, 64, 128, 512} {
		add(c19SamplerCase{Fn: "GetRandomPrimeInt", Arg: fmt.Sprint(bits), Reps: 6, DeadlineS: 120, Label: fmt.Sprintf("bits%d", bits)})
	}
	for _, ba := range bigs {
		var fs []string
		for _, f := range ba.Factors {
			fs = append(fs, f.String())
		}
		for _, fn := range []string{"GetRandomPositiveInt", "GetRandomPositiveRelativelyPrimeInt", "GetRandomGeneratorOfTheQuadraticResidue", "GetRandomQuadraticNonResidue"} {
			if !c19InDomain(fn, ba.N) {
				continue
			}
			if (fn == "GetRandomGeneratorOfTheQuadraticResidue" || fn == "GetRandomQuadraticNonResidue") && ba.Factors == nil {
				continue // residuosity cannot be judged without the factorisation
			}
			add(c19SamplerCase{Fn: fn, Arg: ba.N.String(), Factors: fs, Reps: 12, DeadlineS: 120, Label: ba.Label})
		}
	}
	return cases
}
