package props

// C20 - key material survives storage and repeated use unchanged; nonces are fresh.
//
// Design level : spec/KeyStore.tla (explicit heap: key data is a struct of pointers handed to sessions by value;
//                one operator per library function that receives key data) is model-checked exhaustively by TLC
//                over all operation histories up to a bound; a second run over the defect / misuse variants shows
//                that every clause of the property is violated by the variant aimed at it (non-vacuity).
// Binding (B)  : TLC prints operation histories with the predicted observations of every step (-simulate); the
//                harness replays each on REAL key data of both curves and compares after every step.
// Binding (A)  : every executed history (generated and directed) is written as ndjson, one line per operation with
//                the observations made on the real data, and must be explained by spec/KeyStore_Trace.tla.
// Verdict      : only from the real data - deep digest of every party's LocalPartySaveData after every operation,
//                byte-identical re-serialisation, reload equality, signatures verified by the independent oracle
//                under the (derived) group key, pairwise distinct R over all completed sessions.

import (
	"encoding/json"
	"fmt"
	"math/big"
	"math/rand"
	"os"
	"path/filepath"
	"sort"
	"strings"
	"sync"
	"time"

	eckg "github.com/bnb-chain/tss-lib/v2/ecdsa/keygen"
	ecsg "github.com/bnb-chain/tss-lib/v2/ecdsa/signing"
	"github.com/bnb-chain/tss-lib/v2/tss"

	"verif/harness/core"
	"verif/harness/tlc"
)

func init() { Registry["C20"] = C20 }

// ------------------------------------------------------------------ TLC configurations

type c20Model struct {
	N, T     int
	Msgs     string
	Paths    string
	Listings string // TLA+ set of sequences
	Hows     string
	MaxOps   int
	Variants string
	Record   bool
	TwoPhase bool
}

func c20Bool(b bool) string {
	if b {
		return "TRUE"
	}
	return "FALSE"
}

func (m c20Model) constants() string {
	return fmt.Sprintf("CONSTANTS\n  N = %d\n  T = %d\n  Msgs = %s\n  Paths = %s\n  Listings <- ListingsVal\n  Hows = %s\n  MaxOps = %d\n  Variants = %s\n  Record = %s\n  TwoPhase = %s\n",
		m.N, m.T, m.Msgs, m.Paths, m.Hows, m.MaxOps, m.Variants, c20Bool(m.Record), c20Bool(m.TwoPhase))
}

func (m c20Model) wrapper(name, base string) string {
	return fmt.Sprintf("---- MODULE %s ----\nEXTENDS %s\nListingsVal == %s\n====\n", name, base, m.Listings)
}

const (
	c20HowsEc = `{"silence", "tamper", "refuse_few", "refuse_digest"}`
	c20HowsEd = `{"silence", "tamper", "refuse_few"}`
	c20Invs   = "TypeOK KeyUnchanged StoredUnchanged RoundTrip ArgsUnchanged NoncesFresh SigsValid ObsSound"
)

func c20TLASeq(l []int) string {
	s := make([]string, len(l))
	for i, x := range l {
		s[i] = fmt.Sprint(x)
	}
	return "<<" + strings.Join(s, ", ") + ">>"
}

func c20TLASet(ls [][]int) string {
	s := make([]string, len(ls))
	for i, l := range ls {
		s[i] = c20TLASeq(l)
	}
	return "{" + strings.Join(s, ", ") + "}"
}

// c20AllListings: every sequence of distinct parties of length >= t+1.
func c20AllListings(n, t int) [][]int {
	var out [][]int
	var rec func(cur []int, used int)
	rec = func(cur []int, used int) {
		if len(cur) >= t+1 {
			out = append(out, append([]int{}, cur...))
		}
		for p := 1; p <= n; p++ {
			if used&(1<<p) == 0 {
				rec(append(cur, p), used|1<<p)
			}
		}
	}
	rec(nil, 0)
	return out
}

// c20SomeListings: max listings of an (n,t) key, seeded (all of them if there are not more).
func c20SomeListings(n, t, max int, rng *rand.Rand) [][]int {
	all := c20AllListings(n, t)
	if len(all) <= max {
		return all
	}
	rng.Shuffle(len(all), func(i, j int) { all[i], all[j] = all[j], all[i] })
	// prefer short lists (sessions cost grows with the number of signers) but keep one of every length
	sort.SliceStable(all, func(i, j int) bool { return len(all[i]) < len(all[j]) })
	var out [][]int
	perLen := map[int]int{}
	for _, l := range all {
		quota := max / 2
		if len(l) > t+1 {
			quota = (max - max/2) / (n - t - 1)
			if quota < 1 {
				quota = 1
			}
		}
		if perLen[len(l)] < quota && len(out) < max {
			out = append(out, l)
			perLen[len(l)]++
		}
	}
	return out
}

// c20RunMC: exhaustive exploration of all histories up to maxOps operations over a small alphabet (code variant).
// wide = two offsets and a fourth signer list.
func c20RunMC(maxOps, workers int, wide bool) (tlc.Result, c20Model) {
	m := c20Model{N: 3, T: 1, Msgs: "{1, 2}", Paths: "{1}", Hows: c20HowsEc, MaxOps: maxOps, Variants: `{"code"}`,
		Listings: "{<<1, 2>>, <<3, 1>>, <<2, 3, 1>>}"}
	if wide {
		m.Paths = "{1, 2}"
		m.Listings = "{<<1, 2>>, <<3, 1>>, <<3, 2>>, <<2, 3, 1>>}"
	}
	cfg := "SPECIFICATION Spec\n" + m.constants() + "INVARIANTS " + c20Invs + "\nPROPERTIES KeyStable\nCHECK_DEADLOCK FALSE\n"
	r := tlc.Run(tlc.Options{Module: "MC_KeyStore", Cfg: cfg, Workers: workers, Heap: "4g", Timeout: 40 * time.Minute,
		Files: map[string]string{"MC_KeyStore.tla": m.wrapper("MC_KeyStore", "KeyStore")}})
	return r, m
}

type c20VariantRow struct {
	Variant string   `json:"variant"`
	Broken  []string `json:"broken"`
}

// c20RunVariants: every defect / misuse variant must break the clause it is aimed at, the code variant none.
func c20RunVariants() (tlc.Result, []c20VariantRow, error) {
	m := c20Model{N: 3, T: 1, Msgs: "{1}", Paths: "{1}", Hows: `{"tamper"}`, MaxOps: 2, Listings: "{<<3, 1>>}",
		Variants: `{"code", "inplace", "arrays", "shallow", "derived", "seeded"}`}
	cfg := "SPECIFICATION Spec\n" + m.constants() + "INVARIANTS Witness\nPOSTCONDITION VariantsSeparated\nCHECK_DEADLOCK FALSE\n"
	r := tlc.Run(tlc.Options{Module: "MCV_KeyStore", Cfg: cfg, Workers: 1, Heap: "2g", Timeout: 20 * time.Minute,
		Files: map[string]string{"MCV_KeyStore.tla": m.wrapper("MCV_KeyStore", "KeyStore")}})
	if r.Err != nil {
		return r, nil, r.Err
	}
	rows, err := c17Printed(r.Output, "VARIANTS")
	if err != nil || len(rows) != 1 {
		return r, nil, fmt.Errorf("variants run printed no table (%v)", err)
	}
	var tab []c20VariantRow
	if err := json.Unmarshal([]byte(rows[0]), &tab); err != nil {
		return r, nil, err
	}
	if !r.OK {
		return r, tab, fmt.Errorf("the variants are not separated by the invariants (%s): %s", r.Violated, rows[0])
	}
	return r, tab, nil
}

// c20Generate lets TLC print num histories of maxOps operations for one key shape.
func c20Generate(sp c20KeySpec, maxOps, num int, seed int64, rng *rand.Rand) ([][]c20Op, tlc.Result, error) {
	m := c20Model{N: sp.N, T: sp.T, Msgs: "{1, 2}", Paths: "{1, 2}", Hows: c20HowsEc, MaxOps: maxOps, Variants: `{"code"}`, Record: true, TwoPhase: true}
	if sp.Curve == "eddsa" {
		m.Paths, m.Hows = "{}", c20HowsEd
	}
	m.Listings = c20TLASet(c20SomeListings(sp.N, sp.T, 12, rng))
	name := "MCG_KeyStore"
	cfg := "SPECIFICATION Spec\n" + m.constants() + "INVARIANTS Emit\nCHECK_DEADLOCK FALSE\n"
	r := tlc.Run(tlc.Options{Module: name, Cfg: cfg, Workers: 1, Heap: "2g", Timeout: 20 * time.Minute,
		Args:  []string{"-simulate", fmt.Sprintf("num=%d", num), "-depth", fmt.Sprint(2*maxOps + 2), "-seed", fmt.Sprint(seed)},
		Files: map[string]string{name + ".tla": m.wrapper(name, "KeyStore")}})
	if r.Err != nil {
		return nil, r, r.Err
	}
	if !r.OK {
		return nil, r, fmt.Errorf("generator violates %s", r.Violated)
	}
	bs, err := c17Printed(r.Output, "BEHAVIOUR")
	if err != nil {
		return nil, r, err
	}
	var out [][]c20Op
	for _, b := range bs {
		var ops []c20Op
		if err := json.Unmarshal([]byte(b), &ops); err != nil {
			return nil, r, fmt.Errorf("cannot parse a history printed by TLC: %v", err)
		}
		if len(ops) != maxOps {
			return nil, r, fmt.Errorf("TLC printed a history of %d operations, expected %d", len(ops), maxOps)
		}
		out = append(out, ops)
	}
	if len(out) == 0 {
		return nil, r, fmt.Errorf("TLC printed no history")
	}
	return out, r, nil
}

// ------------------------------------------------------------------ trace validation (binding A)

type c20TraceVerdict struct {
	N, T      int
	Histories int
	Lines     int
	Accepted  bool
	FailLine  int
	FailText  string
	FailHist  int
	Res       tlc.Result
}

func c20TraceLines(r *c20HistResult) []string {
	reset, _ := json.Marshal(map[string]any{"ev": "Reset", "n": r.H.Key.N, "t": r.H.Key.T, "variant": r.H.Variant})
	lines := []string{string(reset)}
	for _, o := range r.Obs {
		b, _ := json.Marshal(o)
		// {"op":...} -> {"ev":"Op","op":...}
		lines = append(lines, `{"ev":"Op",`+string(b[1:]))
	}
	return lines
}

func c20ValidateGroup(n, t int, lines []string, owner []int) (c20TraceVerdict, error) {
	v := c20TraceVerdict{N: n, T: t, Lines: len(lines)}
	tmpBase := os.Getenv("VERIF_TMP")
	if tmpBase == "" {
		tmpBase = os.TempDir()
	}
	tf, err := os.CreateTemp(tmpBase, "verif-c20-trace-*.ndjson")
	if err != nil {
		return v, err
	}
	defer os.Remove(tf.Name())
	if _, err := tf.WriteString(strings.Join(lines, "\n") + "\n"); err != nil {
		tf.Close()
		return v, err
	}
	tf.Close()
	abs, _ := filepath.Abs(tf.Name())
	m := c20Model{N: n, T: t, Msgs: "{1, 2}", Paths: "{1, 2}", Hows: c20HowsEc, MaxOps: 1000, Variants: `{"code"}`, Record: false, Listings: "{}"}
	name := "MCT_KeyStore"
	cfg := "SPECIFICATION TraceSpec\n" + m.constants() + "INVARIANTS TraceInv\nCONSTRAINT HighWater\nPOSTCONDITION TraceAccepted\nCHECK_DEADLOCK FALSE\n"
	r := tlc.Run(tlc.Options{Module: name, Cfg: cfg, Env: map[string]string{"TRACE": abs}, Workers: 1, Heap: "2g", Timeout: 20 * time.Minute,
		Files: map[string]string{name + ".tla": m.wrapper(name, "KeyStore_Trace")}})
	v.Res = r
	if r.Err != nil {
		return v, r.Err
	}
	v.Accepted = r.OK && r.HW == len(lines)
	if !v.Accepted {
		line := r.HW + 1
		if r.Violated != "" && r.Violated != "TraceAccepted" {
			line = r.HW
		}
		if line >= 1 && line <= len(lines) {
			v.FailLine, v.FailText, v.FailHist = line, lines[line-1], owner[line-1]
		}
	}
	return v, nil
}

// c20ValidateTraces: one TLC run per key shape (n,t) over all clean histories of that shape.
func c20ValidateTraces(results []*c20HistResult) ([]c20TraceVerdict, error) {
	type nt struct{ n, t int }
	groups := map[nt][]*c20HistResult{}
	for _, r := range results {
		k := nt{r.H.Key.N, r.H.Key.T}
		groups[k] = append(groups[k], r)
	}
	var keys []nt
	for k := range groups {
		keys = append(keys, k)
	}
	sort.Slice(keys, func(i, j int) bool { return keys[i].n*10+keys[i].t < keys[j].n*10+keys[j].t })
	out := make([]c20TraceVerdict, len(keys))
	errs := make([]error, len(keys))
	var wg sync.WaitGroup
	for i, k := range keys {
		wg.Add(1)
		go func(i int, k nt) {
			defer wg.Done()
			var lines []string
			var owner []int
			for _, r := range groups[k] {
				for _, l := range c20TraceLines(r) {
					lines = append(lines, l)
					owner = append(owner, r.H.Idx)
				}
			}
			out[i], errs[i] = c20ValidateGroup(k.n, k.t, lines, owner)
			out[i].Histories = len(groups[k])
		}(i, k)
	}
	wg.Wait()
	for _, e := range errs {
		if e != nil {
			return out, e
		}
	}
	return out, nil
}

// ------------------------------------------------------------------ directed histories

func c20Directed(sp c20KeySpec, seed int64) []c20History {
	n, t := sp.N, sp.T
	// signer lists: a minimal one written in descending order, another minimal one, the full committee rotated
	var la, lb, full []int
	for i := 0; i <= t; i++ {
		la = append(la, n-i)   // n, n-1, ...
		lb = append(lb, 1+i*1) // 1, 2, ...
	}
	for i := 0; i < n; i++ {
		full = append(full, 1+(i+1)%n)
	}
	mk := func(name string, variant string, ops ...c20Op) c20History {
		return c20History{Key: sp, Variant: variant, Origin: "directed:" + name, Seed: seed*53 + int64(len(name)), Ops: ops}
	}
	sign := func(l []int, m int) c20Op { return c20Op{Op: "Sign", L: l, M: m, How: "none"} }
	kdd := func(l []int, m, d int) c20Op { return c20Op{Op: "SignKDD", L: l, M: m, D: d, How: "none"} }
	abort := func(l []int, m, d int, how string) c20Op { return c20Op{Op: "Abort", L: l, M: m, D: d, How: how} }
	reload := func(p int) c20Op { return c20Op{Op: "Reload", P: p, How: "none"} }
	subset := func(l []int) c20Op { return c20Op{Op: "Subset", L: l, How: "none"} }
	var hs []c20History
	// the same message, the same signers, the same key: three sessions, the last one from reloaded data
	same := []c20Op{sign(la, 1), sign(la, 1)}
	for _, p := range la {
		same = append(same, reload(p))
	}
	same = append(same, sign(la, 1))
	hs = append(hs, mk("same-message-same-signers", "code", same...))
	// every kind of abort, then a complete session
	ab := []c20Op{abort(lb, 1, 0, "silence"), abort(la, 2, 0, "tamper"), abort(full, 1, 0, "refuse_few")}
	if sp.Curve == "ecdsa" {
		ab = append(ab, abort(lb, 1, 0, "refuse_digest"), abort(la, 1, 1, "tamper"), abort(lb, 2, 2, "silence"), abort(la, 1, 1, "refuse_digest"))
	}
	ab = append(ab, sign(lb, 2))
	hs = append(hs, mk("aborts", "code", ab...))
	// subsets and orderings, original and reloaded structs mixed
	hs = append(hs, mk("subsets", "code", subset(la), subset(full), reload(1), reload(n), subset(full), sign(full, 2), subset(lb), sign(lb, 1)))
	if sp.Curve == "ecdsa" {
		hs = append(hs, mk("offsets", "code", kdd(la, 1, 1), sign(la, 1), kdd(la, 1, 1), reload(la[0]), kdd(lb, 2, 2), kdd(la, 1, 1)))
	}
	// caller misuse, documented and not judged: the same deterministic reader installed for two sessions
	hs = append(hs, mk("misuse-same-reader", "seeded",
		c20Op{Op: "Seeded", L: la, M: 1, How: "none", Seed: 1}, c20Op{Op: "Seeded", L: la, M: 2, How: "none", Seed: 1}))
	return hs
}

// ------------------------------------------------------------------ self tests of the machinery

// c20SelfTest: the digest sees every kind of in-place change, and the documented aliasing of
// UpdatePublicKeyAndAdjustBigXj (a plain struct copy shares the BigXj backing array) is visible to it.
func c20SelfTest(ecKeys, edKeys *c20KeySet) (aliasing bool, err error) {
	k := c20CopyEc(ecKeys.Ec[0])
	base, _, err := c20Digest(k)
	if err != nil {
		return false, err
	}
	if base != ecKeys.Digest[0] {
		return false, fmt.Errorf("digest of a deep copy differs")
	}
	one := big.NewInt(1)
	muts := map[string]func(){
		"Xi":          func() { k.Xi.Add(k.Xi, one) },
		"Ks[1]":       func() { k.Ks[1].Add(k.Ks[1], one) },
		"BigXj swap":  func() { k.BigXj[0], k.BigXj[1] = k.BigXj[1], k.BigXj[0] },
		"PaillierSK":  func() { k.PaillierSK.LambdaN.Add(k.PaillierSK.LambdaN, one) },
		"PaillierPKs": func() { k.PaillierPKs[2].N.Add(k.PaillierPKs[2].N, one) },
		"H2j":         func() { k.H2j[0].Sub(k.H2j[0], one) },
		"pre Q":       func() { k.Q.Add(k.Q, one) },
		"ECDSAPub":    func() { k.ECDSAPub = k.BigXj[0] },
		"truncate":    func() { k.NTildej = k.NTildej[:len(k.NTildej)-1] },
	}
	for name, f := range muts {
		k = c20CopyEc(ecKeys.Ec[0])
		f()
		d, _, err := c20Digest(k)
		if err != nil {
			return false, err
		}
		if d == base {
			return false, fmt.Errorf("the digest does not see a change of %s", name)
		}
	}
	e := c20CopyEd(edKeys.Ed[0])
	be, _, err := c20Digest(e)
	if err != nil || be != edKeys.Digest[0] {
		return false, fmt.Errorf("digest of an EdDSA deep copy differs (%v)", err)
	}
	e.Xi.Add(e.Xi, one)
	if d, _, _ := c20Digest(e); d == be {
		return false, fmt.Errorf("the digest does not see a change of the EdDSA share")
	}
	// documented hazard (caller misuse, not judged): a struct copy handed to UpdatePublicKeyAndAdjustBigXj
	orig := c20CopyEc(ecKeys.Ec[0])
	shallow := orig
	delta, child, _, err := c20Delta(ecKeys, 1, 1)
	if err != nil {
		return false, err
	}
	pan := c13Call(func() { err = ecsg.UpdatePublicKeyAndAdjustBigXj(delta, append([]eckg.LocalPartySaveData{}, shallow), child, tss.S256()) })
	if pan != "" || err != nil {
		return false, fmt.Errorf("UpdatePublicKeyAndAdjustBigXj: %v %s", err, pan)
	}
	d, _, err := c20Digest(orig)
	if err != nil {
		return false, err
	}
	return d != base, nil
}

// ------------------------------------------------------------------ the check

type c20Plan struct {
	Shapes   []c20KeySpec // generated histories per shape
	PerShape int
	MaxOps   int
	Directed []c20KeySpec
	MCDepth  int
}

func c20MakePlan(ctx *core.Ctx) c20Plan {
	ecFix := c20KeySpec{"ecdsa", 5, 2, "fixture"}
	ec31 := c20KeySpec{"ecdsa", 3, 1, "keygen"}
	ed31 := c20KeySpec{"eddsa", 3, 1, "keygen"}
	ed52 := c20KeySpec{"eddsa", 5, 2, "reshared"}
	if !ctx.Thorough() {
		return c20Plan{Shapes: []c20KeySpec{ecFix, ec31, ed31, ed52}, PerShape: 3, MaxOps: 4, Directed: []c20KeySpec{ecFix, ed31}, MCDepth: 3}
	}
	return c20Plan{Shapes: []c20KeySpec{ecFix, ec31, {"ecdsa", 3, 1, "reshared"}, {"ecdsa", 4, 2, "keygen"},
		ed31, ed52, {"eddsa", 4, 2, "keygen"}, {"eddsa", 5, 2, "keygen"}},
		PerShape: 18, MaxOps: 6, Directed: []c20KeySpec{ecFix, ec31, ed31, ed52}, MCDepth: 4}
}

func c20Report(ctx *core.Ctx, r *c20HistResult) {
	for _, v := range r.Viols {
		ctx.Report(v.Key, v.What, r.H)
	}
}

func c20RunAll(hs []c20History, reg *c20NonceReg, workers int) []*c20HistResult {
	out := make([]*c20HistResult, len(hs))
	var wg sync.WaitGroup
	ch := make(chan int)
	for w := 0; w < workers; w++ {
		wg.Add(1)
		go func() {
			defer wg.Done()
			for i := range ch {
				out[i] = c20RunHistory(hs[i], reg)
			}
		}()
	}
	for i := range hs {
		ch <- i
	}
	close(ch)
	wg.Wait()
	return out
}

// c20Compare: binding (B) - the observations on the real code against the model's prediction, step by step.
func c20Compare(pred, got []c20Op) string {
	for i := range got {
		p, g := pred[i], got[i]
		var d []string
		if p.Done != g.Done {
			d = append(d, fmt.Sprintf("done %v/%v", p.Done, g.Done))
		}
		if p.KeySame != g.KeySame {
			d = append(d, fmt.Sprintf("key_same %v/%v", p.KeySame, g.KeySame))
		}
		if p.StoredSame != g.StoredSame {
			d = append(d, fmt.Sprintf("stored_same %v/%v", p.StoredSame, g.StoredSame))
		}
		if p.ArgSame != g.ArgSame {
			d = append(d, fmt.Sprintf("arg_same %v/%v", p.ArgSame, g.ArgSame))
		}
		if p.RT != g.RT {
			d = append(d, fmt.Sprintf("rt %v/%v", p.RT, g.RT))
		}
		if p.Fresh != g.Fresh {
			d = append(d, fmt.Sprintf("fresh %v/%v", p.Fresh, g.Fresh))
		}
		if p.Valid != g.Valid {
			d = append(d, fmt.Sprintf("valid %v/%v", p.Valid, g.Valid))
		}
		if p.NN != g.NN {
			d = append(d, fmt.Sprintf("nn %d/%d", p.NN, g.NN))
		}
		if !c20EqInts(p.IDs, g.IDs) {
			d = append(d, fmt.Sprintf("ids %v/%v", p.IDs, g.IDs))
		}
		if len(d) > 0 {
			return fmt.Sprintf("step %d %s: model/real %s", i+1, g.String(), strings.Join(d, ", "))
		}
	}
	return ""
}

func C20(ctx *core.Ctx) error {
	reg := newC20NonceReg()
	if ctx.Replay != "" {
		var h c20History
		if _, err := core.LoadReplay(ctx.Replay, &h); err != nil {
			return core.Inconcl("cannot load replay: %v", err)
		}
		r := c20RunHistory(h, reg)
		if r.Inconcl != "" {
			return core.Inconcl("replay: %s", r.Inconcl)
		}
		fmt.Printf("replay %s: %d step(s) executed, %d violation(s)\n", h.name(), len(r.Obs), len(r.Viols))
		c20Report(ctx, r)
		return nil
	}
	plan := c20MakePlan(ctx)
	cov := core.NewCov()
	_ = rand.Int

	// design model and non-vacuity run in the background
	var mcRes, mcRes2, varRes tlc.Result
	var mcModel, mcModel2 c20Model
	var varTab []c20VariantRow
	var varErr error
	var bg sync.WaitGroup
	bg.Add(2)
	go func() {
		defer bg.Done()
		mcRes, mcModel = c20RunMC(plan.MCDepth, ctx.Pick(4, 5), false)
		if ctx.Thorough() && mcRes.Err == nil && mcRes.OK {
			mcRes2, mcModel2 = c20RunMC(3, 5, true)
		}
	}()
	go func() { defer bg.Done(); varRes, varTab, varErr = c20RunVariants() }()

	// key material (real keygens / resharings of the current tree, vendored fixtures) and the generators, in parallel
	type genOut struct {
		ops [][]c20Op
		res tlc.Result
		err error
	}
	gens := make([]genOut, len(plan.Shapes))
	keyErrs := make([]error, len(plan.Shapes))
	var wg, gwg sync.WaitGroup
	sem := make(chan struct{}, 4)
	for i, sp := range plan.Shapes {
		listRng := rand.New(rand.NewSource(ctx.Seed*101 + int64(i)))
		wg.Add(1)
		gwg.Add(1)
		go func(i int, sp c20KeySpec) {
			defer gwg.Done()
			sem <- struct{}{}
			defer func() { <-sem }()
			ops, r, err := c20Generate(sp, plan.MaxOps, plan.PerShape, ctx.Seed*1000+int64(i)+1, listRng)
			gens[i] = genOut{ops, r, err}
		}(i, sp)
		go func(i int, sp c20KeySpec) {
			defer wg.Done()
			_, keyErrs[i] = c20Keys(sp)
		}(i, sp)
	}
	wg.Wait()
	for i, e := range keyErrs {
		if e != nil {
			bg.Wait()
			return core.Inconcl("key material %v: %v", plan.Shapes[i], e)
		}
	}
	ecFix, err := c20Keys(c20KeySpec{"ecdsa", 5, 2, "fixture"})
	if err != nil {
		bg.Wait()
		return core.Inconcl("fixtures: %v", err)
	}
	ed31, err := c20Keys(c20KeySpec{"eddsa", 3, 1, "keygen"})
	if err != nil {
		bg.Wait()
		return core.Inconcl("EdDSA keygen: %v", err)
	}
	aliasing, err := c20SelfTest(ecFix, ed31)
	if err != nil {
		bg.Wait()
		return core.Inconcl("self test of the digest: %v", err)
	}

	// directed histories run while TLC is still generating
	var dhs []c20History
	for _, sp := range plan.Directed {
		dhs = append(dhs, c20Directed(sp, ctx.Seed)...)
	}
	for i := range dhs {
		dhs[i].Idx = i
	}
	t0 := time.Now()
	var dres []*c20HistResult
	var dwg sync.WaitGroup
	dwg.Add(1)
	go func() { defer dwg.Done(); dres = c20RunAll(dhs, reg, 6) }()
	gwg.Wait()
	var hs []c20History
	genTotal := 0
	var genCfg []map[string]any
	for i, sp := range plan.Shapes {
		g := gens[i]
		if g.err != nil {
			dwg.Wait()
			bg.Wait()
			return core.Inconcl("history generation for %v: %v", sp, g.err)
		}
		genCfg = append(genCfg, map[string]any{"key": sp.String(), "histories": len(g.ops), "ops": plan.MaxOps, "wall_s": g.res.Wall})
		for j, ops := range g.ops {
			hs = append(hs, c20History{Key: sp, Variant: "code", Origin: "tlc", Seed: ctx.Seed*100003 + int64(i)*1009 + int64(j), Ops: ops})
			genTotal++
		}
	}
	// expensive first
	sort.SliceStable(hs, func(i, j int) bool { return hs[i].Key.Curve < hs[j].Key.Curve })
	for i := range hs {
		hs[i].Idx = len(dhs) + i
	}
	gres := c20RunAll(hs, reg, 8)
	dwg.Wait()
	results := append(dres, gres...)
	runWall := time.Since(t0).Seconds()

	var clean []*c20HistResult
	sessions, steps, drifts, replayed := 0, 0, 0, 0
	opKinds := map[string]int{}
	misuse := map[string]any{}
	for _, r := range results {
		if r.Inconcl != "" {
			bg.Wait()
			return core.Inconcl("history %s: %s", r.H.name(), r.Inconcl)
		}
		c20Report(ctx, r)
		sessions += r.Sessions
		steps += len(r.Obs)
		for _, o := range r.Obs {
			k := o.Op
			if o.Op == "Abort" {
				k += ":" + o.How
			}
			if o.D > 0 && o.Op == "Abort" {
				k += "+offset"
			}
			opKinds[r.H.Key.Curve+"/"+k]++
			cov.Case(fmt.Sprintf("%v|%s|%v|m%d|d%d|%s|step%d", r.H.Key, o.Op, o.L, o.M, o.D, o.How, len(r.Obs)), true)
		}
		if r.H.Variant == "seeded" {
			same := len(r.Rs) == 2 && r.Rs[0] == r.Rs[1]
			misuse[r.H.Key.String()] = map[string]any{"same_reader_installed_twice_gives_same_R": same, "messages_differ": true}
			if !same {
				ctx.Note("misuse scenario on %v: the two sessions with the same deterministic reader used different R (not judged)", r.H.Key)
				continue // the model predicts the reuse; leave the history out of the validation
			}
		}
		switch {
		case len(r.Viols) > 0:
		case len(r.Drift) > 0:
			drifts++
			ctx.Note("drift: %s", strings.Join(r.Drift, "; "))
		default:
			if r.H.Origin == "tlc" {
				if mm := c20Compare(r.H.Ops, r.Obs); mm != "" {
					bg.Wait()
					return core.Inconcl("history %s: the real code departs from the model's prediction without contradicting the property: %s", r.H.name(), mm)
				}
				replayed++
			}
			clean = append(clean, r)
		}
	}
	for _, r := range results {
		if len(r.H.Ops) <= 8 {
			cov.Sample(map[string]any{"key": r.H.Key.String(), "origin": r.H.Origin, "history": r.H.name(), "observed": r.Obs}, 6)
		}
	}

	// binding (A): every clean history must be explained by KeyStore_Trace.tla; self test: a falsified line is rejected
	var selfV c20TraceVerdict
	var selfErr error
	var selfWG sync.WaitGroup
	if len(clean) > 0 {
		selfWG.Add(1)
		go func() {
			defer selfWG.Done()
			r := clean[0]
			for _, c := range clean {
				if c.H.Key.N == 3 && len(c.Obs) >= 2 {
					r = c
					break
				}
			}
			lines := c20TraceLines(r)
			i := 1 + int(ctx.Seed)%(len(lines)-1)
			fields := []string{`"key_same":true`, `"arg_same":true`, `"stored_same":true`}
			f := fields[int(ctx.Seed)%len(fields)]
			lines[i] = strings.Replace(lines[i], f, strings.Replace(f, "true", "false", 1), 1)
			owner := make([]int, len(lines))
			selfV, selfErr = c20ValidateGroup(r.H.Key.N, r.H.Key.T, lines, owner)
			if selfErr == nil && selfV.Accepted {
				selfErr = fmt.Errorf("KeyStore_Trace accepted a history in which line %d was falsified (%s)", i+1, f)
			}
		}()
	}
	verdicts, terr := c20ValidateTraces(clean)
	selfWG.Wait()
	bg.Wait()
	if terr != nil {
		return core.Inconcl("trace validation machinery failed: %v", terr)
	}
	if selfErr != nil {
		return core.Inconcl("self test of the binding: %v", selfErr)
	}
	for _, v := range verdicts {
		if !v.Accepted {
			return core.Inconcl("KeyStore_Trace (n=%d,t=%d) does not explain line %d (history %d): %s [%s] - model and harness disagree although no observation contradicts the property",
				v.N, v.T, v.FailLine, v.FailHist, core.Short(v.FailText, 400), v.Res.Violated)
		}
		cov.AddTraces(v.Histories)
		cov.Add("trace_lines", v.Lines)
	}
	if mcRes.Err != nil {
		return core.Inconcl("KeyStore design model: %v", mcRes.Err)
	}
	if !mcRes.OK {
		return core.Inconcl("KeyStore design model violates %s:\n%s", mcRes.Violated, mcRes.ErrorTrace(2500))
	}
	if ctx.Thorough() {
		if mcRes2.Err != nil {
			return core.Inconcl("KeyStore design model (wide alphabet): %v", mcRes2.Err)
		}
		if !mcRes2.OK {
			return core.Inconcl("KeyStore design model (wide alphabet) violates %s:\n%s", mcRes2.Violated, mcRes2.ErrorTrace(2500))
		}
		cov.AddMC(mcRes2.Distinct, mcRes2.Generated)
		cov.Set("mc_wide", map[string]any{"n": mcModel2.N, "t": mcModel2.T, "listings": mcModel2.Listings, "msgs": mcModel2.Msgs, "paths": mcModel2.Paths, "hows": mcModel2.Hows,
			"max_ops": mcModel2.MaxOps, "distinct": mcRes2.Distinct, "generated": mcRes2.Generated, "depth": mcRes2.Depth, "wall_s": mcRes2.Wall})
	}
	if varErr != nil {
		return core.Inconcl("KeyStore variants (non-vacuity of the invariants): %v", varErr)
	}
	cov.AddMC(mcRes.Distinct, mcRes.Generated)
	cov.AddMC(varRes.Distinct, varRes.Generated)
	cov.Set("mc", map[string]any{"n": mcModel.N, "t": mcModel.T, "listings": mcModel.Listings, "msgs": mcModel.Msgs, "paths": mcModel.Paths, "hows": mcModel.Hows,
		"max_ops": mcModel.MaxOps, "distinct": mcRes.Distinct, "generated": mcRes.Generated, "depth": mcRes.Depth, "wall_s": mcRes.Wall, "invariants": c20Invs + " KeyStable"})
	cov.Set("variants", map[string]any{"table": varTab, "distinct": varRes.Distinct, "generated": varRes.Generated})
	cov.Set("generators", genCfg)
	cov.Set("histories", len(results))
	cov.Set("histories_from_tlc", genTotal)
	cov.Set("histories_from_tlc_matching_prediction", replayed)
	cov.Set("operations", steps)
	cov.Set("operations_by_kind", opKinds)
	cov.Set("signing_sessions", sessions)
	cov.Set("distinct_R", len(reg.seen))
	cov.Set("drift_histories", drifts)
	cov.Set("real_code_wall_s", runWall)
	cov.Set("caller_misuse_not_judged", map[string]any{"same_deterministic_reader": misuse,
		"struct_copy_handed_to_UpdatePublicKeyAndAdjustBigXj_rewrites_callers_BigXj": aliasing})
	cov.Set("binding_self_test", fmt.Sprintf("falsified line rejected at line %d of %d", selfV.FailLine, selfV.Lines))
	cov.Set("exhaustive", false)
	return ctx.WriteEvidence("model_checking",
		"one case = one operation of a history on real key data (key, operation, signer list as written by the caller, message id, offset id, abort kind, position in the history); "+
			"after EVERY operation: deep digest (reflection walk) of every party's LocalPartySaveData equals the digest at key generation, json.Marshal is byte-identical to the first serialisation, "+
			"a reloaded struct has the digest of the serialised one, the structs handed to NewLocalParty[WithKDD] are unchanged, every completed session's signature verifies under the (derived) group key "+
			"with the independent verifier and its R differs from R of every other completed session of the run (default randomness). "+
			"states/transitions: TLC on spec/KeyStore.tla, all histories up to max_ops operations plus the variants run; traces: histories explained by spec/KeyStore_Trace.tla",
		cov, []string{
			"keys: the vendored (5,2) ECDSA key files and real keygens / resharings of the current tree with the vendored pre-parameters",
			"UpdatePublicKeyAndAdjustBigXj rewrites its argument (the elements of the BigXj slice): it is handed deep copies made by the harness; handing it a plain struct copy is recorded as caller misuse",
			"installing the same deterministic reader for two sessions is caller misuse: recorded, predicted by the model (variant seeded), not judged",
			"independent verifiers: harness/obs secp256k1 arithmetic (self-checked), crypto/ed25519 of the Go standard library",
			"aborted sessions publish no R; a party that panics inside a library goroutine would end the run (exit 2)",
		}, "java tlc2.TLC MC_KeyStore.tla / MCV_KeyStore.tla / MCG_KeyStore.tla (-simulate) / MCT_KeyStore.tla (KeyStore_Trace)")
}
