package props

// Helpers of C20: a canonical deep digest of key data (reflection walk, so that a field added to
// LocalPartySaveData later is not silently left out), independent deep copies, JSON store / reload.

import (
	"crypto/sha256"
	"encoding/hex"
	"encoding/json"
	"fmt"
	"math/big"
	"reflect"
	"sort"
	"strings"

	"github.com/bnb-chain/tss-lib/v2/crypto"
	"github.com/bnb-chain/tss-lib/v2/crypto/paillier"
	eckg "github.com/bnb-chain/tss-lib/v2/ecdsa/keygen"
	edkg "github.com/bnb-chain/tss-lib/v2/eddsa/keygen"
	"github.com/bnb-chain/tss-lib/v2/tss"
)

var (
	c20BigIntPtr = reflect.TypeOf((*big.Int)(nil))
	c20PointPtr  = reflect.TypeOf((*crypto.ECPoint)(nil))
)

// c20Leaves maps every leaf of v (path in field / index notation) to a canonical encoding of its value.
// Unknown kinds and unexported fields of unknown structs are an error: the walk must see everything.
func c20Leaves(v any) (map[string]string, error) {
	out := map[string]string{}
	if err := c20Walk(reflect.ValueOf(v), "", out); err != nil {
		return nil, err
	}
	return out, nil
}

func c20Walk(v reflect.Value, path string, out map[string]string) error {
	switch v.Kind() {
	case reflect.Ptr:
		if v.IsNil() {
			out[path] = "nil"
			return nil
		}
		switch v.Type() {
		case c20BigIntPtr:
			x := v.Interface().(*big.Int)
			out[path] = fmt.Sprintf("int:%d:%s", x.Sign(), x.Text(16))
			return nil
		case c20PointPtr:
			p := v.Interface().(*crypto.ECPoint)
			out[path] = c20PointLeaf(p)
			return nil
		}
		return c20Walk(v.Elem(), path, out)
	case reflect.Struct:
		t := v.Type()
		for i := 0; i < t.NumField(); i++ {
			f := t.Field(i)
			if f.PkgPath != "" {
				return fmt.Errorf("%s.%s: unexported field of %s cannot be observed", path, f.Name, t)
			}
			if err := c20Walk(v.Field(i), path+"."+f.Name, out); err != nil {
				return err
			}
		}
		return nil
	case reflect.Slice, reflect.Array:
		out[path+"#len"] = fmt.Sprint(v.Len())
		for i := 0; i < v.Len(); i++ {
			if err := c20Walk(v.Index(i), fmt.Sprintf("%s[%d]", path, i), out); err != nil {
				return err
			}
		}
		return nil
	case reflect.Bool:
		out[path] = fmt.Sprint(v.Bool())
	case reflect.Int, reflect.Int8, reflect.Int16, reflect.Int32, reflect.Int64:
		out[path] = fmt.Sprint(v.Int())
	case reflect.Uint, reflect.Uint8, reflect.Uint16, reflect.Uint32, reflect.Uint64:
		out[path] = fmt.Sprint(v.Uint())
	case reflect.String:
		out[path] = "str:" + v.String()
	default:
		return fmt.Errorf("%s: kind %s of %s is not handled by the digest", path, v.Kind(), v.Type())
	}
	return nil
}

func c20PointLeaf(p *crypto.ECPoint) (s string) {
	defer func() {
		if r := recover(); r != nil {
			s = "pt:unreadable"
		}
	}()
	name, ok := tss.GetCurveName(p.Curve())
	if !ok {
		name = "?"
	}
	return fmt.Sprintf("pt:%s:%s:%s", name, p.X().Text(16), p.Y().Text(16))
}

// c20Digest is the sha256 over the sorted leaves.
func c20Digest(v any) (string, map[string]string, error) {
	lv, err := c20Leaves(v)
	if err != nil {
		return "", nil, err
	}
	keys := make([]string, 0, len(lv))
	for k := range lv {
		keys = append(keys, k)
	}
	sort.Strings(keys)
	h := sha256.New()
	for _, k := range keys {
		fmt.Fprintf(h, "%s=%s\n", k, lv[k])
	}
	return hex.EncodeToString(h.Sum(nil)), lv, nil
}

// c20Diff names the leaves that differ (at most max of them).
func c20Diff(a, b map[string]string, max int) string {
	var d []string
	for k, va := range a {
		if vb, ok := b[k]; !ok {
			d = append(d, k+" (gone)")
		} else if va != vb {
			d = append(d, k)
		}
	}
	for k := range b {
		if _, ok := a[k]; !ok {
			d = append(d, k+" (new)")
		}
	}
	sort.Strings(d)
	if len(d) > max {
		d = append(d[:max], fmt.Sprintf("... %d more", len(d)-max))
	}
	return strings.Join(d, ", ")
}

// c20FieldClass is the first path component of the first differing leaf (used in violation keys).
func c20FieldClass(a, b map[string]string) string {
	d := c20Diff(a, b, 1)
	d = strings.TrimPrefix(d, ".")
	for i, r := range d {
		if r == '.' || r == '[' || r == '#' || r == ' ' || r == ',' {
			return d[:i]
		}
	}
	return d
}

func c20CpInt(x *big.Int) *big.Int {
	if x == nil {
		return nil
	}
	return new(big.Int).Set(x)
}

func c20CpInts(xs []*big.Int) []*big.Int {
	if xs == nil {
		return nil
	}
	out := make([]*big.Int, len(xs))
	for i, x := range xs {
		out[i] = c20CpInt(x)
	}
	return out
}

func c20CpPoint(p *crypto.ECPoint) *crypto.ECPoint {
	if p == nil {
		return nil
	}
	return crypto.NewECPointNoCurveCheck(p.Curve(), p.X(), p.Y()) // X(), Y() return copies
}

func c20CpPoints(ps []*crypto.ECPoint) []*crypto.ECPoint {
	if ps == nil {
		return nil
	}
	out := make([]*crypto.ECPoint, len(ps))
	for i, p := range ps {
		out[i] = c20CpPoint(p)
	}
	return out
}

// c20CopyEc is a deep copy that shares no big.Int, point, key or slice with k (written out by hand, not through
// JSON: the copy must not depend on the code under test). Fields unknown to this function stay shared; the caller
// checks that the digest of the copy equals the digest of the original.
func c20CopyEc(k eckg.LocalPartySaveData) eckg.LocalPartySaveData {
	c := k
	if k.PaillierSK != nil {
		c.PaillierSK = &paillier.PrivateKey{PublicKey: paillier.PublicKey{N: c20CpInt(k.PaillierSK.N)},
			LambdaN: c20CpInt(k.PaillierSK.LambdaN), PhiN: c20CpInt(k.PaillierSK.PhiN), P: c20CpInt(k.PaillierSK.P), Q: c20CpInt(k.PaillierSK.Q)}
	}
	c.NTildei, c.H1i, c.H2i = c20CpInt(k.NTildei), c20CpInt(k.H1i), c20CpInt(k.H2i)
	c.Alpha, c.Beta, c.P, c.Q = c20CpInt(k.Alpha), c20CpInt(k.Beta), c20CpInt(k.P), c20CpInt(k.Q)
	c.Xi, c.ShareID = c20CpInt(k.Xi), c20CpInt(k.ShareID)
	c.Ks, c.NTildej, c.H1j, c.H2j = c20CpInts(k.Ks), c20CpInts(k.NTildej), c20CpInts(k.H1j), c20CpInts(k.H2j)
	c.BigXj = c20CpPoints(k.BigXj)
	if k.PaillierPKs != nil {
		c.PaillierPKs = make([]*paillier.PublicKey, len(k.PaillierPKs))
		for i, pk := range k.PaillierPKs {
			if pk != nil {
				c.PaillierPKs[i] = &paillier.PublicKey{N: c20CpInt(pk.N)}
			}
		}
	}
	c.ECDSAPub = c20CpPoint(k.ECDSAPub)
	return c
}

func c20CopyEd(k edkg.LocalPartySaveData) edkg.LocalPartySaveData {
	c := k
	c.Xi, c.ShareID = c20CpInt(k.Xi), c20CpInt(k.ShareID)
	c.Ks = c20CpInts(k.Ks)
	c.BigXj = c20CpPoints(k.BigXj)
	c.EDDSAPub = c20CpPoint(k.EDDSAPub)
	return c
}

// c20Reload serialises v (a LocalPartySaveData) with encoding/json and loads the bytes into out (a pointer to a
// zero value of the same type): what a caller does to store and load key data.
func c20Reload(v any, out any) (stored []byte, err error) {
	defer func() {
		if r := recover(); r != nil {
			err = fmt.Errorf("panic: %v", r)
		}
	}()
	stored, err = json.Marshal(v)
	if err != nil {
		return nil, fmt.Errorf("json.Marshal: %v", err)
	}
	if err = json.Unmarshal(stored, out); err != nil {
		return stored, fmt.Errorf("json.Unmarshal: %v", err)
	}
	return stored, nil
}
