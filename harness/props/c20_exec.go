package props

// C20: execution of one operation history on real key data.

import (
	"crypto/ecdsa"
	"encoding/hex"
	"fmt"
	"io"
	"math/big"
	"math/rand"
	"strings"
	"sync"

	"github.com/bnb-chain/tss-lib/v2/common"
	"github.com/bnb-chain/tss-lib/v2/crypto/ckd"
	eckg "github.com/bnb-chain/tss-lib/v2/ecdsa/keygen"
	ecsg "github.com/bnb-chain/tss-lib/v2/ecdsa/signing"
	edkg "github.com/bnb-chain/tss-lib/v2/eddsa/keygen"
	"github.com/bnb-chain/tss-lib/v2/tss"

	"verif/harness/obs"
	"verif/harness/pump"
	"verif/harness/tamper"
)

// c20Op is one operation of a history with its observations: as predicted by KeyStore.tla (histories printed by
// TLC) or as observed on the real code (same field names as the entries of the model's `hist`).
type c20Op struct {
	Op   string `json:"op"` // Reload | Sign | SignKDD | Abort | Subset | Seeded
	P    int    `json:"p"`  // Reload: the party (1-based, order of share ids)
	L    []int  `json:"l"`  // signer list as the caller writes it down
	M    int    `json:"m"`  // message id
	D    int    `json:"d"`  // derivation offset id (0 = none)
	How  string `json:"how"`
	Seed int    `json:"seed"`

	Done       bool  `json:"done"`
	IDs        []int `json:"ids"`
	RT         bool  `json:"rt"`
	KeySame    bool  `json:"key_same"`
	StoredSame bool  `json:"stored_same"`
	ArgSame    bool  `json:"arg_same"`
	Fresh      bool  `json:"fresh"`
	Valid      bool  `json:"valid"`
	NN         int   `json:"nn"`
}

func (o c20Op) String() string {
	switch o.Op {
	case "Reload":
		return fmt.Sprintf("Reload(%d)", o.P)
	case "Subset":
		return fmt.Sprintf("Subset(%v)", o.L)
	case "Abort":
		return fmt.Sprintf("Abort(%v,m%d,d%d,%s)", o.L, o.M, o.D, o.How)
	case "Seeded":
		return fmt.Sprintf("Seeded(%v,m%d,seed%d)", o.L, o.M, o.Seed)
	}
	return fmt.Sprintf("%s(%v,m%d,d%d)", o.Op, o.L, o.M, o.D)
}

// c20History is a scenario: a key, a list of operations, a seed for everything else (message values, chain code,
// abort placement). It is what a replay file holds.
type c20History struct {
	Idx     int        `json:"idx"`
	Key     c20KeySpec `json:"key"`
	Variant string     `json:"variant"` // code | seeded (the caller-misuse scenario, never judged)
	Origin  string     `json:"origin"`  // tlc | directed:<name>
	Seed    int64      `json:"seed"`
	Ops     []c20Op    `json:"ops"` // for origin tlc the observation fields hold the model's prediction
}

func (h c20History) name() string {
	var s []string
	for _, o := range h.Ops {
		s = append(s, o.String())
	}
	return fmt.Sprintf("%v %s [%s]", h.Key, h.Origin, strings.Join(s, " "))
}

type c20Viol struct{ Key, What string }

// c20HistResult is the outcome of one history on the real code.
type c20HistResult struct {
	H        c20History
	Obs      []c20Op // observed
	Viols    []c20Viol
	Drift    []string
	Inconcl  string
	Sessions int
	Rs       []string // R of the completed sessions, in order
}

// c20NonceReg collects R of every completed session of the run (all histories).
type c20NonceReg struct {
	mu   sync.Mutex
	seen map[string]string
}

func newC20NonceReg() *c20NonceReg { return &c20NonceReg{seen: map[string]string{}} }

// add returns the description of the earlier session that used the same R ("" if none).
func (r *c20NonceReg) add(R, desc string) string {
	r.mu.Lock()
	defer r.mu.Unlock()
	if prev, ok := r.seen[R]; ok {
		return prev
	}
	r.seen[R] = desc
	return ""
}

// c20Delta derives the offset of path id d with the library's child key derivation (as its own test does) and
// cross-checks child = Y + delta*G with the independent arithmetic.
func c20Delta(ks *c20KeySet, d int, seed int64) (*big.Int, *ecdsa.PublicKey, obs.Pt, error) {
	pub := ks.Ec[0].ECDSAPub
	cc := make([]byte, 32)
	rand.New(rand.NewSource(seed*31 + 5)).Read(cc)
	ext := &ckd.ExtendedKey{PublicKey: ecdsa.PublicKey{Curve: tss.S256(), X: pub.X(), Y: pub.Y()}, Depth: 0, ChildIndex: 0,
		ChainCode: cc, ParentFP: []byte{0, 0, 0, 0}, Version: []byte{0x04, 0x88, 0xAD, 0xE4}}
	path := []uint32{44, uint32(60 + d), uint32(seed % 1000), uint32(d)}
	il, child, err := ckd.DeriveChildKeyFromHierarchy(path, ext, tss.S256().Params().N, tss.S256())
	if err != nil {
		return nil, nil, obs.Pt{}, err
	}
	want := obs.Secp.Add(ks.Pub, obs.BaseMul(obs.Secp, new(big.Int).Mod(il, obs.Secp.Order())))
	got := obs.Pt{X: child.PublicKey.X, Y: child.PublicKey.Y}
	if !want.Eq(got) {
		return nil, nil, obs.Pt{}, fmt.Errorf("derived child key is not Y + delta*G (C18's subject)")
	}
	return il, &child.PublicKey, want, nil
}

// c20Msg is the real message / digest standing for message id m in this history.
func c20Msg(h *c20History, m int) *big.Int {
	rng := rand.New(rand.NewSource(h.Seed*131 + int64(m)*7 + 3))
	if h.Key.Curve == "ecdsa" {
		return new(big.Int).Rand(rng, obs.Secp.Order())
	}
	b := make([]byte, 20+m)
	rng.Read(b)
	b[0] |= 1
	return new(big.Int).SetBytes(b)
}

type c20Session struct {
	done     bool
	sigs     []*common.SignatureData
	allDone  bool   // every signer finished with exactly one result, no error
	errs     string // errors / panics of the parties
	ids      []int  // party numbers in the order the library put them
	argSame  bool
	argWhat  string
	argField string
	applied  bool // the abort was actually injected
}

// runSession performs one signing session the way a caller would: (offset only) deep copies adjusted with
// UpdatePublicKeyAndAdjustBigXj, the structs handed to NewLocalParty[WithKDD] by value, default randomness.
func (st *c20Store) runSession(h *c20History, k int, op c20Op, delta *big.Int, child *ecdsa.PublicKey) (res c20Session, err error) {
	sp := st.Keys.Spec
	L := op.L
	if op.How == "refuse_few" {
		L = L[:sp.T]
	}
	ls := pump.ListedSigning{Ecdsa: sp.Curve == "ecdsa", T: sp.T, Msg: c20Msg(h, op.M), KDD: delta}
	if op.How == "refuse_digest" {
		ls.Msg = new(big.Int).Add(obs.Secp.Order(), big.NewInt(int64(op.M)))
	}
	var argDig []string
	var argLeaves []map[string]string
	if sp.Curve == "ecdsa" {
		for _, p := range L {
			if delta != nil {
				ls.EcKeys = append(ls.EcKeys, c20CopyEc(st.Ec[p-1]))
			} else {
				ls.EcKeys = append(ls.EcKeys, st.Ec[p-1])
			}
		}
		if delta != nil {
			var uerr error
			pan := c13Call(func() { uerr = ecsg.UpdatePublicKeyAndAdjustBigXj(delta, ls.EcKeys, child, tss.S256()) })
			if pan != "" || uerr != nil {
				return res, fmt.Errorf("UpdatePublicKeyAndAdjustBigXj failed: %v %s", uerr, pan)
			}
		}
		for i := range ls.EcKeys {
			d, lv, e := c20Digest(ls.EcKeys[i])
			if e != nil {
				return res, e
			}
			argDig, argLeaves = append(argDig, d), append(argLeaves, lv)
		}
	} else {
		for _, p := range L {
			ls.EdKeys = append(ls.EdKeys, st.Ed[p-1])
		}
		for i := range ls.EdKeys {
			d, lv, e := c20Digest(ls.EdKeys[i])
			if e != nil {
				return res, e
			}
			argDig, argLeaves = append(argDig, d), append(argLeaves, lv)
		}
	}
	if op.Op == "Seeded" {
		// caller misuse: the same deterministic reader per signer in every session with this seed id
		for i := range L {
			ls.Rands = append(ls.Rands, io.Reader(pump.NewDRBG(int64(op.Seed)*1000+int64(L[i]))))
		}
	}
	s, _, e := pump.NewListedSigning(ls, nil)
	if e != nil {
		res.errs = e.Error()
		res.argSame = true
		return res, nil // a constructor that panics is an observed failure of the session
	}
	for _, nd := range s.Nodes {
		num := 0
		for p := 0; p < sp.N; p++ {
			var sid *big.Int
			if sp.Curve == "ecdsa" {
				sid = st.Keys.Ec[p].ShareID
			} else {
				sid = st.Keys.Ed[p].ShareID
			}
			if sid.Cmp(nd.PID.KeyInt()) == 0 {
				num = p + 1
			}
		}
		res.ids = append(res.ids, num)
	}
	rng := rand.New(rand.NewSource(h.Seed*977 + int64(k)))
	n := len(s.Nodes)
	victim := 1 + rng.Intn(n)
	switch op.How {
	case "tamper":
		typ := "SignRound1Message"
		if sp.Curve == "ecdsa" {
			typ = "SignRound1Message2"
		}
		cache := map[int][]byte{}
		s.Mutate = func(it *pump.Item) []byte {
			if it.From.G != victim || it.Msg.Type != typ {
				return nil
			}
			if w, ok := cache[it.ID]; ok {
				return w
			}
			w, ch, err := tamper.Apply(it.Wire, tamper.Spec{Field: "commitment", Kind: "plus1"}, rng, nil)
			if err != nil || !ch {
				return nil
			}
			res.applied = true
			cache[it.ID] = w
			return w
		}
	}
	strat, _ := pump.StrategyByName([]string{"fifo", "random", "lifo"}[rng.Intn(3)])
	silenceAt := -1
	if op.How == "silence" {
		// early enough that nobody can have sent a round-2 message yet: that takes n Starts and n-1 deliveries to
		// one party, i.e. 2n-1 steps; the victim's later messages then never exist and the others wait for them
		silenceAt = n + rng.Intn(n-1)
	}
	for step := 0; step < 100000; step++ {
		if step == silenceAt {
			s.Apply(pump.Step{Op: "silence", Node: victim})
			res.applied = true
		}
		en := s.Enabled()
		if len(en) == 0 {
			break
		}
		if err := s.Apply(strat(s, en, rng)); err != nil {
			return res, err
		}
	}
	res.allDone = true
	var errs []string
	for _, nd := range s.Nodes {
		for _, r := range nd.Results {
			res.sigs = append(res.sigs, r.(*common.SignatureData))
		}
		if len(nd.Results) != 1 {
			res.allDone = false
		}
		if nd.Err != nil {
			res.allDone = false
			errs = append(errs, fmt.Sprintf("party %d: %v", nd.G, nd.Err))
		}
		if nd.Panic != "" {
			res.allDone = false
			errs = append(errs, fmt.Sprintf("party %d panicked: %s", nd.G, shortStr(nd.Panic, 200)))
		}
	}
	if op.How == "refuse_few" || op.How == "refuse_digest" {
		res.applied = len(errs) == n && len(s.All) == 0 // every Start refused, nothing was sent
	}
	res.errs = strings.Join(errs, "; ")
	res.done = len(res.sigs) > 0
	// the structs handed to the constructors
	res.argSame = true
	for i := range argDig {
		var v any
		if sp.Curve == "ecdsa" {
			v = ls.EcKeys[i]
		} else {
			v = ls.EdKeys[i]
		}
		d, lv, e := c20Digest(v)
		if e != nil {
			return res, e
		}
		if d != argDig[i] && res.argSame {
			res.argSame = false
			res.argField = c20FieldClass(argLeaves[i], lv)
			res.argWhat = fmt.Sprintf("struct of party %d: %s", L[i], c20Diff(argLeaves[i], lv, 6))
		}
	}
	return res, nil
}

// c20R is the nonce of a signature: r for ECDSA, the encoded R for EdDSA.
func c20R(curve string, sd *common.SignatureData) string {
	if curve == "ecdsa" {
		return hex.EncodeToString(sd.R)
	}
	if len(sd.Signature) >= 32 {
		return hex.EncodeToString(sd.Signature[:32])
	}
	return hex.EncodeToString(sd.Signature)
}

func c20Sorted(l []int) []int {
	out := append([]int{}, l...)
	for i := range out {
		for j := i + 1; j < len(out); j++ {
			if out[j] < out[i] {
				out[i], out[j] = out[j], out[i]
			}
		}
	}
	return out
}

func c20EqInts(a, b []int) bool {
	if len(a) != len(b) {
		return false
	}
	for i := range a {
		if a[i] != b[i] {
			return false
		}
	}
	return true
}

// c20RunHistory executes h on fresh in-memory originals of its key and judges every step.
func c20RunHistory(h c20History, reg *c20NonceReg) (out *c20HistResult) {
	out = &c20HistResult{H: h}
	defer func() {
		if r := recover(); r != nil {
			out.Inconcl = fmt.Sprintf("harness panicked: %v", r)
		}
	}()
	ks, err := c20Keys(h.Key)
	if err != nil {
		out.Inconcl = "key material: " + err.Error()
		return
	}
	st, err := newC20Store(ks)
	if err != nil {
		out.Inconcl = err.Error()
		return
	}
	sp := ks.Spec
	cv := sp.Curve
	viol := func(key, what string) { out.Viols = append(out.Viols, c20Viol{key, what}) }
	local := map[string]int{} // R -> step, this history
	for k, op := range h.Ops {
		o := op
		o.IDs = []int{}
		if o.L == nil {
			o.L = []int{}
		}
		o.Done, o.RT, o.ArgSame, o.Fresh, o.Valid = false, true, true, true, true
		where := fmt.Sprintf("step %d %s of %s", k+1, op.String(), h.name())
		for _, p := range op.L {
			if p < 1 || p > sp.N {
				out.Inconcl = "bad party number in " + where
				return
			}
		}
		switch op.Op {
		case "Reload":
			if op.P < 1 || op.P > sp.N {
				out.Inconcl = "bad party number in " + where
				return
			}
			p := op.P - 1
			before, lvB, e := c20Digest(st.val(p))
			if e != nil {
				out.Inconcl = e.Error()
				return
			}
			var stored []byte
			var after any
			if cv == "ecdsa" {
				var nk eckg.LocalPartySaveData
				stored, e = c20Reload(st.Ec[p], &nk)
				after = nk
				if e == nil {
					st.Ec[p] = nk
				}
			} else {
				var nk edkg.LocalPartySaveData
				stored, e = c20Reload(st.Ed[p], &nk)
				after = nk
				if e == nil {
					st.Ed[p] = nk
				}
			}
			if e != nil {
				o.RT = false
				viol(fmt.Sprintf("C20:%s:reload-fails", cv), fmt.Sprintf("%s: key data of party %d cannot be serialised and loaded again: %v", where, op.P, e))
				break
			}
			st.Stored[p] = stored
			d2, lvA, e := c20Digest(after)
			if e != nil {
				out.Inconcl = e.Error()
				return
			}
			if d2 != before {
				o.RT = false
				viol(fmt.Sprintf("C20:%s:reload-differs:%s", cv, c20FieldClass(lvB, lvA)),
					fmt.Sprintf("%s: the struct loaded from the stored JSON differs from the one serialised: %s", where, c20Diff(lvB, lvA, 6)))
			}
		case "Subset":
			ids := c20Sorted(op.L)
			o.IDs = ids
			var uns tss.UnSortedPartyIDs
			for i, p := range op.L {
				var sid *big.Int
				if cv == "ecdsa" {
					sid = ks.Ec[p-1].ShareID
				} else {
					sid = ks.Ed[p-1].ShareID
				}
				uns = append(uns, tss.NewPartyID(fmt.Sprint(i), fmt.Sprint(i), sid))
			}
			sorted := tss.SortPartyIDs(uns)
			good := true
			for _, p := range ids {
				var got ShareView
				var extra bool = true
				pan := c13Call(func() {
					if cv == "ecdsa" {
						sub := eckg.BuildLocalSaveDataSubset(st.Ec[p-1], sorted)
						got = ecView(&sub)
						extra = len(sub.NTildej) == len(ids) && len(sub.H1j) == len(ids) && len(sub.H2j) == len(ids) && len(sub.PaillierPKs) == len(ids)
						for j, q := range ids {
							if !extra {
								break
							}
							src := ks.Ec[p-1]
							extra = sub.NTildej[j].Cmp(src.NTildej[q-1]) == 0 && sub.H1j[j].Cmp(src.H1j[q-1]) == 0 &&
								sub.H2j[j].Cmp(src.H2j[q-1]) == 0 && sub.PaillierPKs[j].N.Cmp(src.PaillierPKs[q-1].N) == 0
						}
					} else {
						sub := edkg.BuildLocalSaveDataSubset(st.Ed[p-1], sorted)
						got = edView(&sub)
					}
				})
				if pan != "" {
					good = false
					out.Drift = append(out.Drift, fmt.Sprintf("%s: BuildLocalSaveDataSubset panicked for party %d: %s", where, p, shortStr(pan, 120)))
					continue
				}
				var want ShareView
				if cv == "ecdsa" {
					want = ecView(&ks.Ec[p-1])
				} else {
					want = edView(&ks.Ed[p-1])
				}
				ok := extra && len(got.Ks) == len(ids) && len(got.BigXj) == len(ids) && got.Xi != nil && got.Xi.Cmp(want.Xi) == 0 &&
					got.ShareID != nil && got.ShareID.Cmp(want.ShareID) == 0 && got.Pub.Eq(want.Pub)
				for j, q := range ids {
					if !ok {
						break
					}
					ok = got.Ks[j] != nil && got.Ks[j].Cmp(want.Ks[q-1]) == 0 && got.BigXj[j].Eq(want.BigXj[q-1])
				}
				if !ok {
					good = false
				}
			}
			o.Valid = good
			if !good {
				out.Drift = append(out.Drift, fmt.Sprintf("%s: the subset copy does not hold the signers' entries in the order of their share ids (judged only through signing)", where))
			}
		case "Sign", "SignKDD", "Seeded", "Abort":
			var delta *big.Int
			var child *ecdsa.PublicKey
			pub := ks.Pub
			if op.D > 0 {
				if cv != "ecdsa" {
					out.Inconcl = "derivation offset on EdDSA in " + where
					return
				}
				delta, child, pub, err = c20Delta(ks, op.D, h.Seed)
				if err != nil {
					out.Inconcl = "key derivation: " + err.Error()
					return
				}
			}
			sr, e := st.runSession(&h, k, op, delta, child)
			if e != nil {
				out.Inconcl = fmt.Sprintf("%s: %v", where, e)
				return
			}
			out.Sessions++
			o.IDs = sr.ids
			if o.IDs == nil {
				o.IDs = []int{}
			}
			o.Done = sr.done
			o.ArgSame = sr.argSame
			if !sr.argSame && op.D > 0 {
				kind := op.Op
				if op.Op == "Abort" {
					kind = "Abort-" + op.How
				}
				viol(fmt.Sprintf("C20:%s:handed-struct-modified:%s:%s", cv, kind, sr.argField),
					fmt.Sprintf("%s: the key data handed to the signing party was modified by the session: %s", where, sr.argWhat))
			}
			if op.Op == "Abort" {
				if sr.done {
					out.Drift = append(out.Drift, fmt.Sprintf("%s: the session was meant to abort (%s, injected=%v) but a signer produced a signature", where, op.How, sr.applied))
				} else if !sr.applied {
					out.Inconcl = fmt.Sprintf("%s: the abort could not be injected", where)
					return
				}
			} else {
				if !sr.allDone {
					o.Valid = false
					viol(fmt.Sprintf("C20:%s:session-fails:%s", cv, op.Op),
						fmt.Sprintf("%s: a signing session over unaltered key data (reloaded parties: see history) did not complete for every signer: %s", where, sr.errs))
				}
			}
			if sr.done {
				var msg string
				m := c20Msg(&h, op.M)
				if cv == "ecdsa" {
					msg = SigOracleEcdsa(pub, m, 0, sr.sigs)
				} else {
					msg = SigOracleEddsa(pub, m, 0, sr.sigs)
				}
				if msg != "" && op.Op != "Abort" {
					o.Valid = false
					viol(fmt.Sprintf("C20:%s:signature:%s:%s", cv, op.Op, oracleClass(msg)), fmt.Sprintf("%s: %s", where, msg))
				}
				R := c20R(cv, sr.sigs[0])
				out.Rs = append(out.Rs, R)
				if prev, dup := local[R]; dup {
					o.Fresh = false
					if h.Variant == "code" {
						viol(fmt.Sprintf("C20:%s:nonce-reused", cv),
							fmt.Sprintf("%s: the session used the same signature nonce R=%s as step %d of the same history (default randomness)", where, R, prev+1))
					}
				} else {
					local[R] = k
					if h.Variant == "code" && reg != nil {
						if prev := reg.add(R, where); prev != "" {
							o.Fresh = false
							viol(fmt.Sprintf("C20:%s:nonce-reused", cv), fmt.Sprintf("%s: same signature nonce R=%s as %s", where, R, prev))
						}
					}
				}
				if op.Op != "Abort" && !c20EqInts(sr.ids, c20Sorted(op.L)) {
					out.Drift = append(out.Drift, fmt.Sprintf("%s: the library ordered the signers as %v", where, sr.ids))
				}
			}
		default:
			out.Inconcl = "unknown operation in " + where
			return
		}
		// the property's first clause, after EVERY operation
		ksame, ssame, _, field, what, e := st.check()
		if e != nil {
			out.Inconcl = e.Error()
			return
		}
		o.KeySame, o.StoredSame = ksame, ssame
		kind := op.Op
		if op.Op == "Abort" {
			kind = "Abort-" + op.How
		}
		if !ksame {
			viol(fmt.Sprintf("C20:%s:key-modified:%s:%s", cv, kind, field), fmt.Sprintf("%s: key data held by the caller changed: %s", where, what))
		} else if !ssame {
			viol(fmt.Sprintf("C20:%s:serialisation-changed:%s", cv, kind), fmt.Sprintf("%s: %s", where, what))
		}
		o.NN = len(local)
		out.Obs = append(out.Obs, o)
		if len(out.Viols) > 0 {
			return // later steps run on damaged data
		}
	}
	return
}
