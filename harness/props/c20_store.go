package props

// C20 helpers: key sets (fixtures, real keygens, real resharings), the per-history store of the parties' structs.

import (
	"bytes"
	"encoding/json"
	"fmt"
	"math/big"
	"math/rand"
	"sort"
	"sync"

	eckg "github.com/bnb-chain/tss-lib/v2/ecdsa/keygen"
	edkg "github.com/bnb-chain/tss-lib/v2/eddsa/keygen"

	"verif/harness/obs"
	"verif/harness/pump"
)

// c20KeySpec names one generated key (reproducible: fixtures, or seeded keygen / resharing of the current tree).
type c20KeySpec struct {
	Curve string `json:"curve"` // ecdsa | eddsa
	N     int    `json:"n"`
	T     int    `json:"t"`
	Src   string `json:"src"` // fixture | keygen | reshared
}

func (k c20KeySpec) String() string { return fmt.Sprintf("%s/%s(%d,%d)", k.Curve, k.Src, k.N, k.T) }

// c20KeySet is the pristine output of key generation, parties in the order of their share ids.
type c20KeySet struct {
	Spec   c20KeySpec
	Ec     []eckg.LocalPartySaveData
	Ed     []edkg.LocalPartySaveData
	Pub    obs.Pt
	Digest []string            // deep digest per party
	Leaves []map[string]string // leaves per party
	Stored [][]byte            // json.Marshal of the pristine structs
}

var (
	c20KeyMu   sync.Mutex
	c20KeyMemo = map[c20KeySpec]*c20KeySet{}
)

// c20Reshare runs a real resharing (old (n0,t0) committee -> new (n,t) committee) and returns the new members' data.
func c20Reshare(curve string, n0, t0, n, t int, seed int64) (ec []eckg.LocalPartySaveData, ed []edkg.LocalPartySaveData, err error) {
	cfg := pump.Config{N: t0 + 1, T: t0, NewN: n, NewT: t, Seed: seed}
	if curve == "ecdsa" {
		old, e := EcKeys(n0, t0)
		if e != nil {
			return nil, nil, e
		}
		cfg.Proto = pump.EcReshare
		for i := 0; i <= t0; i++ {
			cfg.EcKeys = append(cfg.EcKeys, c20CopyEc(old[i])) // resharing erases the old members' shares
		}
		if cfg.PreParams, e = pump.PreParamsFrom(1, n); e != nil {
			return nil, nil, e
		}
	} else {
		old, e := EdKeys(n0, t0)
		if e != nil {
			return nil, nil, e
		}
		cfg.Proto = pump.EdReshare
		for i := 0; i <= t0; i++ {
			cfg.EdKeys = append(cfg.EdKeys, c20CopyEd(old[i]))
		}
	}
	s, e := pump.New(cfg, nil)
	if e != nil {
		return nil, nil, e
	}
	st, _ := pump.StrategyByName("fifo")
	s.Run(st, rand.New(rand.NewSource(seed)), 200000)
	for _, nd := range s.Nodes[s.NOld:] {
		if nd.Err != nil || nd.Panic != "" {
			return nil, nil, fmt.Errorf("resharing: new member %d failed: %v %s", nd.G, nd.Err, nd.Panic)
		}
		if len(nd.Results) != 1 {
			return nil, nil, fmt.Errorf("resharing: new member %d has %d results", nd.G, len(nd.Results))
		}
		if curve == "ecdsa" {
			ec = append(ec, *nd.Results[0].(*eckg.LocalPartySaveData))
		} else {
			ed = append(ed, *nd.Results[0].(*edkg.LocalPartySaveData))
		}
	}
	return ec, ed, nil
}

// c20Keys returns (and memoises) a key set.
func c20Keys(sp c20KeySpec) (*c20KeySet, error) {
	c20KeyMu.Lock()
	if ks, ok := c20KeyMemo[sp]; ok {
		c20KeyMu.Unlock()
		return ks, nil
	}
	c20KeyMu.Unlock()
	ks := &c20KeySet{Spec: sp}
	var err error
	switch {
	case sp.Curve == "ecdsa" && sp.Src == "fixture":
		if sp.N != 5 || sp.T != 2 {
			return nil, fmt.Errorf("the vendored ECDSA key is (5,2)")
		}
		ks.Ec, err = pump.LoadEcFixtures(5)
	case sp.Curve == "ecdsa" && sp.Src == "keygen":
		ks.Ec, err = EcKeys(sp.N, sp.T)
	case sp.Curve == "eddsa" && sp.Src == "keygen":
		ks.Ed, err = EdKeys(sp.N, sp.T)
	case sp.Src == "reshared":
		// old committee: (3,1) key of a real keygen
		ks.Ec, ks.Ed, err = c20Reshare(sp.Curve, 3, 1, sp.N, sp.T, 7700+int64(sp.N*10+sp.T))
	default:
		err = fmt.Errorf("unknown key spec %v", sp)
	}
	if err != nil {
		return nil, err
	}
	if sp.Curve == "ecdsa" {
		ks.Ec = append([]eckg.LocalPartySaveData(nil), ks.Ec...)
		sort.Slice(ks.Ec, func(i, j int) bool { return ks.Ec[i].ShareID.Cmp(ks.Ec[j].ShareID) < 0 })
		if len(ks.Ec) != sp.N {
			return nil, fmt.Errorf("%v: %d parties", sp, len(ks.Ec))
		}
		ks.Pub = pt(ks.Ec[0].ECDSAPub)
	} else {
		ks.Ed = append([]edkg.LocalPartySaveData(nil), ks.Ed...)
		sort.Slice(ks.Ed, func(i, j int) bool { return ks.Ed[i].ShareID.Cmp(ks.Ed[j].ShareID) < 0 })
		if len(ks.Ed) != sp.N {
			return nil, fmt.Errorf("%v: %d parties", sp, len(ks.Ed))
		}
		ks.Pub = pt(ks.Ed[0].EDDSAPub)
	}
	for p := 0; p < sp.N; p++ {
		var v any
		var kss []*big.Int
		var sid *big.Int
		if sp.Curve == "ecdsa" {
			v, kss, sid = ks.Ec[p], ks.Ec[p].Ks, ks.Ec[p].ShareID
		} else {
			v, kss, sid = ks.Ed[p], ks.Ed[p].Ks, ks.Ed[p].ShareID
		}
		// the model numbers the parties in the order of Ks: make sure that is the order we hold them in
		if len(kss) != sp.N || kss[p] == nil || kss[p].Cmp(sid) != 0 {
			return nil, fmt.Errorf("%v: party %d is not at position %d of Ks", sp, p+1, p+1)
		}
		d, lv, err := c20Digest(v)
		if err != nil {
			return nil, fmt.Errorf("%v: digest: %v", sp, err)
		}
		b, err := json.Marshal(v)
		if err != nil {
			return nil, fmt.Errorf("%v: json.Marshal: %v", sp, err)
		}
		ks.Digest = append(ks.Digest, d)
		ks.Leaves = append(ks.Leaves, lv)
		ks.Stored = append(ks.Stored, b)
	}
	c20KeyMu.Lock()
	c20KeyMemo[sp] = ks
	c20KeyMu.Unlock()
	return ks, nil
}

// c20Store is what the parties' callers hold during one history: mem[p] (the struct handed to every session by
// value) and stored[p] (the bytes written at the last serialisation).
type c20Store struct {
	Keys   *c20KeySet
	Ec     []eckg.LocalPartySaveData
	Ed     []edkg.LocalPartySaveData
	Stored [][]byte
}

// newC20Store gives every history its own in-memory originals (deep copies of the keygen output that never went
// through JSON, so that histories running in parallel share no memory).
func newC20Store(ks *c20KeySet) (*c20Store, error) {
	st := &c20Store{Keys: ks}
	for p := 0; p < ks.Spec.N; p++ {
		var v any
		if ks.Spec.Curve == "ecdsa" {
			c := c20CopyEc(ks.Ec[p])
			st.Ec = append(st.Ec, c)
			v = c
		} else {
			c := c20CopyEd(ks.Ed[p])
			st.Ed = append(st.Ed, c)
			v = c
		}
		d, _, err := c20Digest(v)
		if err != nil {
			return nil, err
		}
		if d != ks.Digest[p] {
			return nil, fmt.Errorf("deep copy of party %d differs from the original", p+1)
		}
		st.Stored = append(st.Stored, append([]byte(nil), ks.Stored[p]...))
	}
	return st, nil
}

func (st *c20Store) val(p int) any {
	if st.Keys.Spec.Curve == "ecdsa" {
		return st.Ec[p]
	}
	return st.Ed[p]
}

// check compares every party's struct and stored bytes with what key generation produced.
// keySame / storedSame; what names the first difference.
func (st *c20Store) check() (keySame, storedSame bool, party int, field, what string, err error) {
	keySame, storedSame = true, true
	for p := 0; p < st.Keys.Spec.N; p++ {
		d, lv, e := c20Digest(st.val(p))
		if e != nil {
			return false, false, 0, "", "", e
		}
		if d != st.Keys.Digest[p] && keySame {
			keySame = false
			party, field = p+1, c20FieldClass(st.Keys.Leaves[p], lv)
			what = fmt.Sprintf("party %d: %s", p+1, c20Diff(st.Keys.Leaves[p], lv, 6))
		}
		b, e := json.Marshal(st.val(p))
		if e != nil {
			if storedSame {
				storedSame = false
				if what == "" {
					party, field, what = p+1, "json", fmt.Sprintf("party %d: json.Marshal failed: %v", p+1, e)
				}
			}
			continue
		}
		if (!bytes.Equal(b, st.Keys.Stored[p]) || !bytes.Equal(st.Stored[p], st.Keys.Stored[p])) && storedSame {
			storedSame = false
			if what == "" {
				party, field, what = p+1, "json", fmt.Sprintf("party %d: the serialisation differs from the one written by key generation", p+1)
			}
		}
	}
	return
}
