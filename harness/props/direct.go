package props

import (
	"bytes"
	"crypto/elliptic"
	"encoding/gob"
	"encoding/json"
	"fmt"
	"math/big"
	"math/rand"
	"reflect"
	"sort"
	"strings"
	"sync"
	"time"

	"github.com/bnb-chain/tss-lib/v2/common"
	"github.com/bnb-chain/tss-lib/v2/crypto"
	"github.com/bnb-chain/tss-lib/v2/crypto/ckd"
	"github.com/bnb-chain/tss-lib/v2/crypto/commitments"
	"github.com/bnb-chain/tss-lib/v2/crypto/dlnproof"
	"github.com/bnb-chain/tss-lib/v2/crypto/facproof"
	"github.com/bnb-chain/tss-lib/v2/crypto/modproof"
	"github.com/bnb-chain/tss-lib/v2/crypto/mta"
	"github.com/bnb-chain/tss-lib/v2/crypto/paillier"
	"github.com/bnb-chain/tss-lib/v2/crypto/schnorr"
	"github.com/bnb-chain/tss-lib/v2/crypto/vss"
	eckg "github.com/bnb-chain/tss-lib/v2/ecdsa/keygen"
	"github.com/bnb-chain/tss-lib/v2/tss"

	"verif/harness/core"
	"verif/harness/obs"
	"verif/harness/pump"
	"verif/harness/sandbox"
)

// DirectCase is one call of an exported verifier / decoder with one argument or proof component replaced.
type DirectCase struct {
	Entry string `json:"entry"` // e.g. schnorr.ZKProof.Verify
	Slot  string `json:"slot"`  // path of the replaced component, e.g. Proof.T or N or Proof.Alpha
	Value string `json:"value"` // value class name
}

func (d DirectCase) ID() string { return d.Entry + "|" + d.Slot + "|" + d.Value }

// ---------------------------------------------------------------- value classes

func intClasses(thorough bool) []string {
	c := []string{"zero", "one", "q-1", "q", "q+1", "2q", "N-1", "N", "N+1", "N^2", "2^256", "2^2048", "huge"}
	if thorough {
		c = append(c, "2^63", "2^64+3", "q^3", "q^3+1", "q^7", "3q", "N*q", "even", "two")
	}
	return c
}

var ptClasses = []string{"offcurve", "zerozero", "zeroone", "othercurve", "generator", "huge"}

func intValue(class string, n2048 *big.Int) *big.Int {
	q := tss.S256().Params().N
	one := big.NewInt(1)
	switch class {
	case "zero":
		return big.NewInt(0)
	case "one":
		return big.NewInt(1)
	case "two":
		return big.NewInt(2)
	case "q-1":
		return new(big.Int).Sub(q, one)
	case "q":
		return new(big.Int).Set(q)
	case "q+1":
		return new(big.Int).Add(q, one)
	case "2q":
		return new(big.Int).Lsh(q, 1)
	case "3q":
		return new(big.Int).Mul(q, big.NewInt(3))
	case "q^3":
		return new(big.Int).Exp(q, big.NewInt(3), nil)
	case "q^3+1":
		return new(big.Int).Add(new(big.Int).Exp(q, big.NewInt(3), nil), one)
	case "q^7":
		return new(big.Int).Exp(q, big.NewInt(7), nil)
	case "N-1":
		return new(big.Int).Sub(n2048, one)
	case "N":
		return new(big.Int).Set(n2048)
	case "N+1":
		return new(big.Int).Add(n2048, one)
	case "N^2":
		return new(big.Int).Mul(n2048, n2048)
	case "N*q":
		return new(big.Int).Mul(n2048, q)
	case "even":
		return new(big.Int).Lsh(n2048, 1)
	case "2^256":
		return new(big.Int).Lsh(one, 256)
	case "2^2048":
		return new(big.Int).Lsh(one, 2048)
	case "2^63":
		return new(big.Int).Lsh(one, 63)
	case "2^64+3":
		return new(big.Int).Add(new(big.Int).Lsh(one, 64), big.NewInt(3))
	case "huge":
		return new(big.Int).Lsh(one, 20000)
	}
	panic("unknown class " + class)
}

func ptValue(class string, ec elliptic.Curve) *crypto.ECPoint {
	switch class {
	case "offcurve":
		return crypto.NewECPointNoCurveCheck(ec, big.NewInt(1), big.NewInt(1))
	case "zerozero":
		return crypto.NewECPointNoCurveCheck(ec, big.NewInt(0), big.NewInt(0))
	case "zeroone":
		return crypto.NewECPointNoCurveCheck(ec, big.NewInt(0), big.NewInt(1))
	case "othercurve":
		g := obs.Ed.Gen()
		if ec == tss.Edwards() {
			g = obs.Secp.Gen()
		}
		return crypto.NewECPointNoCurveCheck(ec, g.X, g.Y)
	case "generator":
		return crypto.NewECPointNoCurveCheck(ec, ec.Params().Gx, ec.Params().Gy)
	case "huge":
		h := new(big.Int).Lsh(big.NewInt(1), 5000)
		return crypto.NewECPointNoCurveCheck(ec, h, h)
	}
	panic("unknown point class " + class)
}

// ---------------------------------------------------------------- reflection helpers

var (
	bigIntPtr = reflect.TypeOf((*big.Int)(nil))
	ecPtPtr   = reflect.TypeOf((*crypto.ECPoint)(nil))
)

// slotsOf lists the replaceable components reachable from the exported fields of *args (depth-limited):
// *big.Int, *crypto.ECPoint, arrays/slices of them (first and last element), and pointers to structs of those.
func slotsOf(v reflect.Value, prefix string, depth int, out *[]string, kinds map[string]string) {
	if depth > 3 {
		return
	}
	switch v.Kind() {
	case reflect.Ptr:
		if v.IsNil() {
			return
		}
		if v.Type() == bigIntPtr {
			*out = append(*out, prefix)
			kinds[prefix] = "int"
			return
		}
		if v.Type() == ecPtPtr {
			*out = append(*out, prefix)
			kinds[prefix] = "pt"
			return
		}
		slotsOf(v.Elem(), prefix, depth, out, kinds)
	case reflect.Struct:
		for i := 0; i < v.NumField(); i++ {
			f := v.Type().Field(i)
			if f.PkgPath != "" && !f.Anonymous {
				continue
			}
			name := f.Name
			p := name
			if prefix != "" {
				p = prefix + "." + name
			}
			slotsOf(v.Field(i), p, depth+1, out, kinds)
		}
	case reflect.Array, reflect.Slice:
		n := v.Len()
		if n == 0 {
			return
		}
		idx := []int{0}
		if n > 1 {
			idx = append(idx, n-1)
		}
		for _, i := range idx {
			slotsOf(v.Index(i), fmt.Sprintf("%s[%d]", prefix, i), depth+1, out, kinds)
		}
	}
}

// setSlot replaces the component at path.
func setSlot(root reflect.Value, path string, val reflect.Value) bool {
	cur := root
	for _, part := range strings.Split(path, ".") {
		for cur.Kind() == reflect.Ptr {
			if cur.IsNil() {
				return false
			}
			cur = cur.Elem()
		}
		name, idx := part, -1
		if i := strings.Index(part, "["); i >= 0 {
			fmt.Sscanf(part[i:], "[%d]", &idx)
			name = part[:i]
		}
		if name != "" {
			cur = cur.FieldByName(name)
			if !cur.IsValid() {
				return false
			}
		}
		if idx >= 0 {
			for cur.Kind() == reflect.Ptr {
				cur = cur.Elem()
			}
			if idx >= cur.Len() {
				return false
			}
			cur = cur.Index(idx)
		}
	}
	if !cur.CanSet() {
		return false
	}
	cur.Set(val)
	return true
}

// ---------------------------------------------------------------- fixtures of a child process

type directFx struct {
	keys  []eckg.LocalPartySaveData
	rng   *rand.Rand
	build map[string]func() (args any, call func(args any))
	memo  map[string][]byte
}

var (
	dfxOnce sync.Once
	dfx     *directFx
	dfxErr  error
)

func getDirectFx() (*directFx, error) {
	dfxOnce.Do(func() {
		keys, err := pump.LoadEcFixtures(2)
		if err != nil {
			dfxErr = err
			return
		}
		dfx = &directFx{keys: keys, rng: rand.New(rand.NewSource(7))}
		dfx.register()
	})
	return dfx, dfxErr
}

type argsSchnorr struct {
	Proof   *schnorr.ZKProof
	X       *crypto.ECPoint
	Session []byte
}
type argsSchnorrV struct {
	Proof *schnorr.ZKVProof
	V, R  *crypto.ECPoint
}
type argsVss struct {
	Share *vss.Share
	Vs    []*crypto.ECPoint
}
type argsRecon struct {
	Shares vss.Shares
}
type argsMod struct {
	Proof *modproof.ProofMod
	N     *big.Int
}
type argsFac struct {
	Proof         *facproof.ProofFac
	N0, NCap, S, T *big.Int
}
type argsDln struct {
	Proof     *dlnproof.Proof
	H1, H2, N *big.Int
}
type argsPai struct {
	Proof  paillier.Proof
	N, K   *big.Int
	ECDSAPub *crypto.ECPoint
}
type argsRange struct {
	Proof             *mta.RangeProofAlice
	PkN               *big.Int
	NTilde, H1, H2, C *big.Int
}
type argsBob struct {
	Proof                     *mta.ProofBob
	PkN                       *big.Int
	NTilde, H1, H2, C1, C2    *big.Int
}
type argsBobWC struct {
	Proof                  *mta.ProofBobWC
	PkN                    *big.Int
	NTilde, H1, H2, C1, C2 *big.Int
	X                      *crypto.ECPoint
}
type argsPaillierOps struct {
	// (the key itself is the verifier's own, valid key: handing the operations a corrupted key struct is caller misuse,
	// not input from the network)
	M, C *big.Int
	C2   *big.Int
}
type argsParse struct {
	Secrets []*big.Int
}
type argsPoint struct {
	X, Y *big.Int
}
type argsAliceEnd struct {
	CB *big.Int
}

func (fx *directFx) register() {
	ec := tss.S256()
	q := ec.Params().N
	k0, k1 := fx.keys[0], fx.keys[1]
	rnd := func() *big.Int { return new(big.Int).Rand(fx.rng, q) }
	sess := []byte("direct-call-session")
	fx.build = map[string]func() (any, func(any)){
		"schnorr.ZKProof.Verify": func() (any, func(any)) {
			x := rnd()
			X := crypto.ScalarBaseMult(ec, x)
			pf, _ := schnorr.NewZKProof(sess, x, X, fx.rng)
			return &argsSchnorr{pf, X, sess}, func(a any) { v := a.(*argsSchnorr); v.Proof.Verify(v.Session, v.X) }
		},
		"schnorr.ZKProof.Verify@edwards": func() (any, func(any)) {
			e := tss.Edwards()
			x := new(big.Int).Rand(fx.rng, e.Params().N)
			X := crypto.ScalarBaseMult(e, x)
			pf, _ := schnorr.NewZKProof(sess, x, X, fx.rng)
			return &argsSchnorr{pf, X, sess}, func(a any) { v := a.(*argsSchnorr); v.Proof.Verify(v.Session, v.X) }
		},
		"schnorr.ZKVProof.Verify": func() (any, func(any)) {
			s, l := rnd(), rnd()
			R := crypto.ScalarBaseMult(ec, rnd())
			V, _ := R.ScalarMult(s).Add(crypto.ScalarBaseMult(ec, l))
			pf, _ := schnorr.NewZKVProof(sess, V, R, s, l, fx.rng)
			return &argsSchnorrV{pf, V, R}, func(a any) { v := a.(*argsSchnorrV); v.Proof.Verify(sess, v.V, v.R) }
		},
		"vss.Share.Verify": func() (any, func(any)) {
			ids := []*big.Int{big.NewInt(1), big.NewInt(2), big.NewInt(3)}
			vs, shares, _ := vss.Create(ec, 1, rnd(), ids, fx.rng)
			return &argsVss{shares[0], vs}, func(a any) { v := a.(*argsVss); v.Share.Verify(ec, 1, v.Vs) }
		},
		"vss.Shares.ReConstruct": func() (any, func(any)) {
			ids := []*big.Int{big.NewInt(1), big.NewInt(2), big.NewInt(3)}
			_, shares, _ := vss.Create(ec, 1, rnd(), ids, fx.rng)
			return &argsRecon{shares}, func(a any) { v := a.(*argsRecon); v.Shares.ReConstruct(ec) }
		},
		"modproof.ProofMod.Verify": func() (any, func(any)) {
			sk := k0.PaillierSK
			pf, _ := modproof.NewProof(sess, sk.N, sk.P, sk.Q, fx.rng)
			return &argsMod{pf, new(big.Int).Set(sk.N)}, func(a any) { v := a.(*argsMod); v.Proof.Verify(sess, v.N) }
		},
		"facproof.ProofFac.Verify": func() (any, func(any)) {
			sk := k0.PaillierSK
			pf, _ := facproof.NewProof(sess, ec, sk.N, k1.NTildei, k1.H1i, k1.H2i, sk.P, sk.Q, fx.rng)
			return &argsFac{pf, new(big.Int).Set(sk.N), new(big.Int).Set(k1.NTildei), new(big.Int).Set(k1.H1i), new(big.Int).Set(k1.H2i)},
				func(a any) { v := a.(*argsFac); v.Proof.Verify(sess, ec, v.N0, v.NCap, v.S, v.T) }
		},
		"dlnproof.Proof.Verify": func() (any, func(any)) {
			pf := dlnproof.NewDLNProof(k0.H1i, k0.H2i, k0.Alpha, k0.P, k0.Q, k0.NTildei, fx.rng)
			return &argsDln{pf, new(big.Int).Set(k0.H1i), new(big.Int).Set(k0.H2i), new(big.Int).Set(k0.NTildei)},
				func(a any) { v := a.(*argsDln); v.Proof.Verify(v.H1, v.H2, v.N) }
		},
		"paillier.Proof.Verify": func() (any, func(any)) {
			k := big.NewInt(77)
			pub := crypto.ScalarBaseMult(ec, rnd())
			pf := k0.PaillierSK.Proof(k, pub)
			return &argsPai{pf, new(big.Int).Set(k0.PaillierSK.N), k, pub}, func(a any) { v := a.(*argsPai); v.Proof.Verify(v.N, v.K, v.ECDSAPub) }
		},
		"mta.RangeProofAlice.Verify": func() (any, func(any)) {
			pk := &k0.PaillierSK.PublicKey
			m := rnd()
			c, r, _ := pk.EncryptAndReturnRandomness(fx.rng, m)
			pf, _ := mta.ProveRangeAlice(ec, pk, c, k1.NTildei, k1.H1i, k1.H2i, m, r, fx.rng)
			return &argsRange{pf, new(big.Int).Set(pk.N), new(big.Int).Set(k1.NTildei), new(big.Int).Set(k1.H1i), new(big.Int).Set(k1.H2i), c},
				func(a any) {
					v := a.(*argsRange)
					v.Proof.Verify(ec, &paillier.PublicKey{N: v.PkN}, v.NTilde, v.H1, v.H2, v.C)
				}
		},
		"mta.ProofBob.Verify": func() (any, func(any)) {
			pk := &k0.PaillierSK.PublicKey
			a := rnd()
			cA, rp, _ := mta.AliceInit(ec, pk, a, k1.NTildei, k1.H1i, k1.H2i, fx.rng)
			b := rnd()
			_, cB, _, pf, err := mta.BobMid(sess, ec, pk, rp, b, cA, k0.NTildei, k0.H1i, k0.H2i, k1.NTildei, k1.H1i, k1.H2i, fx.rng)
			_ = err
			return &argsBob{pf, new(big.Int).Set(pk.N), new(big.Int).Set(k0.NTildei), new(big.Int).Set(k0.H1i), new(big.Int).Set(k0.H2i), cA, cB},
				func(x any) {
					v := x.(*argsBob)
					v.Proof.Verify(sess, ec, &paillier.PublicKey{N: v.PkN}, v.NTilde, v.H1, v.H2, v.C1, v.C2)
				}
		},
		"mta.ProofBobWC.Verify": func() (any, func(any)) {
			pk := &k0.PaillierSK.PublicKey
			a := rnd()
			cA, rp, _ := mta.AliceInit(ec, pk, a, k1.NTildei, k1.H1i, k1.H2i, fx.rng)
			b := rnd()
			B := crypto.ScalarBaseMult(ec, b)
			_, cB, _, pf, err := mta.BobMidWC(sess, ec, pk, rp, b, cA, k0.NTildei, k0.H1i, k0.H2i, k1.NTildei, k1.H1i, k1.H2i, B, fx.rng)
			_ = err
			return &argsBobWC{pf, new(big.Int).Set(pk.N), new(big.Int).Set(k0.NTildei), new(big.Int).Set(k0.H1i), new(big.Int).Set(k0.H2i), cA, cB, B},
				func(x any) {
					v := x.(*argsBobWC)
					v.Proof.Verify(sess, ec, &paillier.PublicKey{N: v.PkN}, v.NTilde, v.H1, v.H2, v.C1, v.C2, v.X)
				}
		},
		"paillier.ops": func() (any, func(any)) {
			pk := &k0.PaillierSK.PublicKey
			c, _ := pk.Encrypt(fx.rng, big.NewInt(5))
			c2, _ := pk.Encrypt(fx.rng, big.NewInt(9))
			return &argsPaillierOps{big.NewInt(5), c, c2}, func(a any) {
				v := a.(*argsPaillierOps)
				pk.Encrypt(fx.rng, v.M)
				pk.HomoMult(v.M, v.C)
				pk.HomoAdd(v.C, v.C2)
				k0.PaillierSK.Decrypt(v.C)
			}
		},
		"commitments.ParseSecrets": func() (any, func(any)) {
			s, _ := commitments.NewBuilder().AddPart([]*big.Int{big.NewInt(7), big.NewInt(8)}).AddPart([]*big.Int{big.NewInt(9)}).Secrets()
			return &argsParse{s}, func(a any) { v := a.(*argsParse); commitments.ParseSecrets(v.Secrets) }
		},
		"dlnproof.UnmarshalDLNProof": func() (any, func(any)) {
			pf := dlnproof.NewDLNProof(k0.H1i, k0.H2i, k0.Alpha, k0.P, k0.Q, k0.NTildei, fx.rng)
			bzs, _ := pf.Serialize()
			var ints []*big.Int
			for _, b := range bzs[:4] {
				ints = append(ints, new(big.Int).SetBytes(b))
			}
			return &argsParse{ints}, func(a any) {
				v := a.(*argsParse)
				out := make([][]byte, len(bzs))
				copy(out, bzs)
				for i, x := range v.Secrets {
					out[i] = x.Bytes()
				}
				dlnproof.UnmarshalDLNProof(out)
			}
		},
		"crypto.NewECPoint+codecs": func() (any, func(any)) {
			return &argsPoint{new(big.Int).Set(ec.Params().Gx), new(big.Int).Set(ec.Params().Gy)}, func(a any) {
				v := a.(*argsPoint)
				for _, c := range []elliptic.Curve{tss.S256(), tss.Edwards()} {
					crypto.NewECPoint(c, v.X, v.Y)
					crypto.UnFlattenECPoints(c, []*big.Int{v.X, v.Y})
					crypto.UnFlattenECPoints(c, []*big.Int{v.X})
					p := crypto.NewECPointNoCurveCheck(c, v.X, v.Y)
					if js, err := json.Marshal(p); err == nil {
						var q crypto.ECPoint
						json.Unmarshal(js, &q)
					}
					var buf bytes.Buffer
					if gob.NewEncoder(&buf).Encode(p) == nil {
						var q crypto.ECPoint
						gob.NewDecoder(&buf).Decode(&q)
					}
					p.ValidateBasic()
					p.IsOnCurve()
				}
			}
		},
		"mta.AliceEnd": func() (any, func(any)) {
			pk := &k0.PaillierSK.PublicKey
			a := rnd()
			cA, rp, _ := mta.AliceInit(ec, pk, a, k1.NTildei, k1.H1i, k1.H2i, fx.rng)
			b := rnd()
			_, cB, _, pf, _ := mta.BobMid(sess, ec, pk, rp, b, cA, k0.NTildei, k0.H1i, k0.H2i, k1.NTildei, k1.H1i, k1.H2i, fx.rng)
			return &argsAliceEnd{cB}, func(x any) {
				v := x.(*argsAliceEnd)
				mta.AliceEnd(sess, ec, pk, pf, k0.H1i, k0.H2i, cA, v.CB, k0.NTildei, k0.PaillierSK)
			}
		},
	}
}

// rawDirect are entries without structured arguments: random / crafted byte strings.
var rawExtra func(entry, value string, seed int64) bool

func rawDirect(entry, value string, seed int64) {
	if rawExtra != nil && rawExtra(entry, value, seed) {
		return
	}
	r := rand.New(rand.NewSource(seed))
	buf := make([]byte, 1+r.Intn(300))
	r.Read(buf)
	switch entry {
	case "tss.ParseWireMessage":
		pid := tss.NewPartyID("a", "a", big.NewInt(1))
		switch value {
		case "random":
			tss.ParseWireMessage(buf, pid, true)
		case "empty":
			tss.ParseWireMessage([]byte{}, pid, false)
		case "any-unknown-type":
			tss.ParseWireMessage([]byte{0x0a, 0x10, 't', 'y', 'p', 'e', '.', 'g', 'o', 'o', 'g', 'l', 'e', 'a', 'p', 'i', 's', '/', 0x12, 0x01, 0x00}, pid, true)
		case "nil-from-key":
			p2 := tss.NewPartyID("a", "a", big.NewInt(0))
			tss.ParseWireMessage(buf, p2, true)
		}
	case "ckd.NewExtendedKeyFromString":
		switch value {
		case "random":
			ckd.NewExtendedKeyFromString(string(buf), tss.S256())
		case "empty":
			ckd.NewExtendedKeyFromString("", tss.S256())
		case "short-base58":
			ckd.NewExtendedKeyFromString("xpub661MyMwAq", tss.S256())
		case "valid-prefix-garbage":
			ckd.NewExtendedKeyFromString("xpub661MyMwAqRbcFtXgS5sYJABqqG9YLmC4Q1Rdap9gSE8NqtwybGhePY2gZ29ESFjqJoCu1Rupje8YtGqsefD265TMg7usUDFdp6W1EGMcet9", tss.S256())
		}
	case "crypto.ECPoint.UnmarshalJSON":
		var p crypto.ECPoint
		switch value {
		case "random":
			p.UnmarshalJSON(buf)
		case "nulls":
			p.UnmarshalJSON([]byte(`{"Curve":"secp256k1","Coords":[null,null]}`))
		case "one-coord":
			p.UnmarshalJSON([]byte(`{"Curve":"secp256k1","Coords":[1]}`))
		case "unknown-curve":
			p.UnmarshalJSON([]byte(`{"Curve":"nope","Coords":[1,2]}`))
		case "no-curve":
			p.UnmarshalJSON([]byte(`{"Coords":[1,2]}`))
		case "empty-object":
			p.UnmarshalJSON([]byte(`{}`))
		}
	case "crypto.ECPoint.GobDecode":
		var p crypto.ECPoint
		switch value {
		case "random":
			p.GobDecode(buf)
		case "empty":
			p.GobDecode([]byte{})
		case "short":
			p.GobDecode([]byte{1, 2, 3})
		}
	case "common.hash":
		switch value {
		case "no-input":
			common.SHA512_256()
			common.SHA512_256i()
		case "empty-parts":
			common.SHA512_256([]byte{}, []byte{})
			common.SHA512_256i(big.NewInt(0))
			common.SHA512_256i_TAGGED([]byte{}, big.NewInt(0))
		}
	}
}

var rawEntries = map[string][]string{
	"tss.ParseWireMessage":          {"random", "empty", "any-unknown-type", "nil-from-key"},
	"ckd.NewExtendedKeyFromString":  {"random", "empty", "short-base58", "valid-prefix-garbage"},
	"crypto.ECPoint.UnmarshalJSON":  {"random", "nulls", "one-coord", "unknown-curve", "no-curve", "empty-object"},
	"crypto.ECPoint.GobDecode":      {"random", "empty", "short"},
	"common.hash":                   {"no-input", "empty-parts"},
}

// directCases enumerates entry x slot x value class.
func directCases(ctx *core.Ctx) []DirectCase {
	fx, err := getDirectFx()
	if err != nil {
		return nil
	}
	var names []string
	for n := range fx.build {
		names = append(names, n)
	}
	sort.Strings(names)
	var out []DirectCase
	for _, n := range names {
		args, _ := fx.build[n]()
		var slots []string
		kinds := map[string]string{}
		slotsOf(reflect.ValueOf(args), "", 0, &slots, kinds)
		for _, s := range slots {
			if kinds[s] == "int" {
				for _, c := range intClasses(ctx.Thorough()) {
					out = append(out, DirectCase{Entry: n, Slot: s, Value: c})
				}
			} else {
				for _, c := range ptClasses {
					out = append(out, DirectCase{Entry: n, Slot: s, Value: c})
				}
			}
		}
		out = append(out, DirectCase{Entry: n, Slot: "-", Value: "honest"})
	}
	var rn []string
	for n := range rawEntries {
		rn = append(rn, n)
	}
	sort.Strings(rn)
	for _, n := range rn {
		for _, v := range rawEntries[n] {
			reps := 1
			if v == "random" {
				reps = ctx.Pick(20, 400)
			}
			for k := 0; k < reps; k++ {
				out = append(out, DirectCase{Entry: n, Slot: fmt.Sprintf("seed%d", ctx.Seed*1000+int64(k)), Value: v})
			}
		}
	}
	return out
}

func execDirect(dc DirectCase) (any, error) {
	fx, err := getDirectFx()
	if err != nil {
		return nil, err
	}
	if _, ok := rawEntries[dc.Entry]; ok {
		var seed int64
		fmt.Sscanf(dc.Slot, "seed%d", &seed)
		rawDirect(dc.Entry, dc.Value, seed)
		return "returned", nil
	}
	b, ok := fx.build[dc.Entry]
	if !ok {
		return nil, fmt.Errorf("unknown entry %s", dc.Entry)
	}
	args, call := b()
	if dc.Slot != "-" {
		var slots []string
		kinds := map[string]string{}
		slotsOf(reflect.ValueOf(args), "", 0, &slots, kinds)
		k, ok := kinds[dc.Slot]
		if !ok {
			return nil, fmt.Errorf("entry %s has no slot %s", dc.Entry, dc.Slot)
		}
		var val reflect.Value
		if k == "int" {
			val = reflect.ValueOf(intValue(dc.Value, fx.keys[0].PaillierSK.N))
		} else {
			ec := elliptic.Curve(tss.S256())
			if strings.HasSuffix(dc.Entry, "@edwards") {
				ec = tss.Edwards()
			}
			val = reflect.ValueOf(ptValue(dc.Value, ec))
		}
		if !setSlot(reflect.ValueOf(args), dc.Slot, val) {
			return nil, fmt.Errorf("cannot set %s of %s", dc.Slot, dc.Entry)
		}
	}
	call(args)
	return "returned", nil
}

// DirectWorker is the sandbox child entry point for direct calls.
func DirectWorker(args []string) int {
	return sandbox.ChildMain(args, func(p json.RawMessage) (any, error) {
		var dc DirectCase
		if err := json.Unmarshal(p, &dc); err != nil {
			return nil, err
		}
		return execDirect(dc)
	})
}

func runDirectCases(cases []DirectCase, parallel int, perCase time.Duration) ([]sandbox.Result, error) {
	cs := make([]sandbox.Case, len(cases))
	for i, dc := range cases {
		b, _ := json.Marshal(dc)
		cs[i] = sandbox.Case{ID: fmt.Sprintf("%05d:%s", i, dc.ID()), Payload: b}
	}
	return sandbox.Run("direct-worker", cs, parallel, perCase)
}
