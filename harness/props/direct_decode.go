package props

// Decode-then-verify pipelines (C06): every exported decoder of a proof is handed structurally odd encodings
// (elements dropped / appended / emptied, the multi-part packing re-split with the same number of elements, ...)
// and, whenever the decoder returns a proof without an error, that proof is handed to its verifier with the honest
// statement - which is what a protocol round does with a message that passed ValidateBasic.  The call must return.

import (
	"math/big"
	"math/rand"

	"github.com/bnb-chain/tss-lib/v2/crypto"
	"github.com/bnb-chain/tss-lib/v2/crypto/commitments"
	"github.com/bnb-chain/tss-lib/v2/crypto/dlnproof"
	"github.com/bnb-chain/tss-lib/v2/crypto/facproof"
	"github.com/bnb-chain/tss-lib/v2/crypto/modproof"
	"github.com/bnb-chain/tss-lib/v2/crypto/mta"
	"github.com/bnb-chain/tss-lib/v2/crypto/paillier"
	"github.com/bnb-chain/tss-lib/v2/tss"
)

// structural variants of a list of byte strings
var decodeVariants = []string{
	"honest", "drop-last", "drop-first", "append-empty", "append-copy", "empty-at-0", "empty-at-mid", "empty-at-last",
	"all-empty", "no-elements", "zero-byte-at-0", "zero-byte-at-last", "swap-first-last", "huge-at-mid",
}

// re-packings of a two-part commitment-builder encoding [n1, a.., n2, b..] that keep the number of elements
var repackVariants = []string{
	"repack:129,127", "repack:127,129", "repack:0,256", "repack:256,0", "repack:1,255", "repack:255,1",
	"repack:256", "repack:128,64,64", "repack:128,128,0", "repack:85,85,86",
}

func applyVariant(bzs [][]byte, v string, r *rand.Rand) [][]byte {
	out := make([][]byte, len(bzs))
	for i := range bzs {
		out[i] = append([]byte(nil), bzs[i]...)
	}
	n := len(out)
	switch v {
	case "honest":
	case "drop-last":
		if n > 0 {
			out = out[:n-1]
		}
	case "drop-first":
		if n > 0 {
			out = out[1:]
		}
	case "append-empty":
		out = append(out, []byte{})
	case "append-copy":
		if n > 0 {
			out = append(out, out[n-1])
		}
	case "empty-at-0":
		if n > 0 {
			out[0] = []byte{}
		}
	case "empty-at-mid":
		if n > 0 {
			out[n/2] = []byte{}
		}
	case "empty-at-last":
		if n > 0 {
			out[n-1] = []byte{}
		}
	case "all-empty":
		for i := range out {
			out[i] = []byte{}
		}
	case "no-elements":
		out = [][]byte{}
	case "zero-byte-at-0":
		if n > 0 {
			out[0] = []byte{0}
		}
	case "zero-byte-at-last":
		if n > 0 {
			out[n-1] = []byte{0}
		}
	case "swap-first-last":
		if n > 1 {
			out[0], out[n-1] = out[n-1], out[0]
		}
	case "huge-at-mid":
		if n > 0 {
			out[n/2] = bytesOf(0xff, 5000)
		}
	}
	return out
}

// repack re-splits the flattened values of a builder encoding into parts of the given sizes.
func repack(bzs [][]byte, sizes []int) [][]byte {
	ints := make([]*big.Int, len(bzs))
	for i, b := range bzs {
		ints[i] = new(big.Int).SetBytes(b)
	}
	parts, err := commitments.ParseSecrets(ints)
	if err != nil {
		return bzs
	}
	var flat []*big.Int
	for _, p := range parts {
		flat = append(flat, p...)
	}
	var out [][]byte
	pos := 0
	for _, s := range sizes {
		out = append(out, big.NewInt(int64(s)).Bytes())
		for k := 0; k < s && pos < len(flat); k++ {
			out = append(out, flat[pos].Bytes())
			pos++
		}
	}
	return out
}

func parseSizes(v string) []int {
	var out []int
	cur, have := 0, false
	for _, c := range v {
		if c >= '0' && c <= '9' {
			cur = cur*10 + int(c-'0')
			have = true
		} else if have {
			out = append(out, cur)
			cur, have = 0, false
		}
	}
	if have {
		out = append(out, cur)
	}
	return out
}

func init() {
	all := append(append([]string{}, decodeVariants...), repackVariants...)
	for _, e := range []string{"decode+verify:dlnproof", "decode+verify:modproof", "decode+verify:facproof",
		"decode+verify:rangeproof", "decode+verify:bob", "decode+verify:bobwc"} {
		if e == "decode+verify:dlnproof" {
			rawEntries[e] = all
		} else {
			rawEntries[e] = decodeVariants
		}
	}
	rawExtra = decodeThenVerify
}

// decodeThenVerify runs one pipeline; it reports whether it knew the entry.
func decodeThenVerify(entry, value string, seed int64) bool {
	fx, err := getDirectFx()
	if err != nil {
		return false
	}
	r := rand.New(rand.NewSource(seed))
	ec := tss.S256()
	q := ec.Params().N
	k0, k1 := fx.keys[0], fx.keys[1]
	sess := []byte("direct-call-session")
	rnd := func() *big.Int { return new(big.Int).Rand(fx.rng, q) }
	vary := func(bzs [][]byte) [][]byte {
		if len(value) > 7 && value[:7] == "repack:" {
			return repack(bzs, parseSizes(value[7:]))
		}
		return applyVariant(bzs, value, r)
	}
	toSlice := func(n int, get func(i int) []byte) [][]byte {
		out := make([][]byte, n)
		for i := range out {
			out[i] = get(i)
		}
		return out
	}
	switch entry {
	case "decode+verify:dlnproof":
		pf := dlnproof.NewDLNProof(k0.H1i, k0.H2i, k0.Alpha, k0.P, k0.Q, k0.NTildei, fx.rng)
		bzs, _ := pf.Serialize()
		if p, err := dlnproof.UnmarshalDLNProof(vary(bzs)); err == nil && p != nil {
			p.Verify(k0.H1i, k0.H2i, k0.NTildei)
		}
	case "decode+verify:modproof":
		sk := k0.PaillierSK
		pf, _ := modproof.NewProof(sess, sk.N, sk.P, sk.Q, fx.rng)
		b := pf.Bytes()
		if p, err := modproof.NewProofFromBytes(vary(toSlice(len(b), func(i int) []byte { return b[i] }))); err == nil && p != nil {
			p.Verify(sess, sk.N)
		}
	case "decode+verify:facproof":
		sk := k0.PaillierSK
		pf, _ := facproof.NewProof(sess, ec, sk.N, k1.NTildei, k1.H1i, k1.H2i, sk.P, sk.Q, fx.rng)
		b := pf.Bytes()
		if p, err := facproof.NewProofFromBytes(vary(toSlice(len(b), func(i int) []byte { return b[i] }))); err == nil && p != nil {
			p.Verify(sess, ec, sk.N, k1.NTildei, k1.H1i, k1.H2i)
		}
	case "decode+verify:rangeproof":
		pk := &k0.PaillierSK.PublicKey
		m := rnd()
		c, rr, _ := pk.EncryptAndReturnRandomness(fx.rng, m)
		pf, _ := mta.ProveRangeAlice(ec, pk, c, k1.NTildei, k1.H1i, k1.H2i, m, rr, fx.rng)
		b := pf.Bytes()
		if p, err := mta.RangeProofAliceFromBytes(vary(toSlice(len(b), func(i int) []byte { return b[i] }))); err == nil && p != nil {
			p.Verify(ec, &paillier.PublicKey{N: pk.N}, k1.NTildei, k1.H1i, k1.H2i, c)
		}
	case "decode+verify:bob", "decode+verify:bobwc":
		pk := &k0.PaillierSK.PublicKey
		a := rnd()
		cA, rp, _ := mta.AliceInit(ec, pk, a, k1.NTildei, k1.H1i, k1.H2i, fx.rng)
		bb := rnd()
		if entry == "decode+verify:bob" {
			_, cB, _, pf, err := mta.BobMid(sess, ec, pk, rp, bb, cA, k0.NTildei, k0.H1i, k0.H2i, k1.NTildei, k1.H1i, k1.H2i, fx.rng)
			if err != nil {
				return true
			}
			b := pf.Bytes()
			if p, err := mta.ProofBobFromBytes(vary(toSlice(len(b), func(i int) []byte { return b[i] }))); err == nil && p != nil {
				p.Verify(sess, ec, pk, k0.NTildei, k0.H1i, k0.H2i, cA, cB)
			}
		} else {
			B := crypto.ScalarBaseMult(ec, bb)
			_, cB, _, pf, err := mta.BobMidWC(sess, ec, pk, rp, bb, cA, k0.NTildei, k0.H1i, k0.H2i, k1.NTildei, k1.H1i, k1.H2i, B, fx.rng)
			if err != nil {
				return true
			}
			b := pf.Bytes()
			if p, err := mta.ProofBobWCFromBytes(ec, vary(toSlice(len(b), func(i int) []byte { return b[i] }))); err == nil && p != nil {
				p.Verify(sess, ec, pk, k0.NTildei, k0.H1i, k0.H2i, cA, cB, B)
			}
		}
	default:
		return false
	}
	return true
}
