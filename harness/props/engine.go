package props

import (
	"bytes"
	"fmt"
	"math/big"
	"math/rand"
	"sort"
	"strings"
	"sync"
	"time"

	eckg "github.com/bnb-chain/tss-lib/v2/ecdsa/keygen"
	edkg "github.com/bnb-chain/tss-lib/v2/eddsa/keygen"
	"github.com/bnb-chain/tss-lib/v2/tss"
	"google.golang.org/protobuf/proto"

	"verif/harness/core"
	"verif/harness/ev"
	"verif/harness/pump"
	"verif/harness/tlc"
)

// Scenario is one protocol configuration of the engine family, serialisable for replay files.
type Scenario struct {
	Proto    pump.Proto  `json:"proto"`
	N        int         `json:"n"` // parties / signers / old participants
	T        int         `json:"t"`
	KeyN     int         `json:"key_n"` // size of the key's committee (signing / resharing)
	NewN     int         `json:"new_n"`
	NewT     int         `json:"new_t"`
	NoProofs bool        `json:"no_proofs"`
	Strategy string      `json:"strategy"`
	Seed     int64       `json:"seed"`
	// optional refinements (signing / keygen scenario space of C01-C03, C18, C20)
	Subset       []int    `json:"subset,omitempty"`         // indices (into the key's parties) of the participants
	MsgHex       string   `json:"msg_hex,omitempty"`        // message / digest as a big-endian integer
	FullBytesLen int      `json:"full_bytes_len,omitempty"` // 0 = absent
	KDDHex       string   `json:"kdd_hex,omitempty"`        // ECDSA key derivation delta
	PartyKeys    []string `json:"party_keys,omitempty"`     // decimal party id keys (keygen / new committee)
	ExpectRefuse bool     `json:"expect_refuse,omitempty"`  // the scenario must be refused by Start() before anything is sent
	MayRefuse    bool     `json:"may_refuse,omitempty"`     // inadmissible input (e.g. share ids colliding modulo the order): errors are fine, a completed run must still satisfy the oracle
	NonceSum     int64    `json:"nonce_sum,omitempty"`      // ECDSA signing: force the signers' nonce shares k_i to sum to this small value
	SilentNode   int      `json:"silent_node,omitempty"`    // party that goes silent (crash) ...
	SilentAfter  int      `json:"silent_after,omitempty"`   // ... after this many scheduler steps
	Concurrency  int      `json:"concurrency,omitempty"`    // > 0: tss.Parameters.SetConcurrency of every party
	DeclaredOldN int      `json:"declared_old_n,omitempty"` // resharing: old party count declared to the parameters (default: size of the old context)
	Schedule []pump.Step `json:"schedule,omitempty"` // recorded schedule (for replay)
}

func (sc Scenario) GroupKey() string {
	return fmt.Sprintf("%s/n%d/t%d/k%d/new%d.%d/np%v/s%v/m%s.%d/d%s/ids%v", sc.Proto, sc.N, sc.T, sc.KeyN, sc.NewN, sc.NewT, sc.NoProofs,
		sc.Subset, sc.MsgHex, sc.FullBytesLen, sc.KDDHex, sc.PartyKeys)
}

// key material cache (per process)
var (
	keyMu     sync.Mutex
	edKeyMemo = map[string][]edkg.LocalPartySaveData{}
	ecKeyMemo = map[string][]eckg.LocalPartySaveData{}
)

// EdKeys returns a (keyN, t) EdDSA key made by a real keygen of the current tree.
func EdKeys(keyN, t int) ([]edkg.LocalPartySaveData, error) {
	keyMu.Lock()
	defer keyMu.Unlock()
	k := fmt.Sprintf("%d/%d", keyN, t)
	if v, ok := edKeyMemo[k]; ok {
		return v, nil
	}
	v, err := pump.FreshEdKeygen(keyN, t, 4242+int64(keyN*10+t), nil)
	if err != nil {
		return nil, err
	}
	edKeyMemo[k] = v
	return v, nil
}

// EcKeys returns ECDSA key material: the vendored 5-party t=2 key when (5,2) is asked, else a real keygen.
func EcKeys(keyN, t int) ([]eckg.LocalPartySaveData, error) {
	keyMu.Lock()
	defer keyMu.Unlock()
	k := fmt.Sprintf("%d/%d", keyN, t)
	if v, ok := ecKeyMemo[k]; ok {
		return v, nil
	}
	var v []eckg.LocalPartySaveData
	var err error
	if keyN == 5 && t == 2 {
		v, err = pump.LoadEcFixtures(5)
	} else {
		v, err = pump.FreshEcKeygen(keyN, t, 4242+int64(keyN*10+t), nil)
	}
	if err != nil {
		return nil, err
	}
	ecKeyMemo[k] = v
	return v, nil
}

func copyEd(k edkg.LocalPartySaveData) edkg.LocalPartySaveData {
	c := k
	c.Xi = new(big.Int).Set(k.Xi)
	return c
}

func copyEc(k eckg.LocalPartySaveData) eckg.LocalPartySaveData {
	c := k
	c.Xi = new(big.Int).Set(k.Xi)
	return c
}

// BuildConfig turns a scenario into a pump configuration (key material from the caches).
func BuildConfig(sc Scenario) (cfg pump.Config, err error) {
	cfg = pump.Config{Proto: sc.Proto, N: sc.N, T: sc.T, NewN: sc.NewN, NewT: sc.NewT, NoProofs: sc.NoProofs, Seed: sc.Seed, FullBytesLen: sc.FullBytesLen, Concurrency: sc.Concurrency, DeclaredOldN: sc.DeclaredOldN}
	for _, k := range sc.PartyKeys {
		v, ok := new(big.Int).SetString(k, 10)
		if !ok {
			return cfg, fmt.Errorf("bad party key %q", k)
		}
		cfg.PartyKeys = append(cfg.PartyKeys, v)
	}
	if sc.NonceSum != 0 && sc.Proto == pump.EcSigning {
		// k_1 = NonceSum - sum of the others (mod q); each forced value is handed to the signer as the first
		// 32 bytes its random source yields, which round 1 turns into k_i
		q := tss.S256().Params().N
		rng := rand.New(rand.NewSource(sc.Seed + 99))
		rest := big.NewInt(0)
		draws := make([][]byte, sc.N)
		for i := 1; i < sc.N; i++ {
			k := new(big.Int).Rand(rng, q)
			rest.Add(rest, k)
			draws[i] = k.FillBytes(make([]byte, 32))
		}
		k1 := new(big.Int).Sub(big.NewInt(sc.NonceSum), rest)
		k1.Mod(k1, q)
		draws[0] = k1.FillBytes(make([]byte, 32))
		cfg.FirstDraws = draws
	}
	if sc.KDDHex != "" {
		v, ok := new(big.Int).SetString(sc.KDDHex, 16)
		if !ok {
			return cfg, fmt.Errorf("bad kdd %q", sc.KDDHex)
		}
		cfg.KDD = v
	}
	pick := func(i int) int {
		if sc.Subset != nil {
			return sc.Subset[i]
		}
		return i
	}
	defer func() {
		if sc.MsgHex != "" {
			if v, ok := new(big.Int).SetString(sc.MsgHex, 16); ok {
				cfg.Msg = v
			}
		}
	}()
	switch sc.Proto {
	case pump.EdKeygen:
	case pump.EcKeygen:
		pp, err := pump.PreParams(sc.N)
		if err != nil {
			return cfg, err
		}
		cfg.PreParams = pp
	case pump.EdSigning, pump.EdReshare:
		keys, err := EdKeys(sc.KeyN, sc.T)
		if err != nil {
			return cfg, err
		}
		for i := 0; i < sc.N; i++ {
			cfg.EdKeys = append(cfg.EdKeys, copyEd(keys[pick(i)]))
		}
		cfg.Msg = big.NewInt(0x5eed + sc.Seed)
	case pump.EcSigning, pump.EcReshare:
		keys, err := EcKeys(sc.KeyN, sc.T)
		if err != nil {
			return cfg, err
		}
		for i := 0; i < sc.N; i++ {
			cfg.EcKeys = append(cfg.EcKeys, copyEc(keys[pick(i)]))
		}
		cfg.Msg = big.NewInt(0x5eed + sc.Seed)
		if sc.Proto == pump.EcReshare {
			pp, err := pump.PreParamsFrom(1, sc.NewN)
			if err != nil {
				return cfg, err
			}
			cfg.PreParams = pp
		}
	}
	return cfg, nil
}

// RunRecord is the outcome of one real run.
type RunRecord struct {
	Sc        Scenario
	Events    []ev.Event
	Sent      []string
	Quiescent bool
	Finished  []bool // per node: exactly one result and round Done
	NResults  []int
	Rounds    []int
	Errs      []string
	WireBad   []string // wire round-trip failures
	Leaks     []string // long-term secret found in an outgoing message
	Session   *pump.Session
	Wall      float64
}

// secretsOf lists the long-term secrets a node must never put on the wire.
func secretsOf(cfg pump.Config, idx int, role string) [][]byte {
	var out [][]byte
	add := func(x *big.Int) {
		if x != nil && x.BitLen() >= 120 {
			out = append(out, x.Bytes())
		}
	}
	addPre := func(pp eckg.LocalPreParams) {
		add(pp.Alpha)
		add(pp.Beta)
		add(pp.P)
		add(pp.Q)
		if pp.PaillierSK != nil {
			add(pp.PaillierSK.P)
			add(pp.PaillierSK.Q)
			add(pp.PaillierSK.LambdaN)
			add(pp.PaillierSK.PhiN)
		}
	}
	switch cfg.Proto {
	case pump.EcKeygen:
		addPre(cfg.PreParams[idx])
	case pump.EdSigning:
		add(cfg.EdKeys[idx].Xi)
	case pump.EcSigning:
		add(cfg.EcKeys[idx].Xi)
		addPre(cfg.EcKeys[idx].LocalPreParams)
	case pump.EdReshare:
		if role == "old" {
			add(cfg.EdKeys[idx].Xi)
		}
	case pump.EcReshare:
		if role == "old" {
			add(cfg.EcKeys[idx].Xi)
			addPre(cfg.EcKeys[idx].LocalPreParams)
		} else {
			addPre(cfg.PreParams[idx])
		}
	}
	return out
}

// ExecOpts are per-run hooks of a property check.
type ExecOpts struct {
	Prepare   func(s *pump.Session, cfg *pump.Config)               // after the session is built
	EventHook func(s *pump.Session, n *pump.Node, e *ev.Event)      // fills extra event fields
	AfterStep func(step int, s *pump.Session, rec *RunRecord) error // after every scheduler step
}

// ExecScenario runs one scenario on the real code and records its trace.
func ExecScenario(sc Scenario) (*RunRecord, error) { return ExecScenarioOpts(sc, ExecOpts{}) }

func ExecScenarioOpts(sc Scenario, opts ExecOpts) (*RunRecord, error) {
	t0 := time.Now()
	cfg, err := BuildConfig(sc)
	if err != nil {
		return nil, err
	}
	// the pump sorts key material by ShareID; do the same so that secretsOf indexes match
	sort.Slice(cfg.EdKeys, func(i, j int) bool { return cfg.EdKeys[i].ShareID.Cmp(cfg.EdKeys[j].ShareID) < 0 })
	sort.Slice(cfg.EcKeys, func(i, j int) bool { return cfg.EcKeys[i].ShareID.Cmp(cfg.EcKeys[j].ShareID) < 0 })
	mem := &ev.Mem{}
	s, err := pump.New(cfg, mem)
	if err != nil {
		return nil, err
	}
	rec := &RunRecord{Sc: sc, Session: s}
	s.EventHook = opts.EventHook
	if opts.Prepare != nil {
		opts.Prepare(s, &cfg)
	}
	secrets := map[int][][]byte{}
	for _, n := range s.Nodes {
		idx := n.PID.Index
		secrets[n.G] = secretsOf(cfg, idx, n.Role)
	}
	var callWireOK, callNoLeak bool
	s.OnOut = func(from *pump.Node, m tss.Message) {
		wire, _, err := m.WireBytes()
		if err != nil {
			callWireOK = false
			rec.WireBad = append(rec.WireBad, fmt.Sprintf("%s from %d: WireBytes: %v", m.Type(), from.G, err))
			return
		}
		pm, err := tss.ParseWireMessage(wire, from.PID, m.IsBroadcast())
		if err != nil {
			callWireOK = false
			rec.WireBad = append(rec.WireBad, fmt.Sprintf("%s from %d: parse: %v", m.Type(), from.G, err))
		} else {
			orig, ok := m.(tss.ParsedMessage)
			if !ok || pm.Type() != m.Type() || !proto.Equal(pm.Content(), orig.Content()) || pm.IsBroadcast() != m.IsBroadcast() ||
				pm.GetFrom().KeyInt().Cmp(m.GetFrom().KeyInt()) != 0 {
				callWireOK = false
				rec.WireBad = append(rec.WireBad, fmt.Sprintf("%s from %d: content changed by the wire encoding", m.Type(), from.G))
			}
		}
		for _, sec := range secrets[from.G] {
			if bytes.Contains(wire, sec) {
				callNoLeak = false
				rec.Leaks = append(rec.Leaks, fmt.Sprintf("%s from %d contains a long-term secret of the sender (%d bytes)", m.Type(), from.G, len(sec)))
			}
		}
	}
	// ObsHook runs after collect(), i.e. after OnOut saw the messages of this call
	callWireOK, callNoLeak = true, true
	s.ObsHook = func(_ *pump.Session, _ *pump.Node) map[string]bool {
		o := map[string]bool{"wire_ok": callWireOK, "no_secret": callNoLeak}
		callWireOK, callNoLeak = true, true
		return o
	}
	if sc.Schedule != nil {
		for i, st := range sc.Schedule {
			if err := s.Apply(st); err != nil {
				return nil, err
			}
			if opts.AfterStep != nil {
				if err := opts.AfterStep(i+1, s, rec); err != nil {
					return nil, err
				}
			}
		}
	} else {
		strat, err := pump.StrategyByName(sc.Strategy)
		if err != nil {
			return nil, err
		}
		rng := rand.New(rand.NewSource(sc.Seed))
		var sched []pump.Step
		for len(sched) < 200000 {
			if sc.SilentNode > 0 && len(sched) == sc.SilentAfter {
				st := pump.Step{Op: "silence", Node: sc.SilentNode}
				s.Apply(st)
				sched = append(sched, st)
				continue
			}
			en := s.Enabled()
			if len(en) == 0 {
				break
			}
			st := strat(s, en, rng)
			if err := s.Apply(st); err != nil {
				return nil, err
			}
			sched = append(sched, st)
			if opts.AfterStep != nil {
				if err := opts.AfterStep(len(sched), s, rec); err != nil {
					return nil, err
				}
			}
		}
		rec.Sc.Schedule = sched
	}
	rec.Events = mem.Events
	rec.Sent = s.SentMultiset()
	rec.Quiescent = s.Quiescent()
	for _, n := range s.Nodes {
		r := s.Round(n)
		rec.Rounds = append(rec.Rounds, r)
		rec.NResults = append(rec.NResults, len(n.Results))
		rec.Finished = append(rec.Finished, len(n.Results) == 1 && r == ev.Done)
		if n.Err != nil {
			rec.Errs = append(rec.Errs, fmt.Sprintf("party %d: %v", n.G, n.Err))
		}
		if n.Panic != "" {
			rec.Errs = append(rec.Errs, fmt.Sprintf("party %d PANIC in the library: %s", n.G, core.Short(n.Panic, 600)))
		}
	}
	rec.Wall = time.Since(t0).Seconds()
	return rec, nil
}

// RunScenarios executes scenarios on `workers` goroutines.
func RunScenarios(scs []Scenario, workers int) ([]*RunRecord, error) {
	recs := make([]*RunRecord, len(scs))
	errs := make([]error, len(scs))
	var wg sync.WaitGroup
	ch := make(chan int)
	for w := 0; w < workers; w++ {
		wg.Add(1)
		go func() {
			defer wg.Done()
			for i := range ch {
				recs[i], errs[i] = ExecScenario(scs[i])
			}
		}()
	}
	for i := range scs {
		ch <- i
	}
	close(ch)
	wg.Wait()
	for _, e := range errs {
		if e != nil {
			return recs, e
		}
	}
	return recs, nil
}

// message types of the six protocols in protocol order
var protoTypes = map[pump.Proto][]string{
	pump.EdKeygen:  {"KGRound1Message", "KGRound2Message1", "KGRound2Message2"},
	pump.EcKeygen:  {"KGRound1Message", "KGRound2Message1", "KGRound2Message2", "KGRound3Message"},
	pump.EdSigning: {"SignRound1Message", "SignRound2Message", "SignRound3Message"},
	pump.EcSigning: {"SignRound1Message1", "SignRound1Message2", "SignRound2Message", "SignRound3Message", "SignRound4Message",
		"SignRound5Message", "SignRound6Message", "SignRound7Message", "SignRound8Message", "SignRound9Message"},
	pump.EdReshare: {"DGRound1Message", "DGRound2Message", "DGRound3Message1", "DGRound3Message2", "DGRound4Message"},
	pump.EcReshare: {"DGRound1Message", "DGRound2Message1", "DGRound2Message2", "DGRound3Message1", "DGRound3Message2",
		"DGRound4Message1", "DGRound4Message2"},
}

// ---------------------------------------------------------------- plans

type sizeSpec struct {
	proto                 pump.Proto
	n, t, keyN, newN, newT int
	noProofs              bool
}

func enginePlan(ctx *core.Ctx) []Scenario {
	var sizes []sizeSpec
	if !ctx.Thorough() {
		sizes = []sizeSpec{
			{pump.EdKeygen, 2, 1, 0, 0, 0, false}, {pump.EdKeygen, 3, 1, 0, 0, 0, false}, {pump.EdKeygen, 3, 2, 0, 0, 0, false},
			{pump.EdSigning, 2, 1, 3, 0, 0, false}, {pump.EdSigning, 3, 1, 3, 0, 0, false},
			{pump.EdReshare, 2, 1, 3, 2, 1, false}, {pump.EdReshare, 2, 1, 3, 3, 2, false}, {pump.EdReshare, 3, 1, 3, 2, 1, false},
			{pump.EcKeygen, 2, 1, 0, 0, 0, false},
			{pump.EcSigning, 3, 2, 5, 0, 0, false},
			{pump.EcReshare, 3, 2, 5, 2, 1, true},
		}
	} else {
		sizes = []sizeSpec{
			{pump.EdKeygen, 2, 1, 0, 0, 0, false}, {pump.EdKeygen, 3, 1, 0, 0, 0, false}, {pump.EdKeygen, 3, 2, 0, 0, 0, false},
			{pump.EdKeygen, 4, 2, 0, 0, 0, false}, {pump.EdKeygen, 5, 3, 0, 0, 0, false},
			{pump.EdSigning, 2, 1, 3, 0, 0, false}, {pump.EdSigning, 3, 1, 3, 0, 0, false}, {pump.EdSigning, 3, 2, 4, 0, 0, false}, {pump.EdSigning, 4, 2, 4, 0, 0, false},
			{pump.EdReshare, 2, 1, 3, 2, 1, false}, {pump.EdReshare, 2, 1, 3, 3, 2, false}, {pump.EdReshare, 3, 1, 3, 2, 1, false},
			{pump.EdReshare, 3, 2, 4, 4, 1, false}, {pump.EdReshare, 4, 2, 4, 3, 2, false},
			{pump.EcKeygen, 2, 1, 0, 0, 0, false}, {pump.EcKeygen, 3, 1, 0, 0, 0, false}, {pump.EcKeygen, 3, 2, 0, 0, 0, false},
			{pump.EcSigning, 3, 2, 5, 0, 0, false}, {pump.EcSigning, 4, 2, 5, 0, 0, false},
			{pump.EcReshare, 3, 2, 5, 2, 1, true}, {pump.EcReshare, 3, 2, 5, 3, 1, false}, {pump.EcReshare, 4, 2, 5, 3, 2, true},
		}
	}
	var scs []Scenario
	for _, sz := range sizes {
		total := sz.n + sz.newN
		strats := []string{"fifo", "lifo", "future", "dup", "duplate", "flipfirst", "starve:1", fmt.Sprintf("starve:%d", total)}
		// pre-Start delivery: for each party in turn (quick: first and last)
		if ctx.Thorough() {
			for k := 1; k <= total; k++ {
				strats = append(strats, fmt.Sprintf("prestart:%d", k))
			}
		} else {
			strats = append(strats, "prestart:1", fmt.Sprintf("prestart:%d", total))
		}
		nrand := ctx.Pick(3, 12)
		if sz.proto.IsEcdsa() {
			nrand = ctx.Pick(1, 6)
			if !ctx.Thorough() {
				// the ECDSA protocols cost seconds per run: a directed subset
				strats = []string{"fifo", "lifo", "dup", "flipfirst", fmt.Sprintf("prestart:%d", total)}
			}
		}
		for i := 0; i < nrand; i++ {
			strats = append(strats, "random")
		}
		// one message type of one sender held back as long as anything else can happen (it arrives rounds late,
		// overtaken by the sender's own later traffic)
		types := protoTypes[sz.proto]
		scProbe := Scenario{Proto: sz.proto, N: sz.n, T: sz.t, KeyN: sz.keyN, NewN: sz.newN, NewT: sz.newT}
		for ti, typ := range types {
			snd := sendersOf(scProbe, typ)
			expensive := sz.proto == pump.EcKeygen || sz.proto == pump.EcReshare
			_ = expensive // every type is held back once also in the quick tier (a message overtaken by two rounds needs a particular type)
			strats = append(strats, fmt.Sprintf("holdtype:%s:%d", typ, snd[(ti+int(ctx.Seed))%len(snd)]))
			if ctx.Thorough() && len(snd) > 1 {
				strats = append(strats, fmt.Sprintf("holdtype:%s:%d", typ, snd[(ti+int(ctx.Seed)+1)%len(snd)]))
			}
		}
		for i, st := range strats {
			// the worker-pool size of the rounds (tss.Parameters.SetConcurrency) varies with the schedule: default, 1, 2
			conc := []int{0, 1, 2}[i%3]
			scs = append(scs, Scenario{Proto: sz.proto, N: sz.n, T: sz.t, KeyN: sz.keyN, NewN: sz.newN, NewT: sz.newT,
				NoProofs: sz.noProofs, Strategy: st, Seed: ctx.Seed*7919 + int64(i) + 1, Concurrency: conc})
		}
	}
	return scs
}

// ---------------------------------------------------------------- model checking part

type mcInstance struct {
	proto            string
	nold, nnew       int
	dups, flips      int
	workers          int
	heap             string
}

func engineMCInstances(ctx *core.Ctx) []mcInstance {
	if !ctx.Thorough() {
		return []mcInstance{
			{"eddsa-keygen", 2, 0, 2, 1, 2, "1g"}, {"eddsa-keygen", 3, 0, 1, 0, 2, "2g"},
			{"eddsa-signing", 3, 0, 1, 1, 2, "2g"},
			{"eddsa-resharing", 2, 2, 1, 1, 2, "2g"},
			{"ecdsa-keygen", 2, 0, 2, 1, 2, "1g"},
			{"ecdsa-signing", 2, 0, 2, 1, 2, "1g"},
			{"ecdsa-resharing", 2, 2, 1, 0, 2, "2g"},
		}
	}
	return []mcInstance{
		{"eddsa-keygen", 2, 0, 2, 1, 2, "1g"}, {"eddsa-keygen", 3, 0, 2, 1, 8, "8g"},
		{"eddsa-signing", 2, 0, 2, 1, 2, "1g"}, {"eddsa-signing", 3, 0, 2, 1, 4, "4g"},
		{"eddsa-resharing", 2, 2, 2, 1, 4, "4g"}, {"eddsa-resharing", 2, 3, 1, 1, 4, "6g"},
		{"ecdsa-keygen", 2, 0, 2, 1, 2, "1g"}, {"ecdsa-keygen", 3, 0, 1, 1, 4, "6g"},
		{"ecdsa-signing", 2, 0, 2, 1, 2, "2g"},
		{"ecdsa-resharing", 2, 2, 1, 1, 4, "6g"},
	}
}

type mcResult struct {
	Inst mcInstance
	Res  tlc.Result
}

func runEngineMC(ctx *core.Ctx, insts []mcInstance) []mcResult {
	out := make([]mcResult, len(insts))
	var wg sync.WaitGroup
	sem := make(chan struct{}, 3)
	for i, in := range insts {
		wg.Add(1)
		go func(i int, in mcInstance) {
			defer wg.Done()
			sem <- struct{}{}
			defer func() { <-sem }()
			cfg := "SPECIFICATION MCSpec\n" + tlc.EngineConstants(in.proto, in.nold, in.nnew, tlc.CodeFlags) +
				fmt.Sprintf("  MaxDups = %d\n  MaxFlips = %d\n", in.dups, in.flips) +
				"INVARIANTS TypeOK EndOnce SendDiscipline RoundDiscipline NoStuck\n" +
				"PROPERTIES FlipInert WaitingExact SentMonotone\nVIEW View\nCHECK_DEADLOCK FALSE\n"
			r := tlc.Run(tlc.Options{Module: "EngineMC", Cfg: cfg, Workers: in.workers, Heap: in.heap, Timeout: 20 * time.Minute})
			out[i] = mcResult{in, r}
		}(i, in)
	}
	wg.Wait()
	return out
}

// ---------------------------------------------------------------- the checks

// engineFamily runs the shared machinery of C07 and C08.
// which = "C07" or "C08" selects which verdicts are reported.
func engineFamily(ctx *core.Ctx, which string) error {
	cov := core.NewCov()
	if ctx.Replay != "" {
		return engineReplay(ctx, which)
	}
	// 1. model checking of the design (in the background)
	var mcs []mcResult
	var mcWG sync.WaitGroup
	mcWG.Add(1)
	go func() {
		defer mcWG.Done()
		mcs = runEngineMC(ctx, engineMCInstances(ctx))
	}()

	// 2. real runs
	plan := enginePlan(ctx)
	recs, err := RunScenarios(plan, 12)
	if err != nil {
		mcWG.Wait()
		return core.Inconcl("driver failed: %v", err)
	}

	// 3. trace validation of every run
	var all []ev.Event
	runIndex := map[string][]*RunRecord{} // group key of trace groups -> runs in order
	for _, r := range recs {
		all = append(all, r.Events...)
		k := fmt.Sprintf("%s/%d/%d", r.Sc.Proto, r.Session.NOld, r.Session.NNew)
		runIndex[k] = append(runIndex[k], r)
	}
	groups, terr := tlc.ValidateEngineTraces(all, tlc.CodeFlags, "Engine_Trace", "")
	mcWG.Wait()
	for _, m := range mcs {
		if m.Res.Err != nil {
			if strings.Contains(m.Res.Err.Error(), "timed out") {
				// a model instance that does not finish within its time limit (a loaded machine): the evidence says so; the
				// verdicts below come from the real runs and their trace validation
				ctx.Note("EngineMC instance %s %d/%d not finished: %v", m.Inst.proto, m.Inst.nold, m.Inst.nnew, m.Res.Err)
				cov.Add("model_instances_not_finished", 1)
				continue
			}
			return core.Inconcl("TLC failed on %s %d/%d: %v", m.Inst.proto, m.Inst.nold, m.Inst.nnew, m.Res.Err)
		}
		if !m.Res.OK {
			// a design-level counterexample: the spec no longer satisfies its own properties. Not a verdict on the code.
			return core.Inconcl("EngineMC %s %d/%d violates %s (design-level counterexample, not reproduced on the code):\n%s",
				m.Inst.proto, m.Inst.nold, m.Inst.nnew, m.Res.Violated, m.Res.ErrorTrace(3000))
		}
		cov.AddMC(m.Res.Distinct, m.Res.Generated)
	}
	if terr != nil {
		return core.Inconcl("trace validation machinery failed: %v", terr)
	}
	var mcDesc []string
	for _, m := range mcs {
		mcDesc = append(mcDesc, fmt.Sprintf("%s n=%d+%d dups<=%d flips<=%d: %d distinct / %d generated states, depth %d",
			m.Inst.proto, m.Inst.nold, m.Inst.nnew, m.Inst.dups, m.Inst.flips, m.Res.Distinct, m.Res.Generated, m.Res.Depth))
	}
	cov.Set("model_instances", mcDesc)

	accepted := 0
	for _, g := range groups {
		if g.Accepted {
			accepted += g.Runs
			continue
		}
		accepted += g.FailRun // runs before the failing one were explained
		k := fmt.Sprintf("%s/%d/%d", g.Proto, g.NOld, g.NNew)
		var sc Scenario
		if g.FailRun >= 0 && g.FailRun < len(runIndex[k]) {
			sc = runIndex[k][g.FailRun].Sc
		}
		what := fmt.Sprintf("trace of %s (n=%d+%d, strategy %s) is not a behaviour of the engine specification: %s at event %d of the run: %s",
			g.Proto, g.NOld, g.NNew, sc.Strategy, g.Violated, len(g.PrevEvents), describeEvent(g.FailEvent))
		if which == "C08" {
			ctx.Report(fmt.Sprintf("C08:trace:%s:%s:%s", g.Proto, g.Violated, eventClass(g.FailEvent)), what, sc)
		} else {
			ctx.Note("drift (judged by C08): %s", what)
		}
	}
	cov.AddTraces(accepted)

	// 4. property-level predicates evaluated directly on the real runs
	byGroup := map[string][]*RunRecord{}
	for _, r := range recs {
		byGroup[r.Sc.GroupKey()] = append(byGroup[r.Sc.GroupKey()], r)
		nontrivial := r.Sc.Strategy != "fifo"
		cov.Case(fmt.Sprintf("%s|%v", r.Sc.GroupKey(), r.Sc.Schedule), nontrivial)
		cov.Sample(map[string]any{"scenario": r.Sc.GroupKey(), "strategy": r.Sc.Strategy, "steps": len(r.Sc.Schedule),
			"messages": len(r.Sent), "first_steps": firstSteps(r.Sc.Schedule, 6)}, 6)
		if which == "C08" {
			for _, w := range r.WireBad {
				ctx.Report("C08:wire:"+string(r.Sc.Proto), "outgoing message does not survive the wire encoding: "+w, r.Sc)
			}
			for _, l := range r.Leaks {
				ctx.Report("C08:leak:"+string(r.Sc.Proto), l, r.Sc)
			}
		}
		if which == "C07" {
			if len(r.Errs) > 0 {
				ctx.Report(fmt.Sprintf("C07:error:%s:%s", r.Sc.Proto, stratClass(r.Sc.Strategy)),
					fmt.Sprintf("honest run of %s under schedule %s reported errors: %s", r.Sc.GroupKey(), r.Sc.Strategy, strings.Join(r.Errs, "; ")), r.Sc)
				continue
			}
			if !r.Quiescent {
				return core.Inconcl("run %s/%s did not reach quiescence within the step bound", r.Sc.GroupKey(), r.Sc.Strategy)
			}
			for i, f := range r.Finished {
				if !f {
					ctx.Report(fmt.Sprintf("C07:stuck:%s:%s", r.Sc.Proto, stratClass(r.Sc.Strategy)),
						fmt.Sprintf("%s under schedule %s: every sent message delivered, but party %d is in round %d with %d result(s) (all: rounds %v results %v)",
							r.Sc.GroupKey(), r.Sc.Strategy, i+1, r.Rounds[i], r.NResults[i], r.Rounds, r.NResults), r.Sc)
					break
				}
			}
		}
	}
	if which == "C07" {
		for gk, rs := range byGroup {
			ref := rs[0]
			for _, r := range rs[1:] {
				if len(r.Errs) > 0 || len(ref.Errs) > 0 {
					continue
				}
				if strings.Join(ref.Sent, ",") != strings.Join(r.Sent, ",") {
					ctx.Report(fmt.Sprintf("C07:sentset:%s", r.Sc.Proto),
						fmt.Sprintf("%s: schedule %s sends a different set of messages than schedule %s (%d vs %d): %s",
							gk, r.Sc.Strategy, ref.Sc.Strategy, len(r.Sent), len(ref.Sent), diffStrings(ref.Sent, r.Sent)), r.Sc)
				}
			}
		}
		// result oracles (C01-C04) on every finished run
		for _, r := range recs {
			if len(r.Errs) > 0 {
				continue
			}
			if msg := ResultOracle(r); msg != "" {
				ctx.Report(fmt.Sprintf("C07:result:%s", r.Sc.Proto), fmt.Sprintf("%s under schedule %s: %s", r.Sc.GroupKey(), r.Sc.Strategy, msg), r.Sc)
			}
		}
	}
	// 5. binding (B): behaviours enumerated / sampled by TLC are replayed on the real code
	if err := replayFamily(ctx, cov, which); err != nil {
		return err
	}
	cov.Set("runs", len(recs))
	cov.Set("events", len(all))
	rule := "one case = one real protocol run under one schedule (strategy, seed); distinct = distinct (scenario, executed schedule); non-trivial = not plain FIFO; " +
		"every run is also validated line by line against Engine_Trace.tla (post-state of each call equals the spec's), the design is model-checked by TLC (EngineMC.tla), " +
		"and every behaviour TLC enumerates (small EdDSA configurations, exhaustively) or samples (-simulate) from EngineGen.tla is replayed on the real parties with the state compared after each step"
	return ctx.WriteEvidence("model_checking", rule, cov, []string{
		"the pump delivers sequentially: concurrency of Update calls is C09's subject",
		"protocol tables in spec/Protocols.tla transcribe the message routing of the pinned tree",
		"TLC, the Json/IOUtils community modules and the JVM are trusted",
	}, "java tlc2.TLC EngineMC.tla / Engine_Trace.tla")
}

func engineReplay(ctx *core.Ctx, which string) error {
	var sc Scenario
	if _, err := core.LoadReplay(ctx.Replay, &sc); err != nil {
		return core.Inconcl("cannot load replay: %v", err)
	}
	r, err := ExecScenario(sc)
	if err != nil {
		return core.Inconcl("replay failed: %v", err)
	}
	groups, terr := tlc.ValidateEngineTraces(r.Events, tlc.CodeFlags, "Engine_Trace", "")
	if terr != nil {
		return core.Inconcl("trace validation failed: %v", terr)
	}
	for _, g := range groups {
		fmt.Printf("replay: %s accepted=%v violated=%s at event %d: %s\n", g.Proto, g.Accepted, g.Violated, g.FailLine, describeEvent(g.FailEvent))
		if !g.Accepted && which == "C08" {
			ctx.Report("C08:trace:"+g.Proto+":"+g.Violated+":"+eventClass(g.FailEvent), "replayed trace rejected: "+describeEvent(g.FailEvent), sc)
		}
	}
	fmt.Printf("replay: rounds=%v results=%v errs=%v quiescent=%v\n", r.Rounds, r.NResults, r.Errs, r.Quiescent)
	if which == "C07" {
		for i, f := range r.Finished {
			if !f {
				ctx.Report(fmt.Sprintf("C07:stuck:%s:%s", sc.Proto, stratClass(sc.Strategy)), fmt.Sprintf("party %d not finished: round %d results %d", i+1, r.Rounds[i], r.NResults[i]), sc)
				break
			}
		}
		if msg := ResultOracle(r); msg != "" {
			ctx.Report(fmt.Sprintf("C07:result:%s", sc.Proto), msg, sc)
		}
	}
	return nil
}

func describeEvent(e *ev.Event) string {
	if e == nil {
		return "(no event)"
	}
	if e.Ev == "Deliver" {
		return fmt.Sprintf("Deliver %s %d->%d as %s to party %d: ret=%s round=%d waiting=%v out=%d ended=%d obs=%v",
			e.M.Type, e.M.From, e.M.To, e.As, e.P, e.Ret, e.Rnd, e.Waiting, len(e.Out), e.Ended, e.Obs)
	}
	return fmt.Sprintf("%s party %d: ret=%s round=%d waiting=%v out=%d ended=%d obs=%v", e.Ev, e.P, e.Ret, e.Rnd, e.Waiting, len(e.Out), e.Ended, e.Obs)
}

func eventClass(e *ev.Event) string {
	if e == nil {
		return "none"
	}
	if e.Ev == "Deliver" {
		return "Deliver:" + e.M.Type
	}
	return e.Ev
}

func stratClass(s string) string {
	if i := strings.Index(s, ":"); i >= 0 {
		return s[:i]
	}
	return s
}

func firstSteps(s []pump.Step, n int) []string {
	var out []string
	for i, st := range s {
		if i >= n {
			break
		}
		out = append(out, fmt.Sprintf("%s(%d,%d)", st.Op, st.Node, st.Item))
	}
	return out
}

func diffStrings(a, b []string) string {
	ma := map[string]int{}
	for _, x := range a {
		ma[x]++
	}
	for _, x := range b {
		ma[x]--
	}
	var d []string
	for k, v := range ma {
		if v != 0 {
			d = append(d, fmt.Sprintf("%s:%+d", k, -v))
		}
	}
	sort.Strings(d)
	if len(d) > 8 {
		d = d[:8]
	}
	return strings.Join(d, " ")
}

func C07(ctx *core.Ctx) error { return engineFamily(ctx, "C07") }
func C08(ctx *core.Ctx) error { return engineFamily(ctx, "C08") }
