package props

import (
	"os"
	"encoding/hex"
	"encoding/json"
	"fmt"
	"math/big"
	"math/rand"
	"sort"
	"strings"
	"time"

	"github.com/bnb-chain/tss-lib/v2/common"
	eckg "github.com/bnb-chain/tss-lib/v2/ecdsa/keygen"
	edkg "github.com/bnb-chain/tss-lib/v2/eddsa/keygen"
	"github.com/bnb-chain/tss-lib/v2/crypto/commitments"
	"github.com/bnb-chain/tss-lib/v2/tss"

	"verif/harness/ev"
	"verif/harness/obs"
	"verif/harness/pump"
	"verif/harness/sandbox"
	"verif/harness/tamper"
)

// FaultCase is one run with one deviating participant.
type FaultCase struct {
	Sc   Scenario    `json:"sc"`
	Dev  int         `json:"dev"`  // global number of the deviating party
	Type string      `json:"type"` // message type whose content is altered ("" = none)
	To   int         `json:"to"`   // recipient for point-to-point types (0 = every recipient gets the same altered content)
	Spec tamper.Spec `json:"spec"`
	// whole-message attacks / deviating inputs
	Replace     bool  `json:"replace,omitempty"`      // the first copy of the message is delivered unaltered, later copies carry the alteration (the sender replaces a message the recipient already holds)
	ReplaceLate bool  `json:"replace_late,omitempty"` // with Replace: the altered copy arrives only after the recipient has left the round that awaits the type
	Equiv       bool  `json:"equiv,omitempty"`        // the alteration need not be rejected (another representative of the same residue, a late duplicate): only outputs and attribution are judged
	MayAccept   bool  `json:"may_accept,omitempty"`   // the honest parties may neutralise the alteration and finish (with valid results); if they report an error it must name the sender
	Mirror      int   `json:"mirror,omitempty"`       // dev sends party Mirror's message of type Type as its own
	WrongSecret bool  `json:"wrong_secret,omitempty"` // dev runs on Xi+1
	DupParams   int   `json:"dup_params,omitempty"`   // dev brings the same pre-parameters as party DupParams (ECDSA keygen / resharing-new)
	AfterAbort  bool  `json:"after_abort,omitempty"`  // keep delivering to parties that reported an error (C06)
	RawWire     string `json:"raw_wire,omitempty"`    // hex: replace the wire bytes of the selected message by these bytes (C06)
	AsFrom      int   `json:"as_from,omitempty"`      // C06: hand the selected message over as if sent by party index AsFrom-1000000 (may be out of range)
	Craft       *CraftSpec `json:"craft,omitempty"`   // C06: crafted relations across messages
	AllDev      bool  `json:"all_dev,omitempty"`      // C06: the alteration is applied to the messages of this type from EVERY sender (several misbehaving peers at once)
}

// CraftSpec describes a deviating party that is consistent across two messages (e.g. commits to a degenerate tuple and opens it).
type CraftSpec struct {
	Kind   string `json:"kind"` // offcurve | identity | torsion | short | long | nothing | zeros | huge | sumzero
	CType  string `json:"c_type,omitempty"`
	CField string `json:"c_field,omitempty"`
	DType  string `json:"d_type"`
	DField string `json:"d_field"`
	Arity  int    `json:"arity,omitempty"`
	Sizes  string `json:"sizes,omitempty"` // repack: part sizes of the re-split multi-part packing, e.g. "129,127"
}

// craftedOpening returns the de-commitment [r, values...] of a crafted commitment.
func craftedOpening(c *CraftSpec, ecdsa bool) []*big.Int {
	r := new(big.Int).Lsh(big.NewInt(0x5151), 240)
	vals := []*big.Int{}
	n := c.Arity
	if n == 0 {
		n = 2
	}
	switch c.Kind {
	case "offcurve":
		for i := 0; i < n; i++ {
			vals = append(vals, big.NewInt(int64(i+1)))
		}
	case "identity":
		for i := 0; i < n; i += 2 {
			if ecdsa {
				vals = append(vals, big.NewInt(0), big.NewInt(0))
			} else {
				vals = append(vals, big.NewInt(0), big.NewInt(1))
			}
		}
	case "torsion":
		t := obs.Ed.Torsion()
		for i := 0; i < n; i += 2 {
			p := t[1+(i/2)%7]
			vals = append(vals, p.X, p.Y)
		}
	case "short":
		g := obs.Secp.Gen()
		if !ecdsa {
			g = obs.Ed.Gen()
		}
		all := []*big.Int{g.X, g.Y, g.X, g.Y, g.X, g.Y}
		vals = all[:n-1]
	case "long":
		g := obs.Secp.Gen()
		if !ecdsa {
			g = obs.Ed.Gen()
		}
		for i := 0; i < n+2; i += 2 {
			vals = append(vals, g.X, g.Y)
		}
	case "nothing":
	case "zeros":
		for i := 0; i < n; i++ {
			vals = append(vals, big.NewInt(0))
		}
	case "huge":
		for i := 0; i < n; i++ {
			vals = append(vals, new(big.Int).Lsh(big.NewInt(1), 20000))
		}
	}
	return append([]*big.Int{r}, vals...)
}

func (fc FaultCase) ID() string {
	craft := ""
	if fc.Craft != nil {
		craft = fc.Craft.Kind + ":" + fc.Craft.DType
	}
	if fc.Replace {
		craft += "|replace"
	}
	if fc.ReplaceLate {
		craft += "-late"
	}
	if fc.Equiv {
		craft += "|equiv"
	}
	if fc.AllDev {
		craft += "|alldev"
	}
	if fc.Sc.Concurrency > 0 {
		craft += fmt.Sprintf("|conc%d", fc.Sc.Concurrency)
	}
	if fc.Craft != nil && fc.Craft.Sizes != "" {
		craft += ":" + fc.Craft.DField + ":" + fc.Craft.Sizes
	}
	return fmt.Sprintf("%s|n%d.%d.%d|dev%d|%s>%d|%s|m%d|ws%v|dp%d|aa%v|%s|%d|%s|from%d|%s", fc.Sc.Proto, fc.Sc.N, fc.Sc.NewN, fc.Sc.T, fc.Dev, fc.Type, fc.To, fc.Spec,
		fc.Mirror, fc.WrongSecret, fc.DupParams, fc.AfterAbort, fc.Sc.Strategy, fc.Sc.Seed, shortHex(fc.RawWire), fc.AsFrom, craft)
}

func shortHex(s string) string {
	if len(s) > 24 {
		return s[:24] + fmt.Sprintf("..%d", len(s)/2)
	}
	return s
}

// PartyOutcome is what an honest party did.
type PartyOutcome struct {
	G        int    `json:"g"`
	Role     string `json:"role"`
	Err      bool   `json:"err"`
	ErrRound int    `json:"err_round"`
	Culprits []int  `json:"culprits"`
	ErrText  string `json:"err_text"`
	Ended    int    `json:"ended"`
	Round    int    `json:"round"`
	Consumed bool   `json:"consumed"` // it was handed the altered message
	Panic    string `json:"panic,omitempty"`
}

type FaultOutcome struct {
	Applied   bool           `json:"applied"` // the alteration point was reached
	Changed   bool           `json:"changed"` // ... and changed the content
	Parties   []PartyOutcome `json:"parties"` // honest parties only
	OutputBad string         `json:"output_bad"`
	OldErased []int          `json:"old_erased"`
	NewSaved  []int          `json:"new_saved"`
	Quiescent bool           `json:"quiescent"`
	Steps     int            `json:"steps"`
	Note      string         `json:"note,omitempty"`
}

// execFault runs one fault case on the real code (inside a sandbox child).
func execFault(fc FaultCase) (*FaultOutcome, error) {
	sc := fc.Sc
	cfg, err := BuildConfig(sc)
	if err != nil {
		return nil, err
	}
	sort.Slice(cfg.EdKeys, func(i, j int) bool { return cfg.EdKeys[i].ShareID.Cmp(cfg.EdKeys[j].ShareID) < 0 })
	sort.Slice(cfg.EcKeys, func(i, j int) bool { return cfg.EcKeys[i].ShareID.Cmp(cfg.EcKeys[j].ShareID) < 0 })
	devIdx := fc.Dev - 1
	if fc.WrongSecret {
		switch {
		case len(cfg.EdKeys) > devIdx && devIdx >= 0 && (sc.Proto == pump.EdSigning || sc.Proto == pump.EdReshare):
			cfg.EdKeys[devIdx].Xi = new(big.Int).Add(cfg.EdKeys[devIdx].Xi, big.NewInt(1))
		case len(cfg.EcKeys) > devIdx && devIdx >= 0:
			cfg.EcKeys[devIdx].Xi = new(big.Int).Add(cfg.EcKeys[devIdx].Xi, big.NewInt(1))
		}
	}
	if fc.DupParams > 0 && len(cfg.PreParams) > 0 {
		// pre-parameter index: keygen party index, or new-committee index for resharing
		di, oi := fc.Dev-1, fc.DupParams-1
		if sc.Proto == pump.EcReshare {
			di, oi = fc.Dev-1-sc.N, fc.DupParams-1-sc.N
		}
		if di >= 0 && oi >= 0 && di < len(cfg.PreParams) && oi < len(cfg.PreParams) {
			cfg.PreParams[di] = cfg.PreParams[oi]
		}
	}
	var origXi []*big.Int
	for i := range cfg.EdKeys {
		origXi = append(origXi, new(big.Int).Set(cfg.EdKeys[i].Xi))
	}
	for i := range cfg.EcKeys {
		origXi = append(origXi, new(big.Int).Set(cfg.EcKeys[i].Xi))
	}
	mem := &ev.Mem{}
	s, err := pump.New(cfg, mem)
	if err != nil {
		return nil, err
	}
	out := &FaultOutcome{}
	consumed := map[int]bool{}
	rng := rand.New(rand.NewSource(sc.Seed + 31337))
	cache := map[string][]byte{}
	var torsionC []byte
	var torsionD string
	if fc.Craft != nil && fc.Craft.Kind == "addtorsion" {
		c := fc.Craft
		// a configuration of its own: a resharing session erases the old shares it was handed
		cfg0, err := BuildConfig(sc)
		if err != nil {
			return nil, err
		}
		sort.Slice(cfg0.EdKeys, func(i, j int) bool { return cfg0.EdKeys[i].ShareID.Cmp(cfg0.EdKeys[j].ShareID) < 0 })
		sort.Slice(cfg0.EcKeys, func(i, j int) bool { return cfg0.EcKeys[i].ShareID.Cmp(cfg0.EcKeys[j].ShareID) < 0 })
		s0, err := pump.New(cfg0, nil)
		if err != nil {
			return nil, err
		}
		st0, _ := pump.StrategyByName("fifo")
		s0.Run(st0, rand.New(rand.NewSource(sc.Seed)), 50000)
		for _, it := range s0.All {
			if it.From.G != fc.Dev || it.Msg.Type != c.DType {
				continue
			}
			var vals []*big.Int
			for i := 0; ; i++ {
				b, err := tamper.Get(it.Wire, c.DField, i)
				if err != nil {
					break
				}
				vals = append(vals, new(big.Int).SetBytes(b))
			}
			if len(vals) >= 3 {
				t := obs.Ed.Torsion()
				p := obs.Ed.Add(obs.Pt{X: vals[1], Y: vals[2]}, t[1+int(sc.Seed)%7])
				vals[1], vals[2] = p.X, p.Y
				cm := commitments.NewHashCommitmentWithRandomness(vals[0], vals[1:]...)
				torsionC = cm.C.Bytes()
				var hs []string
				for _, v := range vals {
					h := hex.EncodeToString(v.Bytes())
					if h == "" {
						h = "00"
					}
					hs = append(hs, h)
				}
				torsionD = strings.Join(hs, ",")
			}
			break
		}
		if torsionC == nil {
			out.Note = "addtorsion: the deviating party's opening was not seen in the unaltered run"
		}
		// the sessions are seeded: the main run below repeats the unaltered one up to the alteration
	}
	s.Mutate = func(it *pump.Item) []byte {
		if fc.Craft != nil && it.From.G == fc.Dev {
			c := fc.Craft
			if c.Kind == "sumzero" {
				if it.Msg.Type != c.DType {
					return nil
				}
				q := tss.S256().Params().N
				sum := big.NewInt(0)
				seen := map[int]bool{}
				for _, o := range s.All {
					if o.Msg.Type == c.DType && o.From.G != fc.Dev && !seen[o.From.G] {
						b, err := tamper.Get(o.Wire, c.DField, 0)
						if err != nil {
							return nil
						}
						seen[o.From.G] = true
						sum.Add(sum, new(big.Int).SetBytes(b))
					}
				}
				if len(seen) != len(s.Nodes)-1 {
					out.Note = "not every other party's value was visible yet"
					return nil
				}
				v := new(big.Int).Neg(sum)
				v.Mod(v, q)
				w, _, err := tamper.Apply(it.Wire, tamper.Spec{Field: c.DField, Kind: "set", Hex: hex.EncodeToString(v.Bytes())}, rng, nil)
				if err != nil {
					return nil
				}
				out.Applied, out.Changed = true, true
				consumed[it.To.G] = true
				return w
			}
			if c.Kind == "addtorsion" {
				// the deviating signer commits to and opens its honest point plus a point of small order, keeping its honest
				// proof (values computed from an unaltered run of the same, seeded, configuration)
				if torsionC == nil {
					return nil
				}
				switch it.Msg.Type {
				case c.CType:
					w, _, err := tamper.Apply(it.Wire, tamper.Spec{Field: c.CField, Kind: "set", Hex: hex.EncodeToString(torsionC)}, rng, nil)
					if err != nil {
						out.Note = "craft: " + err.Error()
						return nil
					}
					return w
				case c.DType:
					w, _, err := tamper.Apply(it.Wire, tamper.Spec{Field: c.DField, Kind: "setlist", Hex: torsionD}, rng, nil)
					if err != nil {
						out.Note = "craft: " + err.Error()
						return nil
					}
					out.Applied, out.Changed = true, true
					consumed[it.To.G] = true
					return w
				}
				return nil
			}
			if c.Kind == "repack" {
				if it.Msg.Type != c.DType {
					return nil
				}
				var list [][]byte
				for i := 0; ; i++ {
					b, err := tamper.Get(it.Wire, c.DField, i)
					if err != nil {
						break
					}
					list = append(list, b)
				}
				if len(list) == 0 {
					out.Note = "repack: field not found"
					return nil
				}
				var hs []string
				for _, b := range repack(list, parseSizes(c.Sizes)) {
					hs = append(hs, hex.EncodeToString(b))
				}
				w, _, err := tamper.Apply(it.Wire, tamper.Spec{Field: c.DField, Kind: "setlist", Hex: strings.Join(hs, ",")}, rng, nil)
				if err != nil {
					out.Note = "repack: " + err.Error()
					return nil
				}
				out.Applied, out.Changed = true, true
				consumed[it.To.G] = true
				return w
			}
			open := craftedOpening(c, sc.Proto.IsEcdsa())
			switch it.Msg.Type {
			case c.CType:
				cm := commitments.NewHashCommitmentWithRandomness(open[0], open[1:]...)
				w, _, err := tamper.Apply(it.Wire, tamper.Spec{Field: c.CField, Kind: "set", Hex: hex.EncodeToString(cm.C.Bytes())}, rng, nil)
				if err != nil {
					out.Note = "craft: " + err.Error()
					return nil
				}
				return w
			case c.DType:
				var hs []string
				for _, v := range open {
					hs = append(hs, hex.EncodeToString(v.Bytes()))
				}
				w, _, err := tamper.Apply(it.Wire, tamper.Spec{Field: c.DField, Kind: "setlist", Hex: strings.Join(hs, ",")}, rng, nil)
				if err != nil {
					out.Note = "craft: " + err.Error()
					return nil
				}
				out.Applied, out.Changed = true, true
				consumed[it.To.G] = true
				return w
			}
			return nil
		}
		if fc.Type == "" || (it.From.G != fc.Dev && !fc.AllDev) || it.Msg.Type != fc.Type {
			return nil
		}
		if fc.To != 0 && it.To.G != fc.To {
			return nil
		}
		if fc.Replace {
			if it.Count <= 1 { // Deliver counts the hand-over before it calls Mutate
				return nil // the honest-looking first copy
			}
			// the replacement only counts as handed over for consumption if the recipient has not yet finished the
			// round that awaits this type (afterwards the stored copy may legitimately never be read again)
			if fc.ReplaceLate {
				if r := s.Round(it.To); r <= it.Round {
					return nil
				}
			} else if r := s.Round(it.To); r > it.Round || r < 0 {
				return nil
			}
		}
		key := fmt.Sprintf("%d", it.To.G)
		if it.Msg.Kind == "B" {
			key = "B"
		}
		if fc.AllDev {
			key += fmt.Sprintf("<%d", it.From.G)
		}
		out.Applied = true
		consumed[it.To.G] = true
		if w, ok := cache[key]; ok {
			return w
		}
		var w []byte
		switch {
		case fc.RawWire != "":
			w = rawWire(fc.RawWire, it, s)
			out.Changed = true
		case fc.Mirror > 0:
			// the deviating party sends the victim's message of the same type as its own
			for _, o := range s.All {
				if o.Msg.Type == fc.Type && o.From.G == fc.Mirror && (it.Msg.Kind == "B" || o.To.G == it.To.G || o.To.G == fc.Dev) {
					w = o.Wire
					break
				}
			}
			if w == nil {
				out.Note = "mirror source not sent yet"
				return nil
			}
			out.Changed = string(w) != string(it.Wire)
		default:
			var other []byte
			if fc.Spec.Kind == "from-other" {
				for _, o := range s.All {
					if o.Msg.Type == fc.Type && o.From.G != fc.Dev && (it.Msg.Kind == "B" || o.To.G == it.To.G) {
						other = o.Wire
						break
					}
				}
				if other == nil {
					out.Note = "no other party's message of that type seen yet"
					return nil
				}
			}
			nw, ch, err := tamper.Apply(it.Wire, fc.Spec, rng, other)
			if err != nil {
				out.Note = "tamper: " + err.Error()
				return nil
			}
			w = nw
			if ch {
				out.Changed = true
			}
		}
		cache[key] = w
		return w
	}
	if fc.AsFrom != 0 {
		s.FromOverride = func(it *pump.Item) (int, bool) {
			if it.From.G == fc.Dev && it.Msg.Type == fc.Type {
				out.Applied = true
				return fc.AsFrom - 1000000, true
			}
			return 0, false
		}
	}
	s.KeepFeedingAborted = fc.AfterAbort
	strat, err := pump.StrategyByName(sc.Strategy)
	if err != nil {
		return nil, err
	}
	sched := s.Run(strat, rand.New(rand.NewSource(sc.Seed)), 50000)
	out.Steps = len(sched)
	if os.Getenv("VERIF_DEBUG_SCHED") != "" {
		for _, st := range sched {
			if st.Op == "start" {
				out.Note += fmt.Sprintf(" start(%d)", st.Node)
			} else if it := s.ItemByID(st.Item); it != nil {
				out.Note += fmt.Sprintf(" %s(%s %d->%d)", st.Op, it.Msg.Type, it.From.G, it.To.G)
			}
		}
	}
	out.Quiescent = s.Quiescent()
	for _, n := range s.Nodes {
		if n.G == fc.Dev {
			continue
		}
		po := PartyOutcome{G: n.G, Role: n.Role, Ended: len(n.Results), Round: s.Round(n), Consumed: consumed[n.G], Panic: n.Panic}
		if n.Err != nil {
			po.Err = true
			po.ErrRound = n.Err.Round()
			po.ErrText = shortStr(n.Err.Error(), 200)
			for _, c := range n.Err.Culprits() {
				if c == nil {
					continue
				}
				g := -1
				for _, m := range s.Nodes {
					if m.PID.KeyInt().Cmp(c.KeyInt()) == 0 && (m.PID == c || m.PID.Id == c.Id) {
						g = m.G
					}
				}
				if g == -1 {
					for _, m := range s.Nodes {
						if m.PID.KeyInt().Cmp(c.KeyInt()) == 0 {
							g = m.G
						}
					}
				}
				po.Culprits = append(po.Culprits, g)
			}
			sort.Ints(po.Culprits)
		}
		out.Parties = append(out.Parties, po)
	}
	// honest outputs
	out.OutputBad = honestOutputOracle(s, fc, origXi)
	if sc.Proto.IsResharing() {
		for i := 0; i < s.NOld; i++ {
			if i+1 == fc.Dev {
				continue
			}
			var cur *big.Int
			if sc.Proto == pump.EdReshare {
				cur = s.Cfg.EdKeys[i].Xi
			} else {
				cur = s.Cfg.EcKeys[i].Xi
			}
			if cur.Cmp(origXi[i]) != 0 {
				out.OldErased = append(out.OldErased, i+1)
			}
		}
		for _, n := range s.Nodes[s.NOld:] {
			if n.G != fc.Dev && len(n.Results) > 0 {
				out.NewSaved = append(out.NewSaved, n.G)
			}
		}
	}
	return out, nil
}

func shortStr(s string, n int) string {
	if len(s) > n {
		return s[:n]
	}
	return s
}

// rawWire builds replacement wire bytes: "empty", "othertype" (another message type's bytes), "mutate:<seed>"
// (seeded truncation / bit flips / random bytes), or plain hex.
func rawWire(spec string, it *pump.Item, s *pump.Session) []byte {
	switch {
	case spec == "empty":
		return []byte{}
	case spec == "othertype":
		for _, o := range s.All {
			if o.Msg.Type != it.Msg.Type {
				return o.Wire
			}
		}
		return []byte{0x0a, 0x03, 'f', 'o', 'o'}
	case strings.HasPrefix(spec, "mutate:"):
		var seed int64
		fmt.Sscanf(spec[7:], "%d", &seed)
		r := rand.New(rand.NewSource(seed))
		w := append([]byte(nil), it.Wire...)
		switch r.Intn(4) {
		case 0: // truncate
			if len(w) > 1 {
				w = w[:r.Intn(len(w))]
			}
		case 1: // flip a few bits
			for k := 0; k < 1+r.Intn(4) && len(w) > 0; k++ {
				w[r.Intn(len(w))] ^= byte(1 << uint(r.Intn(8)))
			}
		case 2: // random bytes of the same length
			r.Read(w)
		case 3: // duplicate a slice in the middle (length fields no longer match)
			if len(w) > 8 {
				i := r.Intn(len(w) - 4)
				w = append(w[:i], append(append([]byte(nil), w[i:i+4]...), w[i:]...)...)
			}
		}
		return w
	}
	return mustHex(spec)
}

func mustHex(s string) []byte {
	b := make([]byte, len(s)/2)
	for i := range b {
		fmt.Sscanf(s[2*i:2*i+2], "%02x", &b[i])
	}
	return b
}

// honestOutputOracle: no honest participant outputs a signature that fails verification, a key share inconsistent
// with the group key, or key data that differs from another honest participant's.
func honestOutputOracle(s *pump.Session, fc FaultCase, origXi []*big.Int) string {
	sc := fc.Sc
	honest := func(n *pump.Node) bool { return n.G != fc.Dev }
	switch sc.Proto {
	case pump.EdSigning, pump.EcSigning:
		var sigs []*common.SignatureData
		for _, n := range s.Nodes {
			if honest(n) {
				for _, r := range n.Results {
					sigs = append(sigs, r.(*common.SignatureData))
				}
			}
		}
		if len(sigs) == 0 {
			return ""
		}
		if sc.Proto == pump.EdSigning {
			return SigOracleEddsa(pt(s.Cfg.EdKeys[0].EDDSAPub), s.Cfg.Msg, s.Cfg.FullBytesLen, sigs)
		}
		return SigOracleEcdsa(pt(s.Cfg.EcKeys[0].ECDSAPub), s.Cfg.Msg, s.Cfg.FullBytesLen, sigs)
	case pump.EdKeygen, pump.EcKeygen, pump.EdReshare, pump.EcReshare:
		var views []ShareView
		var idx []int
		nodes := s.Nodes
		t := sc.T
		var g obs.Group = obs.Ed
		if sc.Proto.IsEcdsa() {
			g = obs.Secp
		}
		if sc.Proto.IsResharing() {
			nodes = s.Nodes[s.NOld:]
			t = sc.NewT
		}
		for i, n := range nodes {
			if !honest(n) || len(n.Results) == 0 {
				continue
			}
			switch k := n.Results[0].(type) {
			case *edkg.LocalPartySaveData:
				views = append(views, edView(k))
			case *eckg.LocalPartySaveData:
				views = append(views, ecView(k))
			}
			idx = append(idx, i)
		}
		if len(views) == 0 {
			return ""
		}
		if m := HonestSharesOracle(g, views, idx, t); m != "" {
			return m
		}
		if sc.Proto == pump.EdReshare && !views[0].Pub.Eq(pt(s.Cfg.EdKeys[0].EDDSAPub)) {
			return "an honest new member saved key data for a different group public key"
		}
		if sc.Proto == pump.EcReshare && !views[0].Pub.Eq(pt(s.Cfg.EcKeys[0].ECDSAPub)) {
			return "an honest new member saved key data for a different group public key"
		}
	}
	return ""
}

// HonestSharesOracle checks consistency among the honest parties' key data only (idx = their positions).
func HonestSharesOracle(g obs.Group, views []ShareView, idx []int, t int) string {
	q := g.Order()
	ref := views[0]
	for k, v := range views {
		if !v.Pub.Eq(ref.Pub) {
			return fmt.Sprintf("honest parties %d and %d hold different group public keys", idx[0]+1, idx[k]+1)
		}
		if len(v.BigXj) != len(ref.BigXj) || len(v.Ks) != len(ref.Ks) {
			return "honest parties hold key data of different sizes"
		}
		for j := range v.BigXj {
			if !v.BigXj[j].Eq(ref.BigXj[j]) || v.Ks[j].Cmp(ref.Ks[j]) != 0 {
				return fmt.Sprintf("honest parties %d and %d hold different public share data for party %d", idx[0]+1, idx[k]+1, j+1)
			}
		}
		if v.Xi == nil || !obs.BaseMul(g, new(big.Int).Mod(v.Xi, q)).Eq(ref.BigXj[idx[k]]) {
			return fmt.Sprintf("honest party %d: secret share inconsistent with its public share point", idx[k]+1)
		}
	}
	// the public share points must interpolate to the group key (every t+1 subset of all n points)
	n := len(ref.BigXj)
	if t+1 <= n {
		sub := make([]int, t+1)
		for i := range sub {
			sub[i] = i
		}
		xs := make([]*big.Int, t+1)
		for i, b := range sub {
			xs[i] = ref.Ks[b]
		}
		lam, err := lagrangeAt(xs, big.NewInt(0), q)
		if err == nil {
			acc := g.Identity()
			for i, b := range sub {
				acc = g.Add(acc, obs.Mul(g, lam[i], ref.BigXj[b]))
			}
			if !acc.Eq(ref.Pub) {
				return "honest key data: public share points do not interpolate to the group public key"
			}
		}
	}
	return ""
}

// FaultWorker is the sandbox child entry point.
func FaultWorker(args []string) int {
	return sandbox.ChildMain(args, func(p json.RawMessage) (any, error) {
		var fc FaultCase
		if err := json.Unmarshal(p, &fc); err != nil {
			return nil, err
		}
		return execFault(fc)
	})
}

// runFaultCases executes cases in sandbox children.
func runFaultCases(cases []FaultCase, parallel int, perCase time.Duration) ([]sandbox.Result, error) {
	cs := make([]sandbox.Case, len(cases))
	for i, fc := range cases {
		b, _ := json.Marshal(fc)
		cs[i] = sandbox.Case{ID: fmt.Sprintf("%04d:%s", i, fc.ID()), Payload: b}
	}
	return sandbox.Run("fault-worker", cs, parallel, perCase)
}

// sampleWires runs one honest session and returns one wire sample per message type, from the given sender.
type wireSample struct {
	Type   string
	Kind   string
	Fields []tamper.FieldInfo
}

func honestWireSamples(sc Scenario) ([]wireSample, error) {
	rec, err := ExecScenario(sc)
	if err != nil {
		return nil, err
	}
	if len(rec.Errs) > 0 {
		return nil, fmt.Errorf("honest sample run failed: %s", strings.Join(rec.Errs, "; "))
	}
	seen := map[string]bool{}
	var out []wireSample
	for _, it := range rec.Session.All {
		if seen[it.Msg.Type] {
			continue
		}
		seen[it.Msg.Type] = true
		fs, err := tamper.Fields(it.Wire)
		if err != nil {
			return nil, err
		}
		out = append(out, wireSample{Type: it.Msg.Type, Kind: it.Msg.Kind, Fields: fs})
	}
	return out, nil
}
