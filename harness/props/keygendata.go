package props

// Data-level conformance of key generation (spec/KeygenData.tla, spec/KeygenData_Trace.tla).
//
// The library takes its group from tss.Parameters.EC(), so the REAL ECDSA key generation (the real rounds, the real
// Paillier / ring-Pedersen material of the vendored fixtures, the real commitments and proofs) is run on a toy elliptic
// curve of prime order Q.  Every point that appears on the wire (the Feldman commitments inside the round-2
// de-commitments) or in the saved key data (public share points, group key) is projected to its discrete logarithm with
// the table of harness/toy, so that all logged values live in Z_Q and TLC recomputes every share, every public share
// point and the key from the dealt polynomials - and predicts, for a transport fault applied by the harness, who must
// abort and whom it must name.  Honest runs belong to C03, faulted runs to C05.
//
// Verdicts come from the Go evaluation of the same formulas on the real outputs (below); TLC's acceptance of the
// trace is the binding of the specification to the code (a rejection that the Go evaluation does not explain is
// inconclusive, never a violation).

import (
	"encoding/hex"
	"encoding/json"
	"fmt"
	"math/big"
	"math/rand"
	"os"
	"path/filepath"
	"sort"
	"strings"
	"sync"
	"time"

	eckg "github.com/bnb-chain/tss-lib/v2/ecdsa/keygen"
	"github.com/bnb-chain/tss-lib/v2/crypto/commitments"

	"verif/harness/core"
	"verif/harness/pump"
	"verif/harness/tamper"
	"verif/harness/tlc"
	"verif/harness/toy"
)

type kdFault struct {
	Kind  string `json:"kind"` // none | share | open | commit
	From  int    `json:"from"`
	To    int    `json:"to"`
	Idx   int    `json:"idx"` // coefficient 1..T+1 (open / commit)
	Delta int    `json:"delta"`
}

type kdCase struct {
	Q     int     `json:"q"`
	N     int     `json:"n"`
	T     int     `json:"t"`
	Ids   []int64 `json:"ids"` // sorted party keys
	Seed  int64   `json:"seed"`
	Fault kdFault `json:"fault"`
}

func (c kdCase) group() string { return fmt.Sprintf("q%d/n%d/t%d/%v", c.Q, c.N, c.T, c.Ids) }
func (c kdCase) id() string {
	return fmt.Sprintf("%s/seed%d/%s.%d>%d.%d", c.group(), c.Seed, c.Fault.Kind, c.Fault.From, c.Fault.To, c.Fault.Idx)
}

type kdR3 struct {
	Out      string `json:"out"` // ok | abort | panic | none
	X        int    `json:"x"`
	BigX     []int  `json:"bigx"`
	Y        int    `json:"y"`
	Culprits []int  `json:"culprits"`
	Detail   string `json:"-"`
	ErrRound int    `json:"-"`
}

type kdRun struct {
	Case   kdCase
	Polys  [][]int // [party][coef] discrete logs of the dealer's own commitments
	Shares [][]int // [from][to] as sent (0 for from = to)
	R3     []kdR3
	Skip   string // run not usable as a trace (a dealer published a point outside the group...)
}

// hexZ encodes a non-negative integer for tamper specs (zero as one zero byte: an empty element would vanish)
func hexZ(v *big.Int) string {
	if v.Sign() == 0 {
		return "00"
	}
	return hex.EncodeToString(v.Bytes())
}

func modq(a, q int) int { a %= q; if a < 0 { a += q }; return a }

func evalPoly(c []int, x int64, q int) int {
	r := 0
	xm := int(x % int64(q))
	for i := len(c) - 1; i >= 0; i-- {
		r = modq(r*xm+c[i], q)
	}
	return r
}

// execKD runs one real ECDSA key generation on the toy curve of order c.Q.
func execKD(c kdCase) (*kdRun, error) {
	cv, err := toy.Find(c.Q)
	if err != nil {
		return nil, err
	}
	pp, err := pump.PreParams(c.N)
	if err != nil {
		return nil, err
	}
	var keys []*big.Int
	for _, k := range c.Ids {
		keys = append(keys, big.NewInt(k))
	}
	cfg := pump.Config{Proto: pump.EcKeygen, N: c.N, T: c.T, PreParams: pp, Seed: c.Seed, Curve: cv.EC(), PartyKeys: keys}
	s, err := pump.New(cfg, nil)
	if err != nil {
		return nil, err
	}
	rng := rand.New(rand.NewSource(c.Seed))
	f := c.Fault
	// the dealer's crafted commitment for the "commit" fault is built when its de-commitment is first seen
	var craftedC, craftedD []byte
	shiftOpen := func(wire []byte) ([]byte, error) {
		// coordinates of commitment f.Idx sit at positions 1+2(idx-1), 2+2(idx-1) of the de-commitment (position 0 is r)
		xb, err := tamper.Get(wire, "de_commitment", 1+2*(f.Idx-1))
		if err != nil {
			return nil, err
		}
		yb, err := tamper.Get(wire, "de_commitment", 2+2*(f.Idx-1))
		if err != nil {
			return nil, err
		}
		k, ok := cv.Dlog(new(big.Int).SetBytes(xb), new(big.Int).SetBytes(yb))
		if !ok {
			return nil, fmt.Errorf("dealer's commitment is not a group element")
		}
		nx, ny := big.NewInt(0), big.NewInt(0) // the identity has no affine form: (0,0) is refused by every door
		if x2, y2, ok := cv.XY(k + f.Delta); ok {
			nx, ny = x2, y2
		}
		w, _, err := tamper.Apply(wire, tamper.Spec{Field: "de_commitment", Index: 1 + 2*(f.Idx-1), Kind: "set", Hex: hexZ(nx)}, rng, nil)
		if err != nil {
			return nil, err
		}
		w, _, err = tamper.Apply(w, tamper.Spec{Field: "de_commitment", Index: 2 + 2*(f.Idx-1), Kind: "set", Hex: hexZ(ny)}, rng, nil)
		return w, err
	}
	var mutErr error
	s.Mutate = func(it *pump.Item) []byte {
		if f.Kind == "none" || it.From.G != f.From {
			return nil
		}
		switch f.Kind {
		case "share":
			if it.Msg.Type == "KGRound2Message1" && it.To.G == f.To {
				b, err := tamper.Get(it.Wire, "share", 0)
				if err != nil {
					mutErr = err
					return nil
				}
				v := new(big.Int).Add(new(big.Int).SetBytes(b), big.NewInt(int64(f.Delta)))
				w, _, err := tamper.Apply(it.Wire, tamper.Spec{Field: "share", Kind: "set", Hex: hexZ(v)}, rng, nil)
				if err != nil {
					mutErr = err
					return nil
				}
				return w
			}
		case "open":
			if it.Msg.Type == "KGRound2Message2" && it.To.G == f.To {
				w, err := shiftOpen(it.Wire)
				if err != nil {
					mutErr = err
					return nil
				}
				return w
			}
		case "commit":
			// consistent deviation: the commitment of round 1 is replaced by the commitment to the shifted tuple (same
			// randomness), the opening of round 2 by the shifted tuple
			if craftedC == nil {
				// find the dealer's de-commitment among everything sent so far; round 1 messages are delivered before it
				// exists, so the round-1 replacement is computed from the dealer's deterministic second run below
				return nil
			}
			if it.Msg.Type == "KGRound1Message" {
				w, _, err := tamper.Apply(it.Wire, tamper.Spec{Field: "commitment", Kind: "set", Hex: hex.EncodeToString(craftedC)}, rng, nil)
				if err != nil {
					mutErr = err
					return nil
				}
				return w
			}
			if it.Msg.Type == "KGRound2Message2" {
				w, _, err := tamper.Apply(it.Wire, tamper.Spec{Field: "de_commitment", Kind: "setlist", Hex: string(craftedD)}, rng, nil)
				if err != nil {
					mutErr = err
					return nil
				}
				return w
			}
		}
		return nil
	}
	if f.Kind == "commit" {
		// The dealer's messages are a function of the seed: a first, unaltered run of the same configuration reveals the
		// de-commitment the dealer will send, from which the shifted tuple and its commitment are computed.
		pre, err := execKD(kdCase{Q: c.Q, N: c.N, T: c.T, Ids: c.Ids, Seed: c.Seed, Fault: kdFault{Kind: "none"}})
		if err != nil {
			return nil, err
		}
		if pre.Skip != "" {
			return &kdRun{Case: c, Skip: "pre-run: " + pre.Skip}, nil
		}
		preMu.Lock()
		open := preOpen[preKey(c)][f.From]
		preMu.Unlock()
		if open == nil {
			return &kdRun{Case: c, Skip: "pre-run has no de-commitment of the dealer"}, nil
		}
		vals := make([]*big.Int, len(open))
		for i := range open {
			vals[i] = new(big.Int).Set(open[i])
		}
		k, ok := cv.Dlog(vals[1+2*(f.Idx-1)], vals[2+2*(f.Idx-1)])
		if !ok {
			return &kdRun{Case: c, Skip: "dealer's commitment is not a group element"}, nil
		}
		nx, ny := big.NewInt(0), big.NewInt(0)
		if x2, y2, ok := cv.XY(k + f.Delta); ok {
			nx, ny = x2, y2
		}
		vals[1+2*(f.Idx-1)], vals[2+2*(f.Idx-1)] = nx, ny
		cm := commitments.NewHashCommitmentWithRandomness(vals[0], vals[1:]...)
		craftedC = cm.C.Bytes()
		var hs []string
		for _, v := range vals {
			hs = append(hs, hexZ(v))
		}
		craftedD = []byte(strings.Join(hs, ","))
	}
	st, _ := pump.StrategyByName("fifo")
	s.Run(st, rand.New(rand.NewSource(c.Seed)), 100000)
	if mutErr != nil {
		return nil, fmt.Errorf("fault injection: %v", mutErr)
	}
	run := &kdRun{Case: c, Polys: make([][]int, c.N), Shares: make([][]int, c.N), R3: make([]kdR3, c.N)}
	for i := range run.Shares {
		run.Shares[i] = make([]int, c.N)
	}
	opens := map[int][]*big.Int{}
	for _, it := range s.All {
		p := it.From.G - 1
		switch it.Msg.Type {
		case "KGRound2Message1":
			b, err := tamper.Get(it.Wire, "share", 0)
			if err != nil {
				return nil, err
			}
			v := new(big.Int).SetBytes(b)
			if !v.IsInt64() || v.Int64() >= int64(c.Q) {
				return &kdRun{Case: c, Skip: fmt.Sprintf("party %d dealt a share outside [0,Q)", p+1)}, nil
			}
			run.Shares[p][it.To.G-1] = int(v.Int64())
		case "KGRound2Message2":
			if run.Polys[p] != nil {
				continue
			}
			var vals []*big.Int
			for i := 0; ; i++ {
				b, err := tamper.Get(it.Wire, "de_commitment", i)
				if err != nil {
					break
				}
				vals = append(vals, new(big.Int).SetBytes(b))
			}
			if len(vals) != 1+2*(c.T+1) {
				return &kdRun{Case: c, Skip: fmt.Sprintf("party %d opened %d values", p+1, len(vals))}, nil
			}
			for _, v := range vals[1:] {
				if v.Sign() == 0 {
					// a coordinate 0 is the empty byte string on the wire, which the message validation refuses: a toy-group
					// artefact (probability about 2/Q per point)
					return &kdRun{Case: c, Skip: fmt.Sprintf("party %d published a point with a zero coordinate", p+1)}, nil
				}
			}
			opens[p+1] = vals
			pl := make([]int, c.T+1)
			for k := 0; k <= c.T; k++ {
				d, ok := cv.Dlog(vals[1+2*k], vals[2+2*k])
				if !ok {
					return &kdRun{Case: c, Skip: fmt.Sprintf("party %d published a point outside the group", p+1)}, nil
				}
				pl[k] = d
			}
			run.Polys[p] = pl
		}
	}
	if f.Kind == "none" {
		preMu.Lock()
		preOpen[preKey(c)] = opens
		preMu.Unlock()
	}
	for p := 0; p < c.N; p++ {
		if run.Polys[p] == nil {
			// the party never reached round 2 (a panic or error in round 1: e.g. a zero coefficient cannot be published)
			why := ""
			for _, n := range s.Nodes {
				if n.Panic != "" {
					why += fmt.Sprintf(" [party %d panic at %s: %s]", n.G, crashSite(n.Panic), core.Short(n.Panic, 80))
				} else if n.Err != nil {
					why += fmt.Sprintf(" [party %d error: %s]", n.G, core.Short(n.Err.Error(), 200))
				}
			}
			return &kdRun{Case: c, Skip: fmt.Sprintf("party %d never opened its commitment%s", p+1, why)}, nil
		}
	}
	for _, n := range s.Nodes {
		r := kdR3{Out: "none", BigX: []int{}, Culprits: []int{}}
		switch {
		case n.Panic != "":
			r.Out = "panic"
			r.Detail = core.Short(n.Panic, 300)
		case n.Err != nil:
			r.Out = "abort"
			r.Detail = core.Short(n.Err.Error(), 300)
			r.ErrRound = n.Err.Round()
			seen := map[int]bool{}
			for _, cu := range n.Err.Culprits() {
				if cu == nil {
					continue
				}
				for _, m := range s.Nodes {
					if m.PID.KeyInt().Cmp(cu.KeyInt()) == 0 && !seen[m.G] {
						seen[m.G] = true
						r.Culprits = append(r.Culprits, m.G)
					}
				}
			}
			sort.Ints(r.Culprits)
		case len(n.Results) == 1:
			sd := n.Results[0].(*eckg.LocalPartySaveData)
			r.Out = "ok"
			if sd.Xi == nil || sd.Xi.Sign() < 0 {
				r.X = -1
			} else {
				r.X = int(new(big.Int).Mod(sd.Xi, big.NewInt(int64(c.Q))).Int64()) // any representative of the residue class
			}
			for _, bx := range sd.BigXj {
				d := -1
				if bx != nil {
					if k, ok := cv.Dlog(bx.X(), bx.Y()); ok {
						d = k
					}
				}
				r.BigX = append(r.BigX, d)
			}
			r.Y = -1
			if sd.ECDSAPub != nil {
				if k, ok := cv.Dlog(sd.ECDSAPub.X(), sd.ECDSAPub.Y()); ok {
					r.Y = k
				}
			}
		}
		run.R3[n.G-1] = r
	}
	return run, nil
}

var (
	preMu   sync.Mutex
	preOpen = map[string]map[int][]*big.Int{}
)

func preKey(c kdCase) string { return fmt.Sprintf("%s/%d", c.group(), c.Seed) }

// kdExpect evaluates the formulas of KeygenData.tla in Go: the outcome of party j's round 3.
type kdExpect struct {
	Out      string // ok | abort | degenerate
	X, Y     int
	BigX     []int
	Culprits []int
}

func kdPredict(run *kdRun, j int) kdExpect {
	c := run.Case
	q, f := c.Q, c.Fault
	committed := func(i int) []int {
		v := append([]int(nil), run.Polys[i-1]...)
		if f.Kind == "commit" && f.From == i {
			v[f.Idx-1] = modq(v[f.Idx-1]+f.Delta, q)
		}
		return v
	}
	openRecv := func(i int) []int {
		v := committed(i)
		if f.Kind == "open" && f.From == i && f.To == j {
			v[f.Idx-1] = modq(v[f.Idx-1]+f.Delta, q)
		}
		return v
	}
	shareRecv := func(i int) int {
		v := run.Shares[i-1][j-1]
		if f.Kind == "share" && f.From == i && f.To == j {
			v += f.Delta
		}
		return v
	}
	var e kdExpect
	for i := 1; i <= c.N; i++ {
		if i == j {
			continue
		}
		o, cm := openRecv(i), committed(i)
		bad := false
		for k := range o {
			if o[k] != cm[k] || o[k] == 0 {
				bad = true
			}
		}
		sh := shareRecv(i)
		if modq(sh, q) == 0 || modq(sh, q) != evalPoly(o, c.Ids[j-1], q) {
			bad = true
		}
		if bad {
			e.Culprits = append(e.Culprits, i)
		}
	}
	if len(e.Culprits) > 0 {
		e.Out = "abort"
		return e
	}
	// combination, own values first (the order in which the code adds)
	order := []int{j}
	for i := 1; i <= c.N; i++ {
		if i != j {
			order = append(order, i)
		}
	}
	vc := make([]int, c.T+1)
	degenerate := false
	for k := 0; k <= c.T; k++ {
		acc := 0
		for _, i := range order {
			v := run.Polys[j-1][k]
			if i != j {
				v = openRecv(i)[k]
			}
			acc = modq(acc+v, q)
			if acc == 0 {
				degenerate = true
			}
		}
		vc[k] = acc
	}
	x := evalPoly(run.Polys[j-1], c.Ids[j-1], q)
	for i := 1; i <= c.N; i++ {
		if i != j {
			x = modq(x+shareRecv(i), q)
		}
	}
	if x == 0 {
		degenerate = true
	}
	e.BigX = make([]int, c.N)
	for k := 1; k <= c.N; k++ {
		id := int(c.Ids[k-1] % int64(q))
		acc, pw := 0, 1
		for cI := 0; cI <= c.T; cI++ {
			term := modq(vc[cI]*pw, q)
			if term == 0 {
				degenerate = true
			}
			acc = modq(acc+term, q)
			if acc == 0 {
				degenerate = true
			}
			pw = modq(pw*id, q)
		}
		e.BigX[k-1] = acc
	}
	if degenerate {
		e.Out = "degenerate"
		return e
	}
	e.Out, e.X, e.Y = "ok", x, vc[0]
	return e
}

func kdPlan(ctx *core.Ctx, faults bool) []kdCase {
	type shape struct {
		q, n, t int
		ids     []int64
	}
	shapes := []shape{{251, 3, 1, []int64{1, 2, 3}}, {11, 2, 1, []int64{1, 13}}, {23, 3, 2, []int64{2, 5, 30}}}
	reps := 2
	if ctx.Thorough() {
		shapes = append(shapes, shape{251, 4, 2, []int64{1, 2, 3, 260}}, shape{7, 3, 1, []int64{1, 2, 10}}, shape{227, 5, 3, []int64{3, 4, 5, 6, 7}}, shape{5, 2, 1, []int64{1, 7}})
		reps = 6
	}
	var out []kdCase
	for si, sh := range shapes {
		for r := 0; r < reps; r++ {
			seed := ctx.Seed*5003 + int64(si*100+r) + 1
			if !faults {
				out = append(out, kdCase{Q: sh.q, N: sh.n, T: sh.t, Ids: sh.ids, Seed: seed, Fault: kdFault{Kind: "none"}})
				continue
			}
			// one fault of each kind per repetition, positions rotating
			from := 1 + (r+si)%sh.n
			to := 1 + (r+si+1)%sh.n
			idx := 1 + (r+si)%(sh.t+1)
			out = append(out,
				kdCase{Q: sh.q, N: sh.n, T: sh.t, Ids: sh.ids, Seed: seed, Fault: kdFault{Kind: "share", From: from, To: to, Delta: 1}},
				kdCase{Q: sh.q, N: sh.n, T: sh.t, Ids: sh.ids, Seed: seed, Fault: kdFault{Kind: "open", From: to, To: from, Idx: idx, Delta: 1}},
				kdCase{Q: sh.q, N: sh.n, T: sh.t, Ids: sh.ids, Seed: seed, Fault: kdFault{Kind: "commit", From: from, Idx: idx, Delta: 1}})
		}
	}
	return out
}

// kdModelCheck runs TLC on KeygenData.tla for small configurations.
func kdModelCheck(ctx *core.Ctx, cov *core.Cov) error {
	type inst struct {
		q, n, t int
		ids     string
		faults  bool
	}
	insts := []inst{{5, 2, 1, "<<1, 7>>", true}, {7, 2, 1, "<<3, 5>>", true}}
	if ctx.Thorough() {
		insts = append(insts, inst{5, 3, 1, "<<1, 2, 8>>", true}, inst{5, 3, 2, "<<4, 2, 6>>", false})
	}
	for _, in := range insts {
		wrap := fmt.Sprintf("---- MODULE MC_KeygenData ----\nEXTENDS KeygenData\nIdsVal == %s\n====\n", in.ids)
		cfg := fmt.Sprintf("SPECIFICATION Spec\nCONSTANTS\n  Q = %d\n  N = %d\n  T = %d\n  Ids <- IdsVal\n  WithFaults = %v\n", in.q, in.n, in.t, strings.ToUpper(fmt.Sprint(in.faults))) +
			"INVARIANTS TypeOK SameView OwnShareMatches OnePolynomial NoContributionDropped AnySubsetReconstructs HonestCompletes NoSilentAccept BlameExact\nCHECK_DEADLOCK FALSE\n"
		r := tlc.Run(tlc.Options{Module: "MC_KeygenData", Cfg: cfg, Files: map[string]string{"MC_KeygenData.tla": wrap}, Workers: 4, Heap: "3g", Timeout: 25 * time.Minute})
		if r.Err != nil {
			ctx.Note("KeygenData.tla instance q=%d n=%d t=%d not finished: %v", in.q, in.n, in.t, r.Err)
			cov.Add("model_instances_not_finished", 1)
			continue
		}
		if !r.OK {
			return core.Inconcl("KeygenData.tla violates %s for q=%d n=%d t=%d (design-level counterexample):\n%s", r.Violated, in.q, in.n, in.t, r.ErrorTrace(2000))
		}
		cov.AddMC(r.Distinct, r.Generated)
		cov.Add("keygendata_model_instances", 1)
	}
	return nil
}

// kdPhase runs the toy-curve key generations, judges them and validates their traces.
// prop is "C03" (honest runs) or "C05" (one transport fault per run).
func kdPhase(ctx *core.Ctx, cov *core.Cov, prop string) error {
	faults := prop == "C05"
	plan := kdPlan(ctx, faults)
	runs := make([]*kdRun, len(plan))
	errs := make([]error, len(plan))
	var wg sync.WaitGroup
	sem := make(chan struct{}, 8)
	var mcErr error
	wg.Add(1)
	go func() { defer wg.Done(); mcErr = kdModelCheck(ctx, cov) }()
	for i, c := range plan {
		wg.Add(1)
		go func(i int, c kdCase) {
			defer wg.Done()
			sem <- struct{}{}
			defer func() { <-sem }()
			runs[i], errs[i] = execKD(c)
		}(i, c)
	}
	wg.Wait()
	if mcErr != nil {
		return mcErr
	}
	for i, e := range errs {
		if e != nil {
			return core.Inconcl("toy key generation %s: %v", plan[i].id(), e)
		}
	}
	// judge with the Go evaluation of the specification's formulas; build the traces
	groups := map[string][]map[string]any{}
	groupCase := map[string]kdCase{}
	usable, degenerate := 0, 0
	for _, run := range runs {
		c := run.Case
		if run.Skip != "" {
			ctx.Note("toy key generation %s not usable as a trace: %s", c.id(), run.Skip)
			cov.Add("toy_keygen_runs_skipped", 1)
			continue
		}
		key := fmt.Sprintf("%s:toy-data", prop)
		badModel := false
		var lines []map[string]any
		lines = append(lines, map[string]any{"ev": "Reset", "q": c.Q, "n": c.N, "t": c.T, "ids": c.Ids, "polys": run.Polys,
			"fault": map[string]any{"kind": c.Fault.Kind, "from": c.Fault.From, "to": c.Fault.To, "idx": c.Fault.Idx, "delta": c.Fault.Delta}})
		for p := 1; p <= c.N; p++ {
			lines = append(lines, map[string]any{"ev": "R1", "p": p})
		}
		for p := 1; p <= c.N; p++ {
			lines = append(lines, map[string]any{"ev": "R2", "p": p, "shares": run.Shares[p-1], "open": run.Polys[p-1]})
			// the dealt shares are the values of the published polynomial (honest dealers: a C03 matter in every run)
			for j := 1; j <= c.N; j++ {
				if j != p && run.Shares[p-1][j-1] != evalPoly(run.Polys[p-1], c.Ids[j-1], c.Q) {
					ctx.Report(key+":share-not-on-published-polynomial", fmt.Sprintf("%s: party %d sent party %d the share %d, its published commitments evaluate to %d at that party's id",
						c.id(), p, j, run.Shares[p-1][j-1], evalPoly(run.Polys[p-1], c.Ids[j-1], c.Q)), c)
					badModel = true
				}
			}
		}
		for p := 1; p <= c.N; p++ {
			got := run.R3[p-1]
			want := kdPredict(run, p)
			lines = append(lines, map[string]any{"ev": "R3", "p": p, "out": got.Out, "x": got.X, "bigx": got.BigX, "y": got.Y, "culprits": got.Culprits, "pred": want.Out})
			if faults && p == c.Fault.From {
				// the deviating party's own result is not judged; if it stopped for a reason the model does not name (a toy-group
				// artefact) the run cannot be offered to TLC either
				if want.Out == "ok" && (got.Out == "abort" || got.Out == "panic") {
					ctx.Note("drift: %s: the deviating party itself stopped (%s %s, culprits %v) although the model lets it finish", c.id(), got.Out, got.Detail, got.Culprits)
					cov.Add("toy_runs_stopped_for_unmodelled_reasons", 1)
					badModel = true
				}
				continue
			}
			switch want.Out {
			case "degenerate":
				degenerate++
				if got.Out == "ok" {
					ctx.Note("%s: party %d finished although an intermediate point is the identity in the model (drift)", c.id(), p)
					badModel = true
				}
			case "ok":
				switch {
				case got.Out == "none" && faults:
					// its round 3 went through, but the result is only emitted in round 4, which needs the round-3 message
					// of the party that aborted: nothing to compare
				case got.Out != "ok":
					// the properties speak about runs that complete (C03) and about what an altered value may cause (C05): a toy
					// run that stops for another reason (a degenerate value of the tiny group the model does not name) is drift
					ctx.Note("drift: %s: party %d did not finish although the model lets it finish: %s %s (culprits %v)", c.id(), p, got.Out, got.Detail, got.Culprits)
					cov.Add("toy_runs_stopped_for_unmodelled_reasons", 1)
					badModel = true
				case got.X != want.X:
					ctx.Report(key+":secret-share", fmt.Sprintf("%s: party %d saved the secret share %d, the dealt shares sum to %d", c.id(), p, got.X, want.X), c)
					badModel = true
				case got.Y != want.Y:
					ctx.Report(key+":group-key", fmt.Sprintf("%s: party %d saved the group key %d*G, the contributions sum to %d*G", c.id(), p, got.Y, want.Y), c)
					badModel = true
				case fmt.Sprint(got.BigX) != fmt.Sprint(want.BigX):
					ctx.Report(key+":public-share-points", fmt.Sprintf("%s: party %d saved the public share points %v (discrete logs), the published commitments give %v", c.id(), p, got.BigX, want.BigX), c)
					badModel = true
				}
			case "abort":
				switch {
				case got.Out == "ok":
					ctx.Report(key+":silent-accept", fmt.Sprintf("%s: party %d was handed an altered value (model culprits %v) and still finished", c.id(), p, want.Culprits), c)
					badModel = true
				case got.Out == "abort" && fmt.Sprint(got.Culprits) != fmt.Sprint(want.Culprits):
					zero := false
					for i := 1; i <= c.N; i++ {
						if i != p && run.Shares[i-1][p-1]%c.Q == 0 {
							zero = true
						}
					}
					named := false
					for _, g := range got.Culprits {
						for _, w := range want.Culprits {
							if g == w {
								named = true
							}
						}
					}
					// in a toy group a further, honest dealer can fail the check for a reason the model does not name (an
					// identity point in the middle of the verification): judged here is only whether the sender of the altered
					// value is named; attribution to honest parties at real size is judged by the fault catalogue
					if !faults || zero || got.ErrRound != 3 || named {
						ctx.Note("drift: %s: party %d aborts in round %d naming %v, the model names %v in round 3 (a degenerate toy value or an earlier stop: outside the properties)", c.id(), p, got.ErrRound, got.Culprits, want.Culprits)
					} else {
						ctx.Report(key+":blame", fmt.Sprintf("%s: party %d names %v, the altered value came from %v (%s)", c.id(), p, got.Culprits, want.Culprits, got.Detail), c)
					}
					badModel = true
				case got.Out == "panic":
					ctx.Note("drift (a crash is a C06 matter; in a toy group an identity point may cause it): %s", fmt.Sprintf("%s: party %d panicked on an altered value: %s", c.id(), p, got.Detail))
					badModel = true
				}
			}
		}
		cov.Case("toy|"+c.id(), true)
		if badModel {
			continue // already judged (or drift): such a run is not offered to TLC
		}
		usable++
		groups[c.group()] = append(groups[c.group()], lines...)
		groupCase[c.group()] = c
	}
	cov.Set("toy_keygen_runs", len(runs))
	cov.Set("toy_keygen_runs_with_an_identity_point", degenerate)
	// trace validation, one TLC run per (Q, N, T, ids); with a corrupted copy as self-test of the binding
	var gnames []string
	for g := range groups {
		gnames = append(gnames, g)
	}
	sort.Strings(gnames)
	for gi, g := range gnames {
		c := groupCase[g]
		lines := groups[g]
		ok, hw, viol, err := kdValidate(c, lines)
		if err != nil {
			// the verdicts of this phase come from the Go evaluation above; a trace run that TLC could not finish leaves the
			// binding of these runs unconfirmed, which the evidence says (toy_trace_groups_not_validated)
			ctx.Note("binding not confirmed: KeygenData_Trace (%s): %v", g, err)
			cov.Add("toy_trace_groups_not_validated", 1)
			continue
		}
		if !ok {
			ctx.Note("binding not confirmed: KeygenData_Trace does not explain line %d of %d of group %s (%s) although the Go evaluation of the same formulas found nothing (a toy-group case the model does not name): %v",
				hw+1, len(lines), g, viol, lines[minInt(hw, len(lines)-1)])
			cov.Add("toy_trace_groups_not_validated", 1)
			continue
		}
		cov.AddTraces(countResets(lines))
		if gi == 0 {
			// self-test: one logged value changed must be rejected
			bad := make([]map[string]any, len(lines))
			copy(bad, lines)
			changed := false
			for i, l := range bad {
				if l["ev"] == "R3" && ((l["out"] == "ok" && l["pred"] == "ok") || (l["out"] == "abort" && l["pred"] == "abort")) {
					m := map[string]any{}
					for k, v := range l {
						m[k] = v
					}
					if l["out"] == "ok" {
						m["x"] = (l["x"].(int) + 1) % c.Q // a falsified secret share
					} else {
						m["culprits"] = []int{} // a falsified attribution
					}
					bad[i] = m
					changed = true
					break
				}
			}
			if changed {
				ok2, _, _, err := kdValidate(c, bad)
				if err != nil {
					return core.Inconcl("KeygenData_Trace self-test: %v", err)
				}
				if ok2 {
					return core.Inconcl("KeygenData_Trace accepted a trace with a falsified secret share / attribution: the binding is vacuous")
				}
				cov.Add("toy_trace_selftests_rejected", 1)
			}
		}
	}
	cov.Set("toy_keygen_runs_validated_by_tlc", usable)
	return nil
}

func countResets(lines []map[string]any) int {
	n := 0
	for _, l := range lines {
		if l["ev"] == "Reset" {
			n++
		}
	}
	return n
}

func kdValidate(c kdCase, lines []map[string]any) (ok bool, hw int, violated string, err error) {
	tmp := os.Getenv("VERIF_TMP")
	if tmp == "" {
		tmp = os.TempDir()
	}
	f, err := os.CreateTemp(tmp, "verif-kd-*.ndjson")
	if err != nil {
		return false, 0, "", err
	}
	defer os.Remove(f.Name())
	enc := json.NewEncoder(f)
	for _, l := range lines {
		if err := enc.Encode(l); err != nil {
			return false, 0, "", err
		}
	}
	f.Close()
	var ids []string
	for _, k := range c.Ids {
		ids = append(ids, fmt.Sprint(k))
	}
	wrap := fmt.Sprintf("---- MODULE MC_KeygenData_Trace ----\nEXTENDS KeygenData_Trace\nIdsVal == <<%s>>\n====\n", strings.Join(ids, ", "))
	cfg := fmt.Sprintf("SPECIFICATION TraceSpec\nCONSTANTS\n  Q = %d\n  N = %d\n  T = %d\n  Ids <- IdsVal\n  WithFaults = TRUE\n", c.Q, c.N, c.T) +
		"INVARIANTS TraceInv\nCONSTRAINT HighWater\nPOSTCONDITION TraceAccepted\nCHECK_DEADLOCK FALSE\n"
	abs, _ := filepath.Abs(f.Name())
	r := tlc.Run(tlc.Options{Module: "MC_KeygenData_Trace", Cfg: cfg, Files: map[string]string{"MC_KeygenData_Trace.tla": wrap},
		Env: map[string]string{"TRACE": abs}, Workers: 1, Timeout: 15 * time.Minute})
	if r.Err != nil {
		return false, 0, "", r.Err
	}
	return r.OK && r.HW == len(lines), r.HW, r.Violated, nil
}
