package props

import (
	"bytes"
	"fmt"
	"math/big"

	"github.com/bnb-chain/tss-lib/v2/common"
	"github.com/bnb-chain/tss-lib/v2/crypto"
	eckg "github.com/bnb-chain/tss-lib/v2/ecdsa/keygen"
	edkg "github.com/bnb-chain/tss-lib/v2/eddsa/keygen"

	"verif/harness/obs"
	"verif/harness/pump"
)

func pt(p *crypto.ECPoint) obs.Pt {
	if p == nil {
		return obs.Pt{Inf: true}
	}
	return obs.Pt{X: p.X(), Y: p.Y()}
}

// lagrangeAt returns coefficients l_i with sum l_i f(x_i) = f(x) mod q.
func lagrangeAt(xs []*big.Int, x, q *big.Int) ([]*big.Int, error) {
	out := make([]*big.Int, len(xs))
	for i := range xs {
		num, den := big.NewInt(1), big.NewInt(1)
		for j := range xs {
			if i == j {
				continue
			}
			a := new(big.Int).Sub(x, xs[j])
			num.Mul(num, a.Mod(a, q)).Mod(num, q)
			d := new(big.Int).Sub(xs[i], xs[j])
			den.Mul(den, d.Mod(d, q)).Mod(den, q)
		}
		inv := new(big.Int).ModInverse(den, q)
		if inv == nil {
			return nil, fmt.Errorf("ids collide modulo the group order")
		}
		out[i] = num.Mul(num, inv).Mod(num, q)
	}
	return out, nil
}

func subsets(n, k int) [][]int {
	var res [][]int
	var rec func(start int, cur []int)
	rec = func(start int, cur []int) {
		if len(cur) == k {
			res = append(res, append([]int(nil), cur...))
			return
		}
		for i := start; i < n; i++ {
			rec(i+1, append(cur, i))
		}
	}
	rec(0, nil)
	return res
}

// ShareView is the curve independent part of a party's key data.
type ShareView struct {
	Xi, ShareID *big.Int
	Ks          []*big.Int
	BigXj       []obs.Pt
	Pub         obs.Pt
}

func edView(k *edkg.LocalPartySaveData) ShareView {
	v := ShareView{Xi: k.Xi, ShareID: k.ShareID, Ks: k.Ks, Pub: pt(k.EDDSAPub)}
	for _, p := range k.BigXj {
		v.BigXj = append(v.BigXj, pt(p))
	}
	return v
}

func ecView(k *eckg.LocalPartySaveData) ShareView {
	v := ShareView{Xi: k.Xi, ShareID: k.ShareID, Ks: k.Ks, Pub: pt(k.ECDSAPub)}
	for _, p := range k.BigXj {
		v.BigXj = append(v.BigXj, pt(p))
	}
	return v
}

// SharingOracle checks the C03 predicates on the views of all n parties of a (t,n) sharing.
// It returns "" when they hold, else a description of the first failure.
func SharingOracle(g obs.Group, views []ShareView, t int) string {
	n := len(views)
	q := g.Order()
	ref := views[0]
	if ref.Pub.Inf || !g.OnCurve(ref.Pub) {
		return "group public key is not a curve point"
	}
	if len(ref.Ks) != n || len(ref.BigXj) != n {
		return fmt.Sprintf("party 1 holds %d ids and %d public shares for %d parties", len(ref.Ks), len(ref.BigXj), n)
	}
	for i, v := range views {
		if !v.Pub.Eq(ref.Pub) {
			return fmt.Sprintf("party %d holds a different group public key than party 1", i+1)
		}
		if len(v.Ks) != n || len(v.BigXj) != n {
			return fmt.Sprintf("party %d holds %d ids / %d public shares for %d parties", i+1, len(v.Ks), len(v.BigXj), n)
		}
		for j := range v.Ks {
			if v.Ks[j] == nil || v.Ks[j].Cmp(ref.Ks[j]) != 0 {
				return fmt.Sprintf("party %d records a different share id for party %d", i+1, j+1)
			}
			if !v.BigXj[j].Eq(ref.BigXj[j]) {
				return fmt.Sprintf("party %d records a different public share point for party %d", i+1, j+1)
			}
		}
		if v.ShareID == nil || v.ShareID.Cmp(ref.Ks[i]) != 0 {
			return fmt.Sprintf("party %d: ShareID differs from Ks[%d]", i+1, i)
		}
		if v.Xi == nil {
			return fmt.Sprintf("party %d has no secret share", i+1)
		}
		if !obs.BaseMul(g, new(big.Int).Mod(v.Xi, q)).Eq(ref.BigXj[i]) {
			return fmt.Sprintf("party %d: Xi*G differs from its public share point", i+1)
		}
	}
	for j := range ref.BigXj {
		if !g.OnCurve(ref.BigXj[j]) {
			return fmt.Sprintf("public share point %d is not on the curve", j+1)
		}
	}
	// the first t+1 points determine a polynomial of degree <= t in the exponent; all others must lie on it
	base := make([]int, t+1)
	for i := range base {
		base[i] = i
	}
	xs := make([]*big.Int, t+1)
	for i, b := range base {
		xs[i] = ref.Ks[b]
	}
	for j := t + 1; j < n; j++ {
		lam, err := lagrangeAt(xs, ref.Ks[j], q)
		if err != nil {
			return err.Error()
		}
		acc := g.Identity()
		for i, b := range base {
			acc = g.Add(acc, obs.Mul(g, lam[i], ref.BigXj[b]))
		}
		if !acc.Eq(ref.BigXj[j]) {
			return fmt.Sprintf("public share point %d does not lie on the degree-%d polynomial through the first %d", j+1, t, t+1)
		}
	}
	// every (t+1)-subset interpolates, in the exponent and over the secret shares, to the one key
	zero := big.NewInt(0)
	for _, sub := range subsets(n, t+1) {
		xs := make([]*big.Int, len(sub))
		for i, b := range sub {
			xs[i] = ref.Ks[b]
		}
		lam, err := lagrangeAt(xs, zero, q)
		if err != nil {
			return err.Error()
		}
		acc := g.Identity()
		x := big.NewInt(0)
		for i, b := range sub {
			acc = g.Add(acc, obs.Mul(g, lam[i], ref.BigXj[b]))
			x.Add(x, new(big.Int).Mul(lam[i], views[b].Xi))
		}
		if !acc.Eq(ref.Pub) {
			return fmt.Sprintf("public share points of subset %v do not interpolate to the group public key", sub)
		}
		if !obs.BaseMul(g, x.Mod(x, q)).Eq(ref.Pub) {
			return fmt.Sprintf("secret shares of subset %v do not interpolate to the private key of the group public key", sub)
		}
	}
	return ""
}

// ecExtraOracle checks the ECDSA specific public view and the Paillier key consistency.
func ecExtraOracle(keys []*eckg.LocalPartySaveData) string {
	n := len(keys)
	ref := keys[0]
	for i, k := range keys {
		if len(k.PaillierPKs) != n || len(k.NTildej) != n || len(k.H1j) != n || len(k.H2j) != n {
			return fmt.Sprintf("party %d: auxiliary vectors have the wrong length", i+1)
		}
		for j := 0; j < n; j++ {
			if k.PaillierPKs[j] == nil || ref.PaillierPKs[j] == nil || k.PaillierPKs[j].N.Cmp(ref.PaillierPKs[j].N) != 0 {
				return fmt.Sprintf("party %d records a different Paillier modulus for party %d", i+1, j+1)
			}
			if k.NTildej[j] == nil || k.NTildej[j].Cmp(ref.NTildej[j]) != 0 || k.H1j[j].Cmp(ref.H1j[j]) != 0 || k.H2j[j].Cmp(ref.H2j[j]) != 0 {
				return fmt.Sprintf("party %d records different ring-Pedersen parameters for party %d", i+1, j+1)
			}
		}
		sk := k.PaillierSK
		if sk == nil || sk.N == nil || sk.P == nil || sk.Q == nil {
			return fmt.Sprintf("party %d has no Paillier private key", i+1)
		}
		if sk.N.Cmp(ref.PaillierPKs[i].N) != 0 {
			return fmt.Sprintf("party %d: Paillier private key modulus differs from the modulus the others recorded for it", i+1)
		}
		if new(big.Int).Mul(sk.P, sk.Q).Cmp(sk.N) != 0 {
			return fmt.Sprintf("party %d: Paillier P*Q != N", i+1)
		}
		pm, qm := new(big.Int).Sub(sk.P, big.NewInt(1)), new(big.Int).Sub(sk.Q, big.NewInt(1))
		phi := new(big.Int).Mul(pm, qm)
		lam := new(big.Int).Div(phi, new(big.Int).GCD(nil, nil, pm, qm))
		if sk.PhiN.Cmp(phi) != 0 || sk.LambdaN.Cmp(lam) != 0 {
			return fmt.Sprintf("party %d: Paillier phi/lambda inconsistent with P,Q", i+1)
		}
		if k.NTildei.Cmp(ref.NTildej[i]) != 0 || k.H1i.Cmp(ref.H1j[i]) != 0 || k.H2i.Cmp(ref.H2j[i]) != 0 {
			return fmt.Sprintf("party %d: own ring-Pedersen parameters differ from what the others recorded", i+1)
		}
	}
	return ""
}

// SigOracleEcdsa checks the C01 clauses on the signature data of all finishers.
func SigOracleEcdsa(pub obs.Pt, digest *big.Int, fullBytesLen int, sigs []*common.SignatureData) string {
	if len(sigs) == 0 {
		return "no signer finished"
	}
	ref := sigs[0]
	for i, s := range sigs {
		if !bytes.Equal(s.Signature, ref.Signature) || !bytes.Equal(s.R, ref.R) || !bytes.Equal(s.S, ref.S) ||
			!bytes.Equal(s.SignatureRecovery, ref.SignatureRecovery) || !bytes.Equal(s.M, ref.M) {
			return fmt.Sprintf("signer %d outputs different signature data than signer 1", i+1)
		}
	}
	if len(ref.R) != 32 || len(ref.S) != 32 {
		return fmt.Sprintf("R/S are not fixed width: %d/%d bytes", len(ref.R), len(ref.S))
	}
	if !bytes.Equal(ref.Signature, append(append([]byte{}, ref.R...), ref.S...)) {
		return "Signature != R||S"
	}
	r, s := new(big.Int).SetBytes(ref.R), new(big.Int).SetBytes(ref.S)
	n := obs.Secp.Order()
	if s.Cmp(new(big.Int).Rsh(n, 1)) > 0 {
		return "S is not in the lower half of the curve order"
	}
	want := digest.Bytes()
	if fullBytesLen > 0 && len(want) < fullBytesLen {
		want = append(make([]byte, fullBytesLen-len(want)), want...)
	}
	if !bytes.Equal(ref.M, want) {
		return fmt.Sprintf("echoed message %x differs from the digest %x", ref.M, want)
	}
	if !obs.EcdsaVerify(pub, digest, r, s) {
		return "signature does not verify under the group public key (independent verifier)"
	}
	if len(ref.SignatureRecovery) != 1 {
		return fmt.Sprintf("recovery id has %d bytes", len(ref.SignatureRecovery))
	}
	rec, err := obs.EcdsaRecover(digest, r, s, ref.SignatureRecovery[0])
	if err != nil || !rec.Eq(pub) {
		return fmt.Sprintf("recovery byte %d does not recover the group public key (err=%v)", ref.SignatureRecovery[0], err)
	}
	return ""
}

// SigOracleEddsa checks the C02 clauses.
func SigOracleEddsa(pub obs.Pt, msg *big.Int, fullBytesLen int, sigs []*common.SignatureData) string {
	if len(sigs) == 0 {
		return "no signer finished"
	}
	ref := sigs[0]
	for i, s := range sigs {
		if !bytes.Equal(s.Signature, ref.Signature) || !bytes.Equal(s.M, ref.M) {
			return fmt.Sprintf("signer %d outputs a different signature than signer 1", i+1)
		}
	}
	if len(ref.Signature) != 64 {
		return fmt.Sprintf("signature has %d bytes", len(ref.Signature))
	}
	// (the auxiliary R and S fields hold the same two numbers as big-endian integers; C02 only speaks of
	// the 64-byte Signature, so they are not judged - an earlier version of this oracle compared them
	// byte-wise with Signature and raised a false alarm)
	want := msg.Bytes()
	if fullBytesLen > 0 && len(want) < fullBytesLen {
		want = append(make([]byte, fullBytesLen-len(want)), want...)
	}
	if !bytes.Equal(ref.M, want) {
		return fmt.Sprintf("echoed message %x differs from the message %x", ref.M, want)
	}
	if !obs.Ed25519Verify(pub, ref.M, ref.Signature) {
		return "signature does not verify with the standard library Ed25519 verifier over the echoed message"
	}
	return ""
}

// ResultOracle applies the C01-C04 result predicates to a finished honest run.
func ResultOracle(r *RunRecord) string {
	s := r.Session
	switch r.Sc.Proto {
	case pump.EdKeygen:
		var views []ShareView
		for _, n := range s.Nodes {
			if len(n.Results) != 1 {
				return fmt.Sprintf("party %d has %d results", n.G, len(n.Results))
			}
			views = append(views, edView(n.Results[0].(*edkg.LocalPartySaveData)))
		}
		return SharingOracle(obs.Ed, views, r.Sc.T)
	case pump.EcKeygen:
		var views []ShareView
		var keys []*eckg.LocalPartySaveData
		for _, n := range s.Nodes {
			if len(n.Results) != 1 {
				return fmt.Sprintf("party %d has %d results", n.G, len(n.Results))
			}
			k := n.Results[0].(*eckg.LocalPartySaveData)
			keys = append(keys, k)
			views = append(views, ecView(k))
		}
		if m := SharingOracle(obs.Secp, views, r.Sc.T); m != "" {
			return m
		}
		return ecExtraOracle(keys)
	case pump.EdSigning:
		var sigs []*common.SignatureData
		for _, n := range s.Nodes {
			for _, x := range n.Results {
				sigs = append(sigs, x.(*common.SignatureData))
			}
		}
		return SigOracleEddsa(pt(s.Cfg.EdKeys[0].EDDSAPub), s.Cfg.Msg, s.Cfg.FullBytesLen, sigs)
	case pump.EcSigning:
		var sigs []*common.SignatureData
		for _, n := range s.Nodes {
			for _, x := range n.Results {
				sigs = append(sigs, x.(*common.SignatureData))
			}
		}
		pub := pt(s.Cfg.EcKeys[0].ECDSAPub)
		if s.Cfg.KDD != nil {
			pub = obs.Secp.Add(pub, obs.BaseMul(obs.Secp, new(big.Int).Mod(s.Cfg.KDD, obs.Secp.Order())))
		}
		return SigOracleEcdsa(pub, s.Cfg.Msg, s.Cfg.FullBytesLen, sigs)
	case pump.EdReshare:
		var views []ShareView
		for _, n := range s.Nodes[s.NOld:] {
			if len(n.Results) != 1 {
				return fmt.Sprintf("new member %d has %d results", n.G, len(n.Results))
			}
			views = append(views, edView(n.Results[0].(*edkg.LocalPartySaveData)))
		}
		if m := SharingOracle(obs.Ed, views, r.Sc.NewT); m != "" {
			return "new committee: " + m
		}
		if !views[0].Pub.Eq(pt(s.Cfg.EdKeys[0].EDDSAPub)) {
			return "resharing changed the group public key"
		}
		for i := range s.Nodes[:s.NOld] {
			if s.Cfg.EdKeys[i].Xi.Sign() != 0 {
				return fmt.Sprintf("old member %d finished but its share was not erased", i+1)
			}
		}
		return ""
	case pump.EcReshare:
		var views []ShareView
		var keys []*eckg.LocalPartySaveData
		for _, n := range s.Nodes[s.NOld:] {
			if len(n.Results) != 1 {
				return fmt.Sprintf("new member %d has %d results", n.G, len(n.Results))
			}
			k := n.Results[0].(*eckg.LocalPartySaveData)
			keys = append(keys, k)
			views = append(views, ecView(k))
		}
		if m := SharingOracle(obs.Secp, views, r.Sc.NewT); m != "" {
			return "new committee: " + m
		}
		if m := ecExtraOracle(keys); m != "" {
			return "new committee: " + m
		}
		if !views[0].Pub.Eq(pt(s.Cfg.EcKeys[0].ECDSAPub)) {
			return "resharing changed the group public key"
		}
		for i := range s.Nodes[:s.NOld] {
			if s.Cfg.EcKeys[i].Xi.Sign() != 0 {
				return fmt.Sprintf("old member %d finished but its share was not erased", i+1)
			}
		}
		return ""
	}
	return ""
}
