package props

// Shared machinery of C10 and C11 (the nine zero-knowledge proof systems).
//
//   pcTr        one transcript (parameters, statement, proof parts, challenge) of one of the nine systems, at any size
//   (*pcTr).vec the TWIN: a big-integer transcription of spec/Proofs.tla (Guards, Eqs), name by name. It is bound to the
//               specification by trace validation of toy-sized transcripts (spec/Proofs_Trace.tla: TLC must compute the
//               same value for every guard and equation) and to the code by comparing its verdict with the real Verify on
//               every transcript, toy and real size. It is what measures vacuity ("the crafted transcript passes every
//               other guard") on real-size transcripts, where TLC cannot go.
//   challenge   the Fiat-Shamir challenge as the library derives it (exported hash functions of common/). Only the twin
//               depends on the order of the hash inputs; a transcript on which twin and real verifier disagree is never
//               a violation by itself.
//   real        adapters: build the library's proof struct from a pcTr and call the real Verify (panics recovered)
//   toy         toy curves / moduli on which the real verifiers run and TLC can evaluate every line

import (
	"crypto/elliptic"
	"encoding/json"
	"fmt"
	"math/big"
	"math/rand"
	"sort"
	"strconv"
	"strings"
	"sync"

	"github.com/bnb-chain/tss-lib/v2/common"
	"github.com/bnb-chain/tss-lib/v2/crypto"
	"github.com/bnb-chain/tss-lib/v2/crypto/dlnproof"
	"github.com/bnb-chain/tss-lib/v2/crypto/facproof"
	"github.com/bnb-chain/tss-lib/v2/crypto/modproof"
	"github.com/bnb-chain/tss-lib/v2/crypto/mta"
	"github.com/bnb-chain/tss-lib/v2/crypto/paillier"
	"github.com/bnb-chain/tss-lib/v2/crypto/schnorr"
	"github.com/bnb-chain/tss-lib/v2/tss"

	"verif/harness/obs"
)

var pcSystems = []string{"sch", "schv", "dln", "pai", "mod", "fac", "alice", "bob", "bobwc"}

func pcB(n int64) *big.Int { return big.NewInt(n) }

var (
	pc0 = pcB(0)
	pc1 = pcB(1)
	pc2 = pcB(2)
)

// ------------------------------------------------------------------ toy curve y^2 = x^3 - 3x + b over F_p (obs.Group)

type pcToyCurve struct {
	p, n, b, gx, gy *big.Int
	name            string
	params          *elliptic.CurveParams
	dlog            map[string]int // "x,y" -> k with k*G = (x,y)
}

func (c *pcToyCurve) Name() string     { return c.name }
func (c *pcToyCurve) Order() *big.Int  { return c.n }
func (c *pcToyCurve) P() *big.Int      { return c.p }
func (c *pcToyCurve) Gen() obs.Pt      { return obs.Pt{X: c.gx, Y: c.gy} }
func (c *pcToyCurve) Identity() obs.Pt { return obs.Pt{Inf: true} }
func (c *pcToyCurve) Neg(a obs.Pt) obs.Pt {
	if a.Inf {
		return a
	}
	return obs.Pt{X: a.X, Y: new(big.Int).Mod(new(big.Int).Neg(a.Y), c.p)}
}
func (c *pcToyCurve) OnCurve(a obs.Pt) bool {
	if a.Inf {
		return true
	}
	if a.X == nil || a.Y == nil || a.X.Sign() < 0 || a.Y.Sign() < 0 || a.X.Cmp(c.p) >= 0 || a.Y.Cmp(c.p) >= 0 {
		return false
	}
	l := new(big.Int).Mul(a.Y, a.Y)
	r := new(big.Int).Mul(a.X, a.X)
	r.Mul(r, a.X)
	r.Sub(r, new(big.Int).Mul(pcB(3), a.X))
	r.Add(r, c.b)
	return l.Mod(l, c.p).Cmp(r.Mod(r, c.p)) == 0
}
func (c *pcToyCurve) Add(a, b obs.Pt) obs.Pt {
	if a.Inf {
		return b
	}
	if b.Inf {
		return a
	}
	var lam *big.Int
	if a.X.Cmp(b.X) == 0 {
		if new(big.Int).Mod(new(big.Int).Add(a.Y, b.Y), c.p).Sign() == 0 {
			return obs.Pt{Inf: true}
		}
		num := new(big.Int).Mul(pcB(3), new(big.Int).Mul(a.X, a.X))
		num.Sub(num, pcB(3))
		den := new(big.Int).ModInverse(new(big.Int).Mod(new(big.Int).Mul(pc2, a.Y), c.p), c.p)
		lam = num.Mul(num, den)
	} else {
		num := new(big.Int).Sub(b.Y, a.Y)
		den := new(big.Int).ModInverse(new(big.Int).Mod(new(big.Int).Sub(b.X, a.X), c.p), c.p)
		lam = num.Mul(num, den)
	}
	lam.Mod(lam, c.p)
	x := new(big.Int).Mul(lam, lam)
	x.Sub(x, a.X).Sub(x, b.X).Mod(x, c.p)
	y := new(big.Int).Sub(a.X, x)
	y.Mul(y, lam).Sub(y, a.Y).Mod(y, c.p)
	return obs.Pt{X: x, Y: y}
}

func pcNewToyCurve(p, b, n, gx, gy int64) *pcToyCurve {
	c := &pcToyCurve{p: pcB(p), n: pcB(n), b: pcB(b), gx: pcB(gx), gy: pcB(gy), name: fmt.Sprintf("toy-p%d-b%d-q%d", p, b, n)}
	c.params = &elliptic.CurveParams{P: pcB(p), N: pcB(n), B: pcB(b), Gx: pcB(gx), Gy: pcB(gy), BitSize: 8, Name: c.name}
	c.dlog = map[string]int{}
	pt := obs.Pt{Inf: true}
	for k := 1; k < int(n); k++ {
		pt = c.Add(pt, c.Gen())
		c.dlog[pt.X.String()+","+pt.Y.String()] = k
	}
	return c
}

// prime-order curves found by exhaustive search (a = -3); the generic elliptic.CurveParams arithmetic of the standard
// library works on them (checked by pcSelfCheck against the affine arithmetic above)
var (
	pcToy5  = pcNewToyCurve(7, 1, 5, 0, 1)
	pcToy7  = pcNewToyCurve(5, 1, 7, 0, 1)
	pcToy11 = pcNewToyCurve(7, 6, 11, 1, 2)
)

// pcCurve ties an independent group (obs.Group) to the elliptic.Curve the library is given.
type pcCurve struct {
	G     obs.Group
	Ec    elliptic.Curve
	IdRep bool        // the identity has affine coordinates (edwards25519)
	Toy   *pcToyCurve // nil at real size
}

var (
	pcSecp = &pcCurve{G: obs.Secp, Ec: tss.S256()}
	pcEd   = &pcCurve{G: obs.Ed, Ec: tss.Edwards(), IdRep: true}
)

func pcToy(c *pcToyCurve) *pcCurve { return &pcCurve{G: c, Ec: c.params, Toy: c} }

// pcOrderOnly is a curve of which only the group order is ever used (fac, alice, bob take an elliptic.Curve for its N).
func pcOrderOnly(q int64) *pcCurve {
	return &pcCurve{Ec: &elliptic.CurveParams{P: pcB(7), N: pcB(q), B: pcB(1), Gx: pcB(0), Gy: pcB(1), BitSize: 8, Name: fmt.Sprintf("order-%d", q)}}
}

func (c *pcCurve) q() *big.Int { return c.Ec.Params().N }

var pcRegisterOnce sync.Once

// the check variant of Bob's proof compares curves through the registry of tss (by Go type): exactly ONE curve of type
// *elliptic.CurveParams may be registered, or the lookup becomes ambiguous.
func pcRegisterToyCurve() {
	pcRegisterOnce.Do(func() { tss.RegisterCurve("verif-toy", pcToy5.params) })
}

func (c *pcCurve) ecPoint(p obs.Pt) *crypto.ECPoint {
	if p.Inf {
		if c.IdRep {
			return crypto.NewECPointNoCurveCheck(c.Ec, pcB(0), pcB(1))
		}
		return crypto.NewECPointNoCurveCheck(c.Ec, pcB(0), pcB(0)) // not a point: what "no valid point" looks like to the library
	}
	return crypto.NewECPointNoCurveCheck(c.Ec, new(big.Int).Set(p.X), new(big.Int).Set(p.Y))
}

func pcFromEC(p *crypto.ECPoint) obs.Pt {
	if p == nil {
		return obs.Pt{Inf: true}
	}
	return obs.Pt{X: p.X(), Y: p.Y()}
}

// valid: an on-curve point the library can represent
func (c *pcCurve) valid(p obs.Pt) bool {
	if p.Inf {
		return c.IdRep
	}
	return c.G.OnCurve(p)
}

// nrm: a pair that is no point of the curve stands for the identity (as the discrete logarithm 0 does in Proofs.tla)
func (c *pcCurve) nrm(p obs.Pt) obs.Pt {
	if p.Inf || !c.G.OnCurve(p) {
		return c.G.Identity()
	}
	return p
}

func (c *pcCurve) isIdentity(p obs.Pt) bool {
	if p.Inf {
		return true
	}
	id := c.G.Identity()
	return !id.Inf && p.X.Cmp(id.X) == 0 && p.Y.Cmp(id.Y) == 0
}

// ------------------------------------------------------------------ transcripts

type pcTr struct {
	Sys   string
	Cv    *pcCurve // sch, schv, bobwc: group; fac, alice, bob: only q
	K     int      // iterations (dln, pai, mod)
	Bound int      // pai: primes below Bound are tried
	N     *big.Int // Paillier modulus (alice, bob, bobwc)
	NT    *big.Int // ring-Pedersen modulus
	H1    *big.Int
	H2    *big.Int
	I     map[string]*big.Int   // scalar statement / proof parts
	V     map[string][]*big.Int // vector parts
	P     map[string]obs.Pt     // points
	E     *big.Int              // scalar challenge
	EV    []*big.Int            // vector challenge (dln: bits, pai: xs, mod: Y)
	Sess  []byte
	PaiK  *big.Int // pai: the "k" and the public key point that enter the challenge
	PaiPt obs.Pt
}

func pcNewTr(sys string) *pcTr {
	return &pcTr{Sys: sys, I: map[string]*big.Int{}, V: map[string][]*big.Int{}, P: map[string]obs.Pt{}}
}

// which names are statement, which are proof parts (order = order of Proofs.tla records; points marked with '*')
var pcStNames = map[string][]string{
	"sch": {"*X"}, "schv": {"*V", "*R"}, "dln": {"h1", "h2", "N"}, "pai": {"N"}, "mod": {"N"},
	"fac": {"N0", "NC", "s", "t"}, "alice": {"c"}, "bob": {"c1", "c2"}, "bobwc": {"c1", "c2", "*X"},
}
var pcPfNames = map[string][]string{
	"sch": {"*alpha", "t"}, "schv": {"*alpha", "t", "u"}, "dln": {"[]alpha", "[]t"}, "pai": {"[]y"},
	"mod":   {"W", "[]X", "#A", "#B", "[]Z"},
	"fac":   {"P", "Q", "A", "B", "T", "sigma", "z1", "z2", "w1", "w2", "v"},
	"alice": {"z", "u", "w", "s", "s1", "s2"},
	"bob":   {"z", "zp", "t", "v", "w", "s", "s1", "s2", "t1", "t2"},
	"bobwc": {"z", "zp", "t", "v", "w", "s", "s1", "s2", "t1", "t2", "*U"},
}

// ------------------------------------------------------------------ arithmetic of the twin (Go semantics of big.Int)

func pcExp(b, e, n *big.Int) *big.Int { // nil = Und
	if b == nil || e == nil {
		return nil
	}
	return new(big.Int).Exp(b, e, n)
}
func pcMul(n *big.Int, xs ...*big.Int) *big.Int {
	r := big.NewInt(1)
	for _, x := range xs {
		if x == nil {
			return nil
		}
		r.Mul(r, x).Mod(r, n)
	}
	return r
}
func pcGcd1(a, b *big.Int) bool {
	if a.Sign() == 0 && b.Sign() == 0 {
		return false
	}
	return new(big.Int).GCD(nil, nil, new(big.Int).Abs(a), new(big.Int).Abs(b)).Cmp(pc1) == 0
}
func pcInIv(b, bound *big.Int) bool { return b.Sign() >= 0 && b.Cmp(bound) < 0 }
func pcPow(q *big.Int, k int) *big.Int {
	return new(big.Int).Exp(q, pcB(int64(k)), nil)
}
func pcModZero(a, q *big.Int) bool { return new(big.Int).Mod(a, q).Sign() == 0 }
func pcEq(a, b *big.Int) bool      { return a != nil && b != nil && a.Cmp(b) == 0 }
func pcNeg(e *big.Int) *big.Int    { return new(big.Int).Neg(e) }

func pcSmallPrimes(below int) []int64 {
	var ps []int64
	for n := 2; n < below; n++ {
		ok := true
		for d := 2; d*d <= n; d++ {
			if n%d == 0 {
				ok = false
				break
			}
		}
		if ok {
			ps = append(ps, int64(n))
		}
	}
	return ps
}

// ------------------------------------------------------------------ the twin: Guards and Eqs of Proofs.tla

type pcVecT struct {
	Names  []string // guards in code order, then equations
	Val    map[string]bool
	Guards []string
	Eqs    []string
}

func (v *pcVecT) g(name string, ok bool) {
	v.Names = append(v.Names, name)
	v.Guards = append(v.Guards, name)
	v.Val[name] = ok
}
func (v *pcVecT) e(name string, ok bool) {
	v.Names = append(v.Names, name)
	v.Eqs = append(v.Eqs, name)
	v.Val[name] = ok
}
func (v *pcVecT) failing() []string {
	var f []string
	for _, n := range v.Names {
		if !v.Val[n] {
			f = append(f, n)
		}
	}
	return f
}
func (v *pcVecT) guardsOK() bool {
	for _, n := range v.Guards {
		if !v.Val[n] {
			return false
		}
	}
	return true
}
func (v *pcVecT) allOK() bool { return len(v.failing()) == 0 }

func (t *pcTr) vec() *pcVecT {
	v := &pcVecT{Val: map[string]bool{}}
	I, V, P := t.I, t.V, t.P
	switch t.Sys {
	case "sch":
		q, G := t.Cv.q(), t.Cv.G
		v.g("X_valid", t.Cv.valid(P["X"]))
		v.g("t_nonzero", !pcModZero(I["t"], q))
		// as in the model, a point the library cannot hold stands for the identity in the equation
		lhs := obs.Mul(G, new(big.Int).Mod(I["t"], q), G.Gen())
		rhs := G.Add(t.Cv.nrm(P["alpha"]), obs.Mul(G, t.E, t.Cv.nrm(P["X"])))
		v.e("eq", pcPtEq(t.Cv, lhs, rhs))
	case "schv":
		q, G := t.Cv.q(), t.Cv.G
		v.g("V_valid", t.Cv.valid(P["V"]))
		v.g("R_valid", t.Cv.valid(P["R"]))
		v.g("alpha_valid", t.Cv.valid(P["alpha"]))
		v.g("t_nonzero", !pcModZero(I["t"], q))
		v.g("u_nonzero", !pcModZero(I["u"], q))
		{
			lhs := G.Add(obs.Mul(G, new(big.Int).Mod(I["t"], q), t.Cv.nrm(P["R"])), obs.Mul(G, new(big.Int).Mod(I["u"], q), G.Gen()))
			rhs := G.Add(t.Cv.nrm(P["alpha"]), obs.Mul(G, t.E, t.Cv.nrm(P["V"])))
			v.e("eq", pcPtEq(t.Cv, lhs, rhs))
		}
	case "dln":
		N, h1, h2 := I["N"], I["h1"], I["h2"]
		pos := N.Sign() > 0
		gt1 := func(x *big.Int) bool { return new(big.Int).Mod(x, N).Cmp(pc1) > 0 }
		all := func(xs []*big.Int) bool {
			for _, x := range xs {
				if !gt1(x) {
					return false
				}
			}
			return true
		}
		v.g("N_pos", pos)
		v.g("h1_range", !pos || gt1(h1))
		v.g("h2_range", !pos || gt1(h2))
		v.g("h1_ne_h2", !pos || new(big.Int).Mod(h1, N).Cmp(new(big.Int).Mod(h2, N)) != 0)
		v.g("t_range", !pos || all(V["t"]))
		v.g("alpha_range", !pos || all(V["alpha"]))
		ok := pos
		for i := 0; ok && i < t.K; i++ {
			l := pcExp(h1, V["t"][i], N)
			r := pcMul(N, V["alpha"][i], pcExp(h2, t.EV[i], N))
			ok = pcEq(l, r)
		}
		v.e("eq", ok)
	case "pai":
		N := I["N"]
		v.g("N_gt_1", N.Cmp(pc1) > 0)
		nsf := true
		for _, p := range pcSmallPrimes(t.Bound) {
			if pcModZero(N, pcB(p)) {
				nsf = false
			}
		}
		v.g("no_small_factor", nsf)
		ok := true
		if N.Cmp(pc1) > 0 {
			for i := 0; ok && i < t.K; i++ {
				ok = pcEq(new(big.Int).Mod(t.EV[i], N), pcExp(V["y"][i], N, N))
			}
		}
		v.e("eq", ok)
	case "mod":
		N, W, A, B := I["N"], I["W"], I["A"], I["B"]
		odd := N.Cmp(pc1) > 0 && N.Bit(0) == 1
		rng := func(xs []*big.Int) bool {
			for _, x := range xs {
				if !(x.Sign() > 0 && x.Cmp(N) < 0) {
					return false
				}
			}
			return true
		}
		v.g("N_odd_gt1", odd)
		v.g("W_jacobi", !odd || big.Jacobi(W, N) != 1)
		v.g("W_range", W.Sign() > 0 && W.Cmp(N) < 0)
		v.g("W_unit", pcGcd1(W, N))
		v.g("Z_range", rng(V["Z"]))
		v.g("X_range", rng(V["X"]))
		v.g("A_bitlen", A.BitLen() == t.K+1)
		v.g("B_bitlen", B.BitLen() == t.K+1)
		v.g("N_composite", !(N.Cmp(pc1) > 0 && N.ProbablyPrime(30)))
		okZ, okX := true, true
		if N.Cmp(pc1) > 0 {
			for i := 0; i < t.K; i++ {
				if !pcEq(pcExp(V["Z"][i], N, N), t.EV[i]) {
					okZ = false
				}
				r := new(big.Int).Mod(t.EV[i], N)
				if A.Bit(i) > 0 {
					r.Neg(r).Mod(r, N)
				}
				if B.Bit(i) > 0 {
					r.Mul(r, W).Mod(r, N)
				}
				if !pcEq(pcExp(V["X"][i], pcB(4), N), r) {
					okX = false
				}
			}
		}
		v.e("eqZ", okZ)
		v.e("eqX", okX)
	case "fac":
		q := t.Cv.q()
		N0, NC, s, tt := I["N0"], I["NC"], I["s"], I["t"]
		okP := N0.Sign() > 0
		v.g("N0_pos", okP)
		v.g("NC_pos", NC.Sign() > 0)
		var bound *big.Int
		if okP {
			bound = new(big.Int).Mul(pcPow(q, 3), new(big.Int).Sqrt(N0))
		}
		v.g("z1_range", !okP || pcInIv(I["z1"], bound))
		v.g("z2_range", !okP || pcInIv(I["z2"], bound))
		e := t.E
		if okP && NC.Sign() > 0 {
			R := pcMul(NC, pcExp(s, N0, NC), pcExp(tt, I["sigma"], NC))
			v.e("eq1", pcEq(pcMul(NC, pcExp(s, I["z1"], NC), pcExp(tt, I["w1"], NC)), pcMul(NC, I["A"], pcExp(I["P"], e, NC))))
			v.e("eq2", pcEq(pcMul(NC, pcExp(s, I["z2"], NC), pcExp(tt, I["w2"], NC)), pcMul(NC, I["B"], pcExp(I["Q"], e, NC))))
			v.e("eq3", pcEq(pcMul(NC, pcExp(I["Q"], I["z1"], NC), pcExp(tt, I["v"], NC)), pcMul(NC, I["T"], pcExp(R, e, NC))))
		} else {
			v.e("eq1", true)
			v.e("eq2", true)
			v.e("eq3", true)
		}
	case "alice":
		q, N, NT := t.Cv.q(), t.N, t.NT
		N2 := new(big.Int).Mul(N, N)
		gam := new(big.Int).Add(N, pc1)
		c := I["c"]
		v.g("c_unit", pcInIv(c, N2) && pcGcd1(c, N2))
		v.g("z_range", pcInIv(I["z"], NT))
		v.g("u_range", pcInIv(I["u"], N2))
		v.g("w_range", pcInIv(I["w"], NT))
		v.g("s_range", pcInIv(I["s"], N))
		v.g("z_unit", pcGcd1(I["z"], NT))
		v.g("u_unit", pcGcd1(I["u"], N2))
		v.g("w_unit", pcGcd1(I["w"], NT))
		v.g("s1_ge_q", I["s1"].Cmp(q) >= 0)
		v.g("s2_ge_q", I["s2"].Cmp(q) >= 0)
		v.g("s_ne_1", I["s"].Cmp(pc1) != 0)
		v.g("z_ne_1", I["z"].Cmp(pc1) != 0)
		v.g("s1_ne_s2", I["s1"].Cmp(I["s2"]) != 0)
		v.g("s1_le_q3", I["s1"].Cmp(pcPow(q, 3)) <= 0)
		me := pcNeg(t.E)
		v.e("eqU", pcEq(I["u"], pcMul(N2, pcExp(gam, I["s1"], N2), pcExp(I["s"], N, N2), pcExp(c, me, N2))))
		v.e("eqW", pcEq(I["w"], pcMul(NT, pcExp(t.H1, I["s1"], NT), pcExp(t.H2, I["s2"], NT), pcExp(I["z"], me, NT))))
	case "bob", "bobwc":
		q, N, NT := t.Cv.q(), t.N, t.NT
		N2 := new(big.Int).Mul(N, N)
		gam := new(big.Int).Add(N, pc1)
		v.g("z_range", pcInIv(I["z"], NT))
		v.g("zp_range", pcInIv(I["zp"], NT))
		v.g("t_range", pcInIv(I["t"], NT))
		v.g("v_range", pcInIv(I["v"], N2))
		v.g("w_range", pcInIv(I["w"], NT))
		v.g("s_range", pcInIv(I["s"], N))
		v.g("z_unit", pcGcd1(I["z"], NT))
		v.g("zp_unit", pcGcd1(I["zp"], NT))
		v.g("t_unit", pcGcd1(I["t"], NT))
		v.g("v_unit", pcGcd1(I["v"], N2))
		v.g("w_unit", pcGcd1(I["w"], NT))
		v.g("s_nonzero", I["s"].Sign() != 0)
		v.g("s_unit", pcGcd1(I["s"], N))
		v.g("v_nonzero", I["v"].Sign() != 0)
		v.g("v_unitN", pcGcd1(I["v"], N))
		v.g("s1_ge_q", I["s1"].Cmp(q) >= 0)
		v.g("s2_ge_q", I["s2"].Cmp(q) >= 0)
		v.g("t1_ge_q", I["t1"].Cmp(q) >= 0)
		v.g("t2_ge_q", I["t2"].Cmp(q) >= 0)
		v.g("s1_le_q3", I["s1"].Cmp(pcPow(q, 3)) <= 0)
		v.g("t1_le_q7", I["t1"].Cmp(pcPow(q, 7)) <= 0)
		e := t.E
		if t.Sys == "bobwc" {
			v.g("X_valid", t.Cv.valid(P["X"]))
			v.g("U_valid", t.Cv.valid(P["U"]))
			v.g("s1_modq_nz", !pcModZero(I["s1"], q))
		}
		v.e("eqZ", pcEq(pcMul(NT, pcExp(t.H1, I["s1"], NT), pcExp(t.H2, I["s2"], NT)), pcMul(NT, pcExp(I["z"], e, NT), I["zp"])))
		v.e("eqT", pcEq(pcMul(NT, pcExp(t.H1, I["t1"], NT), pcExp(t.H2, I["t2"], NT)), pcMul(NT, pcExp(I["t"], e, NT), I["w"])))
		v.e("eqV", pcEq(pcMul(N2, pcExp(I["c1"], I["s1"], N2), pcExp(I["s"], N, N2), pcExp(gam, I["t1"], N2)), pcMul(N2, pcExp(I["c2"], e, N2), I["v"])))
		if t.Sys == "bobwc" {
			G := t.Cv.G
			lhs := obs.Mul(G, new(big.Int).Mod(I["s1"], q), G.Gen())
			rhs := G.Add(obs.Mul(G, e, t.Cv.nrm(P["X"])), t.Cv.nrm(P["U"]))
			v.e("eqG", pcPtEq(t.Cv, lhs, rhs))
		}
	}
	return v
}

func pcPtEq(c *pcCurve, a, b obs.Pt) bool {
	if c.isIdentity(a) || c.isIdentity(b) {
		return c.isIdentity(a) && c.isIdentity(b)
	}
	return a.X.Cmp(b.X) == 0 && a.Y.Cmp(b.Y) == 0
}

// outcome: Out_<sys> of Proofs.tla ("acc" | "rej" | "panic")
func (t *pcTr) outcome(v *pcVecT) string {
	if !v.guardsOK() {
		return "rej"
	}
	zeroE := t.E != nil && t.E.Sign() == 0
	switch t.Sys {
	case "sch":
		if zeroE && !t.Cv.IdRep {
			return "panic"
		}
	case "schv":
		if zeroE && !t.Cv.IdRep {
			return "panic"
		}
		if !t.Cv.IdRep {
			G, q := t.Cv.G, t.Cv.q()
			if t.Cv.isIdentity(G.Add(t.P["alpha"], obs.Mul(G, t.E, t.P["V"]))) {
				return "rej"
			}
			if t.Cv.isIdentity(G.Add(obs.Mul(G, new(big.Int).Mod(t.I["t"], q), t.P["R"]), obs.Mul(G, new(big.Int).Mod(t.I["u"], q), G.Gen()))) {
				return "panic"
			}
		}
	case "bobwc":
		if zeroE {
			return "panic"
		}
	}
	if v.allOK() {
		return "acc"
	}
	return "rej"
}

// ------------------------------------------------------------------ the challenge, derived as the library does

func pcXY(p obs.Pt, c *pcCurve) (*big.Int, *big.Int) {
	if p.Inf {
		if c.IdRep {
			return pcB(0), pcB(1)
		}
		return pcB(0), pcB(0)
	}
	return p.X, p.Y
}

func (t *pcTr) challenge() {
	I, V, P := t.I, t.V, t.P
	mod := func(h, q *big.Int) *big.Int { return new(big.Int).Mod(h, q) }
	switch t.Sys {
	case "sch":
		g := t.Cv.G.Gen()
		xx, xy := pcXY(P["X"], t.Cv)
		ax, ay := pcXY(P["alpha"], t.Cv)
		t.E = mod(common.SHA512_256i_TAGGED(t.Sess, xx, xy, g.X, g.Y, ax, ay), t.Cv.q())
	case "schv":
		g := t.Cv.G.Gen()
		vx, vy := pcXY(P["V"], t.Cv)
		rx, ry := pcXY(P["R"], t.Cv)
		ax, ay := pcXY(P["alpha"], t.Cv)
		t.E = mod(common.SHA512_256i_TAGGED(t.Sess, vx, vy, rx, ry, g.X, g.Y, ax, ay), t.Cv.q())
	case "dln":
		msg := append([]*big.Int{I["h1"], I["h2"], I["N"]}, V["alpha"]...)
		c := common.SHA512_256i(msg...)
		t.EV = make([]*big.Int, t.K)
		for i := range t.EV {
			t.EV[i] = pcB(int64(c.Bit(i)))
		}
	case "pai":
		t.EV = paillier.GenerateXs(t.K, t.PaiK, I["N"], pcSecp.ecPoint(t.PaiPt))
	case "mod":
		N := I["N"]
		Y := make([]*big.Int, t.K)
		for i := range Y {
			Y[i] = mod(common.SHA512_256i_TAGGED(t.Sess, append([]*big.Int{I["W"], N}, Y[:i]...)...), N)
		}
		t.EV = Y
	case "fac":
		t.E = mod(common.SHA512_256i_TAGGED(t.Sess, I["N0"], I["NC"], I["s"], I["t"], I["P"], I["Q"], I["A"], I["B"], I["T"], I["sigma"]), t.Cv.q())
	case "alice":
		gam := new(big.Int).Add(t.N, pc1)
		t.E = mod(common.SHA512_256i(t.N, gam, I["c"], I["z"], I["u"], I["w"]), t.Cv.q())
	case "bob":
		gam := new(big.Int).Add(t.N, pc1)
		t.E = mod(common.SHA512_256i_TAGGED(t.Sess, t.N, gam, I["c1"], I["c2"], I["z"], I["zp"], I["t"], I["v"], I["w"]), t.Cv.q())
	case "bobwc":
		gam := new(big.Int).Add(t.N, pc1)
		xx, xy := pcXY(P["X"], t.Cv)
		ux, uy := pcXY(P["U"], t.Cv)
		t.E = mod(common.SHA512_256i_TAGGED(t.Sess, t.N, gam, xx, xy, I["c1"], I["c2"], ux, uy, I["z"], I["zp"], I["t"], I["v"], I["w"]), t.Cv.q())
	}
}

// ------------------------------------------------------------------ adapters to the real library

// pcGuard runs f, turning a panic into outcome "panic".
func pcGuard(f func() bool) (out string, pan string) {
	defer func() {
		if r := recover(); r != nil {
			out, pan = "panic", fmt.Sprint(r)
		}
	}()
	if f() {
		return "acc", ""
	}
	return "rej", ""
}

func (t *pcTr) libAlice() *mta.RangeProofAlice {
	I := t.I
	return &mta.RangeProofAlice{Z: I["z"], U: I["u"], W: I["w"], S: I["s"], S1: I["s1"], S2: I["s2"]}
}
func (t *pcTr) libBob() *mta.ProofBob {
	I := t.I
	return &mta.ProofBob{Z: I["z"], ZPrm: I["zp"], T: I["t"], V: I["v"], W: I["w"], S: I["s"], S1: I["s1"], S2: I["s2"], T1: I["t1"], T2: I["t2"]}
}
func (t *pcTr) libFac() *facproof.ProofFac {
	I := t.I
	return &facproof.ProofFac{P: I["P"], Q: I["Q"], A: I["A"], B: I["B"], T: I["T"], Sigma: I["sigma"], Z1: I["z1"], Z2: I["z2"], W1: I["w1"], W2: I["w2"], V: I["v"]}
}
func (t *pcTr) libDln() *dlnproof.Proof {
	p := &dlnproof.Proof{}
	copy(p.Alpha[:], t.V["alpha"])
	copy(p.T[:], t.V["t"])
	return p
}
func (t *pcTr) libMod() *modproof.ProofMod {
	p := &modproof.ProofMod{W: t.I["W"], A: t.I["A"], B: t.I["B"]}
	copy(p.X[:], t.V["X"])
	copy(p.Z[:], t.V["Z"])
	return p
}
func (t *pcTr) libPai() paillier.Proof {
	var p paillier.Proof
	copy(p[:], t.V["y"])
	return p
}

// realVerify calls the library's verifier on the transcript.
func (t *pcTr) realVerify() (string, string) {
	I, P := t.I, t.P
	switch t.Sys {
	case "sch":
		pf := &schnorr.ZKProof{Alpha: t.Cv.ecPoint(P["alpha"]), T: I["t"]}
		return pcGuard(func() bool { return pf.Verify(t.Sess, t.Cv.ecPoint(P["X"])) })
	case "schv":
		pf := &schnorr.ZKVProof{Alpha: t.Cv.ecPoint(P["alpha"]), T: I["t"], U: I["u"]}
		return pcGuard(func() bool { return pf.Verify(t.Sess, t.Cv.ecPoint(P["V"]), t.Cv.ecPoint(P["R"])) })
	case "dln":
		pf := t.libDln()
		return pcGuard(func() bool { return pf.Verify(I["h1"], I["h2"], I["N"]) })
	case "pai":
		pf := t.libPai()
		return pcGuard(func() bool { ok, err := pf.Verify(I["N"], t.PaiK, pcSecp.ecPoint(t.PaiPt)); return ok && err == nil })
	case "mod":
		pf := t.libMod()
		return pcGuard(func() bool { return pf.Verify(t.Sess, I["N"]) })
	case "fac":
		pf := t.libFac()
		return pcGuard(func() bool { return pf.Verify(t.Sess, t.Cv.Ec, I["N0"], I["NC"], I["s"], I["t"]) })
	case "alice":
		pf := t.libAlice()
		return pcGuard(func() bool { return pf.Verify(t.Cv.Ec, &paillier.PublicKey{N: t.N}, t.NT, t.H1, t.H2, I["c"]) })
	case "bob":
		pf := t.libBob()
		return pcGuard(func() bool {
			return pf.Verify(t.Sess, t.Cv.Ec, &paillier.PublicKey{N: t.N}, t.NT, t.H1, t.H2, I["c1"], I["c2"])
		})
	case "bobwc":
		pf := &mta.ProofBobWC{ProofBob: t.libBob(), U: t.Cv.ecPoint(P["U"])}
		return pcGuard(func() bool {
			return pf.Verify(t.Sess, t.Cv.Ec, &paillier.PublicKey{N: t.N}, t.NT, t.H1, t.H2, I["c1"], I["c2"], t.Cv.ecPoint(P["X"]))
		})
	}
	return "rej", "unknown system"
}

// absorb the parts of a library proof into the transcript
func (t *pcTr) fromAlice(p *mta.RangeProofAlice) {
	t.I["z"], t.I["u"], t.I["w"], t.I["s"], t.I["s1"], t.I["s2"] = p.Z, p.U, p.W, p.S, p.S1, p.S2
}
func (t *pcTr) fromBob(p *mta.ProofBob) {
	I := t.I
	I["z"], I["zp"], I["t"], I["v"], I["w"], I["s"], I["s1"], I["s2"], I["t1"], I["t2"] = p.Z, p.ZPrm, p.T, p.V, p.W, p.S, p.S1, p.S2, p.T1, p.T2
}
func (t *pcTr) fromFac(p *facproof.ProofFac) {
	I := t.I
	I["P"], I["Q"], I["A"], I["B"], I["T"], I["sigma"], I["z1"], I["z2"], I["w1"], I["w2"], I["v"] = p.P, p.Q, p.A, p.B, p.T, p.Sigma, p.Z1, p.Z2, p.W1, p.W2, p.V
}
func (t *pcTr) fromDln(p *dlnproof.Proof) {
	t.V["alpha"] = append([]*big.Int{}, p.Alpha[:]...)
	t.V["t"] = append([]*big.Int{}, p.T[:]...)
	t.K = dlnproof.Iterations
}
func (t *pcTr) fromMod(p *modproof.ProofMod) {
	t.I["W"], t.I["A"], t.I["B"] = p.W, p.A, p.B
	t.V["X"] = append([]*big.Int{}, p.X[:]...)
	t.V["Z"] = append([]*big.Int{}, p.Z[:]...)
	t.K = modproof.Iterations
}
func (t *pcTr) fromPai(p paillier.Proof) {
	t.V["y"] = append([]*big.Int{}, p[:]...)
	t.K = paillier.ProofIters
}

// complete: no part is nil (the library refuses nil parts before anything else; the model has no nil)
func (t *pcTr) complete() bool {
	for _, n := range append(append([]string{}, pcStNames[t.Sys]...), pcPfNames[t.Sys]...) {
		switch {
		case strings.HasPrefix(n, "*"):
		case strings.HasPrefix(n, "[]"):
			xs, ok := t.V[n[2:]]
			if !ok {
				return false
			}
			for _, x := range xs {
				if x == nil {
					return false
				}
			}
		case strings.HasPrefix(n, "#"):
			if t.I[n[1:]] == nil {
				return false
			}
		default:
			if t.I[n] == nil {
				return false
			}
		}
	}
	return true
}

// ------------------------------------------------------------------ toy projection: one ndjson line of Proofs_Trace.tla

func pcSmall(x *big.Int) (int64, error) {
	if x == nil || !x.IsInt64() || x.Int64() > 1<<30 || x.Int64() < -(1<<30) {
		return 0, fmt.Errorf("value %v does not fit the toy domain", x)
	}
	return x.Int64(), nil
}

func (t *pcTr) dlogOf(p obs.Pt) (int64, error) {
	if p.Inf {
		return 0, nil
	}
	if t.Cv.Toy == nil {
		return 0, fmt.Errorf("no discrete log table for this curve")
	}
	if k, ok := t.Cv.Toy.dlog[p.X.String()+","+p.Y.String()]; ok {
		return int64(k), nil
	}
	return 0, nil // not a point of the group: "no valid point"
}

func (t *pcTr) project(names []string) (map[string]any, error) {
	m := map[string]any{}
	for _, n := range names {
		switch {
		case strings.HasPrefix(n, "*"):
			k, err := t.dlogOf(t.P[n[1:]])
			if err != nil {
				return nil, err
			}
			m[n[1:]] = k
		case strings.HasPrefix(n, "[]"):
			var xs []int64
			for _, x := range t.V[n[2:]] {
				k, err := pcSmall(x)
				if err != nil {
					return nil, err
				}
				xs = append(xs, k)
			}
			m[n[2:]] = xs
		case strings.HasPrefix(n, "#"): // bit sequence, least significant first
			x := t.I[n[1:]]
			if x.Sign() < 0 {
				return nil, fmt.Errorf("negative bit string")
			}
			var bits []int64
			for i := 0; i < x.BitLen(); i++ {
				bits = append(bits, int64(x.Bit(i)))
			}
			if len(bits) == 0 {
				bits = []int64{0} // Len = 1 (never K+1 for K >= 1); the Json module cannot read empty sequences into tuples reliably
			}
			m[n[1:]] = bits
		default:
			k, err := pcSmall(t.I[n])
			if err != nil {
				return nil, err
			}
			m[n] = k
		}
	}
	return m, nil
}

// toyLine builds the ndjson line (without "out").
func (t *pcTr) toyLine(id int, v *pcVecT) (map[string]any, error) {
	par := map[string]any{}
	switch t.Sys {
	case "sch", "schv":
		par["q"], par["idrep"] = t.Cv.q().Int64(), t.Cv.IdRep
	case "dln", "mod":
		par["K"] = t.K
	case "pai":
		par["K"], par["bound"] = t.K, t.Bound
	case "fac":
		par["q"] = t.Cv.q().Int64()
	default:
		par["q"], par["N"], par["NT"], par["h1"], par["h2"] = t.Cv.q().Int64(), t.N.Int64(), t.NT.Int64(), t.H1.Int64(), t.H2.Int64()
	}
	st, err := t.project(pcStNames[t.Sys])
	if err != nil {
		return nil, err
	}
	pf, err := t.project(pcPfNames[t.Sys])
	if err != nil {
		return nil, err
	}
	var ch any
	if t.EV != nil {
		var xs []int64
		for _, x := range t.EV {
			k, err := pcSmall(x)
			if err != nil {
				return nil, err
			}
			xs = append(xs, k)
		}
		ch = xs
	} else {
		k, err := pcSmall(t.E)
		if err != nil {
			return nil, err
		}
		ch = k
	}
	return map[string]any{"id": id, "sys": t.Sys, "par": par, "st": st, "pf": pf, "ch": ch, "vec": v.Val}, nil
}

// ------------------------------------------------------------------ small utilities shared by c10 / c11

// pcPrinted returns the (unquoted) second elements of the tuples <<"tag", "...">> that TLC printed.
func pcPrinted(out, tag string) ([]string, error) {
	var res []string
	prefix := fmt.Sprintf("<<%q, ", tag)
	for _, line := range strings.Split(out, "\n") {
		line = strings.TrimSpace(line)
		if !strings.HasPrefix(line, prefix) || !strings.HasSuffix(line, ">>") {
			continue
		}
		s, err := strconv.Unquote(line[len(prefix) : len(line)-2])
		if err != nil {
			return nil, fmt.Errorf("cannot unquote TLC output line %q: %v", line, err)
		}
		res = append(res, s)
	}
	return res, nil
}

func pcJSON(v any) string {
	b, _ := json.Marshal(v)
	return string(b)
}

func pcRandBelow(rng *rand.Rand, n *big.Int) *big.Int { return new(big.Int).Rand(rng, n) }

func pcRandUnit(rng *rand.Rand, n *big.Int) *big.Int {
	for {
		x := pcRandBelow(rng, n)
		if x.Sign() > 0 && pcGcd1(x, n) {
			return x
		}
	}
}

func pcSorted(m map[string]int) []string {
	var ks []string
	for k := range m {
		ks = append(ks, k)
	}
	sort.Strings(ks)
	return ks
}

// pcSelfCheck: the toy curves' standard-library arithmetic agrees with the affine arithmetic above (every k*G and k*G + G)
func pcSelfCheck() error {
	for _, c := range []*pcToyCurve{pcToy5, pcToy7, pcToy11} {
		n := int(c.n.Int64())
		if len(c.dlog) != n-1 {
			return fmt.Errorf("%s: generator does not have order %d", c.name, n)
		}
		for k := 1; k < n; k++ {
			var lib *crypto.ECPoint
			if out, _ := pcGuard(func() bool { lib = crypto.ScalarBaseMult(c.params, pcB(int64(k))); return true }); out != "acc" {
				return fmt.Errorf("%s: library scalar multiplication fails for k=%d", c.name, k)
			}
			mine := obs.Mul(c, pcB(int64(k)), c.Gen())
			if !c.OnCurve(mine) || lib.X().Cmp(mine.X) != 0 || lib.Y().Cmp(mine.Y) != 0 {
				return fmt.Errorf("%s: %d*G differs between the library and the independent arithmetic", c.name, k)
			}
		}
	}
	return nil
}
