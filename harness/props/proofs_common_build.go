package props

// Transcript builders shared by C10 and C11.
//
//   pcBuild*   the PROVER's algorithm with explicit coins (so that coins and witnesses outside their ranges can be used):
//              commitments from witness and coins, challenge by hashing as the library does, responses.
//   pcGrind    toy sizes only: the SIMULATOR (responses first, commitments solved from the equations for an assumed
//              challenge) repeated until the hash gives the assumed challenge (probability 1/q per try).
//   pcModBest  a best-effort prover of the modulus proof for moduli that are not Paillier-Blum (prime, three primes, ...)
// Nothing here is judged: these functions only produce inputs for the real verifiers.

import (
	"fmt"
	"io"
	"math/big"
	"math/rand"

	"verif/harness/obs"
)

type pcCoins map[string]*big.Int

func pcAddMul(a, e, x *big.Int) *big.Int { // a + e*x over the integers
	return new(big.Int).Add(a, new(big.Int).Mul(e, x))
}

func pcModQ(x, q *big.Int) *big.Int { return new(big.Int).Mod(x, q) }

// ---- sch / schv

func pcBuildSch(cv *pcCurve, sess []byte, X obs.Pt, x, a *big.Int) *pcTr {
	t := pcNewTr("sch")
	t.Cv, t.Sess = cv, sess
	t.P["X"] = X
	t.P["alpha"] = obs.Mul(cv.G, pcModQ(a, cv.q()), cv.G.Gen())
	t.challenge()
	t.I["t"] = pcModQ(pcAddMul(a, t.E, x), cv.q())
	return t
}

func pcBuildSchv(cv *pcCurve, sess []byte, V, R obs.Pt, s, l, a, b *big.Int) *pcTr {
	t := pcNewTr("schv")
	t.Cv, t.Sess = cv, sess
	t.P["V"], t.P["R"] = V, R
	G := cv.G
	t.P["alpha"] = G.Add(obs.Mul(G, pcModQ(a, cv.q()), cv.nrm(R)), obs.Mul(G, pcModQ(b, cv.q()), G.Gen()))
	t.challenge()
	t.I["t"] = pcModQ(pcAddMul(a, t.E, s), cv.q())
	t.I["u"] = pcModQ(pcAddMul(b, t.E, l), cv.q())
	return t
}

// ---- dln

func pcBuildDln(h1, h2, N, x, pq *big.Int, a []*big.Int) *pcTr {
	t := pcNewTr("dln")
	t.K = len(a)
	t.I["h1"], t.I["h2"], t.I["N"] = h1, h2, N
	al := make([]*big.Int, t.K)
	for i := range al {
		al[i] = new(big.Int).Exp(h1, a[i], N)
	}
	t.V["alpha"] = al
	t.challenge()
	ts := make([]*big.Int, t.K)
	for i := range ts {
		ts[i] = new(big.Int).Mod(pcAddMul(a[i], t.EV[i], x), pq)
	}
	t.V["t"] = ts
	return t
}

// ---- pai: y_i = x_i^M mod N for the exponent M the caller believes in

func pcBuildPai(N, M *big.Int, K, bound int, xs []*big.Int, k *big.Int, pt obs.Pt) *pcTr {
	t := pcNewTr("pai")
	t.K, t.Bound, t.PaiK, t.PaiPt = K, bound, k, pt
	t.I["N"] = N
	if xs == nil {
		t.challenge()
	} else {
		t.EV = xs
	}
	ys := make([]*big.Int, K)
	for i := range ys {
		ys[i] = new(big.Int).Exp(t.EV[i], M, N)
	}
	t.V["y"] = ys
	return t
}

// ---- fac

func pcBuildFac(cv *pcCurve, sess []byte, N0, NC, s, tt, p, q *big.Int, c pcCoins) *pcTr {
	t := pcNewTr("fac")
	t.Cv, t.Sess = cv, sess
	I := t.I
	I["N0"], I["NC"], I["s"], I["t"] = N0, NC, s, tt
	I["P"] = pcMul(NC, pcExp(s, p, NC), pcExp(tt, c["mu"], NC))
	I["Q"] = pcMul(NC, pcExp(s, q, NC), pcExp(tt, c["nu"], NC))
	I["A"] = pcMul(NC, pcExp(s, c["alpha"], NC), pcExp(tt, c["x"], NC))
	I["B"] = pcMul(NC, pcExp(s, c["beta"], NC), pcExp(tt, c["y"], NC))
	I["T"] = pcMul(NC, pcExp(I["Q"], c["alpha"], NC), pcExp(tt, c["r"], NC))
	I["sigma"] = c["sigma"]
	t.challenge()
	e := t.E
	I["z1"] = pcAddMul(c["alpha"], e, p)
	I["z2"] = pcAddMul(c["beta"], e, q)
	I["w1"] = pcAddMul(c["x"], e, c["mu"])
	I["w2"] = pcAddMul(c["y"], e, c["nu"])
	I["v"] = pcAddMul(c["r"], e, new(big.Int).Sub(c["sigma"], new(big.Int).Mul(c["nu"], p)))
	return t
}

// ---- alice: c = Gamma^m r^N is given by the caller

func pcEnc(N, m, r *big.Int) *big.Int {
	N2 := new(big.Int).Mul(N, N)
	return pcMul(N2, pcExp(new(big.Int).Add(N, pc1), m, N2), pcExp(r, N, N2))
}

func pcBuildAlice(cv *pcCurve, N, NT, h1, h2, c, m, r *big.Int, k pcCoins) *pcTr {
	t := pcNewTr("alice")
	t.Cv, t.N, t.NT, t.H1, t.H2 = cv, N, NT, h1, h2
	N2 := new(big.Int).Mul(N, N)
	I := t.I
	I["c"] = c
	I["z"] = pcMul(NT, pcExp(h1, m, NT), pcExp(h2, k["rho"], NT))
	I["u"] = pcMul(N2, pcExp(new(big.Int).Add(N, pc1), k["alpha"], N2), pcExp(k["beta"], N, N2))
	I["w"] = pcMul(NT, pcExp(h1, k["alpha"], NT), pcExp(h2, k["gamma"], NT))
	t.challenge()
	e := t.E
	I["s"] = pcMul(N, pcExp(r, e, N), k["beta"])
	I["s1"] = pcAddMul(k["alpha"], e, m)
	I["s2"] = pcAddMul(k["gamma"], e, k["rho"])
	return t
}

// ---- bob / bobwc (X != nil)

func pcBuildBob(cv *pcCurve, sess []byte, N, NT, h1, h2, c1, c2, x, y, r *big.Int, k pcCoins, X *obs.Pt) *pcTr {
	sys := "bob"
	if X != nil {
		sys = "bobwc"
	}
	t := pcNewTr(sys)
	t.Cv, t.Sess, t.N, t.NT, t.H1, t.H2 = cv, sess, N, NT, h1, h2
	N2 := new(big.Int).Mul(N, N)
	gam := new(big.Int).Add(N, pc1)
	I := t.I
	I["c1"], I["c2"] = c1, c2
	I["z"] = pcMul(NT, pcExp(h1, x, NT), pcExp(h2, k["rho"], NT))
	I["zp"] = pcMul(NT, pcExp(h1, k["alpha"], NT), pcExp(h2, k["rhop"], NT))
	I["t"] = pcMul(NT, pcExp(h1, y, NT), pcExp(h2, k["sigma"], NT))
	I["v"] = pcMul(N2, pcExp(c1, k["alpha"], N2), pcExp(gam, k["gamma"], N2), pcExp(k["beta"], N, N2))
	I["w"] = pcMul(NT, pcExp(h1, k["gamma"], NT), pcExp(h2, k["tau"], NT))
	if X != nil {
		t.P["X"] = *X
		t.P["U"] = obs.Mul(cv.G, pcModQ(k["alpha"], cv.q()), cv.G.Gen())
	}
	t.challenge()
	e := t.E
	I["s"] = pcMul(N, pcExp(r, e, N), k["beta"])
	I["s1"] = pcAddMul(k["alpha"], e, x)
	I["s2"] = pcAddMul(k["rhop"], e, k["rho"])
	I["t1"] = pcAddMul(k["gamma"], e, y)
	I["t2"] = pcAddMul(k["tau"], e, k["sigma"])
	return t
}

// ---- grinding (toy sizes)

// pcGrind calls mk(e, try) for assumed challenges e until the transcript's hash gives e. mk returns nil to skip.
func pcGrind(q int64, tries int, mk func(e *big.Int, try int) *pcTr) *pcTr {
	for try := 0; try < tries; try++ {
		e := pcB(int64(try) % q)
		t := mk(e, try/int(q))
		if t == nil {
			continue
		}
		t.challenge()
		if t.E.Cmp(e) == 0 {
			return t
		}
	}
	return nil
}

// pcSolveAlice: commitments u, w from the responses for the assumed challenge e (nil where an inverse does not exist)
func pcSolveAlice(t *pcTr, e *big.Int) bool {
	I := t.I
	N2 := new(big.Int).Mul(t.N, t.N)
	me := pcNeg(e)
	u := pcMul(N2, pcExp(new(big.Int).Add(t.N, pc1), I["s1"], N2), pcExp(I["s"], t.N, N2), pcExp(I["c"], me, N2))
	w := pcMul(t.NT, pcExp(t.H1, I["s1"], t.NT), pcExp(t.H2, I["s2"], t.NT), pcExp(I["z"], me, t.NT))
	if u == nil || w == nil {
		return false
	}
	I["u"], I["w"] = u, w
	return true
}

func pcSolveBob(t *pcTr, e *big.Int) bool {
	I := t.I
	N2 := new(big.Int).Mul(t.N, t.N)
	me := pcNeg(e)
	zp := pcMul(t.NT, pcExp(t.H1, I["s1"], t.NT), pcExp(t.H2, I["s2"], t.NT), pcExp(I["z"], me, t.NT))
	w := pcMul(t.NT, pcExp(t.H1, I["t1"], t.NT), pcExp(t.H2, I["t2"], t.NT), pcExp(I["t"], me, t.NT))
	v := pcMul(N2, pcExp(I["c1"], I["s1"], N2), pcExp(I["s"], t.N, N2), pcExp(new(big.Int).Add(t.N, pc1), I["t1"], N2), pcExp(I["c2"], me, N2))
	if zp == nil || w == nil || v == nil {
		return false
	}
	I["zp"], I["w"], I["v"] = zp, w, v
	if t.Sys == "bobwc" {
		G, q := t.Cv.G, t.Cv.q()
		// U = s1*G - e*X
		t.P["U"] = G.Add(obs.Mul(G, pcModQ(I["s1"], q), G.Gen()), G.Neg(obs.Mul(G, e, t.Cv.nrm(t.P["X"]))))
	}
	return true
}

func pcSolveFac(t *pcTr, e *big.Int) bool {
	I := t.I
	NC := I["NC"]
	me := pcNeg(e)
	R := pcMul(NC, pcExp(I["s"], I["N0"], NC), pcExp(I["t"], I["sigma"], NC))
	A := pcMul(NC, pcExp(I["s"], I["z1"], NC), pcExp(I["t"], I["w1"], NC), pcExp(I["P"], me, NC))
	B := pcMul(NC, pcExp(I["s"], I["z2"], NC), pcExp(I["t"], I["w2"], NC), pcExp(I["Q"], me, NC))
	T := pcMul(NC, pcExp(I["Q"], I["z1"], NC), pcExp(I["t"], I["v"], NC), pcExp(R, me, NC))
	if A == nil || B == nil || T == nil {
		return false
	}
	I["A"], I["B"], I["T"] = A, B, T
	return true
}

// ---- the modulus proof for moduli of any shape (factorisation known): best effort

type pcFactor struct {
	P *big.Int
	K int // exponent
}

func pcPhi(fs []pcFactor) *big.Int {
	phi := big.NewInt(1)
	for _, f := range fs {
		phi.Mul(phi, new(big.Int).Sub(f.P, pc1))
		for i := 1; i < f.K; i++ {
			phi.Mul(phi, f.P)
		}
	}
	return phi
}

// fourth root of r modulo p^k (p an odd prime, r a unit): a root modulo p by two square roots, lifted by Newton steps
func pcFourthRootPP(r, p *big.Int, k int) *big.Int {
	rp := new(big.Int).Mod(r, p)
	if rp.Sign() == 0 {
		return nil
	}
	s1 := new(big.Int).ModSqrt(rp, p)
	if s1 == nil {
		return nil
	}
	var root *big.Int
	for _, s := range []*big.Int{s1, new(big.Int).Sub(p, s1)} {
		if rr := new(big.Int).ModSqrt(s, p); rr != nil {
			root = rr
			break
		}
	}
	if root == nil {
		return nil
	}
	m := new(big.Int).Set(p)
	for j := 1; j < k; j++ {
		m.Mul(m, p)
		// x <- x - (x^4 - r) / (4 x^3) modulo p^(j+1)
		x3 := new(big.Int).Exp(root, pcB(3), m)
		den := new(big.Int).ModInverse(new(big.Int).Mod(new(big.Int).Mul(pcB(4), x3), m), m)
		if den == nil {
			return nil
		}
		num := new(big.Int).Sub(new(big.Int).Exp(root, pcB(4), m), r)
		root.Sub(root, num.Mul(num, den)).Mod(root, m)
	}
	return root
}

// fourth root of r modulo an odd N with the given prime-power factors, if one exists (CRT of the per-factor roots)
func pcFourthRoot(r, N *big.Int, fs []pcFactor) *big.Int {
	x, m := big.NewInt(0), big.NewInt(1)
	for _, f := range fs {
		if f.P.Bit(0) == 0 {
			return nil
		}
		pk := new(big.Int).Exp(f.P, pcB(int64(f.K)), nil)
		root := pcFourthRootPP(new(big.Int).Mod(r, pk), f.P, f.K)
		if root == nil {
			return nil
		}
		// CRT: x = x + m * ((root - x) / m mod p^k)
		inv := new(big.Int).ModInverse(new(big.Int).Mod(m, pk), pk)
		d := new(big.Int).Sub(root, x)
		d.Mul(d, inv).Mod(d, pk)
		x.Add(x, d.Mul(d, m))
		m.Mul(m, pk)
	}
	return x.Mod(x, N)
}

// pcModBest builds a modulus proof for N = prod f.P^f.K: W with Jacobi symbol -1 if one exists (else any unit), and for
// every challenge the N-th root (if N is invertible modulo phi) and a fourth root of the first twist that has one; where no
// value exists the element is 1. Returns the transcript and the number of iterations whose two equations both hold.
func pcModBest(sess []byte, N *big.Int, fs []pcFactor, K int, rng *rand.Rand) (*pcTr, int) {
	t := pcNewTr("mod")
	t.K, t.Sess = K, sess
	t.I["N"] = N
	odd := N.Bit(0) == 1
	W := big.NewInt(1)
	for i := 0; i < 400; i++ {
		w := pcRandBelow(rng, N)
		if w.Sign() > 0 && odd && big.Jacobi(w, N) == -1 {
			W = w
			break
		}
		if w.Sign() > 0 && pcGcd1(w, N) && W.Cmp(pc1) == 0 {
			W = w
		}
	}
	t.I["W"] = W
	t.challenge()
	phi := pcPhi(fs)
	invN := new(big.Int).ModInverse(new(big.Int).Mod(N, phi), phi)
	A := new(big.Int).Lsh(pc1, uint(K))
	B := new(big.Int).Lsh(pc1, uint(K))
	X, Z := make([]*big.Int, K), make([]*big.Int, K)
	good := 0
	for i := 0; i < K; i++ {
		Y := t.EV[i]
		Z[i] = big.NewInt(1)
		okZ := false
		if invN != nil {
			Z[i] = new(big.Int).Exp(Y, invN, N)
			okZ = new(big.Int).Exp(Z[i], N, N).Cmp(Y) == 0
			if Z[i].Sign() == 0 {
				Z[i] = big.NewInt(1)
				okZ = false
			}
		}
		X[i] = big.NewInt(1)
		okX := false
		for j := 0; j < 4 && !okX; j++ {
			a, b := j&1, j>>1
			r := new(big.Int).Set(Y)
			if a > 0 {
				r.Neg(r).Mod(r, N)
			}
			if b > 0 {
				r.Mul(r, W).Mod(r, N)
			}
			if root := pcFourthRoot(r, N, fs); root != nil && root.Sign() > 0 && new(big.Int).Exp(root, pcB(4), N).Cmp(r) == 0 {
				X[i] = root
				A.SetBit(A, i, uint(a))
				B.SetBit(B, i, uint(b))
				okX = true
			}
		}
		if okZ && okX {
			good++
		}
	}
	t.I["A"], t.I["B"] = A, B
	t.V["X"], t.V["Z"] = X, Z
	return t, good
}

// ---- a finite reader: the library's samplers loop until they find a suitable value; on inputs for which none exists
// (a non-residue modulo a square, a unit modulo 1) they would spin forever. The reader fails after a budget, which makes
// common.MustGetRandomInt panic: the prover then "produces no proof", which the callers record.

type pcFiniteReader struct {
	r    io.Reader
	left int
}

func (f *pcFiniteReader) Read(b []byte) (int, error) {
	if f.left <= 0 {
		return 0, fmt.Errorf("random budget exhausted")
	}
	n, err := f.r.Read(b)
	f.left -= n
	return n, err
}

// ---- primes with chosen residues (real-size false statements)

func pcPrime(rng *rand.Rand, bits int, ok func(p *big.Int) bool) *big.Int {
	for {
		p := new(big.Int).Rand(rng, new(big.Int).Lsh(pc1, uint(bits)))
		p.SetBit(p, bits-1, 1).SetBit(p, bits-2, 1).SetBit(p, 0, 1)
		if (ok == nil || ok(p)) && p.ProbablyPrime(12) {
			return p
		}
	}
}

func pcMod4(r int64) func(*big.Int) bool {
	return func(p *big.Int) bool { return new(big.Int).Mod(p, pcB(4)).Int64() == r }
}
