package props

// Toy-sized transcripts for C11: the library's provers run on false statements, transcripts built with out-of-range
// coins, and simulated transcripts (ground against the hash) that violate one guard at a time. All of them are presented to
// the REAL verifiers and validated by TLC (spec/Proofs_Trace.tla), see proofs_common_toy.go.

import (
	"math/big"

	"github.com/bnb-chain/tss-lib/v2/crypto/dlnproof"
	"github.com/bnb-chain/tss-lib/v2/crypto/facproof"
	"github.com/bnb-chain/tss-lib/v2/crypto/modproof"
	"github.com/bnb-chain/tss-lib/v2/crypto/mta"
	"github.com/bnb-chain/tss-lib/v2/crypto/paillier"
	"github.com/bnb-chain/tss-lib/v2/crypto/schnorr"

	"verif/harness/obs"
)

// the guards each simulated deviation is aimed at (the twin measures what actually fails)
var pcAliceDevs = []string{"none", "z_range", "s_range", "z_unit", "u_unit", "s1_ge_q", "s2_ge_q", "s_ne_1", "z_ne_1", "s1_ne_s2", "s1_le_q3", "c_unit", "u_range", "w_range", "eqU", "eqW"}
var pcBobDevs = []string{"none", "z_range", "zp_range", "t_range", "v_range", "w_range", "s_range", "z_unit", "t_unit", "s_unit", "s1_ge_q", "s2_ge_q", "t1_ge_q", "t2_ge_q", "s1_le_q3", "t1_le_q7", "s_zero", "eqZ", "eqT", "eqV"}
var pcBobWCDevs = []string{"X_valid", "U_valid", "s1_modq_nz", "point_mismatch"}
var pcFacDevs = []string{"none", "z1_range", "z2_range", "z1_range+1", "z2_far", "z1_negative", "eq1", "eq2", "eq3"}

func (g *pcToyGen) between(lo, hi *big.Int) *big.Int { // [lo, hi]
	d := new(big.Int).Sub(hi, lo)
	return new(big.Int).Add(lo, pcRandBelow(g.rng, d.Add(d, pc1)))
}

func (g *pcToyGen) nonUnit(n *big.Int, fs ...*big.Int) *big.Int { // a multiple of a prime factor, in (0, n)
	f := fs[g.rng.Intn(len(fs))]
	k := new(big.Int).Div(n, f)
	return new(big.Int).Mul(f, pcB(1+g.rng.Int63n(k.Int64()-1)))
}

func (g *pcToyGen) simAlice(ms pcMtaSet, dev string) *pcLine {
	q := ms.Cv.q()
	q3 := pcPow(q, 3)
	N2 := new(big.Int).Mul(ms.N, ms.N)
	ntF1, ntF2 := new(big.Int).Add(new(big.Int).Lsh(ms.Pp, 1), pc1), new(big.Int).Add(new(big.Int).Lsh(ms.Qp, 1), pc1)
	t := pcGrind(q.Int64(), 400, func(e *big.Int, try int) *pcTr {
		t := pcNewTr("alice")
		t.Cv, t.N, t.NT, t.H1, t.H2 = ms.Cv, ms.N, ms.NT, ms.H1, ms.H2
		I := t.I
		I["c"] = pcEnc(ms.N, g.below(q.Int64()), pcRandUnit(g.rng, ms.N))
		I["z"] = pcMul(ms.NT, pcExp(ms.H1, g.below(50), ms.NT), pcExp(ms.H2, g.below(50), ms.NT))
		I["s"] = pcRandUnit(g.rng, ms.N)
		I["s1"] = g.between(q, q3)
		I["s2"] = g.between(q, pcB(3000))
		switch dev {
		case "z_range":
			I["z"] = new(big.Int).Add(I["z"], ms.NT)
		case "s_range":
			I["s"] = new(big.Int).Add(I["s"], ms.N)
		case "z_unit":
			I["z"] = g.nonUnit(ms.NT, ntF1, ntF2)
			if e.Sign() != 0 {
				return nil // z^-e does not exist
			}
		case "u_unit":
			I["s"] = g.nonUnit(ms.N, ms.P, ms.Q)
		case "s1_ge_q":
			I["s1"] = g.below(q.Int64())
		case "s2_ge_q":
			I["s2"] = g.below(q.Int64())
		case "s_ne_1":
			I["s"] = pcB(1)
		case "z_ne_1":
			I["z"] = pcB(1)
		case "s1_ne_s2":
			I["s2"] = new(big.Int).Set(I["s1"])
		case "s1_le_q3":
			I["s1"] = new(big.Int).Add(q3, pcB(1+g.rng.Int63n(3)))
		case "c_unit":
			I["c"] = g.nonUnit(N2, ms.P, ms.Q)
			if e.Sign() != 0 {
				return nil
			}
		}
		if !pcSolveAlice(t, e) {
			return nil
		}
		switch dev {
		case "u_range":
			I["u"] = new(big.Int).Add(I["u"], N2)
		case "w_range":
			I["w"] = new(big.Int).Add(I["w"], ms.NT)
		case "eqU": // another unit with the same residue modulo N: only the equation modulo N^2 fails
			I["u"] = pcMul(N2, I["u"], new(big.Int).Add(ms.N, pc1))
		case "eqW":
			I["w"] = pcMul(ms.NT, I["w"], ms.H1)
		}
		return t
	})
	if t == nil {
		g.skips["alice:sim:"+dev]++
		return nil
	}
	return pcFinish(t, "sim:"+dev, "", false, true)
}

func (g *pcToyGen) simBob(ms pcMtaSet, wc bool, dev string) *pcLine {
	q := ms.Cv.q()
	q3, q7 := pcPow(q, 3), pcPow(q, 7)
	N2 := new(big.Int).Mul(ms.N, ms.N)
	ntF1, ntF2 := new(big.Int).Add(new(big.Int).Lsh(ms.Pp, 1), pc1), new(big.Int).Add(new(big.Int).Lsh(ms.Qp, 1), pc1)
	sys := "bob"
	if wc {
		sys = "bobwc"
		pcRegisterToyCurve()
	}
	sess := g.sess()
	t := pcGrind(q.Int64(), 400, func(e *big.Int, try int) *pcTr {
		t := pcNewTr(sys)
		t.Cv, t.Sess, t.N, t.NT, t.H1, t.H2 = ms.Cv, sess, ms.N, ms.NT, ms.H1, ms.H2
		I := t.I
		I["c1"] = pcEnc(ms.N, g.below(q.Int64()), pcRandUnit(g.rng, ms.N))
		I["c2"] = pcEnc(ms.N, g.below(ms.N.Int64()), pcRandUnit(g.rng, ms.N))
		I["z"] = pcMul(ms.NT, pcExp(ms.H1, g.below(50), ms.NT), pcExp(ms.H2, g.below(50), ms.NT))
		I["t"] = pcMul(ms.NT, pcExp(ms.H1, g.below(50), ms.NT), pcExp(ms.H2, g.below(50), ms.NT))
		I["s"] = pcRandUnit(g.rng, ms.N)
		I["s1"] = g.between(q, q3)
		I["s2"] = g.between(q, pcB(3000))
		I["t1"] = g.between(q, q7)
		I["t2"] = g.between(q, pcB(3000))
		if wc {
			t.P["X"] = obs.Mul(ms.Cv.G, pcB(1+g.rng.Int63n(q.Int64()-1)), ms.Cv.G.Gen())
			for pcModZero(I["s1"], q) {
				I["s1"] = g.between(q, q3)
			}
		}
		switch dev {
		case "z_range":
			I["z"] = new(big.Int).Add(I["z"], ms.NT)
		case "t_range":
			I["t"] = new(big.Int).Add(I["t"], ms.NT)
		case "s_range":
			I["s"] = new(big.Int).Add(I["s"], ms.N)
		case "z_unit":
			I["z"] = g.nonUnit(ms.NT, ntF1, ntF2)
			if e.Sign() != 0 {
				return nil
			}
		case "t_unit":
			I["t"] = g.nonUnit(ms.NT, ntF1, ntF2)
			if e.Sign() != 0 {
				return nil
			}
		case "s_unit":
			I["s"] = g.nonUnit(ms.N, ms.P, ms.Q)
		case "s_zero":
			I["s"] = pcB(0)
		case "s1_ge_q":
			I["s1"] = pcB(1 + g.rng.Int63n(q.Int64()-1))
		case "s2_ge_q":
			I["s2"] = g.below(q.Int64())
		case "t1_ge_q":
			I["t1"] = g.below(q.Int64())
		case "t2_ge_q":
			I["t2"] = g.below(q.Int64())
		case "s1_le_q3":
			I["s1"] = new(big.Int).Add(q3, pcB(1+g.rng.Int63n(3)))
		case "t1_le_q7":
			I["t1"] = new(big.Int).Add(q7, pcB(1+g.rng.Int63n(3)))
		case "X_valid":
			t.P["X"] = obs.Pt{Inf: true}
		case "s1_modq_nz":
			I["s1"] = new(big.Int).Mul(q, pcB(1+g.rng.Int63n(q.Int64()*q.Int64()-1)))
		}
		if wc && dev == "U_valid" {
			// U = s1*G - e*X is the identity iff s1 = e*x mod q
			x := int64(ms.Cv.Toy.dlog[t.P["X"].X.String()+","+t.P["X"].Y.String()])
			if e.Sign() == 0 {
				return nil
			}
			want := (e.Int64() * x) % q.Int64()
			for new(big.Int).Mod(I["s1"], q).Int64() != want {
				I["s1"] = g.between(q, q3)
			}
		}
		if !pcSolveBob(t, e) {
			return nil
		}
		switch dev {
		case "zp_range":
			I["zp"] = new(big.Int).Add(I["zp"], ms.NT)
		case "v_range":
			I["v"] = new(big.Int).Add(I["v"], N2)
		case "w_range":
			I["w"] = new(big.Int).Add(I["w"], ms.NT)
		case "eqZ":
			I["zp"] = pcMul(ms.NT, I["zp"], ms.H1)
		case "eqT":
			I["w"] = pcMul(ms.NT, I["w"], ms.H1)
		case "eqV": // same residue modulo N, another one modulo N^2
			I["v"] = pcMul(N2, I["v"], new(big.Int).Add(ms.N, pc1))
		case "point_mismatch":
			t.P["X"] = ms.Cv.G.Add(t.P["X"], ms.Cv.G.Gen()) // after U was solved for the other point
			if t.P["X"].Inf {
				return nil
			}
		}
		return t
	})
	if t == nil {
		g.skips[sys+":sim:"+dev]++
		return nil
	}
	return pcFinish(t, "sim:"+dev, "", false, true)
}

func (g *pcToyGen) simFac(ms pcMtaSet, dev string) *pcLine {
	q := ms.Cv.q()
	bound := new(big.Int).Mul(pcPow(q, 3), new(big.Int).Sqrt(ms.N))
	sess := g.sess()
	t := pcGrind(q.Int64(), 400, func(e *big.Int, try int) *pcTr {
		t := pcNewTr("fac")
		t.Cv, t.Sess = ms.Cv, sess
		I := t.I
		I["N0"], I["NC"], I["s"], I["t"] = ms.N, ms.NT, ms.H1, ms.H2
		I["P"] = pcMul(ms.NT, pcExp(ms.H1, g.below(40), ms.NT), pcExp(ms.H2, g.below(40), ms.NT))
		I["Q"] = pcMul(ms.NT, pcExp(ms.H1, g.below(40), ms.NT), pcExp(ms.H2, g.below(40), ms.NT))
		I["sigma"] = g.below(5000)
		I["z1"] = pcRandBelow(g.rng, bound)
		I["z2"] = pcRandBelow(g.rng, bound)
		I["w1"], I["w2"], I["v"] = g.below(3000), g.below(3000), g.below(100000)
		switch dev {
		case "z1_range":
			I["z1"] = new(big.Int).Set(bound)
		case "z1_range+1":
			I["z1"] = new(big.Int).Add(bound, pc1)
		case "z2_range":
			I["z2"] = new(big.Int).Set(bound)
		case "z2_far":
			I["z2"] = new(big.Int).Add(bound, g.below(5000))
		case "z1_negative":
			I["z1"] = pcB(-1 - g.rng.Int63n(20))
		}
		if !pcSolveFac(t, e) {
			return nil
		}
		switch dev {
		case "eq1":
			I["A"] = pcMul(ms.NT, I["A"], ms.H1)
		case "eq2":
			I["B"] = pcMul(ms.NT, I["B"], ms.H1)
		case "eq3":
			I["T"] = pcMul(ms.NT, I["T"], ms.H1)
		}
		return t
	})
	if t == nil {
		g.skips["fac:sim:"+dev]++
		return nil
	}
	return pcFinish(t, "sim:"+dev, "", false, true)
}

// crafted produces the C11 lines; rounds scales their number.
func (g *pcToyGen) crafted(rounds int) {
	for i := 0; i < rounds; i++ {
		// ---- sch / schv: wrong discrete logarithm (library prover), responses 0 mod q, unreduced responses
		{
			cv := pcToy(pcToyCurves[i%3])
			q := cv.q().Int64()
			G := cv.G
			x := pcB(1 + g.rng.Int63n(q-1))
			d := pcB(1 + g.rng.Int63n(q-1))
			Xs := obs.Mul(G, new(big.Int).Add(x, d), G.Gen()) // (x+d)*G with d != 0 mod q
			if !Xs.Inf {
				sess := g.sess()
				var pf *schnorr.ZKProof
				if pan := pcCall(func() { pf, _ = schnorr.NewZKProof(sess, x, cv.ecPoint(Xs), g.lib) }); pan == "" && pf != nil {
					t := pcNewTr("sch")
					t.Cv, t.Sess = cv, sess
					t.P["X"], t.P["alpha"], t.I["t"] = Xs, pcFromEC(pf.Alpha), pf.T
					t.challenge()
					g.add(pcFinish(t, "false:wrong_dlog", "wrong_dlog", true, true))
				}
			}
			for _, dev := range []string{"t_zero", "t_q", "t_plus_q", "X_invalid"} {
				sess := g.sess()
				t := pcGrind(q, 200, func(e *big.Int, try int) *pcTr {
					t := pcNewTr("sch")
					t.Cv, t.Sess = cv, sess
					X := obs.Mul(G, x, G.Gen())
					tt := pcB(1 + g.rng.Int63n(q-1))
					switch dev {
					case "t_zero":
						tt = pcB(0)
					case "t_q":
						tt = pcB(q)
					case "t_plus_q":
						tt.Add(tt, pcB(q))
					case "X_invalid":
						X = obs.Pt{Inf: true}
					}
					al := G.Add(obs.Mul(G, pcModQ(tt, cv.q()), G.Gen()), G.Neg(obs.Mul(G, e, cv.nrm(X))))
					if al.Inf {
						return nil
					}
					t.P["X"], t.P["alpha"], t.I["t"] = X, al, tt
					return t
				})
				if t != nil {
					g.add(pcFinish(t, "sim:"+dev, "", false, true))
				}
			}
			// schv
			r, s, l := pcB(1+g.rng.Int63n(q-1)), g.below(q), g.below(q)
			R := obs.Mul(G, r, G.Gen())
			V := G.Add(obs.Mul(G, s, R), obs.Mul(G, l, G.Gen()))
			Vs := G.Add(V, obs.Mul(G, d, G.Gen()))
			if !Vs.Inf {
				sess := g.sess()
				var pf *schnorr.ZKVProof
				if pan := pcCall(func() { pf, _ = schnorr.NewZKVProof(sess, cv.ecPoint(Vs), cv.ecPoint(R), s, l, g.lib) }); pan == "" && pf != nil && pf.Alpha != nil {
					t := pcNewTr("schv")
					t.Cv, t.Sess = cv, sess
					t.P["V"], t.P["R"], t.P["alpha"], t.I["t"], t.I["u"] = Vs, R, pcFromEC(pf.Alpha), pf.T, pf.U
					t.challenge()
					g.add(pcFinish(t, "false:wrong_dlog", "wrong_dlog", true, true))
				}
			}
			for _, dev := range []string{"t_zero", "u_zero", "sum_identity", "V_invalid"} {
				if V.Inf {
					break
				}
				sess := g.sess()
				t := pcGrind(q, 200, func(e *big.Int, try int) *pcTr {
					t := pcNewTr("schv")
					t.Cv, t.Sess = cv, sess
					tt, uu := pcB(1+g.rng.Int63n(q-1)), pcB(1+g.rng.Int63n(q-1))
					VV := V
					switch dev {
					case "t_zero":
						tt = pcB(q)
					case "u_zero":
						uu = pcB(0)
					case "sum_identity": // t*R + u*G is the identity: u = -t*r
						uu = pcModQ(new(big.Int).Neg(new(big.Int).Mul(tt, r)), cv.q())
						if uu.Sign() == 0 {
							return nil
						}
					case "V_invalid":
						VV = obs.Pt{Inf: true}
					}
					lhs := G.Add(obs.Mul(G, pcModQ(tt, cv.q()), R), obs.Mul(G, pcModQ(uu, cv.q()), G.Gen()))
					al := G.Add(lhs, G.Neg(obs.Mul(G, e, cv.nrm(VV))))
					if al.Inf {
						return nil
					}
					t.P["V"], t.P["R"], t.P["alpha"], t.I["t"], t.I["u"] = VV, R, al, tt, uu
					return t
				})
				if t != nil {
					g.add(pcFinish(t, "sim:"+dev, "", false, true))
				}
			}
		}

		ms := pcMtaSets()[i%4]
		pk := &paillier.PublicKey{N: ms.N}
		q := ms.Cv.q()
		q3, q7 := pcPow(q, 3), pcPow(q, 7)
		// ---- alice: plaintext beyond q^3 with the library's prover
		for _, m := range []*big.Int{new(big.Int).Add(q3, pc1), new(big.Int).Add(q3, pc2), new(big.Int).Sub(ms.N, pc1)} {
			if m.Cmp(ms.N) >= 0 || m.Cmp(q3) <= 0 {
				continue
			}
			var c, r *big.Int
			var pf *mta.RangeProofAlice
			if pan := pcCall(func() {
				c, r, _ = pk.EncryptAndReturnRandomness(g.lib, m)
				pf, _ = mta.ProveRangeAlice(ms.Cv.Ec, pk, c, ms.NT, ms.H1, ms.H2, m, r, g.lib)
			}); pan == "" && pf != nil {
				t := pcNewTr("alice")
				t.Cv, t.N, t.NT, t.H1, t.H2 = ms.Cv, ms.N, ms.NT, ms.H1, ms.H2
				t.I["c"] = c
				t.fromAlice(pf)
				t.challenge()
				g.add(pcFinish(t, "false:plaintext_beyond_q3", "plaintext_beyond_q3", true, true))
			}
		}
		// built: m = 0 and a coin alpha at / beyond the bound (s1 = alpha whatever the challenge)
		for _, al := range []*big.Int{q3, new(big.Int).Add(q3, pc1), new(big.Int).Add(q3, pcB(7)), new(big.Int).Sub(q, pc1), q} {
			r := pcRandUnit(g.rng, ms.N)
			k := pcCoins{"alpha": al, "beta": pcRandUnit(g.rng, ms.N), "gamma": g.between(q, pcB(2000)), "rho": g.below(200)}
			t := pcBuildAlice(ms.Cv, ms.N, ms.NT, ms.H1, ms.H2, pcEnc(ms.N, pc0, r), pc0, r, k)
			g.add(pcFinish(t, "built:s1="+al.String(), "s1_beyond", al.Cmp(q3) > 0, true))
		}
		for _, dev := range pcAliceDevs {
			g.add(g.simAlice(ms, dev))
		}
		// ---- bob: multiplier beyond q^3, mask beyond q^7 with the library's prover
		for _, wc := range []bool{false, true} {
			if wc && ms.Cv.Toy == nil {
				continue
			}
			type xy struct {
				x, y *big.Int
				fam  string
			}
			cases := []xy{
				{new(big.Int).Add(q3, pc1), g.below(q.Int64()), "multiplier_beyond_q3"},
				{new(big.Int).Add(q3, pcB(1+g.rng.Int63n(50))), g.below(q.Int64()), "multiplier_beyond_q3"},
				{pcB(1 + g.rng.Int63n(q.Int64()-1)), new(big.Int).Add(q7, pc1), "mask_beyond_q7"},
				{pcB(1 + g.rng.Int63n(q.Int64()-1)), new(big.Int).Add(q7, pcB(1+g.rng.Int63n(5000))), "mask_beyond_q7"},
			}
			for _, cs := range cases {
				sess := g.sess()
				var pf *mta.ProofBob
				var pw *mta.ProofBobWC
				var X obs.Pt
				c1 := pcEnc(ms.N, g.below(q.Int64()), pcRandUnit(g.rng, ms.N))
				r := pcRandUnit(g.rng, ms.N)
				N2 := new(big.Int).Mul(ms.N, ms.N)
				c2 := pcMul(N2, pcExp(c1, cs.x, N2), pcEnc(ms.N, cs.y, r)) // the mask is an integer: it does not have to fit below N
				pan := pcCall(func() {
					if wc {
						pcRegisterToyCurve()
						X = obs.Mul(ms.Cv.G, cs.x, ms.Cv.G.Gen())
						if X.Inf {
							return
						}
						pw, _ = mta.ProveBobWC(sess, ms.Cv.Ec, pk, ms.NT, ms.H1, ms.H2, c1, c2, cs.x, cs.y, r, ms.Cv.ecPoint(X), g.lib)
					} else {
						pf, _ = mta.ProveBob(sess, ms.Cv.Ec, pk, ms.NT, ms.H1, ms.H2, c1, c2, cs.x, cs.y, r, g.lib)
					}
				})
				if pan != "" || (pf == nil && pw == nil) {
					continue
				}
				sys := "bob"
				if wc {
					sys = "bobwc"
				}
				t := pcNewTr(sys)
				t.Cv, t.Sess, t.N, t.NT, t.H1, t.H2 = ms.Cv, sess, ms.N, ms.NT, ms.H1, ms.H2
				t.I["c1"], t.I["c2"] = c1, c2
				if wc {
					t.fromBob(pw.ProofBob)
					t.P["X"], t.P["U"] = X, pcFromEC(pw.U)
				} else {
					t.fromBob(pf)
				}
				t.challenge()
				g.add(pcFinish(t, "false:"+cs.fam, cs.fam, true, true))
			}
			// the public point is not x*G (library prover told the wrong point)
			if wc {
				x := pcB(1 + g.rng.Int63n(q.Int64()-1))
				Xs := obs.Mul(ms.Cv.G, new(big.Int).Add(x, pc1), ms.Cv.G.Gen())
				if !Xs.Inf {
					sess := g.sess()
					c1 := pcEnc(ms.N, g.below(q.Int64()), pcRandUnit(g.rng, ms.N))
					r := pcRandUnit(g.rng, ms.N)
					y := g.below(ms.N.Int64())
					N2 := new(big.Int).Mul(ms.N, ms.N)
					c2 := pcMul(N2, pcExp(c1, x, N2), pcEnc(ms.N, y, r))
					var pw *mta.ProofBobWC
					if pan := pcCall(func() {
						pcRegisterToyCurve()
						pw, _ = mta.ProveBobWC(sess, ms.Cv.Ec, pk, ms.NT, ms.H1, ms.H2, c1, c2, x, y, r, ms.Cv.ecPoint(Xs), g.lib)
					}); pan == "" && pw != nil {
						t := pcNewTr("bobwc")
						t.Cv, t.Sess, t.N, t.NT, t.H1, t.H2 = ms.Cv, sess, ms.N, ms.NT, ms.H1, ms.H2
						t.I["c1"], t.I["c2"] = c1, c2
						t.fromBob(pw.ProofBob)
						t.P["X"], t.P["U"] = Xs, pcFromEC(pw.U)
						t.challenge()
						g.add(pcFinish(t, "false:point_mismatch", "point_mismatch", true, true))
					}
				}
			}
			// built: x = 0 / y = 0 and coins at / beyond the bounds
			if !wc {
				for _, cs := range []struct {
					al, ga *big.Int
					fam    string
					dem    bool
				}{
					{new(big.Int).Add(q3, pc1), g.between(q, q7), "s1_beyond", true},
					{q3, g.between(q, q7), "s1_at_bound", false},
					{g.between(q, q3), new(big.Int).Add(q7, pc1), "t1_beyond", true},
					{g.between(q, q3), q7, "t1_at_bound", false},
				} {
					sess := g.sess()
					c1 := pcEnc(ms.N, g.below(q.Int64()), pcRandUnit(g.rng, ms.N))
					r := pcRandUnit(g.rng, ms.N)
					c2 := pcEnc(ms.N, pc0, r) // c1^0 * Enc(0; r)
					k := pcCoins{"alpha": cs.al, "rho": g.below(200), "sigma": g.below(200), "tau": g.between(q, pcB(3000)), "rhop": g.between(q, pcB(3000)),
						"beta": pcRandUnit(g.rng, ms.N), "gamma": cs.ga}
					t := pcBuildBob(ms.Cv, sess, ms.N, ms.NT, ms.H1, ms.H2, c1, c2, pc0, pc0, r, k, nil)
					g.add(pcFinish(t, "built:"+cs.fam, cs.fam, cs.dem, true))
				}
			}
			devs := pcBobDevs
			if wc {
				devs = append(append([]string{}, "none", "s1_le_q3", "t1_le_q7"), pcBobWCDevs...)
			}
			for _, dev := range devs {
				g.add(g.simBob(ms, wc, dev))
			}
		}
		// ---- fac: a factor far below the square root (library prover), coins beyond the bound, simulated
		{
			for _, pq := range [][2]int64{{2, 367}, {2, 97}, {3, 29}} {
				p, qq := pcB(pq[0]), pcB(pq[1])
				N0 := new(big.Int).Mul(p, qq)
				sess := g.sess()
				var pf *facproof.ProofFac
				if pan := pcCall(func() { pf, _ = facproof.NewProof(sess, ms.Cv.Ec, N0, ms.NT, ms.H1, ms.H2, p, qq, g.lib) }); pan == "" && pf != nil {
					t := pcNewTr("fac")
					t.Cv, t.Sess = ms.Cv, sess
					t.I["N0"], t.I["NC"], t.I["s"], t.I["t"] = N0, ms.NT, ms.H1, ms.H2
					t.fromFac(pf)
					t.challenge()
					g.add(pcFinish(t, "false:small_factor", "small_factor", true, true))
				}
			}
			bound := new(big.Int).Mul(q3, new(big.Int).Sqrt(ms.N))
			for _, d := range []int64{0, 1, 50} {
				sess := g.sess()
				k := pcCoins{"alpha": new(big.Int).Add(bound, pcB(d)), "beta": pcRandBelow(g.rng, pcB(10)), "mu": g.below(200), "nu": g.below(200),
					"sigma": g.between(pcB(4000), pcB(9000)), "r": g.below(5000), "x": g.below(500), "y": g.below(500)}
				t := pcBuildFac(ms.Cv, sess, ms.N, ms.NT, ms.H1, ms.H2, ms.P, ms.Q, k)
				g.add(pcFinish(t, "built:z_beyond", "z_beyond", true, true))
			}
			for _, dev := range pcFacDevs {
				g.add(g.simFac(ms, dev))
			}
		}
		// ---- pai (twin only): small prime factor, factor shared with the totient
		{
			for _, c := range []struct {
				N, phi int64
				fam    string
			}{{15, 8, "small_prime_factor"}, {33, 20, "small_prime_factor"}, {55, 40, "shares_factor_with_totient"}, {203, 168, "shares_factor_with_totient"}, {35, 24, "none"}} {
				N := pcB(c.N)
				M := new(big.Int).ModInverse(N, pcB(c.phi))
				if M == nil {
					M = pcB(1 + g.rng.Int63n(c.phi-1))
				}
				xs := []*big.Int{pcRandUnit(g.rng, N), pcRandUnit(g.rng, N), pcRandUnit(g.rng, N)}
				g.add(pcFinish(pcBuildPai(N, M, 3, 4, xs, nil, obs.Pt{}), "built:"+c.fam, c.fam, false, false))
			}
		}
		// ---- dln: h2 outside the group, wrong exponent (library prover); degenerate bases
		for _, ms2 := range []pcMtaSet{pcDlnSets()[(i/3)%2], pcDlnSets()[2]} {
			// (the first two moduli are so small that one of 128 responses is always 0 or 1: nothing is ever accepted
			// there; with the third one only the deviation decides)
			if i%3 != 0 {
				continue
			}
			pq := new(big.Int).Mul(ms2.Pp, ms2.Qp)
			x := pcB(2 + g.rng.Int63n(pq.Int64()-2))
			h2 := new(big.Int).Exp(ms2.H1, x, ms2.NT)
			for _, cs := range []struct {
				h1, h2, x *big.Int
				fam       string
				dem       bool
			}{
				{ms2.H1, new(big.Int).Sub(ms2.NT, h2), x, "h2_outside_group", true}, // -h2: -1 is no square modulo a product of primes = 3 mod 4
				{ms2.H1, h2, new(big.Int).Add(x, pc1), "wrong_dlog", true},
				{ms2.H1, ms2.H1, pc1, "h1_eq_h2", false},
				{ms2.H1, pc1, pc0, "h2_is_1", false},
				{new(big.Int).Add(ms2.H1, ms2.NT), h2, x, "h1_plus_N", false},
			} {
				var pf *dlnproof.Proof
				if pan := pcCall(func() { pf = dlnproof.NewDLNProof(cs.h1, cs.h2, cs.x, ms2.Pp, ms2.Qp, ms2.NT, g.lib) }); pan == "" && pf != nil {
					t := pcNewTr("dln")
					t.I["h1"], t.I["h2"], t.I["N"] = cs.h1, cs.h2, ms2.NT
					t.fromDln(pf)
					t.challenge()
					kind := "built:" + cs.fam
					if cs.dem {
						kind = "false:" + cs.fam
					}
					g.add(pcFinish(t, kind, cs.fam, cs.dem, true))
				}
			}
		}
		// ---- mod: moduli that are not Paillier-Blum
		if i%3 == 1 {
			type mc struct {
				fs  []pcFactor
				fam string
			}
			f := func(ps ...int64) []pcFactor {
				var out []pcFactor
				for _, p := range ps {
					if n := len(out); n > 0 && out[n-1].P.Int64() == p {
						out[n-1].K++
					} else {
						out = append(out, pcFactor{pcB(p), 1})
					}
				}
				return out
			}
			for _, c := range []mc{{f(41983), "prime"}, {f(43), "prime"}, {f(2, 211), "even"}, {f(7, 7), "prime_power"}, {f(11, 11, 11), "prime_power"},
				{f(197, 211), "not_blum"}, {f(13, 17), "not_blum"}, {f(7, 11, 19), "not_blum"}, {f(199, 211), "none"}} {
				N := big.NewInt(1)
				for _, x := range c.fs {
					for j := 0; j < x.K; j++ {
						N.Mul(N, x.P)
					}
				}
				t, _ := pcModBest(g.sess(), N, c.fs, modproof.Iterations, g.rng)
				g.add(pcFinish(t, "built:"+c.fam, c.fam, c.fam != "none", true))
			}
			// the library's prover on a modulus with a prime = 1 mod 4; elements it left nil are filled with 1
			P, Q := pcB(197), pcB(211)
			N := new(big.Int).Mul(P, Q)
			sess := g.sess()
			var pf *modproof.ProofMod
			if pan := pcCall(func() { pf, _ = modproof.NewProof(sess, N, P, Q, &pcFiniteReader{r: g.lib, left: 1 << 20}) }); pan == "" && pf != nil {
				t := pcNewTr("mod")
				t.Sess = sess
				t.I["N"] = N
				t.fromMod(pf)
				for _, k := range []string{"X", "Z"} {
					for j, x := range t.V[k] {
						if x == nil {
							t.V[k][j] = pcB(1)
						}
					}
				}
				t.challenge()
				g.add(pcFinish(t, "false:not_blum", "not_blum", true, true))
			}
		}
	}
}

// ring-Pedersen moduli for the dln proof (128 iterations): with the third one honest toy proofs are usually accepted
func pcDlnSets() []pcMtaSet {
	return []pcMtaSet{
		{NT: pcB(77), H1: pcB(4), Pp: pcB(3), Qp: pcB(5)},
		{NT: pcB(253), H1: pcB(4), Pp: pcB(5), Qp: pcB(11)},
		{NT: pcB(167 * 179), H1: pcB(4), Pp: pcB(83), Qp: pcB(89)},
	}
}
