package props

// Toy-sized runs of the REAL provers and verifiers (binding (C) of BUILDING.md) and their validation by TLC.
//
// Every transcript becomes one line of an ndjson file (see spec/Proofs_Trace.tla): parameters, statement, proof parts and
// challenge as small integers (curve points as discrete logarithms computed with the independent affine arithmetic), the
// twin's value of every guard and equation, and what the real Verify did. TLC must compute the same vector and predict
// the same outcome.

import (
	"fmt"
	"io"
	"math/big"
	"math/rand"
	"os"
	"path/filepath"
	"strings"
	"time"

	"github.com/bnb-chain/tss-lib/v2/crypto/dlnproof"
	"github.com/bnb-chain/tss-lib/v2/crypto/facproof"
	"github.com/bnb-chain/tss-lib/v2/crypto/modproof"
	"github.com/bnb-chain/tss-lib/v2/crypto/mta"
	"github.com/bnb-chain/tss-lib/v2/crypto/paillier"
	"github.com/bnb-chain/tss-lib/v2/crypto/schnorr"

	"verif/harness/obs"
	"verif/harness/pump"
	"verif/harness/tlc"
)

// ------------------------------------------------------------------ toy parameter sets

type pcMtaSet struct {
	Cv      *pcCurve
	N, P, Q *big.Int // Paillier modulus and its factors
	NT      *big.Int // ring-Pedersen modulus (a product of two safe primes), h2 = h1^X2 in the squares
	H1, H2  *big.Int
	Pp, Qp  *big.Int // NT = (2Pp+1)(2Qp+1)
	Name    string
}

func pcMtaSets() []pcMtaSet {
	mk := func(cv *pcCurve, p, q, nt, h2, pp, qp int64, name string) pcMtaSet {
		return pcMtaSet{Cv: cv, N: pcB(p * q), P: pcB(p), Q: pcB(q), NT: pcB(nt), H1: pcB(4), H2: pcB(h2), Pp: pcB(pp), Qp: pcB(qp), Name: name}
	}
	return []pcMtaSet{
		mk(pcOrderOnly(3), 5, 7, 77, 16, 3, 5, "q3-N35-NT77"),
		mk(pcOrderOnly(3), 7, 11, 253, 64, 5, 11, "q3-N77-NT253"),
		mk(pcToy(pcToy5), 11, 13, 77, 16, 3, 5, "q5-N143-NT77"),
		mk(pcOrderOnly(5), 11, 17, 253, 64, 5, 11, "q5-N187-NT253"),
	}
}

// a toy line with its provenance
type pcLine struct {
	T      *pcTr
	Kind   string // honest | false:<family> | built:<what> | sim:<guard>
	Demand bool   // the property demands that this transcript is not accepted (a false statement of a named family)
	Family string
	Vec    *pcVecT
	Twin   string // outcome by the twin
	Real   string // outcome of the real Verify ("na" where it cannot run)
	Panic  string
	Note   string
}

func pcCall(f func()) (pan string) {
	defer func() {
		if r := recover(); r != nil {
			pan = fmt.Sprint(r)
		}
	}()
	f()
	return ""
}

// finish evaluates twin and real verifier on a built transcript.
func pcFinish(t *pcTr, kind, family string, demand bool, runReal bool) *pcLine {
	l := &pcLine{T: t, Kind: kind, Family: family, Demand: demand}
	l.Vec = t.vec()
	l.Twin = t.outcome(l.Vec)
	l.Real = "na"
	if runReal {
		l.Real, l.Panic = t.realVerify()
	}
	return l
}

type pcToyGen struct {
	rng   *rand.Rand
	lib   io.Reader
	lines []*pcLine
	skips map[string]int // prover produced nothing that can be sent (panic, nil parts)
}

func newPcToyGen(seed int64) *pcToyGen {
	return &pcToyGen{rng: rand.New(rand.NewSource(seed)), lib: pump.NewDRBG(seed ^ 0x70f), skips: map[string]int{}}
}

func (g *pcToyGen) add(l *pcLine) {
	if l == nil {
		return
	}
	if !l.T.complete() {
		g.skips[l.T.Sys+":incomplete"]++
		return
	}
	g.lines = append(g.lines, l)
}

func (g *pcToyGen) below(n int64) *big.Int    { return pcB(g.rng.Int63n(n)) }
func (g *pcToyGen) pick(xs ...int64) *big.Int { return pcB(xs[g.rng.Intn(len(xs))]) }

func (g *pcToyGen) sess() []byte {
	switch g.rng.Intn(3) {
	case 0:
		return []byte{}
	case 1:
		return []byte("s")
	}
	return []byte(strings.Repeat("session-", 20))
}

var pcToyCurves = []*pcToyCurve{pcToy5, pcToy7, pcToy11}

// ---- honest runs of the library's provers (C10)

func (g *pcToyGen) honest(n int) {
	for i := 0; i < n; i++ {
		// sch
		{
			cv := pcToy(pcToyCurves[i%3])
			q := cv.q().Int64()
			x := pcB(1 + g.rng.Int63n(q-1))
			X := obs.Mul(cv.G, x, cv.G.Gen())
			sess := g.sess()
			var pf *schnorr.ZKProof
			if pan := pcCall(func() { pf, _ = schnorr.NewZKProof(sess, x, cv.ecPoint(X), g.lib) }); pan != "" || pf == nil {
				g.skips["sch:prover"]++
			} else {
				t := pcNewTr("sch")
				t.Cv, t.Sess = cv, sess
				t.P["X"], t.P["alpha"], t.I["t"] = X, pcFromEC(pf.Alpha), pf.T
				t.challenge()
				g.add(pcFinish(t, "honest", "", false, true))
			}
		}
		// schv
		{
			cv := pcToy(pcToyCurves[(i+1)%3])
			q := cv.q().Int64()
			r, s, l := pcB(1+g.rng.Int63n(q-1)), g.below(q), g.below(q)
			R := obs.Mul(cv.G, r, cv.G.Gen())
			V := cv.G.Add(obs.Mul(cv.G, s, R), obs.Mul(cv.G, l, cv.G.Gen()))
			if !V.Inf {
				sess := g.sess()
				var pf *schnorr.ZKVProof
				if pan := pcCall(func() { pf, _ = schnorr.NewZKVProof(sess, cv.ecPoint(V), cv.ecPoint(R), s, l, g.lib) }); pan != "" || pf == nil || pf.Alpha == nil {
					g.skips["schv:prover"]++
				} else {
					t := pcNewTr("schv")
					t.Cv, t.Sess = cv, sess
					t.P["V"], t.P["R"], t.P["alpha"], t.I["t"], t.I["u"] = V, R, pcFromEC(pf.Alpha), pf.T, pf.U
					t.challenge()
					g.add(pcFinish(t, "honest", "", false, true))
				}
			}
		}
		ms := pcMtaSets()[i%4]
		pk := &paillier.PublicKey{N: ms.N}
		q := ms.Cv.q().Int64()
		// alice
		{
			m := g.below(q)
			var c, r *big.Int
			var pf *mta.RangeProofAlice
			if pan := pcCall(func() {
				c, r, _ = pk.EncryptAndReturnRandomness(g.lib, m)
				pf, _ = mta.ProveRangeAlice(ms.Cv.Ec, pk, c, ms.NT, ms.H1, ms.H2, m, r, g.lib)
			}); pan != "" || pf == nil {
				g.skips["alice:prover"]++
			} else {
				t := pcNewTr("alice")
				t.Cv, t.N, t.NT, t.H1, t.H2 = ms.Cv, ms.N, ms.NT, ms.H1, ms.H2
				t.I["c"] = c
				t.fromAlice(pf)
				t.challenge()
				g.add(pcFinish(t, "honest", "", false, true))
			}
		}
		// bob / bobwc
		for _, wc := range []bool{false, true} {
			if wc && ms.Cv.Toy == nil {
				continue
			}
			x := g.below(q)
			if wc && x.Sign() == 0 {
				x = pcB(1)
			}
			y := g.below(q * q * q * q * q)
			sess := g.sess()
			var c1, c2, r *big.Int
			var pf *mta.ProofBob
			var pw *mta.ProofBobWC
			var X obs.Pt
			pan := pcCall(func() {
				c1, _ = pk.Encrypt(g.lib, g.below(q))
				var cy *big.Int
				cy, r, _ = pk.EncryptAndReturnRandomness(g.lib, new(big.Int).Mod(y, ms.N))
				cx, _ := pk.HomoMult(x, c1)
				c2, _ = pk.HomoAdd(cx, cy)
				if wc {
					pcRegisterToyCurve()
					X = obs.Mul(ms.Cv.G, x, ms.Cv.G.Gen())
					pw, _ = mta.ProveBobWC(sess, ms.Cv.Ec, pk, ms.NT, ms.H1, ms.H2, c1, c2, x, new(big.Int).Mod(y, ms.N), r, ms.Cv.ecPoint(X), g.lib)
				} else {
					pf, _ = mta.ProveBob(sess, ms.Cv.Ec, pk, ms.NT, ms.H1, ms.H2, c1, c2, x, new(big.Int).Mod(y, ms.N), r, g.lib)
				}
			})
			if pan != "" || (pf == nil && pw == nil) {
				g.skips["bob:prover"]++
				continue
			}
			sys := "bob"
			if wc {
				sys = "bobwc"
			}
			t := pcNewTr(sys)
			t.Cv, t.Sess, t.N, t.NT, t.H1, t.H2 = ms.Cv, sess, ms.N, ms.NT, ms.H1, ms.H2
			t.I["c1"], t.I["c2"] = c1, c2
			if wc {
				t.fromBob(pw.ProofBob)
				t.P["X"], t.P["U"] = X, pcFromEC(pw.U)
			} else {
				t.fromBob(pf)
			}
			t.challenge()
			g.add(pcFinish(t, "honest", "", false, true))
		}
		// fac: the Paillier modulus of the set, proven with respect to the ring-Pedersen parameters of the set
		{
			sess := g.sess()
			var pf *facproof.ProofFac
			if pan := pcCall(func() { pf, _ = facproof.NewProof(sess, ms.Cv.Ec, ms.N, ms.NT, ms.H1, ms.H2, ms.P, ms.Q, g.lib) }); pan != "" || pf == nil {
				g.skips["fac:prover"]++
			} else {
				t := pcNewTr("fac")
				t.Cv, t.Sess = ms.Cv, sess
				t.I["N0"], t.I["NC"], t.I["s"], t.I["t"] = ms.N, ms.NT, ms.H1, ms.H2
				t.fromFac(pf)
				t.challenge()
				g.add(pcFinish(t, "honest", "", false, true))
			}
		}
		// pai: the real verifier cannot run below 250 bit moduli; the twin's prover with oracle challenges
		{
			phi := new(big.Int).Mul(new(big.Int).Sub(ms.P, pc1), new(big.Int).Sub(ms.Q, pc1))
			M := new(big.Int).ModInverse(ms.N, phi)
			xs := []*big.Int{pcRandUnit(g.rng, ms.N), pcRandUnit(g.rng, ms.N), pcRandUnit(g.rng, ms.N)}
			g.add(pcFinish(pcBuildPai(ms.N, M, 3, 4, xs, nil, obs.Pt{}), "honest", "", false, false))
		}
		// dln (128 iterations a line) and mod (80): fewer
		if i%4 == 0 {
			ms2 := pcDlnSets()[(i/4)%3]
			pq := new(big.Int).Mul(ms2.Pp, ms2.Qp)
			x := pcB(2 + g.rng.Int63n(pq.Int64()-2))
			h2 := new(big.Int).Exp(ms2.H1, x, ms2.NT)
			var pf *dlnproof.Proof
			if pan := pcCall(func() { pf = dlnproof.NewDLNProof(ms2.H1, h2, x, ms2.Pp, ms2.Qp, ms2.NT, g.lib) }); pan != "" || pf == nil {
				g.skips["dln:prover"]++
			} else {
				t := pcNewTr("dln")
				t.I["h1"], t.I["h2"], t.I["N"] = ms2.H1, h2, ms2.NT
				t.fromDln(pf)
				t.challenge()
				g.add(pcFinish(t, "honest", "", false, true))
			}
		}
		if i%3 == 0 {
			P, Q := pcB(199), pcB(211)
			if (i/3)%4 == 3 {
				P, Q = pcB(7), pcB(11)
			}
			N := new(big.Int).Mul(P, Q)
			sess := g.sess()
			var pf *modproof.ProofMod
			if pan := pcCall(func() { pf, _ = modproof.NewProof(sess, N, P, Q, g.lib) }); pan != "" || pf == nil {
				g.skips["mod:prover"]++
			} else {
				t := pcNewTr("mod")
				t.Sess = sess
				t.I["N"] = N
				t.fromMod(pf)
				if !t.complete() {
					// a challenge that is no unit modulo N: the prover left elements nil; the verifier must refuse that
					if out, _ := t.realVerify(); out != "rej" {
						g.skips["mod:nil-parts-not-refused("+out+")"]++
					} else {
						g.skips["mod:nil-parts-refused"]++
					}
				} else {
					t.challenge()
					g.add(pcFinish(t, "honest", "", false, true))
				}
			}
		}
	}
}

// ------------------------------------------------------------------ validation of lines by TLC

type pcTraceResult struct {
	Lines    int
	Accepted bool // every genuine line explained
	SelfTest bool // ... and the appended corrupted line refused
	FailLine int
	FailText string
	Res      tlc.Result
}

// pcValidate writes the lines to a scratch file and lets TLC (Proofs_Trace.tla) evaluate them. A copy of the last line
// with one vector entry flipped is appended as a self test of the binding: TLC must explain every genuine line and stop
// at the corrupted one (SelfTest = true).
func pcValidate(lines []*pcLine, timeout time.Duration) (pcTraceResult, error) {
	out := pcTraceResult{Lines: len(lines)}
	if len(lines) == 0 {
		return out, fmt.Errorf("no toy lines")
	}
	tmpBase := os.Getenv("VERIF_TMP")
	if tmpBase == "" {
		tmpBase = os.TempDir()
	}
	var sb strings.Builder
	for i := 0; i <= len(lines); i++ {
		j := i
		if i == len(lines) {
			j = len(lines) - 1
		}
		l := lines[j]
		m, err := l.T.toyLine(i+1, l.Vec)
		if err != nil {
			return out, fmt.Errorf("line %d (%s %s): %v", i+1, l.T.Sys, l.Kind, err)
		}
		m["out"] = l.Real
		if i == len(lines) {
			vec := map[string]bool{}
			for k, v := range l.Vec.Val {
				vec[k] = v
			}
			k := l.Vec.Names[len(l.Vec.Names)-1]
			vec[k] = !vec[k]
			m["vec"] = vec
		}
		sb.WriteString(pcJSON(m))
		sb.WriteString("\n")
	}
	tf, err := os.CreateTemp(tmpBase, "verif-proofs-trace-*.ndjson")
	if err != nil {
		return out, err
	}
	defer os.Remove(tf.Name())
	if _, err := tf.WriteString(sb.String()); err != nil {
		tf.Close()
		return out, err
	}
	tf.Close()
	abs, _ := filepath.Abs(tf.Name())
	cfg := "SPECIFICATION TraceSpec\nCONSTRAINT HighWater\nPOSTCONDITION TraceAccepted\nCHECK_DEADLOCK FALSE\n"
	r := tlc.Run(tlc.Options{Module: "Proofs_Trace", Cfg: cfg, Env: map[string]string{"TRACE": abs}, Workers: 1, Heap: "2g", Timeout: timeout})
	out.Res = r
	if r.Err != nil {
		return out, r.Err
	}
	if r.Len != len(lines)+1 {
		return out, fmt.Errorf("TLC read %d lines, %d were written", r.Len, len(lines)+1)
	}
	out.Accepted = r.HW >= len(lines)
	out.SelfTest = r.HW == len(lines) && !r.OK
	if !out.Accepted {
		out.FailLine = r.HW + 1
		for _, ln := range strings.Split(r.Output, "\n") {
			if strings.Contains(ln, fmt.Sprintf("\"LINE_MISMATCH\", %d,", out.FailLine)) || strings.Contains(ln, fmt.Sprintf("\"LINE_MISMATCH_VEC\", %d,", out.FailLine)) {
				out.FailText += strings.TrimSpace(ln) + " "
			}
		}
		if j := out.FailLine - 1; j >= 0 && j < len(lines) {
			out.FailText += fmt.Sprintf("[%s %s: model outcome, real outcome; guards/equations valued differently]", lines[j].T.Sys, lines[j].Kind)
		}
	}
	return out, nil
}
