package props

import "verif/harness/core"

// Registry maps property ids to their check functions.
var Registry = map[string]func(*core.Ctx) error{
	"C01": C01,
	"C02": C02,
	"C03": C03,
	"C04": C04,
	"C05": C05,
	"C06": C06,
	"C07": C07,
	"C08": C08,
	"C13": C13,
	"C17": C17,
}

// Workers are child-process entry points (journalled batches of cases that may crash or hang).
var Workers = map[string]func(args []string) int{
	"fault-worker":  FaultWorker,
	"direct-worker": DirectWorker,
}
