package props

import (
	"encoding/json"
	"fmt"
	"sort"
	"strings"
	"sync"
	"time"

	"verif/harness/core"
	"verif/harness/ev"
	"verif/harness/pump"
	"verif/harness/tlc"
)

// GenStep is one step of a behaviour printed by EngineGen.tla, with the state the specification predicts
// for the acting party after the step.
type GenStep struct {
	Op      string `json:"op"` // start | deliver | dup | flip
	P       int    `json:"p"`
	Type    string `json:"type"`
	From    int    `json:"from"`
	Rnd     int    `json:"rnd"`
	Ended   int    `json:"ended"`
	Waiting []int  `json:"waiting"`
}

type genInst struct {
	proto      pump.Proto
	nold, nnew int
	dups, flip int
	simulate   int // 0 = exhaustive enumeration, else number of sampled behaviours
	// scenario used to replay
	sc Scenario
}

// genBehaviours lets TLC enumerate (or sample) the behaviours of EngineGen for one configuration.
func genBehaviours(ctx *core.Ctx, in genInst) ([][]GenStep, tlc.Result, error) {
	cfg := tlc.EngineConstants(string(in.proto), in.nold, in.nnew, tlc.CodeFlags) +
		fmt.Sprintf("  MaxDups = %d\n  MaxFlips = %d\nSPECIFICATION GSpec\nINVARIANTS Emit GNoStuck\nCHECK_DEADLOCK FALSE\n", in.dups, in.flip)
	opt := tlc.Options{Module: "EngineGen", Cfg: cfg, Workers: 1, Heap: "3g", Timeout: 15 * time.Minute}
	if in.simulate > 0 {
		opt.Args = []string{"-simulate", fmt.Sprintf("num=%d", in.simulate), "-depth", "200", "-seed", fmt.Sprint(ctx.Seed + 17)}
	}
	r := tlc.Run(opt)
	if r.Err != nil {
		return nil, r, r.Err
	}
	if !r.OK {
		return nil, r, fmt.Errorf("EngineGen %s violates %s", in.proto, r.Violated)
	}
	var out [][]GenStep
	seen := map[string]bool{}
	for _, line := range strings.Split(r.Output, "\n") {
		const pfx = `<<"BEHAVIOUR", "`
		i := strings.Index(line, pfx)
		if i < 0 {
			continue
		}
		s := line[i+len(pfx):]
		j := strings.LastIndex(s, `">>`)
		if j < 0 {
			continue
		}
		s = s[:j]
		s = strings.ReplaceAll(s, `\"`, `"`)
		s = strings.ReplaceAll(s, `\\`, `\`)
		if seen[s] {
			continue
		}
		seen[s] = true
		var steps []GenStep
		if err := json.Unmarshal([]byte(s), &steps); err != nil {
			return nil, r, fmt.Errorf("cannot parse a behaviour printed by TLC: %v", err)
		}
		out = append(out, steps)
	}
	if len(out) == 0 {
		return nil, r, fmt.Errorf("EngineGen %s printed no behaviour", in.proto)
	}
	return out, r, nil
}

// replayBehaviour steps the real parties through one specification behaviour and compares the projected state of
// the acting party after every step. It returns a description of the first mismatch ("" if none), whether every party
// finished with exactly one result, and the executed pump schedule.
func replayBehaviour(sc Scenario, steps []GenStep) (mismatch string, stuck string, sched []pump.Step, rec *RunRecord, err error) {
	cfg, err := BuildConfig(sc)
	if err != nil {
		return "", "", nil, nil, err
	}
	sort.Slice(cfg.EdKeys, func(i, j int) bool { return cfg.EdKeys[i].ShareID.Cmp(cfg.EdKeys[j].ShareID) < 0 })
	sort.Slice(cfg.EcKeys, func(i, j int) bool { return cfg.EcKeys[i].ShareID.Cmp(cfg.EcKeys[j].ShareID) < 0 })
	mem := &ev.Mem{}
	s, err := pump.New(cfg, mem)
	if err != nil {
		return "", "", nil, nil, err
	}
	for k, st := range steps {
		var ps pump.Step
		switch st.Op {
		case "start":
			ps = pump.Step{Op: "start", Node: st.P}
		default:
			var it *pump.Item
			for _, c := range s.All {
				if c.Msg.Type == st.Type && c.Msg.From == st.From && c.Msg.To == st.P {
					it = c
					break
				}
			}
			if it == nil {
				return fmt.Sprintf("step %d: the specification delivers %s from %d to %d, but the real party %d has not sent it", k+1, st.Type, st.From, st.P, st.From), "", sched, nil, nil
			}
			ps = pump.Step{Op: st.Op, Item: it.ID, Node: st.P}
		}
		if err := s.Apply(ps); err != nil {
			return "", "", sched, nil, err
		}
		sched = append(sched, ps)
		n := s.Nodes[st.P-1]
		if n.Err != nil || n.Panic != "" {
			return fmt.Sprintf("step %d (%s %s from %d to %d): party reported %v %s", k+1, st.Op, st.Type, st.From, st.P, n.Err, core.Short(n.Panic, 200)), "", sched, nil, nil
		}
		sort.Ints(st.Waiting)
		gotR, gotE, gotW := s.Round(n), len(n.Results), s.Waiting(n)
		if gotR != st.Rnd || gotE != st.Ended || fmt.Sprint(gotW) != fmt.Sprint(append([]int{}, st.Waiting...)) && !(len(gotW) == 0 && len(st.Waiting) == 0) {
			return fmt.Sprintf("step %d (%s %s from %d to party %d): specification predicts round %d, %d result(s), waiting %v; the code is in round %d with %d result(s), waiting %v",
				k+1, st.Op, st.Type, st.From, st.P, st.Rnd, st.Ended, st.Waiting, gotR, gotE, gotW), "", sched, nil, nil
		}
	}
	rec = &RunRecord{Sc: sc, Session: s, Events: mem.Events, Sent: s.SentMultiset(), Quiescent: s.Quiescent()}
	rec.Sc.Schedule = sched
	for _, n := range s.Nodes {
		r := s.Round(n)
		rec.Rounds = append(rec.Rounds, r)
		rec.NResults = append(rec.NResults, len(n.Results))
		fin := len(n.Results) == 1 && r == ev.Done
		rec.Finished = append(rec.Finished, fin)
		if !fin && stuck == "" {
			stuck = fmt.Sprintf("after the whole behaviour party %d is in round %d with %d result(s)", n.G, r, len(n.Results))
		}
	}
	return "", stuck, sched, rec, nil
}

func genInstances(ctx *core.Ctx) []genInst {
	s := ctx.Seed * 577
	ed2 := Scenario{Proto: pump.EdKeygen, N: 2, T: 1, Strategy: "tlc", Seed: s + 1}
	sg2 := Scenario{Proto: pump.EdSigning, N: 2, T: 1, KeyN: 2, Strategy: "tlc", Seed: s + 2}
	rs21 := Scenario{Proto: pump.EdReshare, N: 2, T: 1, KeyN: 2, NewN: 1, NewT: 0, Strategy: "tlc", Seed: s + 3}
	out := []genInst{
		{pump.EdKeygen, 2, 0, 0, 0, 0, ed2},
		{pump.EdSigning, 2, 0, 0, 0, 0, sg2},
	}
	ed3 := Scenario{Proto: pump.EdKeygen, N: 3, T: 1, Strategy: "tlc", Seed: s + 4}
	sg3 := Scenario{Proto: pump.EdSigning, N: 3, T: 1, KeyN: 3, Strategy: "tlc", Seed: s + 5}
	rs22 := Scenario{Proto: pump.EdReshare, N: 2, T: 1, KeyN: 2, NewN: 2, NewT: 1, Strategy: "tlc", Seed: s + 6}
	if !ctx.Thorough() {
		out = append(out,
			genInst{pump.EdReshare, 2, 2, 0, 0, 300, rs22},
			genInst{pump.EdKeygen, 3, 0, 1, 1, 200, ed3},
			genInst{pump.EdSigning, 3, 0, 1, 1, 200, sg3})
		return out
	}
	_ = rs21
	out = append(out,
		genInst{pump.EdKeygen, 2, 0, 1, 1, 0, ed2},
		genInst{pump.EdSigning, 2, 0, 1, 1, 0, sg2},
		genInst{pump.EdReshare, 2, 2, 0, 0, 4000, rs22},
		genInst{pump.EdReshare, 2, 2, 1, 1, 2000, rs22},
		genInst{pump.EdKeygen, 3, 0, 1, 1, 3000, ed3},
		genInst{pump.EdSigning, 3, 0, 1, 1, 3000, sg3},
		genInst{pump.EdKeygen, 3, 0, 0, 0, 3000, Scenario{Proto: pump.EdKeygen, N: 3, T: 2, Strategy: "tlc", Seed: s + 7}})
	return out
}

// replayFamily runs binding (B): behaviours generated by TLC from EngineGen.tla are replayed on the real code.
// which = C07 | C08 decides which mismatches are verdicts.
func replayFamily(ctx *core.Ctx, cov *core.Cov, which string) error {
	insts := genInstances(ctx)
	type res struct {
		behs [][]GenStep
		r    tlc.Result
		err  error
	}
	rs := make([]res, len(insts))
	var wg sync.WaitGroup
	sem := make(chan struct{}, 4)
	for i, in := range insts {
		wg.Add(1)
		go func(i int, in genInst) {
			defer wg.Done()
			sem <- struct{}{}
			defer func() { <-sem }()
			b, r, err := genBehaviours(ctx, in)
			rs[i] = res{b, r, err}
		}(i, in)
	}
	wg.Wait()
	total := 0
	var desc []string
	for i, in := range insts {
		if rs[i].err != nil {
			return core.Inconcl("behaviour generation for %s: %v", in.proto, rs[i].err)
		}
		mode := "all"
		if in.simulate > 0 {
			mode = "sampled"
		}
		desc = append(desc, fmt.Sprintf("%s n=%d+%d dups=%d flips=%d: %d behaviours (%s)", in.proto, in.nold, in.nnew, in.dups, in.flip, len(rs[i].behs), mode))
		// replay in parallel
		type job struct{ k int }
		jobs := make(chan int)
		var mu sync.Mutex
		var firstErr error
		var rw sync.WaitGroup
		sentRef := ""
		for w := 0; w < 12; w++ {
			rw.Add(1)
			go func() {
				defer rw.Done()
				for k := range jobs {
					steps := rs[i].behs[k]
					mis, stuck, sched, rec, err := replayBehaviour(in.sc, steps)
					mu.Lock()
					if err != nil && firstErr == nil {
						firstErr = err
					}
					sc := in.sc
					sc.Schedule = sched
					if mis != "" {
						if which == "C08" {
							ctx.Report(fmt.Sprintf("C08:replay:%s", in.proto), fmt.Sprintf("behaviour generated by TLC from EngineGen.tla (%s n=%d+%d) replayed on the code: %s", in.proto, in.nold, in.nnew, mis), sc)
						} else {
							ctx.Note("drift (judged by C08): %s", mis)
						}
					} else if err == nil {
						cov.Case(fmt.Sprintf("replay|%s|%d|%d", in.proto, i, k), true)
						if stuck != "" && which == "C07" {
							ctx.Report(fmt.Sprintf("C07:replay-stuck:%s", in.proto), fmt.Sprintf("schedule enumerated by TLC (%s n=%d+%d): %s", in.proto, in.nold, in.nnew, stuck), sc)
						}
						if rec != nil && which == "C07" {
							sent := strings.Join(rec.Sent, ",")
							if sentRef == "" {
								sentRef = sent
							} else if sent != sentRef {
								ctx.Report(fmt.Sprintf("C07:replay-sentset:%s", in.proto), fmt.Sprintf("two schedules of %s n=%d+%d send different message sets", in.proto, in.nold, in.nnew), sc)
							}
							if stuck == "" {
								if msg := ResultOracle(rec); msg != "" {
									ctx.Report(fmt.Sprintf("C07:replay-result:%s", in.proto), fmt.Sprintf("schedule enumerated by TLC (%s): %s", in.proto, msg), sc)
								}
							}
						}
					}
					mu.Unlock()
				}
			}()
		}
		for k := range rs[i].behs {
			jobs <- k
		}
		close(jobs)
		rw.Wait()
		if firstErr != nil {
			return core.Inconcl("replay driver: %v", firstErr)
		}
		total += len(rs[i].behs)
		cov.AddMC(rs[i].r.Distinct, rs[i].r.Generated)
		if i == 0 && len(rs[i].behs) > 0 {
			b, _ := json.Marshal(rs[i].behs[len(rs[i].behs)/2])
			cov.Sample(map[string]any{"tlc_behaviour_replayed": core.Short(string(b), 700)}, 20)
		}
	}
	cov.Set("tlc_behaviours_replayed_on_code", total)
	cov.Set("tlc_behaviour_sets", desc)
	cov.AddTraces(total)
	return nil
}
