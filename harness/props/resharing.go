package props

import (
	"fmt"
	"math/big"
	"math/rand"
	"strings"
	"sync"
	"time"

	"github.com/bnb-chain/tss-lib/v2/common"
	eckg "github.com/bnb-chain/tss-lib/v2/ecdsa/keygen"
	edkg "github.com/bnb-chain/tss-lib/v2/eddsa/keygen"

	"verif/harness/core"
	"verif/harness/ev"
	"verif/harness/obs"
	"verif/harness/pump"
	"verif/harness/tlc"
)

func ackType(p pump.Proto) string {
	if p == pump.EdReshare {
		return "DGRound4Message"
	}
	return "DGRound4Message2"
}

// signWith runs a real signing session (FIFO) with the given live key structs and returns "" if the
// signature is valid under pub.
func signEd(keys []edkg.LocalPartySaveData, t int, seed int64) string {
	s, err := pump.New(pump.Config{Proto: pump.EdSigning, N: len(keys), T: t, EdKeys: keys, Msg: big.NewInt(0xC0FFEE + seed), Seed: seed}, nil)
	if err != nil {
		return "cannot build signing session: " + err.Error()
	}
	st, _ := pump.StrategyByName("fifo")
	s.Run(st, rand.New(rand.NewSource(seed)), 100000)
	var sigs []*common.SignatureData
	for _, n := range s.Nodes {
		if n.Err != nil {
			return fmt.Sprintf("signer %d failed: %v", n.G, n.Err)
		}
		for _, r := range n.Results {
			sigs = append(sigs, r.(*common.SignatureData))
		}
	}
	if len(sigs) != len(keys) {
		return fmt.Sprintf("%d of %d signers finished", len(sigs), len(keys))
	}
	return SigOracleEddsa(pt(keys[0].EDDSAPub), s.Cfg.Msg, 0, sigs)
}

func signEc(keys []eckg.LocalPartySaveData, t int, seed int64) string {
	s, err := pump.New(pump.Config{Proto: pump.EcSigning, N: len(keys), T: t, EcKeys: keys, Msg: big.NewInt(0xC0FFEE + seed), Seed: seed}, nil)
	if err != nil {
		return "cannot build signing session: " + err.Error()
	}
	st, _ := pump.StrategyByName("fifo")
	s.Run(st, rand.New(rand.NewSource(seed)), 100000)
	var sigs []*common.SignatureData
	for _, n := range s.Nodes {
		if n.Err != nil {
			return fmt.Sprintf("signer %d failed: %v", n.G, n.Err)
		}
		for _, r := range n.Results {
			sigs = append(sigs, r.(*common.SignatureData))
		}
	}
	if len(sigs) != len(keys) {
		return fmt.Sprintf("%d of %d signers finished", len(sigs), len(keys))
	}
	return SigOracleEcdsa(pt(keys[0].ECDSAPub), s.Cfg.Msg, 0, sigs)
}

// reshareRun executes one resharing scenario with the C04 observers.
type reshareOutcome struct {
	rec       *RunRecord
	orderBad  string // first violation of the ordering clause seen from outside
	cutBad    string // a cut point at which intact old key data could not sign
	cutChecks int
	newEd     []edkg.LocalPartySaveData
	newEc     []eckg.LocalPartySaveData
}

func reshareRun(sc Scenario, cutEvery int) (*reshareOutcome, error) {
	out := &reshareOutcome{}
	var origXi []*big.Int
	var cfgp *pump.Config
	observe := func(s *pump.Session) (intact, emitted, acked []int) {
		for i := 0; i < s.NOld; i++ {
			var cur *big.Int
			if sc.Proto == pump.EdReshare {
				cur = cfgp.EdKeys[i].Xi
			} else {
				cur = cfgp.EcKeys[i].Xi
			}
			if cur.Cmp(origXi[i]) == 0 {
				intact = append(intact, i+1)
			}
		}
		for _, n := range s.Nodes[s.NOld:] {
			if len(n.Results) >= 1 {
				emitted = append(emitted, n.G)
			}
		}
		seen := map[int]bool{}
		for _, it := range s.All {
			if it.Msg.Type == ackType(sc.Proto) && !seen[it.Msg.From] {
				seen[it.Msg.From] = true
				acked = append(acked, it.Msg.From)
			}
		}
		return
	}
	opts := ExecOpts{
		Prepare: func(s *pump.Session, cfg *pump.Config) {
			cfgp = cfg
			for i := 0; i < s.NOld; i++ {
				if sc.Proto == pump.EdReshare {
					origXi = append(origXi, new(big.Int).Set(cfg.EdKeys[i].Xi))
				} else {
					origXi = append(origXi, new(big.Int).Set(cfg.EcKeys[i].Xi))
				}
			}
		},
		EventHook: func(s *pump.Session, n *pump.Node, e *ev.Event) {
			e.Intact, e.Emitted, e.Acked = observe(s)
			if (len(e.Intact) < s.NOld || len(e.Emitted) > 0) && len(e.Acked) < s.NNew && out.orderBad == "" {
				out.orderBad = fmt.Sprintf("after %s: intact old members %v of %d, new members that emitted %v, but only %v of %d new members have acknowledged",
					describeEvent(e), e.Intact, s.NOld, e.Emitted, e.Acked, s.NNew)
			}
		},
		AfterStep: func(step int, s *pump.Session, rec *RunRecord) error {
			if cutEvery <= 0 || step%cutEvery != 0 || out.cutBad != "" {
				return nil
			}
			intact, _, _ := observe(s)
			if len(intact) < s.NOld {
				return nil
			}
			// the run is cut here: the old committee's live key data must still sign
			out.cutChecks++
			var m string
			if sc.Proto == pump.EdReshare {
				m = signEd(cfgp.EdKeys[:sc.T+1], sc.T, int64(step)+7)
			} else {
				m = signEc(cfgp.EcKeys[:sc.T+1], sc.T, int64(step)+7)
			}
			if m != "" {
				out.cutBad = fmt.Sprintf("run cut after step %d with no share erased, but the old committee's key data cannot sign: %s", step, m)
			}
			return nil
		},
	}
	rec, err := ExecScenarioOpts(sc, opts)
	if err != nil {
		return nil, err
	}
	out.rec = rec
	for _, n := range rec.Session.Nodes[rec.Session.NOld:] {
		for _, r := range n.Results {
			switch k := r.(type) {
			case *edkg.LocalPartySaveData:
				out.newEd = append(out.newEd, *k)
			case *eckg.LocalPartySaveData:
				out.newEc = append(out.newEc, *k)
			}
		}
	}
	return out, nil
}

type rsSize struct {
	proto                  pump.Proto
	keyN, t, n, newN, newT int
	noProofs               bool
}

func c04Plan(ctx *core.Ctx) []Scenario {
	var sizes []rsSize
	if !ctx.Thorough() {
		sizes = []rsSize{
			{pump.EdReshare, 3, 1, 2, 2, 1, false}, // t' = t
			{pump.EdReshare, 3, 1, 2, 3, 2, false}, // t' > t
			{pump.EdReshare, 3, 1, 3, 2, 1, false}, // more than t+1 old participants
			{pump.EdReshare, 4, 2, 3, 3, 1, false}, // t' < t
			{pump.EcReshare, 5, 2, 3, 2, 1, true},  // t' < t
			{pump.EcReshare, 5, 2, 3, 4, 3, true},  // t' > t
			{pump.EcReshare, 5, 2, 4, 3, 2, false}, // t' = t, proofs on, more than t+1 old participants
		}
	} else {
		sizes = []rsSize{
			{pump.EdReshare, 3, 1, 2, 2, 1, false}, {pump.EdReshare, 3, 1, 2, 3, 2, false}, {pump.EdReshare, 3, 1, 3, 2, 1, false},
			{pump.EdReshare, 4, 2, 3, 3, 1, false}, {pump.EdReshare, 4, 2, 4, 4, 3, false}, {pump.EdReshare, 2, 1, 2, 4, 2, false},
			{pump.EdReshare, 5, 3, 4, 3, 2, false}, {pump.EdReshare, 3, 2, 3, 5, 1, false},
			{pump.EcReshare, 5, 2, 3, 2, 1, true}, {pump.EcReshare, 5, 2, 3, 3, 1, false}, {pump.EcReshare, 5, 2, 4, 3, 2, false},
			{pump.EcReshare, 5, 2, 5, 4, 3, true}, {pump.EcReshare, 3, 1, 2, 2, 1, false},
		}
	}
	var scs []Scenario
	i := 0
	for _, sz := range sizes {
		total := sz.n + sz.newN
		strats := []string{"fifo", "lifo", "random", fmt.Sprintf("prestart:%d", total), "duplate"}
		if sz.proto == pump.EcReshare && !ctx.Thorough() {
			strats = []string{"fifo", "random"}
		}
		if ctx.Thorough() {
			strats = append(strats, "random", "random", "future", "starve:1", fmt.Sprintf("prestart:%d", sz.n+1))
			if sz.proto == pump.EcReshare {
				strats = strats[:5]
			}
		}
		for _, st := range strats {
			scs = append(scs, Scenario{Proto: sz.proto, N: sz.n, T: sz.t, KeyN: sz.keyN, NewN: sz.newN, NewT: sz.newT, NoProofs: sz.noProofs,
				Strategy: st, Seed: ctx.Seed*4001 + int64(i) + 1})
			i++
		}
		// a single party going silent at a seeded point of a random schedule
		nsil := ctx.Pick(3, total)
		if sz.proto == pump.EcReshare {
			nsil = ctx.Pick(1, 3)
		}
		rng := rand.New(rand.NewSource(ctx.Seed*77 + int64(i)))
		for k := 0; k < nsil; k++ {
			node := 1 + (k*2+int(ctx.Seed))%total
			scs = append(scs, Scenario{Proto: sz.proto, N: sz.n, T: sz.t, KeyN: sz.keyN, NewN: sz.newN, NewT: sz.newT, NoProofs: sz.noProofs,
				Strategy: "random", Seed: ctx.Seed*4001 + int64(i) + 1, SilentNode: node, SilentAfter: 2 + rng.Intn(6*total)})
			i++
		}
	}
	return scs
}

func resharingMCInsts(ctx *core.Ctx) []mcInstance {
	if !ctx.Thorough() {
		return []mcInstance{{"eddsa-resharing", 2, 2, 1, 0, 3, "3g"}, {"ecdsa-resharing", 2, 2, 0, 0, 3, "3g"}}
	}
	return []mcInstance{{"eddsa-resharing", 2, 2, 1, 1, 4, "6g"}, {"ecdsa-resharing", 2, 2, 1, 0, 4, "6g"}, {"eddsa-resharing", 2, 3, 0, 0, 6, "8g"}}
}

func runResharingMC(insts []mcInstance) []mcResult {
	out := make([]mcResult, len(insts))
	var wg sync.WaitGroup
	sem := make(chan struct{}, 2)
	for i, in := range insts {
		wg.Add(1)
		go func(i int, in mcInstance) {
			defer wg.Done()
			sem <- struct{}{}
			defer func() { <-sem }()
			cfg := "SPECIFICATION RSpec\n" + tlc.EngineConstants(in.proto, in.nold, in.nnew, tlc.CodeFlags) +
				fmt.Sprintf("  MaxDups = %d\n  MaxFlips = %d\n", in.dups, in.flips) +
				"INVARIANTS TypeOK EndOnce OrderInv AckAfterShares IntactUntilAcked RNoStuck\nVIEW RView\nCHECK_DEADLOCK FALSE\n"
			out[i] = mcResult{in, tlc.Run(tlc.Options{Module: "ResharingMC", Cfg: cfg, Workers: in.workers, Heap: in.heap, Timeout: 25 * time.Minute})}
		}(i, in)
	}
	wg.Wait()
	return out
}

func C04(ctx *core.Ctx) error {
	cov := core.NewCov()
	var plan []Scenario
	if ctx.Replay != "" {
		var sc Scenario
		if _, err := core.LoadReplay(ctx.Replay, &sc); err != nil {
			return core.Inconcl("cannot load replay: %v", err)
		}
		plan = []Scenario{sc}
	} else {
		plan = c04Plan(ctx)
	}
	var mcs []mcResult
	var wg sync.WaitGroup
	if ctx.Replay == "" {
		wg.Add(1)
		go func() { defer wg.Done(); mcs = runResharingMC(resharingMCInsts(ctx)) }()
	}
	outs := make([]*reshareOutcome, len(plan))
	errs := make([]error, len(plan))
	var rw sync.WaitGroup
	ch := make(chan int)
	for w := 0; w < 10; w++ {
		rw.Add(1)
		go func() {
			defer rw.Done()
			for i := range ch {
				cut := 1
				if plan[i].Proto == pump.EcReshare {
					cut = ctx.Pick(16, 5)
				}
				outs[i], errs[i] = reshareRun(plan[i], cut)
			}
		}()
	}
	for i := range plan {
		ch <- i
	}
	close(ch)
	rw.Wait()
	wg.Wait()
	for _, e := range errs {
		if e != nil {
			return core.Inconcl("driver failed: %v", e)
		}
	}
	for _, m := range mcs {
		if m.Res.Err != nil {
			return core.Inconcl("TLC failed on ResharingMC %s: %v", m.Inst.proto, m.Res.Err)
		}
		if !m.Res.OK {
			return core.Inconcl("ResharingMC %s %d/%d violates %s (design level):\n%s", m.Inst.proto, m.Inst.nold, m.Inst.nnew, m.Res.Violated, m.Res.ErrorTrace(2500))
		}
		cov.AddMC(m.Res.Distinct, m.Res.Generated)
	}
	// trace validation with the resharing observations
	var all []ev.Event
	for _, o := range outs {
		all = append(all, o.rec.Events...)
	}
	groups, terr := tlc.ValidateTraces(all, tlc.CodeFlags, "Resharing_Trace", "RTraceSpec", "RTraceInv", "")
	if terr != nil {
		return core.Inconcl("trace validation machinery failed: %v", terr)
	}
	idx := map[string][]*reshareOutcome{}
	for _, o := range outs {
		k := fmt.Sprintf("%s/%d/%d", o.rec.Sc.Proto, o.rec.Session.NOld, o.rec.Session.NNew)
		idx[k] = append(idx[k], o)
	}
	acc := 0
	for _, g := range groups {
		if g.Accepted {
			acc += g.Runs
			continue
		}
		acc += g.FailRun
		k := fmt.Sprintf("%s/%d/%d", g.Proto, g.NOld, g.NNew)
		var sc Scenario
		if g.FailRun >= 0 && g.FailRun < len(idx[k]) {
			sc = idx[k][g.FailRun].rec.Sc
		}
		what := fmt.Sprintf("resharing trace (%s, %s) rejected by Resharing_Trace.tla: %s at %s (intact=%v emitted=%v acked=%v)",
			sc.GroupKey(), sc.Strategy, g.Violated, describeEvent(g.FailEvent), fe(g.FailEvent).Intact, fe(g.FailEvent).Emitted, fe(g.FailEvent).Acked)
		if g.Violated == "RTraceInv" {
			ctx.Report(fmt.Sprintf("C04:order-trace:%s", g.Proto), what, sc)
		} else {
			// engine-level nonconformance is judged by C08; here only the ordering observations count, and they are
			// also evaluated directly below
			ctx.Note("drift: %s", what)
		}
	}
	cov.AddTraces(acc)
	totalCuts := 0
	for _, o := range outs {
		sc := o.rec.Sc
		r := o.rec
		cov.Case(fmt.Sprintf("%s|%s|%d|%d.%d", sc.GroupKey(), sc.Strategy, sc.Seed, sc.SilentNode, sc.SilentAfter), true)
		totalCuts += o.cutChecks
		if o.orderBad != "" {
			ctx.Report(fmt.Sprintf("C04:order:%s", sc.Proto), fmt.Sprintf("%s (%s): %s", sc.GroupKey(), sc.Strategy, o.orderBad), sc)
		}
		if o.cutBad != "" {
			ctx.Report(fmt.Sprintf("C04:cut:%s", sc.Proto), fmt.Sprintf("%s (%s): %s", sc.GroupKey(), sc.Strategy, o.cutBad), sc)
		}
		if len(r.Errs) > 0 {
			ctx.Report(fmt.Sprintf("C04:error:%s", sc.Proto), fmt.Sprintf("honest resharing %s (%s) reported errors: %s", sc.GroupKey(), sc.Strategy, strings.Join(r.Errs, "; ")), sc)
			continue
		}
		if sc.SilentNode > 0 {
			continue // a cut run: only the invariants above apply
		}
		if !r.Quiescent {
			return core.Inconcl("resharing %s did not reach quiescence", sc.GroupKey())
		}
		if msg := ResultOracle(r); msg != "" {
			ctx.Report(fmt.Sprintf("C04:result:%s:%s", sc.Proto, oracleClass(msg)), fmt.Sprintf("%s (%s): %s", sc.GroupKey(), sc.Strategy, msg), sc)
			continue
		}
		// any t'+1 new members can sign under the unchanged key
		var m string
		if sc.Proto == pump.EdReshare {
			sub := pickSubset(o.newEd, sc.NewT+1, int(sc.Seed))
			m = signEd(sub, sc.NewT, sc.Seed)
		} else {
			sub := pickSubsetEc(o.newEc, sc.NewT+1, int(sc.Seed))
			m = signEc(sub, sc.NewT, sc.Seed)
		}
		if m != "" {
			ctx.Report(fmt.Sprintf("C04:newsign:%s", sc.Proto), fmt.Sprintf("%s (%s): %d new members cannot sign under the group key: %s", sc.GroupKey(), sc.Strategy, sc.NewT+1, m), sc)
		}
		cov.Sample(map[string]any{"scenario": sc.GroupKey(), "strategy": sc.Strategy, "steps": len(sc.Schedule), "cut_points_signed": o.cutChecks}, 6)
	}
	// chains of successive resharings (EdDSA): key -> committee A -> committee B (-> C), then sign
	if ctx.Replay == "" {
		if msg, n := resharingChains(ctx); msg != "" {
			ctx.Report("C04:chain:eddsa-resharing", msg, map[string]any{"chain": "eddsa", "seed": ctx.Seed})
		} else {
			cov.Set("chains", n)
		}
	}
	cov.Set("cut_points_at_which_old_committee_signed", totalCuts)
	cov.Set("runs", len(outs))
	_ = obs.Ed
	// data-level conformance: real ECDSA resharings on toy curves, every value recomputed by TLC (ResharingData.tla)
	if ctx.Replay == "" {
		if err := rdPhase(ctx, cov, "C04"); err != nil {
			return err
		}
	}
	return ctx.WriteEvidence("model_checking",
		"one case = one real resharing run (old (n,t), participating subset size, new (n',t') with t'<t,=t,>t, proofs on/off, schedule, optionally one party going silent at a seeded step); "+
			"after every single call the harness records which old shares are intact (compared with a snapshot), which new members emitted, which final ACKs are on the wire; "+
			"Resharing_Trace.tla must explain every line and its ordering invariants must hold in every state; at cut points with no erase the old committee's live key data must still produce a valid signature; "+
			"completed runs: C03 predicates for the new committee, unchanged group key, old shares erased, t'+1 new members sign; ResharingMC.tla model-checks the ordering with arbitrary cut points and one silent party",
		cov, []string{"new committee ids are distinct from the old ones", "a new member accepting shares of a wrong key is exercised by C05's fault catalogue"},
		"java tlc2.TLC ResharingMC.tla / Resharing_Trace.tla")
}

func fe(e *ev.Event) ev.Event {
	if e == nil {
		return ev.Event{}
	}
	return *e
}

func pickSubset(keys []edkg.LocalPartySaveData, k, seed int) []edkg.LocalPartySaveData {
	n := len(keys)
	var out []edkg.LocalPartySaveData
	for i := 0; i < k; i++ {
		out = append(out, keys[(seed+i)%n])
	}
	return out
}

func pickSubsetEc(keys []eckg.LocalPartySaveData, k, seed int) []eckg.LocalPartySaveData {
	n := len(keys)
	var out []eckg.LocalPartySaveData
	for i := 0; i < k; i++ {
		out = append(out, keys[(seed+i)%n])
	}
	return out
}

// resharingChains runs chains of successive EdDSA resharings and signs with the last committee.
func resharingChains(ctx *core.Ctx) (string, int) {
	type hop struct{ n, newN, newT int }
	chains := [][]hop{{{2, 3, 1}, {2, 2, 1}}, {{3, 4, 2}, {3, 3, 1}, {2, 3, 2}}}
	if !ctx.Thorough() {
		chains = chains[:1]
	}
	count := 0
	for ci, ch := range chains {
		keys, err := pump.FreshEdKeygen(3, 1, ctx.Seed+int64(ci)+900, nil)
		if err != nil {
			return "keygen failed: " + err.Error(), count
		}
		pub := pt(keys[0].EDDSAPub)
		t := 1
		for hi, h := range ch {
			var pk []*big.Int
			for i := 0; i < h.newN; i++ {
				pk = append(pk, big.NewInt(int64(1000*(hi+2)+i+1)))
			}
			in := make([]edkg.LocalPartySaveData, h.n)
			for i := range in {
				in[i] = copyEd(keys[i])
			}
			s, err := pump.New(pump.Config{Proto: pump.EdReshare, N: h.n, T: t, NewN: h.newN, NewT: h.newT, EdKeys: in, PartyKeys: pk, Seed: ctx.Seed + int64(hi)}, nil)
			if err != nil {
				return "cannot build resharing: " + err.Error(), count
			}
			strat, _ := pump.StrategyByName([]string{"fifo", "lifo", "random"}[(hi+ci)%3])
			s.Run(strat, rand.New(rand.NewSource(ctx.Seed+int64(hi))), 100000)
			var next []edkg.LocalPartySaveData
			for _, n := range s.Nodes[s.NOld:] {
				if n.Err != nil || len(n.Results) != 1 {
					return fmt.Sprintf("chain %d hop %d: new member %d did not finish (err=%v)", ci, hi, n.G, n.Err), count
				}
				next = append(next, *n.Results[0].(*edkg.LocalPartySaveData))
			}
			var views []ShareView
			for i := range next {
				views = append(views, edView(&next[i]))
			}
			if m := SharingOracle(obs.Ed, views, h.newT); m != "" {
				return fmt.Sprintf("chain %d hop %d: %s", ci, hi, m), count
			}
			if !views[0].Pub.Eq(pub) {
				return fmt.Sprintf("chain %d hop %d changed the group key", ci, hi), count
			}
			keys, t = next, h.newT
			count++
		}
		if m := signEd(keys[:t+1], t, ctx.Seed+int64(ci)); m != "" {
			return fmt.Sprintf("chain %d: last committee cannot sign: %s", ci, m), count
		}
	}
	return "", count
}
