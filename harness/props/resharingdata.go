package props

// Data-level conformance of resharing (spec/ResharingData.tla, spec/ResharingData_Trace.tla): the REAL ECDSA resharing is
// run on a toy elliptic curve of prime order Q over key material produced by a real key generation on the same curve.
// Every point is projected to its discrete logarithm; TLC recomputes the Lagrange-weighted shares the old members must
// deal, every new share, every new public point and the (unchanged) key, and predicts, for a fault applied by the
// harness, which new members refuse and whom they name.  Honest runs belong to C04, faulted runs to C05.

import (
	"encoding/hex"
	"encoding/json"
	"fmt"
	"math/big"
	"math/rand"
	"os"
	"path/filepath"
	"sort"
	"strings"
	"sync"
	"time"

	"github.com/bnb-chain/tss-lib/v2/crypto/commitments"
	eckg "github.com/bnb-chain/tss-lib/v2/ecdsa/keygen"

	"verif/harness/core"
	"verif/harness/pump"
	"verif/harness/tamper"
	"verif/harness/tlc"
	"verif/harness/toy"
)

type rdCase struct {
	Q      int     `json:"q"`
	KeyN   int     `json:"key_n"` // old committee size
	TOld   int     `json:"t_old"`
	KeyIds []int64 `json:"key_ids"` // old committee ids (sorted)
	Part   []int   `json:"part"`    // participating old members (1-based indices into KeyIds, ascending)
	NNew   int     `json:"n_new"`
	TNew   int     `json:"t_new"`
	NewIds []int64 `json:"new_ids"`
	Seed   int64   `json:"seed"`
	Fault  kdFault `json:"fault"` // from = index among the participating old members, to = index in the new committee
}

func (c rdCase) oldIds() []int64 {
	var o []int64
	for _, p := range c.Part {
		o = append(o, c.KeyIds[p-1])
	}
	return o
}
func (c rdCase) group() string {
	return fmt.Sprintf("q%d/old%v.t%d/new%v.t%d", c.Q, c.oldIds(), c.TOld, c.NewIds, c.TNew)
}
func (c rdCase) id() string {
	return fmt.Sprintf("%s/seed%d/%s.%d>%d.%d", c.group(), c.Seed, c.Fault.Kind, c.Fault.From, c.Fault.To, c.Fault.Idx)
}

type rdRun struct {
	Case    rdCase
	KeyPoly []int   // coefficients of the existing sharing (interpolated from the old shares)
	Polys   [][]int // [old participant][coef] logs of the dealer's own commitments
	Shares  [][]int // [old participant][new member]
	AnnY    []int   // group key announced by each old participant (log)
	R4      []kdR3
	Skip    string
}

var (
	toyKeyMu   sync.Mutex
	toyKeyMemo = map[string][]eckg.LocalPartySaveData{}
)

// toyEcKeys returns ECDSA key data on the toy curve of order q made by a real key generation (some seeds hit an identity
// point or a zero coefficient in the toy group: the next seed is tried).
func toyEcKeys(q, n, t int, ids []int64, seed int64) ([]eckg.LocalPartySaveData, error) {
	k := fmt.Sprintf("%d/%d/%d/%v/%d", q, n, t, ids, seed)
	toyKeyMu.Lock()
	defer toyKeyMu.Unlock()
	if v, ok := toyKeyMemo[k]; ok {
		return v, nil
	}
	cv, err := toy.Find(q)
	if err != nil {
		return nil, err
	}
	pp, err := pump.PreParams(n)
	if err != nil {
		return nil, err
	}
	var keys []*big.Int
	for _, id := range ids {
		keys = append(keys, big.NewInt(id))
	}
	for try := int64(0); try < 12; try++ {
		s, err := pump.New(pump.Config{Proto: pump.EcKeygen, N: n, T: t, PreParams: pp, Seed: seed*100 + try + 1, Curve: cv.EC(), PartyKeys: keys}, nil)
		if err != nil {
			return nil, err
		}
		st, _ := pump.StrategyByName("fifo")
		s.Run(st, rand.New(rand.NewSource(seed)), 100000)
		var out []eckg.LocalPartySaveData
		for _, nd := range s.Nodes {
			if nd.Err == nil && nd.Panic == "" && len(nd.Results) == 1 {
				out = append(out, *nd.Results[0].(*eckg.LocalPartySaveData))
			}
		}
		if len(out) == n {
			toyKeyMemo[k] = out
			return out, nil
		}
	}
	return nil, fmt.Errorf("no toy key generation of 12 completed (q=%d n=%d t=%d)", q, n, t)
}

// interpolate returns the coefficients of the polynomial of degree < len(xs) through (xs[i], ys[i]) modulo the prime q.
func interpolate(xs []int64, ys []int, q int) []int {
	n := len(xs)
	coef := make([]int, n)
	inv := func(a int) int { // Fermat
		r, b, e := 1, modq(a, q), q-2
		for e > 0 {
			if e&1 == 1 {
				r = r * b % q
			}
			b = b * b % q
			e >>= 1
		}
		return r
	}
	for i := 0; i < n; i++ {
		// basis polynomial l_i(x) = prod_{j != i} (x - x_j) / (x_i - x_j)
		basis := []int{1}
		den := 1
		for j := 0; j < n; j++ {
			if j == i {
				continue
			}
			xj := modq(int(xs[j]%int64(q)), q)
			nb := make([]int, len(basis)+1)
			for k, b := range basis {
				nb[k] = modq(nb[k]-b*xj, q)
				nb[k+1] = modq(nb[k+1]+b, q)
			}
			basis = nb
			den = den * modq(int(xs[i]%int64(q))-xj, q) % q
		}
		f := ys[i] * inv(den) % q
		for k, b := range basis {
			coef[k] = modq(coef[k]+b*f, q)
		}
	}
	return coef
}

func execRD(c rdCase) (*rdRun, error) {
	cv, err := toy.Find(c.Q)
	if err != nil {
		return nil, err
	}
	all, err := toyEcKeys(c.Q, c.KeyN, c.TOld, c.KeyIds, c.Seed)
	if err != nil {
		return &rdRun{Case: c, Skip: err.Error()}, nil
	}
	f := c.Fault
	var oldKeys []eckg.LocalPartySaveData
	for _, p := range c.Part {
		k := all[p-1]
		k.Xi = new(big.Int).Set(k.Xi) // the session erases the old shares: work on copies
		oldKeys = append(oldKeys, k)
	}
	if f.Kind == "secret" {
		oldKeys[f.From-1].Xi = new(big.Int).Add(oldKeys[f.From-1].Xi, big.NewInt(int64(f.Delta)))
	}
	// the polynomial of the existing sharing, from TOld+1 of the (unaltered) old shares
	var xs []int64
	var ys []int
	for i := 0; i <= c.TOld; i++ {
		xs = append(xs, c.KeyIds[i])
		ys = append(ys, int(all[i].Xi.Int64()))
	}
	keyPoly := interpolate(xs, ys, c.Q)
	for i := range all {
		if evalPoly(keyPoly, c.KeyIds[i], c.Q) != int(all[i].Xi.Int64()) {
			return nil, fmt.Errorf("the old shares do not lie on one polynomial of degree %d (harness)", c.TOld)
		}
	}
	pp, err := pump.PreParamsFrom(c.KeyN%2, c.NNew)
	if err != nil {
		return nil, err
	}
	var newKeys []*big.Int
	for _, id := range c.NewIds {
		newKeys = append(newKeys, big.NewInt(id))
	}
	cfg := pump.Config{Proto: pump.EcReshare, N: len(c.Part), T: c.TOld, NewN: c.NNew, NewT: c.TNew, EcKeys: oldKeys, PreParams: pp,
		PartyKeys: newKeys, Seed: c.Seed, Curve: cv.EC()}
	nold := len(c.Part)
	var craftedC, craftedD []byte
	if f.Kind == "commit" {
		pre, err := execRD(rdCase{Q: c.Q, KeyN: c.KeyN, TOld: c.TOld, KeyIds: c.KeyIds, Part: c.Part, NNew: c.NNew, TNew: c.TNew, NewIds: c.NewIds, Seed: c.Seed, Fault: kdFault{Kind: "none"}})
		if err != nil {
			return nil, err
		}
		if pre.Skip != "" {
			return &rdRun{Case: c, Skip: "pre-run: " + pre.Skip}, nil
		}
		rdPreMu.Lock()
		open := rdPreOpen[c.group()+fmt.Sprint(c.Seed)][f.From]
		rdPreMu.Unlock()
		if open == nil {
			return &rdRun{Case: c, Skip: "pre-run has no de-commitment of the dealer"}, nil
		}
		vals := make([]*big.Int, len(open))
		for i := range open {
			vals[i] = new(big.Int).Set(open[i])
		}
		k, ok := cv.Dlog(vals[1+2*(f.Idx-1)], vals[2+2*(f.Idx-1)])
		if !ok {
			return &rdRun{Case: c, Skip: "dealer's commitment is not a group element"}, nil
		}
		nx, ny := big.NewInt(0), big.NewInt(0)
		if x2, y2, ok := cv.XY(k + f.Delta); ok {
			nx, ny = x2, y2
		}
		vals[1+2*(f.Idx-1)], vals[2+2*(f.Idx-1)] = nx, ny
		cm := commitments.NewHashCommitmentWithRandomness(vals[0], vals[1:]...)
		craftedC = cm.C.Bytes()
		var hs []string
		for _, v := range vals {
			hs = append(hs, hexZ(v))
		}
		craftedD = []byte(strings.Join(hs, ","))
	}
	s, err := pump.New(cfg, nil)
	if err != nil {
		return nil, err
	}
	rng := rand.New(rand.NewSource(c.Seed))
	var mutErr error
	s.Mutate = func(it *pump.Item) []byte {
		if f.Kind == "none" || f.Kind == "secret" || it.From.G != f.From {
			return nil
		}
		toNew := it.To.G - nold
		set := func(field string, idx int, v *big.Int, wire []byte) []byte {
			w, _, err := tamper.Apply(wire, tamper.Spec{Field: field, Index: idx, Kind: "set", Hex: hexZ(v)}, rng, nil)
			if err != nil {
				mutErr = err
				return nil
			}
			return w
		}
		switch f.Kind {
		case "share":
			if it.Msg.Type == "DGRound3Message1" && toNew == f.To {
				b, err := tamper.Get(it.Wire, "share", 0)
				if err != nil {
					mutErr = err
					return nil
				}
				return set("share", 0, new(big.Int).Add(new(big.Int).SetBytes(b), big.NewInt(int64(f.Delta))), it.Wire)
			}
		case "open":
			if it.Msg.Type == "DGRound3Message2" && toNew == f.To {
				xb, e1 := tamper.Get(it.Wire, "v_decommitment", 1+2*(f.Idx-1))
				yb, e2 := tamper.Get(it.Wire, "v_decommitment", 2+2*(f.Idx-1))
				if e1 != nil || e2 != nil {
					mutErr = fmt.Errorf("de-commitment too short")
					return nil
				}
				k, ok := cv.Dlog(new(big.Int).SetBytes(xb), new(big.Int).SetBytes(yb))
				if !ok {
					mutErr = fmt.Errorf("dealer's commitment is not a group element")
					return nil
				}
				nx, ny := big.NewInt(0), big.NewInt(0)
				if x2, y2, ok := cv.XY(k + f.Delta); ok {
					nx, ny = x2, y2
				}
				w := set("v_decommitment", 1+2*(f.Idx-1), nx, it.Wire)
				if w == nil {
					return nil
				}
				return set("v_decommitment", 2+2*(f.Idx-1), ny, w)
			}
		case "commit":
			if it.Msg.Type == "DGRound1Message" {
				w, _, err := tamper.Apply(it.Wire, tamper.Spec{Field: "v_commitment", Kind: "set", Hex: hex.EncodeToString(craftedC)}, rng, nil)
				if err != nil {
					mutErr = err
					return nil
				}
				return w
			}
			if it.Msg.Type == "DGRound3Message2" {
				w, _, err := tamper.Apply(it.Wire, tamper.Spec{Field: "v_decommitment", Kind: "setlist", Hex: string(craftedD)}, rng, nil)
				if err != nil {
					mutErr = err
					return nil
				}
				return w
			}
		}
		return nil
	}
	st, _ := pump.StrategyByName("fifo")
	s.Run(st, rand.New(rand.NewSource(c.Seed)), 200000)
	if mutErr != nil {
		return nil, fmt.Errorf("fault injection: %v", mutErr)
	}
	run := &rdRun{Case: c, KeyPoly: keyPoly, Polys: make([][]int, nold), Shares: make([][]int, nold), AnnY: make([]int, nold), R4: make([]kdR3, c.NNew)}
	for i := range run.Shares {
		run.Shares[i] = make([]int, c.NNew)
	}
	opens := map[int][]*big.Int{}
	for _, it := range s.All {
		p := it.From.G - 1
		if p >= nold {
			continue
		}
		switch it.Msg.Type {
		case "DGRound1Message":
			xb, e1 := tamper.Get(it.Wire, "ecdsa_pub_x", 0)
			yb, e2 := tamper.Get(it.Wire, "ecdsa_pub_y", 0)
			if e1 != nil || e2 != nil {
				return nil, fmt.Errorf("DGRound1Message without public key fields")
			}
			d, ok := cv.Dlog(new(big.Int).SetBytes(xb), new(big.Int).SetBytes(yb))
			if !ok {
				return &rdRun{Case: c, Skip: "announced key is not a group element"}, nil
			}
			run.AnnY[p] = d
		case "DGRound3Message1":
			b, err := tamper.Get(it.Wire, "share", 0)
			if err != nil {
				return nil, err
			}
			v := new(big.Int).SetBytes(b)
			if !v.IsInt64() || v.Int64() >= int64(c.Q) {
				return &rdRun{Case: c, Skip: "a dealt share lies outside [0,Q)"}, nil
			}
			run.Shares[p][it.To.G-nold-1] = int(v.Int64())
		case "DGRound3Message2":
			if run.Polys[p] != nil {
				continue
			}
			var vals []*big.Int
			for i := 0; ; i++ {
				b, err := tamper.Get(it.Wire, "v_decommitment", i)
				if err != nil {
					break
				}
				vals = append(vals, new(big.Int).SetBytes(b))
			}
			if len(vals) != 1+2*(c.TNew+1) {
				return &rdRun{Case: c, Skip: fmt.Sprintf("old member %d opened %d values", p+1, len(vals))}, nil
			}
			for _, v := range vals[1:] {
				if v.Sign() == 0 {
					return &rdRun{Case: c, Skip: "an old member published a point with a zero coordinate (empty on the wire)"}, nil
				}
			}
			opens[p+1] = vals
			pl := make([]int, c.TNew+1)
			for k := 0; k <= c.TNew; k++ {
				d, ok := cv.Dlog(vals[1+2*k], vals[2+2*k])
				if !ok {
					return &rdRun{Case: c, Skip: "an old member published a point outside the group"}, nil
				}
				pl[k] = d
			}
			run.Polys[p] = pl
		}
	}
	if f.Kind == "none" {
		rdPreMu.Lock()
		rdPreOpen[c.group()+fmt.Sprint(c.Seed)] = opens
		rdPreMu.Unlock()
	}
	for p := 0; p < nold; p++ {
		if run.Polys[p] == nil {
			why := ""
			for _, n := range s.Nodes {
				if n.Panic != "" {
					why += fmt.Sprintf(" [party %d panic at %s]", n.G, crashSite(n.Panic))
				} else if n.Err != nil {
					why += fmt.Sprintf(" [party %d error: %s]", n.G, core.Short(n.Err.Error(), 160))
				}
			}
			return &rdRun{Case: c, Skip: fmt.Sprintf("old member %d never opened its commitment%s", p+1, why)}, nil
		}
	}
	for _, n := range s.Nodes[nold:] {
		r := kdR3{Out: "none", BigX: []int{}, Culprits: []int{}}
		switch {
		case n.Panic != "":
			r.Out, r.Detail = "panic", core.Short(n.Panic, 300)
		case n.Err != nil:
			r.Out, r.Detail, r.ErrRound = "abort", core.Short(n.Err.Error(), 300), n.Err.Round()
			seen := map[int]bool{}
			for _, cu := range n.Err.Culprits() {
				if cu == nil {
					continue
				}
				for _, m := range s.Nodes {
					if (m.PID == cu || (m.PID.Id == cu.Id && m.PID.KeyInt().Cmp(cu.KeyInt()) == 0)) && !seen[m.G] {
						seen[m.G] = true
						r.Culprits = append(r.Culprits, m.G)
					}
				}
			}
			sort.Ints(r.Culprits)
		case len(n.Results) == 1:
			sd := n.Results[0].(*eckg.LocalPartySaveData)
			r.Out = "ok"
			r.X, r.Y = -1, -1
			if sd.Xi != nil && sd.Xi.Sign() >= 0 {
				// the code saves the plain sum of the shares, a representative of the residue class that need not be reduced
				r.X = int(new(big.Int).Mod(sd.Xi, big.NewInt(int64(c.Q))).Int64())
			}
			for _, bx := range sd.BigXj {
				d := -1
				if bx != nil {
					if k, ok := cv.Dlog(bx.X(), bx.Y()); ok {
						d = k
					}
				}
				r.BigX = append(r.BigX, d)
			}
			if sd.ECDSAPub != nil {
				if k, ok := cv.Dlog(sd.ECDSAPub.X(), sd.ECDSAPub.Y()); ok {
					r.Y = k
				}
			}
		}
		run.R4[n.G-nold-1] = r
	}
	return run, nil
}

var (
	rdPreMu   sync.Mutex
	rdPreOpen = map[string]map[int][]*big.Int{}
)

type rdExpect struct {
	Out      string // ok | refuse | degenerate
	X, Y     int
	BigX     []int
	Culprits []int // old participant indices; empty for "V_0 != y"
}

func lagrangeAt0(ids []int64, i int, q int) int {
	num, den := 1, 1
	xi := modq(int(ids[i]%int64(q)), q)
	for j := range ids {
		if j == i {
			continue
		}
		xj := modq(int(ids[j]%int64(q)), q)
		num = num * modq(-xj, q) % q
		den = den * modq(xi-xj, q) % q
	}
	// inverse by Fermat
	r, b, e := 1, den, q-2
	for e > 0 {
		if e&1 == 1 {
			r = r * b % q
		}
		b = b * b % q
		e >>= 1
	}
	return num * r % q
}

// rdPredict evaluates ResharingData.tla's Round4 for new member j (1-based) in Go.
func rdPredict(run *rdRun, j int) rdExpect {
	c := run.Case
	q, f := c.Q, c.Fault
	nold := len(c.Part)
	committed := func(i int) []int {
		v := append([]int(nil), run.Polys[i-1]...)
		if f.Kind == "commit" && f.From == i {
			v[f.Idx-1] = modq(v[f.Idx-1]+f.Delta, q)
		}
		return v
	}
	openRecv := func(i int) []int {
		v := committed(i)
		if f.Kind == "open" && f.From == i && f.To == j {
			v[f.Idx-1] = modq(v[f.Idx-1]+f.Delta, q)
		}
		return v
	}
	shareRecv := func(i int) int {
		v := run.Shares[i-1][j-1]
		if f.Kind == "share" && f.From == i && f.To == j {
			v += f.Delta
		}
		return v
	}
	var e rdExpect
	for i := 1; i <= nold; i++ {
		o, cm := openRecv(i), committed(i)
		bad := false
		for k := range o {
			if o[k] != cm[k] || o[k] == 0 {
				bad = true
			}
		}
		sh := shareRecv(i)
		if modq(sh, q) == 0 || modq(sh, q) != evalPoly(o, c.NewIds[j-1], q) {
			bad = true
		}
		if bad {
			e.Out, e.Culprits = "refuse", []int{i}
			return e
		}
	}
	vc := make([]int, c.TNew+1)
	degenerate := false
	for k := 0; k <= c.TNew; k++ {
		acc := 0
		for i := 1; i <= nold; i++ {
			acc = modq(acc+openRecv(i)[k], q)
			if acc == 0 {
				degenerate = true
			}
		}
		vc[k] = acc
	}
	x := 0
	for i := 1; i <= nold; i++ {
		x = modq(x+shareRecv(i), q)
	}
	if x == 0 {
		degenerate = true
	}
	e.BigX = make([]int, c.NNew)
	for k := 1; k <= c.NNew; k++ {
		id := modq(int(c.NewIds[k-1]%int64(q)), q)
		acc, pw := 0, 1
		for cI := 0; cI <= c.TNew; cI++ {
			term := modq(vc[cI]*pw, q)
			if term == 0 {
				degenerate = true
			}
			acc = modq(acc+term, q)
			if acc == 0 {
				degenerate = true
			}
			pw = modq(pw*id, q)
		}
		e.BigX[k-1] = acc
	}
	if degenerate {
		e.Out = "degenerate"
		return e
	}
	if vc[0] != run.KeyPoly[0] {
		e.Out, e.Culprits = "refuse", []int{}
		return e
	}
	e.Out, e.X, e.Y = "ok", x, vc[0]
	return e
}

func rdPlan(ctx *core.Ctx, faults bool) []rdCase {
	type shape struct {
		q, keyN, tOld int
		keyIds        []int64
		part          []int
		nNew, tNew    int
		newIds        []int64
	}
	shapes := []shape{
		{251, 3, 1, []int64{1, 2, 3}, []int{1, 3}, 3, 1, []int64{11, 12, 13}},       // a t+1 subset of the holders, same threshold
		{251, 3, 1, []int64{1, 2, 3}, []int{1, 2, 3}, 3, 2, []int64{21, 22, 280}},   // all holders, higher threshold, an id above Q
		{23, 2, 1, []int64{1, 2}, []int{1, 2}, 2, 1, []int64{5, 30}},
	}
	reps := 1
	if ctx.Thorough() {
		shapes = append(shapes, shape{227, 4, 2, []int64{2, 3, 5, 7}, []int{1, 2, 4}, 2, 1, []int64{100, 101}},
			shape{11, 2, 1, []int64{1, 2}, []int{1, 2}, 3, 1, []int64{3, 4, 16}}, shape{251, 3, 2, []int64{4, 5, 6}, []int{1, 2, 3}, 4, 1, []int64{7, 8, 9, 10}})
		reps = 4
	}
	var out []rdCase
	for si, sh := range shapes {
		for r := 0; r < reps; r++ {
			seed := ctx.Seed*7001 + int64(si*100+r) + 1
			base := rdCase{Q: sh.q, KeyN: sh.keyN, TOld: sh.tOld, KeyIds: sh.keyIds, Part: sh.part, NNew: sh.nNew, TNew: sh.tNew, NewIds: sh.newIds, Seed: seed}
			if !faults {
				base.Fault = kdFault{Kind: "none"}
				out = append(out, base)
				continue
			}
			from := 1 + (r+si)%len(sh.part)
			to := 1 + (r+si+1)%sh.nNew
			idx := 1 + (r+si)%(sh.tNew+1)
			for _, fl := range []kdFault{{Kind: "share", From: from, To: to, Delta: 1}, {Kind: "open", From: from, To: to, Idx: idx, Delta: 1},
				{Kind: "commit", From: from, Idx: idx, Delta: 1}, {Kind: "secret", From: from, Delta: 1}} {
				cs := base
				cs.Fault = fl
				out = append(out, cs)
			}
		}
	}
	return out
}

func rdModelCheck(ctx *core.Ctx, cov *core.Cov) error {
	type inst struct {
		q, nold, told int
		oldids        string
		nnew, tnew    int
		newids        string
		faults        bool
	}
	insts := []inst{{5, 2, 1, "<<1, 2>>", 2, 1, "<<3, 4>>", true}}
	if ctx.Thorough() {
		insts = append(insts, inst{5, 2, 1, "<<1, 2>>", 3, 1, "<<3, 4, 6>>", true}, inst{5, 3, 1, "<<1, 2, 3>>", 2, 1, "<<4, 6>>", false})
	}
	for _, in := range insts {
		wrap := fmt.Sprintf("---- MODULE MC_ResharingData ----\nEXTENDS ResharingData\nOldIdsVal == %s\nNewIdsVal == %s\n====\n", in.oldids, in.newids)
		cfg := fmt.Sprintf("SPECIFICATION Spec\nCONSTANTS\n  Q = %d\n  NOld = %d\n  TOld = %d\n  OldIds <- OldIdsVal\n  NNew = %d\n  TNew = %d\n  NewIds <- NewIdsVal\n  WithFaults = %s\n",
			in.q, in.nold, in.told, in.nnew, in.tnew, strings.ToUpper(fmt.Sprint(in.faults))) +
			"INVARIANTS TypeOK WeightsAddUp KeyPreserved SameView OwnShareMatches AnySubsetReconstructs HonestCompletes NeverAcceptWrongKey NoSilentAccept BlameSound BlameExact\nCHECK_DEADLOCK FALSE\n"
		r := tlc.Run(tlc.Options{Module: "MC_ResharingData", Cfg: cfg, Files: map[string]string{"MC_ResharingData.tla": wrap}, Workers: 4, Heap: "3g", Timeout: 25 * time.Minute})
		if r.Err != nil {
			// the model instance could not be finished (time limit on a loaded machine): said in the evidence, no verdict depends on it
			ctx.Note("ResharingData.tla instance q=%d old=%d new=%d not finished: %v", in.q, in.nold, in.nnew, r.Err)
			cov.Add("model_instances_not_finished", 1)
			continue
		}
		if !r.OK {
			return core.Inconcl("ResharingData.tla violates %s (design-level counterexample):\n%s", r.Violated, r.ErrorTrace(2000))
		}
		cov.AddMC(r.Distinct, r.Generated)
		cov.Add("resharingdata_model_instances", 1)
	}
	return nil
}

// rdPhase: prop is "C04" (honest runs) or "C05" (one fault per run).
func rdPhase(ctx *core.Ctx, cov *core.Cov, prop string) error {
	faults := prop == "C05"
	plan := rdPlan(ctx, faults)
	runs := make([]*rdRun, len(plan))
	errs := make([]error, len(plan))
	var wg sync.WaitGroup
	sem := make(chan struct{}, 6)
	var mcErr error
	wg.Add(1)
	go func() { defer wg.Done(); mcErr = rdModelCheck(ctx, cov) }()
	for i, c := range plan {
		wg.Add(1)
		go func(i int, c rdCase) {
			defer wg.Done()
			sem <- struct{}{}
			defer func() { <-sem }()
			runs[i], errs[i] = execRD(c)
		}(i, c)
	}
	wg.Wait()
	if mcErr != nil {
		return mcErr
	}
	for i, e := range errs {
		if e != nil {
			return core.Inconcl("toy resharing %s: %v", plan[i].id(), e)
		}
	}
	groups := map[string][]map[string]any{}
	groupCase := map[string]rdCase{}
	usable := 0
	for _, run := range runs {
		c := run.Case
		if run.Skip != "" {
			ctx.Note("toy resharing %s not usable as a trace: %s", c.id(), run.Skip)
			cov.Add("toy_resharing_runs_skipped", 1)
			continue
		}
		key := prop + ":toy-data:resharing"
		nold := len(c.Part)
		oldIds := c.oldIds()
		judged := false
		deals := make([][]int, nold)
		var lines []map[string]any
		for p := 1; p <= nold; p++ {
			deals[p-1] = run.Polys[p-1]
		}
		lines = append(lines, map[string]any{"ev": "Reset", "q": c.Q, "oldids": oldIds, "newids": c.NewIds, "told": c.TOld, "tnew": c.TNew,
			"keypoly": run.KeyPoly, "deals": deals,
			"fault": map[string]any{"kind": c.Fault.Kind, "from": c.Fault.From, "to": c.Fault.To, "idx": c.Fault.Idx, "delta": c.Fault.Delta}})
		for p := 1; p <= nold; p++ {
			lines = append(lines, map[string]any{"ev": "Deal", "p": p, "open": run.Polys[p-1], "shares": run.Shares[p-1], "y": run.AnnY[p-1]})
			if faults && c.Fault.Kind == "secret" && c.Fault.From == p {
				continue // this member runs on a wrong share: its dealing is what the fault is about
			}
			// the dealt constant term is the Lagrange-weighted old share; the shares lie on the published polynomial
			w := lagrangeAt0(oldIds, p-1, c.Q) * evalPoly(run.KeyPoly, oldIds[p-1], c.Q) % c.Q
			if run.Polys[p-1][0] != w {
				ctx.Report(key+":weighted-share", fmt.Sprintf("%s: old member %d deals a sharing of %d*G, its Lagrange-weighted share is %d", c.id(), p, run.Polys[p-1][0], w), c)
				judged = true
			}
			for j := 1; j <= c.NNew; j++ {
				if run.Shares[p-1][j-1] != evalPoly(run.Polys[p-1], c.NewIds[j-1], c.Q) {
					ctx.Report(key+":share-not-on-published-polynomial", fmt.Sprintf("%s: old member %d sent new member %d the share %d, its commitments evaluate to %d",
						c.id(), p, j, run.Shares[p-1][j-1], evalPoly(run.Polys[p-1], c.NewIds[j-1], c.Q)), c)
					judged = true
				}
			}
			if run.AnnY[p-1] != run.KeyPoly[0] {
				ctx.Report(key+":announced-key", fmt.Sprintf("%s: old member %d announces the key %d*G, the shares interpolate to %d*G", c.id(), p, run.AnnY[p-1], run.KeyPoly[0]), c)
				judged = true
			}
		}
		for j := 1; j <= c.NNew; j++ {
			got := run.R4[j-1]
			// culprits as indices among the participating old members; the member itself (V_0 != y) is dropped
			var cul []int
			for _, g := range got.Culprits {
				if g <= nold {
					cul = append(cul, g)
				}
			}
			lines = append(lines, map[string]any{"ev": "R4", "p": j, "out": got.Out, "x": got.X, "bigx": got.BigX, "y": got.Y, "culprits": got.Culprits})
			want := rdPredict(run, j)
			switch want.Out {
			case "degenerate":
				if got.Out == "ok" {
					ctx.Note("%s: new member %d finished although an intermediate point is the identity in the model (drift)", c.id(), j)
					judged = true
				}
			case "ok":
				switch {
				case got.Out == "none" && faults:
				case got.Out != "ok":
					ctx.Note("drift: %s: new member %d did not finish although the model lets it finish: %s %s", c.id(), j, got.Out, got.Detail)
					cov.Add("toy_runs_stopped_for_unmodelled_reasons", 1)
					judged = true
				case got.Y != want.Y:
					ctx.Report(key+":group-key", fmt.Sprintf("%s: new member %d saved the group key %d*G, the key is %d*G", c.id(), j, got.Y, want.Y), c)
					judged = true
				case got.X != want.X:
					ctx.Report(key+":secret-share", fmt.Sprintf("%s: new member %d saved the share %d, the dealt shares sum to %d", c.id(), j, got.X, want.X), c)
					judged = true
				case fmt.Sprint(got.BigX) != fmt.Sprint(want.BigX):
					ctx.Report(key+":public-share-points", fmt.Sprintf("%s: new member %d saved the public share points %v, the published commitments give %v", c.id(), j, got.BigX, want.BigX), c)
					judged = true
				}
			case "refuse":
				zero := false
				for i := 1; i <= nold; i++ {
					if run.Shares[i-1][j-1]%c.Q == 0 || run.Polys[i-1][0] == 0 {
						zero = true
					}
				}
				switch {
				case got.Out == "ok":
					ctx.Report(key+":silent-accept", fmt.Sprintf("%s: new member %d accepted although the model refuses (culprits %v; wrong key or altered value)", c.id(), j, want.Culprits), c)
					judged = true
				case got.Out == "panic":
					ctx.Note("drift (a crash is a C06 matter; in a toy group an identity point may cause it): %s", fmt.Sprintf("%s: new member %d panicked: %s", c.id(), j, got.Detail))
					judged = true
				case got.Out == "abort" && fmt.Sprint(cul) != fmt.Sprint(want.Culprits) && !(len(cul) == 0 && len(want.Culprits) == 0):
					named := len(want.Culprits) == 0
					for _, g := range cul {
						for _, w := range want.Culprits {
							if g == w {
								named = true
							}
						}
					}
					if !faults || zero || got.ErrRound != 4 || named {
						ctx.Note("drift: %s: new member %d names %v in round %d, the model names %v in round 4 (a degenerate toy value or an earlier stop: outside the properties)", c.id(), j, cul, got.ErrRound, want.Culprits)
					} else {
						ctx.Report(key+":blame", fmt.Sprintf("%s: new member %d names %v, the model names %v (%s)", c.id(), j, got.Culprits, want.Culprits, got.Detail), c)
					}
					judged = true
				}
			}
		}
		cov.Case("toy-resharing|"+c.id(), true)
		if judged {
			continue
		}
		usable++
		g := c.group()
		groups[g] = append(groups[g], lines...)
		groupCase[g] = c
	}
	cov.Set("toy_resharing_runs", len(runs))
	var gnames []string
	for g := range groups {
		gnames = append(gnames, g)
	}
	sort.Strings(gnames)
	for _, g := range gnames {
		c := groupCase[g]
		lines := groups[g]
		ok, hw, viol, err := rdValidate(c, lines)
		if err != nil {
			// the verdicts of this phase come from the Go evaluation above; a trace run that TLC could not finish leaves the
			// binding of these runs unconfirmed, which the evidence says (toy_trace_groups_not_validated)
			ctx.Note("binding not confirmed: ResharingData_Trace (%s): %v", g, err)
			cov.Add("toy_trace_groups_not_validated", 1)
			continue
		}
		if !ok {
			i := hw
			if i >= len(lines) {
				i = len(lines) - 1
			}
			ctx.Note("binding not confirmed: ResharingData_Trace does not explain line %d of %d of group %s (%s) although the Go evaluation of the same formulas found nothing (a toy-group case the model does not name): %v",
				hw+1, len(lines), g, viol, lines[i])
			cov.Add("toy_trace_groups_not_validated", 1)
			continue
		}
		cov.AddTraces(countResets(lines))
	}
	cov.Set("toy_resharing_runs_validated_by_tlc", usable)
	return nil
}

func rdValidate(c rdCase, lines []map[string]any) (ok bool, hw int, violated string, err error) {
	tmp := os.Getenv("VERIF_TMP")
	if tmp == "" {
		tmp = os.TempDir()
	}
	f, err := os.CreateTemp(tmp, "verif-rd-*.ndjson")
	if err != nil {
		return false, 0, "", err
	}
	defer os.Remove(f.Name())
	enc := json.NewEncoder(f)
	for _, l := range lines {
		if err := enc.Encode(l); err != nil {
			return false, 0, "", err
		}
	}
	f.Close()
	tup := func(ids []int64) string {
		var s []string
		for _, k := range ids {
			s = append(s, fmt.Sprint(k))
		}
		return "<<" + strings.Join(s, ", ") + ">>"
	}
	wrap := fmt.Sprintf("---- MODULE MC_ResharingData_Trace ----\nEXTENDS ResharingData_Trace\nOldIdsVal == %s\nNewIdsVal == %s\n====\n", tup(c.oldIds()), tup(c.NewIds))
	cfg := fmt.Sprintf("SPECIFICATION TraceSpec\nCONSTANTS\n  Q = %d\n  NOld = %d\n  TOld = %d\n  OldIds <- OldIdsVal\n  NNew = %d\n  TNew = %d\n  NewIds <- NewIdsVal\n  WithFaults = TRUE\n",
		c.Q, len(c.Part), c.TOld, c.NNew, c.TNew) +
		"INVARIANTS TraceInv\nCONSTRAINT HighWater\nPOSTCONDITION TraceAccepted\nCHECK_DEADLOCK FALSE\n"
	abs, _ := filepath.Abs(f.Name())
	r := tlc.Run(tlc.Options{Module: "MC_ResharingData_Trace", Cfg: cfg, Files: map[string]string{"MC_ResharingData_Trace.tla": wrap},
		Env: map[string]string{"TRACE": abs}, Workers: 1, Timeout: 15 * time.Minute})
	if r.Err != nil {
		return false, 0, "", r.Err
	}
	return r.OK && r.HW == len(lines), r.HW, r.Violated, nil
}
