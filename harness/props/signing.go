package props

import (
	"fmt"
	"math/big"
	"math/rand"
	"strings"
	"sync"
	"time"

	eckg "github.com/bnb-chain/tss-lib/v2/ecdsa/keygen"
	edkg "github.com/bnb-chain/tss-lib/v2/eddsa/keygen"
	"github.com/bnb-chain/tss-lib/v2/tss"

	"verif/harness/core"
	"verif/harness/ev"
	"verif/harness/obs"
	"verif/harness/pump"
	"verif/harness/tlc"
)

// algebraMC runs SigningAlgebra.tla / KeygenAlgebra.tla style toy-field model checks through a generated wrapper module.
type algebraInst struct {
	Module  string // base module
	Q       int
	Consts  string // extra CONSTANTS lines for the cfg (plain values)
	Defs    string // definitions placed in the wrapper (tuples / functions), with "X <- XVal" overrides listed in Over
	Over    []string
	Invs    string
	Workers int
}

func runAlgebra(insts []algebraInst) ([]tlc.Result, error) {
	out := make([]tlc.Result, len(insts))
	var wg sync.WaitGroup
	sem := make(chan struct{}, 2)
	for i, in := range insts {
		wg.Add(1)
		go func(i int, in algebraInst) {
			defer wg.Done()
			sem <- struct{}{}
			defer func() { <-sem }()
			wrap := fmt.Sprintf("---- MODULE MC_%s ----\nEXTENDS %s\n%s\n====\n", in.Module, in.Module, in.Defs)
			cfg := "SPECIFICATION Spec\nCONSTANTS\n" + fmt.Sprintf("  Q = %d\n", in.Q) + in.Consts
			for _, o := range in.Over {
				cfg += fmt.Sprintf("  %s <- %sVal\n", o, o)
			}
			cfg += "INVARIANTS " + in.Invs + "\nCHECK_DEADLOCK FALSE\n"
			w := in.Workers
			if w == 0 {
				w = 4
			}
			out[i] = tlc.Run(tlc.Options{Module: "MC_" + in.Module, Cfg: cfg, Workers: w, Heap: "3g", Timeout: 20 * time.Minute,
				Files: map[string]string{"MC_" + in.Module + ".tla": wrap}})
		}(i, in)
	}
	wg.Wait()
	for i, r := range out {
		if r.Err != nil {
			return out, fmt.Errorf("%s: %v", insts[i].Module, r.Err)
		}
		if !r.OK {
			return out, fmt.Errorf("%s (Q=%d) violates %s:\n%s", insts[i].Module, insts[i].Q, r.Violated, r.ErrorTrace(2500))
		}
	}
	return out, nil
}

// xofTable builds an even "x coordinate" table for Z_q \ {0} (xOf(a) = xOf(-a)), values in 1..q-1.
func xofTable(q int, seed int64) string {
	rng := rand.New(rand.NewSource(seed))
	v := make([]int, q)
	for a := 1; a <= (q-1)/2; a++ {
		v[a] = 1 + rng.Intn(q-1)
		v[q-a] = v[a]
	}
	var parts []string
	for a := 1; a < q; a++ {
		parts = append(parts, fmt.Sprint(v[a]))
	}
	return "<<" + strings.Join(parts, ", ") + ">>"
}

func signingAlgebraInsts(ctx *core.Ctx) []algebraInst {
	mk := func(q, nkey, t int, ids string) algebraInst {
		return algebraInst{Module: "SigningAlgebra", Q: q,
			Consts: fmt.Sprintf("  NKey = %d\n  T = %d\n", nkey, t),
			Defs:   fmt.Sprintf("IdsVal == %s\nXofTableVal == %s", ids, xofTable(q, ctx.Seed+int64(q))),
			Over:   []string{"Ids", "XofTable"},
			Invs:   "LagrangeSumsToKey EcdsaCorrect EcdsaOffset EddsaCorrect"}
	}
	if !ctx.Thorough() {
		return []algebraInst{mk(7, 3, 1, "<<1, 2, 10>>")}
	}
	return []algebraInst{mk(7, 3, 1, "<<1, 2, 10>>"), mk(7, 3, 2, "<<3, 5, 6>>"), mk(11, 3, 1, "<<2, 7, 20>>"), mk(5, 4, 2, "<<1, 2, 3, 9>>")}
}

// judgeRuns executes scenarios, validates their traces against the engine spec and applies the result oracles.
// prop is the property id used in violation keys; oracleOnly restricts the verdict to the result oracle
// (trace rejections are then recorded as drift, they are C08's subject).
func judgeRuns(ctx *core.Ctx, cov *core.Cov, scs []Scenario, workers int) ([]*RunRecord, error) {
	recs, err := RunScenarios(scs, workers)
	if err != nil {
		return nil, core.Inconcl("driver failed: %v", err)
	}
	var all []ev.Event
	for _, r := range recs {
		if r.Sc.ExpectRefuse || r.Sc.MayRefuse {
			continue
		}
		all = append(all, r.Events...)
	}
	if len(all) > 0 {
		groups, terr := tlc.ValidateEngineTraces(all, tlc.CodeFlags, "Engine_Trace", "")
		if terr != nil {
			return nil, core.Inconcl("trace validation machinery failed: %v", terr)
		}
		acc := 0
		for _, g := range groups {
			if g.Accepted {
				acc += g.Runs
			} else {
				acc += g.FailRun
				ctx.Note("drift (judged by C08): trace of %s n=%d+%d rejected (%s) at %s", g.Proto, g.NOld, g.NNew, g.Violated, describeEvent(g.FailEvent))
			}
		}
		cov.AddTraces(acc)
	}
	for _, r := range recs {
		sc := r.Sc
		if sc.ExpectRefuse {
			// every party must refuse in Start() and nothing may have been sent
			bad := ""
			if len(r.Sent) > 0 {
				bad = fmt.Sprintf("%d message(s) were sent", len(r.Sent))
			}
			for i, n := range r.Session.Nodes {
				if n.Err == nil {
					bad += fmt.Sprintf(" party %d did not refuse;", i+1)
				}
				if len(n.Results) > 0 {
					bad += fmt.Sprintf(" party %d produced a result;", i+1)
				}
			}
			cov.Case(sc.GroupKey()+"|"+sc.Strategy, true)
			if bad != "" {
				ctx.Report(fmt.Sprintf("%s:refusal:%s", ctx.ID, sc.Proto), fmt.Sprintf("%s: input that must be refused before any message is sent was not: %s", sc.GroupKey(), bad), sc)
			}
			continue
		}
		cov.Case(sc.GroupKey()+"|"+sc.Strategy+fmt.Sprint(sc.Seed), true)
		if sc.MayRefuse && (len(r.Errs) > 0 || !r.Quiescent) {
			continue
		}
		if sc.MayRefuse {
			fin := 0
			for _, f := range r.Finished {
				if f {
					fin++
				}
			}
			if fin == 0 {
				continue
			}
		}
		if len(r.Errs) > 0 {
			ctx.Report(fmt.Sprintf("%s:error:%s", ctx.ID, sc.Proto), fmt.Sprintf("honest run %s (%s) reported errors: %s", sc.GroupKey(), sc.Strategy, strings.Join(r.Errs, "; ")), sc)
			continue
		}
		if !r.Quiescent {
			return nil, core.Inconcl("run %s did not reach quiescence", sc.GroupKey())
		}
		if msg := ResultOracle(r); msg != "" {
			ctx.Report(fmt.Sprintf("%s:oracle:%s:%s", ctx.ID, sc.Proto, oracleClass(msg)), fmt.Sprintf("%s (%s): %s", sc.GroupKey(), sc.Strategy, msg), sc)
		}
	}
	return recs, nil
}

func oracleClass(msg string) string {
	w := strings.Fields(msg)
	if len(w) > 4 {
		w = w[:4]
	}
	return strings.Join(w, "_")
}

func hexOf(x *big.Int) string { return x.Text(16) }

func c01Plan(ctx *core.Ctx) []Scenario {
	q := obs.Secp.Order()
	rng := rand.New(rand.NewSource(ctx.Seed))
	rnd := new(big.Int).Rand(rng, q)
	type dg struct {
		hex string
		fbl int
	}
	okDigests := []dg{
		{"0", 0}, {"1", 0}, {hexOf(new(big.Int).Sub(q, big.NewInt(1))), 0},
		{hexOf(new(big.Int).Lsh(big.NewInt(1), 200)), 32}, {hexOf(new(big.Int).Lsh(big.NewInt(0xab), 96)), 0},
		{hexOf(rnd), 32}, {hexOf(new(big.Int).Rand(rng, q)), 0}, {"1", 32}, {"0", 32},
	}
	refuse := []string{hexOf(q), hexOf(new(big.Int).Add(q, big.NewInt(1))), hexOf(new(big.Int).Sub(new(big.Int).Lsh(big.NewInt(1), 256), big.NewInt(1)))}
	type ks struct {
		keyN, t int
		subsets [][]int
	}
	var keysets []ks
	if !ctx.Thorough() {
		keysets = []ks{
			{5, 2, [][]int{{0, 1, 2}, {4, 2, 1}, {0, 1, 2, 3}, {0, 1, 2, 3, 4}}},
			{3, 1, [][]int{{0, 1}, {2, 0}, {0, 1, 2}}},
		}
	} else {
		keysets = []ks{
			{5, 2, append(subsets(5, 3), append(subsets(5, 4), []int{0, 1, 2, 3, 4}, []int{4, 3, 2, 1, 0})...)},
			{3, 1, append(subsets(3, 2), []int{0, 1, 2}, []int{2, 1})},
			{2, 1, [][]int{{0, 1}}},
			{3, 2, [][]int{{0, 1, 2}}},
			{4, 2, append(subsets(4, 3), []int{0, 1, 2, 3})},
		}
	}
	strats := []string{"fifo", "lifo", "random", "future"}
	var scs []Scenario
	i := 0
	for _, k := range keysets {
		for _, sub := range k.subsets {
			ds := okDigests
			if !ctx.Thorough() {
				// two digest classes per subset, rotating through the classes
				ds = []dg{okDigests[i%len(okDigests)], okDigests[(i+4)%len(okDigests)]}
			}
			for _, d := range ds {
				scs = append(scs, Scenario{Proto: pump.EcSigning, N: len(sub), T: k.t, KeyN: k.keyN, Subset: sub,
					MsgHex: d.hex, FullBytesLen: d.fbl, Strategy: strats[i%len(strats)], Seed: ctx.Seed*1009 + int64(i) + 1})
				i++
			}
		}
		// a session whose nonce shares sum to 2: R = (1/2)*G has an x coordinate with 11 leading zero bytes,
		// the directed case for the fixed-width / padding clauses (a random r has a leading zero byte once in 256 runs)
		scs = append(scs, Scenario{Proto: pump.EcSigning, N: k.t + 1, T: k.t, KeyN: k.keyN, MsgHex: hexOf(new(big.Int).Rand(rng, q)),
			FullBytesLen: 32, Strategy: "fifo", Seed: ctx.Seed*1009 + int64(i) + 1, NonceSum: 2})
		i++
		// digests not below the curve order: refused before any message is sent
		for j, rf := range refuse {
			if !ctx.Thorough() && j > 0 && k.keyN != 5 {
				continue
			}
			scs = append(scs, Scenario{Proto: pump.EcSigning, N: k.t + 1, T: k.t, KeyN: k.keyN, MsgHex: rf, Strategy: "fifo",
				Seed: ctx.Seed*1009 + int64(i) + 1, ExpectRefuse: true})
			i++
		}
	}
	return scs
}

func C01(ctx *core.Ctx) error {
	cov := core.NewCov()
	if ctx.Replay != "" {
		return replayOracle(ctx)
	}
	var algRes []tlc.Result
	var algErr error
	var wg sync.WaitGroup
	wg.Add(1)
	go func() { defer wg.Done(); algRes, algErr = runAlgebra(signingAlgebraInsts(ctx)) }()
	scs := c01Plan(ctx)
	recs, err := judgeRuns(ctx, cov, scs, 12)
	wg.Wait()
	if err != nil {
		return err
	}
	if algErr != nil {
		return core.Inconcl("signing algebra model: %v", algErr)
	}
	for _, r := range algRes {
		cov.AddMC(r.Distinct, r.Generated)
	}
	for _, r := range recs {
		cov.Sample(map[string]any{"key": fmt.Sprintf("(%d,%d)", r.Sc.KeyN, r.Sc.T), "signers": r.Sc.Subset, "digest": core.Short(r.Sc.MsgHex, 70),
			"full_bytes_len": r.Sc.FullBytesLen, "strategy": r.Sc.Strategy, "refused": r.Sc.ExpectRefuse}, 8)
	}
	cov.Set("runs", len(recs))
	if err := resultSurvivalPhase(ctx, cov, pump.EcSigning); err != nil {
		return err
	}
	return ctx.WriteEvidence("model_checking",
		"one case = one real ECDSA signing session (key threshold, signer subset incl. |S|>t+1 and permuted ids, digest class, fullBytesLen, schedule); "+
			"verdict by an independent ECDSA verifier/recovery written in the harness; every run trace-validated against Engine_Trace.tla; "+
			"SigningAlgebra.tla model-checked exhaustively over a toy field (all polynomials, all signer subsets, nonce samples)",
		cov, []string{"keys come from real keygen runs of the current tree ((5,2) from the vendored fixtures)",
			"independent secp256k1 arithmetic self-checked against published vectors"}, "java tlc2.TLC MC_SigningAlgebra.tla / Engine_Trace.tla")
}

func c02Plan(ctx *core.Ctx) []Scenario {
	type ks struct {
		keyN, t int
		subsets [][]int
	}
	var keysets []ks
	if !ctx.Thorough() {
		keysets = []ks{
			{2, 1, [][]int{{0, 1}}},
			{3, 1, [][]int{{0, 1}, {2, 1}, {0, 1, 2}}},
			{3, 2, [][]int{{0, 1, 2}}},
			{4, 2, [][]int{{0, 1, 3}, {0, 1, 2, 3}}},
		}
	} else {
		keysets = []ks{
			{2, 1, [][]int{{0, 1}}},
			{3, 1, append(subsets(3, 2), []int{0, 1, 2}, []int{2, 0})},
			{3, 2, [][]int{{0, 1, 2}, {2, 1, 0}}},
			{4, 2, append(subsets(4, 3), []int{0, 1, 2, 3})},
			{5, 3, append(subsets(5, 4), []int{0, 1, 2, 3, 4})},
			{5, 1, [][]int{{0, 4}, {1, 2, 3}}},
		}
	}
	type mg struct {
		hex string
		fbl int
	}
	long := strings.Repeat("a1b2c3d4", 12) // 48 bytes
	msgs := []mg{{"0", 0}, {"1", 0}, {"ab12cd", 0}, {strings.Repeat("7f", 32), 0}, {long + long, 0},
		{"ab", 3}, {"0", 4}, {strings.Repeat("9c", 30), 32}, {"1", 64}}
	strats := []string{"fifo", "lifo", "random", "future", "dup", "prestart:1"}
	var scs []Scenario
	i := 0
	for _, k := range keysets {
		for _, sub := range k.subsets {
			ms := msgs
			if !ctx.Thorough() {
				ms = []mg{msgs[i%len(msgs)], msgs[(i+3)%len(msgs)], msgs[(i+6)%len(msgs)]}
			}
			for _, m := range ms {
				scs = append(scs, Scenario{Proto: pump.EdSigning, N: len(sub), T: k.t, KeyN: k.keyN, Subset: sub,
					MsgHex: m.hex, FullBytesLen: m.fbl, Strategy: strats[i%len(strats)], Seed: ctx.Seed*2003 + int64(i) + 1})
				i++
			}
		}
	}
	return scs
}

func C02(ctx *core.Ctx) error {
	cov := core.NewCov()
	if ctx.Replay != "" {
		return replayOracle(ctx)
	}
	var algRes []tlc.Result
	var algErr error
	var wg sync.WaitGroup
	wg.Add(1)
	go func() { defer wg.Done(); algRes, algErr = runAlgebra(signingAlgebraInsts(ctx)) }()
	recs, err := judgeRuns(ctx, cov, c02Plan(ctx), 12)
	wg.Wait()
	if err != nil {
		return err
	}
	if algErr != nil {
		return core.Inconcl("signing algebra model: %v", algErr)
	}
	for _, r := range algRes {
		cov.AddMC(r.Distinct, r.Generated)
	}
	for _, r := range recs {
		cov.Sample(map[string]any{"key": fmt.Sprintf("(%d,%d)", r.Sc.KeyN, r.Sc.T), "signers": r.Sc.Subset, "message": core.Short(r.Sc.MsgHex, 40),
			"full_bytes_len": r.Sc.FullBytesLen, "strategy": r.Sc.Strategy}, 8)
	}
	cov.Set("runs", len(recs))
	if err := resultSurvivalPhase(ctx, cov, pump.EdSigning); err != nil {
		return err
	}
	return ctx.WriteEvidence("model_checking",
		"one case = one real EdDSA signing session (key (n,t) from a real keygen, signer subset incl. |S|>t+1 and permuted ids, message class, fullBytesLen, schedule); "+
			"verdict by crypto/ed25519.Verify of the Go standard library over the echoed message and the RFC 8032 encoding of the group key computed by the harness; "+
			"every run trace-validated against Engine_Trace.tla; SigningAlgebra.tla (EddsaCorrect, LagrangeSumsToKey) model-checked over a toy field",
		cov, []string{"crypto/ed25519 of the Go standard library is the independent verifier"}, "java tlc2.TLC MC_SigningAlgebra.tla / Engine_Trace.tla")
}

// replayOracle re-runs a scenario replay file and applies the result oracle.
func replayOracle(ctx *core.Ctx) error {
	var sc Scenario
	if _, err := core.LoadReplay(ctx.Replay, &sc); err != nil {
		return core.Inconcl("cannot load replay: %v", err)
	}
	cov := core.NewCov()
	_, err := judgeRuns(ctx, cov, []Scenario{sc}, 1)
	return err
}

// ---------------------------------------------------------------- C03

func keygenAlgebraInsts(ctx *core.Ctx) []algebraInst {
	mk := func(q, n, t int, ids string) algebraInst {
		return algebraInst{Module: "KeygenAlgebra", Q: q, Consts: fmt.Sprintf("  N = %d\n  T = %d\n", n, t),
			Defs: fmt.Sprintf("IdsVal == %s", ids), Over: []string{"Ids"},
			Invs: "SharesConsistent PublicPointsOnPolynomial AnySubsetReconstructs NoContributionDropped"}
	}
	if !ctx.Thorough() {
		return []algebraInst{mk(5, 2, 1, "<<1, 7>>"), mk(5, 3, 1, "<<1, 2, 8>>")}
	}
	return []algebraInst{mk(5, 2, 1, "<<1, 7>>"), mk(5, 3, 1, "<<1, 2, 8>>"), mk(7, 3, 1, "<<3, 5, 13>>"), mk(3, 3, 2, "<<1, 2, 5>>"), mk(5, 3, 2, "<<4, 2, 6>>")}
}

func c03Plan(ctx *core.Ctx) []Scenario {
	q25519 := obs.Ed.Order()
	qsecp := obs.Secp.Order()
	rng := rand.New(rand.NewSource(ctx.Seed))
	idsets := func(q *big.Int, n int, class int) []string {
		var out []string
		for i := 0; i < n; i++ {
			var v *big.Int
			switch class {
			case 1: // random 256 bit
				v = new(big.Int).Rand(rng, new(big.Int).Lsh(big.NewInt(1), 256))
				v.Add(v, big.NewInt(1))
			case 2: // just below the order
				v = new(big.Int).Sub(q, big.NewInt(int64(i+1)))
			case 3: // just above the order (aliases of small ids)
				v = new(big.Int).Add(q, big.NewInt(int64(i+2)))
			}
			out = append(out, v.String())
		}
		return out
	}
	var scs []Scenario
	i := 0
	add := func(p pump.Proto, n, t, class int, strat string) {
		sc := Scenario{Proto: p, N: n, T: t, Strategy: strat, Seed: ctx.Seed*3001 + int64(i) + 1}
		q := q25519
		if p == pump.EcKeygen {
			q = qsecp
		}
		if class > 0 {
			sc.PartyKeys = idsets(q, n, class)
		}
		scs = append(scs, sc)
		i++
	}
	strats := []string{"fifo", "lifo", "random", "future", "duplate", "prestart:1"}
	maxEd := ctx.Pick(4, 6)
	for n := 2; n <= maxEd; n++ {
		for t := 1; t < n; t++ {
			for class := 0; class <= 3; class++ {
				if !ctx.Thorough() && class != (n+t)%4 && class != 0 {
					continue
				}
				add(pump.EdKeygen, n, t, class, strats[i%len(strats)])
			}
		}
	}
	// one committee, both curves, in one process: the same (large) party ids and t = 2 for an EdDSA and an ECDSA key
	// generation (state kept between calls that is keyed by an id alone - powers of an id, Lagrange coefficients - would
	// be wrong for the second group order)
	{
		same := []string{"57896044618658097711785492504343953926634992332820282019728792003956564819949",
			"28948022309329048855892746252171976963317496166410141009864396001978282409984",
			"43422033463993573283839119378257965444976244249615211514796594002967423614962"}
		for _, p := range []pump.Proto{pump.EdKeygen, pump.EcKeygen, pump.EdKeygen} {
			scs = append(scs, Scenario{Proto: p, N: 3, T: 2, Strategy: "fifo", Seed: ctx.Seed*3001 + int64(i) + 1, PartyKeys: same})
			i++
		}
	}
	// share ids that collide (or vanish) modulo the group order are inadmissible: the run may be refused, but if it
	// completes the sharing must still be consistent
	for _, p := range []pump.Proto{pump.EdKeygen, pump.EcKeygen} {
		q := q25519
		if p == pump.EcKeygen {
			q = qsecp
			if !ctx.Thorough() {
				continue
			}
		}
		for _, ids := range [][]string{
			{"1", "2", new(big.Int).Add(q, big.NewInt(1)).String()},
			{"5", new(big.Int).Add(q, big.NewInt(5)).String(), "9"},
			{q.String(), "3", "4"},
		} {
			scs = append(scs, Scenario{Proto: p, N: 3, T: 1, Strategy: "fifo", Seed: ctx.Seed*3001 + int64(i) + 1, PartyKeys: ids, MayRefuse: true})
			i++
		}
	}
	type nt struct{ n, t int }
	ec := []nt{{2, 1}, {3, 1}, {3, 2}}
	if ctx.Thorough() {
		ec = []nt{{2, 1}, {3, 1}, {3, 2}, {4, 1}, {4, 2}, {4, 3}, {5, 1}, {5, 2}, {5, 3}, {5, 4}}
	}
	for k, x := range ec {
		add(pump.EcKeygen, x.n, x.t, k%4, strats[k%3])
		if ctx.Thorough() && x.n <= 3 {
			add(pump.EcKeygen, x.n, x.t, (k+2)%4, "lifo")
		}
	}
	return scs
}

// contributionOracle checks "no party's contribution is dropped": the group key equals the sum of the first
// Feldman commitments V_i0 each party revealed in its broadcast round-2 de-commitment (read off the wire).
func contributionOracle(r *RunRecord) string {
	s := r.Session
	var g obs.Group = obs.Ed
	if r.Sc.Proto == pump.EcKeygen {
		g = obs.Secp
	}
	seen := map[int]bool{}
	acc := g.Identity()
	for _, it := range s.All {
		if it.Msg.Type != "KGRound2Message2" || seen[it.Msg.From] {
			continue
		}
		pm, ok := it.Orig.(tss.ParsedMessage)
		if !ok {
			return "cannot read round-2 de-commitment"
		}
		var d []*big.Int
		switch c := pm.Content().(type) {
		case *edkg.KGRound2Message2:
			d = c.UnmarshalDeCommitment()
		case *eckg.KGRound2Message2:
			d = c.UnmarshalDeCommitment()
		}
		if len(d) < 3 {
			return fmt.Sprintf("party %d: de-commitment too short", it.Msg.From)
		}
		v0 := obs.Pt{X: d[1], Y: d[2]}
		if !g.OnCurve(v0) {
			return fmt.Sprintf("party %d revealed a first commitment that is not on the curve", it.Msg.From)
		}
		acc = g.Add(acc, v0)
		seen[it.Msg.From] = true
	}
	if len(seen) != len(s.Nodes) {
		return fmt.Sprintf("only %d of %d round-2 de-commitments were seen", len(seen), len(s.Nodes))
	}
	var pub obs.Pt
	switch k := s.Nodes[0].Results[0].(type) {
	case *edkg.LocalPartySaveData:
		pub = pt(k.EDDSAPub)
	case *eckg.LocalPartySaveData:
		pub = pt(k.ECDSAPub)
	}
	if !acc.Eq(pub) {
		return "group public key differs from the sum of the parties' first commitments (a contribution was dropped or altered)"
	}
	return ""
}

func C03(ctx *core.Ctx) error {
	cov := core.NewCov()
	if ctx.Replay != "" {
		return replayOracle(ctx)
	}
	var algRes []tlc.Result
	var algErr error
	var wg sync.WaitGroup
	wg.Add(1)
	go func() { defer wg.Done(); algRes, algErr = runAlgebra(keygenAlgebraInsts(ctx)) }()
	recs, err := judgeRuns(ctx, cov, c03Plan(ctx), 14)
	wg.Wait()
	if err != nil {
		return err
	}
	if algErr != nil {
		return core.Inconcl("keygen algebra model: %v", algErr)
	}
	for _, r := range algRes {
		cov.AddMC(r.Distinct, r.Generated)
	}
	for _, r := range recs {
		if len(r.Errs) == 0 && r.Quiescent {
			if msg := contributionOracle(r); msg != "" {
				ctx.Report(fmt.Sprintf("C03:contribution:%s", r.Sc.Proto), fmt.Sprintf("%s: %s", r.Sc.GroupKey(), msg), r.Sc)
			}
		}
		cov.Sample(map[string]any{"proto": r.Sc.Proto, "n": r.Sc.N, "t": r.Sc.T, "ids": shortIDs(r.Sc.PartyKeys), "strategy": r.Sc.Strategy}, 8)
	}
	cov.Set("runs", len(recs))
	// data-level conformance: real ECDSA key generations on toy curves, every value recomputed by TLC (KeygenData.tla)
	if err := kdPhase(ctx, cov, "C03"); err != nil {
		return err
	}
	return ctx.WriteEvidence("model_checking",
		"one case = one real distributed key generation (protocol, n, t, party id class: small / random 256-bit / just below the order / above the order, schedule); "+
			"verdict by independent curve arithmetic: identical public view, Xi*G = BigXj[i], all points on one degree-t polynomial, every (t+1)-subset interpolates "+
			"to the key (in the exponent and over the secret shares), key = sum of first commitments seen on the wire, Paillier key consistency; "+
			"traces validated against Engine_Trace.tla; KeygenAlgebra.tla model-checked exhaustively over toy fields",
		cov, []string{"ECDSA runs use the five vendored pre-parameter sets (n <= 5); safe-prime generation inside round 1 is C19's subject"},
		"java tlc2.TLC MC_KeygenAlgebra.tla / Engine_Trace.tla")
}

func shortIDs(ids []string) []string {
	var out []string
	for _, s := range ids {
		out = append(out, core.Short(s, 12))
	}
	return out
}
