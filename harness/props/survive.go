package props

// Results are values, not views (C01 / C02): the output of a finished signing session must not change, and must
// still verify, after later sessions have run in the same process (a result that shares a buffer with the library -
// a pooled message buffer, a cached slice - would be rewritten by them).  The sessions of this phase run one after
// the other on one goroutine, with equal message lengths, so that any re-use of library-side buffers is likely.

import (
	"bytes"
	"fmt"

	"github.com/bnb-chain/tss-lib/v2/common"

	"verif/harness/core"
	"verif/harness/pump"
)

func sigSnapshot(r *RunRecord) [][]byte {
	var out [][]byte
	for _, n := range r.Session.Nodes {
		for _, res := range n.Results {
			if sd, ok := res.(*common.SignatureData); ok && sd != nil {
				out = append(out, append([]byte(nil), sd.M...), append([]byte(nil), sd.Signature...), append([]byte(nil), sd.R...),
					append([]byte(nil), sd.S...), append([]byte(nil), sd.SignatureRecovery...))
			}
		}
	}
	return out
}

func resultSurvivalPhase(ctx *core.Ctx, cov *core.Cov, proto pump.Proto) error {
	keyN, t, n := 3, 1, 2
	if proto == pump.EcSigning {
		keyN, t, n = 5, 2, 3
	}
	msgs := []string{"00a1b2c3d4e5f60718293a4b5c6d7e8f00112233445566778899aabbccddeeff", "00ffeeddccbbaa99887766554433221100f8e7d6c5b4a3928170f6e5d4c3b2a1",
		"0000000000000000000000000000000000000000000000000000000000000007", "00a1b2c3d4e5f60718293a4b5c6d7e8f00112233445566778899aabbccddee00"}
	type kept struct {
		rec  *RunRecord
		snap [][]byte
	}
	var held []kept
	for k, m := range msgs {
		for _, fb := range []int{32, 0} {
			sc := Scenario{Proto: proto, N: n, T: t, KeyN: keyN, Strategy: "fifo", Seed: ctx.Seed*31 + int64(k) + 1, MsgHex: m, FullBytesLen: fb}
			rec, err := ExecScenario(sc)
			if err != nil {
				return core.Inconcl("result survival phase: %v", err)
			}
			if len(rec.Errs) > 0 || !rec.Quiescent {
				continue // judged by the main phase
			}
			held = append(held, kept{rec, sigSnapshot(rec)})
			// every earlier result must be what it was, and still pass the oracle
			for hi, h := range held {
				now := sigSnapshot(h.rec)
				same := len(now) == len(h.snap)
				for i := 0; same && i < len(now); i++ {
					same = bytes.Equal(now[i], h.snap[i])
				}
				if !same {
					ctx.Report(fmt.Sprintf("%s:result-changed-by-a-later-session:%s", ctx.ID, proto),
						fmt.Sprintf("%s: the result of session %d (message %s, fullBytesLen %d) changed after %d later session(s) had run in the same process", proto, hi+1,
							core.Short(h.rec.Sc.MsgHex, 20), h.rec.Sc.FullBytesLen, len(held)-hi-1), h.rec.Sc)
					continue
				}
				if bad := ResultOracle(h.rec); bad != "" && hi < len(held)-1 {
					ctx.Report(fmt.Sprintf("%s:result-invalid-after-a-later-session:%s", ctx.ID, proto),
						fmt.Sprintf("%s: the result of session %d no longer satisfies the oracle after later sessions: %s", proto, hi+1, bad), h.rec.Sc)
				}
			}
			cov.Case(fmt.Sprintf("survive|%s|%d|%d", proto, k, fb), true)
		}
	}
	cov.Set("sequential_sessions_with_results_held", len(held))
	return nil
}
