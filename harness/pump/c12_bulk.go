package pump

import (
	"sync"

	"github.com/bnb-chain/tss-lib/v2/tss"
)

// Bulk operations for committees of a few hundred parties (C12, context derivation at index classes beyond one byte).
// No events are emitted and the Round / WaitingFor projections (quadratic in the committee size) are not taken; different
// parties are driven concurrently - every party has its own random source and its own output channel, and the output is
// collected afterwards in party order, so the items (and their ids) do not depend on the interleaving.

// StartAllQuiet starts every node that is not started yet, at most `workers` at a time.
func (s *Session) StartAllQuiet(workers int) {
	if workers < 1 {
		workers = 1
	}
	var todo []*Node
	for _, n := range s.Nodes {
		if !n.Started && !s.Silent[n.G] {
			todo = append(todo, n)
		}
	}
	sem := make(chan struct{}, workers)
	var wg sync.WaitGroup
	for _, n := range todo {
		wg.Add(1)
		go func(n *Node) {
			defer wg.Done()
			sem <- struct{}{}
			defer func() { <-sem }()
			var err *tss.Error
			s.guard(n, func() { err = n.Party.Start() })
			n.Started = true
			if err != nil {
				n.Aborted = true
				if n.Err == nil {
					n.Err = err
				}
			}
		}(n)
	}
	wg.Wait()
	for _, n := range todo {
		s.collect(n)
	}
}

// DeliverBulk hands the items to their recipients: the items of one recipient in the given order, different recipients
// concurrently (at most `workers`). Mutate (which must then be safe for concurrent use) is applied; the items stay in
// Pending. A recipient that returned an error is not fed any further unless KeepFeedingAborted is set.
func (s *Session) DeliverBulk(items []*Item, workers int) {
	if workers < 1 {
		workers = 1
	}
	per := map[*Node][]*Item{}
	var order []*Node
	for _, it := range items {
		if _, ok := per[it.To]; !ok {
			order = append(order, it.To)
		}
		per[it.To] = append(per[it.To], it)
	}
	sem := make(chan struct{}, workers)
	var wg sync.WaitGroup
	for _, n := range order {
		wg.Add(1)
		go func(n *Node, list []*Item) {
			defer wg.Done()
			sem <- struct{}{}
			defer func() { <-sem }()
			for _, it := range list {
				if (n.Aborted && !s.KeepFeedingAborted) || n.Panic != "" {
					return
				}
				it.Count++
				wire := it.Wire
				if s.Mutate != nil {
					if w := s.Mutate(it); w != nil {
						wire = w
					}
				}
				var err *tss.Error
				s.guard(n, func() { _, err = n.Party.UpdateFromBytes(wire, it.From.PID, it.Msg.Kind == "B") })
				if err != nil {
					n.Aborted = true
					if n.Err == nil {
						n.Err = err
					}
				}
			}
		}(n, per[n])
	}
	wg.Wait()
	for _, n := range order {
		s.collect(n)
	}
}
