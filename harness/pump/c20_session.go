package pump

// Helper of the C20 check (key material survives storage and repeated use): a signing session whose party ids are
// created in the order in which the CALLER lists the signers and are then sorted by tss.SortPartyIDs, with the key
// structs handed to the constructors exactly as given (no copies: the aliasing between the caller's struct and the
// party is what C20 observes), and with an optional random source per signer.

import (
	"fmt"
	"io"
	"math/big"

	"github.com/bnb-chain/tss-lib/v2/common"
	eckg "github.com/bnb-chain/tss-lib/v2/ecdsa/keygen"
	ecsg "github.com/bnb-chain/tss-lib/v2/ecdsa/signing"
	edkg "github.com/bnb-chain/tss-lib/v2/eddsa/keygen"
	edsg "github.com/bnb-chain/tss-lib/v2/eddsa/signing"
	"github.com/bnb-chain/tss-lib/v2/tss"

	"verif/harness/ev"
)

// ListedSigning describes one signing session as a caller would set it up.
type ListedSigning struct {
	Ecdsa bool
	// key data of the signers in the order the caller lists them (any order); handed to the library by value, as is
	EcKeys []eckg.LocalPartySaveData
	EdKeys []edkg.LocalPartySaveData
	T      int      // threshold of the key
	Msg    *big.Int // message / digest
	KDD    *big.Int // ECDSA key derivation delta (nil = NewLocalParty)
	// Rands: nil = the library's default randomness (crypto/rand, nothing is installed); otherwise one reader per
	// listed signer, installed with SetRand (the caller-misuse scenario of C20 installs the same stream twice)
	Rands []io.Reader
}

// NewListedSigning builds the parties (nothing is started). Nodes are in the sorted party order; Listed[i] is the
// node of the i-th listed signer.
func NewListedSigning(ls ListedSigning, sink ev.Sink) (s *Session, listed []*Node, err error) {
	defer func() {
		if r := recover(); r != nil {
			// a constructor (BuildLocalSaveDataSubset) panicked in the caller's goroutine
			err = fmt.Errorf("constructor panicked: %v", r)
		}
	}()
	proto := EdSigning
	n := len(ls.EdKeys)
	if ls.Ecdsa {
		proto = EcSigning
		n = len(ls.EcKeys)
	}
	cfg := Config{Proto: proto, N: n, T: ls.T, Msg: ls.Msg, KDD: ls.KDD, EcKeys: ls.EcKeys, EdKeys: ls.EdKeys}
	s = &Session{Cfg: cfg, Sink: sink, byKey: map[string]*Node{}}
	unsorted := make(tss.UnSortedPartyIDs, n)
	for i := 0; i < n; i++ {
		var sh *big.Int
		if ls.Ecdsa {
			sh = ls.EcKeys[i].ShareID
		} else {
			sh = ls.EdKeys[i].ShareID
		}
		if sh == nil {
			return nil, nil, fmt.Errorf("listed signer %d has no ShareID", i)
		}
		unsorted[i] = tss.NewPartyID(fmt.Sprintf("s%d", i+1), fmt.Sprintf("s%d", i+1), sh)
	}
	pids := tss.SortPartyIDs(unsorted)
	ctx := tss.NewPeerContext(pids)
	s.NOld = len(pids)
	listed = make([]*Node, n)
	for gi, pid := range pids {
		// which listed signer is this?
		li := -1
		for i := 0; i < n; i++ {
			var sh *big.Int
			if ls.Ecdsa {
				sh = ls.EcKeys[i].ShareID
			} else {
				sh = ls.EdKeys[i].ShareID
			}
			if sh.Cmp(pid.KeyInt()) == 0 {
				li = i
				break
			}
		}
		if li < 0 {
			return nil, nil, fmt.Errorf("sorted party id %d matches no listed signer", gi)
		}
		nd := &Node{G: gi + 1, Role: "single", PID: pid, out: make(chan tss.Message, 4096)}
		s.Nodes = append(s.Nodes, nd)
		s.byKey["s"+pid.KeyInt().String()] = nd
		listed[li] = nd
		ec := tss.Edwards()
		if ls.Ecdsa {
			ec = tss.S256()
		}
		params := tss.NewParameters(ec, ctx, pid, len(pids), ls.T)
		if ls.Rands != nil && ls.Rands[li] != nil {
			params.SetRand(ls.Rands[li])
		}
		nd.Params = params
		nd.endS = make(chan *common.SignatureData, 8)
		if ls.Ecdsa {
			if ls.KDD != nil {
				nd.Party = ecsg.NewLocalPartyWithKDD(ls.Msg, params, ls.EcKeys[li], ls.KDD, nd.out, nd.endS)
			} else {
				nd.Party = ecsg.NewLocalParty(ls.Msg, params, ls.EcKeys[li], nd.out, nd.endS)
			}
		} else {
			nd.Party = edsg.NewLocalParty(ls.Msg, params, ls.EdKeys[li], nd.out, nd.endS)
		}
	}
	return s, listed, nil
}
