//go:build verif

package pump

import (
	"fmt"
	"math/rand"
	"runtime"
	"strconv"
	"sync"
	"time"

	eckg "github.com/bnb-chain/tss-lib/v2/ecdsa/keygen"
	ecrs "github.com/bnb-chain/tss-lib/v2/ecdsa/resharing"
	ecsg "github.com/bnb-chain/tss-lib/v2/ecdsa/signing"
	edkg "github.com/bnb-chain/tss-lib/v2/eddsa/keygen"
	edrs "github.com/bnb-chain/tss-lib/v2/eddsa/resharing"
	edsg "github.com/bnb-chain/tss-lib/v2/eddsa/signing"
	"github.com/bnb-chain/tss-lib/v2/tss"

	"verif/harness/ev"
)

// Concurrent driver for C09: every party's Start / UpdateFromBytes / WaitingFor are called from many goroutines at once.
// The only instrumentation is the hook around the party mutex (tss.VerifLockHook, build tag verif). Everything the hook
// touches is either private to the calling goroutine, read-only after start-up, or protected by the very mutex the hook
// observes, so the harness adds no happens-before edge between goroutines that the mutex does not already add (the race
// detector therefore still sees unsynchronised accesses outside the critical sections). Message forwarding between
// parties goes through per-party inbox queues (a mutex each): those edges are the causal message edges themselves.

func baseOf(p tss.Party) *tss.BaseParty {
	switch x := p.(type) {
	case *edkg.LocalParty:
		return x.BaseParty
	case *eckg.LocalParty:
		return x.BaseParty
	case *edsg.LocalParty:
		return x.BaseParty
	case *ecsg.LocalParty:
		return x.BaseParty
	case *edrs.LocalParty:
		return x.BaseParty
	case *ecrs.LocalParty:
		return x.BaseParty
	}
	return nil
}

func curGID() uint64 {
	var buf [64]byte
	n := runtime.Stack(buf[:], false)
	// "goroutine 123 [running]:"
	s := buf[len("goroutine "):n]
	i := 0
	for i < len(s) && s[i] >= '0' && s[i] <= '9' {
		i++
	}
	id, _ := strconv.ParseUint(string(s[:i]), 10, 64)
	return id
}

// workerSlot is private to one goroutine (written and read only by it, also from inside the hook which runs on it).
type workerSlot struct {
	node    *Node
	kind    string // "update" | "start" | "read" | "junk"
	item    *Item
	as      string
	lastEv  *ev.Event // the critical-section event being filled (completed after the call returns for reads)
	holding bool
}

type inbox struct {
	mu    sync.Mutex
	items []*Item
}

func (b *inbox) push(it *Item) { b.mu.Lock(); b.items = append(b.items, it); b.mu.Unlock() }
func (b *inbox) pop(rng *rand.Rand) *Item {
	b.mu.Lock()
	defer b.mu.Unlock()
	if len(b.items) == 0 {
		return nil
	}
	i := rng.Intn(len(b.items))
	it := b.items[i]
	b.items = append(b.items[:i], b.items[i+1:]...)
	return it
}

// ConcResult is what a concurrent run produced.
type ConcResult struct {
	Events     []ev.Event // merged critical-section log (causally consistent linearisation)
	MutexBad   string     // violation of mutual exclusion / lock pairing seen by the hook
	Finished   []bool
	NResults   []int
	Rounds     []int
	Errs       []string
	TimedOut   bool
	Sections   int
	JunkErrors int
}

// ConcOpts tunes a concurrent run.
type ConcOpts struct {
	Workers      int   // deliverer goroutines per party
	Readers      bool  // a WaitingFor caller per party
	Junk         bool  // also hand invalid / unparsable input to the update entry points concurrently
	Seed         int64
	Timeout      time.Duration
	LateStart    bool // Start() is called while deliveries are already going on
}

// RunConcurrent drives session s concurrently. The session must be fresh (nothing started).
func (s *Session) RunConcurrent(o ConcOpts) *ConcResult {
	res := &ConcResult{}
	if o.Workers <= 0 {
		o.Workers = 3
	}
	if o.Timeout == 0 {
		o.Timeout = 120 * time.Second
	}
	nodeOf := map[*tss.BaseParty]*Node{}
	for _, n := range s.Nodes {
		nodeOf[baseOf(n.Party)] = n
	}
	type plog struct {
		seq    int
		events []*ev.Event
		holder uint64
		bad    string
		items  []*Item // messages emitted by this party (appended under the party mutex)
		signalled bool
	}
	logs := map[*Node]*plog{}
	boxes := map[*Node]*inbox{}
	for _, n := range s.Nodes {
		logs[n] = &plog{}
		boxes[n] = &inbox{}
	}
	slots := map[uint64]*workerSlot{}
	ready := make(chan struct{})
	type reg struct {
		gid  uint64
		slot *workerSlot
	}
	regCh := make(chan reg, 1024)

	// worker -> main signals only (no worker ever receives from these): a result was emitted / a call returned
	resultCh := make(chan int, 4096)
	actCh := make(chan int, 1<<16) // +1: a library call begins, -1: it returned
	begin := func() { actCh <- 1 }
	active := func() { actCh <- -1 }

	hook := func(bp *tss.BaseParty, event string) {
		n := nodeOf[bp]
		if n == nil {
			return
		}
		gid := curGID()
		sl := slots[gid] // read-only map after start-up
		if sl == nil {
			return
		}
		pl := logs[n]
		switch event {
		case "locked":
			if pl.holder != 0 && pl.bad == "" {
				pl.bad = fmt.Sprintf("party %d: goroutine %d acquired the mutex while goroutine %d holds it", n.G, gid, pl.holder)
			}
			pl.holder = gid
		case "before-unlock":
			if pl.holder != gid && pl.bad == "" {
				pl.bad = fmt.Sprintf("party %d: goroutine %d releases the mutex held by %d", n.G, gid, pl.holder)
			}
			pl.holder = 0
			pl.seq++
			e := &ev.Event{P: n.G, Ret: "ok"}
			switch sl.kind {
			case "update":
				e.Ev = "Pass"
				e.M = sl.item.Msg
				e.As = sl.as
			case "start":
				e.Ev = "Start"
			case "read", "junk":
				e.Ev = "Read"
			}
			// we hold the party mutex: reading the round pointer and draining the party's channels is safe here
			if sl.kind == "start" {
				n.Started = true
			}
			e.Rnd = s.roundHolding(n)
			// emitted messages
			for {
				select {
				case m := <-n.out:
					kind := "P"
					if m.IsBroadcast() {
						kind = "B"
					}
					wire, _, err := m.WireBytes()
					if err != nil {
						continue
					}
					st := shortType(m.Type())
					rcs := s.recipients(n, m)
					for _, rc := range rcs {
						it := &Item{ID: n.G*100000 + len(pl.items) + 1, Msg: ev.Msg{Type: st, From: n.G, To: rc.G, Kind: kind, Fan: len(rcs)}, Wire: wire, From: n, To: rc, Orig: m, Round: typeRound(st)}
						pl.items = append(pl.items, it)
						e.Out = append(e.Out, it.Msg)
						if s.Mutate != nil { // fault injection: one message altered on its way to one recipient
							if w := s.Mutate(it); w != nil {
								it.Wire = w
							}
						}
						boxes[rc].push(it)
					}
					continue
				default:
				}
				break
			}
			for {
				select {
				case r := <-n.endKE:
					n.Results = append(n.Results, r)
					continue
				case r := <-n.endKD:
					n.Results = append(n.Results, r)
					continue
				case r := <-n.endS:
					n.Results = append(n.Results, r)
					continue
				default:
				}
				break
			}
			if len(n.Results) > 0 && !pl.signalled {
				pl.signalled = true
				select {
				case resultCh <- n.G:
				default:
				}
			}
			e.Ended = len(n.Results)
			pl.events = append(pl.events, e)
			sl.lastEv = e
		}
	}
	tss.VerifLockHook = hook
	defer func() { tss.VerifLockHook = nil }()

	var wg sync.WaitGroup
	stop := make(chan struct{})
	var errMu sync.Mutex

	spawn := func(sl *workerSlot, body func(rng *rand.Rand), seed int64) {
		wg.Add(1)
		go func() {
			defer wg.Done()
			regCh <- reg{curGID(), sl}
			<-ready
			body(rand.New(rand.NewSource(seed)))
		}()
	}
	jitter := func(rng *rand.Rand) {
		switch rng.Intn(4) {
		case 0:
			runtime.Gosched()
		case 1:
			time.Sleep(time.Duration(rng.Intn(200)) * time.Microsecond)
		}
	}
	nspawn := 0
	for _, n := range s.Nodes {
		n := n
		// Start caller
		sl := &workerSlot{node: n, kind: "start"}
		spawn(sl, func(rng *rand.Rand) {
			if o.LateStart {
				time.Sleep(time.Duration(rng.Intn(3000)) * time.Microsecond)
			}
			begin()
			if err := n.Party.Start(); err != nil {
				errMu.Lock()
				res.Errs = append(res.Errs, fmt.Sprintf("party %d Start: %v", n.G, err))
				errMu.Unlock()
			}
			active()
		}, o.Seed*100+int64(nspawn))
		nspawn++
		for w := 0; w < o.Workers; w++ {
			sl := &workerSlot{node: n, kind: "update"}
			spawn(sl, func(rng *rand.Rand) {
				for {
					select {
					case <-stop:
						return
					default:
					}
					it := boxes[n].pop(rng)
					if it == nil {
						time.Sleep(200 * time.Microsecond)
						continue
					}
					sl.item, sl.as = it, it.Msg.Kind
					jitter(rng)
					begin()
					_, err := n.Party.UpdateFromBytes(it.Wire, it.From.PID, it.Msg.Kind == "B")
					if err != nil {
						errMu.Lock()
						res.Errs = append(res.Errs, fmt.Sprintf("party %d Update(%s from %d): %v", n.G, it.Msg.Type, it.Msg.From, err))
						errMu.Unlock()
					}
					active()
				}
			}, o.Seed*100+int64(nspawn))
			nspawn++
		}
		if o.Readers {
			sl := &workerSlot{node: n, kind: "read"}
			spawn(sl, func(rng *rand.Rand) {
				for k := 0; k < 30; k++ {
					select {
					case <-stop:
						return
					default:
					}
					sl.lastEv = nil
					w := n.Party.WaitingFor()
					if e := sl.lastEv; e != nil {
						for _, pid := range w {
							if m := s.lookup(pid); m != nil && m != n {
								e.Waiting = append(e.Waiting, m.G)
							}
						}
					}
					time.Sleep(time.Duration(100+rng.Intn(900)) * time.Microsecond)
				}
			}, o.Seed*100+int64(nspawn))
			nspawn++
		}
		if o.Junk {
			sl := &workerSlot{node: n, kind: "junk"}
			spawn(sl, func(rng *rand.Rand) {
				from := s.Nodes[(n.G)%len(s.Nodes)].PID
				for k := 0; k < 40; k++ {
					select {
					case <-stop:
						return
					default:
					}
					junk := make([]byte, 1+rng.Intn(40))
					rng.Read(junk)
					if _, err := n.Party.UpdateFromBytes(junk, from, rng.Intn(2) == 0); err != nil {
						errMu.Lock()
						res.JunkErrors++
						errMu.Unlock()
					}
					time.Sleep(time.Duration(50+rng.Intn(400)) * time.Microsecond)
				}
			}, o.Seed*100+int64(nspawn))
			nspawn++
		}
	}
	for i := 0; i < nspawn; i++ {
		r := <-regCh
		slots[r.gid] = r.slot
	}
	close(ready)
	// wait for completion: every party has emitted a result and all inboxes are empty; or the run is quiescent
	// (no call returned for a while and nothing is queued) without that; or timeout
	deadline := time.Now().Add(o.Timeout)
	got := map[int]bool{}
	lastAct := time.Now()
	inflight := 0
	empty := func() bool {
		for _, n := range s.Nodes {
			b := boxes[n]
			b.mu.Lock()
			k := len(b.items)
			b.mu.Unlock()
			if k > 0 {
				return false
			}
		}
		return true
	}
	for {
		select {
		case g := <-resultCh:
			got[g] = true
			lastAct = time.Now()
			continue
		case d := <-actCh:
			inflight += d
			lastAct = time.Now()
			continue
		case <-time.After(5 * time.Millisecond):
		}
		if len(got) == len(s.Nodes) && empty() && time.Since(lastAct) > 150*time.Millisecond {
			break
		}
		if inflight == 0 && empty() && time.Since(lastAct) > 2*time.Second {
			break // quiescent: nothing queued, no call in flight, nothing happened for seconds
		}
		if time.Now().After(deadline) {
			res.TimedOut = true
			break
		}
	}
	close(stop)
	wg.Wait()
	// all goroutines joined: plain reads from here on
	for _, n := range s.Nodes {
		pl := logs[n]
		if pl.bad != "" && res.MutexBad == "" {
			res.MutexBad = pl.bad
		}
		res.Sections += len(pl.events)
		s.All = append(s.All, pl.items...)
		res.NResults = append(res.NResults, len(n.Results))
		r := s.Round(n)
		res.Rounds = append(res.Rounds, r)
		res.Finished = append(res.Finished, len(n.Results) == 1 && r == ev.Done)
	}
	// merge the per-party logs into one causally consistent sequence
	idx := map[*Node]int{}
	sent := map[ev.Msg]bool{}
	key := func(m ev.Msg) ev.Msg { m.Fan = 0; return m }
	res.Events = append(res.Events, ev.Event{Ev: "Reset", Proto: string(s.Cfg.Proto), NOld: s.NOld, NNew: s.NNew})
	for {
		progressed := false
		for _, n := range s.Nodes {
			pl := logs[n]
			for idx[n] < len(pl.events) {
				e := pl.events[idx[n]]
				if e.Ev == "Pass" && !sent[key(e.M)] {
					break
				}
				for _, m := range e.Out {
					sent[key(m)] = true
				}
				e.Proto = string(s.Cfg.Proto)
				e.NOld, e.NNew = s.NOld, s.NNew
				c := *e
				c.Normalise()
				res.Events = append(res.Events, c)
				idx[n]++
				progressed = true
			}
		}
		if !progressed {
			break
		}
	}
	for _, n := range s.Nodes {
		if idx[n] < len(logs[n].events) && res.MutexBad == "" {
			res.MutexBad = fmt.Sprintf("party %d: critical-section log cannot be linearised (a message was consumed that no logged section had emitted)", n.G)
		}
	}
	return res
}

// roundHolding reads the party's round while the calling goroutine holds the party mutex.
func (s *Session) roundHolding(n *Node) int {
	str := n.Party.String()
	if m := roundRe.FindStringSubmatch(str); m != nil {
		r, _ := strconv.Atoi(m[1])
		return r
	}
	if !n.Started {
		return 0
	}
	return ev.Done
}
