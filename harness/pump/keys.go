package pump

import (
	"encoding/json"
	"fmt"
	"math/big"
	"math/rand"
	"os"
	"path/filepath"

	eckg "github.com/bnb-chain/tss-lib/v2/ecdsa/keygen"
	edkg "github.com/bnb-chain/tss-lib/v2/eddsa/keygen"
	"github.com/bnb-chain/tss-lib/v2/tss"
)

func RepoDir() string {
	if d := os.Getenv("VERIF_REPO"); d != "" {
		return d
	}
	return "/repo"
}

// LoadEcFixtures loads the first n vendored ECDSA key files (a 5-party, t=2 key).
func LoadEcFixtures(n int) ([]eckg.LocalPartySaveData, error) {
	var keys []eckg.LocalPartySaveData
	for i := 0; i < n; i++ {
		bz, err := os.ReadFile(filepath.Join(RepoDir(), "test", "_ecdsa_fixtures", fmt.Sprintf("keygen_data_%d.json", i)))
		if err != nil {
			return nil, err
		}
		var k eckg.LocalPartySaveData
		if err := json.Unmarshal(bz, &k); err != nil {
			return nil, err
		}
		for _, p := range k.BigXj {
			p.SetCurve(tss.S256())
		}
		k.ECDSAPub.SetCurve(tss.S256())
		keys = append(keys, k)
	}
	return keys, nil
}

// LoadEdFixtures loads the first n vendored EdDSA key files (a 5-party, t=2 key).
func LoadEdFixtures(n int) ([]edkg.LocalPartySaveData, error) {
	var keys []edkg.LocalPartySaveData
	for i := 0; i < n; i++ {
		bz, err := os.ReadFile(filepath.Join(RepoDir(), "test", "_eddsa_fixtures", fmt.Sprintf("keygen_data_%d.json", i)))
		if err != nil {
			return nil, err
		}
		var k edkg.LocalPartySaveData
		if err := json.Unmarshal(bz, &k); err != nil {
			return nil, err
		}
		for _, p := range k.BigXj {
			p.SetCurve(tss.Edwards())
		}
		k.EDDSAPub.SetCurve(tss.Edwards())
		keys = append(keys, k)
	}
	return keys, nil
}

// PreParams returns the n vendored ECDSA pre-parameter sets (at most 5 exist).
func PreParams(n int) ([]eckg.LocalPreParams, error) {
	if n > 5 {
		return nil, fmt.Errorf("only 5 vendored pre-parameter sets")
	}
	keys, err := LoadEcFixtures(5)
	if err != nil {
		return nil, err
	}
	var pp []eckg.LocalPreParams
	for i := 0; i < n; i++ {
		pp = append(pp, keys[i].LocalPreParams)
	}
	return pp, nil
}

// PreParamsFrom returns pre-parameter sets starting at offset (wrapping), used to give
// a new committee different sets than the old one.
func PreParamsFrom(off, n int) ([]eckg.LocalPreParams, error) {
	keys, err := LoadEcFixtures(5)
	if err != nil {
		return nil, err
	}
	var pp []eckg.LocalPreParams
	for i := 0; i < n; i++ {
		pp = append(pp, keys[(off+i)%5].LocalPreParams)
	}
	return pp, nil
}

// FreshEdKeygen runs a real EdDSA keygen (FIFO) and returns the parties' save data in party order.
func FreshEdKeygen(n, t int, seed int64, partyKeys []*big.Int) ([]edkg.LocalPartySaveData, error) {
	s, err := New(Config{Proto: EdKeygen, N: n, T: t, Seed: seed, PartyKeys: partyKeys}, nil)
	if err != nil {
		return nil, err
	}
	st, _ := StrategyByName("fifo")
	s.Run(st, rand.New(rand.NewSource(seed)), 100000)
	var keys []edkg.LocalPartySaveData
	for _, nd := range s.Nodes {
		if nd.Err != nil {
			return nil, fmt.Errorf("keygen party %d failed: %v", nd.G, nd.Err)
		}
		if len(nd.Results) != 1 {
			return nil, fmt.Errorf("keygen party %d produced %d results", nd.G, len(nd.Results))
		}
		keys = append(keys, *nd.Results[0].(*edkg.LocalPartySaveData))
	}
	return keys, nil
}

// FreshEcKeygen runs a real ECDSA keygen (FIFO) with the vendored pre-parameters.
func FreshEcKeygen(n, t int, seed int64, partyKeys []*big.Int) ([]eckg.LocalPartySaveData, error) {
	pp, err := PreParams(n)
	if err != nil {
		return nil, err
	}
	s, err := New(Config{Proto: EcKeygen, N: n, T: t, Seed: seed, PartyKeys: partyKeys, PreParams: pp}, nil)
	if err != nil {
		return nil, err
	}
	st, _ := StrategyByName("fifo")
	s.Run(st, rand.New(rand.NewSource(seed)), 100000)
	var keys []eckg.LocalPartySaveData
	for _, nd := range s.Nodes {
		if nd.Err != nil {
			return nil, fmt.Errorf("keygen party %d failed: %v", nd.G, nd.Err)
		}
		if len(nd.Results) != 1 {
			return nil, fmt.Errorf("keygen party %d produced %d results", nd.G, len(nd.Results))
		}
		keys = append(keys, *nd.Results[0].(*eckg.LocalPartySaveData))
	}
	return keys, nil
}
