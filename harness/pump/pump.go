// Package pump is a deterministic, single-threaded transport for the six
// tss-lib protocols. It decides every delivery itself, so the linearisation
// point of every observed event is simply the return of the public call.
// It only uses the exported API of tss-lib.
package pump

import (
	"crypto/elliptic"
	crand "crypto/rand"
	"fmt"
	"io"
	"math/big"
	"math/rand"
	"regexp"
	"runtime/debug"
	"sort"
	"strconv"
	"strings"
	"sync"

	"github.com/bnb-chain/tss-lib/v2/common"
	eckg "github.com/bnb-chain/tss-lib/v2/ecdsa/keygen"
	ecrs "github.com/bnb-chain/tss-lib/v2/ecdsa/resharing"
	ecsg "github.com/bnb-chain/tss-lib/v2/ecdsa/signing"
	edkg "github.com/bnb-chain/tss-lib/v2/eddsa/keygen"
	edrs "github.com/bnb-chain/tss-lib/v2/eddsa/resharing"
	edsg "github.com/bnb-chain/tss-lib/v2/eddsa/signing"
	"github.com/bnb-chain/tss-lib/v2/tss"

	"verif/harness/ev"
)

type Proto string

const (
	EdKeygen  Proto = "eddsa-keygen"
	EcKeygen  Proto = "ecdsa-keygen"
	EdSigning Proto = "eddsa-signing"
	EcSigning Proto = "ecdsa-signing"
	EdReshare Proto = "eddsa-resharing"
	EcReshare Proto = "ecdsa-resharing"
)

var AllProtos = []Proto{EdKeygen, EdSigning, EdReshare, EcKeygen, EcSigning, EcReshare}

func (p Proto) IsResharing() bool { return p == EdReshare || p == EcReshare }
func (p Proto) IsEcdsa() bool     { return strings.HasPrefix(string(p), "ecdsa") }

// Config describes one protocol session.
type Config struct {
	Proto Proto
	N, T  int // keygen: parties / threshold. signing: number of signers / key threshold. resharing: old participants / old threshold
	NewN  int // resharing
	NewT  int

	// PartyKeys: optional party id keys (keygen: n, resharing: new committee). nil => 1..n style generated keys.
	PartyKeys []*big.Int

	// key material for signing / resharing-old: one per participant (any order; sorted by ShareID internally)
	EcKeys []eckg.LocalPartySaveData
	EdKeys []edkg.LocalPartySaveData
	// ECDSA pre-parameters for keygen parties / resharing new members
	PreParams []eckg.LocalPreParams

	Msg          *big.Int
	FullBytesLen int      // 0 = absent
	KDD          *big.Int // ECDSA signing key derivation delta (nil = none)

	// Curve, when set, replaces the protocol's standard curve (toy-parameter runs: a tiny prime-order curve
	// given as *elliptic.CurveParams; the library takes its group from tss.Parameters.EC())
	Curve elliptic.Curve

	Concurrency int // > 0: tss.Parameters.SetConcurrency (default: GOMAXPROCS)
	// DeclaredOldN, when > 0, is the old party count handed to tss.NewReSharingParameters instead of the size of the old
	// peer context (the library's own resharing test declares a count larger than the context it builds)
	DeclaredOldN int

	NoProofs bool  // resharing / keygen: SetNoProofMod + SetNoProofFac
	Seed     int64 // seeds protocol randomness; 0 = crypto/rand
	// FirstDraws, when set, gives per party (in sorted party order) the bytes its Rand() source yields first
	// (e.g. the big-endian encoding of the nonce share k_i an ECDSA signer draws first in round 1)
	FirstDraws [][]byte
}

// Node is one protocol participant.
type Node struct {
	G     int    // global 1-based number used in traces (old committee first)
	Role  string // "single" | "old" | "new"
	PID   *tss.PartyID
	Party tss.Party

	out   chan tss.Message
	endKE chan *eckg.LocalPartySaveData
	endKD chan *edkg.LocalPartySaveData
	endS  chan *common.SignatureData

	Started bool
	Panic   string     // a call into the library panicked in the caller's goroutine (value + stack)
	Aborted bool       // a call returned an error; the harness stops feeding it unless told otherwise
	Err     *tss.Error // first error
	Results []any      // values received on the end channel
	Params  *tss.Parameters
}

// Item is one message in flight to one recipient.
type Item struct {
	ID    int
	Msg   ev.Msg
	Wire  []byte
	From  *Node
	To    *Node
	Orig  tss.Message
	Round int // round number in which the type is consumed (from the type name)
	Count int // how often it has been delivered
}

type Session struct {
	Cfg     Config
	Nodes   []*Node
	NOld    int
	NNew    int
	Pending []*Item // not yet delivered (in send order)
	All     []*Item // everything ever sent (per recipient)
	Sink    ev.Sink
	nextID  int
	byKey   map[string]*Node

	// OnOut is called for every message a party emits (before fan-out); used by observers (C08 secrecy / wire round trip)
	OnOut func(from *Node, m tss.Message)
	// Mutate, when set, may replace the wire bytes of an item right before delivery (fault injection)
	Mutate func(it *Item) []byte
	// ObsHook lets a property attach observation booleans to the event of a call on node n
	ObsHook func(s *Session, n *Node) map[string]bool
	// EventHook may fill further fields of the event of a call on node n
	EventHook func(s *Session, n *Node, e *ev.Event)
	// Silent nodes neither receive nor have their messages delivered any more (crash / going silent)
	Silent map[int]bool
	// KeepFeedingAborted: keep delivering to parties that returned an error (C06: deliveries after an abort)
	KeepFeedingAborted bool
	// FromOverride may replace the sender identity an item is handed over with (C06: sender index out of range etc.)
	FromOverride func(it *Item) (index int, ok bool)
}

// curves of a session (Config.Curve overrides both)
func (c Config) edCurve() elliptic.Curve {
	if c.Curve != nil {
		return c.Curve
	}
	return tss.Edwards()
}
func (c Config) ecCurve() elliptic.Curve {
	if c.Curve != nil {
		return c.Curve
	}
	return tss.S256()
}

var roundRe = regexp.MustCompile(`round: (\d+)`)
var typeRoundRe = regexp.MustCompile(`Round(\d+)`)

// drbg is a mutex protected deterministic byte stream.
type drbg struct {
	mu sync.Mutex
	r  *rand.Rand
}

func (d *drbg) Read(p []byte) (int, error) {
	d.mu.Lock()
	defer d.mu.Unlock()
	return d.r.Read(p)
}

func NewDRBG(seed int64) *drbg { return &drbg{r: rand.New(rand.NewSource(seed))} }

// prefixReader yields the given bytes first and then the bytes of the underlying reader.
type prefixReader struct {
	mu   sync.Mutex
	pre  []byte
	rest io.Reader
}

func (p *prefixReader) Read(b []byte) (int, error) {
	p.mu.Lock()
	if len(p.pre) > 0 {
		n := copy(b, p.pre)
		p.pre = p.pre[n:]
		p.mu.Unlock()
		if n < len(b) {
			m, err := p.rest.Read(b[n:])
			return n + m, err
		}
		return n, nil
	}
	p.mu.Unlock()
	return p.rest.Read(b)
}

func shortType(full string) string {
	if i := strings.LastIndex(full, "."); i >= 0 {
		return full[i+1:]
	}
	return full
}

func typeRound(t string) int {
	m := typeRoundRe.FindStringSubmatch(t)
	if m == nil {
		return 0
	}
	n, _ := strconv.Atoi(m[1])
	return n
}

func genPIDs(keys []*big.Int, n int, prefix string, base int64) tss.SortedPartyIDs {
	ids := make(tss.UnSortedPartyIDs, n)
	for i := 0; i < n; i++ {
		var k *big.Int
		if keys != nil {
			k = keys[i]
		} else {
			k = big.NewInt(base + int64(i) + 1)
		}
		ids[i] = tss.NewPartyID(fmt.Sprintf("%s%d", prefix, i+1), fmt.Sprintf("%s%d", prefix, i+1), k)
	}
	return tss.SortPartyIDs(ids)
}

func pidsFromShareIDs(shareIDs []*big.Int, prefix string) tss.SortedPartyIDs {
	ids := make(tss.UnSortedPartyIDs, len(shareIDs))
	for i, k := range shareIDs {
		ids[i] = tss.NewPartyID(fmt.Sprintf("%s%d", prefix, i+1), fmt.Sprintf("%s%d", prefix, i+1), k)
	}
	return tss.SortPartyIDs(ids)
}

// New builds the parties of a session (nothing is started).
func New(cfg Config, sink ev.Sink) (*Session, error) {
	s := &Session{Cfg: cfg, Sink: sink, byKey: map[string]*Node{}}
	mkNode := func(g int, role string, pid *tss.PartyID) *Node {
		n := &Node{G: g, Role: role, PID: pid, out: make(chan tss.Message, 4096)}
		s.Nodes = append(s.Nodes, n)
		s.byKey[role[:1]+pid.KeyInt().String()] = n
		return n
	}
	setRand := func(p *tss.Parameters, g int) {
		var base io.Reader = crand.Reader
		if cfg.Seed != 0 {
			base = NewDRBG(cfg.Seed*1000 + int64(g))
			p.SetPartialKeyRand(NewDRBG(cfg.Seed*1000 + 500 + int64(g)))
		}
		if g-1 < len(cfg.FirstDraws) && cfg.FirstDraws[g-1] != nil {
			base = &prefixReader{pre: append([]byte(nil), cfg.FirstDraws[g-1]...), rest: base}
		}
		if cfg.Seed != 0 || len(cfg.FirstDraws) > 0 {
			p.SetRand(base)
		}
		if cfg.NoProofs {
			p.SetNoProofMod()
			p.SetNoProofFac()
		}
		if cfg.Concurrency > 0 {
			p.SetConcurrency(cfg.Concurrency)
		}
	}
	switch cfg.Proto {
	case EdKeygen, EcKeygen:
		pids := genPIDs(cfg.PartyKeys, cfg.N, "k", 0)
		ctx := tss.NewPeerContext(pids)
		s.NOld = cfg.N
		for i, pid := range pids {
			n := mkNode(i+1, "single", pid)
			if cfg.Proto == EdKeygen {
				params := tss.NewParameters(cfg.edCurve(), ctx, pid, cfg.N, cfg.T)
				setRand(params, n.G)
				n.Params = params
				n.endKD = make(chan *edkg.LocalPartySaveData, 8)
				n.Party = edkg.NewLocalParty(params, n.out, n.endKD)
			} else {
				params := tss.NewParameters(cfg.ecCurve(), ctx, pid, cfg.N, cfg.T)
				setRand(params, n.G)
				n.Params = params
				n.endKE = make(chan *eckg.LocalPartySaveData, 8)
				if i >= len(cfg.PreParams) {
					return nil, fmt.Errorf("ecdsa keygen needs %d pre-parameter sets, have %d", cfg.N, len(cfg.PreParams))
				}
				n.Party = eckg.NewLocalParty(params, n.out, n.endKE, cfg.PreParams[i])
			}
		}
	case EdSigning:
		keys := append([]edkg.LocalPartySaveData(nil), cfg.EdKeys...)
		sort.Slice(keys, func(i, j int) bool { return keys[i].ShareID.Cmp(keys[j].ShareID) < 0 })
		sh := make([]*big.Int, len(keys))
		for i := range keys {
			sh[i] = keys[i].ShareID
		}
		pids := pidsFromShareIDs(sh, "s")
		ctx := tss.NewPeerContext(pids)
		s.NOld = len(pids)
		for i, pid := range pids {
			n := mkNode(i+1, "single", pid)
			params := tss.NewParameters(cfg.edCurve(), ctx, pid, len(pids), cfg.T)
			setRand(params, n.G)
			n.Params = params
			n.endS = make(chan *common.SignatureData, 8)
			if cfg.FullBytesLen > 0 {
				n.Party = edsg.NewLocalParty(cfg.Msg, params, keys[i], n.out, n.endS, cfg.FullBytesLen)
			} else {
				n.Party = edsg.NewLocalParty(cfg.Msg, params, keys[i], n.out, n.endS)
			}
		}
	case EcSigning:
		keys := append([]eckg.LocalPartySaveData(nil), cfg.EcKeys...)
		sort.Slice(keys, func(i, j int) bool { return keys[i].ShareID.Cmp(keys[j].ShareID) < 0 })
		sh := make([]*big.Int, len(keys))
		for i := range keys {
			sh[i] = keys[i].ShareID
		}
		pids := pidsFromShareIDs(sh, "s")
		ctx := tss.NewPeerContext(pids)
		s.NOld = len(pids)
		for i, pid := range pids {
			n := mkNode(i+1, "single", pid)
			params := tss.NewParameters(cfg.ecCurve(), ctx, pid, len(pids), cfg.T)
			setRand(params, n.G)
			n.Params = params
			n.endS = make(chan *common.SignatureData, 8)
			var fb []int
			if cfg.FullBytesLen > 0 {
				fb = []int{cfg.FullBytesLen}
			}
			if cfg.KDD != nil {
				n.Party = ecsg.NewLocalPartyWithKDD(cfg.Msg, params, keys[i], cfg.KDD, n.out, n.endS, fb...)
			} else {
				n.Party = ecsg.NewLocalParty(cfg.Msg, params, keys[i], n.out, n.endS, fb...)
			}
		}
	case EdReshare, EcReshare:
		var sh []*big.Int
		edKeys := append([]edkg.LocalPartySaveData(nil), cfg.EdKeys...)
		ecKeys := append([]eckg.LocalPartySaveData(nil), cfg.EcKeys...)
		if cfg.Proto == EdReshare {
			sort.Slice(edKeys, func(i, j int) bool { return edKeys[i].ShareID.Cmp(edKeys[j].ShareID) < 0 })
			for i := range edKeys {
				sh = append(sh, edKeys[i].ShareID)
			}
		} else {
			sort.Slice(ecKeys, func(i, j int) bool { return ecKeys[i].ShareID.Cmp(ecKeys[j].ShareID) < 0 })
			for i := range ecKeys {
				sh = append(sh, ecKeys[i].ShareID)
			}
		}
		oldPIDs := pidsFromShareIDs(sh, "o")
		newPIDs := genPIDs(cfg.PartyKeys, cfg.NewN, "n", 1000)
		oldCtx, newCtx := tss.NewPeerContext(oldPIDs), tss.NewPeerContext(newPIDs)
		declOld := len(oldPIDs)
		if cfg.DeclaredOldN > 0 {
			declOld = cfg.DeclaredOldN
		}
		s.NOld, s.NNew = len(oldPIDs), len(newPIDs)
		for i, pid := range oldPIDs {
			n := mkNode(i+1, "old", pid)
			if cfg.Proto == EdReshare {
				params := tss.NewReSharingParameters(cfg.edCurve(), oldCtx, newCtx, pid, declOld, cfg.T, cfg.NewN, cfg.NewT)
				setRand(params.Parameters, n.G)
				n.Params = params.Parameters
				n.endKD = make(chan *edkg.LocalPartySaveData, 8)
				n.Party = edrs.NewLocalParty(params, edKeys[i], n.out, n.endKD)
			} else {
				params := tss.NewReSharingParameters(cfg.ecCurve(), oldCtx, newCtx, pid, declOld, cfg.T, cfg.NewN, cfg.NewT)
				setRand(params.Parameters, n.G)
				n.Params = params.Parameters
				n.endKE = make(chan *eckg.LocalPartySaveData, 8)
				n.Party = ecrs.NewLocalParty(params, ecKeys[i], n.out, n.endKE)
			}
		}
		for i, pid := range newPIDs {
			n := mkNode(len(oldPIDs)+i+1, "new", pid)
			if cfg.Proto == EdReshare {
				params := tss.NewReSharingParameters(cfg.edCurve(), oldCtx, newCtx, pid, declOld, cfg.T, cfg.NewN, cfg.NewT)
				setRand(params.Parameters, n.G)
				n.Params = params.Parameters
				n.endKD = make(chan *edkg.LocalPartySaveData, 8)
				n.Party = edrs.NewLocalParty(params, edkg.NewLocalPartySaveData(cfg.NewN), n.out, n.endKD)
			} else {
				params := tss.NewReSharingParameters(cfg.ecCurve(), oldCtx, newCtx, pid, declOld, cfg.T, cfg.NewN, cfg.NewT)
				setRand(params.Parameters, n.G)
				n.Params = params.Parameters
				n.endKE = make(chan *eckg.LocalPartySaveData, 8)
				save := eckg.NewLocalPartySaveData(cfg.NewN)
				if i >= len(cfg.PreParams) {
					return nil, fmt.Errorf("ecdsa resharing needs %d pre-parameter sets, have %d", cfg.NewN, len(cfg.PreParams))
				}
				save.LocalPreParams = cfg.PreParams[i]
				n.Party = ecrs.NewLocalParty(params, save, n.out, n.endKE)
			}
		}
	default:
		return nil, fmt.Errorf("unknown protocol %q", cfg.Proto)
	}
	if sink != nil {
		sink.Emit(ev.Event{Ev: "Reset", Proto: string(cfg.Proto), NOld: s.NOld, NNew: s.NNew})
	}
	return s, nil
}

// ---------------------------------------------------------------- observation

// Round is the projected round number of a node.
func (s *Session) Round(n *Node) int {
	if n.Panic != "" {
		return -1 // the party's mutex may still be held by the call that panicked
	}
	str := n.Party.String()
	if m := roundRe.FindStringSubmatch(str); m != nil {
		r, _ := strconv.Atoi(m[1])
		return r
	}
	if strings.Contains(str, "No more rounds") {
		if !n.Started {
			return 0
		}
		return ev.Done
	}
	panic("unparsable party String(): " + str)
}

// Waiting is WaitingFor() projected to global numbers, self removed.
func (s *Session) Waiting(n *Node) []int {
	var w []int
	if n.Panic != "" {
		return w
	}
	for _, pid := range n.Party.WaitingFor() {
		m := s.lookup(pid)
		if m == nil {
			panic("WaitingFor returned an unknown party id " + pid.String())
		}
		if m != n {
			w = append(w, m.G)
		}
	}
	sort.Ints(w)
	return w
}

func (s *Session) lookup(pid *tss.PartyID) *Node {
	// a pointer match is unambiguous; fall back to key lookup (old first)
	for _, n := range s.Nodes {
		if n.PID == pid {
			return n
		}
	}
	for _, n := range s.Nodes {
		if n.PID.KeyInt().Cmp(pid.KeyInt()) == 0 {
			return n
		}
	}
	return nil
}

// recipients expands one outgoing message into its recipients.
func (s *Session) recipients(from *Node, m tss.Message) []*Node {
	var rc []*Node
	to := m.GetTo()
	if to == nil {
		for _, n := range s.Nodes {
			if n != from {
				rc = append(rc, n)
			}
		}
		return rc
	}
	if !s.Cfg.Proto.IsResharing() {
		for _, pid := range to {
			if n := s.lookup(pid); n != nil && n != from {
				rc = append(rc, n)
			}
		}
		return rc
	}
	// resharing: destination committee is given by the routing flags, the index by the id
	old, nw := s.Nodes[:s.NOld], s.Nodes[s.NOld:]
	find := func(set []*Node, pid *tss.PartyID) *Node {
		for _, n := range set {
			if n.PID.KeyInt().Cmp(pid.KeyInt()) == 0 {
				return n
			}
		}
		return nil
	}
	for _, pid := range to {
		var n *Node
		switch {
		case m.IsToOldAndNewCommittees():
			if n = find(old, pid); n == nil {
				n = find(nw, pid)
			}
		case m.IsToOldCommittee():
			n = find(old, pid)
		default:
			n = find(nw, pid)
		}
		if n != nil && n != from {
			rc = append(rc, n)
		}
	}
	return rc
}

// collect drains the out and end channels of node n after a call.
func (s *Session) collect(n *Node) []ev.Msg {
	var outs []ev.Msg
	for {
		select {
		case m := <-n.out:
			if s.OnOut != nil {
				s.OnOut(n, m)
			}
			kind := "P"
			if m.IsBroadcast() {
				kind = "B"
			}
			wire, _, err := m.WireBytes()
			if err != nil {
				panic(fmt.Sprintf("WireBytes failed for %s: %v", m.Type(), err))
			}
			st := shortType(m.Type())
			rcs := s.recipients(n, m)
			for _, rc := range rcs {
				s.nextID++
				it := &Item{ID: s.nextID, Msg: ev.Msg{Type: st, From: n.G, To: rc.G, Kind: kind, Fan: len(rcs)}, Wire: wire,
					From: n, To: rc, Orig: m, Round: typeRound(st)}
				s.Pending = append(s.Pending, it)
				s.All = append(s.All, it)
				outs = append(outs, it.Msg)
			}
			continue
		default:
		}
		break
	}
	for {
		select {
		case r := <-n.endKE:
			n.Results = append(n.Results, r)
			continue
		case r := <-n.endKD:
			n.Results = append(n.Results, r)
			continue
		case r := <-n.endS:
			n.Results = append(n.Results, r)
			continue
		default:
		}
		break
	}
	return outs
}

func (s *Session) culprits(e *tss.Error) []int {
	var c []int
	for _, pid := range e.Culprits() {
		if pid == nil {
			continue
		}
		if m := s.lookup(pid); m != nil {
			c = append(c, m.G)
		} else {
			c = append(c, -1)
		}
	}
	sort.Ints(c)
	return c
}

func (s *Session) emit(e ev.Event, n *Node) {
	if s.Sink == nil {
		return
	}
	e.Proto = string(s.Cfg.Proto)
	e.NOld, e.NNew = s.NOld, s.NNew
	if s.ObsHook != nil {
		e.Obs = s.ObsHook(s, n)
	}
	if s.EventHook != nil {
		s.EventHook(s, n, &e)
	}
	s.Sink.Emit(e)
}

// guard runs a library call and converts a panic in the caller's goroutine into a recorded fact.
func (s *Session) guard(n *Node, f func()) (panicked bool) {
	defer func() {
		if r := recover(); r != nil {
			panicked = true
			if n.Panic == "" {
				n.Panic = fmt.Sprintf("%v\n%s", r, debug.Stack())
			}
			n.Aborted = true
		}
	}()
	f()
	return false
}

// Start calls Start() on node n and records the event.
func (s *Session) Start(n *Node) *tss.Error {
	var err *tss.Error
	pan := s.guard(n, func() { err = n.Party.Start() })
	n.Started = true
	e := ev.Event{Ev: "Start", P: n.G, Ret: "ok"}
	if pan {
		e.Ret = "panic"
	}
	if err != nil {
		e.Ret = "err"
		e.ErrRound = err.Round()
		e.Culprits = s.culprits(err)
		n.Aborted = true
		if n.Err == nil {
			n.Err = err
		}
	}
	e.Out = s.collect(n)
	e.Rnd = s.Round(n)
	e.Waiting = s.Waiting(n)
	e.Ended = len(n.Results)
	s.emit(e, n)
	return err
}

// DeliverOpt tunes a delivery.
type DeliverOpt struct {
	Flip bool // hand the message over with the opposite broadcast flag
	Keep bool // leave the item in Pending (a later delivery will be a duplicate)
}

// Deliver hands item it to its recipient through UpdateFromBytes-equivalent parsing + Update.
func (s *Session) Deliver(it *Item, opt DeliverOpt) (bool, *tss.Error) {
	n := it.To
	as := it.Msg.Kind
	if opt.Flip {
		if as == "B" {
			as = "P"
		} else {
			as = "B"
		}
	}
	if !opt.Keep {
		s.removePending(it)
	}
	it.Count++
	wire := it.Wire
	if s.Mutate != nil {
		if w := s.Mutate(it); w != nil {
			wire = w
		}
	}
	var ok bool
	var err *tss.Error
	fromPID := it.From.PID
	if s.FromOverride != nil {
		if idx, o := s.FromOverride(it); o {
			c := tss.NewPartyID(it.From.PID.Id, it.From.PID.Moniker, it.From.PID.KeyInt())
			c.Index = idx
			fromPID = c
		}
	}
	pan := s.guard(n, func() { ok, err = n.Party.UpdateFromBytes(wire, fromPID, as == "B") })
	e := ev.Event{Ev: "Deliver", P: n.G, M: it.Msg, As: as, Ret: "ok"}
	if pan {
		e.Ret = "panic"
	}
	if err != nil {
		e.Ret = "err"
		e.ErrRound = err.Round()
		e.Culprits = s.culprits(err)
		n.Aborted = true
		if n.Err == nil {
			n.Err = err
		}
	} else if !ok && !pan {
		e.Ret = "ignored"
	}
	e.Out = s.collect(n)
	e.Rnd = s.Round(n)
	e.Waiting = s.Waiting(n)
	e.Ended = len(n.Results)
	s.emit(e, n)
	return ok, err
}

func (s *Session) removePending(it *Item) {
	for i, p := range s.Pending {
		if p == it {
			s.Pending = append(s.Pending[:i], s.Pending[i+1:]...)
			return
		}
	}
}

// Quiescent reports that every party is started and nothing is in flight.
func (s *Session) Quiescent() bool {
	if len(s.Pending) > 0 {
		return false
	}
	for _, n := range s.Nodes {
		if !n.Started {
			return false
		}
	}
	return true
}

// SentMultiset is the multiset of abstract messages sent in the session, as a sorted list of strings.
func (s *Session) SentMultiset() []string {
	var l []string
	for _, it := range s.All {
		l = append(l, fmt.Sprintf("%s/%d>%d/%s", it.Msg.Type, it.Msg.From, it.Msg.To, it.Msg.Kind))
	}
	sort.Strings(l)
	return l
}
