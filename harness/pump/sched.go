package pump

import (
	"verif/harness/ev"
	"fmt"
	"math/rand"
	"strconv"
	"strings"
)

// Step is one scheduler decision.
type Step struct {
	Op   string `json:"op"`   // start | deliver | dup | flip
	Node int    `json:"node"` // start: party number
	Item int    `json:"item"` // deliver/dup/flip: item id
}

// Enabled lists the steps a causally consistent transport may take now.
func (s *Session) Enabled() []Step {
	var en []Step
	for _, n := range s.Nodes {
		if !n.Started && !s.Silent[n.G] {
			en = append(en, Step{Op: "start", Node: n.G})
		}
	}
	for _, it := range s.Pending {
		if (it.To.Aborted && !s.KeepFeedingAborted) || it.To.Panic != "" || s.Silent[it.To.G] || s.Silent[it.From.G] {
			continue
		}
		en = append(en, Step{Op: "deliver", Item: it.ID, Node: it.To.G})
	}
	return en
}

// ItemByID returns the item (delivered or not) with the given id.
func (s *Session) ItemByID(id int) *Item { return s.item(id) }

func (s *Session) item(id int) *Item {
	for _, it := range s.All {
		if it.ID == id {
			return it
		}
	}
	return nil
}

// Apply executes a step.
func (s *Session) Apply(st Step) error {
	switch st.Op {
	case "silence":
		if s.Silent == nil {
			s.Silent = map[int]bool{}
		}
		s.Silent[st.Node] = true
	case "start":
		s.Start(s.Nodes[st.Node-1])
	case "deliver":
		it := s.item(st.Item)
		if it == nil {
			return fmt.Errorf("no item %d", st.Item)
		}
		s.Deliver(it, DeliverOpt{})
	case "dup":
		it := s.item(st.Item)
		if it == nil {
			return fmt.Errorf("no item %d", st.Item)
		}
		s.Deliver(it, DeliverOpt{Keep: true})
	case "flip":
		it := s.item(st.Item)
		if it == nil {
			return fmt.Errorf("no item %d", st.Item)
		}
		s.Deliver(it, DeliverOpt{Keep: true, Flip: true})
	default:
		return fmt.Errorf("unknown op %q", st.Op)
	}
	return nil
}

// Strategy picks the next step among the enabled ones.
type Strategy func(s *Session, en []Step, rng *rand.Rand) Step

func firstStart(en []Step) (Step, bool) {
	for _, e := range en {
		if e.Op == "start" {
			return e, true
		}
	}
	return Step{}, false
}

func deliveries(en []Step) []Step {
	var d []Step
	for _, e := range en {
		if e.Op == "deliver" {
			d = append(d, e)
		}
	}
	return d
}

// StrategyByName returns a named directed strategy. Names:
// fifo, lifo, future, dup, random, starve:<k>, prestart:<k>, flipfirst
func StrategyByName(name string) (Strategy, error) {
	if strings.HasPrefix(name, "holdtype:") {
		// holdtype:<message type>:<sender>: every message of that type from that sender is held back as long as anything
		// else can happen (it is overtaken by all later traffic, also the sender's own)
		f := strings.Split(name, ":")
		if len(f) != 3 {
			return nil, fmt.Errorf("bad strategy %q", name)
		}
		g, err := strconv.Atoi(f[2])
		if err != nil {
			return nil, err
		}
		typ := f[1]
		return func(s *Session, en []Step, _ *rand.Rand) Step {
			if st, ok := firstStart(en); ok {
				return st
			}
			ds := deliveries(en)
			for _, d := range ds {
				if it := s.item(d.Item); !(it.Msg.Type == typ && it.From.G == g) {
					return d
				}
			}
			return ds[0]
		}, nil
	}
	arg := 0
	if i := strings.Index(name, ":"); i >= 0 {
		a, err := strconv.Atoi(name[i+1:])
		if err != nil {
			return nil, err
		}
		arg = a
		name = name[:i]
	}
	switch name {
	case "fifo":
		return func(s *Session, en []Step, _ *rand.Rand) Step {
			if st, ok := firstStart(en); ok {
				return st
			}
			return deliveries(en)[0]
		}, nil
	case "lifo":
		return func(s *Session, en []Step, _ *rand.Rand) Step {
			if st, ok := firstStart(en); ok {
				return st
			}
			d := deliveries(en)
			return d[len(d)-1]
		}, nil
	case "future":
		// prefer messages of the latest round (they arrive "early" at slower parties), newest first
		return func(s *Session, en []Step, _ *rand.Rand) Step {
			if st, ok := firstStart(en); ok {
				return st
			}
			d := deliveries(en)
			best := d[0]
			for _, e := range d {
				if s.item(e.Item).Round >= s.item(best.Item).Round {
					best = e
				}
			}
			return best
		}, nil
	case "dup":
		// FIFO, every message delivered twice in a row
		return func(s *Session, en []Step, _ *rand.Rand) Step {
			if st, ok := firstStart(en); ok {
				return st
			}
			d := deliveries(en)[0]
			if s.item(d.Item).Count == 0 {
				d.Op = "dup"
			}
			return d
		}, nil
	case "duplate":
		// every message delivered once now and once again as late as possible (after everything else)
		return func(s *Session, en []Step, _ *rand.Rand) Step {
			if st, ok := firstStart(en); ok {
				return st
			}
			ds := deliveries(en)
			for _, d := range ds {
				if s.item(d.Item).Count == 0 {
					d.Op = "dup"
					return d
				}
			}
			return ds[0]
		}, nil
	case "starve":
		// party <arg> receives nothing while anybody else can make a step
		return func(s *Session, en []Step, _ *rand.Rand) Step {
			if st, ok := firstStart(en); ok {
				return st
			}
			d := deliveries(en)
			for _, e := range d {
				if e.Node != arg {
					return e
				}
			}
			return d[0]
		}, nil
	case "prestart":
		// party <arg> is started as late as possible: its inbox fills before its Start call
		return func(s *Session, en []Step, _ *rand.Rand) Step {
			for _, e := range en {
				if e.Op == "start" && e.Node != arg {
					return e
				}
			}
			if d := deliveries(en); len(d) > 0 {
				return d[0]
			}
			return en[0]
		}, nil
	case "devduplate":
		// as devdup, but the second copy of a message of party <arg> is handed over only AFTER the recipient has left
		// the round that awaits it and before it has finished (a late duplicate: the stored copy is replaced although the
		// recipient has already checked and used the first one)
		return func(s *Session, en []Step, _ *rand.Rand) Step {
			if st, ok := firstStart(en); ok {
				return st
			}
			ds := deliveries(en)
			for _, d := range ds {
				if it := s.item(d.Item); it.From.G == arg && it.Count == 0 {
					d.Op = "dup"
					return d
				}
			}
			for _, d := range ds {
				it := s.item(d.Item)
				if it.From.G != arg || it.Count == 0 {
					continue
				}
				if r := s.Round(it.To); r > it.Round && r != ev.Done && len(it.To.Results) == 0 {
					return d
				}
			}
			for _, d := range ds {
				if it := s.item(d.Item); it.From.G != arg {
					return d
				}
			}
			return ds[0]
		}, nil
	case "devdup":
		// Party <arg> is the fastest one (its inbox is served first, its messages are delivered as soon as they exist)
		// and every message it sends is delivered a second time - the copy a fault case may alter: a sender that
		// replaces a message the recipient already holds.  The second copy is handed over when it is "ripe": the
		// recipient is in the round that awaits the type and holds everything that round needs from the sender
		// (so it has seen, and possibly already checked, the honest copy) but still waits for somebody else.
		// Copies that never become ripe are delivered at the very end (inert).
		return func(s *Session, en []Step, _ *rand.Rand) Step {
			if st, ok := firstStart(en); ok {
				return st
			}
			ds := deliveries(en)
			for _, d := range ds {
				if it := s.item(d.Item); it.From.G == arg && it.Count == 0 {
					d.Op = "dup"
					return d
				}
			}
			for _, d := range ds {
				it := s.item(d.Item)
				if it.From.G != arg || it.Count == 0 {
					continue
				}
				if s.Round(it.To) != it.Round {
					continue
				}
				w := s.Waiting(it.To)
				holdsSender, waitsOther := true, false
				for _, g := range w {
					if g == arg {
						holdsSender = false
					} else {
						waitsOther = true
					}
				}
				if holdsSender && waitsOther {
					return d
				}
			}
			for _, d := range ds { // feed the fast party first
				if it := s.item(d.Item); it.To.G == arg && it.From.G != arg {
					return d
				}
			}
			for _, d := range ds {
				if it := s.item(d.Item); it.From.G != arg {
					return d
				}
			}
			return ds[0]
		}, nil
	case "devlast":
		// messages sent by party <arg> are delivered only when nothing else can happen (a "rushing" deviator
		// that has seen everybody else's message of the round before its own is delivered)
		return func(s *Session, en []Step, _ *rand.Rand) Step {
			if st, ok := firstStart(en); ok {
				return st
			}
			d := deliveries(en)
			for _, e := range d {
				if s.item(e.Item).From.G != arg {
					return e
				}
			}
			return d[0]
		}, nil
	case "flipfirst":
		// every message is first handed over with the wrong broadcast flag, then correctly
		return func(s *Session, en []Step, _ *rand.Rand) Step {
			if st, ok := firstStart(en); ok {
				return st
			}
			d := deliveries(en)[0]
			if s.item(d.Item).Count == 0 {
				d.Op = "flip"
			}
			return d
		}, nil
	case "random":
		return func(s *Session, en []Step, rng *rand.Rand) Step {
			e := en[rng.Intn(len(en))]
			if e.Op == "deliver" && s.item(e.Item).Count < 2 && rng.Intn(8) == 0 {
				e.Op = "dup"
			}
			return e
		}, nil
	}
	return nil, fmt.Errorf("unknown strategy %q", name)
}

// Run drives the session with a strategy until nothing is enabled. It returns the executed schedule.
func (s *Session) Run(strat Strategy, rng *rand.Rand, maxSteps int) []Step {
	var sched []Step
	for len(sched) < maxSteps {
		en := s.Enabled()
		if len(en) == 0 {
			break
		}
		st := strat(s, en, rng)
		if err := s.Apply(st); err != nil {
			panic(err)
		}
		sched = append(sched, st)
	}
	return sched
}

// Replay executes a recorded schedule (item ids are deterministic for a given schedule prefix).
func (s *Session) Replay(sched []Step) error {
	for _, st := range sched {
		if err := s.Apply(st); err != nil {
			return err
		}
	}
	return nil
}
