// Package sandbox runs batches of cases that may crash or hang the process in
// child processes with a journal, so that a panic in a goroutine started by
// the library (which kills the whole process) or an endless loop can be
// attributed to the case that was running, and the remaining cases continue.
package sandbox

import (
	"bufio"
	"bytes"
	"encoding/json"
	"fmt"
	"os"
	"os/exec"
	"path/filepath"
	"runtime/debug"
	"strings"
	"sync"
	"syscall"
	"time"
)

type Case struct {
	ID      string          `json:"id"`
	Payload json.RawMessage `json:"payload"`
}

type Result struct {
	ID     string          `json:"id"`
	Status string          `json:"status"` // ok | panic (recovered in the caller's goroutine) | crash (process died) | hang
	Output json.RawMessage `json:"output,omitempty"`
	Detail string          `json:"detail,omitempty"` // panic value + stack, stderr tail, goroutine dump
	WallMs int64           `json:"wall_ms"`
}

// Handler processes one case inside the child.
type Handler func(payload json.RawMessage) (any, error)

// ChildMain is the entry point of a worker process: verif <worker> <cases.json> <journal>
func ChildMain(args []string, h Handler) int {
	if len(args) < 2 {
		fmt.Fprintln(os.Stderr, "worker: need <cases.json> <journal>")
		return 2
	}
	b, err := os.ReadFile(args[0])
	if err != nil {
		fmt.Fprintln(os.Stderr, err)
		return 2
	}
	var cases []Case
	if err := json.Unmarshal(b, &cases); err != nil {
		fmt.Fprintln(os.Stderr, err)
		return 2
	}
	j, err := os.OpenFile(args[1], os.O_CREATE|os.O_WRONLY|os.O_APPEND, 0o644)
	if err != nil {
		fmt.Fprintln(os.Stderr, err)
		return 2
	}
	defer j.Close()
	for _, c := range cases {
		fmt.Fprintf(j, "B %s\n", c.ID)
		j.Sync()
		t0 := time.Now()
		res := Result{ID: c.ID, Status: "ok"}
		func() {
			defer func() {
				if r := recover(); r != nil {
					res.Status = "panic"
					res.Detail = fmt.Sprintf("%v\n%s", r, debug.Stack())
				}
			}()
			out, err := h(c.Payload)
			if err != nil {
				res.Status = "harness-error"
				res.Detail = err.Error()
				return
			}
			ob, _ := json.Marshal(out)
			res.Output = ob
		}()
		res.WallMs = time.Since(t0).Milliseconds()
		rb, _ := json.Marshal(res)
		fmt.Fprintf(j, "E %s\n", rb)
		j.Sync()
	}
	return 0
}

// MaxFailures bounds the number of crashed / hung cases after which the remaining cases of a Run are skipped.
var MaxFailures = 12

// Run executes the cases with `parallel` child processes of the current binary.
func Run(worker string, cases []Case, parallel int, perCase time.Duration) ([]Result, error) {
	exe, err := os.Executable()
	if err != nil {
		return nil, err
	}
	return RunExe(exe, nil, worker, cases, parallel, perCase)
}

// RunExe is Run with an explicit worker binary and extra environment (e.g. the -race build with GORACE settings).
func RunExe(exe string, env []string, worker string, cases []Case, parallel int, perCase time.Duration) ([]Result, error) {
	var err error
	tmpBase := os.Getenv("VERIF_TMP")
	if tmpBase == "" {
		tmpBase = os.TempDir()
	}
	dir, err := os.MkdirTemp(tmpBase, "verif-sbx-")
	if err != nil {
		return nil, err
	}
	defer os.RemoveAll(dir)
	results := make(map[string]Result, len(cases))
	var mu sync.Mutex
	// split into interleaved chunks so that expensive neighbours spread out
	if parallel < 1 {
		parallel = 1
	}
	chunks := make([][]Case, parallel)
	for i, c := range cases {
		chunks[i%parallel] = append(chunks[i%parallel], c)
	}
	var wg sync.WaitGroup
	var firstErr error
	// Once MaxFailures cases have crashed or hung, the cases not yet started are skipped (status "skipped"): each
	// failure costs a time-out or a process restart, and a handful of them already decides the run.
	failures := 0
	for w := 0; w < parallel; w++ {
		if len(chunks[w]) == 0 {
			continue
		}
		wg.Add(1)
		go func(w int, todo []Case) {
			defer wg.Done()
			round := 0
			for len(todo) > 0 {
				mu.Lock()
				stop := failures >= MaxFailures
				if stop {
					for _, c := range todo {
						results[c.ID] = Result{ID: c.ID, Status: "skipped"}
					}
				}
				mu.Unlock()
				if stop {
					return
				}
				round++
				cf := filepath.Join(dir, fmt.Sprintf("cases-%d-%d.json", w, round))
				jf := filepath.Join(dir, fmt.Sprintf("journal-%d-%d", w, round))
				cb, _ := json.Marshal(todo)
				os.WriteFile(cf, cb, 0o644)
				done, cur, detail, status, err := runChild(exe, env, worker, cf, jf, perCase)
				if err != nil {
					mu.Lock()
					if firstErr == nil {
						firstErr = err
					}
					mu.Unlock()
					return
				}
				mu.Lock()
				for _, r := range done {
					results[r.ID] = r
				}
				mu.Unlock()
				if cur == "" && len(done) >= len(todo) {
					return
				}
				// the child died or hung while processing `cur`
				idx := -1
				for i, c := range todo {
					if c.ID == cur {
						idx = i
					}
				}
				if idx < 0 {
					// died between cases (or before the first): skip what is done
					if len(done) == 0 {
						mu.Lock()
						if firstErr == nil {
							firstErr = fmt.Errorf("worker %s died before its first case: %s", worker, detail)
						}
						mu.Unlock()
						return
					}
					todo = todo[len(done):]
					continue
				}
				mu.Lock()
				results[cur] = Result{ID: cur, Status: status, Detail: detail}
				failures++
				mu.Unlock()
				todo = todo[idx+1:]
			}
		}(w, chunks[w])
	}
	wg.Wait()
	if firstErr != nil {
		return nil, firstErr
	}
	out := make([]Result, 0, len(cases))
	for _, c := range cases {
		r, ok := results[c.ID]
		if !ok {
			return nil, fmt.Errorf("case %s has no result", c.ID)
		}
		out = append(out, r)
	}
	return out, nil
}

// runChild runs one child until it exits or stops making progress.
func runChild(exe string, env []string, worker, casesFile, journal string, perCase time.Duration) (done []Result, current, detail, status string, err error) {
	cmd := exec.Command(exe, worker, casesFile, journal)
	var stderr bytes.Buffer
	cmd.Stderr = &stderr
	cmd.Stdout = &stderr
	cmd.Env = append(append(os.Environ(), "GOTRACEBACK=all"), env...)
	if err = cmd.Start(); err != nil {
		return
	}
	exited := make(chan error, 1)
	go func() { exited <- cmd.Wait() }()
	lastSize := int64(-1)
	lastChange := time.Now()
	hung := false
	tick := time.NewTicker(200 * time.Millisecond)
	defer tick.Stop()
loop:
	for {
		select {
		case <-exited:
			break loop
		case <-tick.C:
			st, e := os.Stat(journal)
			var sz int64
			if e == nil {
				sz = st.Size()
			}
			limit := perCase
			if sz == 0 {
				limit = perCase + 3*time.Minute // process start-up on a loaded machine: the first journal line is not there yet
			}
			if sz != lastSize {
				lastSize = sz
				lastChange = time.Now()
			} else if time.Since(lastChange) > limit {
				// no progress: ask for a goroutine dump, then kill
				hung = true
				cmd.Process.Signal(syscall.SIGQUIT)
				select {
				case <-exited:
				case <-time.After(5 * time.Second):
					cmd.Process.Kill()
					<-exited
				}
				break loop
			}
		}
	}
	// read the journal
	f, e := os.Open(journal)
	if e == nil {
		sc := bufio.NewScanner(f)
		sc.Buffer(make([]byte, 1<<20), 64<<20)
		for sc.Scan() {
			line := sc.Text()
			if strings.HasPrefix(line, "B ") {
				current = line[2:]
			} else if strings.HasPrefix(line, "E ") {
				var r Result
				if json.Unmarshal([]byte(line[2:]), &r) == nil {
					done = append(done, r)
					current = ""
				}
			}
		}
		f.Close()
	}
	if current != "" || hung {
		tail := stderr.String()
		if hung {
			// keep the goroutines of the dump that are inside the code under test first
			var lib, rest []string
			for _, g := range strings.Split(tail, "\n\n") {
				if strings.Contains(g, "bnb-chain/tss-lib/v2/") {
					lib = append(lib, g)
				} else {
					rest = append(rest, g)
				}
			}
			tail = strings.Join(append(lib, rest...), "\n\n")
			if len(tail) > 8000 {
				tail = tail[:8000]
			}
		} else if len(tail) > 6000 {
			tail = tail[:3000] + "\n...\n" + tail[len(tail)-3000:]
		}
		detail = tail
		if hung {
			status = "hang"
		} else {
			status = "crash"
		}
	}
	return
}
