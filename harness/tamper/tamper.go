// Package tamper alters single fields of tss-lib protocol messages on the wire
// (the bytes a transport would carry: a marshalled protobuf Any), using protobuf
// reflection on the decoded content, so that a deviating participant is modelled
// without touching the library.
package tamper

import (
	"encoding/hex"
	"fmt"
	"math/big"
	"math/rand"
	"strings"

	"google.golang.org/protobuf/proto"
	"google.golang.org/protobuf/reflect/protoreflect"
	"google.golang.org/protobuf/types/known/anypb"
)

// Spec names one alteration.
type Spec struct {
	Field string `json:"field"` // protobuf field name
	Index int    `json:"index"` // list element (0-based; negative counts from the end: -1 = last); ignored for scalars
	Kind  string `json:"kind"`  // plus1 | minus1 | random | zero | empty | set | remove | append | clearlist | flipbit | from-other
	Hex   string `json:"hex,omitempty"`
}

func (s Spec) String() string { return fmt.Sprintf("%s[%d]:%s%s", s.Field, s.Index, s.Kind, s.Hex) }

// FieldInfo describes one field of a decoded message.
type FieldInfo struct {
	Name   string
	IsList bool
	Len    int   // number of list elements (1 for scalars)
	Sizes  []int // byte lengths
}

func decode(wire []byte) (*anypb.Any, proto.Message, error) {
	a := new(anypb.Any)
	if err := proto.Unmarshal(wire, a); err != nil {
		return nil, nil, err
	}
	m, err := a.UnmarshalNew()
	if err != nil {
		return nil, nil, err
	}
	return a, m, nil
}

func encode(m proto.Message) ([]byte, error) {
	a, err := anypb.New(m)
	if err != nil {
		return nil, err
	}
	return proto.Marshal(a)
}

// Fields lists the bytes / repeated-bytes fields of the message.
func Fields(wire []byte) ([]FieldInfo, error) {
	_, m, err := decode(wire)
	if err != nil {
		return nil, err
	}
	var out []FieldInfo
	r := m.ProtoReflect()
	fds := r.Descriptor().Fields()
	for i := 0; i < fds.Len(); i++ {
		fd := fds.Get(i)
		if fd.Kind() != protoreflect.BytesKind {
			continue
		}
		fi := FieldInfo{Name: string(fd.Name()), IsList: fd.IsList()}
		if fd.IsList() {
			l := r.Get(fd).List()
			fi.Len = l.Len()
			for j := 0; j < l.Len(); j++ {
				fi.Sizes = append(fi.Sizes, len(l.Get(j).Bytes()))
			}
		} else {
			fi.Len = 1
			fi.Sizes = []int{len(r.Get(fd).Bytes())}
		}
		out = append(out, fi)
	}
	return out, nil
}

// Get returns the bytes of a field (element).
func Get(wire []byte, field string, index int) ([]byte, error) {
	_, m, err := decode(wire)
	if err != nil {
		return nil, err
	}
	r := m.ProtoReflect()
	fd := r.Descriptor().Fields().ByName(protoreflect.Name(field))
	if fd == nil {
		return nil, fmt.Errorf("no field %s", field)
	}
	if fd.IsList() {
		l := r.Get(fd).List()
		if index < 0 {
			index += l.Len()
		}
		if index < 0 || index >= l.Len() {
			return nil, fmt.Errorf("index out of range")
		}
		return append([]byte(nil), l.Get(index).Bytes()...), nil
	}
	return append([]byte(nil), r.Get(fd).Bytes()...), nil
}

func mutate(old []byte, sp Spec, rng *rand.Rand, other []byte) ([]byte, error) {
	switch sp.Kind {
	case "plus1":
		v := new(big.Int).SetBytes(old)
		v.Add(v, big.NewInt(1))
		return v.Bytes(), nil
	case "minus1":
		v := new(big.Int).SetBytes(old)
		if v.Sign() == 0 {
			return []byte{1}, nil
		}
		v.Sub(v, big.NewInt(1))
		b := v.Bytes()
		if len(b) == 0 {
			b = []byte{0}
		}
		return b, nil
	case "random":
		n := len(old)
		if n == 0 {
			n = 32
		}
		b := make([]byte, n)
		for {
			rng.Read(b)
			if b[0] == 0 {
				b[0] = 1
			}
			if string(b) != string(old) {
				return b, nil
			}
		}
	case "zero":
		return []byte{0}, nil
	case "empty":
		return []byte{}, nil
	case "flipbit":
		if len(old) == 0 {
			return []byte{1}, nil
		}
		b := append([]byte(nil), old...)
		b[len(b)-1] ^= 1
		return b, nil
	case "set":
		h := sp.Hex
		if i := strings.Index(h, "#"); i >= 0 {
			h = h[:i] // "<hex>#<name>": the name is documentation only
		}
		return hex.DecodeString(h)
	case "add":
		// another representative of the same residue class: value + Hex (e.g. the group order or a multiple of it)
		a, ok := new(big.Int).SetString(sp.Hex, 16)
		if !ok {
			return nil, fmt.Errorf("bad addend %q", sp.Hex)
		}
		return new(big.Int).Add(new(big.Int).SetBytes(old), a).Bytes(), nil
	case "from-other":
		if other == nil {
			return nil, fmt.Errorf("no other message given")
		}
		return other, nil
	}
	return nil, fmt.Errorf("unknown kind %q", sp.Kind)
}

// Apply alters the message. otherWire is the corresponding message of another party (for from-other).
// It returns the new wire bytes and whether the content actually changed.
func Apply(wire []byte, sp Spec, rng *rand.Rand, otherWire []byte) ([]byte, bool, error) {
	_, m, err := decode(wire)
	if err != nil {
		return nil, false, err
	}
	r := m.ProtoReflect()
	fd := r.Descriptor().Fields().ByName(protoreflect.Name(sp.Field))
	if fd == nil {
		return nil, false, fmt.Errorf("no field %s in %s", sp.Field, r.Descriptor().FullName())
	}
	var other []byte
	if sp.Kind == "from-other" {
		other, err = Get(otherWire, sp.Field, sp.Index)
		if err != nil {
			return nil, false, err
		}
	}
	changed := false
	if fd.IsList() {
		l := r.Mutable(fd).List()
		idx := sp.Index
		if idx < 0 {
			idx += l.Len()
		}
		switch sp.Kind {
		case "remove":
			if idx < 0 || idx >= l.Len() {
				return nil, false, fmt.Errorf("index out of range")
			}
			var keep [][]byte
			for j := 0; j < l.Len(); j++ {
				if j != idx {
					keep = append(keep, l.Get(j).Bytes())
				}
			}
			l.Truncate(0)
			for _, k := range keep {
				l.Append(protoreflect.ValueOfBytes(k))
			}
			changed = true
		case "append":
			l.Append(protoreflect.ValueOfBytes([]byte{1}))
			changed = true
		case "clearlist":
			changed = l.Len() > 0
			l.Truncate(0)
		case "setlist":
			l.Truncate(0)
			if sp.Hex != "" {
				for _, h := range strings.Split(sp.Hex, ",") {
					b, err := hex.DecodeString(h)
					if err != nil {
						return nil, false, err
					}
					l.Append(protoreflect.ValueOfBytes(b))
				}
			}
			changed = true
		default:
			if idx < 0 || idx >= l.Len() {
				return nil, false, fmt.Errorf("index out of range")
			}
			old := l.Get(idx).Bytes()
			nb, err := mutate(old, sp, rng, other)
			if err != nil {
				return nil, false, err
			}
			changed = string(nb) != string(old)
			l.Set(idx, protoreflect.ValueOfBytes(nb))
		}
	} else {
		old := r.Get(fd).Bytes()
		if sp.Kind == "remove" || sp.Kind == "clearlist" {
			sp.Kind = "empty"
		}
		nb, err := mutate(old, sp, rng, other)
		if err != nil {
			return nil, false, err
		}
		changed = string(nb) != string(old)
		r.Set(fd, protoreflect.ValueOfBytes(nb))
	}
	out, err := encode(m)
	if err != nil {
		return nil, false, err
	}
	return out, changed, nil
}
