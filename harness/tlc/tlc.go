// Package tlc runs the TLC model checker on the specifications in /verif/spec
// inside a private scratch directory (removed afterwards) and parses its verdict.
package tlc

import (
	"bytes"
	"context"
	"fmt"
	"os"
	"os/exec"
	"path/filepath"
	"regexp"
	"strconv"
	"strings"
	"time"
)

type Result struct {
	OK        bool   // "Model checking completed. No error has been found." (or simulation finished without error)
	Generated int    // states generated
	Distinct  int    // distinct states
	Depth     int    // depth of the state graph search
	Violated  string // name of the violated invariant / property / postcondition / "deadlock", "" if none
	HW, Len   int    // trace validation: lines consumed / lines in the trace file
	Output    string // full TLC output
	Err       error  // the machinery itself failed (timeout, JVM error, parse error) => inconclusive
	Wall      float64
}

func SpecDir() string {
	if d := os.Getenv("VERIF_SPEC"); d != "" {
		return d
	}
	return "/verif/spec"
}

var (
	reStates   = regexp.MustCompile(`(\d[\d,]*) states generated, (\d[\d,]*) distinct states found`)
	reDepth    = regexp.MustCompile(`depth of the complete state graph search is (\d+)`)
	reInv      = regexp.MustCompile(`Error: Invariant (\S+) is violated`)
	reProp     = regexp.MustCompile(`Error: Action property (\S+) is violated`)
	reTemporal = regexp.MustCompile(`Error: Temporal properties were violated`)
	rePost     = regexp.MustCompile(`Error: Postcondition (\S+) .* is false`)
	reHW       = regexp.MustCompile(`<<"TRACE_HW", (-?\d+), (\d+)>>`)
)

func atoi(s string) int {
	n, _ := strconv.Atoi(strings.ReplaceAll(s, ",", ""))
	return n
}

// Options for one TLC run.
type Options struct {
	Module   string            // e.g. "EngineMC" (file Module.tla in the spec dir)
	Cfg      string            // text of the .cfg file
	Env      map[string]string // extra environment (e.g. TRACE=...)
	Workers  int
	Timeout  time.Duration
	Args     []string          // extra TLC args (e.g. -simulate ...)
	Files    map[string]string // extra files to place in the scratch dir (name -> content)
	KeepDir  *string           // if non-nil, the scratch dir is kept and its path stored here
	DFS      bool              // depth-first state queue (StateDeque)
	Heap     string            // JVM -Xmx value, default 1g
}

const classPath = "/opt/veriftools/tla/tla2tools.jar:/opt/veriftools/tla/CommunityModules-deps.jar"

// Run executes TLC. Err != nil means the run is inconclusive.
func Run(o Options) Result {
	t0 := time.Now()
	var res Result
	tmpBase := os.Getenv("VERIF_TMP")
	if tmpBase == "" {
		tmpBase = os.TempDir()
	}
	dir, err := os.MkdirTemp(tmpBase, "verif-tlc-")
	if err != nil {
		res.Err = err
		return res
	}
	if o.KeepDir != nil {
		*o.KeepDir = dir
	} else {
		defer os.RemoveAll(dir)
	}
	specs, _ := filepath.Glob(filepath.Join(SpecDir(), "*.tla"))
	for _, f := range specs {
		b, err := os.ReadFile(f)
		if err != nil {
			res.Err = err
			return res
		}
		os.WriteFile(filepath.Join(dir, filepath.Base(f)), b, 0o644)
	}
	for name, content := range o.Files {
		os.WriteFile(filepath.Join(dir, name), []byte(content), 0o644)
	}
	cfgPath := filepath.Join(dir, "run.cfg")
	os.WriteFile(cfgPath, []byte(o.Cfg), 0o644)
	if o.Workers <= 0 {
		o.Workers = 1
	}
	if o.Timeout == 0 {
		o.Timeout = 10 * time.Minute
	}
	if o.Heap == "" {
		o.Heap = "1g"
	}
	args := []string{"-XX:+UseParallelGC", "-Xmx" + o.Heap, "-Xss64m"}
	if o.DFS {
		args = append(args, "-Dtlc2.tool.queue.IStateQueue=StateDeque")
	}
	args = append(args, "-XX:TieredStopAtLevel=1", "-cp", classPath, "tlc2.TLC", "-noGenerateSpecTE", "-workers", strconv.Itoa(o.Workers), "-metadir", filepath.Join(dir, "meta"), "-config", "run.cfg", "-nowarning")
	args = append(args, o.Args...)
	args = append(args, o.Module+".tla")
	ctx, cancel := context.WithTimeout(context.Background(), o.Timeout)
	defer cancel()
	cmd := exec.CommandContext(ctx, "java", args...)
	cmd.Dir = dir
	cmd.Env = os.Environ()
	for k, v := range o.Env {
		cmd.Env = append(cmd.Env, k+"="+v)
	}
	var out bytes.Buffer
	cmd.Stdout = &out
	cmd.Stderr = &out
	runErr := cmd.Run()
	res.Output = out.String()
	res.Wall = time.Since(t0).Seconds()
	if ctx.Err() != nil {
		res.Err = fmt.Errorf("tlc timed out after %v", o.Timeout)
		return res
	}
	s := res.Output
	if m := reStates.FindAllStringSubmatch(s, -1); m != nil {
		last := m[len(m)-1]
		res.Generated, res.Distinct = atoi(last[1]), atoi(last[2])
	}
	if m := reDepth.FindStringSubmatch(s); m != nil {
		res.Depth = atoi(m[1])
	}
	if m := reHW.FindStringSubmatch(s); m != nil {
		res.HW, res.Len = atoi(m[1]), atoi(m[2])
	}
	switch {
	case reInv.MatchString(s):
		res.Violated = reInv.FindStringSubmatch(s)[1]
	case reProp.MatchString(s):
		res.Violated = reProp.FindStringSubmatch(s)[1]
	case reTemporal.MatchString(s):
		res.Violated = "temporal"
	case strings.Contains(s, "Error: Deadlock reached"):
		res.Violated = "deadlock"
	case rePost.MatchString(s):
		res.Violated = rePost.FindStringSubmatch(s)[1]
	}
	if res.Violated == "" {
		if strings.Contains(s, "Model checking completed. No error has been found.") ||
			(strings.Contains(s, "Finished in") && !strings.Contains(s, "Error:") && containsSimulate(o.Args)) {
			res.OK = true
			return res
		}
		// no recognised verdict: parse error, evaluation error, JVM failure
		tail := s
		if len(tail) > 1500 {
			tail = tail[len(tail)-1500:]
		}
		res.Err = fmt.Errorf("tlc gave no verdict (run error: %v): %s", runErr, tail)
	}
	return res
}

func containsSimulate(a []string) bool {
	for _, x := range a {
		if x == "-simulate" {
			return true
		}
	}
	return false
}

// ErrorTrace extracts the printed counterexample (states) from the output, trimmed.
func (r Result) ErrorTrace(max int) string {
	i := strings.Index(r.Output, "Error:")
	if i < 0 {
		return ""
	}
	s := r.Output[i:]
	if len(s) > max {
		s = s[:max]
	}
	return s
}
