package tlc

import (
	"encoding/json"
	"fmt"
	"os"
	"path/filepath"
	"sort"
	"sync"
	"time"

	"verif/harness/ev"
)

// EngineFlags are the constants of Engine.tla that describe the code variant.
type EngineFlags struct {
	QuirkShort      bool
	QuirkStuck      bool
	StartRunsUpdate bool
	WaitingExact    bool // also check the C08 action property on the trace
}

// CodeFlags describes the engine as it is expected to behave on the repaired tree.
var CodeFlags = EngineFlags{QuirkShort: false, QuirkStuck: false, StartRunsUpdate: true, WaitingExact: true}

func b(x bool) string {
	if x {
		return "TRUE"
	}
	return "FALSE"
}

func EngineConstants(proto string, nold, nnew int, f EngineFlags) string {
	return fmt.Sprintf("CONSTANTS\n  Proto = %q\n  NOld = %d\n  NNew = %d\n  QuirkShort = %s\n  QuirkStuck = %s\n  StartRunsUpdate = %s\n  BadMsgs = {}\n",
		proto, nold, nnew, b(f.QuirkShort), b(f.QuirkStuck), b(f.StartRunsUpdate))
}

// TraceGroup is the verdict for all runs of one (protocol, sizes) group.
type TraceGroup struct {
	Proto      string
	NOld, NNew int
	Runs       int
	Events     int
	Accepted   bool
	Violated   string    // invariant / property violated, or "TraceAccepted" (line not explained)
	FailLine   int       // 1-based line in this group's file that could not be explained (0 if accepted)
	FailEvent  *ev.Event // the event at FailLine
	FailRun    int       // index (0-based) of the run inside the group that contains FailLine
	PrevEvents []ev.Event
	Res        Result
}

// ValidateEngineTraces checks events (a concatenation of runs, each starting with a Reset
// event) against Engine_Trace.tla. One TLC process per (protocol, sizes) group, in parallel.
func ValidateEngineTraces(events []ev.Event, f EngineFlags, module string, extraCfg string) ([]TraceGroup, error) {
	return ValidateTraces(events, f, module, "TraceSpec", "TraceInv", extraCfg)
}

// ValidateTraces is ValidateEngineTraces for a trace module that extends Engine_Trace with its own
// specification and invariant names.
func ValidateTraces(events []ev.Event, f EngineFlags, module, specName, invName, extraCfg string) ([]TraceGroup, error) {
	type key struct {
		proto      string
		nold, nnew int
	}
	groups := map[key][]ev.Event{}
	var cur key
	for _, e := range events {
		if e.Ev == "Reset" {
			cur = key{e.Proto, e.NOld, e.NNew}
		}
		if cur.proto == "" {
			return nil, fmt.Errorf("trace does not start with a Reset event")
		}
		groups[cur] = append(groups[cur], e)
	}
	var keys []key
	for k := range groups {
		keys = append(keys, k)
	}
	sort.Slice(keys, func(i, j int) bool {
		if keys[i].proto != keys[j].proto {
			return keys[i].proto < keys[j].proto
		}
		if keys[i].nold != keys[j].nold {
			return keys[i].nold < keys[j].nold
		}
		return keys[i].nnew < keys[j].nnew
	})
	out := make([]TraceGroup, len(keys))
	var wg sync.WaitGroup
	sem := make(chan struct{}, 8)
	var firstErr error
	var mu sync.Mutex
	tmpBase := os.Getenv("VERIF_TMP")
	if tmpBase == "" {
		tmpBase = os.TempDir()
	}
	for i, k := range keys {
		wg.Add(1)
		go func(i int, k key) {
			defer wg.Done()
			sem <- struct{}{}
			defer func() { <-sem }()
			evs := groups[k]
			g := TraceGroup{Proto: k.proto, NOld: k.nold, NNew: k.nnew, Events: len(evs)}
			for _, e := range evs {
				if e.Ev == "Reset" {
					g.Runs++
				}
			}
			tf, err := os.CreateTemp(tmpBase, "verif-trace-*.ndjson")
			if err != nil {
				mu.Lock()
				firstErr = err
				mu.Unlock()
				return
			}
			defer os.Remove(tf.Name())
			enc := json.NewEncoder(tf)
			for _, e := range evs {
				e.Normalise()
				enc.Encode(e)
			}
			tf.Close()
			cfg := "SPECIFICATION " + specName + "\n" + EngineConstants(k.proto, k.nold, k.nnew, f) +
				"INVARIANTS " + invName + "\nCONSTRAINT HighWater\nPOSTCONDITION TraceAccepted\nCHECK_DEADLOCK FALSE\n"
			if f.WaitingExact {
				cfg += "PROPERTIES TraceWaitingExact\n"
			}
			cfg += extraCfg
			abs, _ := filepath.Abs(tf.Name())
			r := Run(Options{Module: module, Cfg: cfg, Env: map[string]string{"TRACE": abs}, Workers: 1, Timeout: 15 * time.Minute})
			g.Res = r
			if r.Err != nil {
				mu.Lock()
				if firstErr == nil {
					firstErr = fmt.Errorf("group %s %d/%d: %v", k.proto, k.nold, k.nnew, r.Err)
				}
				mu.Unlock()
				out[i] = g
				return
			}
			g.Accepted = r.OK && r.HW == len(evs)
			if !g.Accepted {
				g.Violated = r.Violated
				if g.Violated == "" {
					g.Violated = "TraceAccepted"
				}
				// HW = number of lines consumed; the next one is the unexplained line
				line := r.HW + 1
				if r.Violated != "" && r.Violated != "TraceAccepted" {
					line = r.HW // the violating state is the one reached by the last consumed line
				}
				if line >= 1 && line <= len(evs) {
					g.FailLine = line
					e := evs[line-1]
					g.FailEvent = &e
					run := -1
					start := 0
					for j := 0; j < line; j++ {
						if evs[j].Ev == "Reset" {
							run++
							start = j
						}
					}
					g.FailRun = run
					g.PrevEvents = append([]ev.Event(nil), evs[start:line]...)
				}
			}
			out[i] = g
		}(i, k)
	}
	wg.Wait()
	if firstErr != nil {
		return out, firstErr
	}
	return out, nil
}
