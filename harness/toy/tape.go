package toy

import (
	"math/rand"
	"sync"
)

// Tape is an io.Reader that first hands out the given bytes and then an endless seeded pseudo-random stream (so a
// consumer that draws more than the tape holds is never starved). It is used to DRIVE COVERAGE of samplers such as
// common.GetRandomPositiveInt (rejection sampling over ceil(bits/8) big-endian bytes), never to predict outputs: whoever
// uses it must validate the outputs by themselves and measure which values were reached.
type Tape struct {
	mu   sync.Mutex
	pre  []byte
	rest *rand.Rand
	N    int // bytes handed out
}

func NewTape(pre []byte, seed int64) *Tape {
	return &Tape{pre: append([]byte(nil), pre...), rest: rand.New(rand.NewSource(seed))}
}

func (t *Tape) Read(p []byte) (int, error) {
	t.mu.Lock()
	defer t.mu.Unlock()
	for i := range p {
		if len(t.pre) > 0 {
			p[i] = t.pre[0]
			t.pre = t.pre[1:]
		} else {
			p[i] = byte(t.rest.Intn(256))
		}
	}
	t.N += len(p)
	return len(p), nil
}
