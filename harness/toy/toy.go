// Package toy provides tiny prime-order elliptic curves y^2 = x^3 - 3x + b over a small prime field as plain
// *elliptic.CurveParams, so that the library's own group code (crypto.ECPoint, vss, ...) can be run unmodified on
// groups small enough for TLC to enumerate (toy-parameter algebra, DESIGN 2 (C)).
//
// A curve is found by brute force (point counting by enumeration) and comes with an arithmetic that is independent of
// crypto/elliptic (affine chord-and-tangent in machine integers) and a discrete-log table built with that arithmetic:
// the projection of a toy-curve point onto the specification's abstract group (Z_q, +) is its discrete log.
// SelfCheck compares crypto/elliptic's generic CurveParams arithmetic with the independent one on every multiple of the
// generator; a disagreement means the toy layer cannot be trusted (inconclusive), never a verdict about tss-lib.
package toy

import (
	"crypto/elliptic"
	"fmt"
	"math/big"
	"sync"

	"verif/harness/obs"
)

// Curve is a toy curve of prime order Q with generator G = Point(1).
type Curve struct {
	Params *elliptic.CurveParams
	Q      int // group order (prime); the curve has cofactor 1
	Pf     int // field prime
	B      int
	gx, gy int
	pts    [][2]int       // pts[k] = k*G for k = 1..Q-1 (index 0 unused: the point at infinity)
	dlog   map[[2]int]int // affine point -> k
}

func isPrime(n int) bool {
	if n < 2 {
		return false
	}
	for d := 2; d*d <= n; d++ {
		if n%d == 0 {
			return false
		}
	}
	return true
}

func mod(a, p int) int {
	a %= p
	if a < 0 {
		a += p
	}
	return a
}

func inv(a, p int) int {
	// p prime, a != 0: a^(p-2)
	r, b, e := 1, mod(a, p), p-2
	for e > 0 {
		if e&1 == 1 {
			r = r * b % p
		}
		b = b * b % p
		e >>= 1
	}
	return r
}

// affine addition on y^2 = x^3 - 3x + b over F_p; inf flags mark the neutral element
func add(p int, x1, y1 int, inf1 bool, x2, y2 int, inf2 bool) (int, int, bool) {
	if inf1 {
		return x2, y2, inf2
	}
	if inf2 {
		return x1, y1, inf1
	}
	var l int
	if x1 == x2 {
		if mod(y1+y2, p) == 0 {
			return 0, 0, true
		}
		l = mod((3*x1*x1-3)%p*inv(2*y1, p), p)
	} else {
		l = mod((y2-y1)*inv(x2-x1, p), p)
	}
	x3 := mod(l*l-x1-x2, p)
	y3 := mod(l*(x1-x3)-y1, p)
	return x3, y3, false
}

func onCurve(p, b, x, y int) bool {
	return mod(y*y-(x*x*x-3*x+b), p) == 0
}

var (
	cacheMu sync.Mutex
	cache   = map[int]*Curve{}
)

// Find returns a toy curve whose group has exactly the given prime order (fields up to 2^15, so every product fits
// comfortably and every group element fits a TLC integer).
func Find(order int) (*Curve, error) {
	cacheMu.Lock()
	defer cacheMu.Unlock()
	if c, ok := cache[order]; ok {
		return c, nil
	}
	if !isPrime(order) || order < 5 || order > 1<<15 {
		return nil, fmt.Errorf("toy: order %d is not a prime in [5, 2^15]", order)
	}
	for p := 5; p <= order+2*isqrt(order)+3; p++ {
		if !isPrime(p) {
			continue
		}
		// Hasse: |#E - (p+1)| <= 2 sqrt(p)
		if d := order - (p + 1); d*d > 4*p {
			continue
		}
		for b := 1; b < p; b++ {
			if mod(4*(-27)+27*b*b, p) == 0 { // discriminant of x^3 - 3x + b: 4a^3 + 27b^2
				continue
			}
			n := 1 // the point at infinity
			gx, gy, have := 0, 0, false
			for x := 0; x < p; x++ {
				for y := 0; y < p; y++ {
					if onCurve(p, b, x, y) {
						n++
						if !have && y != 0 {
							gx, gy, have = x, y, true
						}
					}
				}
			}
			if n != order || !have {
				continue
			}
			c := &Curve{Q: order, Pf: p, B: b, gx: gx, gy: gy, dlog: map[[2]int]int{}}
			c.pts = make([][2]int, order)
			x, y, inf := gx, gy, false
			for k := 1; k < order; k++ {
				if inf {
					return nil, fmt.Errorf("toy: generator of curve p=%d b=%d has order %d < %d", p, b, k, order)
				}
				c.pts[k] = [2]int{x, y}
				c.dlog[[2]int{x, y}] = k
				x, y, inf = add(p, x, y, inf, gx, gy, false)
			}
			if !inf || len(c.dlog) != order-1 {
				return nil, fmt.Errorf("toy: curve p=%d b=%d: generator does not have order %d", p, b, order)
			}
			c.Params = &elliptic.CurveParams{
				P: big.NewInt(int64(p)), N: big.NewInt(int64(order)), B: big.NewInt(int64(b)),
				Gx: big.NewInt(int64(gx)), Gy: big.NewInt(int64(gy)), BitSize: big.NewInt(int64(p)).BitLen(),
				Name: fmt.Sprintf("toy-%d", order),
			}
			if err := c.selfCheck(); err != nil {
				return nil, err
			}
			cache[order] = c
			return c, nil
		}
	}
	return nil, fmt.Errorf("toy: no curve y^2=x^3-3x+b of order %d found", order)
}

func isqrt(n int) int {
	r := 0
	for (r+1)*(r+1) <= n {
		r++
	}
	return r
}

// selfCheck: crypto/elliptic's generic arithmetic agrees with the independent one on k*G (k = 1..2Q+1, also as
// repeated additions), and the group laws hold in the table.
func (c *Curve) selfCheck() error {
	for k := 1; k <= 2*c.Q+1; k++ {
		x, y := c.Params.ScalarBaseMult(big.NewInt(int64(k)).Bytes())
		if k%c.Q == 0 {
			if x.Sign() != 0 || y.Sign() != 0 {
				return fmt.Errorf("toy-%d: elliptic gives %v,%v for %d*G, expected the (0,0) convention", c.Q, x, y, k)
			}
			continue
		}
		w := c.pts[k%c.Q]
		if !x.IsInt64() || !y.IsInt64() || int(x.Int64()) != w[0] || int(y.Int64()) != w[1] {
			return fmt.Errorf("toy-%d: elliptic gives (%v,%v) for %d*G, independent arithmetic (%d,%d)", c.Q, x, y, k, w[0], w[1])
		}
		if !c.Params.IsOnCurve(x, y) {
			return fmt.Errorf("toy-%d: %d*G not on curve for elliptic", c.Q, k)
		}
	}
	for i := 1; i < c.Q; i++ {
		for j := 1; j < c.Q; j++ {
			x, y := c.Params.Add(big.NewInt(int64(c.pts[i][0])), big.NewInt(int64(c.pts[i][1])), big.NewInt(int64(c.pts[j][0])), big.NewInt(int64(c.pts[j][1])))
			s := (i + j) % c.Q
			if s == 0 {
				if x.Sign() != 0 || y.Sign() != 0 {
					return fmt.Errorf("toy-%d: elliptic Add of inverse points is not (0,0)", c.Q)
				}
				continue
			}
			if int(x.Int64()) != c.pts[s][0] || int(y.Int64()) != c.pts[s][1] {
				return fmt.Errorf("toy-%d: elliptic Add(%dG,%dG) disagrees with the table", c.Q, i, j)
			}
			if c.Q > 60 && j > 8 {
				break
			}
		}
	}
	if c.Params.IsOnCurve(big.NewInt(0), big.NewInt(0)) {
		return fmt.Errorf("toy-%d: (0,0) is on the curve, cannot stand for the point at infinity", c.Q)
	}
	return nil
}

// EC returns the curve as the library sees it.
func (c *Curve) EC() elliptic.Curve { return c.Params }

// Dlog projects an affine point onto Z_q: k with k*G = (x,y), in 1..Q-1; ok=false for anything that is not a group
// element representable as an affine point (off-curve, out of range, the (0,0) stand-in for infinity, nil).
func (c *Curve) Dlog(x, y *big.Int) (int, bool) {
	if x == nil || y == nil || !x.IsInt64() || !y.IsInt64() {
		return 0, false
	}
	k, ok := c.dlog[[2]int{int(x.Int64()), int(y.Int64())}]
	return k, ok
}

// XY returns the affine coordinates of k*G, k mod Q != 0.
func (c *Curve) XY(k int) (*big.Int, *big.Int, bool) {
	k = mod(k, c.Q)
	if k == 0 {
		return nil, nil, false
	}
	return big.NewInt(int64(c.pts[k][0])), big.NewInt(int64(c.pts[k][1])), true
}

// ---- obs.Group, so that the real-size oracles of the harness also run on the toy curves

func (c *Curve) Name() string    { return c.Params.Name }
func (c *Curve) Order() *big.Int { return big.NewInt(int64(c.Q)) }
func (c *Curve) Gen() obs.Pt {
	return obs.Pt{X: big.NewInt(int64(c.gx)), Y: big.NewInt(int64(c.gy))}
}
func (c *Curve) Identity() obs.Pt { return obs.Pt{Inf: true} }
func (c *Curve) Neg(a obs.Pt) obs.Pt {
	if a.Inf {
		return a
	}
	return obs.Pt{X: new(big.Int).Set(a.X), Y: big.NewInt(int64(mod(-int(a.Y.Int64()), c.Pf)))}
}
func (c *Curve) OnCurve(a obs.Pt) bool {
	if a.Inf {
		return true
	}
	if a.X == nil || a.Y == nil || !a.X.IsInt64() || !a.Y.IsInt64() {
		return false
	}
	x, y := int(a.X.Int64()), int(a.Y.Int64())
	return x >= 0 && x < c.Pf && y >= 0 && y < c.Pf && onCurve(c.Pf, c.B, x, y)
}
func (c *Curve) Add(a, b obs.Pt) obs.Pt {
	ax, ay, bx, by := 0, 0, 0, 0
	if !a.Inf {
		ax, ay = int(a.X.Int64()), int(a.Y.Int64())
	}
	if !b.Inf {
		bx, by = int(b.X.Int64()), int(b.Y.Int64())
	}
	x, y, inf := add(c.Pf, ax, ay, a.Inf, bx, by, b.Inf)
	if inf {
		return obs.Pt{Inf: true}
	}
	return obs.Pt{X: big.NewInt(int64(x)), Y: big.NewInt(int64(y))}
}
