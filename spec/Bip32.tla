------------------------------- MODULE Bip32 -------------------------------
(* Non-hardened BIP32 public child key derivation as implemented by         *)
(* crypto/ckd/child_key_derivation.go, and the way the resulting offset     *)
(* enters a threshold signing session (ecdsa/signing/key_derivation_util.go,*)
(* round_1.go).  Property C18.                                              *)
(*                                                                          *)
(* The group is the toy group (Z_Q, +): a point is represented by its       *)
(* discrete logarithm, 0 is the point at infinity.  HMAC-SHA512 cannot be   *)
(* computed by TLC: its left half IL is an ORACLE INPUT of every step       *)
(* (any value of 0 .. Q+1; Q and Q+1 stand for "an IL that is not below the *)
(* group order"), its right half (the child chain code) and HASH160 (the    *)
(* fingerprint) are injective tokens built from their inputs.  Everything   *)
(* else is literal: child numbers are real 32 bit numbers (a pair of 16 bit *)
(* halves <<hi, lo>>, because TLC integers are 32 bit signed), depths are   *)
(* real bytes, the serialisation is the real field layout.                  *)
(*                                                                          *)
(* One operator per function of the implementation:                         *)
(*   Child(node, idx, il)  = ckd.DeriveChildKey(index, pk, curve)           *)
(*   Init/Step/Finish      = the loop of ckd.DeriveChildKeyFromHierarchy    *)
(*   Ser/Parse             = ExtendedKey.String / NewExtendedKeyFromString  *)
(*   KddConsistent         = round_1.prepare (x_i + delta) and              *)
(*                           UpdatePublicKeyAndAdjustBigXj (X_j + delta*G)  *)
(*                                                                          *)
(* Deliberate deviations of the CODE from the BIP32 text that the model     *)
(* follows (the model describes the code): IL = 0 is refused (BIP32 only    *)
(* names IL >= n and the point at infinity for public derivation); a node   *)
(* of depth 255 has no children (BIP32 has no such rule, the depth is one   *)
(* byte in the serialisation).                                              *)
EXTENDS Zq, TLC, Json

CONSTANTS
  MaxLen,        \* longest path explored
  StartDepths,   \* depths of the node the derivation starts from (subset of 0..255)
  RootKeys,      \* discrete logs of the starting keys (subset of 1..Q-1)
  Indices,       \* child numbers explored, as pairs <<hi, lo>> of 16 bit halves (index = hi * 2^16 + lo)
  Catalogue      \* TRUE: print one catalogue row per terminal state (generator configuration)

ASSUME MaxLen \in Nat /\ StartDepths \subseteq 0..255 /\ RootKeys \subseteq ZqStar
ASSUME \A i \in Indices : i[1] \in 0..65535 /\ i[2] \in 0..65535

-----------------------------------------------------------------------------
(* child numbers                                                            *)
HardenedStartHi == 32768                     \* HardenedKeyStart = 0x80000000 = 32768 * 2^16
Hardened(i)     == i[1] >= HardenedStartHi   \* `index >= HardenedKeyStart`
Ser32(i)        == <<i[1] \div 256, i[1] % 256, i[2] \div 256, i[2] % 256>>   \* binary.BigEndian.PutUint32
Parse32(b)      == <<b[1] * 256 + b[2], b[3] * 256 + b[4]>>
MaxDepth        == 255

(* the oracle: every value the left half of the HMAC output can take, by class *)
ILs == 0..(Q + 1)

(* tokens: the right half of HMAC-SHA512(cc, ser(key) || ser32(idx)) and the first four bytes of HASH160(ser(key)) *)
HmacRight(cc, key, idx) == Append(cc, <<key, idx[1], idx[2]>>)
Fingerprint(key)        == key               \* injective on the toy group; 0 is "00000000", the fingerprint a master carries

Node(d, i, k, cc, fp, v) == [depth |-> d, idx |-> i, key |-> k, cc |-> cc, fp |-> fp, ver |-> v]

(* ckd.DeriveChildKey: the checks in the order of the code *)
Child(n, idx, il) ==
  IF Hardened(idx)           THEN [ok |-> FALSE, why |-> "hardened"]
  ELSE IF n.depth = MaxDepth THEN [ok |-> FALSE, why |-> "depth"]
  ELSE IF il >= Q            THEN [ok |-> FALSE, why |-> "il_ge"]       \* ilNum.Cmp(N) >= 0
  ELSE IF il = 0             THEN [ok |-> FALSE, why |-> "il_zero"]     \* ilNum.Sign() == 0
  ELSE IF Add(n.key, il) = 0 THEN [ok |-> FALSE, why |-> "identity"]    \* parent + IL*G is the point at infinity
  ELSE [ok |-> TRUE, why |-> "", il |-> il,
        node |-> Node(n.depth + 1, idx, Add(n.key, il), HmacRight(n.cc, n.key, idx), Fingerprint(n.key), n.ver)]

(* the oracle classes a catalogue row speaks of (what the harness can observe with its own HMAC) *)
ILClass(n, idx, il) ==
  IF Hardened(idx) \/ n.depth = MaxDepth THEN "na"       \* the HMAC is never computed
  ELSE IF il >= Q THEN "ge"
  ELSE IF il = 0 THEN "zero"
  ELSE IF Add(n.key, il) = 0 THEN "identity"
  ELSE "valid"

-----------------------------------------------------------------------------
(* ExtendedKey.String / NewExtendedKeyFromString: the BIP32 layout           *)
(* version(4) || depth(1) || parent fingerprint(4) || child number(4) ||     *)
(* chain code(32) || compressed key(33), then a 4 byte checksum, base58      *)
Layout == << [field |-> "version", bytes |-> 4], [field |-> "depth", bytes |-> 1], [field |-> "parent_fp", bytes |-> 4],
             [field |-> "child_number", bytes |-> 4], [field |-> "chain_code", bytes |-> 32], [field |-> "key", bytes |-> 33] >>
RECURSIVE LayoutLen(_)
LayoutLen(l) == IF l = <<>> THEN 0 ELSE Head(l).bytes + LayoutLen(Tail(l))
Ser(n)   == <<n.ver, n.depth, n.fp, Ser32(n.idx), n.cc, n.key>>
Parse(s) == Node(s[2], Parse32(s[4]), s[6], s[5], s[3], s[1])

-----------------------------------------------------------------------------
(* ckd.DeriveChildKeyFromHierarchy(path, pk, mod, curve)                     *)
VARIABLES root, cur, ils, offset, status, cause, result, hist
vars == <<root, cur, ils, offset, status, cause, result, hist>>

Init ==
  /\ \E d \in StartDepths, k \in RootKeys : root = Node(d, <<0, 0>>, k, <<>>, 0, "xpub")
  /\ cur = root /\ ils = <<>> /\ offset = 0
  /\ status = "run" /\ cause = "" /\ result = <<>> /\ hist = <<>>

(* one iteration of the loop: the next index of the path, and what the HMAC yields for it *)
Step(idx, il) ==
  /\ status = "run" /\ Len(hist) < MaxLen
  /\ LET c  == Child(cur, idx, il)
         cl == ILClass(cur, idx, il)
     IN /\ cl = "na" => il = 1              \* no HMAC is computed: do not multiply states by an unused oracle value
        /\ IF c.ok
           THEN /\ cur' = c.node
                /\ ils' = Append(ils, c.il)
                /\ offset' = Add(c.il, offset)            \* ilNum = mod_.Add(ilNum, ilNumOld)
                /\ hist' = Append(hist, [hi |-> idx[1], lo |-> idx[2], il |-> cl, ok |-> TRUE, why |-> "",
                                         depth |-> c.node.depth])
                /\ UNCHANGED <<status, cause, result>>
           ELSE /\ status' = "refused" /\ cause' = c.why    \* return nil, nil, err
                /\ hist' = Append(hist, [hi |-> idx[1], lo |-> idx[2], il |-> cl, ok |-> FALSE, why |-> c.why,
                                         depth |-> cur.depth])
                /\ UNCHANGED <<cur, ils, offset, result>>
  /\ UNCHANGED root

(* the path is exhausted: return ilNum, k, nil *)
Finish ==
  /\ status = "run"
  /\ status' = "done"
  /\ result' = <<[offset |-> offset, node |-> cur]>>
  /\ UNCHANGED <<root, cur, ils, offset, cause, hist>>

Terminal == status # "run"
Next == (\E idx \in Indices, il \in ILs : Step(idx, il)) \/ Finish \/ (Terminal /\ UNCHANGED vars)
Spec == Init /\ [][Next]_vars

-----------------------------------------------------------------------------
(* C18, derivation part                                                      *)
TypeOK ==
  /\ cur.depth \in 0..255 /\ cur.key \in ZqStar /\ offset \in Zq
  /\ status \in {"run", "done", "refused"}
  /\ Len(ils) = cur.depth - root.depth

(* the returned offset is the sum of the ILs modulo the group order ... *)
OffsetIsSum == offset = SumSeq(ils)
(* ... and child = parent + offset*G over the whole path *)
KeyIsRootPlusOffset == cur.key = Add(root.key, offset)
(* every level: child = parent + IL*G, fingerprint of the parent, depth + 1, the child number as requested, same version *)
RECURSIVE Replay(_, _)
Replay(n, k) ==   \* the node reached from the root by the first k accepted steps, recomputed from hist and ils
  IF k = 0 THEN n ELSE
    LET p == Replay(n, k - 1) IN
      Node(p.depth + 1, <<hist[k].hi, hist[k].lo>>, Add(p.key, ils[k]), HmacRight(p.cc, p.key, <<hist[k].hi, hist[k].lo>>),
           Fingerprint(p.key), p.ver)
EveryLevel == cur = Replay(root, Len(ils))
NeverInfinity == cur.key # 0
NonHardenedOnly == \A k \in 1..Len(ils) : hist[k].hi < HardenedStartHi
DepthBounded == cur.depth <= MaxDepth /\ (Len(ils) > 0 => root.depth < MaxDepth)

(* hardened indices, excessive depth and invalid intermediate keys are refused, and a refusal leaves no partial result *)
Refusals ==
  /\ status = "refused" =>
       /\ result = <<>>
       /\ LET last == hist[Len(hist)] IN
            /\ ~last.ok
            /\ cause \in {"hardened", "depth", "il_ge", "il_zero", "identity"}
            /\ cause = "hardened" <=> last.hi >= HardenedStartHi
            /\ (cause = "depth") => cur.depth = MaxDepth
            /\ \A k \in 1..(Len(hist) - 1) : hist[k].ok
  /\ status = "done" => /\ result = <<[offset |-> offset, node |-> cur]>>
                        /\ \A k \in 1..Len(hist) : hist[k].ok
  /\ status = "run" => result = <<>>

(* a path whose every step has a non-hardened index, a usable IL and room in the depth byte is never refused *)
Completeness ==
  status = "refused" =>
     LET last == hist[Len(hist)] IN
       \/ last.hi >= HardenedStartHi
       \/ cur.depth = MaxDepth
       \/ last.il \in {"ge", "zero", "identity"}

(* serialisation: 78 bytes in the BIP32 order; parsing what was serialised gives the node back *)
SerRoundTrip == LayoutLen(Layout) = 78 /\ Parse(Ser(cur)) = cur /\ Parse32(Ser32(cur.idx)) = cur.idx

(* the outcome of a path depends only on what the harness can observe from outside: the start depth, the child *)
(* numbers and the class of each IL.  Predict is the catalogue's prediction; AbstractionSound says that every  *)
(* toy instance of a class sequence behaves as predicted                                                       *)
RECURSIVE Predict(_, _, _)
Predict(d, steps, n) ==
  IF steps = <<>> THEN [outcome |-> "done", at |-> 0, why |-> "", nsum |-> n, depth |-> d]
  ELSE LET s == Head(steps) IN
    IF s.hi >= HardenedStartHi THEN [outcome |-> "refused", at |-> n + 1, why |-> "hardened", nsum |-> 0, depth |-> d]
    ELSE IF d = MaxDepth       THEN [outcome |-> "refused", at |-> n + 1, why |-> "depth", nsum |-> 0, depth |-> d]
    ELSE IF s.il = "ge"        THEN [outcome |-> "refused", at |-> n + 1, why |-> "il_ge", nsum |-> 0, depth |-> d]
    ELSE IF s.il = "zero"      THEN [outcome |-> "refused", at |-> n + 1, why |-> "il_zero", nsum |-> 0, depth |-> d]
    ELSE IF s.il = "identity"  THEN [outcome |-> "refused", at |-> n + 1, why |-> "identity", nsum |-> 0, depth |-> d]
    ELSE Predict(d + 1, Tail(steps), n + 1)
AbstractionSound ==
  Terminal =>
    LET p == Predict(root.depth, hist, 0) IN
      /\ p.outcome = status
      /\ p.why = cause
      /\ status = "done" => p.nsum = Len(ils) /\ p.depth = cur.depth
      /\ status = "refused" => p.at = Len(hist)

-----------------------------------------------------------------------------
(* C18, signing part (design level; the session itself is SigningAlgebra!EcdsaOffset).                         *)
(* The key x is Shamir shared with threshold T among holders with the given ids; a signer set re-weights its   *)
(* shares with Lagrange coefficients.  Adding the offset d to EVERY share (round_1.prepare) and d*G to EVERY   *)
(* public share point and to the public key (UpdatePublicKeyAndAdjustBigXj) gives a consistent sharing of      *)
(* x + d, because the Lagrange coefficients of any signer set sum to 1; the stored shares are not touched.     *)
KddIds == <<1, 2, 3>>
KddT   == 1
KddPolys == [1..(KddT + 1) -> Zq]
KddSets  == UNION { SubSeqs(Len(KddIds), k, 1) : k \in (KddT + 1)..Len(KddIds) }
KShare(p, i) == Eval(p, KddIds[i])
KW(p, S, pos, d, skip) ==      \* weighted share of signer S[pos]; `skip` is a signer position that forgets the offset (0 = none)
  Mul(Lagrange(Pick(KddIds, S), pos, 0), Add(KShare(p, S[pos]), IF pos = skip THEN 0 ELSE d))
KSum(p, S, d, skip) == SumSeq([pos \in 1..Len(S) |-> KW(p, S, pos, d, skip)])
KddConsistent ==
  Q > Len(KddIds) =>
  \A p \in KddPolys, S \in KddSets, d \in Zq :
     /\ KSum(p, S, d, 0) = Add(p[1], d)                                     \* the signers hold x + d
     /\ Interp(Pick(KddIds, S), [pos \in 1..Len(S) |-> Add(KShare(p, S[pos]), d)], 0) = Add(p[1], d)
                                                                            \* the adjusted public share points X_j + d*G
                                                                            \* interpolate (in the exponent) to the child key
     /\ \A pos \in 1..Len(S) : d # 0 => KSum(p, S, d, pos) # Add(p[1], d)   \* one signer without the offset: a different key
     /\ \A pos \in 1..Len(S) : d # 0 =>                                     \* one public share point without the offset:
          Interp(Pick(KddIds, S), [j \in 1..Len(S) |-> Add(KShare(p, S[j]), IF j = pos THEN 0 ELSE d)], 0) # Add(p[1], d)
     /\ d # 0 => Add(p[1], d) # p[1]                                        \* the child key is not the parent key
ASSUME KddConsistent

-----------------------------------------------------------------------------
(* catalogue generation (-workers 1): one row per terminal state            *)
Row == [start_depth |-> root.depth, steps |-> hist, outcome |-> status, why |-> cause,
        refused_at |-> IF status = "refused" THEN Len(hist) ELSE 0,
        nsum |-> Len(ils), final_depth |-> cur.depth, final_hi |-> cur.idx[1], final_lo |-> cur.idx[2],
        toy |-> [q |-> Q, root |-> root.key, ils |-> ils, offset |-> offset, key |-> cur.key]]
Emit == (Catalogue /\ Terminal) => PrintT(<<"ROW", ToJson(Row)>>)
EmitLayout == (Catalogue /\ status = "run" /\ hist = <<>>) => PrintT(<<"LAYOUT", ToJson(Layout)>>)
=============================================================================
