---------------------------- MODULE CommitBuilder ----------------------------
(* The multi-part packing of crypto/commitments/commitment_builder.go         *)
(* (property C16: "the multi-part packing used inside commitments and proofs  *)
(* round-trips and its parser rejects malformed or oversized input with an    *)
(* error").                                                                   *)
(*                                                                            *)
(*   builder.Secrets():  parts p1..pk  |->  <<|p1|>> o p1 o ... o <<|pk|>> o pk *)
(*                       error if k > PartsCap or some |pi| > MaxPartSize     *)
(*   ParseSecrets(seq):  the loop of commitment_builder.go:59-91, one operator*)
(*                       branch per branch of the code (Loop below)           *)
(*                                                                            *)
(* Elements of a sequence are *big.Int; what the parser can tell apart is     *)
(* modelled by the element kinds                                              *)
(*   nat(v)   0 <= v < 2^31           neg      a negative number              *)
(*   i64big   2^63 - 1 (fits int64, far above any cap)                        *)
(*   p63      2^63 (Int64() would give a negative number)                     *)
(*   p64(v)   2^64 + v (Int64() would give v)          nil   a nil pointer    *)
(* A sequence is held as a VIEW [len, sp, fill]: its length, the elements at  *)
(* some special positions (0-based, like the Go slice), and the element at    *)
(* all other positions.  An explicit sequence is the view in which every      *)
(* position is special; a view lets TLC work with the REAL caps (a part of    *)
(* 2^20 elements is one number).  A parsed part is the slice <<start, len>>   *)
(* of the input, as in the code (`secrets[el : el+nextPartLen]`).             *)
(*                                                                            *)
(* Deviation switch: at the pinned commit the loop ends silently when the     *)
(* input stops right after a length prefix (the prefix is dropped whatever    *)
(* its value) and inputs of one element are refused up front.  Parse(s,       *)
(* "ignored") is that code; Parse(s, "checked") is the repaired parser: a     *)
(* final prefix 0 is an empty last part, a final prefix > 0 is an error.      *)
(* The constant Dangling selects which of the two the invariants speak about: *)
(* with "ignored" TLC finds counterexamples to ParserSound and RoundTrip      *)
(* (kept as evidence), with "checked" both hold.  The `el < 0` overflow test  *)
(* of the code is unreachable here (unbounded integers) and is left out.      *)
(*                                                                            *)
(* Modes (constant Mode):                                                     *)
(*  "seqs"      states = all explicit sequences of at most MaxSeqLen elements *)
(*              over Elems: ParserSound (whatever is accepted re-encodes to   *)
(*              the input), ParserExact (accepted iff it is an encoding)      *)
(*  "layouts"   states = all part lists of at most PartsCap+1 parts of at most*)
(*              MaxPartSize+1 elements: BuilderCaps, RoundTrip                *)
(*  "catalogue" states = rows (layout over LenChoices, one mutation) at the   *)
(*              real caps; every row is printed with the verdict predicted by *)
(*              both parsers; the harness replays the rows into the real      *)
(*              Secrets / ParseSecrets.                                       *)
(*  "history"   ONE builder object used more than once: states = histories of *)
(*              AddPart / Secrets / Parts / ParseSecrets(of what the caller   *)
(*              got last) / the caller writing into the slice it got, with    *)
(*              the observation predicted for every call; every maximal       *)
(*              history is printed and replayed on one real builder.          *)
EXTENDS Integers, Sequences, FiniteSets, TLC, Json

CONSTANTS
  PartsCap,      \* commitment_builder.go: PartsCap = 3
  MaxPartSize,   \* commitment_builder.go: MaxPartSize = 1 MiB elements; 2 in the exhaustive modes
  Dangling,      \* "ignored" | "checked"
  Mode,          \* "seqs" | "layouts" | "catalogue"
  MaxSeqLen,     \* "seqs": longest sequence
  NatElems,      \* "seqs": the nat values used as elements, e.g. 0..MaxPartSize+1
  LenChoices,    \* "catalogue": part lengths, e.g. {0, 1, 3, MaxPartSize, MaxPartSize + 1}
  OverLens,      \* "catalogue": part lengths of the layouts with PartsCap + 1 parts (LenChoices or a subset)
  FillV,         \* "catalogue": the nat value of every data element
  HistProfiles,  \* "history": set of records [ops |-> set of operation names, max |-> longest history]
  MemoDesign     \* "history": what the builder keeps between calls: "none" (the code), or a deliberately wrong design

VARIABLE x       \* "seqs": a sequence of elements; "layouts": a sequence of parts; "catalogue": a row

(* ---- elements ----------------------------------------------------------- *)
Nat_(v)  == [k |-> "nat", v |-> v]
El(k)    == [k |-> k, v |-> 0]
P64(v)   == [k |-> "p64", v |-> v]
OddElems == {El("neg"), El("i64big"), El("p63"), P64(1), El("nil")}
Elems    == {Nat_(v) : v \in NatElems} \cup OddElems

(* ---- views -------------------------------------------------------------- *)
At(s, i) == IF \E j \in 1..Len(s.sp) : s.sp[j].p = i
            THEN s.sp[CHOOSE j \in 1..Len(s.sp) : s.sp[j].p = i].e
            ELSE s.fill
View(q)  == [len |-> Len(q), sp |-> [i \in 1..Len(q) |-> [p |-> i - 1, e |-> q[i]]], fill |-> Nat_(0)]
Positions(s) == {s.sp[j].p : j \in 1..Len(s.sp)}
ViewEq(a, b) == /\ a.len = b.len
                /\ \A i \in (Positions(a) \cup Positions(b)) : i < a.len => At(a, i) = At(b, i)
                /\ (a.fill = b.fill \/ a.len <= Cardinality({i \in Positions(a) \cup Positions(b) : i < a.len}))

(* ---- builder.Secrets (commitment_builder.go:39-57) ---------------------- *)
Ok(v)   == [ok |-> TRUE, val |-> v, why |-> ""]
Err(w)  == [ok |-> FALSE, val |-> << >>, why |-> w]

RECURSIVE Flatten(_)
Flatten(ss) == IF ss = << >> THEN << >> ELSE Head(ss) \o Flatten(Tail(ss))

Secrets(parts) ==
  IF Len(parts) > PartsCap THEN Err("too many parts")
  ELSE IF \E i \in 1..Len(parts) : MaxPartSize < Len(parts[i]) THEN Err("part too large")
  ELSE Ok(Flatten([i \in 1..Len(parts) |-> << Nat_(Len(parts[i])) >> \o parts[i]]))

(* the same for a layout (part lengths only, every data element = fill), as a view *)
RECURSIVE Starts(_, _)                 \* position of every length prefix
Starts(lens, from) == IF lens = << >> THEN << >> ELSE << from >> \o Starts(Tail(lens), from + 1 + Head(lens))
RECURSIVE Sum(_)
Sum(lens) == IF lens = << >> THEN 0 ELSE Head(lens) + Sum(Tail(lens))
SecretsOfLayout(lens, fill) ==
  IF Len(lens) > PartsCap THEN Err("too many parts")
  ELSE IF \E i \in 1..Len(lens) : MaxPartSize < lens[i] THEN Err("part too large")
  ELSE LET st == Starts(lens, 0) IN
       Ok([len |-> Sum(lens) + Len(lens), sp |-> [i \in 1..Len(lens) |-> [p |-> st[i], e |-> Nat_(lens[i])]], fill |-> fill])

(* ---- ParseSecrets (commitment_builder.go:59-91) -------------------------- *)
RECURSIVE Loop(_, _, _, _, _, _)
Loop(s, el, next, isLenEl, parts, dg) ==
  IF el < s.len THEN
    IF isLenEl THEN
      LET e == At(s, el) IN
      IF e.k \in {"nil", "p63", "p64", "neg"} THEN Err("invalid length prefix")        \* nil, !IsInt64(), Sign() < 0
      ELSE IF e.k = "i64big" \/ MaxPartSize < e.v THEN Err("part too large")
      ELSE Loop(s, el + 1, e.v, FALSE, parts, dg)
    ELSE
      IF PartsCap <= Len(parts) THEN Err("too many parts")
      ELSE IF s.len < el + next THEN Err("not enough data")
      ELSE Loop(s, el + next, next, TRUE, Append(parts, << el, next >>), dg)
  ELSE \* the loop is left
    IF dg = "checked" /\ ~isLenEl THEN        \* the input ended right after a length prefix
      IF next # 0 THEN Err("not enough data")
      ELSE IF PartsCap <= Len(parts) THEN Err("too many parts")
      ELSE Ok(Append(parts, << el, 0 >>))
    ELSE Ok(parts)

Parse(s, dg) ==
  IF s.len < (IF dg = "checked" THEN 1 ELSE 2) THEN Err("too small")   \* `secrets == nil || len(secrets) < 2`
  ELSE Loop(s, 0, 0, TRUE, << >>, dg)

(* ---- what the property says --------------------------------------------- *)
(* the parts a list of slices denotes *)
PartsOf(q, slices) == [i \in 1..Len(slices) |-> SubSeq(q, slices[i][1] + 1, slices[i][1] + slices[i][2])]
LensOf(slices)     == [i \in 1..Len(slices) |-> slices[i][2]]

(* "seqs": whatever the parser accepts is the encoding of what it returns, within the builder's limits *)
ParserSound ==
  Mode = "seqs" =>
    LET r == Parse(View(x), Dangling) IN
      r.ok => /\ Len(r.val) >= 1
              /\ Secrets(PartsOf(x, r.val)) = Ok(x)

(* "seqs": reference decoder, independent of the loop: is x = Secrets(parts) for some admissible parts? *)
(* (decided by cutting x from the left: a prefix element that is an admissible length, then that many elements)   *)
RECURSIVE IsEncoding(_, _)
IsEncoding(q, k) ==      \* q: what is left, k: parts consumed so far
  IF q = << >> THEN k >= 1
  ELSE /\ k < PartsCap
       /\ Head(q).k = "nat" /\ Head(q).v <= MaxPartSize /\ Head(q).v <= Len(q) - 1
       /\ IsEncoding(SubSeq(q, Head(q).v + 2, Len(q)), k + 1)
ParserExact ==
  Mode = "seqs" => (Parse(View(x), Dangling).ok <=> IsEncoding(x, 0))

(* "seqs" with the real caps: print every sequence with the verdict of both parsers (replayed by the harness) *)
EmitSeq ==
  Mode = "seqs" =>
    LET c == Parse(View(x), "checked")
        g == Parse(View(x), "ignored") IN
    PrintT(<< "SEQ", ToJson([q |-> x, ok |-> c.ok, parts |-> c.val, why |-> c.why, ign_ok |-> g.ok, ign_parts |-> g.val]) >>)

(* "layouts": the builder refuses exactly what exceeds its limits *)
BuilderCaps ==
  Mode = "layouts" =>
    (Secrets(x).ok <=> (Len(x) <= PartsCap /\ \A i \in 1..Len(x) : Len(x[i]) <= MaxPartSize))

(* "layouts": what the builder packs, the parser unpacks (the empty builder packs the empty sequence, which the   *)
(* parser refuses by design: commitment_builder.go:60; it is outside the round trip)                             *)
RoundTrip ==
  (Mode = "layouts" /\ Len(x) >= 1) =>
    LET b == Secrets(x) IN
      b.ok => LET r == Parse(View(b.val), Dangling) IN
                r.ok /\ PartsOf(b.val, r.val) = x

(* the view form of the builder agrees with the explicit one *)
LayoutViewAgrees ==
  Mode = "layouts" =>
    LET lens == [i \in 1..Len(x) |-> Len(x[i])]
        a == SecretsOfLayout(lens, Nat_(0))
        b == Secrets([i \in 1..Len(x) |-> [j \in 1..Len(x[i]) |-> Nat_(0)]]) IN
      a.ok = b.ok /\ (a.ok => ViewEq(a.val, View(b.val)))

(* ---- "catalogue": rows at the real caps ---------------------------------- *)
(* a row: a layout (lens), packed (when the builder accepts it; otherwise packed as the builder would have without *)
(* its limits), then one mutation                                                                                 *)
Layouts == UNION { [1..k -> LenChoices] : k \in 1..PartsCap } \cup [1..(PartsCap + 1) -> OverLens]
Packed(lens) == LET st == Starts(lens, 0) IN
  [len |-> Sum(lens) + Len(lens), sp |-> [i \in 1..Len(lens) |-> [p |-> st[i], e |-> Nat_(lens[i])]], fill |-> Nat_(FillV)]

ForgedPrefixes(l) ==
  { Nat_(v) : v \in ({0, l - 1, l + 1, MaxPartSize, MaxPartSize + 1} \ {-1, l}) }
    \cup { El("neg"), El("i64big"), El("p63"), P64(l), El("nil") }
CutPoints(lens) ==       \* lengths to truncate to: before / just after each prefix, inside each part, one short of the end
  LET st == Starts(lens, 0)
      n == Sum(lens) + Len(lens) IN
    ({ st[i] : i \in 1..Len(lens) } \cup { st[i] + 1 : i \in 1..Len(lens) }
       \cup { st[i] + 1 + (lens[i] \div 2) : i \in 1..Len(lens) } \cup { n - 1 }) \cap 0..(n - 1)
NoMut == [kind |-> "none", at |-> 0, e |-> Nat_(0)]
Mutations(lens) ==
  { NoMut }
    \cup { [kind |-> "truncate", at |-> n, e |-> Nat_(0)] : n \in CutPoints(lens) }
    \cup UNION { { [kind |-> "forge", at |-> i, e |-> e] : e \in ForgedPrefixes(lens[i]) } : i \in 1..Len(lens) }
    \cup { [kind |-> "append", at |-> 0, e |-> e] : e \in {Nat_(0), Nat_(1), Nat_(FillV), Nat_(MaxPartSize)} }
Apply(s, lens, m) ==
  CASE m.kind = "none"     -> s
    [] m.kind = "truncate" -> [s EXCEPT !.len = m.at]
    [] m.kind = "forge"    -> [s EXCEPT !.sp[m.at].e = m.e]
    [] m.kind = "append"   -> [s EXCEPT !.len = s.len + 1, !.sp = Append(s.sp, [p |-> s.len, e |-> m.e])]

RowSeq(r) == Apply(Packed(r.lens), r.lens, r.mut)
(* a row's prediction is sound: an accepted input is the encoding of the parts returned - every part is preceded  *)
(* by its length, the parts tile the input, and their number and sizes are within the builder's limits              *)
RowSound ==
  Mode = "catalogue" =>
    LET s == RowSeq(x)
        r == Parse(s, Dangling) IN
      r.ok => LET ls == LensOf(r.val)
                  st == Starts(ls, 0) IN
                /\ Len(ls) \in 1..PartsCap
                /\ s.len = Sum(ls) + Len(ls)
                /\ \A i \in 1..Len(ls) : /\ ls[i] <= MaxPartSize
                                         /\ At(s, st[i]) = Nat_(ls[i])
                                         /\ r.val[i][1] = st[i] + 1
(* an unmutated admissible layout parses back to itself *)
RowRoundTrip ==
  (Mode = "catalogue" /\ x.mut.kind = "none") =>
    LET b == SecretsOfLayout(x.lens, Nat_(FillV)) IN
      /\ b.ok <=> (Len(x.lens) <= PartsCap /\ \A i \in 1..Len(x.lens) : x.lens[i] <= MaxPartSize)
      /\ b.ok => (ViewEq(b.val, RowSeq(x)) /\ LET r == Parse(b.val, Dangling) IN r.ok /\ LensOf(r.val) = x.lens)
EmitRow ==
  Mode = "catalogue" =>
    LET s == RowSeq(x)
        c == Parse(s, "checked")
        g == Parse(s, "ignored") IN
    PrintT(<< "ROW", ToJson([lens |-> x.lens, mut |-> x.mut, len |-> s.len, sp |-> s.sp, fill |-> s.fill,
                             builder_ok |-> SecretsOfLayout(x.lens, s.fill).ok,
                             ok |-> c.ok, parts |-> c.val, why |-> c.why,
                             ign_ok |-> g.ok, ign_parts |-> g.val]) >>)

(* ---- "history": one builder object, several calls ------------------------- *)
(* The builder holds the parts added so far (commitment_builder.go:20-37); Secrets() flattens them anew at every call *)
(* and hands out a fresh slice (:39-57).  Part number k (in the order of the AddPart calls) has HLen(op) elements, all *)
(* of them the data element Nat_(100 + k), so that a flattening shows which parts it was made from.                    *)
(* MemoDesign names what the builder object keeps between calls:                                                       *)
(*   "none"    nothing (the code)                                                                                      *)
(*   "stale"   the first flattening is kept and handed out again; AddPart does not drop it                             *)
(*   "shared"  the flattening is kept, AddPart drops it, but the caller holds the very slice that is kept              *)
(* With "none" HistSecretsArePacking and HistParseGivesParts hold; for the other two TLC finds histories of three to  *)
(* four calls that violate them (HistWitness, evaluated by the harness as a self-test that the histories discriminate).*)
HOps == {"add0", "add1", "add2", "addBig", "secrets", "parse", "parts", "scribble"}
HLen(op) == CASE op = "add0" -> 0 [] op = "add1" -> 1 [] op = "add2" -> 2 [] op = "addBig" -> MaxPartSize + 1
IsAdd(op) == op \in {"add0", "add1", "add2", "addBig"}
Scribbled == P64(1)                             \* what the caller writes over the first element of the slice it holds
NoRes == [ok |-> FALSE, val |-> << >>, why |-> "no call yet"]
HFlat(ps) == Flatten([i \in 1..Len(ps) |-> << Nat_(ps[i].n) >> \o [j \in 1..ps[i].n |-> Nat_(100 + ps[i].id)]])
HSecrets(ps) ==
  IF Len(ps) > PartsCap THEN Err("too many parts")
  ELSE IF \E i \in 1..Len(ps) : MaxPartSize < ps[i].n THEN Err("part too large")
  ELSE Ok(HFlat(ps))
HParse(r) == IF r.ok THEN LET q == Parse(View(r.val), Dangling) IN [ok |-> q.ok, val |-> q.val, why |-> q.why] ELSE NoRes

(* object state: b = the builder (parts, memo), got = the slice the caller holds from the latest Secrets() *)
H0 == [parts |-> << >>, memo |-> NoRes, got |-> NoRes]
HEnabled(s, op) == CASE op = "parse"    -> s.got.ok
                     [] op = "scribble" -> s.got.ok /\ Len(s.got.val) >= 1
                     [] OTHER           -> TRUE
(* the observation of a call: a record [ok, val, why]; val = the flattening / the parsed slices / the part list *)
HStep(design, s, op) ==
  CASE IsAdd(op) ->
         [st  |-> [s EXCEPT !.parts = Append(s.parts, [n |-> HLen(op), id |-> Len(s.parts) + 1]),
                            !.memo  = IF design = "stale" THEN s.memo ELSE NoRes],
          obs |-> Ok(<< >>)]
    [] op = "secrets" ->
         LET r == IF design # "none" /\ s.memo.ok THEN s.memo ELSE HSecrets(s.parts) IN
         [st  |-> [s EXCEPT !.memo = IF design # "none" /\ r.ok THEN r ELSE s.memo, !.got = r], obs |-> r]
    [] op = "parse"    -> [st |-> s, obs |-> HParse(s.got)]
    [] op = "parts"    -> [st |-> s, obs |-> Ok(s.parts)]
    [] op = "scribble" ->
         LET w == [s.got EXCEPT !.val[1] = Scribbled] IN
         [st  |-> [s EXCEPT !.got = w, !.memo = IF design # "none" /\ s.memo.ok THEN w ELSE s.memo], obs |-> Ok(<< >>)]

RECURSIVE HRun(_, _, _, _)           \* the observations of a whole history (stops at the first call that is not enabled)
HRun(design, s, ops, acc) ==
  IF ops = << >> \/ ~HEnabled(s, Head(ops)) THEN acc
  ELSE LET r == HStep(design, s, Head(ops)) IN HRun(design, r.st, Tail(ops), Append(acc, r.obs))
HObs(design, ops) == HRun(design, H0, ops, << >>)

(* what the property says about a history, from the history alone: the parts added before call k *)
RECURSIVE PartsBefore(_, _)
PartsBefore(ops, k) ==
  IF k = 0 THEN << >>
  ELSE LET ps == PartsBefore(ops, k - 1) IN
       IF IsAdd(ops[k]) THEN Append(ps, [n |-> HLen(ops[k]), id |-> Len(ps) + 1]) ELSE ps
LastSecretsBefore(ops, k) ==      \* index of the latest "secrets" call before call k (0: none)
  LET c == { j \in 1..(k - 1) : ops[j] = "secrets" } IN IF c = {} THEN 0 ELSE CHOOSE j \in c : \A i \in c : i <= j
NoScribbleBetween(ops, j, k) == \A i \in (j + 1)..(k - 1) : ops[i] # "scribble"
(* every Secrets() is the packing of the parts added so far - whatever was called before *)
SecretsArePacking(ops, obs) ==
  \A k \in 1..Len(obs) : ops[k] = "secrets" => obs[k] = HSecrets(PartsBefore(ops, k))
(* parsing what Secrets() returned (untouched) gives the parts that had been added when it was called *)
ParseGivesParts(ops, obs) ==
  \A k \in 1..Len(obs) : ops[k] = "parse" =>
     LET j == LastSecretsBefore(ops, k) IN
       (j > 0 /\ NoScribbleBetween(ops, j, k) /\ PartsBefore(ops, j) # << >>) =>
          /\ obs[k].ok
          /\ PartsOf(obs[j].val, obs[k].val) = [i \in 1..Len(PartsBefore(ops, j)) |->
                 LET p == PartsBefore(ops, j)[i] IN [e \in 1..p.n |-> Nat_(100 + p.id)]]
HistSecretsArePacking == Mode = "history" => SecretsArePacking(x.ops, x.obs)
HistParseGivesParts   == Mode = "history" => ParseGivesParts(x.ops, x.obs)
(* a history on which a wrong design is told from the code (the harness evaluates this in a wrapper module) *)
WitnessHists == UNION { [1..n -> {"add1", "secrets", "scribble", "parse"}] : n \in 1..4 }
HistWitness(design) ==
  CHOOSE h \in WitnessHists :
    LET o == TLCEval(HObs(design, h)) IN Len(o) = Len(h) /\ ~(SecretsArePacking(h, o) /\ ParseGivesParts(h, o))
(* every maximal history is printed with the observations predicted for the code *)
HistMaximal == Len(x.ops) = x.prof.max
EmitHist ==
  (Mode = "history" /\ HistMaximal) =>
    PrintT(<< "HIST", ToJson([pk |-> ToString(x.prof), ops |-> x.ops, obs |-> x.obs, fin |-> HSecrets(x.st.parts)]) >>)

(* ---- state machine ------------------------------------------------------- *)
DataElems == {Nat_(0), El("p63")}          \* "layouts": data elements are never looked at by either function
(* (TLC evaluates constant definitions without parameters at start-up, in every mode: at the real caps these two sets  *)
(* would be built - half a minute - although only "layouts" uses them)                                                  *)
PartsSmall == IF Mode # "layouts" THEN {} ELSE UNION { [1..n -> DataElems] : n \in 0..(MaxPartSize + 1) }
PartsOver  == IF Mode # "layouts" THEN {} ELSE UNION { [1..n -> {Nat_(0)}] : n \in 0..(MaxPartSize + 1) }   \* the part that exceeds PartsCap: its length only

Init == CASE Mode = "seqs"      -> x = << >>
          [] Mode = "layouts"   -> x = << >>
          [] Mode = "catalogue" -> x \in { [lens |-> l, mut |-> NoMut] : l \in Layouts }
          [] Mode = "history"   -> x \in { [prof |-> p, ops |-> << >>, obs |-> << >>, st |-> H0] : p \in HistProfiles }
Next == CASE Mode = "seqs"      -> Len(x) < MaxSeqLen /\ \E e \in Elems : x' = Append(x, e)
          [] Mode = "layouts"   -> \/ Len(x) < PartsCap /\ \E p \in PartsSmall : x' = Append(x, p)
                                   \/ Len(x) = PartsCap /\ \E p \in PartsOver : x' = Append(x, p)
          [] Mode = "catalogue" -> x.mut = NoMut /\ \E m \in Mutations(x.lens) \ {NoMut} : x' = [x EXCEPT !.mut = m]
          [] Mode = "history"   -> /\ Len(x.ops) < x.prof.max
                                   /\ \E op \in x.prof.ops : /\ HEnabled(x.st, op)
                                                             /\ LET r == HStep(MemoDesign, x.st, op) IN
                                                                  x' = [x EXCEPT !.ops = Append(@, op), !.obs = Append(@, r.obs), !.st = r.st]
Spec == Init /\ [][Next]_x

ASSUME Dangling \in {"ignored", "checked"} /\ Mode \in {"seqs", "layouts", "catalogue", "history"}
ASSUME MemoDesign \in {"none", "stale", "shared"} /\ \A p \in HistProfiles : p.ops \subseteq HOps /\ p.max \in Nat
ASSUME PartsCap \in Nat /\ MaxPartSize \in Nat /\ (PartsCap + 1) * (MaxPartSize + 2) < 2147483647
=============================================================================
