------------------------------ MODULE Engine ------------------------------
(* The party round engine of tss-lib (tss/party.go: BaseStart / BaseUpdate)  *)
(* interpreting one of the protocol tables of Protocols.tla.                 *)
(*                                                                           *)
(* One Deliver step is one call of Party.Update / UpdateFromBytes: validate, *)
(* lock, StoreMessage (overwrites the slot [type][from], whatever the        *)
(* current round), round.Update() (marks ok[j]), and while CanProceed():     *)
(* advance(), Start() the next round, and run Update() again (the recursive  *)
(* call of BaseUpdate).  The harness calls the API sequentially, so the      *)
(* whole call is one atomic step; Lock.tla refines it for concurrent calls.  *)
EXTENDS Protocols, Integers, TLC

CONSTANTS
  Proto,          \* one of ProtoNames
  NOld,           \* size of the (old / only) committee
  NNew,           \* size of the new committee (0 unless resharing)
  QuirkShort,     \* TRUE: Update() of the rounds listed in ShortCircuitRound stops at the first incomplete peer
  QuirkStuck,     \* TRUE: the last round of StuckLastRound protocols never completes
  StartRunsUpdate \* TRUE: Start() also runs the update/advance loop when messages were stored before it
                  \* (FALSE = defect F-PS of the pinned tree: such messages were never looked at)

ASSUME Proto \in ProtoNames /\ NOld \in Nat /\ NNew \in Nat
ASSUME IsResharing(Proto) <=> NNew > 0

Parties == 1..(NOld + NNew)
Old     == 1..NOld
New     == (NOld + 1)..(NOld + NNew)
Role(p) == IF NNew = 0 THEN "single" ELSE IF p \in Old THEN "old" ELSE "new"
NR      == NumRounds(Proto)
KindOf(t) == KindOfP(Proto, t)
Done    == 99

Class(p, c) ==
  CASE c = "peers"    -> Parties \ {p}
    [] c = "old"      -> Old \ {p}
    [] c = "new"      -> New \ {p}
    [] c = "newpeers" -> New \ {p}
    [] c = "oldnew"   -> Parties \ {p}

Msg(t, f, to) == [type |-> t, from |-> f, to |-> to, kind |-> KindOf(t)]

(* the messages party p emits when it starts round r *)
SendSet(p, r) ==
  UNION { { Msg(s.type, p, q) : q \in Class(p, s.dest) } : s \in Sends(Proto, r, Role(p)) }

(* <<type, sender>> pairs round r of party p needs *)
Required(p, r) ==
  UNION { { <<a.type, j>> : j \in Class(p, a.from) } : a \in Awaits(Proto, r, Role(p)) }
RequiredPeers(p, r) == { tj[2] : tj \in Required(p, r) }

(* every message ever sent in a complete run; also the type universe *)
AllMsgs == UNION { SendSet(p, r) : p \in Parties, r \in 1..NR }
Types   == { m.type : m \in AllMsgs }

VARIABLES
  rnd,      \* [Parties -> 0..NR \cup {Done}] ; 0 = Start not yet called
  okset,    \* [Parties -> SUBSET Parties] : peers whose ok[] flag is set in the current round
  store,    \* [Parties -> SUBSET (Types \X Parties \X {"B","P"})] : message slots with the flag of the stored copy
  got,      \* history: [Parties -> SUBSET (Types \X Parties)] : ever delivered on the right channel kind
  sent,     \* set of messages emitted so far
  ended,    \* [Parties -> Nat] : results emitted on the end channel
  failed    \* [Parties -> BOOLEAN] : a call on this party returned an error (fault layer)

evars == <<rnd, okset, store, got, sent, ended, failed>>

Slot(st, t, j) == { x \in st : x[1] = t /\ x[2] = j }
Put(st, t, j, as) == (st \ Slot(st, t, j)) \cup { <<t, j, as>> }

Complete(st, p, r, j) ==
  \A tj \in Required(p, r) : tj[2] = j => <<tj[1], j, KindOf(tj[1])>> \in st

(* ok[] flags a freshly started round begins with *)
Presets(p, r) ==
  IF QuirkStuck /\ StuckLastRound(Proto) /\ r = NR
  THEN {}
  ELSE (Parties \ {p}) \ RequiredPeers(p, r)

(* round.Update(): which peers become ok *)
MarkOK(st, p, r, okp) ==
  IF QuirkShort /\ ShortCircuitRound(Proto, r)
  THEN okp \cup { j \in RequiredPeers(p, r) :
                    /\ Complete(st, p, r, j)
                    /\ \A k \in RequiredPeers(p, r) : k < j => (k \in okp \/ Complete(st, p, r, k)) }
  ELSE okp \cup { j \in RequiredPeers(p, r) : Complete(st, p, r, j) }

CanProceed(p, okp) == (Parties \ {p}) \subseteq okp

(* Abstract outcome of starting round r at party p given its stored messages: *)
(* the set of culprits ({} = success).  The plain engine never fails; the     *)
(* fault layer (Faults.tla) overrides it through BadMsgs.                     *)
CONSTANT BadMsgs   \* set of <<type, from>> whose content is altered in a covered field
StartCulprits(p, r) ==
  { tj[2] : tj \in { x \in BadMsgs : VerifiedIn(Proto, x[1]) = r /\ x[2] # p
                                     /\ \E q \in 1..NR : x \in Required(p, q) } }

(* The update/advance loop of BaseUpdate after the message has been stored.   *)
RECURSIVE Settle(_, _, _, _)
Settle(p, r, okp, st) ==
  LET ok2 == MarkOK(st, p, r, okp) IN
  IF ~CanProceed(p, ok2)
  THEN [rnd |-> r, ok |-> ok2, out |-> {}, ended |-> 0, culprits |-> {}]
  ELSE IF r = NR
  THEN [rnd |-> Done, ok |-> {}, out |-> {}, ended |-> 0, culprits |-> {}]
  ELSE LET r2 == r + 1
           cp == StartCulprits(p, r2)
       IN IF cp # {}
          THEN [rnd |-> r2, ok |-> Presets(p, r2), out |-> {}, ended |-> 0, culprits |-> cp]
          ELSE LET rest == Settle(p, r2, Presets(p, r2), st)
               IN [rnd |-> rest.rnd, ok |-> rest.ok,
                   out |-> SendSet(p, r2) \cup rest.out,
                   ended |-> (IF r2 = NR THEN 1 ELSE 0) + rest.ended,
                   culprits |-> rest.culprits]

Init ==
  /\ rnd    = [p \in Parties |-> 0]
  /\ okset  = [p \in Parties |-> {}]
  /\ store  = [p \in Parties |-> {}]
  /\ got    = [p \in Parties |-> {}]
  /\ sent   = {}
  /\ ended  = [p \in Parties |-> 0]
  /\ failed = [p \in Parties |-> FALSE]

(* Party.Start() *)
Start(p) ==
  /\ rnd[p] = 0
  /\ LET res == IF StartRunsUpdate /\ store[p] # {}      \* messages were stored before Start()
                THEN Settle(p, 1, Presets(p, 1), store[p])
                ELSE [rnd |-> 1, ok |-> Presets(p, 1), out |-> {}, ended |-> 0, culprits |-> {}]
     IN /\ rnd'    = [rnd EXCEPT ![p] = res.rnd]
        /\ okset'  = [okset EXCEPT ![p] = res.ok]
        /\ sent'   = sent \cup SendSet(p, 1) \cup res.out
        /\ ended'  = [ended EXCEPT ![p] = @ + res.ended + (IF NR = 1 THEN 1 ELSE 0)]
        /\ failed' = [failed EXCEPT ![p] = res.culprits # {}]
  /\ UNCHANGED <<store, got>>

(* Party.Update(m) with the transport's broadcast flag `as` *)
Deliver(p, m, as) ==
  /\ m.to = p
  /\ LET st2 == Put(store[p], m.type, m.from, as)
         res == IF rnd[p] \in {0, Done} \/ failed[p]
                THEN [rnd |-> rnd[p], ok |-> okset[p], out |-> {}, ended |-> 0, culprits |-> {}]
                ELSE Settle(p, rnd[p], okset[p], st2)
     IN /\ store'  = [store EXCEPT ![p] = IF failed[p] THEN @ ELSE st2]   \* an aborted party processes nothing further
        /\ got'    = [got EXCEPT ![p] = IF as = KindOf(m.type) /\ ~failed[p] THEN @ \cup {<<m.type, m.from>>} ELSE @]
        /\ rnd'    = [rnd EXCEPT ![p] = res.rnd]
        /\ okset'  = [okset EXCEPT ![p] = res.ok]
        /\ sent'   = sent \cup res.out
        /\ ended'  = [ended EXCEPT ![p] = @ + res.ended]
        /\ failed' = [failed EXCEPT ![p] = @ \/ res.culprits # {}]

(* One critical section of BaseUpdate (lock ... unlock): store the message,    *)
(* run round.Update(), and advance AT MOST ONE round; the real code then       *)
(* releases the mutex and calls itself again with the same message, i.e. runs  *)
(* this action again.  Deliver above is the fix-point of PassDeliver, which is *)
(* what a caller observes when nobody else calls the party in between;         *)
(* concurrent callers interleave at this granularity (C09, EngineConc_Trace).  *)
PassDeliver(p, m, as) ==
  /\ m.to = p
  /\ LET st2 == Put(store[p], m.type, m.from, as)
         r   == rnd[p]
         idle == r \in {0, Done} \/ failed[p]
         ok2 == IF idle THEN okset[p] ELSE MarkOK(st2, p, r, okset[p])
         go  == ~idle /\ CanProceed(p, ok2)
         r2  == IF ~go THEN r ELSE IF r = NR THEN Done ELSE r + 1
     IN /\ store'  = [store EXCEPT ![p] = st2]
        /\ got'    = [got EXCEPT ![p] = IF as = KindOf(m.type) THEN @ \cup {<<m.type, m.from>>} ELSE @]
        /\ rnd'    = [rnd EXCEPT ![p] = r2]
        /\ okset'  = [okset EXCEPT ![p] = IF ~go THEN ok2 ELSE IF r2 = Done THEN {} ELSE Presets(p, r2)]
        /\ sent'   = IF go /\ r2 # Done THEN sent \cup SendSet(p, r2) ELSE sent
        /\ ended'  = [ended EXCEPT ![p] = @ + (IF go /\ r2 = NR THEN 1 ELSE 0)]
        /\ UNCHANGED failed

-----------------------------------------------------------------------------
(* Derived notions used by the properties                                     *)

(* what the code reports through WaitingFor(), self removed *)
WaitingOf(rn, ok, p) == IF rn[p] \in 1..NR THEN (Parties \ {p}) \ ok[p] ELSE {}
WaitingCode(p) == WaitingOf(rnd, okset, p)

(* what C08 defines: peers from whom a message required by the current round  *)
(* has not yet been delivered (on the channel kind its type demands)          *)
WaitingPropOf(rn, gt, p) ==
  IF rn[p] \in 1..NR
  THEN { j \in RequiredPeers(p, rn[p]) :
           \E tj \in Required(p, rn[p]) : tj[2] = j /\ tj \notin gt[p] }
  ELSE {}
WaitingProp(p) == WaitingPropOf(rnd, got, p)

(* round in which a party sends a given type *)
SendRound(m) == CHOOSE r \in 1..NR : m \in SendSet(m.from, r)

TypeOK ==
  /\ rnd \in [Parties -> (0..NR) \cup {Done}]
  /\ okset \in [Parties -> SUBSET Parties]
  /\ \A p \in Parties : store[p] \subseteq (Types \X Parties \X {"B", "P"})
  /\ \A p \in Parties : \A x \in store[p], y \in store[p] : (x[1] = y[1] /\ x[2] = y[2]) => x = y
  /\ sent \subseteq AllMsgs
  /\ ended \in [Parties -> Nat]

(* C07/C08: a result is emitted at most once *)
EndOnce == \A p \in Parties : ended[p] <= 1

(* C08: a message of round r is only ever sent by a party that has been handed, *)
(* on the right channel, everything its earlier rounds require.                 *)
SendDiscipline ==
  \A m \in sent : \A r \in 1..(SendRound(m) - 1) : Required(m.from, r) \subseteq got[m.from]

(* C08: table sanity - every message is awaited by its recipient in some round, *)
(* and everything awaited is sent by somebody                                  *)
TableSane ==
  /\ \A m \in AllMsgs : \E r \in 1..NR : <<m.type, m.from>> \in Required(m.to, r)
  /\ \A p \in Parties, r \in 1..NR : \A tj \in Required(p, r) : Msg(tj[1], tj[2], p) \in AllMsgs
ASSUME TableSane

(* C08: a party is in round r >= 2 only if it holds what rounds < r require *)
RoundDiscipline ==
  \A p \in Parties : rnd[p] \in 2..NR =>
     \A r \in 1..(rnd[p] - 1) : Required(p, r) \subseteq got[p]
=============================================================================
