------------------------- MODULE EngineConc_Trace -------------------------
(* Trace validation of CONCURRENT use of one party's API (C09).  The harness  *)
(* calls Update / UpdateFromBytes / WaitingFor / Start of the parties from    *)
(* many goroutines at once; a hook around the party mutex (build tag verif)   *)
(* logs one line per critical section, taken while the mutex is still held    *)
(* (sequence number incremented under that same mutex, no other               *)
(* synchronisation added): which call the goroutine is executing, and the     *)
(* party's round, emitted messages and result count at that moment.  Every    *)
(* critical section must be one PassDeliver / Start / read step of Engine, in *)
(* the logged order, with equal post-state: the concurrent run is then a      *)
(* sequential behaviour of the specification at critical-section granularity. *)
EXTENDS Engine_Trace

CPost(e) ==
  /\ rnd'[e.p] = e.rnd
  /\ (sent' \ sent) = OutSet(e)
  /\ Cardinality(OutSet(e)) = Len(e.out)
  /\ OutSet(e) \cap sent = {}
  /\ ended'[e.p] = e.ended

CPass ==
  /\ IsEvent("Pass")
  /\ LET e == TraceLog[l] IN
     /\ MsgOf(e.m) \in sent
     /\ PassDeliver(e.p, MsgOf(e.m), e.as)
     /\ CPost(e)

CStart ==
  /\ IsEvent("Start")
  /\ LET e == TraceLog[l] IN
     /\ Start(e.p)
     /\ CPost(e)

(* WaitingFor(): a critical section that changes nothing *)
CRead ==
  /\ IsEvent("Read")
  /\ LET e == TraceLog[l] IN
     /\ rnd[e.p] = e.rnd
     /\ ended[e.p] = e.ended
     /\ (rnd[e.p] \in 1..NR => WaitingCode(e.p) = ToSet(e.waiting))
  /\ UNCHANGED evars

CTraceNext == TraceReset \/ CPass \/ CStart \/ CRead
CTraceSpec == TraceInit /\ [][CTraceNext]_tvars
CTraceInv  == TypeOK /\ EndOnce /\ RoundDiscipline
=============================================================================
