----------------------------- MODULE EngineGen -----------------------------
(* Behaviour generator (binding B: specification -> code).  The engine model  *)
(* of EngineMC with a history variable; at every terminal state (everybody    *)
(* started, every sent message delivered) the history is printed as JSON.     *)
(* Exhaustive model checking enumerates every causally consistent schedule of *)
(* a small configuration (the history makes every path a distinct state);     *)
(* `-simulate` samples schedules of larger ones.  The harness replays each    *)
(* behaviour on the real parties and compares, after every step, the round    *)
(* and result count of the acting party with the values recorded here.        *)
EXTENDS EngineMC, Json, SequencesExt

VARIABLE hist
gvars == <<vars, hist>>

Rec(op, p, m) ==
  [op |-> op, p |-> p, type |-> m.type, from |-> m.from, rnd |-> rnd'[p], ended |-> ended'[p],
   waiting |-> SetToSeq(WaitingOf(rnd', okset', p))]

NoMsg == [type |-> "-", from |-> 0]

GInit == MCInit /\ hist = <<>>
GNext ==
  \/ \E p \in Parties : DoStart(p) /\ hist' = Append(hist, Rec("start", p, NoMsg))
  \/ \E m \in AllMsgs : DoDeliver(m) /\ hist' = Append(hist, Rec("deliver", m.to, m))
  \/ \E m \in AllMsgs : DoDup(m) /\ hist' = Append(hist, Rec("dup", m.to, m))
  \/ \E m \in AllMsgs : DoFlip(m) /\ hist' = Append(hist, Rec("flip", m.to, m))
GSpec == GInit /\ [][GNext]_gvars

Terminal == AllStarted /\ AllDelivered /\ dups = MaxDups /\ flips = MaxFlips
Emit == Terminal => PrintT(<<"BEHAVIOUR", ToJson(hist)>>)
GNoStuck == NoStuck
=============================================================================
