----------------------------- MODULE EngineMC -----------------------------
(* Model-checking wrapper of Engine.tla: an asynchronous transport that may   *)
(* deliver every sent message at any time after it was sent (also before the  *)
(* recipient's Start, also rounds early), may deliver up to MaxDups honest    *)
(* duplicates, and may hand a message over with the wrong broadcast flag up   *)
(* to MaxFlips times.                                                         *)
EXTENDS Engine

CONSTANTS MaxDups, MaxFlips   \* budgets: duplicate deliveries / flipped hand-overs per run

VARIABLES delivered, dups, flips
vars == <<evars, delivered, dups, flips>>

Opp(k) == IF k = "B" THEN "P" ELSE "B"

MCInit ==
  /\ Init
  /\ delivered = [m \in AllMsgs |-> 0]
  /\ dups = 0
  /\ flips = 0

DoStart(p) == Start(p) /\ UNCHANGED <<delivered, dups, flips>>

DoDeliver(m) ==
  /\ m \in sent
  /\ delivered[m] = 0
  /\ ~failed[m.to]
  /\ Deliver(m.to, m, m.kind)
  /\ delivered' = [delivered EXCEPT ![m] = 1]
  /\ UNCHANGED <<dups, flips>>

(* an honest duplicate: the same message, same flag, once more *)
DoDup(m) ==
  /\ m \in sent
  /\ delivered[m] = 1
  /\ dups < MaxDups
  /\ ~failed[m.to]
  /\ Deliver(m.to, m, m.kind)
  /\ dups' = dups + 1
  /\ UNCHANGED <<delivered, flips>>

(* A flipped hand-over.  It is only explored where it cannot clobber a good,  *)
(* not yet consumed copy (a transport that replaces a delivered message by a  *)
(* wrongly flagged duplicate is outside C07/C08; named deviation "clobber").  *)
DoFlip(m) ==
  /\ m \in sent
  /\ flips < MaxFlips
  /\ ~failed[m.to]
  /\ \/ delivered[m] = 0
     \/ rnd[m.to] = Done
     \/ \E r \in 1..NR : <<m.type, m.from>> \in Required(m.to, r) /\ r < rnd[m.to]
  /\ Deliver(m.to, m, Opp(m.kind))
  /\ flips' = flips + 1
  /\ UNCHANGED <<delivered, dups>>

MCNext ==
  \/ \E p \in Parties : DoStart(p)
  \/ \E m \in AllMsgs : DoDeliver(m)
  \/ \E m \in AllMsgs : DoDup(m)
  \/ \E m \in AllMsgs : DoFlip(m)

MCSpec == MCInit /\ [][MCNext]_vars /\ WF_vars(MCNext)

-----------------------------------------------------------------------------
AllStarted   == \A p \in Parties : rnd[p] # 0
AllDelivered == \A m \in sent : delivered[m] >= 1

Finished(p) ==
  /\ ended[p] = 1
  /\ \/ rnd[p] = Done
     \/ QuirkStuck /\ StuckLastRound(Proto) /\ rnd[p] = NR

(* C07: no schedule leaves parties waiting while every sent message has been   *)
(* delivered; every party finishes exactly once; the set of messages sent is   *)
(* the same for every schedule (it equals the statically prescribed set).      *)
NoStuck == (AllStarted /\ AllDelivered) => (\A p \in Parties : Finished(p)) /\ sent = AllMsgs

(* C07 liveness form: every behaviour of a fair transport finishes *)
EventuallyFinished == <>(\A p \in Parties : Finished(p))

(* C08: a message handed over on the wrong channel kind is never consumed: the *)
(* call has exactly the effect a call that stores nothing would have (in the   *)
(* resharing protocols a party whose current round awaits nobody moves on at   *)
(* any call - that is the call, not the message).                              *)
Tick(p) ==
  IF rnd[p] \in {0, Done} \/ failed[p]
  THEN [rnd |-> rnd[p], ok |-> okset[p], out |-> {}, ended |-> 0, culprits |-> {}]
  ELSE Settle(p, rnd[p], okset[p], store[p])
FlipInert ==
  [][ flips' = flips + 1 =>
        \E p \in Parties :
          /\ \A q \in Parties \ {p} : rnd'[q] = rnd[q] /\ okset'[q] = okset[q] /\ ended'[q] = ended[q]
          /\ rnd'[p] = Tick(p).rnd
          /\ okset'[p] = Tick(p).ok
          /\ ended'[p] = ended[p] + Tick(p).ended
          /\ sent' = sent \cup Tick(p).out
          /\ got' = got ]_vars

(* C08: after every update of p the reported awaited set is exact.            *)
WaitingExact ==
  [][ \A m \in AllMsgs : (delivered'[m] # delivered[m] \/ ((flips' # flips \/ dups' # dups) /\ store'[m.to] # store[m.to]))
        => WaitingOf(rnd', okset', m.to) = WaitingPropOf(rnd', got', m.to) ]_vars

(* C08: once each - a step never re-sends an already sent message.  (sent is a *)
(* set, so the engine model cannot duplicate; the trace spec checks the code.) *)
SentMonotone == [][ sent \subseteq sent' ]_vars

View == <<rnd, okset, store, sent, ended, failed, delivered, dups, flips>>
=============================================================================
