SPECIFICATION MCSpec
CONSTANTS
  Proto = "eddsa-keygen"
  NOld = 3
  NNew = 0
  QuirkShort = FALSE
  QuirkStuck = FALSE
  StartRunsUpdate = TRUE
  BadMsgs = {}
  MaxDeliver = 1
  MaxFlips = 0
INVARIANTS TypeOK EndOnce SendDiscipline RoundDiscipline NoStuck
PROPERTIES FlipInert WaitingExact SentMonotone
VIEW View
CHECK_DEADLOCK FALSE
