--------------------------- MODULE Engine_Trace ---------------------------
(* Trace validation: every line of an ndjson file recorded by the harness     *)
(* from the real tss-lib code (one line per public call, with the projected   *)
(* state after the call) must be explained by the corresponding Engine        *)
(* action, and the post-state computed by the spec must equal the logged one. *)
(* Many runs are concatenated; a Reset line starts a new run.                 *)
EXTENDS Engine, Json, IOUtils

TraceFile == IF "TRACE" \in DOMAIN IOEnv THEN IOEnv.TRACE ELSE "trace.ndjson"
TraceLog == ndJsonDeserialize(TraceFile)

VARIABLE l      \* next line to consume
tvars == <<evars, l>>

ToSet(seq) == { seq[i] : i \in 1..Len(seq) }
MsgOf(j)   == [type |-> j.type, from |-> j.from, to |-> j.to, kind |-> j.kind]
OutSet(e)  == { MsgOf(e.out[i]) : i \in 1..Len(e.out) }

TraceInit == Init /\ l = 1

IsEvent(name) == l <= Len(TraceLog) /\ TraceLog[l].ev = name /\ l' = l + 1

TraceReset ==
  /\ IsEvent("Reset")
  /\ TraceLog[l].proto = Proto /\ TraceLog[l].nold = NOld /\ TraceLog[l].nnew = NNew
  /\ rnd'    = [p \in Parties |-> 0]
  /\ okset'  = [p \in Parties |-> {}]
  /\ store'  = [p \in Parties |-> {}]
  /\ got'    = [p \in Parties |-> {}]
  /\ sent'   = {}
  /\ ended'  = [p \in Parties |-> 0]
  /\ failed' = [p \in Parties |-> FALSE]

(* the logged post-state of the called party equals the spec's *)
PostMatches(e) ==
  /\ rnd'[e.p] = e.rnd
  /\ WaitingOf(rnd', okset', e.p) = ToSet(e.waiting)
  /\ (sent' \ sent) = OutSet(e)
  /\ Cardinality(OutSet(e)) = Len(e.out)      \* nothing emitted twice in one call
  /\ OutSet(e) \cap sent = {}                 \* nothing re-sent
  /\ \A m \in OutSet(e) : m.kind = KindOf(m.type)
  /\ \A i \in 1..Len(e.out) : e.out[i].kind = "P" => e.out[i].fan = 1   \* secret bearing: exactly one recipient
  /\ ended'[e.p] = e.ended
  /\ \A k \in DOMAIN e.obs : e.obs[k]      \* harness observations (wire round trip, no long-term secret on the wire, ...)

TraceStart ==
  /\ IsEvent("Start")
  /\ LET e == TraceLog[l] IN
     /\ e.ret = "ok"
     /\ Start(e.p)
     /\ PostMatches(e)

TraceDeliver ==
  /\ IsEvent("Deliver")
  /\ LET e == TraceLog[l] IN
     /\ e.ret = "ok"
     /\ MsgOf(e.m) \in sent                   \* causality: only sent messages are delivered
     /\ Deliver(e.p, MsgOf(e.m), e.as)
     /\ PostMatches(e)

TraceNext == TraceReset \/ TraceStart \/ TraceDeliver
TraceSpec == TraceInit /\ [][TraceNext]_tvars

(* state invariants evaluated on every state of every real run *)
TraceInv == TypeOK /\ EndOnce /\ SendDiscipline /\ RoundDiscipline

(* C08 evaluated after every update of the real code *)
TraceWaitingExact ==
  [][ (l' = l + 1 /\ l <= Len(TraceLog) /\ TraceLog[l].ev = "Deliver")
        => WaitingOf(rnd', okset', TraceLog[l].p) = WaitingPropOf(rnd', got', TraceLog[l].p) ]_tvars

(* high-water mark of consumed lines; needs -workers 1 *)
ASSUME TLCSet(1, 0)
HighWater == TLCSet(1, IF l > TLCGet(1) THEN l ELSE TLCGet(1))
TraceAccepted ==
  /\ PrintT(<<"TRACE_HW", TLCGet(1) - 1, Len(TraceLog)>>)
  /\ TLCGet(1) = Len(TraceLog) + 1
=============================================================================
