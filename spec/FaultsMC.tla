------------------------------ MODULE FaultsMC ------------------------------
(* One deviating participant on top of the engine model.  BadMsgs is the set  *)
(* of <<type, sender>> whose content was altered in a field that a commitment,*)
(* share check or zero-knowledge proof covers.  The round whose Start() reads *)
(* that type (Protocols!VerifiedIn) fails at every honest recipient and names *)
(* the sender; a party that reported an error receives nothing more (honest   *)
(* abort).  The deviating party itself follows the protocol (its messages are *)
(* altered in transit).                                                       *)
EXTENDS EngineMC

VARIABLE blamed     \* [Parties -> SUBSET Parties] : culprits named in the errors of each party
fvars == <<vars, blamed>>

Dev == { x[2] : x \in BadMsgs }
Honest == Parties \ Dev

FInit == MCInit /\ blamed = [p \in Parties |-> {}]

CulpritsAfter(p, st) ==
  IF rnd[p] \in {0, Done} \/ failed[p] THEN {} ELSE Settle(p, rnd[p], okset[p], st).culprits

FStart(p) ==
  /\ DoStart(p)
  /\ blamed' = [blamed EXCEPT ![p] = @ \cup (IF StartRunsUpdate /\ store[p] # {}
                                            THEN Settle(p, 1, Presets(p, 1), store[p]).culprits ELSE {})]

FDeliver(m) ==
  /\ DoDeliver(m)
  /\ blamed' = [blamed EXCEPT ![m.to] = @ \cup CulpritsAfter(m.to, Put(store[m.to], m.type, m.from, m.kind))]

FNext == (\E p \in Parties : FStart(p)) \/ (\E m \in AllMsgs : FDeliver(m))
FSpec == FInit /\ [][FNext]_fvars

-----------------------------------------------------------------------------
(* every error an honest participant reports names nobody but the deviating one *)
BlameSound == \A p \in Honest : blamed[p] \subseteq Dev

(* an honest party that was handed an altered, covered message never gets past  *)
(* the round that verifies it                                                   *)
NoSilentAccept ==
  \A p \in Honest : \A x \in BadMsgs :
     ((\E r \in 1..NR : x \in Required(p, r)) /\ x[2] # p)
        => ~(rnd[p] = Done \/ rnd[p] > VerifiedIn(Proto, x[1]))

Settled == \A m \in sent : delivered[m] >= 1 \/ failed[m.to]

(* C05 (d): in resharing a single deviating participant cannot make the honest  *)
(* ones lose the key: if an honest old member's share has been erased then,     *)
(* once all sent messages are delivered, every honest new member has emitted.   *)
NoKeyLoss ==
  (IsResharing(Proto) /\ AllStarted /\ Settled /\ (\E p \in Old \cap Honest : ended[p] >= 1))
     => \A q \in New \cap Honest : ended[q] >= 1 /\ ~failed[q]
=============================================================================
