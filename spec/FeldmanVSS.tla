---------------------------- MODULE FeldmanVSS ----------------------------
(* Feldman verifiable secret sharing as implemented by crypto/vss/feldman_vss.go, over a toy   *)
(* group: Z_q for a small prime q, which is the group order of a toy elliptic curve on which   *)
(* the REAL vss functions are run by the harness (props/c15.go).                                *)
(*                                                                                             *)
(* Group elements are written as discrete logs: the point k*G is the integer k in 1..Q-1.     *)
(* 0 is the neutral element, which crypto.ECPoint CANNOT represent on a Weierstrass curve     *)
(* (ScalarBaseMult / ScalarMult panic, Add returns an error). The operators below are shaped   *)
(* like the code (one operator per function, loops as recursions over the same index) and      *)
(* model that restriction as the code behaves (named deviation from textbook Feldman VSS):     *)
(*   - Create panics when the secret or a drawn coefficient is 0 mod q ("panic" outcome)       *)
(*   - Verify is FALSE for a share or id that is 0 mod q, and FALSE as soon as a partial sum   *)
(*     V_0 + id V_1 + .. + id^j V_j is the neutral element                                      *)
(* Dealings in which this happens are called Degenerate; at 256 bits they have probability     *)
(* about n/q, at toy size they are frequent. "A dealt share verifies" is claimed for the rest; *)
(* the exact behaviour on degenerate ones is part of the conformance relation (the trace       *)
(* module demands result = operator for every call).                                           *)
(*                                                                                             *)
(* Zq.tla supplies the textbook algebra (Horner evaluation Eval, Lagrange interpolation        *)
(* Interp); the invariants state that the code-shaped operators agree with it.                 *)
(*                                                                                             *)
(* SIGNED REPRESENTATIVES. The library takes ids, secrets and share values as *big.Int, i.e.   *)
(* as arbitrary integers that stand for their residue modulo q: q+1 and 1-q are the id 1, q    *)
(* and -q are the inadmissible id 0, s-q is the share value s. Every integer that the model    *)
(* enumerates (Ids, Secrets, the altered ids / share values AltMin..AltMax) therefore ranges    *)
(* over a window AROUND 0: canonical representatives, representatives >= q and NEGATIVE        *)
(* representatives of the same classes. The code reduces with big.Int.Mod (Euclidean: result   *)
(* in [0,q) for either sign); Rq below is that reduction (TLC's % is Euclidean too:            *)
(* (-6) % 5 = 4). ReprBlind states that nothing depends on the representative chosen.          *)
EXTENDS Zq, TLC

CONSTANTS MaxT,      \* thresholds 0..MaxT are dealt (0 is refused by Create)
          MaxN,      \* id sets of size 1..MaxN
          Ids,       \* the integers used as party ids (a window around 0): values >= Q and values < 0 alias their
                     \* residue, all multiples of Q (0, Q, -Q, ..) are inadmissible
          Secrets,   \* the integers used as secrets (a window around 0: negative, canonical and >= Q representatives)
          AltMin,    \* altered ids and share values range over AltMin..AltMax (AltMin <= 0: negative representatives;
          AltMax,    \*   >= Q: aliases; multiples of Q of either sign)
          AltN       \* alterations are applied in dealings to at most AltN ids (see Call)

Rq(x) == x % Q                       \* big.Int.Mod: the representative in 0..Q-1, for an argument of either sign
InvT  == [x \in ZqStar |-> Pow(x, Q - 2)]     \* table of inverses (Fermat), evaluated once
Representable(p) == p \in ZqStar     \* dlog of a point that crypto.ECPoint can hold

(***************************************************************************)
(* CheckIndexes: no id is 0 mod q, no two ids coincide mod q               *)
(***************************************************************************)
CheckIndexes(ids) ==
  \A i \in 1..Len(ids) :
     /\ Rq(ids[i]) # 0
     /\ \A j \in 1..(i - 1) : Rq(ids[j]) # Rq(ids[i])

(***************************************************************************)
(* evaluatePolynomial(threshold, v, id): result = v[0]; X = 1;             *)
(* for i = 1..threshold { X = X*id mod q; result = result + v[i]*X mod q } *)
(* coefficient sequences are 1-based: a[k+1] is the coefficient of x^k     *)
(***************************************************************************)
RECURSIVE EvalLoop(_, _, _, _, _, _)
EvalLoop(thr, a, id, i, X, result) ==
  IF i > thr THEN result
  ELSE LET X2 == Rq(X * id) IN EvalLoop(thr, a, id, i + 1, X2, Rq(result + a[i + 1] * X2))
EvaluatePolynomial(thr, a, id) == EvalLoop(thr, a, id, 1, 1, a[1])

(***************************************************************************)
(* Create(threshold, secret, indexes, rand): a[1] = secret (any integer,     *)
(* reduced modulo q before it is used), a[2..t+1] are the values drawn from *)
(* rand (each in 0..q-1: "positive" includes 0).                            *)
(***************************************************************************)
Refuses(thr, ids) == thr < 1 \/ ~CheckIndexes(ids) \/ Len(ids) < thr

Create(thr, secret, ids, a) ==
  IF Refuses(thr, ids)
    THEN [out |-> "refused", vs |-> <<>>, shares |-> <<>>]
  ELSE IF \E k \in 1..(thr + 1) : ~Representable(Rq(a[k]))      \* ScalarBaseMult(0) panics
    THEN [out |-> "panic", vs |-> <<>>, shares |-> <<>>]
  ELSE [out    |-> "ok",
        vs     |-> [k \in 1..(thr + 1) |-> Rq(a[k])],
        shares |-> [i \in 1..Len(ids) |-> EvaluatePolynomial(thr, a, ids[i])]]

(***************************************************************************)
(* Share.Verify(threshold, vs) for a share (shareThr, id, share):           *)
(* v = vs[0]; t = 1; for j = 1..threshold { t = t*id mod q;                 *)
(*   v = v + t*vs[j]  (Add fails on the neutral element => false) }         *)
(* return share*G == v.  0 stands for "cannot be represented".             *)
(***************************************************************************)
RECURSIVE VerifyLoop(_, _, _, _, _, _)
VerifyLoop(thr, vs, id, j, tt, v) ==
  IF j > thr THEN v
  ELSE LET t2 == Rq(tt * id)
           v2 == Rq(v + t2 * vs[j + 1])
       IN IF v2 = 0 THEN 0 ELSE VerifyLoop(thr, vs, id, j + 1, t2, v2)

VerifyShare(shareThr, id, share, thr, vs) ==
  /\ shareThr = thr
  /\ Len(vs) = thr + 1
  /\ Rq(share) # 0
  /\ Rq(id) # 0
  /\ \A k \in 1..Len(vs) : Representable(vs[k])
  /\ VerifyLoop(thr, vs, id, 1, 1, vs[1]) = Rq(share)

(***************************************************************************)
(* Shares.ReConstruct: refuses when shares[0].Threshold > len(shares);       *)
(* secret = sum_i share_i * prod_{j # i} xs[j] / (xs[j] - xs[i]);            *)
(* a difference that is 0 mod q has no inverse => error. -1 stands for err. *)
(***************************************************************************)
RECURSIVE TimesLoop(_, _, _, _)
TimesLoop(xs, i, j, times) ==          \* -1: no inverse
  IF j > Len(xs) THEN times
  ELSE IF j = i THEN TimesLoop(xs, i, j + 1, times)
  ELSE LET sub == Sub(Rq(xs[j]), Rq(xs[i]))
       IN IF sub = 0 THEN -1
          ELSE TimesLoop(xs, i, j + 1, Rq(times * Rq(Rq(xs[j]) * InvT[sub])))

RECURSIVE ReconLoop(_, _, _, _)
ReconLoop(xs, ss, i, secret) ==
  IF i > Len(xs) THEN secret
  ELSE LET times == TimesLoop(xs, i, 1, 1)
       IN IF times = -1 THEN -1
          ELSE ReconLoop(xs, ss, i + 1, Rq(secret + Rq(Rq(ss[i]) * times)))

ReConstruct(thr0, xs, ss) ==           \* thr0 = Threshold field of the first share
  IF thr0 > Len(xs) THEN -1 ELSE ReconLoop(xs, ss, 1, 0)

(***************************************************************************)
(* What the property talks about, on a dealing                              *)
(*   d = [t, secret, ids, a, out, vs, shares]                               *)
(* and one call made with (possibly altered) material of that dealing       *)
(*   c = [op |-> "V", kind, i, sthr, id, share, thr, vs, res]               *)
(*     | [op |-> "R", idx, res]   (idx: increasing indices into d.shares)   *)
(***************************************************************************)
None == [op |-> "none"]

\* the dealt polynomial as the textbook sees it
F(d, x) == Eval(d.a, x)

\* no partial sum of the verification of (id) against the commitments is the neutral element, and f(id) # 0
Smooth(thr, vs, id) == Rq(id) # 0 /\ VerifyLoop(thr, vs, id, 1, 1, vs[1]) # 0
Degenerate(d) == d.out = "ok" /\ \E i \in 1..Len(d.ids) : ~Smooth(d.t, d.vs, d.ids[i])

\* --- invariants over dealings -------------------------------------------------
RefusalExact(d) ==       \* dealing is refused exactly for t < 1, an id = 0 mod q, two ids equal mod q, n < t
  (d.out = "refused") <=>
     (d.t < 1 \/ (\E i \in 1..Len(d.ids) : d.ids[i] % Q = 0) \/ ~DistinctModQ(d.ids) \/ Len(d.ids) < d.t)

FirstCommitment(d) == d.out = "ok" => d.vs[1] = Rq(d.secret)          \* V_0 = secret*G

Commitments(d) == d.out = "ok" => \A k \in 1..(d.t + 1) : d.vs[k] = Rq(d.a[k])

OnePolynomial(d) ==      \* the shares are the values of one polynomial with f(0) = secret and degree exactly t
  d.out = "ok" =>
     /\ \A i \in 1..Len(d.ids) : d.shares[i] = F(d, d.ids[i])
     /\ d.a[1] = d.secret /\ Len(d.a) = d.t + 1 /\ Rq(d.a[d.t + 1]) # 0

PanicOnlyDegenerate(d) == d.out = "panic" => \E k \in 1..(d.t + 1) : Rq(d.a[k]) = 0

DealOK(d) == RefusalExact(d) /\ FirstCommitment(d) /\ Commitments(d) /\ OnePolynomial(d) /\ PanicOnlyDegenerate(d)

\* --- invariants over calls ----------------------------------------------------
\* soundness, unconditional: whatever is accepted satisfies the verification equation sum_k id^k V_k = share*G
Sound(c) == (c.op = "V" /\ c.res) =>
   /\ c.sthr = c.thr /\ Len(c.vs) = c.thr + 1
   /\ Eval(c.vs, c.id) = Rq(c.share)

\* a dealt share verifies under its own id (degenerate dealings: exactly when the code can represent every partial sum)
OwnVerifies(d, c) == (c.op = "V" /\ c.kind = "own") =>
   /\ ~Degenerate(d) => c.res
   /\ c.res <=> Smooth(d.t, d.vs, d.ids[c.i])

\* ... and under no other id: with any id' the verdict is exactly "f(id') = share" (never true unless the other
\* id happens to have the same share value, which at 256 bits has probability 2^-256)
OtherIdFails(d, c) == (c.op = "V" /\ c.kind = "id") =>
   /\ c.res => F(d, c.id) = d.shares[c.i]
   /\ (Rq(c.id) # Rq(d.ids[c.i]) /\ F(d, c.id) # F(d, d.ids[c.i])) => ~c.res
   /\ (Smooth(d.t, d.vs, c.id) /\ F(d, c.id) = d.shares[c.i]) => c.res

\* an altered share value never verifies (a value that is congruent mod q is the same share)
AlteredShareFails(d, c) == (c.op = "V" /\ c.kind = "share") =>
   /\ Rq(c.share) # d.shares[c.i] => ~c.res
   /\ (Rq(c.share) = d.shares[c.i] /\ Smooth(d.t, d.vs, d.ids[c.i])) => c.res

\* a single altered commitment never verifies
AlteredCommitFails(d, c) == (c.op = "V" /\ c.kind = "commit") =>
   /\ \E k \in 1..(d.t + 1) : c.vs[k] # d.vs[k] /\ \A m \in 1..(d.t + 1) : m # k => c.vs[m] = d.vs[m]
   /\ ~c.res

\* a commitment vector of the wrong length / a threshold that is not the share's never verifies
ShapeFails(d, c) == (c.op = "V" /\ c.kind = "shape") => ~c.res

\* textbook Lagrange interpolation at 0: sum_i s_i * prod_{j # i} (0 - x_j) / (x_i - x_j)   (Zq!Interp with table inverses)
RECURSIVE BasisAtZero(_, _, _)
BasisAtZero(xs, i, j) ==
  IF j > Len(xs) THEN 1
  ELSE IF j = i THEN BasisAtZero(xs, i, j + 1)
  ELSE Mul(Mul(Neg(xs[j]), InvT[Sub(xs[i] % Q, xs[j] % Q)]), BasisAtZero(xs, i, j + 1))
RECURSIVE InterpAtZeroFrom(_, _, _)
InterpAtZeroFrom(xs, ss, i) ==
  IF i > Len(xs) THEN 0 ELSE Add(Mul(ss[i] % Q, BasisAtZero(xs, i, 1)), InterpAtZeroFrom(xs, ss, i + 1))
InterpAtZero(xs, ss) == InterpAtZeroFrom(xs, ss, 1)

\* every subset of at least t+1 shares reconstructs exactly the secret, fewer never do: fewer than t shares are refused,
\* and t shares give the value at 0 of the polynomial g of degree < t through them, which is NOT the secret because
\* f - g = a_t * prod (x - x_i) has a non-zero value at 0 (a_t # 0: degree exactly t; no id is 0 mod q).
\* The code-shaped Lagrange loop is the textbook interpolation at 0.
Reconstruction(d, c) == c.op = "R" =>
   LET xs == Pick(d.ids, c.idx)
       ss == Pick(d.shares, c.idx)
   IN /\ Len(c.idx) >= d.t + 1 => c.res = Rq(d.secret)
      /\ Len(c.idx) <= d.t => c.res # Rq(d.secret)
      /\ Len(c.idx) < d.t => c.res = -1
      /\ Len(c.idx) >= d.t => c.res = InterpAtZero(xs, ss)

CallOK(d, c) == Sound(c) /\ OwnVerifies(d, c) /\ OtherIdFails(d, c) /\ AlteredShareFails(d, c)
                /\ AlteredCommitFails(d, c) /\ ShapeFails(d, c) /\ Reconstruction(d, c)

\* --- signed representatives ----------------------------------------------------
\* Nothing depends on which integer stands for a residue class: the dealing made for (secret, ids, coefficients) is the
\* dealing made for their canonical representatives (in particular: refused for -Q and for {k, k-Q} exactly as for 0 and
\* {k, k}), and every call returns what it returns on the canonical representatives of the id and the share value.
Canon(seq) == [i \in 1..Len(seq) |-> Rq(seq[i])]
ReprBlindDeal(d) ==
  LET m == Create(d.t, Rq(d.secret), Canon(d.ids), Canon(d.a))
  IN m.out = d.out /\ m.vs = d.vs /\ m.shares = d.shares
ReprBlindCall(d, c) ==
  /\ c.op = "V" => c.res = VerifyShare(c.sthr, Rq(c.id), Rq(c.share), c.thr, c.vs)
  /\ c.op = "R" => c.res = ReConstruct(d.t, Canon(Pick(d.ids, c.idx)), Canon(Pick(d.shares, c.idx)))

\* --- "fewer than t+1 never do", information-theoretic reading -----------------
\* Reconstruction above says that the library's ReConstruct never yields the secret from at most t shares. Secrecy
\* says that nobody can: for every set T of at most t admissible ids, the map  polynomial |-> (f(0), f restricted to T)
\* from the q^(t+1) polynomials of degree <= t is onto Z_q x Z_q^T, so whatever values t shares have, every secret is
\* consistent with them (with exactly q^(t-|T|) polynomials each).
RECURSIVE IntPow(_, _)
IntPow(b, e) == IF e = 0 THEN 1 ELSE b * IntPow(b, e - 1)
AllCoefs(thr) == [1..(thr + 1) -> Zq]
Secrecy(thr, ids) ==
  \A k \in 1..thr : k <= Len(ids) =>
    \A idx \in SubSeqs(Len(ids), k, 1) :
       Cardinality({ <<a[1], [m \in 1..k |-> Eval(a, ids[idx[m]])]>> : a \in AllCoefs(thr) }) = IntPow(Q, k + 1)

(***************************************************************************)
(* State machine explored by TLC: choose (t, ids), deal, make one call.     *)
(***************************************************************************)
VARIABLES p,    \* chosen parameters [t, ids] or None
          d,    \* the dealing or None
          c     \* the call or None
vars == <<p, d, c>>

\* id sets as increasing sequences
RECURSIVE SortedSeq(_)
SortedSeq(S) == IF S = {} THEN <<>>
                ELSE LET m == CHOOSE x \in S : \A y \in S : x <= y IN <<m>> \o SortedSeq(S \ {m})
IdSeqs == { SortedSeq(S) : S \in { T \in SUBSET Ids : Cardinality(T) \in 1..MaxN } }

Init == p = None /\ d = None /\ c = None

Choose ==
  /\ p = None
  /\ \E thr \in 0..MaxT, ids \in IdSeqs : p' = [op |-> "params", t |-> thr, ids |-> ids]
  /\ UNCHANGED <<d, c>>

Deal ==
  /\ p # None /\ d = None
  /\ LET ref == Refuses(p.t, p.ids)                 \* a refusal looks at neither secret nor coefficients: dealt once
     IN \E secret \in (IF ref THEN {1} ELSE Secrets) :
          \E cs \in (IF ref THEN {[k \in 1..p.t |-> 1]} ELSE [1..p.t -> Zq]) :     \* the drawn coefficients
             LET a == <<secret>> \o cs
             IN d' = [op |-> "deal", t |-> p.t, secret |-> secret, ids |-> p.ids, a |-> a] @@ Create(p.t, secret, p.ids, a)
  /\ UNCHANGED <<p, c>>

VCall(kind, i, sthr, id, share, thr, vs) ==
  c' = [op |-> "V", kind |-> kind, i |-> i, sthr |-> sthr, id |-> id, share |-> share, thr |-> thr, vs |-> vs,
        res |-> VerifyShare(sthr, id, share, thr, vs)]

(* Verify sees one share, its id, and the commitments - nothing else of the dealing. Every (polynomial, id) pair  *)
(* already occurs in a dealing to at most max(t,1) ids, so the alterations are applied there (AltN >= MaxT) and   *)
(* larger dealings contribute the own-id verifications and all subset reconstructions.                            *)
Call ==
  /\ d # None /\ d.out = "ok" /\ c = None
  /\ \E i \in 1..Len(d.ids) :
       \/ VCall("own", i, d.t, d.ids[i], d.shares[i], d.t, d.vs)
       \/ /\ Len(d.ids) <= AltN
          /\ \/ \E id \in (AltMin..AltMax) \ {d.ids[i]} : VCall("id", i, d.t, id, d.shares[i], d.t, d.vs)
             \/ \E s \in (AltMin..AltMax) \ {d.shares[i]} : VCall("share", i, d.t, d.ids[i], s, d.t, d.vs)
             \/ \E k \in 1..(d.t + 1) : \E v \in ZqStar \ {d.vs[k]} :
                  VCall("commit", i, d.t, d.ids[i], d.shares[i], d.t, [d.vs EXCEPT ![k] = v])
             \/ VCall("shape", i, d.t, d.ids[i], d.shares[i], d.t, SubSeq(d.vs, 1, d.t))
             \/ VCall("shape", i, d.t, d.ids[i], d.shares[i], d.t, Append(d.vs, d.vs[d.t + 1]))
             \/ VCall("shape", i, d.t, d.ids[i], d.shares[i], d.t + 1, Append(d.vs, d.vs[d.t + 1]))
             \/ VCall("shape", i, d.t + 1, d.ids[i], d.shares[i], d.t, d.vs)
       \/ (i = 1 /\ \E k \in 1..Len(d.ids) : \E idx \in SubSeqs(Len(d.ids), k, 1) :
             c' = [op |-> "R", idx |-> idx, res |-> ReConstruct(d.t, Pick(d.ids, idx), Pick(d.shares, idx))])
  /\ UNCHANGED <<p, d>>

Next == Choose \/ Deal \/ Call
Spec == Init /\ [][Next]_vars

InvSecrecy == (p # None /\ d = None /\ p.t >= 1 /\ CheckIndexes(p.ids)) => Secrecy(p.t, p.ids)
InvDeal    == (d # None /\ c = None) => DealOK(d)
InvCall    == c # None => CallOK(d, c)
InvRepr    == /\ (d # None /\ c = None) => ReprBlindDeal(d)
              /\ c # None => ReprBlindCall(d, c)
\* InterpAtZero is Zq!Interp at 0 (checked in the model-checking runs only: Zq!Inv is a Fermat recursion, slow for large Q)
InvInterp  == (c # None /\ c.op = "R" /\ Len(c.idx) >= d.t) =>
                 InterpAtZero(Pick(d.ids, c.idx), Pick(d.shares, c.idx)) = Interp(Pick(d.ids, c.idx), Pick(d.shares, c.idx), 0)
\* the code-shaped evaluation loop is Horner evaluation
InvEval    == (d # None /\ c = None /\ d.t >= 1) => \A i \in 1..Len(d.ids) : EvaluatePolynomial(d.t, d.a, d.ids[i]) = F(d, d.ids[i])
=============================================================================
