------------------------- MODULE FeldmanVSS_Trace -------------------------
(* Binding (C), toy-parameter algebra: the harness (props/c15.go) runs the REAL functions       *)
(* vss.Create, Share.Verify, Shares.ReConstruct of crypto/vss on a toy elliptic curve of prime   *)
(* order Q (a plain *elliptic.CurveParams, see harness/toy) and writes one ndjson line per       *)
(* dealing: the arguments of Create, its outcome, the dealt shares as integers, the commitments  *)
(* as discrete logs (taken from a table the harness computes with its own arithmetic), and every *)
(* Verify / ReConstruct call made with (possibly altered) material of that dealing together with *)
(* the value the real call returned.                                                            *)
(*                                                                                             *)
(*  {"t":2,"secret":3,"ids":[1,6],"out":"ok"|"refused"|"panic","vs":[3,1,4],"shares":[1,3],      *)
(*   "ver":[[kind,i,shareThr,id,share,thr,vs,res],...],   kind: own | id | share | commit | shape *)
(*   "rec":[[idx,res],...],              idx: indices into shares, res = -1 for an error return  *)
(*   "recx":[[thr0,xs,ss,res],...],      ReConstruct on arbitrary (id, share) lists: two ids that *)
(*                                       coincide mod q (x, x+q, x-q, x-2q), the dealt shares    *)
(*                                       written with other representatives (id-q, share-q, ..)  *)
(*   "x":0}                              1 marks a line corrupted by the self test (see TraceInv) *)
(*                                                                                             *)
(* All integers are written as the library received / returned them: ids, secrets and altered    *)
(* values may be negative or >= Q (signed representatives, see FeldmanVSS.tla).                  *)
(*                                                                                             *)
(* A line is explained iff                                                                       *)
(*   - the outcome of Create is the one FeldmanVSS!Create allows: "refused" exactly when Refuses, *)
(*     and for "ok" there is a coefficient vector a with a[1] = secret such that                 *)
(*     Create(t, secret, ids, a) yields exactly the logged commitments and shares. The drawn     *)
(*     coefficients are not logged and not predicted from the random tape: the only candidate is  *)
(*     read off the commitments (a[k] = dlog V_k), which is what "validate by an existential"     *)
(*     amounts to here. "panic" is allowed whenever the dealing is not refused (some coefficient  *)
(*     may be 0 mod q) and forced when the secret is 0 mod q;                                     *)
(*   - every Verify call returned VerifyShare(..) and every ReConstruct call returned            *)
(*     ReConstruct(..) of the specification on the logged arguments;                              *)
(*   - the property invariants DealOK / CallOK of FeldmanVSS hold for the dealing and each call. *)
(* The lines are independent (the vss functions are pure), so they are visited as a binary tree  *)
(* (line l has children 2l and 2l+1): TLC checks them with several workers, and the run accepts  *)
(* the file iff no invariant fails and the number of distinct states equals the number of lines.  *)
EXTENDS FeldmanVSS, Json, IOUtils

TraceFile == IF "TRACE" \in DOMAIN IOEnv THEN IOEnv.TRACE ELSE "trace.ndjson"
TraceLog  == ndJsonDeserialize(TraceFile)

VARIABLE l      \* the line looked at
tvars == <<vars, l>>

\* the dealing of a line; the polynomial is the one the commitments reveal
TraceDeal(e) ==
  [op |-> "deal", t |-> e.t, secret |-> e.secret, ids |-> e.ids,
   a |-> (IF e.out = "ok" /\ Len(e.vs) > 0 THEN <<e.secret>> \o Tail(e.vs) ELSE <<>>),
   out |-> e.out, vs |-> e.vs, shares |-> e.shares]

ExplainsCreate(e) ==
  \/ e.out = "refused" /\ Refuses(e.t, e.ids) /\ e.vs = <<>> /\ e.shares = <<>>
  \/ e.out = "panic" /\ ~Refuses(e.t, e.ids) /\ e.vs = <<>> /\ e.shares = <<>>
  \/ /\ e.out = "ok"
     /\ ~Refuses(e.t, e.ids)
     /\ Len(e.vs) = e.t + 1
     /\ \E a \in { <<e.secret>> \o Tail(e.vs) } :
          LET m == Create(e.t, e.secret, e.ids, a)
          IN m.out = "ok" /\ m.vs = e.vs /\ m.shares = e.shares

VCallOf(v) == [op |-> "V", kind |-> v[1], i |-> v[2], sthr |-> v[3], id |-> v[4], share |-> v[5], thr |-> v[6],
               vs |-> v[7], res |-> v[8]]
RCallOf(r) == [op |-> "R", idx |-> r[1], res |-> r[2]]

\* the call really is what its kind says (a check of the harness, not of the library)
KindHonest(dd, cc) ==
  LET own == cc.sthr = dd.t /\ cc.thr = dd.t
  IN /\ cc.i \in 1..Len(dd.ids)
     /\ cc.kind \in {"own", "id", "share", "commit", "shape"}
     /\ cc.kind = "own" => own /\ cc.id = dd.ids[cc.i] /\ cc.share = dd.shares[cc.i] /\ cc.vs = dd.vs
     /\ cc.kind = "id" => own /\ cc.id # dd.ids[cc.i] /\ cc.share = dd.shares[cc.i] /\ cc.vs = dd.vs
     /\ cc.kind = "share" => own /\ cc.id = dd.ids[cc.i] /\ cc.share # dd.shares[cc.i] /\ cc.vs = dd.vs
     /\ cc.kind = "commit" => own /\ cc.id = dd.ids[cc.i] /\ cc.share = dd.shares[cc.i] /\ Len(cc.vs) = dd.t + 1
     /\ cc.kind = "shape" => cc.id = dd.ids[cc.i] /\ cc.share = dd.shares[cc.i]
                             /\ (cc.sthr # cc.thr \/ Len(cc.vs) # cc.thr + 1)

ExplainsVerify(dd, cc) ==
  /\ KindHonest(dd, cc)
  /\ cc.res = VerifyShare(cc.sthr, cc.id, cc.share, cc.thr, cc.vs)
  /\ CallOK(dd, cc)

ExplainsRecon(dd, cc) ==
  /\ \A m \in 1..Len(cc.idx) : cc.idx[m] \in 1..Len(dd.ids)
  /\ cc.res = ReConstruct(dd.t, Pick(dd.ids, cc.idx), Pick(dd.shares, cc.idx))
  /\ CallOK(dd, cc)

LineOK(e) ==
  LET dd == TraceDeal(e)
  IN /\ ExplainsCreate(e)
     /\ RefusalExact(dd) /\ FirstCommitment(dd) /\ Commitments(dd) /\ OnePolynomial(dd)
     /\ e.out # "ok" => e.ver = <<>> /\ e.rec = <<>>
     /\ \A k \in 1..Len(e.ver) : ExplainsVerify(dd, VCallOf(e.ver[k]))
     /\ \A k \in 1..Len(e.rec) : ExplainsRecon(dd, RCallOf(e.rec[k]))
     /\ \A k \in 1..Len(e.recx) : e.recx[k][4] = ReConstruct(e.recx[k][1], e.recx[k][2], e.recx[k][3])

TraceInit == l = 1 /\ p = None /\ c = None /\ d = TraceDeal(TraceLog[1])
TraceNext ==
  /\ \E m \in {2 * l, 2 * l + 1} : m <= Len(TraceLog) /\ l' = m /\ d' = TraceDeal(TraceLog[m])
  /\ UNCHANGED <<p, c>>
TraceSpec == TraceInit /\ [][TraceNext]_tvars

\* Lines with x = 1 were corrupted on purpose by the harness (one logged value changed, shape preserved): the self test
\* of the binding demands that none of them is explained.
TraceInv ==
  LET e == TraceLog[l]
  IN IF e.x = 1 THEN ~LineOK(e) \/ (PrintT(<<"TRACE_ACCEPTED_CORRUPT", l>>) /\ FALSE)
                ELSE LineOK(e) \/ (PrintT(<<"TRACE_REJECT", l>>) /\ FALSE)
=============================================================================
