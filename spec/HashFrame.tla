------------------------------ MODULE HashFrame ------------------------------
(* The byte framing that common/hash.go feeds to SHA-512/256, and the hash    *)
(* commitment of crypto/commitments/commitment.go built on it (property C16). *)
(*                                                                            *)
(*   SHA512_256(in ...[]byte)             digest = H( Frame(in) )             *)
(*   SHA512_256i(in ...*big.Int)          digest = H( Frame(IntBytes o in) )  *)
(*   SHA512_256i_TAGGED(tag, in ...)      digest = H( T o T o Frame(..) ),    *)
(*                                        T = SHA512_256(tag) = H(Frame(<<tag>>)) *)
(*   Frame(<<b1..bn>>) = LE64(n) o b1 o '$' o LE64(|b1|) o ... o bn o '$' o LE64(|bn|) *)
(*   (hash.go:32-49, 66-87, 109-136).  All three return nil for n = 0, so the *)
(*   empty tuple has no digest and is outside the domain.                     *)
(*   IntBytes = big.Int.Bytes(): minimal big-endian, 0 |-> empty; the sign is *)
(*   dropped by the code, the domain here is the non-negative integers.       *)
(*   The TAGGED variant reads a nil element as 0 (hash.go:114-116); the       *)
(*   untagged one dereferences it (not modelled: no digest).                  *)
(*                                                                            *)
(* H is not modelled (TLC cannot hash): the statement checked here is that    *)
(* the PRE-IMAGE is an injective function of the input tuple (LeftInverse:    *)
(* Unframe decodes every frame back to its tuple), so that two different      *)
(* tuples can only share a digest through a SHA-512/256 collision.  The       *)
(* harness (harness/props/c16.go) binds this to the code: TLC prints the      *)
(* frame of EVERY tuple of the domain, the harness hashes those bytes with    *)
(* crypto/sha512 and compares with the digest the library returns for the     *)
(* same tuple (conformance), and checks the library digests pairwise          *)
(* distinct (the verdict).                                                    *)
(*                                                                            *)
(* Deliberately broken / reduced framings (VFrame, Variants) exist to show     *)
(* that the domain is discriminating: TLC must find collisions for those that *)
(* are ambiguous ("nolen": no length suffix, "bare": plain concatenation      *)
(* behind the count, "skipempty": empty inputs contribute nothing, "nocount+  *)
(* nolen") and none for those that stay uniquely decodable ("nocount": the    *)
(* length suffixes alone suffice, decoding from the end; "nodelim": the '$'   *)
(* is redundant once the length is there).                                    *)
(* A third class is injective on short strings over single bytes and          *)
(* ambiguous as soon as an input EMBEDS what the framing writes behind an     *)
(* element: the 8-byte field holding the number of elements, a constant, the  *)
(* index, the first length, the total, the length modulo 256 or in one byte   *)
(* instead of the length (EmbedAmbiguous, LongAmbiguous).  For those the      *)
(* domain has SYMBOLS that are whole 9-byte blocks '$' o LE64(k) (BlockVals), *)
(* and HashFrameAdv.tla constructs the colliding pairs.                       *)
(* HashHistory.tla: histories of calls with re-used caller objects.           *)
(*                                                                            *)
(* State machine: t grows by one input per step up to MaxCount inputs, so the *)
(* reachable states are exactly the tuples of the domain; with VIEW FrameView *)
(* TLC's count of distinct states is the number of distinct frames.           *)
EXTENDS Integers, Sequences, FiniteSets, TLC, Json

CONSTANTS
  Alphabet,   \* byte values the inputs are made of, e.g. {0, 36, 1, 8}: zero, the delimiter, and bytes of LE64(1), LE64(8)
  BlockVals,  \* "bytes" only: further SYMBOLS the inputs are made of: for every k in BlockVals the 9-byte block '$' o LE64(k),
              \* i.e. a whole delimiter + length/count field as the framing (or a weakened copy of it) emits it; {} = none
  MaxCount,   \* tuples of 1..MaxCount inputs
  MaxLen,     \* every input has 0..MaxLen bytes
  Kind,       \* "bytes": inputs are byte strings (SHA512_256); "ints": inputs are integers (SHA512_256i, _TAGGED)
  WithNil,    \* "ints" only: the nil pointer is an input too (read as 0 by the TAGGED variant)
  VariantSet, \* the framings under which the tuples are counted (VIEW runs): {"code"} or a set of the framings above
  Emit        \* print one ROW per tuple (table tuple -> frame for the harness)

VARIABLES t,  \* the tuple built so far
          vw  \* the framing it is viewed under (VIEW runs only; constant along a behaviour)

Delim == 36   \* hashInputDelimiter = '$'
Nil   == -1   \* stands for a nil *big.Int

(* ---- encodings ---------------------------------------------------------- *)
(* binary.LittleEndian.PutUint64 for the sizes that occur here (< 2^31)      *)
LE64(n) == << n % 256, (n \div 256) % 256, (n \div 65536) % 256, (n \div 16777216) % 256, 0, 0, 0, 0 >>

RECURSIVE IntBytes(_)           \* big.Int.Bytes(): minimal big-endian, no leading zero, 0 |-> <<>>
IntBytes(n) == IF n = 0 THEN << >> ELSE Append(IntBytes(n \div 256), n % 256)

RECURSIVE BE(_)                 \* new(big.Int).SetBytes
BE(b) == IF b = << >> THEN 0 ELSE 256 * BE(SubSeq(b, 1, Len(b) - 1)) + b[Len(b)]

RECURSIVE Flatten(_)
Flatten(ss) == IF ss = << >> THEN << >> ELSE Head(ss) \o Flatten(Tail(ss))

(* ---- the domain --------------------------------------------------------- *)
(* an input is a string of at most MaxLen SYMBOLS; a symbol is one byte of the alphabet or one whole block.  With   *)
(* BlockVals = {} these are the byte strings of at most MaxLen bytes.  The blocks make the exhaustive domain contain *)
(* elements that EMBED what a framing writes behind an element: a framing whose field behind the delimiter does not  *)
(* determine the element's length (count, index, constant ... instead of the length) is injective on short strings   *)
(* over single bytes and ambiguous here.                                                                             *)
Block(k) == << Delim >> \o LE64(k)
Symbols  == { << a >> : a \in Alphabet } \cup { Block(k) : k \in BlockVals }
Strings  == { Flatten(ss) : ss \in UNION { [1..n -> Symbols] : n \in 0..MaxLen } }
Ints    == { BE(s) : s \in Strings }            \* every integer whose minimal encoding is a string of the domain
Inputs  == IF Kind = "bytes" THEN Strings
           ELSE IF WithNil THEN Ints \cup {Nil} ELSE Ints

(* the bytes an input contributes: ptrs[i] in hash.go                        *)
BytesOf(x) == IF Kind = "bytes" THEN x ELSE IF x = Nil THEN << >> ELSE IntBytes(x)
BytesAll(tt) == [i \in 1..Len(tt) |-> BytesOf(tt[i])]
(* what the tuple is as far as the digest is concerned: nil reads as 0       *)
Canon(tt) == IF Kind = "bytes" THEN tt ELSE [i \in 1..Len(tt) |-> IF tt[i] = Nil THEN 0 ELSE tt[i]]

(* ---- the framing of hash.go --------------------------------------------- *)
FrameElem(b) == b \o << Delim >> \o LE64(Len(b))                         \* hash.go:42-47
Frame(bs)    == LE64(Len(bs)) \o Flatten([i \in 1..Len(bs) |-> FrameElem(bs[i])])   \* hash.go:41-49

(* SHA512_256i_TAGGED: the pre-image is T o T o Frame(ints) with T = SHA512_256(tag), 32 bytes.  A digest is kept  *)
(* symbolic as <<"H", pre-image>>; because T has a fixed length the concatenation is the triple below.            *)
H(pre) == << "H", pre >>
TaggedPre(tag, bs) == << H(Frame(<< tag >>)), H(Frame(<< tag >>)), Frame(bs) >>      \* hash.go:99-104,136

(* ---- its inverse: decoding a frame from the END ------------------------- *)
LEVal(b) == b[1] + 256 * b[2] + 65536 * b[3] + 16777216 * b[4]          \* only called when b[4..8] are small
Bad == << << -1 >> >>
RECURSIVE UnframeBack(_, _)
UnframeBack(b, acc) ==
  IF b = << >> THEN acc
  ELSE LET n == Len(b) IN
       IF n < 9 THEN Bad
       ELSE LET suffix == SubSeq(b, n - 7, n) IN
            IF \E i \in 4..8 : suffix[i] # 0 THEN Bad            \* a length >= 2^24 cannot occur in this domain
            ELSE LET l == LEVal(suffix) IN
                 IF l > n - 9 \/ b[n - 8] # Delim THEN Bad
                 ELSE UnframeBack(SubSeq(b, 1, n - 9 - l), << SubSeq(b, n - 8 - l, n - 9) >> \o acc)
Unframe(f) ==
  IF Len(f) < 8 THEN Bad
  ELSE LET body == UnframeBack(SubSeq(f, 9, Len(f)), << >>) IN
       IF body = Bad \/ LE64(Len(body)) # SubSeq(f, 1, 8) THEN Bad ELSE body

(* ---- reduced / broken framings ------------------------------------------ *)
(* A framing variant is a record: what precedes the elements (pre), whether the delimiter follows an element (del),  *)
(* which FIELD follows the delimiter (trl), and whether empty inputs contribute nothing (skip).  The code is           *)
(* [pre "count", del "$", trl "len"].  The fields are the slips that still compile and keep every test of the library  *)
(* passing: the element's length replaced by                                                                           *)
(*   "none"   nothing                      "count"  the number of elements      "zero"   the constant 0                *)
(*   "index"  the element's index          "first"  the length of element 1     "total"  the sum of all lengths        *)
(*   "mod256" the length modulo 256        "w1"     the length in ONE byte      "w2"     the length in two bytes       *)
RECURSIVE SumLen(_)
SumLen(bs) == IF bs = << >> THEN 0 ELSE Len(Head(bs)) + SumLen(Tail(bs))
Field(v, bs, i) ==
  CASE v.trl = "len"    -> LE64(Len(bs[i]))
    [] v.trl = "none"   -> << >>
    [] v.trl = "count"  -> LE64(Len(bs))
    [] v.trl = "zero"   -> LE64(0)
    [] v.trl = "index"  -> LE64(i - 1)
    [] v.trl = "first"  -> LE64(Len(bs[1]))
    [] v.trl = "total"  -> LE64(SumLen(bs))
    [] v.trl = "mod256" -> LE64(Len(bs[i]) % 256)
    [] v.trl = "w1"     -> SubSeq(LE64(Len(bs[i])), 1, 1)
    [] v.trl = "w2"     -> SubSeq(LE64(Len(bs[i])), 1, 2)
(* what the framing writes behind element i of the tuple bs *)
Sfx(v, bs, i) == (IF v.del = "$" THEN << Delim >> ELSE << >>) \o Field(v, bs, i)
VElemAt(v, bs, i) == IF v.skip /\ bs[i] = << >> THEN << >> ELSE bs[i] \o Sfx(v, bs, i)
VFrameR(v, bs) ==
  (IF v.pre = "count" THEN LE64(Len(bs)) ELSE << >>) \o Flatten([i \in 1..Len(bs) |-> VElemAt(v, bs, i)])

Trls == {"len", "none", "count", "zero", "index", "first", "total", "mod256", "w1", "w2"}
AllVariantRecs == [pre : {"count", "none"}, del : {"$", "none"}, trl : Trls, skip : BOOLEAN]
VR(pre, del, trl) == [pre |-> pre, del |-> del, trl |-> trl, skip |-> FALSE]
VName(v) == v.pre \o "/" \o v.del \o "/" \o v.trl \o (IF v.skip THEN "/skipempty" ELSE "")
(* the seven framings of the first version of this specification keep their names *)
Named == [ code |-> VR("count", "$", "len"), nocount |-> VR("none", "$", "len"), nolen |-> VR("count", "$", "none"),
           nodelim |-> VR("count", "none", "len"), bare |-> VR("count", "none", "none") ]
         @@ ("nocount+nolen" :> VR("none", "$", "none"))
         @@ ("skipempty" :> [VR("count", "$", "len") EXCEPT !.skip = TRUE])
VOf(name) == IF name \in DOMAIN Named THEN Named[name] ELSE CHOOSE v \in AllVariantRecs : VName(v) = name
VFrame(name, bs) == VFrameR(VOf(name), bs)
Variants  == DOMAIN Named \cup { VName(v) : v \in AllVariantRecs }
Ambiguous == {"nolen", "nocount+nolen", "bare", "skipempty"}   \* collide on short strings over single bytes; "code", "nocount", "nodelim" never
(* injective as long as no input embeds a whole field, ambiguous as soon as one does (EmbedPairs below, and the      *)
(* exhaustive domain with blocks): the length field of the code replaced by something that does not fix the length   *)
EmbedAmbiguous == { VName(VR("count", "$", f)) : f \in {"count", "zero", "index", "first", "total"} }
LongAmbiguous  == { VName(VR("count", "$", f)) : f \in {"mod256", "w1"} }      \* ambiguous from inputs of 256 bytes on

ASSUME VariantSet \subseteq Variants /\ VariantSet # {}
ASSUME Kind \in {"bytes", "ints"} /\ WithNil \in BOOLEAN /\ Emit \in BOOLEAN
ASSUME \A a \in Alphabet : a \in 0..255
ASSUME \A v \in {0, 1, 3, 8, 36, 255, 256, 65535, 65536, 16777215, 16777216, 2147483647} :
         LEVal(LE64(v)) = v /\ BE(IntBytes(v)) = v
ASSUME \A bs \in {<< << >> >>, << <<1>>, <<2, 3>> >>} : VFrame("code", bs) = Frame(bs) /\ VFrame("count/$/len", bs) = Frame(bs)
ASSUME Kind = "ints" => BlockVals = {}        \* integers with 9-byte encodings are beyond TLC's 32 bits: the harness maps block strings to integers itself
(* the example of the audit: bytes moved across an element boundary *)
ASSUME VFrame("nolen", << <<1, Delim>>, <<8>> >>) = VFrame("nolen", << <<1>>, <<Delim, 8>> >>)
ASSUME Frame(<< <<1, Delim>>, <<8>> >>) # Frame(<< <<1>>, <<Delim, 8>> >>)

(* ---- state machine ------------------------------------------------------ *)
Init == t = << >> /\ vw \in VariantSet
Next == Len(t) < MaxCount /\ \E x \in Inputs : t' = Append(t, x) /\ UNCHANGED vw
Spec == Init /\ [][Next]_<<t, vw>>

(* VIEW: distinct states = distinct (framing, frame) pairs, i.e. per framing the number of distinct frames (+1 for  *)
(* the empty root).  For a set of injective framings that is Cardinality(VariantSet) * (number of tuples + 1).      *)
VRec == TLCEval([n \in VariantSet |-> VOf(n)])
FrameView == << vw, VFrameR(VRec[vw], BytesAll(t)) >>

TypeOK == t \in Seq(Inputs) /\ Len(t) <= MaxCount

(* the framing is injective: a left inverse exists (nil decodes as the 0 it was read as) *)
DecodeBack(bs) == IF Kind = "bytes" THEN bs ELSE [i \in 1..Len(bs) |-> BE(bs[i])]
LeftInverseOf(f) == LET u == Unframe(f) IN u # Bad /\ DecodeBack(u) = Canon(t)
LeftInverse == Len(t) > 0 => LeftInverseOf(Frame(BytesAll(t)))

(* integers enter through their minimal encoding, which is itself injective on the non-negative integers *)
IntBytesInjective ==
  Kind = "ints" => \A i \in 1..Len(t) : t[i] # Nil =>
     /\ BE(IntBytes(t[i])) = t[i]
     /\ (t[i] # 0 => IntBytes(t[i])[1] # 0)

(* the tagged pre-image determines (tag, tuple).  The tag part does not depend on the tuple: it is checked once  *)
(* for every tag that is a string of the domain (ASSUME below), and per tuple with one tag.                       *)
UnTag(p) == IF p[1] # p[2] \/ p[1][1] # "H" THEN << Bad, Bad >>
            ELSE << Unframe(p[1][2]), Unframe(p[3]) >>
TagOf(tt) == BytesOf(tt[1])       \* the tag tried with a tuple: the bytes of its first input (so every string occurs as a tag)
TaggedInjectiveOf(f) ==
  LET tag == TagOf(t)
      u == UnTag(<< H(Frame(<< tag >>)), H(Frame(<< tag >>)), f >>) IN
    u[1] = << tag >> /\ u[2] # Bad /\ DecodeBack(u[2]) = Canon(t)
TaggedInjective ==
  (Kind = "ints" /\ Len(t) > 0) =>
    /\ TaggedPre(TagOf(t), BytesAll(t))[3] = Frame(BytesAll(t))
    /\ TaggedInjectiveOf(Frame(BytesAll(t)))
ASSUME \A tag \in Strings : Unframe(Frame(<< tag >>)) = << tag >>

(* ---- the hash commitment (commitment.go:33-72) with the ideal hash H ---- *)
(* NewHashCommitmentWithRandomness(r, secrets...) : D = <<r>> o secrets, C = SHA512_256i(D...)                      *)
(* Verify(): C, D non-nil and SHA512_256i(D...) = C.  D = <<>> makes SHA512_256i return nil (no digest).            *)
Commit(d)     == [C |-> H(Frame(BytesAll(d))), D |-> d]
Verify(c, d)  == d # << >> /\ H(Frame(BytesAll(d))) = c
DeCommit(c, d) == IF Verify(c, d) THEN << TRUE, Tail(d) >> ELSE << FALSE, << >> >>

(* the single edits of a decommitment d: change / insert / remove one element, split one element's bytes into two  *)
(* elements, merge two neighbours' bytes into one element; all expressed on integers                                *)
SplitsOf(x) == LET b == IntBytes(x) IN { << BE(SubSeq(b, 1, k)), BE(SubSeq(b, k + 1, Len(b))) >> : k \in 0..Len(b) }
Edits(d) ==
  LET n == Len(d) IN
     { [kind |-> "change", at |-> i, d |-> [d EXCEPT ![i] = x]] : i \in 1..n, x \in Ints }
  \cup { [kind |-> "insert", at |-> i, d |-> SubSeq(d, 1, i - 1) \o << x >> \o SubSeq(d, i, n)] : i \in 1..(n + 1), x \in Ints }
  \cup { [kind |-> "remove", at |-> i, d |-> SubSeq(d, 1, i - 1) \o SubSeq(d, i + 1, n)] : i \in 1..n }
  \cup UNION { { [kind |-> "split", at |-> i, d |-> SubSeq(d, 1, i - 1) \o s \o SubSeq(d, i + 1, n)] : s \in SplitsOf(d[i]) } : i \in 1..n }
  \cup { [kind |-> "merge", at |-> i, d |-> SubSeq(d, 1, i - 1) \o << BE(IntBytes(d[i]) \o IntBytes(d[i + 1])) >> \o SubSeq(d, i + 2, n)] : i \in 1..(n - 1) }
RealEdits(d) == { e \in Edits(d) : e.d # d }

(* merged neighbours must stay below 2^31 (TLC integers): two inputs of at most two bytes < 128 *)
EditRows(d) ==
  LET c == Commit(d) IN
    { [kind |-> e.kind, at |-> e.at, d |-> e.d, opens |-> Verify(c.C, e.d)] : e \in RealEdits(d) }

(* a commitment opens with the committed sequence and with nothing a single edit away from it;            *)
(* with Emit the catalogue of edits and predicted verdicts is printed for the harness                    *)
CommitBinds ==
  (Kind = "ints" /\ ~WithNil /\ Len(t) > 0) =>
    LET c == Commit(t)
        rows == EditRows(t) IN
      /\ MaxLen <= 2 /\ \A a \in Alphabet : a < 128
      /\ Verify(c.C, c.D) /\ DeCommit(c.C, c.D) = << TRUE, Tail(t) >>
      /\ \A r \in rows : ~r.opens
      /\ Emit => PrintT(<< "EDITS", ToJson([d |-> t, e |-> rows]) >>)

(* ---- output for the harness --------------------------------------------- *)
(* one row per tuple: the tuple and its frame                                *)
EmitRow ==
  (Emit /\ Len(t) > 0) => PrintT(<< "ROW", ToJson([t |-> t, f |-> Frame(BytesAll(t))]) >>)
(* the same three statements with the frame computed once per tuple (what the harness runs on the full domain)   *)
FrameRow ==
  Len(t) > 0 =>
    LET f == Frame(BytesAll(t)) IN
      /\ LeftInverseOf(f)
      /\ Kind = "ints" => TaggedInjectiveOf(f)
      /\ Emit => PrintT(<< "ROW", ToJson([t |-> t, f |-> f]) >>)

(* collision witness for an ambiguous variant on the sub-domain of at most two inputs of at most two bytes         *)
SmallStrings == UNION { [1..n -> Alphabet] : n \in 0..2 }
SmallTuples  == { << a >> : a \in SmallStrings } \cup { << a, b >> : a \in SmallStrings, b \in SmallStrings }
(* (the frames are computed once per tuple; a witness is a pair of different tuples with the same frame)            *)
Witnesses(v) == LET F == [tt \in SmallTuples |-> VFrame(v, tt)] IN
                  { p \in SmallTuples \X SmallTuples : p[1] # p[2] /\ F[p[1]] = F[p[2]] }
Witness(v)   == LET F == [tt \in SmallTuples |-> VFrame(v, tt)] IN
                  CHOOSE p \in SmallTuples \X SmallTuples : p[1] # p[2] /\ F[p[1]] = F[p[2]]
(* the harness evaluates, in a wrapper module:                                                                      *)
(*   ASSUME \A v \in Ambiguous : PrintT(<<"WITNESS", v, ToJson(Witness(v))>>)                                        *)
(*   ASSUME \A v \in Variants \ Ambiguous : Witnesses(v) = {}                                                       *)

(* The adversarial pairs (inputs that embed what a framing writes behind an element) and the probe tuples by which   *)
(* the harness identifies the framing a real function follows are in HashFrameAdv.tla.                               *)
=============================================================================
