---------------------------- MODULE HashFrameAdv ----------------------------
(* Adversarial tuples for the framings of HashFrame.tla (property C16).       *)
(*                                                                            *)
(* The exhaustive domain of short strings over single bytes cannot tell the   *)
(* framing of the code from a framing whose 8-byte field behind the delimiter *)
(* holds something that does not fix the element's length (the number of      *)
(* elements, a constant, the index, the length modulo 256 ...): such a        *)
(* framing is injective until an input EMBEDS a whole delimiter + field as    *)
(* the framing itself writes it.  This module constructs, for every such      *)
(* weakening, the tuples that do (EmbedPairs), decides under which variants   *)
(* each pair collides (CollidesUnder), shows that the framing of the code     *)
(* separates every pair (CodeSeparates: the left inverse gives both members   *)
(* back), and gives the frames of a few probe tuples under EVERY variant, by  *)
(* which the harness identifies the framing a real function follows           *)
(* (conformance at the byte level: sha512/256(VFrame(v, probe)) = digest).    *)
(* The harness presents every pair to the three real hash functions and to    *)
(* the commitment (as a second sequence and as a re-grouped opening).         *)
(* (A separate module because TLC evaluates parameterless constant            *)
(* definitions at start-up of every run that loads them.)                     *)
EXTENDS HashFrame

(* ---- adversarial pairs: inputs that embed what the framing writes ------- *)
(* For a variant v, a tuple bs, a position i < Len(bs) and a filler X, move the element boundary across a copy of    *)
(* the suffix that v itself writes there:                                                                            *)
(*     t1 = (.., a, X o S2 o Y, ..)      t2 = (.., a o S1 o X, Y, ..)      S1, S2 = the suffixes v writes behind the   *)
(* element at position i in t1 resp. t2.  Under v the two tuples have the same pre-image as soon as the suffix       *)
(* behind position i+1 is the same in both, i.e. as soon as the field does not pin down the element's length (count, *)
(* zero, index, total; mod256 / w1 for a filler that makes the lengths differ by 256).  A suffix depends on lengths  *)
(* and positions only, so it is computed on a tuple with a placeholder of the right width.                           *)
Repl2(bs, i, a, b) == [bs EXCEPT ![i] = a, ![i + 1] = b]
Regroup(v, bs, i, X) ==
  LET a  == bs[i]
      Y  == bs[i + 1]
      z  == [k \in 1..Len(Sfx(v, bs, i)) |-> 0]
      A  == a \o Sfx(v, Repl2(bs, i, a, X \o z \o Y), i) \o X
      t2 == Repl2(bs, i, A, Y)
      t1 == Repl2(bs, i, a, X \o Sfx(v, t2, i) \o Y)
  IN << t1, t2 >>
(* different count: two neighbours merged into one input, glued by the suffix v writes between them *)
Merge(v, bs, i) ==
  << bs, SubSeq(bs, 1, i - 1) \o << bs[i] \o Sfx(v, bs, i) \o bs[i + 1] >> \o SubSeq(bs, i + 2, Len(bs)) >>
Filler(l) == [k \in 1..l |-> 5]
(* the long fillers make the lengths of the two elements differ by exactly 256 (9-byte resp. 2-byte suffix)          *)
FillerLens(v) == {0, 1} \cup (IF v.trl = "mod256" THEN {256 - Len(Sfx(v, << << >> >>, 1))} ELSE { })
                        \cup (IF v.trl = "w1" THEN {256 - Len(Sfx(v, << << >> >>, 1))} ELSE { })
Bases      == { << <<1>>, <<2, 3>> >>, << <<2, 3>>, <<1>> >>, << <<1>>, <<2, 3>>, <<1>> >>, << <<7>>, <<1>>, <<2, 3>> >> }
(* the constructions need only (del, trl) *)
SfxKinds   == { VR("count", d, f) : d \in {"$", "none"}, f \in Trls }
EmbedPairs ==
  LET all == UNION { UNION { { Regroup(v, bs, i, Filler(l)) : l \in FillerLens(v) } \cup { Merge(v, bs, i) }
                             : i \in 1..(Len(bs) - 1) } : v \in SfxKinds, bs \in Bases }
  IN TLCEval({ p \in all : p[1] # p[2] })
(* the variants the pairs are judged under: every (pre, del, trl); skipping empty inputs makes no difference here *)
JudgedVariants == TLCEval({ v \in AllVariantRecs : ~v.skip })
CollidesUnder(p) == { VName(v) : v \in { w \in JudgedVariants : VFrameR(w, p[1]) = VFrameR(w, p[2]) } }
(* the framing of the code separates every pair: both members decode back to themselves *)
CodeSeparates(p) == /\ Frame(p[1]) # Frame(p[2])
                    /\ Unframe(Frame(p[1])) = p[1] /\ Unframe(Frame(p[2])) = p[2]
(* probe tuples on which any two variants differ: the harness identifies the                                          *)
(* framing a real function follows by comparing its digests with the digests of these frames                         *)
Probes == << << << >> >>, << <<1>> >>, << <<1>>, << >>, <<2, 3>> >>, << <<2, 3>>, <<1>>, <<7, 7, 7>> >>,
             << Filler(256 + 3), <<1>> >>, << <<4>>, Filler(2 * 256 + 1) >> >>
ProbeVariants == { v \in AllVariantRecs : ~(v.skip /\ v.del = "none" /\ v.trl = "none") }    \* (skipping is invisible when nothing is written)
ProbeFrames == TLCEval([v \in ProbeVariants |-> [k \in 1..Len(Probes) |-> VFrameR(v, Probes[k])]])
ProbesDiscriminate ==
  \A v \in ProbeVariants, w \in ProbeVariants :
     v # w => ProbeFrames[v] # ProbeFrames[w]
(* the harness evaluates, in a wrapper module:                                                                      *)
(*   ASSUME \A p \in EmbedPairs : CodeSeparates(p) /\ PrintT(<<"PAIR", ToJson([a |-> p[1], b |-> p[2], by |-> CollidesUnder(p)])>>) *)
(*   ASSUME \A v \in EmbedAmbiguous \cup LongAmbiguous : \E p \in EmbedPairs : v \in CollidesUnder(p)                *)
(*   ASSUME \A p \in EmbedPairs : CollidesUnder(p) \cap {"code", ...} = {}    (by CodeSeparates)                     *)
(*   ASSUME ProbesDiscriminate /\ \A v \in ProbeVariants : PrintT(<<"PROBE", VName(v), ToJson(ProbeFrames[v])>>) *)
=============================================================================
