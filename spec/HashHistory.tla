---------------------------- MODULE HashHistory ----------------------------
(* HISTORIES of calls of the hash functions of common/hash.go in ONE process, *)
(* with the caller re-using its buffers (property C16: "the library's multi-  *)
(* input hash functions map different input sequences (different count,       *)
(* different split points, different bytes, different tag) to different       *)
(* digests").                                                                 *)
(*                                                                            *)
(* HashFrame.tla speaks about single calls.  A function that keeps anything   *)
(* between calls (a memo of the last tag digest, of the last input, of the    *)
(* last result) is still correct on every single fresh call and wrong on a    *)
(* history in which the caller rewrites, IN PLACE, an object the function kept *)
(* a reference to: the natural per-party loop                                  *)
(*     ctx[len(ssid)] = byte(j); SHA512_256i_TAGGED(ctx, ...)                 *)
(* The caller owns a pool of objects that it re-uses from call to call:       *)
(*     one tag buffer, byte buffers b[1..2], big.Int objects q[1..2],         *)
(* A call [c, fresh, scrib] first writes the contents c.tag / c.ins into the  *)
(* pool objects in place (fresh = TRUE: into newly allocated objects instead),*)
(* calls the function, and with scrib = TRUE afterwards overwrites the object *)
(* the function returned (callers do: `e.Mod(e, q)`).                         *)
(*                                                                            *)
(* Design names what the library keeps between calls:                         *)
(*   "pure"                nothing: the code.  digest = H(pre-image of the    *)
(*                         contents at the time of the call)                  *)
(*   "tag-by-reference"    digest of the last tag, keyed by the caller's      *)
(*                         slice (not a copy), looked up by content           *)
(*   "input-by-reference"  digest of the last input tuple of SHA512_256 /     *)
(*                         SHA512_256i, keyed by the caller's objects         *)
(*   "result-shared"       the last result, keyed by a copy of the contents,  *)
(*                         handed out again as the same object                *)
(*   "result-buffer"       every digest of a function is written into one     *)
(*                         buffer of the library, which is what is returned   *)
(* HistFunctional (every digest is the digest of the contents at call time)   *)
(* and HistInjective (calls of one function with different contents give      *)
(* different digests) and HistHeld (a digest the caller still holds, and did   *)
(* not overwrite itself, is at the end of the history what it was when it was *)
(* returned) hold for "pure" on every history; for each of the other          *)
(* designs TLC finds a history of two calls that violates them (Witness2,     *)
(* evaluated by the harness as a self-test).  Every maximal history is        *)
(* printed and replayed on the real functions with really re-used objects;    *)
(* the table of the pre-images of all calls (CALL rows) is the reference.     *)
EXTENDS HashFrame

CONSTANTS
  Design,        \* see above
  HProfiles      \* set of records [bv, iv, tv: the byte strings / integers / tags used, arity: numbers of inputs (subset of
                 \* {1, 2}), max: calls per history, flags: whether calls with fresh objects / a scribbled result occur]

VARIABLE hh      \* [prof, calls: sequence of [c, fresh, scrib], digs: sequence of [dig, obj], lib: [pool, memo]]

(* ---- the calls ----------------------------------------------------------- *)
Call(fn, tag, ins) == [fn |-> fn, tag |-> tag, ins |-> ins]
Ins(vals, ar) ==    (IF 1 \in ar THEN { << v >> : v \in vals } ELSE { })
               \cup (IF 2 \in ar THEN { << v, w >> : v \in vals, w \in vals } ELSE { })
CallsOf(p) ==    { Call("B", << >>, i) : i \in Ins(p.bv, p.arity) }
            \cup { Call("I", << >>, i) : i \in Ins(p.iv, p.arity) }
            \cup { Call("T", tg, i) : tg \in p.tv, i \in Ins(p.iv, p.arity) }
StepsOf(p) == { [c |-> c, fresh |-> f, scrib |-> s] : c \in CallsOf(p),
                f \in (IF p.flags THEN BOOLEAN ELSE {FALSE}), s \in (IF p.flags THEN BOOLEAN ELSE {FALSE}) }

(* the pre-image of a call: what is fed to SHA-512/256 (hash.go:23-57, 59-95, 98-144) *)
InBytes(c) == IF c.fn = "B" THEN c.ins ELSE [i \in 1..Len(c.ins) |-> IntBytes(c.ins[i])]
PreOf(c, tagUsed) == IF c.fn = "T" THEN << H(Frame(<< tagUsed >>)), H(Frame(<< tagUsed >>)), Frame(InBytes(c)) >>
                     ELSE << Frame(InBytes(c)) >>
Pure(c) == H(PreOf(c, c.tag))

(* ---- the library with what it keeps between calls ------------------------ *)
NoMemo == [set |-> FALSE, ref |-> "none", fn |-> "", tag |-> << >>, ins |-> << >>, dig |-> << >>, scribbled |-> FALSE]
Lib0 == [pool |-> [tag |-> << >>, b |-> << << >>, << >> >>, q |-> << 0, 0 >>], memo |-> NoMemo]
(* the caller writes the contents of the call into its pool objects, in place *)
WritePool(pool, c) ==
  LET n == Len(c.ins) IN
  [tag |-> IF c.fn = "T" THEN c.tag ELSE pool.tag,
   b   |-> IF c.fn = "B" THEN [k \in 1..2 |-> IF k <= n THEN c.ins[k] ELSE pool.b[k]] ELSE pool.b,
   q   |-> IF c.fn # "B" THEN [k \in 1..2 |-> IF k <= n THEN c.ins[k] ELSE pool.q[k]] ELSE pool.q]
(* what the pool objects at the positions of a call of function fn with n inputs hold now *)
PoolIns(pool, fn, n) == IF fn = "B" THEN SubSeq(pool.b, 1, n) ELSE SubSeq(pool.q, 1, n)

(* a step returns the digest and the identity of the OBJECT that holds it: << "new", k >> is an object made for call k *)
LibStep(design, lib, st, k) ==
  LET c    == st.c
      new  == << "new", k >>
      pool == IF st.fresh THEN lib.pool ELSE WritePool(lib.pool, c)
      ref  == IF st.fresh THEN "fresh" ELSE "pool"
      m    == lib.memo
  IN
  CASE design = "pure" -> [lib |-> [pool |-> pool, memo |-> m], dig |-> Pure(c), obj |-> new]
    [] design = "result-buffer" -> [lib |-> [pool |-> pool, memo |-> m], dig |-> Pure(c), obj |-> << "buffer", c.fn >>]
    [] design = "tag-by-reference" ->
         IF c.fn # "T" THEN [lib |-> [pool |-> pool, memo |-> m], dig |-> Pure(c), obj |-> new]
         ELSE LET now == IF m.ref = "pool" THEN pool.tag ELSE m.tag       \* what the slice that was kept holds NOW
                  hit == m.set /\ now = c.tag                             \* bytes.Equal(kept slice, tag)
              IN IF hit THEN [lib |-> [pool |-> pool, memo |-> m], dig |-> H(PreOf(c, m.tag)), obj |-> new]
                 ELSE [lib |-> [pool |-> pool, memo |-> [m EXCEPT !.set = TRUE, !.ref = ref, !.tag = c.tag]], dig |-> Pure(c), obj |-> new]
    [] design = "input-by-reference" ->
         IF c.fn = "T" THEN [lib |-> [pool |-> pool, memo |-> m], dig |-> Pure(c), obj |-> new]
         ELSE LET now == IF m.ref = "pool" THEN PoolIns(pool, m.fn, Len(m.ins)) ELSE m.ins
                  hit == m.set /\ m.fn = c.fn /\ Len(m.ins) = Len(c.ins) /\ now = c.ins
              IN IF hit THEN [lib |-> [pool |-> pool, memo |-> m], dig |-> m.dig, obj |-> new]
                 ELSE [lib |-> [pool |-> pool, memo |-> [m EXCEPT !.set = TRUE, !.ref = ref, !.fn = c.fn, !.ins = c.ins, !.dig = Pure(c)]],
                       dig |-> Pure(c), obj |-> new]
    [] design = "result-shared" ->
         LET hit == m.set /\ m.fn = c.fn /\ m.tag = c.tag /\ m.ins = c.ins
             d   == IF hit /\ m.scribbled THEN << "SCRIBBLED" >> ELSE Pure(c)
             m2  == IF hit THEN m ELSE [m EXCEPT !.set = TRUE, !.fn = c.fn, !.tag = c.tag, !.ins = c.ins, !.scribbled = FALSE, !.dig = new]
         IN [lib |-> [pool |-> pool, memo |-> [m2 EXCEPT !.scribbled = @ \/ st.scrib]], dig |-> d, obj |-> m2.dig]

RECURSIVE RunH(_, _, _, _)
RunH(design, lib, steps, acc) ==
  IF steps = << >> THEN acc
  ELSE LET r == LibStep(design, lib, Head(steps), Len(acc) + 1) IN
         RunH(design, r.lib, Tail(steps), Append(acc, [dig |-> r.dig, obj |-> r.obj]))
Digests(design, steps) == RunH(design, Lib0, steps, << >>)

(* ---- what the property says about a history ------------------------------ *)
(* digs[k] = [dig: what call k returned, obj: the object that holds it] *)
Functional(steps, digs) == \A k \in 1..Len(steps) : digs[k].dig = Pure(steps[k].c)
Injective(steps, digs) ==
  \A j \in 1..Len(steps), k \in 1..Len(steps) :
     (steps[j].c.fn = steps[k].c.fn /\ steps[j].c # steps[k].c) => digs[j].dig # digs[k].dig
(* what the object returned by call k holds at the end: the latest digest written into it, or the caller's scribble *)
EndValue(steps, digs, k) ==
  LET j == CHOOSE i \in k..Len(steps) : digs[i].obj = digs[k].obj /\ \A l \in (i + 1)..Len(steps) : digs[l].obj # digs[k].obj
  IN IF steps[j].scrib THEN << "SCRIBBLED" >> ELSE digs[j].dig
(* the digests the caller holds stay what they were (unless the caller itself overwrote that very result) *)
Held(steps, digs) == \A k \in 1..Len(steps) : ~steps[k].scrib => EndValue(steps, digs, k) = digs[k].dig
(* the pre-image is an injective function of the contents: the left inverse of HashFrame.tla gives them back *)
Decodes(c) ==
  LET u == Unframe(Frame(InBytes(c))) IN
    /\ u # Bad /\ u = InBytes(c)
    /\ c.fn = "T" => Unframe(Frame(<< c.tag >>)) = << c.tag >>
    /\ c.fn # "B" => \A i \in 1..Len(c.ins) : BE(IntBytes(c.ins[i])) = c.ins[i]

HistFunctional == Functional(hh.calls, hh.digs)
HistHeld       == Held(hh.calls, hh.digs)
HistInjective  == Injective(hh.calls, hh.digs) /\ \A k \in 1..Len(hh.calls) : Decodes(hh.calls[k].c)

(* a history of two calls on which a design that keeps something is told from the code *)
WitnessProfile == [bv |-> {<< 1 >>, << 2 >>}, iv |-> {1, 2}, tv |-> {<< 1 >>, << 2 >>}, arity |-> {1}, max |-> 2, flags |-> TRUE]
Witness2(design) ==
  LET S == StepsOf(WitnessProfile) IN
  CHOOSE h \in { << a, b >> : a \in S, b \in S } :
    LET d == TLCEval(Digests(design, h)) IN ~(Functional(h, d) /\ Injective(h, d) /\ Held(h, d))

(* ---- state machine: the histories ---------------------------------------- *)
HInit == /\ t = << >> /\ vw \in VariantSet
         /\ hh \in { [prof |-> p, calls |-> << >>, digs |-> << >>, lib |-> Lib0] : p \in HProfiles }
HNext == /\ UNCHANGED << t, vw >>
         /\ Len(hh.calls) < hh.prof.max
         /\ \E st \in StepsOf(hh.prof) :
              LET r == LibStep(Design, hh.lib, st, Len(hh.calls) + 1) IN
                hh' = [hh EXCEPT !.calls = Append(@, st), !.digs = Append(@, [dig |-> r.dig, obj |-> r.obj]), !.lib = r.lib]
HSpec == HInit /\ [][HNext]_<< t, vw, hh >>

(* output for the harness: the pre-image of every call (once), and every maximal history *)
EmitHist ==
  (Len(hh.calls) = hh.prof.max) =>
    PrintT(<< "HHIST", ToJson([pk |-> ToString(hh.prof), calls |-> [k \in 1..Len(hh.calls) |->
        [fn |-> hh.calls[k].c.fn, tag |-> hh.calls[k].c.tag, ins |-> hh.calls[k].c.ins,
         fresh |-> hh.calls[k].fresh, scrib |-> hh.calls[k].scrib]]]) >>)
(* the harness evaluates, in a wrapper module:                                                                       *)
(*   ASSUME \A p \in HProfiles : \A c \in CallsOf(p) : PrintT(<<"CALL", ToJson([fn |-> c.fn, tag |-> c.tag, ins |-> c.ins, *)
(*                                   f |-> Frame(InBytes(c)), tf |-> Frame(<<c.tag>>)])>>)                           *)
(*   ASSUME \A d \in StatefulDesigns : PrintT(<<"HWITNESS", d, ToJson(Witness2(d))>>)                               *)
StatefulDesigns == {"tag-by-reference", "input-by-reference", "result-shared", "result-buffer"}
ASSUME Design \in {"pure"} \cup StatefulDesigns
=============================================================================
