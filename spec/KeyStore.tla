------------------------------ MODULE KeyStore ------------------------------
(* C20 - key material survives storage and repeated use unchanged; nonces are  *)
(* fresh.                                                                      *)
(*                                                                             *)
(* What is modelled.  Long-lived key data (keygen.LocalPartySaveData of both   *)
(* curves) is a struct of POINTERS (to big.Int, to crypto.ECPoint, slices of  *)
(* them).  It is handed to every signing session BY VALUE, i.e. the struct is  *)
(* copied and every pointer and every slice backing array is shared with the   *)
(* caller.  The model therefore has an explicit heap:                          *)
(*                                                                             *)
(*   heap     sequence of cells; a cell is a value (a big.Int / a point) or an *)
(*            array of addresses (the backing array of a slice)                *)
(*   mem[p]   the struct party p's caller holds: a record of addresses         *)
(*   stored[p] what was written at the last serialisation (a tree of values =  *)
(*            the canonical JSON)                                              *)
(*   nonces   the R values of all completed sessions                           *)
(*                                                                             *)
(* and one operator per function of the code that touches key data:            *)
(*   Marshal / Unmarshal     encoding/json on LocalPartySaveData (ECPoint      *)
(*                           (Un)MarshalJSON): a reload builds a FRESH struct  *)
(*   BuildSubset             keygen.BuildLocalSaveDataSubset: fresh slices,    *)
(*                           shared elements, re-indexed by share id           *)
(*   Prepare                 signing round1.prepare: the derivation offset is  *)
(*                           added into a FRESH big.Int that replaces the      *)
(*                           pointer in the party's PRIVATE struct copy;       *)
(*                           w_i / bigWs go to temp, never into the key        *)
(*   AdjustOne               one iteration of UpdatePublicKeyAndAdjustBigXj:   *)
(*                           overwrites the ELEMENTS of its argument's BigXj   *)
(*                           slice and its ECDSAPub field (documented to       *)
(*                           rewrite its argument; the caller passes a copy)   *)
(*   Session                 caller copy -> adjust -> NewLocalParty[WithKDD]   *)
(*                           -> Start/prepare -> rounds, per signer            *)
(* Values are abstract: <<"xi", p, d>> is party p's share of the key with      *)
(* accumulated derivation offset d, <<"X", p, d>> its public share point,      *)
(* <<"Y", 0, d>> the group key, <<"id", p, 0>> the share id; a signature is    *)
(* valid under key d iff every signer's effective data is the sorted signer    *)
(* set's ids and points with offset d and its own share with offset d.         *)
(* R of a completed session is a fresh token (the nonce shares come from       *)
(* params.Rand(), by default crypto/rand).                                     *)
(*                                                                             *)
(* Variants.  variant = "code" is the code as read.  The others re-introduce   *)
(* one realistic defect each (or one documented caller misuse) so that TLC     *)
(* demonstrably finds the violation the invariants are there for:              *)
(*   "inplace"  prepare adds the offset INTO the big.Int of the struct it was  *)
(*              handed (the caller's adjusted copy)                            *)
(*   "arrays"   BuildLocalSaveDataSubset re-indexes inside the caller's slices *)
(*   "shallow"  the caller hands UpdatePublicKeyAndAdjustBigXj a struct copy   *)
(*              (shared backing arrays) instead of a deep copy  [misuse]       *)
(*   "derived"  nonce shares are a function of (key, signers, message)         *)
(*   "seeded"   the caller installs the same deterministic reader twice        *)
(*              [misuse; enables the Seeded operation]                         *)
(*                                                                             *)
(* Named deviations from the code: parties are numbered in the order of their  *)
(* share ids (the order of Ks in the saved data), so sorting a signer list is  *)
(* sorting numbers; NTildej, H1j, H2j, PaillierPKs are one array "aux" and     *)
(* all pre-parameters one cell "pre" (EdDSA has neither; harmless); the        *)
(* per-signer steps of a session are composed signer after signer (the real    *)
(* parties interleave, but no two parties' key data share memory); the rounds  *)
(* after prepare only read key data and are not modelled step by step; a       *)
(* session that does not complete publishes no R.                              *)

EXTENDS Integers, Sequences, FiniteSets, TLC, Json

CONSTANTS
  N,          \* saved parties 1..N
  T,          \* threshold: T+1 signers are needed
  Msgs,       \* message values
  Paths,      \* derivation offsets (positive integers); {} = no derivation (EdDSA)
  Listings,   \* signer lists as a caller may write them down: sequences of distinct parties, any order
  Hows,       \* ways a session aborts: subset of {"silence", "tamper", "refuse_few", "refuse_digest"}
  MaxOps,     \* length of the histories
  Variants,   \* {"code"} or the set of variants to explore
  Record,     \* keep the history (behaviour generation / trace validation)
  TwoPhase    \* pick the kind of operation first (spreads -simulate evenly over the kinds)

VARIABLES heap, mem, stored, nonces, tok, nops, last, hist, pend, variant

vars == <<heap, mem, stored, nonces, tok, nops, last, hist, pend, variant>>

Parties == 1..N

-----------------------------------------------------------------------------
(* heap cells and the (de)serialisation of key data                           *)

(* TLC NOTE.  [j \in 1..n |-> e] is a lazy function in TLC: e is re-evaluated at every application.    *)
(* Eager(f) turns it into an explicit tuple once.                                                     *)
Eager(f)   == f \o <<>>
ValCell(v) == [v |-> v, s |-> <<>>]
ArrCell(s) == [v |-> <<"arr", 0, 0>>, s |-> Eager(s)]

(* the canonical serialisation of party p's key data as key generation wrote it *)
Bytes(p) ==
  [xi   |-> <<"xi", p, 0>>, sid |-> <<"id", p, 0>>, pre |-> <<"pre", p, 0>>, pub |-> <<"Y", 0, 0>>,
   ks   |-> [j \in 1..N |-> <<"id", j, 0>>],
   bigx |-> [j \in 1..N |-> <<"X", j, 0>>],
   aux  |-> [j \in 1..N |-> <<"aux", j, 0>>]]

Vals(h, a) == Eager([j \in 1..Len(h[a].s) |-> h[h[a].s[j]].v])

(* json.Marshal(struct): the tree of values reachable from the struct *)
Marshal(h, st) ==
  [xi |-> h[st.xi].v, sid |-> h[st.sid].v, pre |-> h[st.pre].v, pub |-> h[st.pub].v,
   ks |-> Vals(h, st.ks), bigx |-> Vals(h, st.bigx), aux |-> Vals(h, st.aux)]

(* json.Unmarshal(bytes, &fresh): every big.Int, point and slice is newly allocated *)
Unmarshal(h, b) ==
  LET n  == Len(b.ks)
      a0 == Len(h)
      cells == <<ValCell(b.xi), ValCell(b.sid), ValCell(b.pre), ValCell(b.pub)>>
               \o [j \in 1..n |-> ValCell(b.ks[j])]
               \o [j \in 1..n |-> ValCell(b.bigx[j])]
               \o [j \in 1..n |-> ValCell(b.aux[j])]
               \o <<ArrCell([j \in 1..n |-> a0 + 4 + j]),
                    ArrCell([j \in 1..n |-> a0 + 4 + n + j]),
                    ArrCell([j \in 1..n |-> a0 + 4 + 2 * n + j])>>
  IN [h  |-> h \o cells,
      st |-> [xi |-> a0 + 1, sid |-> a0 + 2, pre |-> a0 + 3, pub |-> a0 + 4,
              ks |-> a0 + 4 + 3 * n + 1, bigx |-> a0 + 4 + 3 * n + 2, aux |-> a0 + 4 + 3 * n + 3]]

-----------------------------------------------------------------------------
(* the functions of the library that receive key data                         *)

(* TLC NOTE.  TLC re-evaluates a LET definition at every use inside an action, but evaluates an     *)
(* operator ARGUMENT once.  Intermediate heaps are therefore handed on as arguments of small       *)
(* helper operators (named ...2, ...3) instead of being bound with LET.                            *)

(* keygen.BuildLocalSaveDataSubset(sourceData, sortedIDs): NewLocalPartySaveData makes fresh    *)
(* slices; LocalPreParams / LocalSecrets / ECDSAPub are copied as pointers; for each sorted id   *)
(* the saved index is looked up by share id and the element POINTERS are copied                  *)
IndexOf(h, src, id) == CHOOSE i \in 1..Len(h[src.ks].s) : h[h[src.ks].s[i]].v = <<"id", id, 0>>

PickIdx(h, a, idx) == Eager([j \in 1..Len(idx) |-> h[a].s[idx[j]]])

BuildSubset2(h, src, m, idx) ==
  IF variant = "arrays"
    THEN \* defect: re-index inside the caller's backing arrays (newData.X = sourceData.X[:m])
         [h  |-> [h EXCEPT ![src.ks].s   = PickIdx(h, src.ks, idx)   \o SubSeq(@, m + 1, Len(@)),
                           ![src.bigx].s = PickIdx(h, src.bigx, idx) \o SubSeq(@, m + 1, Len(@)),
                           ![src.aux].s  = PickIdx(h, src.aux, idx)  \o SubSeq(@, m + 1, Len(@))],
          st |-> src]
    ELSE [h  |-> h \o <<ArrCell(PickIdx(h, src.ks, idx)), ArrCell(PickIdx(h, src.bigx, idx)), ArrCell(PickIdx(h, src.aux, idx))>>,
          st |-> [src EXCEPT !.ks = Len(h) + 1, !.bigx = Len(h) + 2, !.aux = Len(h) + 3]]

BuildSubset(h, src, ids) ==
  BuildSubset2(h, src, Len(ids), Eager([j \in 1..Len(ids) |-> IndexOf(h, src, ids[j])]))

(* round1.prepare() of ECDSA signing: with a key derivation delta, xi = mod.Add(delta, xi) is a  *)
(* fresh big.Int and round.key.Xi (a field of the party's private struct copy) is repointed      *)
Prepare2(h, st, nx) ==
  IF variant = "inplace"
    THEN [h |-> [h EXCEPT ![st.xi].v = nx], st |-> st]                \* defect: xi.Add(xi, delta)
    ELSE [h |-> Append(h, ValCell(nx)), st |-> [st EXCEPT !.xi = Len(h) + 1]]

Prepare(h, st, d) ==
  IF d = 0 THEN [h |-> h, st |-> st]
  ELSE Prepare2(h, st, <<h[st.xi].v[1], h[st.xi].v[2], h[st.xi].v[3] + d>>)

(* one iteration of `for k := range keys` in UpdatePublicKeyAndAdjustBigXj(delta, keys, childPk): *)
(* keys[k].ECDSAPub = NewECPoint(childPk); keys[k].BigXj[j] = keys[k].BigXj[j].Add(gDelta)        *)
(* - new points, written into the ELEMENTS of the argument's slice                               *)
AdjustOne2(h, st, d, n, a0) ==
  [h  |-> [(h \o [j \in 1..n |-> ValCell(<<h[h[st.bigx].s[j]].v[1], h[h[st.bigx].s[j]].v[2], h[h[st.bigx].s[j]].v[3] + d>>)]
              \o <<ValCell(<<"Y", 0, d>>)>>)
           EXCEPT ![st.bigx].s = Eager([j \in 1..n |-> a0 + j])],
   st |-> [st EXCEPT !.pub = a0 + n + 1]]

AdjustOne(h, st, d) == AdjustOne2(h, st, d, Len(h[st.bigx].s), Len(h))

(* what the caller hands to UpdatePublicKeyAndAdjustBigXj: a deep copy (as the function rewrites  *)
(* its argument), or - the misuse - a plain struct copy that shares every backing array           *)
CopyForKDD(h, st) ==
  IF variant = "shallow" THEN [h |-> h, st |-> st] ELSE Unmarshal(h, Marshal(h, st))

(* one signer of a session: caller's copy and adjustment (offset only), the constructor, Start    *)
AdjustCopy(c, d) == AdjustOne(c.h, c.st, d)
Handed(h, p, d)  == IF d = 0 THEN [h |-> h, st |-> mem[p]] ELSE AdjustCopy(CopyForKDD(h, mem[p]), d)

OneSigner4(a, argB, q) == [h |-> q.h, arg |-> a.st, argB |-> argB, priv |-> q.st]
OneSigner3(a, argB, b, d, how) ==                                       \* Start: prepare refuses t+1 > len(ks) first
  OneSigner4(a, argB, IF how = "refuse_few" THEN b ELSE Prepare(b.h, b.st, d))
OneSigner2(a, ids, d, how) ==                                           \* NewLocalParty[WithKDD]
  OneSigner3(a, Marshal(a.h, a.st), BuildSubset(a.h, a.st, ids), d, how)
OneSigner(h, p, ids, d, how) == OneSigner2(Handed(h, p, d), ids, d, how)

RECURSIVE Signers(_, _, _, _, _, _)
Signers2(r, ids, k, d, how, acc) ==
  Signers(r.h, ids, k + 1, d, how, Append(acc, [arg |-> r.arg, argB |-> r.argB, priv |-> r.priv]))
Signers(h, ids, k, d, how, acc) ==
  IF k > Len(ids) THEN [h |-> h, res |-> acc]
  ELSE Signers2(OneSigner(h, ids[k], ids, d, how), ids, k, d, how, acc)

Range(s) == {s[i] : i \in DOMAIN s}
RECURSIVE SortedSeq(_)
SortedSeq(S) == IF S = {} THEN <<>>
                ELSE LET x == CHOOSE x \in S : \A y \in S : x <= y IN <<x>> \o SortedSeq(S \ {x})
Sorted(L) == SortedSeq(Range(L))            \* tss.SortPartyIDs

(* cells allocated by a session are private to its parties: they are garbage once the session is  *)
(* over - unless the session wrote into a cell of the caller (then everything is kept, the        *)
(* caller's cell may point to new ones)                                                           *)
Collect(hOld, hNew) ==
  IF SubSeq(hNew, 1, Len(hOld)) = hOld THEN hOld ELSE hNew

(* the signers' effective data: consistent, re-indexed to the sorted signer set, offset d *)
Effective(b, ids, k, d) ==
  /\ b.xi = <<"xi", ids[k], d>> /\ b.sid = <<"id", ids[k], 0>> /\ b.pub = <<"Y", 0, d>>
  /\ b.ks   = [j \in 1..Len(ids) |-> <<"id", ids[j], 0>>]
  /\ b.bigx = [j \in 1..Len(ids) |-> <<"X", ids[j], d>>]
  /\ b.aux  = [j \in 1..Len(ids) |-> <<"aux", ids[j], 0>>]

(* a whole session over the signer list L with derivation offset d (0 = none)                     *)
Session2(ids, f, d) ==
  [h     |-> Collect(heap, f.h),
   ids   |-> ids,
   \* the struct handed to NewLocalParty[WithKDD] still holds what it held when it was handed over
   args  |-> \A k \in 1..Len(ids) : Marshal(f.h, f.res[k].arg) = f.res[k].argB,
   valid |-> \A k \in 1..Len(ids) : Effective(Marshal(f.h, f.res[k].priv), ids, k, d)]

Session1(ids, d, how) == Session2(ids, Signers(heap, ids, 1, d, how, <<>>), d)
Session(L, d, how)    == Session1(IF how = "refuse_few" THEN Sorted(SubSeq(L, 1, T)) ELSE Sorted(L), d, how)

(* R of a completed session *)
NonceOf(ids, m, d, seed) ==
  IF seed > 0 THEN <<"seeded", seed, ids>>                      \* same reader => same k_i => same R (any message)
  ELSE IF variant = "derived" THEN <<"derived", ids, m, d>>     \* defect: deterministic nonce shares
  ELSE <<"tok", tok>>                                           \* fresh draw from params.Rand()

-----------------------------------------------------------------------------
(* operations of a history                                                    *)

ValidListing(L) ==
  /\ Len(L) >= T + 1
  /\ Range(L) \subseteq Parties
  /\ Cardinality(Range(L)) = Len(L)

Entry(op, p, L, m, d, how, seed, done, ids, rt, args, fresh, valid, h2, mem2, st2, non2) ==
  [op |-> op, p |-> p, l |-> L, m |-> m, d |-> d, how |-> how, seed |-> seed,
   done |-> done, ids |-> ids, rt |-> rt,
   key_same    |-> \A q \in Parties : Marshal(h2, mem2[q]) = Bytes(q),
   stored_same |-> \A q \in Parties : st2[q] = Bytes(q),
   arg_same |-> args, fresh |-> fresh, valid |-> valid, nn |-> Cardinality(non2)]

Commit(e, h2, mem2, st2, non2, tok2) ==
  /\ heap' = h2 /\ mem' = mem2 /\ stored' = st2 /\ nonces' = non2 /\ tok' = tok2
  /\ nops' = nops + 1
  /\ last' = e
  /\ hist' = IF Record THEN Append(hist, e) ELSE hist
  /\ pend' = "none"
  /\ UNCHANGED variant

(* serialise party p's data, store it, load it into a fresh struct that replaces the old one *)
DoReload3(p, b, u, mem2, st2) ==
  Commit(Entry("Reload", p, <<>>, 0, 0, "none", 0, FALSE, <<>>, Marshal(u.h, u.st) = b, TRUE, TRUE, TRUE,
               u.h, mem2, st2, nonces), u.h, mem2, st2, nonces, tok)
DoReload2(p, b, u) == DoReload3(p, b, u, [mem EXCEPT ![p] = u.st], [stored EXCEPT ![p] = b])
DoReload1(p, b)    == DoReload2(p, b, Unmarshal(heap, b))                 \* json.Unmarshal into a fresh struct
DoReload(p)        == p \in Parties /\ DoReload1(p, Marshal(heap, mem[p]))     \* json.Marshal

(* a session that completes (Sign: d = 0, SignKDD: d > 0, Seeded: the same reader installed again) *)
DoSign3(op, L, m, d, seed, s, R, non) ==
  Commit(Entry(op, 0, L, m, d, "none", seed, TRUE, s.ids, TRUE, s.args, R \notin nonces, s.valid,
               s.h, mem, stored, non), s.h, mem, stored, non, IF R = <<"tok", tok>> THEN tok + 1 ELSE tok)
DoSign2(op, L, m, d, seed, s, R) == DoSign3(op, L, m, d, seed, s, R, nonces \cup {R})
DoSign1(op, L, m, d, seed, s)    == DoSign2(op, L, m, d, seed, s, NonceOf(s.ids, m, d, seed))
DoSign(L, m, d, seed) ==
  /\ ValidListing(L)
  /\ DoSign1(IF seed > 0 THEN "Seeded" ELSE IF d > 0 THEN "SignKDD" ELSE "Sign", L, m, d, seed, Session(L, d, "none"))

(* a session that does not complete: a signer goes silent, a message is altered, Start refuses *)
DoAbort1(L, m, d, how, s) ==
  Commit(Entry("Abort", 0, L, m, d, how, 0, FALSE, s.ids, TRUE, s.args, TRUE, TRUE,
               s.h, mem, stored, nonces), s.h, mem, stored, nonces, tok)
DoAbort(L, m, d, how) ==
  /\ ValidListing(L)
  /\ how \in {"silence", "tamper", "refuse_few", "refuse_digest"}
  /\ DoAbort1(L, m, d, how, Session(L, d, how))

(* BuildLocalSaveDataSubset called directly by every member of the list *)
SubsetGood(v, p, ids) ==
  /\ v.xi = <<"xi", p, 0>> /\ v.sid = <<"id", p, 0>> /\ v.pre = <<"pre", p, 0>> /\ v.pub = <<"Y", 0, 0>>
  /\ v.ks   = [j \in 1..Len(ids) |-> <<"id", ids[j], 0>>]
  /\ v.bigx = [j \in 1..Len(ids) |-> <<"X", ids[j], 0>>]
  /\ v.aux  = [j \in 1..Len(ids) |-> <<"aux", ids[j], 0>>]

RECURSIVE Subsets(_, _, _, _)
Subsets2(b, ids, k, ok) == Subsets(b.h, ids, k + 1, ok /\ SubsetGood(Marshal(b.h, b.st), ids[k], ids))
Subsets(h, ids, k, ok) ==
  IF k > Len(ids) THEN [h |-> h, ok |-> ok]
  ELSE Subsets2(BuildSubset(h, mem[ids[k]], ids), ids, k, ok)

DoSubset2(L, ids, r, h2) ==
  Commit(Entry("Subset", 0, L, 0, 0, "none", 0, FALSE, ids, TRUE, TRUE, TRUE, r.ok,
               h2, mem, stored, nonces), h2, mem, stored, nonces, tok)
DoSubset1(L, ids, r) == DoSubset2(L, ids, r, Collect(heap, r.h))
DoSubset0(L, ids)    == DoSubset1(L, ids, Subsets(heap, ids, 1, TRUE))
DoSubset(L)          == ValidListing(L) /\ DoSubset0(L, Sorted(L))

-----------------------------------------------------------------------------
(* initial state: every party loads what key generation stored                *)

RECURSIVE LoadAll(_, _, _)
LoadAll(h, p, m) ==
  IF p > N THEN [h |-> h, mem |-> m]
  ELSE LET u == Unmarshal(h, Bytes(p)) IN LoadAll(u.h, p + 1, m @@ (p :> u.st))

Loaded     == LoadAll(<<>>, 1, <<>>)
InitStored == [p \in Parties |-> Bytes(p)]
NoEntry    == Entry("Init", 0, <<>>, 0, 0, "none", 0, FALSE, <<>>, TRUE, TRUE, TRUE, TRUE,
                    Loaded.h, Loaded.mem, InitStored, {})

Init ==
  /\ variant \in Variants
  /\ heap = Loaded.h /\ mem = Loaded.mem /\ stored = InitStored
  /\ nonces = {} /\ tok = 0 /\ nops = 0
  /\ last = NoEntry /\ hist = <<>> /\ pend = "none"

Kinds == {"Reload", "Sign", "Abort", "Subset"}
         \cup (IF Paths # {} THEN {"SignKDD"} ELSE {})
         \cup (IF variant = "seeded" THEN {"Seeded"} ELSE {})

(* the message of a session that aborts plays no role in the model (it only selects the digest q+m  *)
(* of refuse_digest): one value is enough                                                         *)
AbortMsgs == {CHOOSE m \in Msgs : \A x \in Msgs : m <= x}

Do(kd) ==
  \/ kd = "Reload"  /\ \E p \in Parties : DoReload(p)
  \/ kd = "Sign"    /\ \E L \in Listings, m \in Msgs : DoSign(L, m, 0, 0)
  \/ kd = "SignKDD" /\ \E L \in Listings, m \in Msgs, d \in Paths : DoSign(L, m, d, 0)
  \/ kd = "Seeded"  /\ \E L \in Listings, m \in Msgs : DoSign(L, m, 0, 1)
  \/ kd = "Abort"   /\ \E L \in Listings, m \in AbortMsgs, d \in {0} \cup Paths, how \in Hows : DoAbort(L, m, d, how)
  \/ kd = "Subset"  /\ \E L \in Listings : DoSubset(L)

Pick ==
  /\ TwoPhase /\ pend = "none" /\ nops < MaxOps
  /\ \E kd \in Kinds : pend' = kd
  /\ UNCHANGED <<heap, mem, stored, nonces, tok, nops, last, hist, variant>>

Apply == TwoPhase /\ pend \in Kinds /\ Do(pend)

Direct == ~TwoPhase /\ nops < MaxOps /\ \E kd \in Kinds : Do(kd)

(* a finished history takes one last step so that Emit fires once per history (in -simulate mode  *)
(* TLC evaluates invariants on every candidate successor)                                         *)
Finish ==
  /\ Record /\ pend = "none" /\ nops = MaxOps
  /\ pend' = "done"
  /\ UNCHANGED <<heap, mem, stored, nonces, tok, nops, last, hist, variant>>

Next == Pick \/ Apply \/ Direct \/ Finish
Spec == Init /\ [][Next]_vars

-----------------------------------------------------------------------------
(* the property                                                               *)

TypeOK ==
  /\ nops \in 0..MaxOps /\ tok \in 0..MaxOps
  /\ \A p \in Parties : mem[p].xi \in 1..Len(heap) /\ mem[p].ks \in 1..Len(heap) /\ mem[p].bigx \in 1..Len(heap)
  /\ Cardinality(nonces) <= nops

(* "a party's stored key data is not modified": what the caller holds serialises to what key      *)
(* generation wrote, after every operation, and so does what is on disk                           *)
KeyUnchanged    == \A p \in Parties : Marshal(heap, mem[p]) = Bytes(p)
StoredUnchanged == stored = InitStored
(* serialise + load gives an equal struct *)
RoundTrip       == last.rt
(* the struct handed to the constructor (the adjusted copy, with an offset) is left as handed over *)
ArgsUnchanged   == last.arg_same
(* "any two completed sessions, even for the same message and signers, use different nonces"       *)
NoncesFresh     == last.done => last.fresh
(* "used to sign with the same results as the in-memory original, for any subset and ordering":    *)
(* every completed session - whatever mixture of reloaded and original structs its signers hold,   *)
(* whatever was signed before - works on consistent data of the right key                          *)
SigsValid       == last.valid
(* the per-step observations agree with the state predicates *)
ObsSound        == last.key_same = KeyUnchanged /\ last.stored_same = StoredUnchanged

Holds == KeyUnchanged /\ StoredUnchanged /\ RoundTrip /\ ArgsUnchanged /\ NoncesFresh /\ SigsValid

(* action form: no step changes what any party's struct serialises to *)
KeyStable == [][\A p \in Parties : Marshal(heap', mem'[p]) = Marshal(heap, mem[p])]_vars

(* Non-vacuity (run with all variants, -workers 1): every variant other than "code" must reach a  *)
(* state that breaks the clause it is aimed at, "code" must break none.  Register 10+i collects   *)
(* the names of the clauses the i-th variant was seen to break.                                   *)
VariantList == <<"code", "inplace", "arrays", "shallow", "derived", "seeded">>
Aimed == [code |-> {}, inplace |-> {"ArgsUnchanged"}, arrays |-> {"KeyUnchanged"}, shallow |-> {"KeyUnchanged"},
          derived |-> {"NoncesFresh"}, seeded |-> {"NoncesFresh"}]
VarIdx(v)   == CHOOSE i \in 1..Len(VariantList) : VariantList[i] = v
Broken ==
  (IF KeyUnchanged THEN {} ELSE {"KeyUnchanged"}) \cup (IF StoredUnchanged THEN {} ELSE {"StoredUnchanged"})
  \cup (IF RoundTrip THEN {} ELSE {"RoundTrip"}) \cup (IF ArgsUnchanged THEN {} ELSE {"ArgsUnchanged"})
  \cup (IF NoncesFresh THEN {} ELSE {"NoncesFresh"}) \cup (IF SigsValid THEN {} ELSE {"SigsValid"})
ASSUME \A i \in 1..Len(VariantList) : TLCSet(10 + i, {})
Witness     == Holds \/ TLCSet(10 + VarIdx(variant), TLCGet(10 + VarIdx(variant)) \cup Broken)
VariantsSeparated ==
  /\ PrintT(<<"VARIANTS", ToJson([i \in 1..Len(VariantList) |-> [variant |-> VariantList[i], broken |-> TLCGet(10 + i)]])>>)
  /\ \A i \in 1..Len(VariantList) :
       VariantList[i] \in Variants =>
         /\ Aimed[VariantList[i]] \subseteq TLCGet(10 + i)
         /\ (VariantList[i] = "code" => TLCGet(10 + i) = {})

(* behaviour generation: print the history of every finished walk (-workers 1) *)
Emit == pend = "done" => PrintT(<<"BEHAVIOUR", ToJson(hist)>>)
=============================================================================
