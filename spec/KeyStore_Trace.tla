--------------------------- MODULE KeyStore_Trace ---------------------------
(* Trace validation of real operation histories against KeyStore.tla.          *)
(*                                                                             *)
(* The harness (harness/props/c20.go) executes histories of operations on REAL *)
(* key data of both curves (serialise + reload of one party's                  *)
(* LocalPartySaveData through encoding/json; complete signing sessions with    *)
(* and without a key derivation offset; sessions that abort because a signer   *)
(* goes silent, a message is altered or Start refuses; direct calls of         *)
(* BuildLocalSaveDataSubset) and writes one ndjson line per operation with     *)
(*   - the operation and its arguments in model terms (parties numbered in the *)
(*     order of their share ids, message / offset ids),                        *)
(*   - observations computed from the real data after the operation:           *)
(*       key_same    every party's struct still has the deep digest it had     *)
(*                   when the key was generated (reflection walk over every    *)
(*                   big.Int, point, Paillier key, pre-parameter)              *)
(*       stored_same json.Marshal of every party's struct is byte-identical to *)
(*                   what was stored first                                     *)
(*       arg_same    the structs handed to NewLocalParty[WithKDD] have the     *)
(*                   digest they had when handed over                          *)
(*       rt          (Reload) the reloaded struct has the digest of the old    *)
(*       done        a signer produced a signature                             *)
(*       fresh       R of the session differs from R of every earlier session  *)
(*       valid       the signature verifies under the (derived) group key with *)
(*                   the harness' independent verifier / (Subset) the copy     *)
(*                   holds the signers' entries in the order of their ids      *)
(*       ids         the party order the library used (sorted signer set)      *)
(*       nn          number of distinct R values so far                        *)
(* A line is explained iff the KeyStore operation of that name is enabled with *)
(* those arguments and produces exactly these observations.  A Reset line      *)
(* starts the next history (its variant is "code", or "seeded" for the         *)
(* documented misuse scenario in which the caller installs the same            *)
(* deterministic reader twice and the model predicts the repeated R).          *)
EXTENDS KeyStore, IOUtils

TraceFile == IF "TRACE" \in DOMAIN IOEnv THEN IOEnv.TRACE ELSE "trace.ndjson"
TraceLog  == ndJsonDeserialize(TraceFile)

VARIABLE l      \* next line to consume
tvars == <<vars, l>>

TraceInit ==
  /\ l = 1
  /\ variant = "code"
  /\ heap = Loaded.h /\ mem = Loaded.mem /\ stored = InitStored
  /\ nonces = {} /\ tok = 0 /\ nops = 0
  /\ last = NoEntry /\ hist = <<>> /\ pend = "none"

IsEvent(name) == l <= Len(TraceLog) /\ TraceLog[l].ev = name /\ l' = l + 1

TraceReset ==
  /\ IsEvent("Reset")
  /\ TraceLog[l].n = N /\ TraceLog[l].t = T
  /\ TraceLog[l].variant \in {"code", "seeded"}
  /\ variant' = TraceLog[l].variant
  /\ heap' = Loaded.h /\ mem' = Loaded.mem /\ stored' = InitStored
  /\ nonces' = {} /\ tok' = 0 /\ nops' = 0
  /\ last' = NoEntry /\ hist' = <<>> /\ pend' = "none"

(* the observations of the line are the ones the model produces *)
Explained(e) ==
  /\ last'.done = e.done
  /\ last'.ids = e.ids
  /\ last'.rt = e.rt
  /\ last'.key_same = e.key_same
  /\ last'.stored_same = e.stored_same
  /\ last'.arg_same = e.arg_same
  /\ last'.fresh = e.fresh
  /\ last'.valid = e.valid
  /\ last'.nn = e.nn

TraceOp ==
  /\ l <= Len(TraceLog) /\ TraceLog[l].ev = "Op" /\ l' = l + 1
  /\ LET e == TraceLog[l] IN
       /\ \/ e.op = "Reload"  /\ DoReload(e.p)
          \/ e.op = "Sign"    /\ e.d = 0 /\ e.seed = 0 /\ DoSign(e.l, e.m, 0, 0)
          \/ e.op = "SignKDD" /\ e.d > 0 /\ e.seed = 0 /\ DoSign(e.l, e.m, e.d, 0)
          \/ e.op = "Seeded"  /\ variant = "seeded" /\ e.d = 0 /\ e.seed > 0 /\ DoSign(e.l, e.m, 0, e.seed)
          \/ e.op = "Abort"   /\ e.d >= 0 /\ DoAbort(e.l, e.m, e.d, e.how)
          \/ e.op = "Subset"  /\ DoSubset(e.l)
       /\ Explained(e)

TraceNext == TraceReset \/ TraceOp
TraceSpec == TraceInit /\ [][TraceNext]_tvars

(* the design invariants on every state of every real history; the nonce clause is not demanded   *)
(* of the misuse scenario (the model predicts the reuse there, and the line must say so)          *)
TraceInv ==
  /\ KeyUnchanged /\ StoredUnchanged /\ RoundTrip /\ ArgsUnchanged /\ SigsValid
  /\ (variant = "code" => NoncesFresh)

(* high-water mark of consumed lines; needs -workers 1 *)
ASSUME TLCSet(1, 0)
HighWater == TLCSet(1, IF l > TLCGet(1) THEN l ELSE TLCGet(1))
TraceAccepted ==
  /\ PrintT(<<"TRACE_HW", TLCGet(1) - 1, Len(TraceLog)>>)
  /\ TLCGet(1) = Len(TraceLog) + 1
=============================================================================
