--------------------------- MODULE KeygenAlgebra ---------------------------
(* Design-level algebra of distributed key generation (both curves) over a   *)
(* toy group Z_q, points represented by discrete logarithms.                 *)
(* Round 1: every party i picks u_i and a degree-T polynomial f_i with       *)
(* f_i(0) = u_i, publishes (a commitment to) V_ic = coefficient c * G.       *)
(* Round 2: sends f_i(id_j) to party j.  Round 3: x_j = sum_i f_i(id_j),     *)
(* V_c = sum_i V_ic, X_j = sum_c V_c id_j^c, public key = V_0.               *)
EXTENDS Zq, TLC

CONSTANTS N, T, Ids
ASSUME Len(Ids) = N /\ T < N /\ T >= 1

VARIABLES polys, phase, xs, vc, bigx
kvars == <<polys, phase, xs, vc, bigx>>

Poly == [1..(T + 1) -> Zq]

Init ==
  /\ polys \in [1..N -> Poly]
  /\ phase = "dealt"
  /\ xs = <<>> /\ vc = <<>> /\ bigx = <<>>

SumOver(f) == SumSeq([i \in 1..N |-> f[i]])

(* round 3 of every party, all at once (each party computes the same public data) *)
Combine ==
  /\ phase = "dealt"
  /\ xs'   = [j \in 1..N |-> SumOver([i \in 1..N |-> Eval(polys[i], Ids[j])])]
  /\ vc'   = [c \in 1..(T + 1) |-> SumOver([i \in 1..N |-> polys[i][c]])]
  /\ bigx' = [j \in 1..N |-> Eval([c \in 1..(T + 1) |-> SumOver([i \in 1..N |-> polys[i][c]])], Ids[j])]
  /\ phase' = "combined"
  /\ UNCHANGED polys

Next == Combine \/ (phase = "combined" /\ UNCHANGED kvars)
Spec == Init /\ [][Next]_kvars

IdsOK == DistinctModQ(Ids) /\ NonZeroModQ(Ids)
Key   == SumOver([i \in 1..N |-> polys[i][1]])

(* each party's secret share times G equals its public share point *)
SharesConsistent == phase = "combined" => \A j \in 1..N : xs[j] = bigx[j]

(* the public share points lie on one polynomial of degree <= T whose constant term is the key *)
PublicPointsOnPolynomial ==
  (phase = "combined" /\ IdsOK) =>
     /\ vc[1] = Key
     /\ \A j \in 1..N : bigx[j] = Eval(vc, Ids[j])

(* any T+1 shares interpolate to the one private key *)
AnySubsetReconstructs ==
  (phase = "combined" /\ IdsOK) =>
     \A S \in SubSeqs(N, T + 1, 1) : Interp(Pick(Ids, S), Pick(xs, S), 0) = Key

(* no contribution is dropped: the key is the sum of every party's u_i *)
NoContributionDropped ==
  phase = "combined" => vc[1] = SumOver([i \in 1..N |-> polys[i][1]])
=============================================================================
