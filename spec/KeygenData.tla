----------------------------- MODULE KeygenData -----------------------------
(* Data-level specification of the distributed key generation of tss-lib      *)
(* (ecdsa/keygen/round_1.go .. round_4.go; eddsa/keygen has the same data     *)
(* flow): every party deals a Feldman sharing of its contribution, the        *)
(* parties check what they received and combine.  Engine.tla specifies WHEN a *)
(* party may take a step (message flow, early / duplicate deliveries); this   *)
(* module specifies WHAT is computed, over a toy group: the group is Z_Q      *)
(* written additively, a curve point is represented by its discrete logarithm *)
(* (the real runs it is bound to use a toy elliptic curve of order Q, and the *)
(* harness projects every point it sees on the wire through a table), and the *)
(* identity (logarithm 0) is NOT representable, as in crypto.ECPoint.         *)
(*                                                                            *)
(* One step per party and round, as in the code (round.Start()):              *)
(*   Round1(p)  u_p and the polynomial are fixed (variable poly), the hash    *)
(*              commitment to the Feldman commitments is broadcast            *)
(*   Round2(p)  needs every commitment; sends f_p(id_j) to each j and opens   *)
(*   Round3(p)  needs every share and opening; checks the opening against the *)
(*              commitment and the share against the opened commitments       *)
(*              (culprits otherwise), then x_p = sum_i f_i(id_p),             *)
(*              V_c = sum_i V_ic, X_j = sum_c V_c id_j^c, y = V_0             *)
(* A transport fault (one value altered on its way to one recipient) is part  *)
(* of the model, so that TLC predicts who must abort and whom it must name.   *)
EXTENDS Zq, TLC

CONSTANTS N, T, Ids,    \* parties 1..N, threshold T, Ids[p] = the party's share id (its key)
          WithFaults   \* model checking scope: FALSE = honest runs only
ASSUME Len(Ids) = N /\ T >= 1 /\ T < N

Parties == 1..N
Coef    == 1..(T + 1)                 \* coefficient c of x^(c-1)
Poly    == [Coef -> ZqStar]           \* samplePolynomial draws every coefficient from [1, Q)

NoFault == [kind |-> "none", from |-> 0, to |-> 0, idx |-> 0, delta |-> 0]
Pairs == { ij \in Parties \X Parties : ij[1] # ij[2] }
Faults  ==
  IF ~WithFaults THEN {NoFault} ELSE
  {NoFault}
  \cup { [kind |-> "share", from |-> ij[1], to |-> ij[2], idx |-> 0, delta |-> 1] : ij \in Pairs }
  \cup { [kind |-> "open", from |-> ijc[1][1], to |-> ijc[1][2], idx |-> ijc[2], delta |-> 1] : ijc \in Pairs \X Coef }
  \cup { [kind |-> "commit", from |-> ic[1], to |-> 0, idx |-> ic[2], delta |-> 1] : ic \in Parties \X Coef }
(* share:  the share from `from` to `to` arrives as share + delta                                        *)
(* open:   coefficient idx of the opening from `from` arrives at `to` shifted by delta (in the exponent)  *)
(* commit: `from` commits to AND opens, towards everybody, commitments whose coefficient idx is shifted   *)
(*         (a dealer whose published commitments do not belong to the polynomial its shares come from)    *)

VARIABLES
  poly,     \* [Parties -> Poly] : the dealt polynomials (coefficient c = discrete log of V_pc)
  fault,    \* the single transport fault of the run (NoFault = honest run)
  pc,       \* [Parties -> {"r0","r1","r2","ok","abort","degenerate"}]
  x,        \* [Parties -> Zq]      secret share of a finished party
  bigX,     \* [Parties -> Seq(Zq)] public share points computed by a finished party
  y,        \* [Parties -> Zq]      group public key computed by a finished party
  culprits  \* [Parties -> SUBSET Parties]
dvars == <<poly, fault, pc, x, bigX, y, culprits>>

-----------------------------------------------------------------------------
(* what party j receives from party i *)
ShareSent(i, j) == Eval(poly[i], Ids[j])
ShareRecv(i, j) ==
  IF fault.kind = "share" /\ fault.from = i /\ fault.to = j
  THEN ShareSent(i, j) + fault.delta            \* an integer, not reduced: the wire carries integers
  ELSE ShareSent(i, j)
Committed(i) ==
  [c \in Coef |-> IF fault.kind = "commit" /\ fault.from = i /\ fault.idx = c
                  THEN Add(poly[i][c], fault.delta) ELSE poly[i][c]]
OpenRecv(i, j) ==
  [c \in Coef |-> IF fault.kind = "open" /\ fault.from = i /\ fault.to = j /\ fault.idx = c
                  THEN Add(Committed(i)[c], fault.delta) ELSE Committed(i)[c]]

(* commitments.HashCommitDecommit.Verify: the opening must be the committed tuple *)
Opens(i, j) == OpenRecv(i, j) = Committed(i)
(* an opened coefficient 0 is the identity, which NewECPoint / UnFlattenECPoints refuse *)
OpenValid(i, j) == \A c \in Coef : OpenRecv(i, j)[c] # 0
(* vss.Share.Verify: share * G = sum_c V_ic id^c; a share that is 0 mod Q never verifies *)
ShareVerifies(i, j) ==
  /\ ShareRecv(i, j) % Q # 0
  /\ ShareRecv(i, j) % Q = Eval(OpenRecv(i, j), Ids[j])

Bad(i, j) == ~Opens(i, j) \/ ~OpenValid(i, j) \/ ~ShareVerifies(i, j)
CulpritsOf(j) == { i \in Parties \ {j} : Bad(i, j) }

SumP(f) == SumSeq([i \in 1..N |-> f[i]])
Vc(j)   == [c \in Coef |-> SumP([i \in Parties |-> IF i = j THEN poly[j][c] ELSE OpenRecv(i, j)[c]])]
Xj(j)   == SumP([i \in Parties |-> IF i = j THEN ShareSent(j, j) ELSE ShareRecv(i, j) % Q])
BigXs(j) == [k \in 1..N |-> Eval(Vc(j), Ids[k])]

(* The code adds points one by one and multiplies by powers of the ids; any   *)
(* intermediate or final identity cannot be represented and ends the run with *)
(* an error or a panic (named deviation: only reachable in toy groups).        *)
RECURSIVE PartialIdentity(_, _, _)
PartialIdentity(j, c, k) ==      \* some prefix sum over the parties 1..k (own value first) of coefficient c is 0
  IF k = 0 THEN FALSE
  ELSE LET order == <<j>> \o SelectSeq([i \in 1..N |-> i], LAMBDA i : i # j)
           pre   == SumSeq([m \in 1..k |-> IF order[m] = j THEN poly[j][c] ELSE OpenRecv(order[m], j)[c]])
       IN pre = 0 \/ PartialIdentity(j, c, k - 1)
RECURSIVE EvalPartialIdentity(_, _, _)
EvalPartialIdentity(v, id, k) ==   \* some prefix of v[1] + v[2] id + ... + v[k] id^(k-1) or one of its terms is 0
  IF k = 0 THEN FALSE
  ELSE \/ SumSeq([m \in 1..k |-> Mul(v[m], Pow(id % Q, m - 1))]) = 0
       \/ Mul(v[k], Pow(id % Q, k - 1)) = 0
       \/ EvalPartialIdentity(v, id, k - 1)
Degenerate(j) ==
  \/ \E c \in Coef : PartialIdentity(j, c, N)
  \/ \E k \in 1..N : EvalPartialIdentity(Vc(j), Ids[k], T + 1)
  \/ Xj(j) = 0

-----------------------------------------------------------------------------
Init ==
  /\ poly \in [Parties -> Poly]
  /\ fault \in Faults
  /\ pc = [p \in Parties |-> "r0"]
  /\ x = [p \in Parties |-> 0]
  /\ bigX = [p \in Parties |-> <<>>]
  /\ y = [p \in Parties |-> 0]
  /\ culprits = [p \in Parties |-> {}]

Round1(p) ==
  /\ pc[p] = "r0"
  /\ pc' = [pc EXCEPT ![p] = "r1"]
  /\ UNCHANGED <<poly, fault, x, bigX, y, culprits>>

Round2(p) ==
  /\ pc[p] = "r1"
  /\ \A i \in Parties : pc[i] # "r0"          \* every commitment has been sent (and delivered)
  /\ pc' = [pc EXCEPT ![p] = "r2"]
  /\ UNCHANGED <<poly, fault, x, bigX, y, culprits>>

Round3(p) ==
  /\ pc[p] = "r2"
  /\ \A i \in Parties : pc[i] \notin {"r0", "r1"}
  /\ IF CulpritsOf(p) # {}
     THEN /\ pc' = [pc EXCEPT ![p] = "abort"]
          /\ culprits' = [culprits EXCEPT ![p] = CulpritsOf(p)]
          /\ UNCHANGED <<x, bigX, y>>
     ELSE IF Degenerate(p)
     THEN /\ pc' = [pc EXCEPT ![p] = "degenerate"]
          /\ UNCHANGED <<x, bigX, y, culprits>>
     ELSE /\ pc' = [pc EXCEPT ![p] = "ok"]
          /\ x' = [x EXCEPT ![p] = Xj(p)]
          /\ bigX' = [bigX EXCEPT ![p] = BigXs(p)]
          /\ y' = [y EXCEPT ![p] = Vc(p)[1]]
          /\ UNCHANGED culprits
  /\ UNCHANGED <<poly, fault>>

(* The steps of different parties commute (a step reads only what earlier     *)
(* rounds of the others fixed), so one canonical order - lowest round first,   *)
(* lowest party first - reaches every reachable combination of results; the    *)
(* interleavings themselves are Engine.tla's subject.                          *)
Rank(p) == CASE pc[p] = "r0" -> 0 [] pc[p] = "r1" -> 1 [] pc[p] = "r2" -> 2 [] OTHER -> 3
Turn(p) == /\ Rank(p) < 3
           /\ \A r \in Parties : Rank(r) > Rank(p) \/ (Rank(r) = Rank(p) /\ r >= p)
Next == \E p \in Parties : Turn(p) /\ (Round1(p) \/ Round2(p) \/ Round3(p))
Spec == Init /\ [][Next]_dvars

-----------------------------------------------------------------------------
IdsOK == DistinctModQ(Ids) /\ NonZeroModQ(Ids)
Done(p) == pc[p] = "ok"
Key == SumP([i \in Parties |-> poly[i][1]])
Honest == fault = NoFault
(* A dealt share that is 0 mod Q cannot be verified by code whose point type   *)
(* has no identity (probability about N^2/Q: negligible at 256 bits, frequent   *)
(* in toy groups).  Such dealings are outside the properties below; the spec    *)
(* still says what happens (the recipient aborts and names the dealer).         *)
ZeroShareDealt == \E ij \in Pairs : ShareSent(ij[1], ij[2]) = 0
Regular == ~ZeroShareDealt

TypeOK ==
  /\ pc \in [Parties -> {"r0", "r1", "r2", "ok", "abort", "degenerate"}]
  /\ x \in [Parties -> Zq] /\ y \in [Parties -> Zq]
  /\ \A p \in Parties : culprits[p] \subseteq Parties

(* C03: identical public view; own share matches own public point; one       *)
(* polynomial of degree <= T with the key as constant term; any T+1 shares   *)
(* interpolate to the key; no contribution dropped.                          *)
SameView == \A p, r \in Parties : (Done(p) /\ Done(r)) => (y[p] = y[r] /\ bigX[p] = bigX[r])
OwnShareMatches == \A p \in Parties : Done(p) => x[p] = bigX[p][p]
OnePolynomial ==
  \A p \in Parties : Done(p) =>
     \E f \in [Coef -> Zq] : f[1] = y[p] /\ \A k \in 1..N : bigX[p][k] = Eval(f, Ids[k])
(* the same statement with the witness polynomial given (the sum of the published commitments): no search *)
OnePolynomialC ==
  \A p \in Parties : Done(p) => (Vc(p)[1] = y[p] /\ \A k \in 1..N : bigX[p][k] = Eval(Vc(p), Ids[k]))
NoContributionDropped == \A p \in Parties : (Done(p) /\ Honest) => y[p] = Key
AllDone == \A p \in Parties : Done(p)
AnySubsetReconstructs ==
  (AllDone /\ IdsOK) =>
     \A S \in SubSeqs(N, T + 1, 1) : Interp(Pick(Ids, S), Pick([p \in 1..N |-> x[p]], S), 0) = y[1]
HonestCompletes ==       \* without a fault nobody aborts (a run may only be degenerate)
  (Honest /\ Regular) => \A p \in Parties : pc[p] # "abort"

(* C05 at the data level: a party that was handed an altered value never      *)
(* finishes, and names exactly the sender; nobody else aborts.                *)
Victims == IF fault.kind = "commit" THEN Parties \ {fault.from} ELSE IF fault = NoFault THEN {} ELSE {fault.to}
NoSilentAccept == \A p \in Victims : ~Done(p)
BlameExact ==
  Regular => \A p \in Parties : pc[p] = "abort" => (p \in Victims /\ culprits[p] = {fault.from})
=============================================================================
