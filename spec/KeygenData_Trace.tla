-------------------------- MODULE KeygenData_Trace --------------------------
(* Trace validation of real ECDSA key generations run on a toy elliptic curve *)
(* of order Q (tss.Parameters takes the curve as an argument).  The harness    *)
(* projects every point it sees - Feldman commitments in the round-2           *)
(* de-commitments on the wire, the public share points and the group key in    *)
(* the saved key data - to its discrete logarithm with a table, so the logged  *)
(* values live in Z_Q and TLC recomputes every share, every public point and   *)
(* the key from the dealt polynomials with the operators of KeygenData.        *)
(*                                                                             *)
(* One run = a Reset line (the polynomials, read off the dealers' own          *)
(* de-commitments, and the transport fault the harness applied) followed by    *)
(* one line per party and round in the canonical order:                        *)
(*   R1 p                  the party has broadcast its commitment              *)
(*   R2 p shares open      what p put on the wire: f_p(id_j) for every j       *)
(*                         (0 for j = p) and the logarithms of its commitments *)
(*   R3 p out x bigx y culprits   how p's round 3 ended                        *)
(* Every logged value must equal the value the specification computes.         *)
EXTENDS KeygenData, Json, IOUtils

TraceFile == IF "TRACE" \in DOMAIN IOEnv THEN IOEnv.TRACE ELSE "trace.ndjson"
TraceLog == ndJsonDeserialize(TraceFile)

VARIABLE l
tvars == <<dvars, l>>

ToSet(seq) == { seq[i] : i \in 1..Len(seq) }
IsEvent(name) == l <= Len(TraceLog) /\ TraceLog[l].ev = name /\ l' = l + 1

TraceInit ==
  /\ l = 1
  /\ poly = [p \in Parties |-> [c \in Coef |-> 1]]
  /\ fault = NoFault
  /\ pc = [p \in Parties |-> "r0"]
  /\ x = [p \in Parties |-> 0]
  /\ bigX = [p \in Parties |-> <<>>]
  /\ y = [p \in Parties |-> 0]
  /\ culprits = [p \in Parties |-> {}]

TraceReset ==
  /\ IsEvent("Reset")
  /\ LET e == TraceLog[l] IN
     /\ e.q = Q /\ e.n = N /\ e.t = T /\ e.ids = Ids
     /\ poly' = [p \in Parties |-> [c \in Coef |-> e.polys[p][c]]]
     /\ \A p \in Parties, c \in Coef : e.polys[p][c] \in ZqStar     \* the dealers never publish the identity
     /\ fault' = [kind |-> e.fault.kind, from |-> e.fault.from, to |-> e.fault.to, idx |-> e.fault.idx, delta |-> e.fault.delta]
  /\ pc' = [p \in Parties |-> "r0"]
  /\ x' = [p \in Parties |-> 0]
  /\ bigX' = [p \in Parties |-> <<>>]
  /\ y' = [p \in Parties |-> 0]
  /\ culprits' = [p \in Parties |-> {}]

TraceR1 == IsEvent("R1") /\ Round1(TraceLog[l].p)

TraceR2 ==
  /\ IsEvent("R2")
  /\ LET e == TraceLog[l] IN
     /\ Round2(e.p)
     /\ \A j \in Parties \ {e.p} : e.shares[j] = ShareSent(e.p, j)      \* the dealt share is the polynomial's value
     /\ \A c \in Coef : e.open[c] = poly[e.p][c]

TraceR3 ==
  /\ IsEvent("R3")
  /\ LET e == TraceLog[l] IN
     /\ Round3(e.p)
     /\ CASE pc'[e.p] = "ok" ->
               \/ /\ e.out = "ok"
                  /\ e.x = x'[e.p]
                  /\ e.y = y'[e.p]
                  /\ Len(e.bigx) = N /\ \A k \in 1..N : e.bigx[k] = bigX'[e.p][k]
               \/ /\ e.out = "none"       \* the result is emitted in round 4, which waits for a party that aborted
                  /\ fault # NoFault
          [] pc'[e.p] = "abort" ->
               /\ e.out = "abort"
               /\ ToSet(e.culprits) = culprits'[e.p]
          [] pc'[e.p] = "degenerate" ->
               e.out \in {"abort", "panic"}        \* an identity point ends the run one way or the other

TraceNext == TraceReset \/ TraceR1 \/ TraceR2 \/ TraceR3
TraceSpec == TraceInit /\ [][TraceNext]_tvars

(* the C03 / C05 statements of KeygenData evaluated on every state of every real run *)
TraceInv ==
  /\ SameView /\ OwnShareMatches /\ OnePolynomialC /\ NoContributionDropped
  /\ HonestCompletes /\ NoSilentAccept /\ BlameExact

ASSUME TLCSet(1, 0)
HighWater == TLCSet(1, IF l > TLCGet(1) THEN l ELSE TLCGet(1))
TraceAccepted ==
  /\ PrintT(<<"TRACE_HW", TLCGet(1) - 1, Len(TraceLog)>>)
  /\ TLCGet(1) = Len(TraceLog) + 1
=============================================================================
