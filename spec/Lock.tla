------------------------------- MODULE Lock -------------------------------
(* The mutex discipline of tss/party.go under concurrent callers (C09).      *)
(* Threads: updaters (each one BaseUpdate call with its message), one        *)
(* WaitingFor reader, one Start caller.  The party is abstracted to what the *)
(* discipline protects: the round pointer `rnd`, the message store and the   *)
(* ok flags; a round completes when Need distinct valid messages of it are   *)
(* stored.  Every step names the shared variables it reads / writes, so that *)
(* "unsynchronised concurrent access" is a state predicate: two threads      *)
(* whose next steps touch the same variable, one of them writing, not both   *)
(* inside the critical section.                                              *)
EXTENDS Integers, FiniteSets, Sequences, TLC

CONSTANTS
  Updaters,        \* set of updater thread ids
  MsgRound,        \* [Updaters -> 1..Rounds] : the round the thread's message belongs to
  Invalid,         \* subset of Updaters whose message fails the unlocked fast validation
  Rounds, Need,    \* number of rounds; valid messages per round needed to proceed
  WrapErrLocked,   \* TRUE: the error path reads the round pointer under the mutex (a repaired design)
  WithReader, WithStarter

Threads == Updaters \cup (IF WithReader THEN {"reader"} ELSE {}) \cup (IF WithStarter THEN {"starter"} ELSE {})
None == "none"
Done == Rounds + 1

VARIABLES pc, holder, rnd, store, ended, passes
lvars == <<pc, holder, rnd, store, ended, passes>>

Init ==
  /\ pc = [t \in Threads |-> IF t \in Updaters THEN "validate" ELSE "acquire"]
  /\ holder = None
  /\ rnd = IF WithStarter THEN 0 ELSE 1
  /\ store = {}
  /\ ended = 0
  /\ passes = [t \in Threads |-> 0]

StoredFor(r) == { t \in store : MsgRound[t] = r }
CanProceed == rnd \in 1..Rounds /\ Cardinality(StoredFor(rnd)) >= Need

(* shared variables the NEXT step of thread t touches: <<reads, writes, inside critical section>> *)
Access(t) ==
  CASE pc[t] = "wraperr" -> [r |-> {"rnd"}, w |-> {}, locked |-> WrapErrLocked]
    [] pc[t] = "store"   -> [r |-> {}, w |-> {"store"}, locked |-> TRUE]
    [] pc[t] = "update"  -> [r |-> {"store", "rnd"}, w |-> {"rnd", "ended"}, locked |-> TRUE]
    [] pc[t] = "read"    -> [r |-> {"rnd", "store"}, w |-> {}, locked |-> TRUE]
    [] pc[t] = "setround" -> [r |-> {"rnd"}, w |-> {"rnd"}, locked |-> TRUE]
    [] OTHER             -> [r |-> {}, w |-> {}, locked |-> TRUE]

Step(t) ==
  \/ /\ pc[t] = "validate"
     /\ pc' = [pc EXCEPT ![t] = IF t \in Invalid THEN "wraperr" ELSE "acquire"]
     /\ UNCHANGED <<holder, rnd, store, ended, passes>>
  \/ /\ pc[t] = "wraperr"             \* BaseParty.WrapError: reads rnd to build the error
     /\ (WrapErrLocked => holder = None)
     /\ pc' = [pc EXCEPT ![t] = "done"]
     /\ UNCHANGED <<holder, rnd, store, ended, passes>>
  \/ /\ pc[t] = "acquire"
     /\ holder = None
     /\ holder' = t
     /\ pc' = [pc EXCEPT ![t] = IF t = "reader" THEN "read" ELSE IF t = "starter" THEN "setround" ELSE "store"]
     /\ UNCHANGED <<rnd, store, ended, passes>>
  \/ /\ pc[t] = "store" /\ holder = t
     /\ store' = store \cup {t}
     /\ pc' = [pc EXCEPT ![t] = "update"]
     /\ UNCHANGED <<holder, rnd, ended, passes>>
  \/ /\ pc[t] = "update" /\ holder = t   \* round.Update(); CanProceed => advance + Start of the next round
     /\ IF CanProceed
        THEN /\ rnd' = rnd + 1
             /\ ended' = ended + (IF rnd + 1 = Done THEN 1 ELSE 0)
             /\ pc' = [pc EXCEPT ![t] = "release-again"]
        ELSE /\ UNCHANGED <<rnd, ended>>
             /\ pc' = [pc EXCEPT ![t] = "release"]
     /\ UNCHANGED <<holder, store, passes>>
  \/ /\ pc[t] = "read" /\ holder = t
     /\ pc' = [pc EXCEPT ![t] = "release"]
     /\ UNCHANGED <<holder, rnd, store, ended, passes>>
  \/ /\ pc[t] = "setround" /\ holder = t  \* BaseStart: setRound(first round), then the update loop for early messages
     /\ rnd' = IF rnd = 0 THEN 1 ELSE rnd
     /\ pc' = [pc EXCEPT ![t] = IF store # {} THEN "update" ELSE "release"]
     /\ UNCHANGED <<holder, store, ended, passes>>
  \/ /\ pc[t] \in {"release", "release-again"} /\ holder = t
     /\ holder' = None
     /\ passes' = [passes EXCEPT ![t] = @ + 1]
     /\ pc' = [pc EXCEPT ![t] = IF pc[t] = "release-again" /\ t \in Updaters THEN "acquire"    \* the recursive BaseUpdate call (its validation cannot fail)
                                ELSE IF pc[t] = "release-again" THEN "acquire-loop" ELSE "done"]
     /\ UNCHANGED <<rnd, store, ended>>
  \/ /\ pc[t] = "acquire-loop"           \* the starter keeps the mutex in the real code; modelled as immediate re-acquire
     /\ holder = None
     /\ holder' = t
     /\ pc' = [pc EXCEPT ![t] = "update"]
     /\ UNCHANGED <<rnd, store, ended, passes>>

Next == (\E t \in Threads : Step(t)) \/ ((\A t \in Threads : pc[t] = "done") /\ UNCHANGED lvars)
Spec == Init /\ [][Next]_lvars /\ WF_lvars(Next)

-----------------------------------------------------------------------------
Conflict(a, b) ==
  LET x == Access(a) y == Access(b)
  IN /\ ((x.w \cap (y.r \cup y.w)) # {} \/ (y.w \cap (x.r \cup x.w)) # {})
     /\ ~(x.locked /\ y.locked)

Enabled(t) == pc[t] \notin {"done", "validate", "acquire", "acquire-loop", "release", "release-again"}

(* C09: no unsynchronised concurrent access to party state *)
NoUnsyncAccess ==
  \A a, b \in Threads : (a # b /\ Enabled(a) /\ Enabled(b)) => ~Conflict(a, b)

MutualExclusion == \A t \in Threads : pc[t] \in {"store", "update", "read", "setround", "release", "release-again"} => holder = t

(* C09: each result is emitted once *)
EndOnce == ended <= 1

AllDone == \A t \in Threads : pc[t] = "done"
ValidFor(r) == { t \in Updaters \ Invalid : MsgRound[t] = r }
(* the round the party reaches when the same messages are delivered sequentially *)
RECURSIVE SeqRound(_)
SeqRound(r) == IF r > Rounds THEN Done ELSE IF Cardinality(ValidFor(r)) >= Need THEN SeqRound(r + 1) ELSE r

(* C09: the run completes with the same result as a sequential delivery of the same messages *)
SameResult == AllDone => /\ rnd = SeqRound(1)
                         /\ store = Updaters \ Invalid
                         /\ ended = (IF SeqRound(1) = Done THEN 1 ELSE 0)

Termination == <>AllDone
=============================================================================
