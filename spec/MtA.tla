------------------------------- MODULE MtA -------------------------------
(* The multiplicative-to-additive exchange of GG18 as implemented in         *)
(* crypto/mta/share_protocol.go (AliceInit, BobMid / BobMidWC, AliceEnd /    *)
(* AliceEndWC), at design level.                                             *)
(*                                                                           *)
(*   Alice (secret a, Paillier key kA)          Bob (secret b, point B = b*G)*)
(*   cA = Enc_kA(a), range proof for cA   --->                               *)
(*                                  verify the range proof against cA        *)
(*                                  beta' <- [0, q^5)                        *)
(*                                  cB = b [*] cA [+] Enc_kA(beta')          *)
(*                                  beta = -beta' mod q                      *)
(*                       <---  cB, proof "cB was made like this (and B=b*G)" *)
(*   verify Bob's proof against (cA, cB [, B])                               *)
(*   alpha = Dec_kA(cB) mod q                                                *)
(*                                                                           *)
(* What is idealised (the cryptographic assumptions, not checked here):      *)
(*  - the encryption is an IDEAL additively homomorphic scheme: a ciphertext *)
(*    is the record [key, pt, rnd, unit] of its key, its integer plaintext,  *)
(*    its randomiser and whether it is a unit modulo N^2; [*] and [+] act on *)
(*    (pt, rnd) exactly like Paillier acts on ((1+N)^pt, rnd^N): plaintexts *)
(*    add / scale in Z, randomisers multiply / are raised to the scalar in a *)
(*    finite group (here the units modulo RMod);                             *)
(*  - a proof is the record of its statement plus the truth value of that    *)
(*    statement (perfect completeness and soundness); a verifier accepts iff *)
(*    the proof is valid AND its statement is the one the verifier holds.    *)
(* The plaintext arithmetic is the real one, over the integers, for a toy    *)
(* group order Q in {3, 5}; the Paillier modulus N is symbolic: the only     *)
(* thing assumed about it is N >= NMin = Q^2 + Q^5 (no wrap).                *)
(*                                                                           *)
(* Constants: Q (toy prime order), WithCheck (MtA or MtAwc), Masks (the set  *)
(* of values beta' ranges over, a subset of [0, Q^5) - all of it in the      *)
(* exhaustive configurations).                                               *)
EXTENDS Integers, FiniteSets, Sequences, TLC

CONSTANTS Q, WithCheck, Masks

RECURSIVE IPow(_, _)
IPow(x, e) == IF e = 0 THEN 1 ELSE x * IPow(x, e - 1)

Q3 == IPow(Q, 3)
Q5 == IPow(Q, 5)
Q7 == IPow(Q, 7)

ASSUME Q \in {3, 5}                 \* Q^7 = 78125 fits TLC's 32 bit integers
ASSUME WithCheck \in BOOLEAN
ASSUME Masks \subseteq 0..(Q5 - 1)

Zq   == 0..(Q - 1)
NMin == Q * Q + Q5                  \* assumption on Alice's modulus: N >= NMin

(* ---- randomisers: the units modulo RMod ---- *)
RMod  == 3
Rands == {1, 2}
RPow(r, e) == IPow(r, e) % RMod
RMul(r, s) == (r * s) % RMod

(* ---- points of the toy curve = their discrete logarithms; 0 is the identity, ---- *)
(* ---- which crypto.ECPoint cannot represent: a public point is never 0         ---- *)
NoPoint   == -1
PubPoints == 1..(Q - 1)
PointOf(s) == s % Q

(* ---- ideal additively homomorphic encryption ---- *)
Keys == {"kA", "kX"}                \* Alice's key and somebody else's
Enc(k, m, r)   == [key |-> k, pt |-> m, rnd |-> r, unit |-> TRUE]
HomoMult(s, c) == [c EXCEPT !.pt = s * c.pt, !.rnd = RPow(c.rnd, s)]
HomoAdd(c, d)  == [key |-> c.key, pt |-> c.pt + d.pt, rnd |-> RMul(c.rnd, d.rnd), unit |-> c.unit /\ d.unit]
CanDecrypt(c)  == c.key = "kA" /\ c.unit
Dec(c)         == c.pt              \* = pt mod N, by the invariant NoWrap and N >= NMin

(* ---- ideal proofs ---- *)
(* Alice: "cA encrypts a value in [0, Q^3] under kA", made for the verifier's ring-Pedersen parameters rpB *)
RangePf(c, m) == [c |-> c, pk |-> "kA", rp |-> "rpB", valid |-> (0 <= m /\ m <= Q3)]
VerifyRange(pf, c) == pf.valid /\ pf.c = c /\ pf.pk = "kA" /\ pf.rp = "rpB"

(* Bob: "c2 = s [*] c1 [+] Enc(m) with s in [0,Q^3], m in [0,Q^7] (and X = s*G)"; Bob builds c2 from c1 *)
(* exactly like that, so the homomorphic part of the statement is true by construction               *)
BobPf(c1, c2, s, m, X) ==
  [c1 |-> c1, c2 |-> c2, pk |-> "kA", rp |-> "rpA", X |-> X,
   valid |-> (0 <= s /\ s <= Q3 /\ 0 <= m /\ m <= Q7 /\ (X # NoPoint => X = PointOf(s)))]
VerifyBob(pf, c1, c2, X) == pf.valid /\ pf.c1 = c1 /\ pf.c2 = c2 /\ pf.pk = "kA" /\ pf.rp = "rpA" /\ pf.X = X

(* ---- what the network can do to a ciphertext in transit (the proof travels unchanged) ---- *)
Alterations(c) ==
  (   { [c EXCEPT !.rnd = r] : r \in Rands }                    \* re-randomised, same plaintext
   \cup { [c EXCEPT !.pt = c.pt + 1], [c EXCEPT !.pt = c.pt + Q] } \* plaintext shifted (+Q keeps it mod Q)
   \cup { Enc("kA", m, r) : m \in {0, Q - 1}, r \in Rands }     \* a well-formed ciphertext of another exchange
   \cup { [c EXCEPT !.unit = FALSE] }                           \* not a unit modulo N^2
   \cup { [c EXCEPT !.key = "kX"] }                             \* made under another key
  ) \ {c}

VARIABLES
  a, b,        \* the two secrets, in [0, Q)
  Bpub,        \* MtAwc: the point Alice holds as "Bob's public point" (NoPoint in plain MtA)
  bobX,        \* MtAwc: the point Bob puts into his proof
  cA,          \* <<>> or <<the ciphertext Alice sent and keeps for AliceEnd>>
  netA, netB,  \* <<>> or <<[c |-> ciphertext, pf |-> proof]>> : message 1 / message 2 in transit
  alice,       \* "idle" | "waiting" | "done" | "rejected"
  bob,         \* "idle" | "done" | "rejected"
  alpha, beta, \* the additive shares (-1: none)
  mask,        \* beta' (-1: none)
  tampA, tampB \* history: was cA / cB altered in transit
vars == <<a, b, Bpub, bobX, cA, netA, netB, alice, bob, alpha, beta, mask, tampA, tampB>>

Start(aa, bb, bp, bx) ==
  /\ a = aa /\ b = bb /\ Bpub = bp /\ bobX = bx
  /\ cA = <<>> /\ netA = <<>> /\ netB = <<>>
  /\ alice = "idle" /\ bob = "idle"
  /\ alpha = -1 /\ beta = -1 /\ mask = -1
  /\ tampA = FALSE /\ tampB = FALSE

Init ==
  \E aa \in Zq, bb \in Zq :
    IF WithCheck
    THEN \E bp \in PubPoints : \E bx \in {bp} \cup ({PointOf(bb)} \cap PubPoints) : Start(aa, bb, bp, bx)
    ELSE Start(aa, bb, NoPoint, NoPoint)

(* share_protocol.go AliceInit: encrypt a, prove its range *)
AliceInit(r) ==
  /\ alice = "idle"
  /\ LET c == Enc("kA", a, r) IN
       /\ cA' = <<c>>
       /\ netA' = <<[c |-> c, pf |-> RangePf(c, a)]>>
  /\ alice' = "waiting"
  /\ UNCHANGED <<a, b, Bpub, bobX, netB, bob, alpha, beta, mask, tampA, tampB>>

TamperCA(c2) ==
  /\ netA # <<>> /\ ~tampA
  /\ c2 \in Alterations(netA[1].c)
  /\ netA' = <<[netA[1] EXCEPT !.c = c2]>>
  /\ tampA' = TRUE
  /\ UNCHANGED <<a, b, Bpub, bobX, cA, netB, alice, bob, alpha, beta, mask, tampB>>

(* share_protocol.go BobMid / BobMidWC, proof accepted *)
BobAccept(m, r) ==
  /\ bob = "idle" /\ netA # <<>>
  /\ m \in Masks /\ r \in Rands
  /\ VerifyRange(netA[1].pf, netA[1].c)
  /\ LET c1 == netA[1].c
         c2 == HomoAdd(HomoMult(b, c1), Enc("kA", m, r))
     IN netB' = <<[c |-> c2, pf |-> BobPf(c1, c2, b, m, bobX)]>>
  /\ mask' = m
  /\ beta' = (Q - (m % Q)) % Q
  /\ bob' = "done"
  /\ netA' = <<>>
  /\ UNCHANGED <<a, b, Bpub, bobX, cA, alice, alpha, tampA, tampB>>

(* ... proof refused: Bob returns an error, nothing is sent *)
BobReject ==
  /\ bob = "idle" /\ netA # <<>>
  /\ ~VerifyRange(netA[1].pf, netA[1].c)
  /\ bob' = "rejected"
  /\ netA' = <<>>
  /\ UNCHANGED <<a, b, Bpub, bobX, cA, netB, alice, alpha, beta, mask, tampA, tampB>>

TamperCB(c2) ==
  /\ netB # <<>> /\ ~tampB
  /\ c2 \in Alterations(netB[1].c)
  /\ netB' = <<[netB[1] EXCEPT !.c = c2]>>
  /\ tampB' = TRUE
  /\ UNCHANGED <<a, b, Bpub, bobX, cA, netA, alice, bob, alpha, beta, mask, tampA>>

AliceAcceptable == VerifyBob(netB[1].pf, cA[1], netB[1].c, Bpub) /\ CanDecrypt(netB[1].c)

(* share_protocol.go AliceEnd / AliceEndWC *)
AliceAccept ==
  /\ alice = "waiting" /\ netB # <<>>
  /\ AliceAcceptable
  /\ alpha' = Dec(netB[1].c) % Q
  /\ alice' = "done"
  /\ netB' = <<>>
  /\ UNCHANGED <<a, b, Bpub, bobX, cA, netA, bob, beta, mask, tampA, tampB>>

AliceReject ==
  /\ alice = "waiting" /\ netB # <<>>
  /\ ~AliceAcceptable
  /\ alice' = "rejected"
  /\ netB' = <<>>
  /\ UNCHANGED <<a, b, Bpub, bobX, cA, netA, bob, alpha, beta, mask, tampA, tampB>>

(* the exchange is over: somebody rejected or both hold a share (terminal stuttering, so that *)
(* TLC's deadlock check reports a stall anywhere else)                                        *)
Finished == alice \in {"done", "rejected"} \/ bob = "rejected"
Done     == Finished /\ UNCHANGED vars

Next ==
  \/ (alice = "idle" /\ \E r \in Rands : AliceInit(r))
  \/ (netA # <<>> /\ \E c \in Alterations(netA[1].c) : TamperCA(c))
  \/ (bob = "idle" /\ netA # <<>> /\ \E m \in Masks, r \in Rands : BobAccept(m, r))
  \/ BobReject
  \/ (netB # <<>> /\ \E c \in Alterations(netB[1].c) : TamperCB(c))
  \/ AliceAccept
  \/ AliceReject
  \/ Done

Spec == Init /\ [][Next]_vars

-----------------------------------------------------------------------------
PtMax == NMin + Q                   \* largest plaintext an altered ciphertext can carry here
IsCt(c) == c.key \in Keys /\ 0 <= c.pt /\ c.pt <= PtMax /\ c.rnd \in Rands /\ c.unit \in BOOLEAN

TypeOK ==
  /\ a \in Zq /\ b \in Zq
  /\ Bpub \in PubPoints \cup {NoPoint} /\ bobX \in PubPoints \cup {NoPoint}
  /\ Len(cA) <= 1 /\ Len(netA) <= 1 /\ Len(netB) <= 1
  /\ \A i \in 1..Len(cA) : IsCt(cA[i])
  /\ \A i \in 1..Len(netA) : IsCt(netA[i].c)
  /\ \A i \in 1..Len(netB) : IsCt(netB[i].c)
  /\ alice \in {"idle", "waiting", "done", "rejected"}
  /\ bob \in {"idle", "done", "rejected"}
  /\ (alpha = -1 \/ alpha \in Zq) /\ (beta = -1 \/ beta \in Zq) /\ (mask = -1 \/ mask \in Masks)
  /\ tampA \in BOOLEAN /\ tampB \in BOOLEAN

BobHonestPoint == WithCheck => (Bpub = PointOf(b) /\ bobX = Bpub)

(* C13, first sentence: whenever both sides produced a share, the shares add up to the product *)
SharesAddUp ==
  (alice = "done" /\ bob = "done") => (alpha + beta) % Q = (a * b) % Q

(* every embedded proof is accepted in an unaltered exchange with an honest public point *)
HonestCompletes ==
  /\ (~tampA /\ bob # "idle") => bob = "done"
  /\ (~tampA /\ ~tampB /\ BobHonestPoint /\ alice \in {"done", "rejected"}) => alice = "done"

(* the masked product never reaches the modulus: decryption returns the integer a*b + beta' *)
NoWrap ==
  /\ (netB # <<>> /\ ~tampB) => (netB[1].c.pt = a * b + mask /\ netB[1].c.pt < NMin /\ netB[1].c.key = "kA" /\ netB[1].c.unit)
  /\ (netA # <<>> /\ ~tampA) => (netA[1].c.pt = a /\ netA[1].c.pt < NMin)

(* C13, last sentence: an altered ciphertext makes its receiver reject; no share comes out of it *)
TamperRejected ==
  /\ tampA => (bob # "done" /\ beta = -1 /\ netB = <<>> /\ alice # "done")
  /\ tampB => (alice # "done" /\ alpha = -1)

(* C13, check variant: Alice only ends with a share if the point she holds for Bob is b*G *)
CheckRejects ==
  (WithCheck /\ alice = "done") => (Bpub = PointOf(b) /\ bobX = Bpub)

=============================================================================
