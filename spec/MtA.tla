------------------------------- MODULE MtA -------------------------------
(* The multiplicative-to-additive exchange of GG18 as implemented in         *)
(* crypto/mta/share_protocol.go (AliceInit, BobMid / BobMidWC, AliceEnd /    *)
(* AliceEndWC), at design level.                                             *)
(*                                                                           *)
(*   Alice (secret a, Paillier key kA)          Bob (secret b, point B = b*G)*)
(*   cA = Enc_kA(a), range proof for cA   --->                               *)
(*                                  verify the range proof against cA        *)
(*                                  beta' <- [0, q^5)                        *)
(*                                  cB = b [*] cA [+] Enc_kA(beta')          *)
(*                                  beta = -beta' mod q                      *)
(*                       <---  cB, proof "cB was made like this (and B=b*G)" *)
(*   verify Bob's proof against (cA, cB [, B])                               *)
(*   alpha = Dec_kA(cB) mod q                                                *)
(*                                                                           *)
(* What is idealised (the cryptographic assumptions, not checked here):      *)
(*  - the encryption is an IDEAL additively homomorphic scheme: a ciphertext *)
(*    is the record [key, pt, rnd, unit] of its key, its integer plaintext,  *)
(*    its randomiser and whether it is a unit modulo N^2; [*] and [+] act on *)
(*    (pt, rnd) exactly like Paillier acts on ((1+N)^pt, rnd^N): plaintexts *)
(*    add / scale in Z, randomisers multiply / are raised to the scalar in a *)
(*    finite group (here the units modulo RMod);                             *)
(*  - a proof made by its prover is the record of its statement plus the     *)
(*    truth value of that statement (perfect completeness and soundness); a  *)
(*    verifier accepts iff the proof is valid AND its statement is the one   *)
(*    the verifier holds;                                                    *)
(*  - a proof may also be CRAFTED (field craft: a row of the catalogue that  *)
(*    MtACraft.tla derives from the verification equations): the network,    *)
(*    after altering a ciphertext, or Bob, proving for a point that is not   *)
(*    b*G, moves responses and recomputes commitments so that every equation *)
(*    holds for the altered statement under the OLD challenge.  The          *)
(*    Fiat-Shamir hash is an oracle: such a transcript passes iff none of    *)
(*    the values it changed (row.changed) enters the challenge.  Unhashed    *)
(*    names the <<system, value>> pairs left out of the hash - {} for the    *)
(*    library; a non-empty set is a design switch that reproduces a          *)
(*    weakened challenge (self-test: the invariants below then FAIL).        *)
(* The plaintext arithmetic is the real one, over the integers, for a toy    *)
(* group order Q in {3, 5}; the Paillier modulus N is symbolic: the only     *)
(* thing assumed about it is N >= NMin = Q^2 + Q^5 (no wrap).                *)
(*                                                                           *)
(* Histories (History = TRUE).  Both receivers live in a process that sees   *)
(* more than one message: after a rejected altered message the genuine one   *)
(* is delivered again (RetryA, RetryB), and after an accepted genuine        *)
(* message an altered one that carries the SAME proof (or a crafted one) is  *)
(* presented (LateA, LateB; LateP: the same message 2 against another        *)
(* point).  memA / memB are what a receiver could remember of the items it   *)
(* has judged; Memo says what it does with that: "none" (the library: every  *)
(* presentation is verified from scratch), "acc-item" (an accepted item is   *)
(* recognised again: harmless), "acc-proof" / "rej-proof" (an accepted /     *)
(* rejected PROOF is recognised whatever it is presented with: design        *)
(* switches that reproduce a memo keyed without the ciphertext; the          *)
(* invariants FAIL).  HistoryFree: the verdict on a presented item does not  *)
(* depend on the history.                                                    *)
(*                                                                           *)
(* Constants: Q (toy prime order), WithCheck (MtA or MtAwc), Masks (the set  *)
(* of values beta' ranges over, a subset of [0, Q^5) - all of it in the      *)
(* exhaustive configurations), CraftRows, History, Memo, Unhashed (above).   *)
EXTENDS Integers, FiniteSets, Sequences, TLC, MtACraft    \* MtACraft: Rows, NoRow, Systems

CONSTANTS Q, WithCheck, Masks, CraftRows, History, Memo, Unhashed

(* the crafted transcripts open to the network and to Bob: {} or the catalogue `Rows` of MtACraft.tla.  The harness  *)
(* passes the rows printed by MtACraftMC as a literal (TLC re-derives `Rows` at every use when it is referenced from  *)
(* an action) and lets TLC compare the literal with `Rows` once per run (ASSUME in a generated wrapper module).       *)
CRows == CraftRows

RECURSIVE IPow(_, _)
IPow(x, e) == IF e = 0 THEN 1 ELSE x * IPow(x, e - 1)

Q3 == IPow(Q, 3)
Q5 == IPow(Q, 5)
Q7 == IPow(Q, 7)

ASSUME Q \in {3, 5}                 \* Q^7 = 78125 fits TLC's 32 bit integers
ASSUME WithCheck \in BOOLEAN /\ History \in BOOLEAN
ASSUME Masks \subseteq 0..(Q5 - 1)
ASSUME Memo \in {"none", "acc-item", "acc-proof", "rej-proof"}
ASSUME \A u \in Unhashed : u[1] \in Systems

Zq   == 0..(Q - 1)
NMin == Q * Q + Q5                  \* assumption on Alice's modulus: N >= NMin

(* ---- randomisers: the units modulo RMod ---- *)
RMod  == 3
Rands == {1, 2}
RPow(r, e) == IPow(r, e) % RMod
RMul(r, s) == (r * s) % RMod

(* ---- points of the toy curve = their discrete logarithms; 0 is the identity, ---- *)
(* ---- which crypto.ECPoint cannot represent: a public point is never 0         ---- *)
NoPoint   == -1
PubPoints == 1..(Q - 1)
PointOf(s) == s % Q

(* ---- ideal additively homomorphic encryption ---- *)
Keys == {"kA", "kX"}                \* Alice's key and somebody else's
Enc(k, m, r)   == [key |-> k, pt |-> m, rnd |-> r, unit |-> TRUE]
HomoMult(s, c) == [c EXCEPT !.pt = s * c.pt, !.rnd = RPow(c.rnd, s)]
HomoAdd(c, d)  == [key |-> c.key, pt |-> c.pt + d.pt, rnd |-> RMul(c.rnd, d.rnd), unit |-> c.unit /\ d.unit]
CanDecrypt(c)  == c.key = "kA" /\ c.unit
Dec(c)         == c.pt              \* = pt mod N, by the invariant NoWrap and N >= NMin

(* ---- proofs ---- *)
(* a crafted transcript passes iff the verifier's challenge does not depend on anything it changed *)
CraftPasses(row) == row.changed # {} /\ \A n \in row.changed : <<row.sys, n>> \in Unhashed
Holds(pf)        == pf.valid /\ (pf.craft = NoRow \/ CraftPasses(pf.craft))

(* Alice: "cA encrypts a value in [0, Q^3] under kA", made for the verifier's ring-Pedersen parameters rpB *)
RangePf(c, m) == [c |-> c, pk |-> "kA", rp |-> "rpB", valid |-> (0 <= m /\ m <= Q3), craft |-> NoRow]
VerifyRange(pf, c) == Holds(pf) /\ pf.c = c /\ pf.pk = "kA" /\ pf.rp = "rpB"

(* Bob: "c2 = s [*] c1 [+] Enc(m) with s in [0,Q^3], m in [0,Q^7] (and X = s*G)"; Bob builds c2 from c1 *)
(* exactly like that, so the homomorphic part of the statement is true by construction               *)
BobPf(c1, c2, s, m, X) ==
  [c1 |-> c1, c2 |-> c2, pk |-> "kA", rp |-> "rpA", X |-> X,
   valid |-> (0 <= s /\ s <= Q3 /\ 0 <= m /\ m <= Q7 /\ (X # NoPoint => X = PointOf(s))), craft |-> NoRow]
VerifyBob(pf, c1, c2, X) == Holds(pf) /\ pf.c1 = c1 /\ pf.c2 = c2 /\ pf.pk = "kA" /\ pf.rp = "rpA" /\ pf.X = X

(* ---- what the network can do to a ciphertext in transit ---- *)
Alterations(c) ==
  (   { [c EXCEPT !.rnd = r] : r \in Rands }                    \* re-randomised, same plaintext
   \cup { [c EXCEPT !.pt = c.pt + 1], [c EXCEPT !.pt = c.pt + Q] } \* plaintext shifted (+Q keeps it mod Q)
   \cup { Enc("kA", m, r) : m \in {0, Q - 1}, r \in Rands }     \* a well-formed ciphertext of another exchange
   \cup { [c EXCEPT !.unit = FALSE] }                           \* not a unit modulo N^2
   \cup { [c EXCEPT !.key = "kX"] }                             \* made under another key
  ) \ {c}
(* message 2 can also be multiplied by message 1 (cB * cA: the multiplier b becomes b + 1) *)
AlterationsB(c, c1) == (Alterations(c) \cup {HomoAdd(c, c1)}) \ {c}

(* ... and to the proof that travels with it: nothing (NoRow), or one of the crafted transcripts open to a party *)
(* that knows how the new ciphertext relates to the old one                                                     *)
AltClasses(site, c, c2, c1) ==
  IF ~c2.unit THEN {}                                           \* the equations need c2^-e
  ELSE {"free"}
       \cup (IF c2.key = c.key /\ c2.pt = c.pt /\ c2.rnd # c.rnd THEN {"rand"} ELSE {})
       \cup (IF c2.key = c.key /\ c2.rnd = c.rnd /\ c2.pt > c.pt THEN {"gamma"} ELSE {})
       \cup (IF site = "cB" /\ c2 = HomoAdd(c, c1) THEN {"c1pow"} ELSE {})
SysAt(site) == IF site = "cA" THEN "alice" ELSE IF WithCheck THEN "bobwc" ELSE "bob"
RowsCA    == {r \in CRows : r.site = "cA" /\ r.sys = "alice"}
RowsCB    == {r \in CRows : r.site = "cB" /\ r.sys = SysAt("cB")}
PointRows == {r \in CRows : r.site = "B"}
RowsAt(site, c, c2, c1) ==
  IF CRows = {} THEN {NoRow}
  ELSE LET cls == AltClasses(site, c, c2, c1)
       IN  {NoRow} \cup {r \in (IF site = "cA" THEN RowsCA ELSE RowsCB) : r.alt \in cls}

VARIABLES
  a, b,        \* the two secrets, in [0, Q)
  Bpub,        \* MtAwc: the point Alice holds as "Bob's public point" (NoPoint in plain MtA)
  bobX,        \* MtAwc: the point Bob puts into his proof
  cA,          \* <<>> or <<the ciphertext Alice sent and keeps for AliceEnd>>
  netA, netB,  \* <<>> or <<[c |-> ciphertext, pf |-> proof]>> : message 1 / message 2 in transit
  alice,       \* "idle" | "waiting" | "done" | "rejected"
  bob,         \* "idle" | "done" | "rejected"
  alpha, beta, \* the additive shares (-1: none)
  mask,        \* beta' (-1: none)
  tampA, tampB,\* was the message now in transit / last judged altered
  sentB,       \* <<>> or <<message 2 as Bob sent it>> (for retransmission and later presentations)
  memA, memB,  \* what Bob / Alice could remember of the items they have judged (History only)
  retriedA, retriedB,   \* the genuine message was delivered again after a rejected altered one
  lateA, lateB, lateP   \* "none" | "rejected" | "accepted": verdicts on items presented after an accepted one
hist == <<sentB, memA, memB, retriedA, retriedB, lateA, lateB, lateP>>
vars == <<a, b, Bpub, bobX, cA, netA, netB, alice, bob, alpha, beta, mask, tampA, tampB, hist>>

Start(aa, bb, bp, bx) ==
  /\ a = aa /\ b = bb /\ Bpub = bp /\ bobX = bx
  /\ cA = <<>> /\ netA = <<>> /\ netB = <<>>
  /\ alice = "idle" /\ bob = "idle"
  /\ alpha = -1 /\ beta = -1 /\ mask = -1
  /\ tampA = FALSE /\ tampB = FALSE
  /\ sentB = <<>> /\ memA = {} /\ memB = {}
  /\ retriedA = FALSE /\ retriedB = FALSE
  /\ lateA = "none" /\ lateB = "none" /\ lateP = "none"

Init ==
  \E aa \in Zq, bb \in Zq :
    IF WithCheck
    THEN \E bp \in PubPoints : \E bx \in {bp} \cup ({PointOf(bb)} \cap PubPoints) : Start(aa, bb, bp, bx)
    ELSE Start(aa, bb, NoPoint, NoPoint)

(* ---- the receivers' verdicts ---- *)
(* what a receiver with a memo answers without verifying ("": it verifies) *)
Remembered(mem, pf, item) ==
  CASE Memo = "acc-proof" /\ (\E h \in mem : h.ok /\ h.pf = pf)      -> "yes"
    [] Memo = "acc-item"  /\ (\E h \in mem : h.ok /\ h.item = item)  -> "yes"
    [] Memo = "rej-proof" /\ (\E h \in mem : ~h.ok /\ h.pf = pf)     -> "no"
    [] OTHER -> ""
Judge(mem, pf, item, verified) ==
  LET r == Remembered(mem, pf, item) IN IF r = "yes" THEN TRUE ELSE IF r = "no" THEN FALSE ELSE verified
(* only what the memo policy looks at is kept (Memo = "none": nothing - the state space does not carry dead history) *)
Remember(mem, pf, item, ok) ==
  CASE ~History \/ Memo = "none"          -> mem
    [] Memo = "acc-item"                   -> IF ok THEN mem \cup {[pf |-> pf, item |-> item, ok |-> ok]} ELSE mem
    [] Memo = "acc-proof"                  -> IF ok THEN mem \cup {[pf |-> pf, item |-> pf, ok |-> ok]} ELSE mem
    [] Memo = "rej-proof"                  -> IF ok THEN mem ELSE mem \cup {[pf |-> pf, item |-> pf, ok |-> ok]}

(* Bob on message m: the range proof, against the ciphertext that came with it *)
BobVerifies(m) == VerifyRange(m.pf, m.c)
BobDecides(m)  == Judge(memA, m.pf, m, BobVerifies(m))
(* Alice on message m, holding c1 and the point X: Bob's proof, then the decryption *)
AliceItem(m, c1, X)     == [m |-> m, c1 |-> c1, X |-> X]
AliceVerifies(m, c1, X) == VerifyBob(m.pf, c1, m.c, X)
AliceDecides(m, c1, X)  == Judge(memB, m.pf, AliceItem(m, c1, X), AliceVerifies(m, c1, X)) /\ CanDecrypt(m.c)

Msg1 == [c |-> cA[1], pf |-> RangePf(cA[1], a)]       \* message 1 as Alice made it

(* share_protocol.go AliceInit: encrypt a, prove its range *)
AliceInit(r) ==
  /\ alice = "idle"
  /\ LET c == Enc("kA", a, r) IN
       /\ cA' = <<c>>
       /\ netA' = <<[c |-> c, pf |-> RangePf(c, a)]>>
  /\ alice' = "waiting"
  /\ UNCHANGED <<a, b, Bpub, bobX, netB, bob, alpha, beta, mask, tampA, tampB, hist>>

WithRow(pf, row) == IF row = NoRow THEN pf ELSE [pf EXCEPT !.craft = row]

TamperCAEff(c2, row) ==
  /\ netA' = <<[c |-> c2, pf |-> IF row = NoRow THEN netA[1].pf ELSE [netA[1].pf EXCEPT !.c = c2, !.craft = row]]>>
  /\ tampA' = TRUE
  /\ UNCHANGED <<a, b, Bpub, bobX, cA, netB, alice, bob, alpha, beta, mask, tampB, hist>>
TamperCA(c2, row) ==
  /\ netA # <<>> /\ ~tampA
  /\ c2 \in Alterations(netA[1].c)
  /\ row \in RowsAt("cA", netA[1].c, c2, c2)
  /\ TamperCAEff(c2, row)

(* share_protocol.go BobMid / BobMidWC, proof accepted *)
BobAccept(m, r) ==
  /\ bob = "idle" /\ netA # <<>>
  /\ m \in Masks /\ r \in Rands
  /\ BobDecides(netA[1])
  /\ LET c1 == netA[1].c
         c2 == HomoAdd(HomoMult(b, c1), Enc("kA", m, r))
         m2 == [c |-> c2, pf |-> BobPf(c1, c2, b, m, bobX)]
     IN netB' = <<m2>> /\ sentB' = <<m2>>
  /\ mask' = m
  /\ beta' = (Q - (m % Q)) % Q
  /\ bob' = "done"
  /\ netA' = <<>>
  /\ memA' = Remember(memA, netA[1].pf, netA[1], TRUE)
  /\ UNCHANGED <<a, b, Bpub, bobX, cA, alice, alpha, tampA, tampB, memB, retriedA, retriedB, lateA, lateB, lateP>>

(* ... proof refused: Bob returns an error, nothing is sent *)
BobReject ==
  /\ bob = "idle" /\ netA # <<>>
  /\ ~BobDecides(netA[1])
  /\ bob' = "rejected"
  /\ netA' = <<>>
  /\ memA' = Remember(memA, netA[1].pf, netA[1], FALSE)
  /\ UNCHANGED <<a, b, Bpub, bobX, cA, netB, alice, alpha, beta, mask, tampA, tampB, sentB, memB, retriedA, retriedB, lateA, lateB, lateP>>

(* a cheating Bob (check variant, his point is not b*G): after running the prover he recomputes commitments *)
BobCraftEff(row) ==
  /\ LET m2 == [netB[1] EXCEPT !.pf.craft = row, !.pf.valid = TRUE] IN netB' = <<m2>> /\ sentB' = <<m2>>
  /\ UNCHANGED <<a, b, Bpub, bobX, cA, netA, alice, bob, alpha, beta, mask, tampA, tampB, memA, memB, retriedA, retriedB, lateA, lateB, lateP>>
BobCraftOK == WithCheck /\ netB # <<>> /\ ~tampB /\ alice = "waiting" /\ bobX # PointOf(b) /\ netB[1].pf.craft = NoRow
BobCraft(row) == BobCraftOK /\ row \in PointRows /\ BobCraftEff(row)

AlteredMsg2(m, c2, row) == [c |-> c2, pf |-> IF row = NoRow THEN m.pf ELSE [m.pf EXCEPT !.c2 = c2, !.craft = row]]

TamperCBEff(c2, row) ==
  /\ netB' = <<AlteredMsg2(netB[1], c2, row)>>
  /\ tampB' = TRUE
  /\ UNCHANGED <<a, b, Bpub, bobX, cA, netA, alice, bob, alpha, beta, mask, tampA, hist>>
TamperCB(c2, row) ==
  /\ netB # <<>> /\ ~tampB
  /\ c2 \in AlterationsB(netB[1].c, cA[1])
  /\ row \in RowsAt("cB", netB[1].c, c2, cA[1])
  /\ (row = NoRow \/ netB[1].pf.craft = NoRow)
  /\ TamperCBEff(c2, row)

AliceAcceptable == AliceDecides(netB[1], cA[1], Bpub)

(* share_protocol.go AliceEnd / AliceEndWC *)
AliceAccept ==
  /\ alice = "waiting" /\ netB # <<>>
  /\ AliceAcceptable
  /\ alpha' = Dec(netB[1].c) % Q
  /\ alice' = "done"
  /\ netB' = <<>>
  /\ memB' = Remember(memB, netB[1].pf, AliceItem(netB[1], cA[1], Bpub), TRUE)
  /\ UNCHANGED <<a, b, Bpub, bobX, cA, netA, bob, beta, mask, tampA, tampB, sentB, memA, retriedA, retriedB, lateA, lateB, lateP>>

AliceReject ==
  /\ alice = "waiting" /\ netB # <<>>
  /\ ~AliceAcceptable
  /\ alice' = "rejected"
  /\ netB' = <<>>
  /\ memB' = Remember(memB, netB[1].pf, AliceItem(netB[1], cA[1], Bpub), FALSE)
  /\ UNCHANGED <<a, b, Bpub, bobX, cA, netA, bob, alpha, beta, mask, tampA, tampB, sentB, memA, retriedA, retriedB, lateA, lateB, lateP>>

(* ---- histories ---- *)
Finished == alice \in {"done", "rejected"} \/ bob = "rejected"      \* somebody rejected or both hold a share

(* the altered message 1 was refused; the genuine one arrives (once more) *)
RetryA ==
  /\ History /\ bob = "rejected" /\ tampA /\ ~retriedA
  /\ netA' = <<Msg1>> /\ bob' = "idle" /\ tampA' = FALSE /\ retriedA' = TRUE
  /\ UNCHANGED <<a, b, Bpub, bobX, cA, netB, alice, alpha, beta, mask, tampB, sentB, memA, memB, retriedB, lateA, lateB, lateP>>

RetryB ==
  /\ History /\ alice = "rejected" /\ tampB /\ ~retriedB /\ sentB # <<>>
  /\ netB' = sentB /\ alice' = "waiting" /\ tampB' = FALSE /\ retriedB' = TRUE
  /\ UNCHANGED <<a, b, Bpub, bobX, cA, netA, bob, alpha, beta, mask, tampA, sentB, memA, memB, retriedA, lateA, lateB, lateP>>

Verdict(old, ok) == IF ok \/ old = "accepted" THEN "accepted" ELSE "rejected"

(* Bob has accepted message 1; the same process is handed an altered ciphertext with the same (or a crafted) proof *)
LateMsgA(c2, row)   == [c |-> c2, pf |-> IF row = NoRow THEN Msg1.pf ELSE [Msg1.pf EXCEPT !.c = c2, !.craft = row]]
LateCaseA(c2, row)  == c2 \in Alterations(cA[1]) /\ row \in RowsAt("cA", cA[1], c2, c2)
LateA(c2, row) ==
  /\ History /\ bob = "done" /\ Finished
  /\ LateCaseA(c2, row)
  /\ lateA' = Verdict(lateA, BobDecides(LateMsgA(c2, row)))
  /\ UNCHANGED <<a, b, Bpub, bobX, cA, netA, netB, alice, bob, alpha, beta, mask, tampA, tampB, sentB, memA, memB, retriedA, retriedB, lateB, lateP>>

(* Alice has accepted message 2; she is handed an altered cB with the same (or a crafted) proof *)
LateCaseB(c2, row) ==
  /\ c2 \in AlterationsB(sentB[1].c, cA[1]) /\ row \in RowsAt("cB", sentB[1].c, c2, cA[1])
  /\ (row = NoRow \/ sentB[1].pf.craft = NoRow)
LateB(c2, row) ==
  /\ History /\ alice = "done" /\ sentB # <<>>
  /\ LateCaseB(c2, row)
  /\ lateB' = Verdict(lateB, AliceDecides(AlteredMsg2(sentB[1], c2, row), cA[1], Bpub))
  /\ UNCHANGED <<a, b, Bpub, bobX, cA, netA, netB, alice, bob, alpha, beta, mask, tampA, tampB, sentB, memA, memB, retriedA, retriedB, lateA, lateP>>

(* ... or the same message 2 to be checked against another point (row: Bob re-crafts his proof for that point) *)
LateMsgP(bp, row)  == IF row = NoRow THEN sentB[1] ELSE [sentB[1] EXCEPT !.pf.X = bp, !.pf.craft = row, !.pf.valid = TRUE]
LateCaseP(bp, row) == bp \in PubPoints \ {Bpub} /\ row \in {NoRow} \cup PointRows
LateP(bp, row) ==
  /\ History /\ WithCheck /\ alice = "done" /\ sentB # <<>>
  /\ LateCaseP(bp, row)
  /\ lateP' = Verdict(lateP, AliceDecides(LateMsgP(bp, row), cA[1], bp))
  /\ UNCHANGED <<a, b, Bpub, bobX, cA, netA, netB, alice, bob, alpha, beta, mask, tampA, tampB, sentB, memA, memB, retriedA, retriedB, lateA, lateB>>

(* For the model checker: ALL later presentations of a state in one step (the verdict is "accepted" if any of them is *)
(* accepted) - the single presentations above all lead to one of the same two successors.                            *)
LateAll ==
  /\ History /\ Finished /\ (bob = "done" \/ alice = "done")
  /\ (lateA = "none" /\ bob = "done") \/ (alice = "done" /\ sentB # <<>> /\ (lateB = "none" \/ (WithCheck /\ lateP = "none")))
  /\ lateA' = IF bob = "done"
               THEN Verdict(lateA, \E c2 \in Alterations(cA[1]) : \E row \in RowsAt("cA", cA[1], c2, c2) : BobDecides(LateMsgA(c2, row)))
               ELSE lateA
  /\ lateB' = IF alice = "done" /\ sentB # <<>>
               THEN Verdict(lateB, \E c2 \in AlterationsB(sentB[1].c, cA[1]) : \E row \in RowsAt("cB", sentB[1].c, c2, cA[1]) :
                                      LateCaseB(c2, row) /\ AliceDecides(AlteredMsg2(sentB[1], c2, row), cA[1], Bpub))
               ELSE lateB
  /\ lateP' = IF WithCheck /\ alice = "done" /\ sentB # <<>>
               THEN Verdict(lateP, \E bp \in PubPoints \ {Bpub} : \E row \in {NoRow} \cup PointRows : AliceDecides(LateMsgP(bp, row), cA[1], bp))
               ELSE lateP
  /\ UNCHANGED <<a, b, Bpub, bobX, cA, netA, netB, alice, bob, alpha, beta, mask, tampA, tampB, sentB, memA, memB, retriedA, retriedB>>

(* the exchange is over: somebody rejected or both hold a share (terminal stuttering, so that *)
(* TLC's deadlock check reports a stall anywhere else)                                        *)
Done     == Finished /\ UNCHANGED vars

Next ==
  \/ (alice = "idle" /\ \E r \in Rands : AliceInit(r))
  \/ (netA # <<>> /\ ~tampA /\ \E c \in Alterations(netA[1].c) : \E row \in RowsAt("cA", netA[1].c, c, c) : TamperCAEff(c, row))
  \/ (bob = "idle" /\ netA # <<>> /\ \E m \in Masks, r \in Rands : BobAccept(m, r))
  \/ BobReject
  \/ (BobCraftOK /\ \E row \in PointRows : BobCraftEff(row))
  \/ (netB # <<>> /\ ~tampB /\ \E c \in AlterationsB(netB[1].c, cA[1]) : \E row \in RowsAt("cB", netB[1].c, c, cA[1]) :
        (row = NoRow \/ netB[1].pf.craft = NoRow) /\ TamperCBEff(c, row))
  \/ AliceAccept
  \/ AliceReject
  \/ RetryA
  \/ RetryB
  \/ LateAll
  \/ Done

Spec == Init /\ [][Next]_vars

-----------------------------------------------------------------------------
PtMax == NMin + Q                   \* largest plaintext an altered ciphertext can carry here
IsCt(c) == c.key \in Keys /\ 0 <= c.pt /\ c.pt <= PtMax /\ c.rnd \in Rands /\ c.unit \in BOOLEAN
Verdicts == {"none", "rejected", "accepted"}

TypeOK ==
  /\ a \in Zq /\ b \in Zq
  /\ Bpub \in PubPoints \cup {NoPoint} /\ bobX \in PubPoints \cup {NoPoint}
  /\ Len(cA) <= 1 /\ Len(netA) <= 1 /\ Len(netB) <= 1 /\ Len(sentB) <= 1
  /\ \A i \in 1..Len(cA) : IsCt(cA[i])
  /\ \A i \in 1..Len(netA) : IsCt(netA[i].c) /\ netA[i].pf.craft \in CRows \cup {NoRow}
  /\ \A i \in 1..Len(netB) : IsCt(netB[i].c) /\ netB[i].pf.craft \in CRows \cup {NoRow}
  /\ \A i \in 1..Len(sentB) : IsCt(sentB[i].c)
  /\ alice \in {"idle", "waiting", "done", "rejected"}
  /\ bob \in {"idle", "done", "rejected"}
  /\ (alpha = -1 \/ alpha \in Zq) /\ (beta = -1 \/ beta \in Zq) /\ (mask = -1 \/ mask \in Masks)
  /\ tampA \in BOOLEAN /\ tampB \in BOOLEAN /\ retriedA \in BOOLEAN /\ retriedB \in BOOLEAN
  /\ lateA \in Verdicts /\ lateB \in Verdicts /\ lateP \in Verdicts
  /\ (~History => memA = {} /\ memB = {} /\ ~retriedA /\ ~retriedB /\ lateA = "none" /\ lateB = "none" /\ lateP = "none")
  /\ (\A h \in memA : h.ok \in BOOLEAN) /\ (\A h \in memB : h.ok \in BOOLEAN)
  /\ (Memo = "none" => memA = {} /\ memB = {})

BobHonestPoint == WithCheck => (Bpub = PointOf(b) /\ bobX = Bpub)

(* C13, first sentence: whenever both sides produced a share, the shares add up to the product *)
SharesAddUp ==
  (alice = "done" /\ bob = "done") => (alpha + beta) % Q = (a * b) % Q

(* every embedded proof is accepted in an unaltered exchange with an honest public point *)
(* (also when the genuine message is delivered after an altered one was refused)         *)
HonestCompletes ==
  /\ (~tampA /\ bob # "idle") => bob = "done"
  /\ (~tampA /\ ~tampB /\ BobHonestPoint /\ alice \in {"done", "rejected"}) => alice = "done"

(* the masked product never reaches the modulus: decryption returns the integer a*b + beta' *)
NoWrap ==
  /\ (netB # <<>> /\ ~tampB) => (netB[1].c.pt = a * b + mask /\ netB[1].c.pt < NMin /\ netB[1].c.key = "kA" /\ netB[1].c.unit)
  /\ (netA # <<>> /\ ~tampA) => (netA[1].c.pt = a /\ netA[1].c.pt < NMin)

(* C13, last sentence: an altered ciphertext makes its receiver reject; no share comes out of it *)
TamperRejected ==
  /\ tampA => (bob # "done" /\ beta = -1 /\ netB = <<>> /\ alice # "done")
  /\ tampB => (alice # "done" /\ alpha = -1)

(* ... also when it is presented to a receiver that has accepted the genuine item before; and Alice, *)
(* having accepted for b*G, refuses the same message for any other point                             *)
LateRejected == lateA # "accepted" /\ lateB # "accepted" /\ lateP # "accepted"

(* the verdict on the item now presented does not depend on what the receiver has seen before *)
HistoryFree ==
  /\ (netA # <<>> /\ bob = "idle") => (BobDecides(netA[1]) = BobVerifies(netA[1]))
  /\ (netB # <<>> /\ alice = "waiting") => (AliceDecides(netB[1], cA[1], Bpub) = (AliceVerifies(netB[1], cA[1], Bpub) /\ CanDecrypt(netB[1].c)))

(* C13, check variant: Alice only ends with a share if the point she holds for Bob is b*G *)
CheckRejects ==
  (WithCheck /\ alice = "done") => (Bpub = PointOf(b) /\ bobX = Bpub)

=============================================================================
