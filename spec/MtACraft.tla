------------------------------ MODULE MtACraft ------------------------------
(* Property C13, crafted transcripts.                                          *)
(*                                                                             *)
(* MtA.tla treats the three proofs embedded in the exchange (Alice's range     *)
(* proof, Bob's proof without / with check) as ideal.  The rejections the      *)
(* property demands ("altered in transit => the receiver rejects", "the point  *)
(* is not b*G => Alice rejects") must however also hold against a party that   *)
(* does not leave the proof alone: the network, after altering a ciphertext,   *)
(* and a cheating Bob, after running the prover for the point Alice holds,     *)
(* can RECOMPUTE parts of the transcript from the verification equations.      *)
(* This module writes down those equations (the checks of                      *)
(* crypto/mta/range_proof.go and proofs.go, each in the form  commitment =     *)
(* f(statement, responses, challenge): operator ...Sim) over toy groups and    *)
(* DERIVES the catalogue of crafted transcripts:                               *)
(*                                                                             *)
(*   - an alteration of the statement comes with a NEW witness (known to the   *)
(*     crafting party for the structured alterations c*Gamma^d, c*x^N,         *)
(*     cB*cA^d, X' = (b+d)G; unknown for an unrelated value: class "free");    *)
(*   - every witness-dependent component of the transcript (the SLOTS:         *)
(*     responses s1, t1, s and the commitments to the witness z, t) is taken   *)
(*     either from the old or from the new witness (a public operation on the  *)
(*     transcript: s1 + e*d, s * x^e, z * h1^d ...);                           *)
(*   - every first-move commitment whose equation no longer holds is           *)
(*     recomputed from that equation WITH THE CHALLENGE HELD FIXED (abs);      *)
(*   - changed = the hashed values (statement, commitments) that differ from   *)
(*     what the prover hashed.  The crafted transcript satisfies every         *)
(*     equation under the old challenge, so a verifier whose challenge does    *)
(*     not depend on `changed` accepts it; a verifier that hashes any of them  *)
(*     derives a fresh challenge, and the transcript is valid for the old one  *)
(*     only (CraftPinned).                                                     *)
(* Kept: the slot choices whose `changed` set is minimal (a verifier that      *)
(* falls for a dominated row falls for a kept one).  harness/props/c13.go      *)
(* concretises every row on real-size transcripts INSIDE the exchange (the     *)
(* challenge is recovered with Alice's Paillier trapdoor, not by re-hashing)   *)
(* and MtA.tla / MtA_Trace.tla carry the rows as possible moves of the network *)
(* (TamperCA, TamperCB, LateA, LateB) and of Bob (BobCraft, LateP).            *)
(*                                                                             *)
(* Groups, written additively (an element is its discrete logarithm), as in    *)
(* ProofBinding.tla:  E = Z_CQ (curve),  P = Z_R (<h2> in Z*_NTilde, h1 =      *)
(* h2^lam),  C = Z_NP x Z_RHO (Paillier ciphertexts Gamma^m * r^N),            *)
(* RN = Z_RHO (Z*_N as far as r -> r^N sees it).  Responses are integers.      *)
(* This module has no variables (MtA.tla instantiates it); the checks are in   *)
(* MtACraftMC.tla.                                                             *)
EXTENDS Integers, FiniteSets, Sequences, TLC

CQ  == 5
R   == 7
NP  == 11
RHO == 13
CQ3 == CQ * CQ * CQ
CQ7 == CQ3 * CQ3 * CQ

Mod(a, n) == ((a % n) + n) % n

CEnc(m, r) == <<Mod(m, NP), Mod(r, RHO)>>
CAdd(x, y) == <<Mod(x[1] + y[1], NP), Mod(x[2] + y[2], RHO)>>
CMul(k, x) == <<Mod(k * x[1], NP), Mod(k * x[2], RHO)>>
CSub(x, y) == CAdd(x, CMul(-1, y))
Gamma      == <<1, 0>>
NPow(s)    == <<0, Mod(s, RHO)>>          \* s^N mod N^2

Systems == {"alice", "bob", "bobwc"}
IsWC(S) == S = "bobwc"

(* components: first-move commitments (one per equation), hashed proof values, hashed statement values, slots *)
Commits(S)  == IF S = "alice" THEN {"U", "W"} ELSE IF S = "bob" THEN {"ZPrm", "V", "W"} ELSE {"ZPrm", "V", "W", "U"}
HashedPf(S) == IF S = "alice" THEN {"Z", "U", "W"} ELSE IF S = "bob" THEN {"Z", "ZPrm", "T", "V", "W"} ELSE {"Z", "ZPrm", "T", "V", "W", "U"}
HashedSt(S) == IF S = "alice" THEN {"c"} ELSE IF S = "bob" THEN {"c1", "c2"} ELSE {"c1", "c2", "X"}
Slots(S)    == IF S = "alice" THEN {"Z", "S1", "S"} ELSE {"Z", "S1", "T", "T1", "S"}

-----------------------------------------------------------------------------
(* Alice's range proof (range_proof.go).  Instance i: witness (m, r), prover randomness (al, be, ga, rho), lam. *)
(* mz, ms, rs: the witness the slots Z, S1, S are computed from                                                 *)
ATr(i, e, mz, ms, rs) ==
  [ Z  |-> Mod(mz * i.lam + i.rho, R),              \* z = h1^m h2^rho
    U  |-> CEnc(i.al, i.be),                        \* u = Gamma^alpha beta^N
    W  |-> Mod(i.al * i.lam + i.ga, R),             \* w = h1^alpha h2^gamma
    S  |-> Mod(e * rs + i.be, RHO),                 \* s = r^e beta
    S1 |-> e * ms + i.al,
    S2 |-> e * i.rho + i.ga ]
ASim(st, t, e, lam) ==
  [t EXCEPT !.U = CSub(CAdd(CMul(t.S1, Gamma), NPow(t.S)), CMul(e, st.c)),     \* u = Gamma^s1 s^N c^-e
            !.W = Mod(t.S1 * lam + t.S2 - e * t.Z, R)]                         \* w = h1^s1 h2^s2 z^-e
AGuards(t) == t.S1 >= CQ /\ t.S2 >= CQ /\ t.S1 <= CQ3 /\ t.S1 # t.S2 /\ t.S # 0 /\ t.Z # 0

(* Bob's proof without / with check (proofs.go).  Instance i: witness (x, y, r), c1, prover randomness, lam. *)
BTr(i, e, wc, xz, xs, yt, ys, rs) ==
  [ Z    |-> Mod(xz * i.lam + i.rho, R),            \* z  = h1^x h2^rho
    ZPrm |-> Mod(i.al * i.lam + i.rhoP, R),         \* z' = h1^alpha h2^rho'
    T    |-> Mod(yt * i.lam + i.sg, R),             \* t  = h1^y h2^sigma
    V    |-> CAdd(CAdd(CMul(i.al, i.c1), CMul(i.ga, Gamma)), NPow(i.be)),   \* v = c1^alpha Gamma^gamma beta^N
    W    |-> Mod(i.ga * i.lam + i.tau, R),          \* w  = h1^gamma h2^tau
    S    |-> Mod(e * rs + i.be, RHO),
    S1   |-> e * xs + i.al,
    S2   |-> e * i.rho + i.rhoP,
    T1   |-> e * ys + i.ga,
    T2   |-> e * i.sg + i.tau,
    U    |-> IF wc THEN Mod(i.al, CQ) ELSE -1 ]     \* u = alpha*G
BSim(st, t, e, lam, wc) ==
  [t EXCEPT !.ZPrm = Mod(t.S1 * lam + t.S2 - e * t.Z, R),                                             \* h1^s1 h2^s2 = z^e z'
            !.W    = Mod(t.T1 * lam + t.T2 - e * t.T, R),                                             \* h1^t1 h2^t2 = t^e w
            !.V    = CSub(CAdd(CAdd(CMul(t.S1, st.c1), NPow(t.S)), CMul(t.T1, Gamma)), CMul(e, st.c2)), \* c1^s1 s^N Gamma^t1 = c2^e v
            !.U    = IF wc THEN Mod(t.S1 - e * st.X, CQ) ELSE -1]                                     \* s1*G = e*X + U
BGuards(st, t, wc) ==
  /\ t.S1 >= CQ /\ t.S2 >= CQ /\ t.T1 >= CQ /\ t.T2 >= CQ /\ t.S1 <= CQ3 /\ t.T1 <= CQ7
  /\ wc => (st.X # 0 /\ t.S1 % CQ # 0 /\ t.U # 0)          \* points are representable (never the identity)

Sim(S, st, t, e, lam)  == IF S = "alice" THEN ASim(st, t, e, lam) ELSE BSim(st, t, e, lam, IsWC(S))
Guards(S, st, t)       == IF S = "alice" THEN AGuards(t) ELSE BGuards(st, t, IsWC(S))
Accept(S, st, t, e, lam) == Guards(S, st, t) /\ Sim(S, st, t, e, lam) = t
AcceptSet(S, st, t, lam) == {e \in 0..(CQ - 1) : Accept(S, st, t, e, lam)}

-----------------------------------------------------------------------------
(* sites of the exchange, alterations of the statement, the witness that goes with them *)
Sites == {"cA", "cB", "B"}
SysOf(site) == IF site = "cA" THEN {"alice"} ELSE IF site = "cB" THEN {"bob", "bobwc"} ELSE {"bobwc"}
AltsOf(site) ==
  CASE site = "cA" -> {"gamma", "rand", "free"}            \* c*Gamma^d | c*x^N | an unrelated unit
    [] site = "cB" -> {"gamma", "rand", "c1pow", "free"}   \* ... | cB*cA^d (the multiplier b becomes b+d)
    [] site = "B"  -> {"point"}                            \* Alice holds X' = (b+d)*G; cB is made with b
Known(alt) == alt # "free"        \* does the crafting party know the new witness (d resp. x)

NewWitA(w, alt, d) ==
  CASE alt = "gamma" -> [m |-> w.m + d, r |-> w.r]
    [] alt = "rand"  -> [m |-> w.m, r |-> w.r + d]
    [] OTHER         -> [m |-> w.m + 3, r |-> w.r + 6]
NewWitB(w, alt, d) ==
  CASE alt = "gamma" -> [x |-> w.x, y |-> w.y + d, r |-> w.r]
    [] alt = "rand"  -> [x |-> w.x, y |-> w.y, r |-> w.r + d]
    [] alt \in {"c1pow", "point"} -> [x |-> w.x + d, y |-> w.y, r |-> w.r]
    [] OTHER         -> [x |-> w.x, y |-> w.y + 3, r |-> w.r + 6]

AStmt(w)        == [c |-> CEnc(w.m, w.r)]
BC2(i, w)       == CAdd(CMul(w.x, i.c1), CEnc(w.y, w.r))          \* c2 = c1^x Gamma^y r^N
BStmt(i, w, px) == [c1 |-> i.c1, c2 |-> BC2(i, w), X |-> Mod(px, CQ)]

(* One crafted transcript.  new: the slots computed from the new witness.                                *)
(*   cA, cB: the genuine prover hashed (genuine statement, genuine transcript); the network alters the   *)
(*           ciphertext, moves the slots, recomputes commitments.                                        *)
(*   B:      the cheating Bob runs the prover himself for (c1, cB made with b, X' held by Alice) with    *)
(*           the multiplier x or x+d (one prover run: Z and S1 from the same value) and then recomputes  *)
(*           commitments; what he hashed is his own run.                                                 *)
Craft(site, S, alt, new, i, e, d) ==
  LET wc == IsWC(S)
      pick(n, old, nw) == IF n \in new THEN nw ELSE old
  IN IF S = "alice"
     THEN LET w   == [m |-> i.m, r |-> i.r]
              w2  == NewWitA(w, alt, d)
              st  == AStmt(w)
              st2 == AStmt(w2)
              bas == ATr(i, e, w.m, w.m, w.r)
              mov == ATr(i, e, pick("Z", w.m, w2.m), pick("S1", w.m, w2.m), pick("S", w.r, w2.r))
          IN [st |-> st, st2 |-> st2, base |-> bas, moved |-> mov, out |-> ASim(st2, mov, e, i.lam)]
     ELSE LET w   == [x |-> i.x, y |-> i.y, r |-> i.r]
              w2  == NewWitB(w, alt, d)
              st2 == IF site = "B" THEN BStmt(i, w, w2.x) ELSE BStmt(i, w2, w.x)
              st  == IF site = "B" THEN st2 ELSE BStmt(i, w, w.x)
              mov == BTr(i, e, wc, pick("Z", w.x, w2.x), pick("S1", w.x, w2.x), pick("T", w.y, w2.y), pick("T1", w.y, w2.y), pick("S", w.r, w2.r))
              bas == IF site = "B" THEN mov ELSE BTr(i, e, wc, w.x, w.x, w.y, w.y, w.r)
          IN [st |-> st, st2 |-> st2, base |-> bas, moved |-> mov, out |-> BSim(st2, mov, e, i.lam, wc)]

Absorbed(S, k) == {n \in Commits(S) : k.out[n] # k.moved[n]}
Changed(S, k)  == {n \in HashedSt(S) : k.st2[n] # k.st[n]} \cup {n \in HashedPf(S) : k.out[n] # k.base[n]}

(* slot choices open to the crafting party *)
SlotChoices(site, S, alt) ==
  IF ~Known(alt) THEN {{}}
  ELSE IF site = "B" THEN {{}, {"Z", "S1"}}         \* one run of the library's prover: a single multiplier
  ELSE SUBSET Slots(S)

-----------------------------------------------------------------------------
(* instances.  The derivation uses challenges and a lam on which the coefficients do not blur (e = 0,   *)
(* e = -e, lam = +-1).  abs / changed of a slot choice are the unions over the instances (a coincidence *)
(* of probability 1/(group order) can only make a set smaller on one instance); a slot choice is        *)
(* realisable (ok) if the verifier's guards - ranges, representable points, s # 1, z # 1, s1 # s2 -     *)
(* hold for the crafted transcript of at least one instance.                                            *)
AInst == {[m |-> m, r |-> 2, al |-> al, be |-> 4, ga |-> 9, rho |-> 2, lam |-> 3] : m \in {1, 2}, al \in {6, 13}}
BInst == {[x |-> x, y |-> 3, r |-> 4, al |-> al, rho |-> 3, sg |-> 3, tau |-> 10, rhoP |-> 10, be |-> 6, ga |-> 10, lam |-> 3, c1 |-> c1] :
             x \in {1, 2}, al \in {8, 14}, c1 \in {CEnc(2, 5), CEnc(7, 1)}}
Inst(S)  == IF S = "alice" THEN AInst ELSE BInst
Chals    == 1..(CQ - 1)
DChals   == {2, 3}
Ds(alt)  == IF alt = "point" THEN {1, 2} ELSE {1, CQ}       \* d = q: the plaintext keeps its residue modulo q

Outcomes(site, S, alt, new) ==
  { LET k == Craft(site, S, alt, new, i, e, d)
    IN  [ok |-> Guards(S, k.st2, k.out), abs |-> Absorbed(S, k), changed |-> Changed(S, k)] :
    i \in Inst(S), e \in DChals, d \in Ds(alt) }

Summary(site, S, alt, new) ==
  LET o == Outcomes(site, S, alt, new)
  IN [new |-> new, ok |-> \E x \in o : x.ok, abs |-> UNION {x.abs : x \in o}, changed |-> UNION {x.changed : x \in o}]

RowsFor(site, S, alt) ==
  LET all  == {Summary(site, S, alt, new) : new \in SlotChoices(site, S, alt)}
      good == {x \in all : x.ok}
      best == {x \in good :
                 /\ ~\E y \in good : y.changed \subseteq x.changed /\ y.changed # x.changed      \* minimal set of changed hashed values
                 /\ ~\E y \in good : y.changed = x.changed /\ y.abs = x.abs /\ y.new \subseteq x.new /\ y.new # x.new}  \* same transcript, fewer moves
  IN {[site |-> site, sys |-> S, alt |-> alt, new |-> x.new, abs |-> x.abs, changed |-> x.changed] : x \in best}

Rows == TLCEval(UNION {UNION {UNION {RowsFor(site, S, alt) : alt \in AltsOf(site)} : S \in SysOf(site)} : site \in Sites})

NoRow == [site |-> "none", sys |-> "none", alt |-> "none", new |-> {}, abs |-> {}, changed |-> {}]
=============================================================================
