----------------------------- MODULE MtACraftMC -----------------------------
(* Checks of the crafted-transcript catalogue of MtACraft.tla on every toy     *)
(* instance, and the catalogue itself as JSON rows for harness/props/c13.go.   *)
(* Experiments are states (one per row x instance x challenge x move size).    *)
EXTENDS MtACraft, Json

ASSUME EmitRows == \A r \in Rows : PrintT(<<"ROW", ToJson(r)>>)

VARIABLE ex
Init == ex = [t |-> "init"]
Next ==
  \/ ex.t = "init" /\ \E r \in Rows : ex' = [t |-> "row", row |-> r]
  \/ ex.t = "row"  /\ \E i \in Inst(ex.row.sys), e \in Chals, d \in Ds(ex.row.alt) :
                        ex' = [t |-> "leaf", row |-> ex.row, i |-> i, e |-> e, d |-> d]
Spec == Init /\ [][Next]_ex

K == Craft(ex.row.site, ex.row.sys, ex.row.alt, ex.row.new, ex.i, ex.e, ex.d)
S == ex.row.sys

(* the genuine transcript is accepted for the genuine statement under its challenge, and under no other *)
GenuineAccepted ==
  (ex.t = "leaf" /\ ex.row.site # "B" /\ Guards(S, K.st, K.base)) => (Accept(S, K.st, K.base, ex.e, ex.i.lam) /\ AcceptSet(S, K.st, K.base, ex.i.lam) = {ex.e})

(* the statement the receiver holds after the alteration is another one (B: the point is not x*G for the x inside cB) ... *)
StatementAltered ==
  ex.t = "leaf" => IF ex.row.site = "B" THEN K.st2.X # Mod(ex.i.x, CQ) /\ K.st2.c2 = BC2(ex.i, [x |-> ex.i.x, y |-> ex.i.y, r |-> ex.i.r])
                   ELSE K.st2 # K.st
(* ... and the transcript the prover made does not verify for it, under any challenge: crafting is necessary *)
UncraftedRejected ==
  ex.t = "leaf" => AcceptSet(S, K.st2, K.base, ex.i.lam) = {}

(* the crafted transcript satisfies every guard and equation under the OLD challenge: a forgery if the challenge stays *)
Admissible == Guards(S, K.st2, K.out)           \* toy coincidences (s = 1, s1 = s2, s1 = 0 mod q ...) aside
CraftSound ==
  (ex.t = "leaf" /\ Admissible) => Accept(S, K.st2, K.out, ex.e, ex.i.lam)
(* it differs from what the prover hashed in at least one hashed value, and it is valid for the old challenge only: *)
(* a verifier that hashes any changed value derives a fresh challenge and rejects (up to 1/q)                      *)
CraftPinned ==
  ex.t = "leaf" => (Changed(S, K) # {} /\ AcceptSet(S, K.st2, K.out, ex.i.lam) \subseteq {ex.e})
(* the derived row predicts, on every instance, which commitments are recomputed and which hashed values change *)
RowPredicts ==
  ex.t = "leaf" => (Absorbed(S, K) \subseteq ex.row.abs /\ Changed(S, K) \subseteq ex.row.changed)
(* only the commitments named by the row (and the moved slots) differ from the prover's transcript *)
OnlyNamedParts ==
  ex.t = "leaf" => \A n \in DOMAIN K.out : K.out[n] # K.base[n] => n \in ex.row.abs \cup ex.row.new

(* the catalogue is what the harness and MtA.tla expect: every site / system has rows, the row that recomputes *)
(* everything (no slot moved) exists for the unrelated alteration, seed-like rows exist                        *)
(* every row is realised by some instance that passes the guards (CraftSound is not vacuous) *)
ASSUME Realisable ==
  \A r \in Rows : \E i \in Inst(r.sys), e \in Chals, d \in Ds(r.alt) :
     LET k == Craft(r.site, r.sys, r.alt, r.new, i, e, d) IN Accept(r.sys, k.st2, k.out, e, i.lam) /\ Changed(r.sys, k) = r.changed

ASSUME Shape ==
  /\ \A site \in Sites : \A sy \in SysOf(site) : \A alt \in AltsOf(site) : \E r \in Rows : r.site = site /\ r.sys = sy /\ r.alt = alt
  /\ \E r \in Rows : r.site = "B" /\ r.new = {} /\ r.changed = {"U"}          \* prover run with b for X', U recomputed
  /\ \E r \in Rows : r.site = "B" /\ r.new = {"Z", "S1"} /\ r.changed = {"V"} \* prover run with the logarithm of X', v recomputed
  /\ \E r \in Rows : r.site = "cA" /\ r.alt = "free" /\ r.changed = {"c", "U"}
  /\ \E r \in Rows : r.site = "cA" /\ r.alt = "rand" /\ r.changed = {"c"}
  /\ \A r \in Rows : r.site = "cB" => "c2" \in r.changed
  /\ PrintT(<<"ROWS", Cardinality(Rows)>>)
=============================================================================
