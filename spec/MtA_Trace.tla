--------------------------- MODULE MtA_Trace ---------------------------
(* Trace validation of real MtA exchanges (crypto/mta at real size: secp256k1, *)
(* 2048 bit Paillier keys of the vendored fixtures) against MtA.tla.           *)
(*                                                                             *)
(* The harness drives AliceInit / BobMid[WC] / AliceEnd[WC] of the library and *)
(* writes one ndjson line per call (ret = "ok" | "err") and one line per       *)
(* alteration it applies to a ciphertext in transit. Real values (256 bit      *)
(* secrets, 4096 bit ciphertexts) cannot live in TLC; the harness PROJECTS     *)
(* every exchange onto the toy domain of MtA.tla:                              *)
(*   a, b    : the input class of the real secret (0 -> 0, 1 -> 1, q-1 -> Q-1, *)
(*             random -> 2 or 3)                                               *)
(*   mask    : the real beta' reduced into [0, Q^5)                            *)
(*   bpub/bobx : the toy point standing for the real public point (the honest  *)
(*             one is b*G, a wrong one is any other representable point)       *)
(*   kind    : the class of the alteration (see AlteredBy)                     *)
(* and every line carries observation booleans computed with math/big on the   *)
(* real values by code independent of the library (CRT decryption with the     *)
(* prime factors, affine secp256k1 arithmetic): they are the real-size         *)
(* counterparts of the state predicates of MtA.tla (NoWrap, SharesAddUp, the   *)
(* definition of beta). A line is explained iff the MtA action of that name is *)
(* enabled in the current model state, takes the branch (accept / reject) the  *)
(* real call took, and all observations of the line are TRUE.                  *)
(* Many exchanges are concatenated; a Reset line starts a new one.             *)
EXTENDS MtA, Json, IOUtils

TraceFile == IF "TRACE" \in DOMAIN IOEnv THEN IOEnv.TRACE ELSE "trace.ndjson"
TraceLog  == ndJsonDeserialize(TraceFile)

VARIABLE l      \* next line to consume
tvars == <<vars, l>>

P0 == IF WithCheck THEN 1 ELSE NoPoint
TraceInit == l = 1 /\ Start(0, 0, P0, P0)

IsEvent(name) == l <= Len(TraceLog) /\ TraceLog[l].ev = name /\ l' = l + 1
ObsTrue(e)    == \A k \in DOMAIN e.obs : e.obs[k]

(* the model ciphertext standing for a real alteration of class kind applied to c *)
AlteredBy(kind, c) ==
  CASE kind = "rerand"  -> [c EXCEPT !.rnd = IF c.rnd = 1 THEN 2 ELSE 1]   \* c * x^N : same plaintext
    [] kind = "addq"    -> [c EXCEPT !.pt = c.pt + Q]                      \* c * (1+N)^q : plaintext + q
    [] kind = "shift"   -> [c EXCEPT !.pt = c.pt + 1]                      \* c+1, c-1, c*(1+N), 1/c, random, c+N^2, -c : some other value
    [] kind = "other"   -> IF c = Enc("kA", 0, 1) THEN Enc("kA", Q - 1, 2) ELSE Enc("kA", 0, 1)  \* ciphertext of another exchange
    [] kind = "nonunit" -> [c EXCEPT !.unit = FALSE]                       \* 0, N, a multiple of a prime factor
    [] kind = "foreign" -> [c EXCEPT !.key = "kX"]                         \* made under another party's key

TraceReset ==
  /\ IsEvent("Reset")
  /\ LET e == TraceLog[l] IN
       /\ e.wc = WithCheck
       /\ e.a \in Zq /\ e.b \in Zq
       /\ IF WithCheck THEN e.bpub \in PubPoints /\ e.bobx \in PubPoints
                       ELSE e.bpub = NoPoint /\ e.bobx = NoPoint
       /\ a' = e.a /\ b' = e.b /\ Bpub' = e.bpub /\ bobX' = e.bobx      \* = Start(e.a, e.b, e.bpub, e.bobx) in the next state
       /\ cA' = <<>> /\ netA' = <<>> /\ netB' = <<>>
       /\ alice' = "idle" /\ bob' = "idle"
       /\ alpha' = -1 /\ beta' = -1 /\ mask' = -1
       /\ tampA' = FALSE /\ tampB' = FALSE

TraceAliceInit ==
  /\ IsEvent("AliceInit")
  /\ LET e == TraceLog[l] IN
       /\ e.ret = "ok"
       /\ AliceInit(e.r)
       /\ ObsTrue(e)

TraceTamperCA ==
  /\ IsEvent("TamperCA")
  /\ netA # <<>>
  /\ TamperCA(AlteredBy(TraceLog[l].kind, netA[1].c))

TraceBobMid ==
  /\ IsEvent("BobMid")
  /\ LET e == TraceLog[l] IN
       /\ \/ (e.ret = "ok" /\ BobAccept(e.mask, e.r))
          \/ (e.ret = "err" /\ BobReject)
       /\ ObsTrue(e)

TraceTamperCB ==
  /\ IsEvent("TamperCB")
  /\ netB # <<>>
  /\ TamperCB(AlteredBy(TraceLog[l].kind, netB[1].c))

TraceAliceEnd ==
  /\ IsEvent("AliceEnd")
  /\ LET e == TraceLog[l] IN
       /\ \/ (e.ret = "ok" /\ AliceAccept)
          \/ (e.ret = "err" /\ AliceReject)
       /\ ObsTrue(e)

TraceNext == TraceReset \/ TraceAliceInit \/ TraceTamperCA \/ TraceBobMid \/ TraceTamperCB \/ TraceAliceEnd
TraceSpec == TraceInit /\ [][TraceNext]_tvars

(* the design invariants, evaluated on every state of every real exchange *)
TraceInv == TypeOK /\ SharesAddUp /\ HonestCompletes /\ NoWrap /\ TamperRejected /\ CheckRejects

(* high-water mark of consumed lines; needs -workers 1 *)
ASSUME TLCSet(1, 0)
HighWater == TLCSet(1, IF l > TLCGet(1) THEN l ELSE TLCGet(1))
TraceAccepted ==
  /\ PrintT(<<"TRACE_HW", TLCGet(1) - 1, Len(TraceLog)>>)
  /\ TLCGet(1) = Len(TraceLog) + 1
=============================================================================
