--------------------------- MODULE MtA_Trace ---------------------------
(* Trace validation of real MtA exchanges (crypto/mta at real size: secp256k1, *)
(* 2048 bit Paillier keys of the vendored fixtures) against MtA.tla.           *)
(*                                                                             *)
(* The harness drives AliceInit / BobMid[WC] / AliceEnd[WC] of the library and *)
(* writes one ndjson line per call (ret = "ok" | "err") and one line per       *)
(* alteration it applies to a message in transit. Real values (256 bit         *)
(* secrets, 4096 bit ciphertexts) cannot live in TLC; the harness PROJECTS     *)
(* every exchange onto the toy domain of MtA.tla:                              *)
(*   a, b    : the input class of the real secret (0 -> 0, 1 -> 1, q-1 -> Q-1, *)
(*             random -> 2 or 3)                                               *)
(*   mask    : the real beta' reduced into [0, Q^5)                            *)
(*   bpub/bobx : the toy point standing for the real public point (the honest  *)
(*             one is b*G, a wrong one is any other representable point)       *)
(*   kind    : the class of the alteration (see AlteredBy)                     *)
(*   craft   : what was done to the proof travelling with the altered value:   *)
(*             [alt |-> "none"] (left alone) or the row [alt, new] of the      *)
(*             catalogue of MtACraft.tla that the harness concretised on the   *)
(*             real transcript                                                 *)
(* and every line carries observation booleans computed with math/big on the   *)
(* real values by code independent of the library (CRT decryption with the     *)
(* prime factors, affine secp256k1 arithmetic): they are the real-size         *)
(* counterparts of the state predicates of MtA.tla (NoWrap, SharesAddUp, the   *)
(* definition of beta). A line is explained iff the MtA action of that name is *)
(* enabled in the current model state, takes the branch (accept / reject) the  *)
(* real call took, and all observations of the line are TRUE.                  *)
(* Histories: RetryA / RetryB (the genuine message delivered to the same       *)
(* process after the altered one was refused) and LateA / LateB / LateP (an    *)
(* altered message, or another point, presented after the genuine item was     *)
(* accepted) are lines of their own; the model has no memory (Memo = "none"),  *)
(* so a real verdict that depends on the history is not explained.             *)
(* Many exchanges are concatenated; a Reset line starts a new one.             *)
EXTENDS MtA, Json, IOUtils

TraceFile == IF "TRACE" \in DOMAIN IOEnv THEN IOEnv.TRACE ELSE "trace.ndjson"
TraceLog  == ndJsonDeserialize(TraceFile)

VARIABLE l      \* next line to consume
tvars == <<vars, l>>

P0 == IF WithCheck THEN 1 ELSE NoPoint
TraceInit == l = 1 /\ Start(0, 0, P0, P0)

IsEvent(name) == l <= Len(TraceLog) /\ TraceLog[l].ev = name /\ l' = l + 1
ObsTrue(e)    == \A k \in DOMAIN e.obs : e.obs[k]

OtherRnd(c) == [c EXCEPT !.rnd = IF c.rnd = 1 THEN 2 ELSE 1]
(* the model ciphertext standing for a real alteration of class kind applied to c *)
AlteredBy(kind, c) ==
  CASE kind = "rerand"  -> OtherRnd(c)                                      \* c * x^N : same plaintext
    [] kind = "addq"    -> [c EXCEPT !.pt = c.pt + Q]                      \* c * (1+N)^q : plaintext + q
    [] kind = "shift"   -> [c EXCEPT !.pt = c.pt + 1]                      \* c+1, c-1, c*(1+N), 1/c, random, c+N^2, -c : some other value
    [] kind = "other"   -> IF c = Enc("kA", 0, 1) THEN Enc("kA", Q - 1, 2) ELSE Enc("kA", 0, 1)  \* ciphertext of another exchange
    [] kind = "nonunit" -> [c EXCEPT !.unit = FALSE]                       \* 0, N, a multiple of a prime factor
    [] kind = "foreign" -> [c EXCEPT !.key = "kX"]                         \* made under another party's key
    [] kind = "mulca"   -> IF HomoAdd(c, cA[1]) # c THEN HomoAdd(c, cA[1]) ELSE OtherRnd(c)   \* cB * cA : the multiplier becomes b + 1

Range(s) == {s[i] : i \in 1..Len(s)}
(* the catalogue row named by a line *)
HasRow(site, cr) == cr.alt = "none" \/ \E r \in CRows : r.site = site /\ r.sys = SysAt(site) /\ r.alt = cr.alt /\ r.new = Range(cr.new)
RowOf(site, cr)  == IF cr.alt = "none" THEN NoRow
                    ELSE CHOOSE r \in CRows : r.site = site /\ r.sys = SysAt(site) /\ r.alt = cr.alt /\ r.new = Range(cr.new)

TraceReset ==
  /\ IsEvent("Reset")
  /\ LET e == TraceLog[l] IN
       /\ e.wc = WithCheck
       /\ e.a \in Zq /\ e.b \in Zq
       /\ IF WithCheck THEN e.bpub \in PubPoints /\ e.bobx \in PubPoints
                       ELSE e.bpub = NoPoint /\ e.bobx = NoPoint
       /\ a' = e.a /\ b' = e.b /\ Bpub' = e.bpub /\ bobX' = e.bobx      \* = Start(e.a, e.b, e.bpub, e.bobx) in the next state
       /\ cA' = <<>> /\ netA' = <<>> /\ netB' = <<>>
       /\ alice' = "idle" /\ bob' = "idle"
       /\ alpha' = -1 /\ beta' = -1 /\ mask' = -1
       /\ tampA' = FALSE /\ tampB' = FALSE
       /\ sentB' = <<>> /\ memA' = {} /\ memB' = {}
       /\ retriedA' = FALSE /\ retriedB' = FALSE
       /\ lateA' = "none" /\ lateB' = "none" /\ lateP' = "none"

TraceAliceInit ==
  /\ IsEvent("AliceInit")
  /\ LET e == TraceLog[l] IN
       /\ e.ret = "ok"
       /\ AliceInit(e.r)
       /\ ObsTrue(e)

TraceTamperCA ==
  /\ IsEvent("TamperCA")
  /\ netA # <<>>
  /\ HasRow("cA", TraceLog[l].craft)
  /\ TamperCA(AlteredBy(TraceLog[l].kind, netA[1].c), RowOf("cA", TraceLog[l].craft))

TraceBobMid ==
  /\ IsEvent("BobMid")
  /\ LET e == TraceLog[l] IN
       /\ \/ (e.ret = "ok" /\ BobAccept(e.mask, e.r))
          \/ (e.ret = "err" /\ BobReject)
       /\ ObsTrue(e)

TraceBobCraft ==
  /\ IsEvent("BobCraft")
  /\ TraceLog[l].craft.alt # "none" /\ HasRow("B", TraceLog[l].craft)
  /\ BobCraft(RowOf("B", TraceLog[l].craft))

TraceTamperCB ==
  /\ IsEvent("TamperCB")
  /\ netB # <<>>
  /\ HasRow("cB", TraceLog[l].craft)
  /\ TamperCB(AlteredBy(TraceLog[l].kind, netB[1].c), RowOf("cB", TraceLog[l].craft))

TraceAliceEnd ==
  /\ IsEvent("AliceEnd")
  /\ LET e == TraceLog[l] IN
       /\ \/ (e.ret = "ok" /\ AliceAccept)
          \/ (e.ret = "err" /\ AliceReject)
       /\ ObsTrue(e)

TraceRetryA == IsEvent("RetryA") /\ RetryA
TraceRetryB == IsEvent("RetryB") /\ RetryB

(* a later presentation: the model's verdict (it has no memory) must be the one the real call returned *)
Agrees(ret, verdict) == (ret = "ok") = (verdict = "accepted")
TraceLateA ==
  /\ IsEvent("LateA")
  /\ LET e == TraceLog[l] IN
       /\ lateA # "accepted" /\ HasRow("cA", e.craft)
       /\ LateA(AlteredBy(e.kind, cA[1]), RowOf("cA", e.craft))
       /\ Agrees(e.ret, lateA')
TraceLateB ==
  /\ IsEvent("LateB")
  /\ LET e == TraceLog[l] IN
       /\ lateB # "accepted" /\ sentB # <<>> /\ HasRow("cB", e.craft)
       /\ LateB(AlteredBy(e.kind, sentB[1].c), RowOf("cB", e.craft))
       /\ Agrees(e.ret, lateB')
TraceLateP ==
  /\ IsEvent("LateP")
  /\ LET e == TraceLog[l] IN
       /\ lateP # "accepted" /\ HasRow("B", e.craft)
       /\ LateP(e.bpub, RowOf("B", e.craft))
       /\ Agrees(e.ret, lateP')

TraceNext == \/ TraceReset \/ TraceAliceInit \/ TraceTamperCA \/ TraceBobMid \/ TraceBobCraft \/ TraceTamperCB \/ TraceAliceEnd
             \/ TraceRetryA \/ TraceRetryB \/ TraceLateA \/ TraceLateB \/ TraceLateP
TraceSpec == TraceInit /\ [][TraceNext]_tvars

(* the design invariants, evaluated on every state of every real exchange *)
TraceInv == TypeOK /\ SharesAddUp /\ HonestCompletes /\ NoWrap /\ TamperRejected /\ CheckRejects /\ LateRejected /\ HistoryFree

(* high-water mark of consumed lines; needs -workers 1 *)
ASSUME TLCSet(1, 0)
HighWater == TLCSet(1, IF l > TLCGet(1) THEN l ELSE TLCGet(1))
TraceAccepted ==
  /\ PrintT(<<"TRACE_HW", TLCGet(1) - 1, Len(TraceLog)>>)
  /\ TLCGet(1) = Len(TraceLog) + 1
=============================================================================
