------------------------------ MODULE Paillier ------------------------------
(* The Paillier crypto-system of tss-lib (crypto/paillier/paillier.go) over a   *)
(* toy modulus N = P*Q, small enough for TLC's 32 bit integers: every product   *)
(* of two residues modulo N^2 must stay below 2^31, i.e. N^2 < 46341 (N <= 215; *)
(* used: N = 15, 35, 77).                                                       *)
(*                                                                              *)
(* One operator per exported function, written the way the code computes it    *)
(* (same guards in the same order, same formula); a result is a record          *)
(* [ok, v, why]: ok = FALSE stands for "returned an error" (why = which one).   *)
(*                                                                              *)
(*   EncryptAndReturnRandomness(m, x)  x is the unit the code draws with        *)
(*                                     common.GetRandomPositiveRelativelyPrimeInt*)
(*   HomoMult(m, c1), HomoAdd(c1, c2), Decrypt(c)                               *)
(*                                                                              *)
(* On top of the operators a small state machine, the SESSION: one ciphertext   *)
(* `acc` that starts as a fresh encryption and is then transformed by any       *)
(* sequence of HomoAdd (with a fresh encryption) and HomoMult calls, together   *)
(* with the ghost plaintext `pt` it ought to carry.  Property C14 reads:        *)
(*   - Decrypt(acc) = pt in every reachable state (round trip, homomorphic sum  *)
(*     and scalar product modulo N along arbitrary chains of operations),       *)
(*   - acc is a unit modulo N^2 inside [0, N^2),                                *)
(*   - the static statements below (evaluated once, in the initial state):      *)
(*     round trip for every m and every unit x, encryption is injective in x    *)
(*     (a fresh x gives a fresh ciphertext) and onto the units of N^2, the laws *)
(*     for all pairs, and the guard table: plaintexts / scalars outside [0,N),  *)
(*     ciphertexts outside [0,N^2) and ciphertexts sharing a factor with N are  *)
(*     refused - and nothing else is.                                           *)
(*                                                                              *)
(* Deliberate deviations from the code: none in the arithmetic.  The error      *)
(* values ErrMessageTooLong / ErrMessageMalFormed appear as why = "range" /     *)
(* "malformed" for readability only; nothing compares them.  The code's         *)
(* randomiser is an input (x) here.                                             *)
EXTENDS Integers, Sequences, FiniteSets, TLC

CONSTANTS P, Q,      \* the prime factors of the toy key (PrivateKey.P, .Q)
          AddMs,     \* model-checking scope: plaintexts the session may add ...
          AddXs,     \* ... and the randomisers of those added encryptions
          FullLaws   \* TRUE: the pair laws are also evaluated over ALL pairs of ciphertexts in the initial state

N      == P * Q                \* PublicKey.N
N2     == N * N                \* PublicKey.NSquare()
Gamma  == N + 1                \* PublicKey.Gamma()
PhiN   == (P - 1) * (Q - 1)    \* PrivateKey.PhiN

RECURSIVE Gcd(_, _)
Gcd(a, b) == IF b = 0 THEN a ELSE Gcd(b, a % b)

LambdaN == PhiN \div Gcd(P - 1, Q - 1)   \* PrivateKey.LambdaN = lcm(P-1, Q-1), as GenerateKeyPair computes it

ASSUME /\ P \in Nat /\ Q \in Nat /\ P > 2 /\ Q > 2 /\ P # Q
       /\ N2 < 46341                     \* products of residues mod N^2 fit 32 bit
       /\ Gcd(N, PhiN) = 1               \* needed for Paillier; true for distinct primes of equal length

(* big.Int.Exp(b, e, n) for b, e >= 0, n > 1: square and multiply, reducing at every step *)
RECURSIVE ModExp(_, _, _)
ModExp(b, e, n) ==
  IF e = 0 THEN 1 % n
  ELSE LET h  == ModExp(b, e \div 2, n)
           sq == (h * h) % n
       IN  IF e % 2 = 1 THEN (sq * (b % n)) % n ELSE sq

(* big.Int.ModInverse(a, n) where it exists *)
HasInv(a, n) == Gcd(a % n, n) = 1
ModInv(a, n) == CHOOSE i \in 0..(n - 1) : (i * (a % n)) % n = 1

Ok(v)        == [ok |-> TRUE,  v |-> v,  why |-> "-"]
Refused(why) == [ok |-> FALSE, v |-> -1, why |-> why]

InPlain(m)  == 0 <= m /\ m < N     \* the code: m.Cmp(zero) == -1 || m.Cmp(N) != -1  => ErrMessageTooLong
InCipher(c) == 0 <= c /\ c < N2    \* the code: c.Cmp(zero) == -1 || c.Cmp(N2) != -1 => ErrMessageTooLong

Units  == {x \in 1..(N - 1) : Gcd(x, N) = 1}      \* the values GetRandomPositiveRelativelyPrimeInt(rand, N) can return
Units2 == {c \in 1..(N2 - 1) : Gcd(c, N) = 1}     \* the units modulo N^2

-----------------------------------------------------------------------------
(* the exported functions *)

(* c = Gamma^m * x^N mod N^2 *)
Enc(m, x) == (ModExp(Gamma, m, N2) * ModExp(x, N, N2)) % N2

EncryptAndReturnRandomness(m, x) ==
  IF ~InPlain(m) THEN Refused("range") ELSE Ok(Enc(m, x))

HomoMult(m, c1) ==
  IF ~InPlain(m)   THEN Refused("range")
  ELSE IF ~InCipher(c1) THEN Refused("range")
  ELSE Ok(ModExp(c1, m, N2))                       \* cipher^m mod N2

HomoAdd(c1, c2) ==
  IF ~InCipher(c1) THEN Refused("range")
  ELSE IF ~InCipher(c2) THEN Refused("range")
  ELSE Ok((c1 * c2) % N2)                          \* c1 * c2 mod N2

L(u) == (u - 1) \div N

Decrypt(c) ==
  IF ~InCipher(c) THEN Refused("range")
  ELSE IF Gcd(c, N2) > 1 THEN Refused("malformed")
  ELSE LET Lc == L(ModExp(c, LambdaN, N2))         \* 1. L(c^LambdaN mod N2)
           Lg == L(ModExp(Gamma, LambdaN, N2))     \* 2. L(Gamma^LambdaN mod N2)
       IN  Ok((Lc * ModInv(Lg, N)) % N)            \* 3. (1) * modInv(2) mod N

-----------------------------------------------------------------------------
(* the session *)

NoCt == -1
VARIABLES acc,   \* the ciphertext held, NoCt before the first encryption
          pt     \* ghost: the plaintext it ought to carry
vars == <<acc, pt>>

Init == acc = NoCt /\ pt = -1

Fresh(m, x) ==
  /\ acc = NoCt
  /\ LET r == EncryptAndReturnRandomness(m, x) IN r.ok /\ acc' = r.v
  /\ pt' = m

Add(m, x) ==
  /\ acc # NoCt
  /\ LET e == EncryptAndReturnRandomness(m, x)
         r == HomoAdd(acc, e.v)
     IN  e.ok /\ r.ok /\ acc' = r.v
  /\ pt' = (pt + m) % N

Mult(k) ==
  /\ acc # NoCt
  /\ LET r == HomoMult(k, acc) IN r.ok /\ acc' = r.v
  /\ pt' = (k * pt) % N

Next == \/ \E m \in 0..(N - 1), x \in Units : Fresh(m, x)
        \/ \E m \in AddMs, x \in AddXs : Add(m, x)
        \/ \E k \in 0..(N - 1) : Mult(k)
Spec == Init /\ [][Next]_vars

-----------------------------------------------------------------------------
(* property C14 on every reachable state *)

TypeOK == (acc = NoCt /\ pt = -1) \/ (acc \in 0..(N2 - 1) /\ pt \in 0..(N - 1))

AccIsUnit   == acc # NoCt => InCipher(acc) /\ Gcd(acc, N) = 1
AccDecrypts == acc # NoCt => Decrypt(acc) = Ok(pt)

(* static statements, evaluated in the initial state only *)
Static(F) == acc = NoCt => F

RoundTrip == Static(\A m \in 0..(N - 1), x \in Units : Decrypt(Enc(m, x)) = Ok(m))

EncIsUnit == Static(\A m \in 0..(N - 1), x \in Units : Enc(m, x) \in Units2)

(* a different randomiser gives a different ciphertext of the same plaintext, and the   *)
(* ciphertexts of different plaintexts never coincide: (m, x) -> c is a bijection onto  *)
(* the units modulo N^2.  Freshness of a ciphertext is freshness of x.                  *)
EncBijective == Static(
  /\ \A m \in 0..(N - 1) : Cardinality({Enc(m, x) : x \in Units}) = Cardinality(Units)
  /\ {Enc(m, x) : m \in 0..(N - 1), x \in Units} = Units2 )

(* memoised decryption of every unit (evaluated once per TLC worker) *)
DecOf == [c \in Units2 |-> Decrypt(c).v]

AddLaw == Static(FullLaws =>
  \A c1 \in Units2, c2 \in Units2 :
     LET r == HomoAdd(c1, c2) IN r.ok /\ r.v \in Units2 /\ DecOf[r.v] = (DecOf[c1] + DecOf[c2]) % N)

MultLaw == Static(
  \A k \in 0..(N - 1), c \in Units2 :
     LET r == HomoMult(k, c) IN r.ok /\ r.v \in Units2 /\ DecOf[r.v] = (k * DecOf[c]) % N)

(* the guard table: what is refused, over a window that sticks out of every bound *)
Window == (0 - 3)..(N2 + 3)
Probe  == {0 - 1, 0, 1, N - 1, N, N + 1, N2 - 1, N2, N2 + 1}
SomeUnit == CHOOSE x \in Units : x > 1

GuardTable == Static(
  /\ \A m \in Window : EncryptAndReturnRandomness(m, SomeUnit).ok <=> m \in 0..(N - 1)
  /\ \A c \in Window : Decrypt(c).ok <=> (c \in 0..(N2 - 1) /\ Gcd(c, N) = 1)
  /\ \A k \in Probe, c \in Window : HomoMult(k, c).ok <=> (k \in 0..(N - 1) /\ c \in 0..(N2 - 1))
  /\ \A c1 \in Probe, c2 \in Window :
        /\ HomoAdd(c1, c2).ok <=> (c1 \in 0..(N2 - 1) /\ c2 \in 0..(N2 - 1))
        /\ HomoAdd(c2, c1).ok <=> (c1 \in 0..(N2 - 1) /\ c2 \in 0..(N2 - 1)) )

(* every value of [0, N^2) that Decrypt accepts is the encryption of exactly what it returns *)
DecryptSound == Static(
  \A c \in 0..(N2 - 1) : Decrypt(c).ok => \E x \in Units : Enc(Decrypt(c).v, x) = c)

-----------------------------------------------------------------------------
(* Classes of arguments, for real-size calls whose numbers cannot live in TLC: *)
(* the harness names the class of every argument and TLC evaluates the same    *)
(* function on the toy representative (Paillier_Trace!TraceClass).             *)
PlainClass == [ neg |-> 0 - 1, zero |-> 0, one |-> 1, mid |-> N \div 2, max |-> N - 1, eqN |-> N, above |-> N + 1, huge |-> N2 + N ]
CipherClass == [ neg |-> 0 - 1, zero |-> 0, unit |-> Enc(2, SomeUnit), one |-> 1, max |-> N2 - 1, eqN2 |-> N2, above |-> N2 + 1,
                 eqN |-> N, multP |-> P * SomeUnit, multQ |-> Q * (N + 1) ]
=============================================================================
