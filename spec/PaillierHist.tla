---------------------------- MODULE PaillierHist ----------------------------
(* C14 - HISTORIES of key OBJECTS that are used, re-populated and used again.   *)
(*                                                                              *)
(* Paillier.tla fixes one key (constants P, Q) for a whole session.  A program  *)
(* that uses tss-lib holds its Paillier keys in long-lived objects              *)
(* (keygen.LocalPartySaveData.PaillierSK *paillier.PrivateKey, .PaillierPKs[j]  *)
(* *paillier.PublicKey) and re-populates them: json.Unmarshal of stored key     *)
(* data into the holder it already works with (encoding/json keeps a non-nil    *)
(* pointer, keeps the big.Int objects behind it and sets the EXPORTED fields    *)
(* only), encoding/gob likewise, assignment field by field, big.Int.Set in      *)
(* place, or a struct assignment from a freshly loaded value.  Property C14     *)
(* speaks of "every generated key": after each of these the object holds a      *)
(* generated key in every exported field, so every exported operation on it     *)
(* must behave as Paillier.tla says FOR THAT KEY - whatever the object did      *)
(* before.  This module states that over two toy keys:                          *)
(*                                                                              *)
(*   objects  "sk" (a *PrivateKey; its embedded PublicKey serves the public     *)
(*            operations called on it) and "pk" (a separate *PublicKey)         *)
(*   keyOf[o] which key (1 or 2) the exported fields of o hold                  *)
(*   acc, pt, accKey   the session of Paillier.tla: the ciphertext held, the    *)
(*            ghost plaintext, and the key it was made under                    *)
(*   Fresh / Add / Mult (through either object), Dec, Proof (through "sk"),     *)
(*   Reload(o, key, mode)                                                       *)
(*                                                                              *)
(* Every operation is the operator of Paillier.tla instantiated with the key    *)
(* the object holds NOW (K1, K2 below): the specification has no other memory.  *)
(* Invariants: AccCarries (the ciphertext held decrypts, under the key it was   *)
(* made with, to the ghost plaintext, along any history, also when the objects  *)
(* leave that key and come back), DecCorrect (what Dec returned is the ghost    *)
(* plaintext), NoRefusal (operations inside their domains are not refused).     *)
(*                                                                              *)
(* Variants.  variant = "code" is the code as read: no unexported state.  The   *)
(* others re-introduce one realistic defect each, so that TLC demonstrably      *)
(* finds the violation these invariants are there for (self-test of the model): *)
(*   "mucache"  Decrypt keeps L(Gamma^Lambda)^-1 mod N in an unexported field   *)
(*              at first use and never recomputes it                            *)
(*   "n2cache"  HomoAdd / HomoMult take N^2 from an unexported field filled at  *)
(*              the object's first operation                                    *)
(* Unexported state survives every reload mode except "copy" (struct            *)
(* assignment from a pristine value).                                           *)
(*                                                                              *)
(* Binding.  (B) TLC prints histories: the DIRECTED catalogue (for every object *)
(* o, every operation u of o, every mode, every operation v of o: do u under    *)
(* key 1, reload o with key 2, do v, decrypt) and random walks (-simulate);     *)
(* plaintexts and scalars are named by class (PlainClass of Paillier.tla) so    *)
(* that the same history can be replayed on keys of any size.  The harness      *)
(* replays each on the real structs - toy keys (P1,Q1), (P2,Q2), keys generated *)
(* by the library, vendored 2048 bit keys - and judges every real result with   *)
(* the independent CRT decryption of the key the object holds.  (A) The toy     *)
(* replays are logged with exact numbers and PaillierHist_Trace.tla must        *)
(* explain every line by stepping this state machine.                           *)
EXTENDS Integers, Sequences, FiniteSets, TLC, Json

CONSTANTS P1, Q1, P2, Q2,   \* the factors of toy key 1 and toy key 2
          Modes,            \* the ways an object is re-populated (names only: the model says they do not matter)
          MCs,              \* plaintext / scalar classes used by the generated operations
          XSel,             \* randomisers of generated encryptions: "some" (one unit) | "few" (three units)
          MaxOps,           \* length of generated histories (Record) / depth bound (0 = none) of the model checking run
          Variants,         \* {"code"} or the variants to explore
          Record,           \* keep the history (behaviour generation)
          TwoPhase          \* pick the kind of operation first (spreads -simulate evenly over the kinds)

VARIABLES acc, pt, accKey, keyOf, cache, out, nops, hist, pend, variant
vars == <<acc, pt, accKey, keyOf, cache, out, nops, hist, pend, variant>>

K1 == INSTANCE Paillier WITH P <- P1, Q <- Q1, AddMs <- {}, AddXs <- {}, FullLaws <- FALSE
K2 == INSTANCE Paillier WITH P <- P2, Q <- Q2, AddMs <- {}, AddXs <- {}, FullLaws <- FALSE

ASSUME /\ K1!N2 < 46341 /\ K2!N2 < 46341       \* products of residues stay below 2^31 (also across the two keys)
       /\ K1!N # K2!N
       /\ K1!Gcd(K1!N, K1!PhiN) = 1 /\ K2!Gcd(K2!N, K2!PhiN) = 1

KeyIds == {1, 2}
Objs   == {"sk", "pk"}
NoCt   == -1

(* the operators of Paillier.tla for key i *)
NOf(i)        == IF i = 1 THEN K1!N ELSE K2!N
N2Of(i)       == IF i = 1 THEN K1!N2 ELSE K2!N2
UnitsOf(i)    == IF i = 1 THEN K1!Units ELSE K2!Units
Units2Of(i)   == IF i = 1 THEN K1!Units2 ELSE K2!Units2
SomeUnitOf(i) == IF i = 1 THEN K1!SomeUnit ELSE K2!SomeUnit
PlainOf(i, mc) == IF i = 1 THEN K1!PlainClass[mc] ELSE K2!PlainClass[mc]
InPlainOf(i, m) == IF i = 1 THEN K1!InPlain(m) ELSE K2!InPlain(m)
EncOf(i, m, x)   == IF i = 1 THEN K1!EncryptAndReturnRandomness(m, x) ELSE K2!EncryptAndReturnRandomness(m, x)
AddOf(i, c1, c2) == IF i = 1 THEN K1!HomoAdd(c1, c2) ELSE K2!HomoAdd(c1, c2)
MultOf(i, k, c)  == IF i = 1 THEN K1!HomoMult(k, c) ELSE K2!HomoMult(k, c)
DecOf(i, c)      == IF i = 1 THEN K1!Decrypt(c) ELSE K2!Decrypt(c)
Ok(v)        == K1!Ok(v)
Refused(why) == K1!Refused(why)

(* the pieces of Decrypt and of the homomorphic functions that the defective variants keep *)
MuOf(i) == IF i = 1 THEN K1!ModInv(K1!L(K1!ModExp(K1!Gamma, K1!LambdaN, K1!N2)), K1!N)
                    ELSE K2!ModInv(K2!L(K2!ModExp(K2!Gamma, K2!LambdaN, K2!N2)), K2!N)
LcOf(i, c) == IF i = 1 THEN K1!L(K1!ModExp(c, K1!LambdaN, K1!N2)) ELSE K2!L(K2!ModExp(c, K2!LambdaN, K2!N2))
DecWith(i, c, mu) == IF ~DecOf(i, c).ok THEN DecOf(i, c) ELSE Ok((LcOf(i, c) * mu) % NOf(i))
AddWith(n2, c1, c2) ==
  IF ~(0 <= c1 /\ c1 < n2) \/ ~(0 <= c2 /\ c2 < n2) THEN Refused("range") ELSE Ok((c1 * c2) % n2)
MultWith(i, n2, k, c) ==
  IF ~InPlainOf(i, k) \/ ~(0 <= c /\ c < n2) THEN Refused("range") ELSE Ok(K1!ModExp(c, k, n2))

NoCache == [mu |-> -1, n2 |-> -1]

-----------------------------------------------------------------------------
(* which operation is possible when: on the projection of the state that the    *)
(* catalogue below is built on as well                                          *)

Entry(op, who, key, mode, mc) == [op |-> op, who |-> who, key |-> key, mode |-> mode, mc |-> mc]

Abs == [keyOf |-> keyOf, accKey |-> IF acc = NoCt THEN 0 ELSE accKey]
Abs0 == [keyOf |-> [o \in Objs |-> 1], accKey |-> 0]

Can(a, e) ==
  CASE e.op = "Fresh"           -> e.who \in Objs
    [] e.op \in {"Add", "Mult"} -> e.who \in Objs /\ a.accKey # 0 /\ a.keyOf[e.who] = a.accKey
    [] e.op = "Dec"             -> e.who = "sk" /\ a.accKey # 0 /\ a.keyOf["sk"] = a.accKey
    [] e.op = "Proof"           -> e.who = "sk"
    [] e.op = "Reload"          -> e.who \in Objs /\ e.key \in KeyIds
    [] OTHER                    -> FALSE

StepAbs(a, e) ==
  CASE e.op = "Fresh"  -> [a EXCEPT !.accKey = a.keyOf[e.who]]
    [] e.op = "Reload" -> [a EXCEPT !.keyOf[e.who] = e.key]
    [] OTHER           -> a

RECURSIVE LegalFrom(_, _)
LegalFrom(a, h) == h = <<>> \/ (Can(a, Head(h)) /\ LegalFrom(StepAbs(a, Head(h)), Tail(h)))

-----------------------------------------------------------------------------
(* the operations (concrete numbers; the trace module calls these)              *)

Log(e) == /\ nops' = IF MaxOps = 0 THEN 0 ELSE nops + 1
          /\ hist' = IF Record THEN Append(hist, e) ELSE hist
          /\ pend' = "none"
          /\ UNCHANGED variant

FirstUse(o) == IF variant = "n2cache" /\ cache[o].n2 = -1 THEN [cache EXCEPT ![o].n2 = N2Of(keyOf[o])] ELSE cache
N2Seen(o)   == IF variant = "n2cache" /\ cache[o].n2 # -1 THEN cache[o].n2 ELSE N2Of(keyOf[o])

DoFresh(o, m, x, e) ==
  /\ Can(Abs, e)
  /\ LET i == keyOf[o]
         r == EncOf(i, m, x)
     IN  /\ out' = [op |-> "Fresh", ok |-> r.ok, v |-> 0]
         /\ IF r.ok THEN acc' = r.v /\ pt' = m /\ accKey' = i ELSE UNCHANGED <<acc, pt, accKey>>
  /\ cache' = FirstUse(o)
  /\ UNCHANGED keyOf /\ Log(e)

DoAdd(o, m, x, e) ==
  /\ Can(Abs, e)
  /\ LET i  == keyOf[o]
         en == EncOf(i, m, x)
         r  == IF ~en.ok THEN en
               ELSE IF variant = "n2cache" THEN AddWith(N2Seen(o), acc, en.v) ELSE AddOf(i, acc, en.v)
     IN  /\ out' = [op |-> "Add", ok |-> r.ok, v |-> 0]
         /\ IF r.ok THEN acc' = r.v /\ pt' = (pt + m) % NOf(i) ELSE UNCHANGED <<acc, pt>>
  /\ cache' = FirstUse(o)
  /\ UNCHANGED <<accKey, keyOf>> /\ Log(e)

DoMult(o, k, e) ==
  /\ Can(Abs, e)
  /\ LET i == keyOf[o]
         r == IF variant = "n2cache" THEN MultWith(i, N2Seen(o), k, acc) ELSE MultOf(i, k, acc)
     IN  /\ out' = [op |-> "Mult", ok |-> r.ok, v |-> 0]
         /\ IF r.ok THEN acc' = r.v /\ pt' = (k * pt) % NOf(i) ELSE UNCHANGED <<acc, pt>>
  /\ cache' = FirstUse(o)
  /\ UNCHANGED <<accKey, keyOf>> /\ Log(e)

DoDec(e) ==
  /\ Can(Abs, e)
  /\ LET i  == keyOf["sk"]
         mu == IF variant = "mucache" /\ cache["sk"].mu # -1 THEN cache["sk"].mu ELSE MuOf(i)
         r  == IF variant = "mucache" THEN DecWith(i, acc, mu) ELSE DecOf(i, acc)
     IN  /\ out' = [op |-> "Dec", ok |-> r.ok, v |-> IF r.ok THEN r.v ELSE 0]
         /\ cache' = IF variant = "mucache" THEN [cache EXCEPT !["sk"].mu = mu] ELSE FirstUse("sk")
  /\ UNCHANGED <<acc, pt, accKey, keyOf>> /\ Log(e)

(* PrivateKey.Proof reads N and PhiN and returns a proof of the key; it changes nothing that is modelled *)
DoProof(e) ==
  /\ Can(Abs, e)
  /\ out' = [op |-> "Proof", ok |-> TRUE, v |-> 0]
  /\ cache' = FirstUse("sk")
  /\ UNCHANGED <<acc, pt, accKey, keyOf>> /\ Log(e)

(* the exported fields of o become those of key e.key; unexported state stays unless the whole struct is assigned *)
DoReload(e) ==
  /\ Can(Abs, e) /\ e.mode \in Modes
  /\ keyOf' = [keyOf EXCEPT ![e.who] = e.key]
  /\ cache' = IF e.mode = "copy" THEN [cache EXCEPT ![e.who] = NoCache] ELSE cache
  /\ out' = [op |-> "Reload", ok |-> TRUE, v |-> 0]
  /\ UNCHANGED <<acc, pt, accKey>> /\ Log(e)

-----------------------------------------------------------------------------
(* generated operations: values named by class *)

Kinds == {"Fresh", "Add", "Mult", "Dec", "Proof", "Reload"}
XsOf(i) == IF XSel = "few" THEN {1, SomeUnitOf(i), NOf(i) - 1} ELSE {SomeUnitOf(i)}

Do(kd) ==
  \/ kd = "Fresh"  /\ \E o \in Objs, mc \in MCs : \E x \in XsOf(keyOf[o]) :
                         DoFresh(o, PlainOf(keyOf[o], mc), x, Entry("Fresh", o, 0, "-", mc))
  \/ kd = "Add"    /\ \E o \in Objs, mc \in MCs : \E x \in XsOf(keyOf[o]) :
                         DoAdd(o, PlainOf(keyOf[o], mc), x, Entry("Add", o, 0, "-", mc))
  \/ kd = "Mult"   /\ \E o \in Objs, mc \in MCs : DoMult(o, PlainOf(keyOf[o], mc), Entry("Mult", o, 0, "-", mc))
  \/ kd = "Dec"    /\ DoDec(Entry("Dec", "sk", 0, "-", "-"))
  \/ kd = "Proof"  /\ DoProof(Entry("Proof", "sk", 0, "-", "-"))
  \/ kd = "Reload" /\ \E o \in Objs, j \in KeyIds, md \in Modes : DoReload(Entry("Reload", o, j, md, "-"))

CanKind(kd) ==
  CASE kd \in {"Add", "Mult"} -> \E o \in Objs : Can(Abs, Entry(kd, o, 0, "-", "-"))
    [] kd = "Dec"             -> Can(Abs, Entry("Dec", "sk", 0, "-", "-"))
    [] OTHER                  -> TRUE

Bounded == MaxOps = 0 \/ nops < MaxOps

Pick ==
  /\ TwoPhase /\ pend = "none" /\ Bounded
  /\ \E kd \in Kinds : CanKind(kd) /\ pend' = kd
  /\ UNCHANGED <<acc, pt, accKey, keyOf, cache, out, nops, hist, variant>>

Apply  == TwoPhase /\ pend \in Kinds /\ Do(pend)
Direct == ~TwoPhase /\ pend = "none" /\ Bounded /\ \E kd \in Kinds : Do(kd)

(* a finished history takes one last step so that Emit fires once per history *)
Finish ==
  /\ Record /\ pend = "none" /\ MaxOps > 0 /\ nops = MaxOps
  /\ pend' = "done"
  /\ UNCHANGED <<acc, pt, accKey, keyOf, cache, out, nops, hist, variant>>

Init ==
  /\ acc = NoCt /\ pt = -1 /\ accKey = 0
  /\ keyOf = [o \in Objs |-> 1]
  /\ cache = [o \in Objs |-> NoCache]
  /\ out = [op |-> "-", ok |-> TRUE, v |-> 0]
  /\ nops = 0 /\ hist = <<>> /\ pend = "none"
  /\ variant \in Variants

Next == Pick \/ Apply \/ Direct \/ Finish
Spec == Init /\ [][Next]_vars

-----------------------------------------------------------------------------
(* the property *)

TypeOK ==
  /\ keyOf \in [Objs -> KeyIds]
  /\ \/ acc = NoCt /\ pt = -1 /\ accKey = 0
     \/ accKey \in KeyIds /\ acc \in 0..(N2Of(accKey) - 1) /\ pt \in 0..(NOf(accKey) - 1)
  /\ out.ok \in BOOLEAN

(* the ciphertext held is a unit modulo N^2 of the key it was made under and decrypts (Paillier.tla, that key) to pt *)
AccCarries == acc # NoCt => acc \in Units2Of(accKey) /\ DecOf(accKey, acc) = Ok(pt)

(* what the object returned from Decrypt is the plaintext the history put in *)
DecCorrect == out.op = "Dec" => out.ok /\ out.v = pt

(* every generated operation is inside its domain: none is refused *)
NoRefusal == out.ok

(* behaviour generation: print the history of every finished walk (-workers 1) *)
Emit == pend = "done" => PrintT(<<"BEHAVIOUR", ToJson(hist)>>)

-----------------------------------------------------------------------------
(* the DIRECTED catalogue: use, re-populate, use again - for every object, every *)
(* operation before, every mode, every operation after                           *)

UsesOf(o) == IF o = "sk" THEN {"Fresh", "Add", "Mult", "Dec", "Proof"} ELSE {"Fresh", "Add", "Mult"}

(* the shortest history in which object o performs operation u (mc, mc2: the classes of the values) *)
UseSeq(o, u, mc, mc2) ==
  CASE u = "Fresh" -> <<Entry("Fresh", o, 0, "-", mc)>>
    [] u = "Add"   -> <<Entry("Fresh", o, 0, "-", mc), Entry("Add", o, 0, "-", mc2)>>
    [] u = "Mult"  -> <<Entry("Fresh", o, 0, "-", mc), Entry("Mult", o, 0, "-", mc2)>>
    [] u = "Dec"   -> <<Entry("Fresh", o, 0, "-", mc), Entry("Dec", "sk", 0, "-", "-")>>
    [] u = "Proof" -> <<Entry("Proof", "sk", 0, "-", "-")>>

Other(o) == IF o = "sk" THEN "pk" ELSE "sk"

(* u under key 1; o re-populated with key 2; v; (the private key object follows, if it is the other one); decrypt; *)
(* back to key 1 in the same way; v again; decrypt                                                               *)
DirectedOne(o, u, md, v) ==
  LET there == UseSeq(o, u, "mid", "max") \o <<Entry("Reload", o, 2, md, "-")>> \o UseSeq(o, v, "max", "mid")
      follow(j) == IF o = "pk" THEN <<Entry("Reload", "sk", j, md, "-")>> ELSE <<>>
      dec   == IF v = "Proof" THEN <<>> ELSE <<Entry("Dec", "sk", 0, "-", "-")>>
      back  == <<Entry("Reload", o, 1, md, "-")>> \o UseSeq(o, v, "one", "max")
  IN  there \o (IF v = "Proof" THEN <<>> ELSE follow(2) \o dec)
            \o back \o (IF v = "Proof" THEN <<>> ELSE follow(1) \o dec)

Directed == UNION {{DirectedOne(o, u, md, v) : u \in UsesOf(o), md \in Modes, v \in UsesOf(o)} : o \in Objs}
DirectedLegal == {h \in Directed : LegalFrom(Abs0, h)}
=============================================================================
