------------------------- MODULE PaillierHist_Trace -------------------------
(* Validation of REAL histories of key objects against PaillierHist.tla.        *)
(*                                                                              *)
(* The harness (harness/props/c14_hist.go) holds a *paillier.PrivateKey ("sk")  *)
(* and a *paillier.PublicKey ("pk") of the library, both populated with toy key *)
(* 1, and replays a history generated from PaillierHist.tla on them: the real   *)
(* exported functions are called on these objects, and a Reload re-populates    *)
(* the SAME object with the other toy key in the way the mode names.  One       *)
(* ndjson line per step with the exact numbers the real code returned:          *)
(*                                                                              *)
(*   Reset                          new history: fresh objects holding key 1    *)
(*   Reload  who key mode           exported fields of `who` are now key `key`  *)
(*   Fresh   who m x c              EncryptAndReturnRandomness(m) = (c, x)      *)
(*   Add     who m x c              the same, then HomoAdd(held, it) = c        *)
(*   Mult    who k c                HomoMult(k, held) = c                       *)
(*   Dec     ok v                   Decrypt(held) through "sk"                  *)
(*   Proof                          PrivateKey.Proof was called on "sk"         *)
(*                                                                              *)
(* A line is explained iff the action of PaillierHist.tla with the same name is *)
(* enabled in the current state and produces exactly the logged numbers with    *)
(* the key the object holds at that moment; the invariants of PaillierHist.tla  *)
(* are evaluated on every state.  The last history of the file may be a         *)
(* deliberately corrupted copy (self-test of the binding): TLC must consume     *)
(* every line before the altered one and stop there; the harness knows which.   *)
EXTENDS PaillierHist, IOUtils

TraceFile == IF "TRACE" \in DOMAIN IOEnv THEN IOEnv.TRACE ELSE "trace.ndjson"
TraceLog  == ndJsonDeserialize(TraceFile)

VARIABLE l
tvars == <<acc, pt, accKey, keyOf, cache, out, nops, hist, pend, variant, l>>

TraceInit == l = 1 /\ Init

IsEvent(name) == l <= Len(TraceLog) /\ TraceLog[l].op = name /\ l' = l + 1

TraceReset ==
  /\ IsEvent("Reset")
  /\ acc' = NoCt /\ pt' = -1 /\ accKey' = 0
  /\ keyOf' = [o \in Objs |-> 1]
  /\ cache' = [o \in Objs |-> NoCache]
  /\ out' = [op |-> "-", ok |-> TRUE, v |-> 0]
  /\ UNCHANGED <<nops, hist, pend, variant>>

TraceReload ==
  /\ IsEvent("Reload")
  /\ LET e == TraceLog[l] IN DoReload(Entry("Reload", e.who, e.key, e.mode, "-"))

TraceFresh ==
  /\ IsEvent("Fresh")
  /\ LET e == TraceLog[l] IN
       /\ e.who \in Objs /\ e.x \in UnitsOf(keyOf[e.who])
       /\ DoFresh(e.who, e.m, e.x, Entry("Fresh", e.who, 0, "-", "-"))
       /\ out'.ok /\ acc' = e.c

TraceAdd ==
  /\ IsEvent("Add")
  /\ LET e == TraceLog[l] IN
       /\ e.who \in Objs /\ e.x \in UnitsOf(keyOf[e.who])
       /\ DoAdd(e.who, e.m, e.x, Entry("Add", e.who, 0, "-", "-"))
       /\ out'.ok /\ acc' = e.c

TraceMult ==
  /\ IsEvent("Mult")
  /\ LET e == TraceLog[l] IN
       /\ e.who \in Objs
       /\ DoMult(e.who, e.k, Entry("Mult", e.who, 0, "-", "-"))
       /\ out'.ok /\ acc' = e.c

TraceDec ==
  /\ IsEvent("Dec")
  /\ LET e == TraceLog[l] IN
       /\ DoDec(Entry("Dec", "sk", 0, "-", "-"))
       /\ out'.ok = e.ok /\ (e.ok => out'.v = e.v)

TraceProof ==
  /\ IsEvent("Proof")
  /\ DoProof(Entry("Proof", "sk", 0, "-", "-"))

TraceNext == TraceReset \/ TraceReload \/ TraceFresh \/ TraceAdd \/ TraceMult \/ TraceDec \/ TraceProof
TraceSpec == TraceInit /\ [][TraceNext]_tvars

TraceInv == TypeOK /\ AccCarries /\ DecCorrect /\ NoRefusal

(* high-water mark of consumed lines; needs -workers 1 *)
ASSUME TLCSet(1, 0)
HighWater == TLCSet(1, IF l > TLCGet(1) THEN l ELSE TLCGet(1))

TraceAccepted ==
  /\ PrintT(<<"TRACE_HW", TLCGet(1) - 1, Len(TraceLog)>>)
  /\ TLCGet(1) = Len(TraceLog) + 1
=============================================================================
