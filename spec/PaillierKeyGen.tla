--------------------------- MODULE PaillierKeyGen ---------------------------
(* paillier.GenerateKeyPair(ctx, rand, modulusBitLen) of tss-lib               *)
(* (crypto/paillier/paillier.go) with the safe prime generator                 *)
(* common.GetRandomSafePrimesConcurrent (common/safe_prime.go) reduced to the  *)
(* SET of values it can deliver, for requested lengths small enough that TLC   *)
(* can evaluate primality itself (factors up to 15 bits, moduli up to 30).     *)
(*                                                                             *)
(*   loop:  P, Q := two safe primes of modulusBitLen/2 bits (top two bits set, *)
(*                  possibly the same one twice)                               *)
(*          if BitLen(P - Q) >= modulusBitLen/2 - 3 then leave the loop        *)
(*   N = P*Q, PhiN = (P-1)(Q-1), LambdaN = PhiN / gcd(P-1, Q-1)                *)
(*                                                                             *)
(* Property C14, last sentence: a generated key has a modulus of exactly the   *)
(* requested bit length that is the product of two distinct safe primes far    *)
(* apart, with matching lambda and phi (GoodKey).  "Far apart" is the          *)
(* criterion of the code's audit note KS-BTL-F-03: |P-Q| has at least          *)
(* modulusBitLen/2 - 3 bits.                                                   *)
(*                                                                             *)
(* The model also answers a question the harness needs before it calls the     *)
(* real function: for which requested lengths does an acceptable pair exist at *)
(* all (for 12, 14 and 16 bits there is exactly one safe prime of the demanded *)
(* shape, so the loop can never end) - printed as KEYGEN lines.                *)
(* An odd request cannot be met (each prime gets modulusBitLen/2 bits, rounded *)
(* down): the model states what happens instead (OddRequestOneShort); the      *)
(* harness records such calls and does not judge the length.                   *)
EXTENDS Integers, Sequences, FiniteSets, TLC

CONSTANTS BitsSet,        \* the requested modulus bit lengths explored
          PlanSizes       \* the even lengths the harness may request in its generation plan (any size; classified only)

PQBitLenDifference == 3   \* paillier.go: pQBitLenDifference

RECURSIVE BitLen(_)
BitLen(n) == IF n = 0 THEN 0 ELSE 1 + BitLen(n \div 2)
RECURSIVE Pow2(_)
Pow2(k) == IF k = 0 THEN 1 ELSE 2 * Pow2(k - 1)
Abs(x) == IF x < 0 THEN 0 - x ELSE x
RECURSIVE Gcd(_, _)
Gcd(a, b) == IF b = 0 THEN a ELSE Gcd(b, a % b)

RECURSIVE NoDivisorFrom(_, _)
NoDivisorFrom(n, d) == d * d > n \/ (n % d # 0 /\ NoDivisorFrom(n, d + 1))
IsPrime(n)     == n >= 2 /\ NoDivisorFrom(n, 2)
IsSafePrime(p) == p > 4 /\ p % 2 = 1 /\ IsPrime(p) /\ IsPrime((p - 1) \div 2)

ASSUME \A b \in BitsSet : b \in Nat /\ b >= 12 /\ b <= 30   \* the generator refuses primes below 6 bits; 32 bit integers

(* what runGenPrimeRoutine can deliver for pBitLen = b: q of b-1 bits with the two top bits set, *)
(* q and p = 2q+1 prime; hence p has b bits with its two top bits set                            *)
SafePrimesOf(b) == {p \in (3 * Pow2(b - 2))..(Pow2(b) - 1) : IsSafePrime(p)}
SP == TLCEval([b \in {x \div 2 : x \in BitsSet} |-> TLCEval(SafePrimesOf(b))])     \* evaluated once (TLCEval: explicit values, not lazy ones)

FarApart(bits, p, q) == BitLen(Abs(p - q)) >= (bits \div 2) - PQBitLenDifference

-----------------------------------------------------------------------------
(* WHY SP has that shape: the candidate of runGenPrimeRoutine, byte by byte.    *)
(* The generator reads NBytes(qb) random bytes for a candidate q of qb =         *)
(* pBitLen - 1 bits, masks the top byte down to TopBits(qb) bits, forces the two *)
(* most significant bits and the lowest bit.  Which code path forces the second  *)
(* bit depends on TopBits(qb), i.e. on qb modulo 8: for TopBits >= 2 both bits   *)
(* live in the top byte, for TopBits = 1 the second one is bit 7 of the NEXT     *)
(* byte.  A defect in one of these paths shows only for requested lengths of     *)
(* one residue class of (modulusBitLen / 2) modulo 8 (all lengths the library    *)
(* and its tests use, 2048 -> qb = 1023, are in ONE class) - and then only in a  *)
(* fraction of the keys (a factor below 3/4 of the range makes the product one   *)
(* bit short only together with a small enough partner).  Hence SizeClass and    *)
(* the KEYCLASS catalogue below: the harness must generate many keys in EVERY    *)
(* class.                                                                        *)
TopBits(qb) == IF qb % 8 = 0 THEN 8 ELSE qb % 8          \* b
NBytes(qb)  == (qb + 7) \div 8
SetBit(x, k) == IF (x \div Pow2(k)) % 2 = 1 THEN x ELSE x + Pow2(k)

(* r: the bytes read, as one big-endian number in 0 .. 256^NBytes(qb) - 1 *)
Candidate(qb, r) ==
  LET b    == TopBits(qb)
      low  == 8 * (NBytes(qb) - 1)                        \* number of bits below the top byte
      top  == (r \div Pow2(low)) % Pow2(b)                \* bytes[0] &= (1 << b) - 1
      rest == r % Pow2(low)
      top2 == IF b >= 2 THEN SetBit(SetBit(top, b - 1), b - 2)   \* bytes[0] |= 3 << (b - 2)
                        ELSE SetBit(top, 0)                      \* bytes[0] |= 1
      rest2 == IF b >= 2 \/ low = 0 THEN rest ELSE SetBit(rest, low - 1)   \* bytes[1] |= 0x80
  IN  SetBit(top2 * Pow2(low) + rest2, 0)                 \* bytes[len-1] |= 1

(* candidate lengths that cover every value of TopBits, with one and with two bytes *)
CandQBits == 5..16
(* every top byte; of the low byte the values that matter (it passes through but for bits 0 and 7) *)
RandomBytes(qb) == IF NBytes(qb) = 1 THEN 0..255 ELSE {h * 256 + lo : h \in 0..255, lo \in {0, 1, 126, 127, 128, 254, 255}}

CandidateShape ==
  \A qb \in CandQBits : \A r \in RandomBytes(qb) :
     LET c == Candidate(qb, r) IN
       /\ BitLen(c) = qb /\ c >= 3 * Pow2(qb - 2) /\ c % 2 = 1
       /\ BitLen(2 * c + 1) = qb + 1 /\ 2 * c + 1 >= 3 * Pow2(qb - 1)     \* p = 2q+1 has its two top bits set as well

(* the residue class of a requested length: which path of Candidate its primes go through *)
SizeClass(bits) == (bits \div 2) % 8
ClassTopBits(c) == TopBits(((c + 7) % 8))        \* qb = bits/2 - 1

MakeKey(p, q) ==
  [p |-> p, q |-> q, n |-> p * q,
   phi    |-> (p - 1) * (q - 1),
   lambda |-> ((p - 1) * (q - 1)) \div Gcd(p - 1, q - 1)]

NoKey == [p |-> 0, q |-> 0, n |-> 0, phi |-> 0, lambda |-> 0]

VARIABLES bits, stage, key
vars == <<bits, stage, key>>

Init == bits \in BitsSet /\ stage = "draw" /\ key = NoKey

(* one pass of the loop with the pair (p, q) *)
Retry(p, q) ==
  /\ stage = "draw" /\ p \in SP[bits \div 2] /\ q \in SP[bits \div 2]
  /\ ~FarApart(bits, p, q)
  /\ UNCHANGED vars

Accept(p, q) ==
  /\ stage = "draw" /\ p \in SP[bits \div 2] /\ q \in SP[bits \div 2]
  /\ FarApart(bits, p, q)
  /\ stage' = "done" /\ key' = MakeKey(p, q) /\ UNCHANGED bits

Next == stage = "draw" /\ \E p \in SP[bits \div 2], q \in SP[bits \div 2] : Retry(p, q) \/ Accept(p, q)   \* (guard first: TLC would enumerate all pairs in every "done" state)
Spec == Init /\ [][Next]_vars

-----------------------------------------------------------------------------
(* the property-level predicate on a key, by definitions that do not repeat the code *)
IsLcm(l, a, b) == l > 0 /\ l % a = 0 /\ l % b = 0 /\ (a * b) \div l = Gcd(a, b)

GoodKey(b, k) ==
  /\ IsSafePrime(k.p) /\ IsSafePrime(k.q)
  /\ k.p # k.q
  /\ FarApart(b, k.p, k.q)
  /\ k.n = k.p * k.q
  /\ BitLen(k.n) = b
  /\ k.phi = (k.p - 1) * (k.q - 1)
  /\ IsLcm(k.lambda, k.p - 1, k.q - 1)

TypeOK == bits \in BitsSet /\ stage \in {"draw", "done"} /\ (stage = "draw" => key = NoKey)

KeyIsGood == (stage = "done" /\ bits % 2 = 0) => GoodKey(bits, key)

(* an odd request: everything holds except the length, which is one bit short *)
OddRequestOneShort == (stage = "done" /\ bits % 2 = 1) =>
  GoodKey(bits - 1, key) /\ BitLen(key.n) = bits - 1

(* for the product of two DISTINCT safe primes lambda is exactly half of phi *)
LambdaIsHalfPhi == stage = "done" => 2 * key.lambda = key.phi

(* why the length is exact: both factors have their two top bits set *)
Pow2T == TLCEval([k \in 0..30 |-> Pow2(k)])      \* table (TLC: a comparison per pair instead of a recursion per pair)
TopTwoBits == stage = "draw" =>
  LET h == bits \div 2 IN
  \A p \in SP[h] :
     /\ BitLen(p) = h
     /\ p >= 3 * Pow2(h - 2)
     /\ \A q \in SP[h] : p * q >= Pow2T[2 * h - 1] /\ p * q < Pow2T[2 * h]      \* i.e. BitLen(p * q) = 2 * h

(* the candidate construction delivers the shape SP assumes *)
ASSUME CandidateShape

(* the generation plan: the harness offers even lengths (PlanSizes); every residue class must be represented,  *)
(* and the rows tell the harness which length exercises which path (read by the harness: KEYCLASS class b size) *)
ASSUME \A b \in PlanSizes : b \in Nat /\ b % 2 = 0 /\ b >= 12
ASSUME \A c \in 0..7 : \E b \in PlanSizes : SizeClass(b) = c
ASSUME \A b \in PlanSizes : PrintT(<<"KEYCLASS", SizeClass(b), ClassTopBits(SizeClass(b)), b>>)

(* which requests can be served at all; read by the harness *)
Acceptable(b) == {pq \in SP[b \div 2] \X SP[b \div 2] : FarApart(b, pq[1], pq[2])}
ASSUME \A b \in BitsSet :
   PrintT(<<"KEYGEN", b, Cardinality(SP[b \div 2]), Cardinality(Acceptable(b))>>)
=============================================================================
