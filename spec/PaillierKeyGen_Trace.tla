------------------------ MODULE PaillierKeyGen_Trace ------------------------
(* Validation of keys returned by the REAL paillier.GenerateKeyPair (requested *)
(* lengths of at most 30 bits) against PaillierKeyGen.tla: one ndjson line per *)
(* call with the requested length and the five numbers of the returned         *)
(* PrivateKey.  A line is explained iff the model's loop can leave with that   *)
(* pair (both factors are values the generator model delivers, far apart) and  *)
(* N, PhiN, LambdaN are what the model computes from it; KeyIsGood etc. are    *)
(* evaluated on the resulting state.                                           *)
EXTENDS PaillierKeyGen, Json, IOUtils

TraceFile == IF "TRACE" \in DOMAIN IOEnv THEN IOEnv.TRACE ELSE "trace.ndjson"
TraceLog  == ndJsonDeserialize(TraceFile)

VARIABLE l
tvars == <<bits, stage, key, l>>

TraceInit == l = 1 /\ bits = CHOOSE b \in BitsSet : TRUE /\ stage = "draw" /\ key = NoKey

TraceKeyGen ==
  /\ l <= Len(TraceLog) /\ TraceLog[l].op = "KeyGen" /\ l' = l + 1
  /\ LET e == TraceLog[l] IN
       /\ e.bits \in BitsSet
       /\ bits' = e.bits
       /\ e.p \in SP[e.bits \div 2] /\ e.q \in SP[e.bits \div 2]
       /\ FarApart(e.bits, e.p, e.q)                       \* = Accept(e.p, e.q) for a fresh call with e.bits
       /\ stage' = "done" /\ key' = MakeKey(e.p, e.q)
       /\ key' = [p |-> e.p, q |-> e.q, n |-> e.n, phi |-> e.phi, lambda |-> e.lambda]

TraceSpec == TraceInit /\ [][TraceKeyGen]_tvars

TraceInv == KeyIsGood /\ OddRequestOneShort /\ LambdaIsHalfPhi

ASSUME TLCSet(1, 0)
HighWater == TLCSet(1, IF l > TLCGet(1) THEN l ELSE TLCGet(1))
TraceAccepted ==
  /\ PrintT(<<"TRACE_HW", TLCGet(1) - 1, Len(TraceLog)>>)
  /\ TLCGet(1) = Len(TraceLog) + 1
=============================================================================
