------------------------ MODULE PaillierKeyGen_Trace ------------------------
(* Validation of keys returned by the REAL paillier.GenerateKeyPair (requested *)
(* lengths of at most 30 bits) against PaillierKeyGen.tla: one ndjson line per *)
(* call with the requested length and the five numbers of the returned         *)
(* PrivateKey.  A line is explained iff the key is what the property demands   *)
(* for that request and N, PhiN, LambdaN are what the model computes from the  *)
(* factors; KeyIsGood etc. are evaluated on the resulting state.  Whether the  *)
(* factors also have the shape of the generator model is reported separately.  *)
EXTENDS PaillierKeyGen, Json, IOUtils

TraceFile == IF "TRACE" \in DOMAIN IOEnv THEN IOEnv.TRACE ELSE "trace.ndjson"
TraceLog  == ndJsonDeserialize(TraceFile)

VARIABLE l
tvars == <<bits, stage, key, l>>

TraceInit == l = 1 /\ bits = (CHOOSE b \in BitsSet : TRUE) /\ stage = "draw" /\ key = NoKey

(* Two levels of explanation.                                                                     *)
(* ExplainsKey: what property C14 says about a generated key - the logged numbers are a GoodKey  *)
(* for the requested length (distinct safe primes, far apart, modulus of exactly that length) and *)
(* N, PhiN, LambdaN are what the code's formulas (MakeKey) give for the pair.                    *)
(* InGeneratorModel: in addition both factors are values the generator MODEL delivers (two top   *)
(* bits set), i.e. the model's loop can leave with exactly that pair.  That shape is the reason  *)
(* the length is exact, but it is not itself part of property C14 (it is C19's): a key that is   *)
(* explained at the first level only is counted as DRIFT (printed for the harness), not refused. *)
ExplainsKey(e) ==
  /\ e.bits \in BitsSet
  /\ MakeKey(e.p, e.q) = [p |-> e.p, q |-> e.q, n |-> e.n, phi |-> e.phi, lambda |-> e.lambda]
  /\ IF e.bits % 2 = 0 THEN GoodKey(e.bits, MakeKey(e.p, e.q))
                       ELSE GoodKey(e.bits - 1, MakeKey(e.p, e.q))          \* OddRequestOneShort

InGeneratorModel(e) ==
  /\ e.p \in SP[e.bits \div 2] /\ e.q \in SP[e.bits \div 2]
  /\ FarApart(e.bits, e.p, e.q)                       \* = Accept(e.p, e.q) for a fresh call with e.bits

TraceKeyGen ==
  /\ l <= Len(TraceLog) /\ TraceLog[l].op = "KeyGen" /\ l' = l + 1
  /\ LET e == TraceLog[l] IN
       \* (IF: TLC evaluates the condition as an expression; as a conjunct of the action the disjunctions inside
       \* IsPrime would be expanded into successor branches)
       IF ExplainsKey(e) THEN bits' = e.bits /\ stage' = "done" /\ key' = MakeKey(e.p, e.q)
                         ELSE FALSE

TraceSpec == TraceInit /\ [][TraceKeyGen]_tvars

TraceInv == KeyIsGood /\ OddRequestOneShort /\ LambdaIsHalfPhi

ASSUME TLCSet(1, 0)
HighWater == TLCSet(1, IF l > TLCGet(1) THEN l ELSE TLCGet(1))
(* self-test of the binding: logged keys with one number altered by one (file BAD) must not be explained *)
BadLog == IF "BAD" \in DOMAIN IOEnv THEN ndJsonDeserialize(IOEnv.BAD) ELSE <<>>
Rejected == {i \in DOMAIN BadLog : ~ExplainsKey(BadLog[i])}

Drift == {i \in DOMAIN TraceLog : ~InGeneratorModel(TraceLog[i])}

TraceAccepted ==
  /\ PrintT(<<"TRACE_HW", TLCGet(1) - 1, Len(TraceLog)>>)
  /\ PrintT(<<"DRIFT", Cardinality(Drift), IF Drift = {} THEN 0 ELSE CHOOSE i \in Drift : \A j \in Drift : i <= j>>)
  /\ PrintT(<<"SELFTEST", Cardinality(Rejected), Len(BadLog)>>)
  /\ TLCGet(1) = Len(TraceLog) + 1
  /\ Cardinality(Rejected) = Len(BadLog)
=============================================================================
