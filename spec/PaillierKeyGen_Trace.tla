------------------------ MODULE PaillierKeyGen_Trace ------------------------
(* Validation of keys returned by the REAL paillier.GenerateKeyPair (requested *)
(* lengths of at most 30 bits) against PaillierKeyGen.tla: one ndjson line per *)
(* call with the requested length and the five numbers of the returned         *)
(* PrivateKey.  A line is explained iff the model's loop can leave with that   *)
(* pair (both factors are values the generator model delivers, far apart) and  *)
(* N, PhiN, LambdaN are what the model computes from it; KeyIsGood etc. are    *)
(* evaluated on the resulting state.                                           *)
EXTENDS PaillierKeyGen, Json, IOUtils

TraceFile == IF "TRACE" \in DOMAIN IOEnv THEN IOEnv.TRACE ELSE "trace.ndjson"
TraceLog  == ndJsonDeserialize(TraceFile)

VARIABLE l
tvars == <<bits, stage, key, l>>

TraceInit == l = 1 /\ bits = (CHOOSE b \in BitsSet : TRUE) /\ stage = "draw" /\ key = NoKey

(* can the model's loop, asked for e.bits, leave with exactly the logged key ? *)
ExplainsKey(e) ==
  /\ e.bits \in BitsSet
  /\ e.p \in SP[e.bits \div 2] /\ e.q \in SP[e.bits \div 2]
  /\ FarApart(e.bits, e.p, e.q)                       \* = Accept(e.p, e.q) for a fresh call with e.bits
  /\ MakeKey(e.p, e.q) = [p |-> e.p, q |-> e.q, n |-> e.n, phi |-> e.phi, lambda |-> e.lambda]

TraceKeyGen ==
  /\ l <= Len(TraceLog) /\ TraceLog[l].op = "KeyGen" /\ l' = l + 1
  /\ LET e == TraceLog[l] IN
       /\ ExplainsKey(e)
       /\ bits' = e.bits /\ stage' = "done" /\ key' = MakeKey(e.p, e.q)

TraceSpec == TraceInit /\ [][TraceKeyGen]_tvars

TraceInv == KeyIsGood /\ OddRequestOneShort /\ LambdaIsHalfPhi

ASSUME TLCSet(1, 0)
HighWater == TLCSet(1, IF l > TLCGet(1) THEN l ELSE TLCGet(1))
(* self-test of the binding: logged keys with one number altered by one (file BAD) must not be explained *)
BadLog == IF "BAD" \in DOMAIN IOEnv THEN ndJsonDeserialize(IOEnv.BAD) ELSE <<>>
Rejected == {i \in DOMAIN BadLog : ~ExplainsKey(BadLog[i])}

TraceAccepted ==
  /\ PrintT(<<"TRACE_HW", TLCGet(1) - 1, Len(TraceLog)>>)
  /\ PrintT(<<"SELFTEST", Cardinality(Rejected), Len(BadLog)>>)
  /\ TLCGet(1) = Len(TraceLog) + 1
  /\ Cardinality(Rejected) = Len(BadLog)
=============================================================================
