--------------------------- MODULE Paillier_Trace ---------------------------
(* Validation of REAL calls of crypto/paillier against Paillier.tla.           *)
(*                                                                             *)
(* The harness (harness/props/c14.go) builds the library's own PrivateKey /    *)
(* PublicKey structs with the toy factors P, Q of this TLC run, calls the real *)
(* exported functions over the whole toy domain and writes one ndjson line per *)
(* call: arguments, ok (FALSE = an error was returned), and the result.        *)
(* A line is explained iff the operator of Paillier.tla with the same name     *)
(* gives exactly that outcome on exactly those numbers:                        *)
(*                                                                             *)
(*   Encrypt     EncryptAndReturnRandomness(m) returned (c, x): x must be a    *)
(*               unit and c = Gamma^m * x^N mod N^2 - TLC predicts c from the  *)
(*               returned randomiser                                           *)
(*   EncryptAny  Encrypt(m) returned c (randomiser not disclosed): validated   *)
(*               by the existential  \E unit x : c = Enc(m, x)                 *)
(*   Decrypt, HomoAdd, HomoMult   outcome and value predicted by TLC           *)
(*   Class       a call at REAL size (2048 bit key): only the class of every   *)
(*               argument is logged; TLC evaluates the function on the toy     *)
(*               representative of each class and compares accept / refuse     *)
(*                                                                             *)
(* and the session lines step the state machine of Paillier.tla:               *)
(*   Reset, Fresh (real encryption), Add (real encryption + real HomoAdd),     *)
(*   Mult (real HomoMult), Dec (real Decrypt of the held ciphertext, must give *)
(*   the ghost plaintext of the model).  After every step the ciphertext the   *)
(*   real code holds must be the model's acc, and the invariants of            *)
(*   Paillier.tla are evaluated on every state.                                *)
(* Lines whose numbers do not fit the toy domain never get here: the harness   *)
(* has then already reported them (a result outside [0,N^2) is a violation).   *)
EXTENDS Paillier, Json, IOUtils

TraceFile == IF "TRACE" \in DOMAIN IOEnv THEN IOEnv.TRACE ELSE "trace.ndjson"
TraceLog  == ndJsonDeserialize(TraceFile)

VARIABLE l      \* next line to consume
tvars == <<acc, pt, l>>

TraceInit == l = 1 /\ Init

IsEvent(name) == l <= Len(TraceLog) /\ TraceLog[l].op = name /\ l' = l + 1

(* a logged outcome (ok, value) against a predicted result record *)
Same(e, r) == e.ok = r.ok /\ (r.ok => e.v = r.v)

-----------------------------------------------------------------------------
(* stateless calls: does the specification explain the logged call e ? *)

(* real-size call, projected onto argument classes *)
ClassOutcome(fn, a, b) ==
  CASE fn = "Encrypt"  -> EncryptAndReturnRandomness(PlainClass[a], SomeUnit).ok
    [] fn = "Decrypt"  -> Decrypt(CipherClass[a]).ok
    [] fn = "HomoAdd"  -> HomoAdd(CipherClass[a], CipherClass[b]).ok
    [] fn = "HomoMult" -> HomoMult(PlainClass[a], CipherClass[b]).ok

CallOps == {"Encrypt", "EncryptAny", "Decrypt", "HomoAdd", "HomoMult", "Class"}

ExplainsCall(e) ==
  CASE e.op = "Encrypt" ->
         IF e.ok THEN e.x \in Units /\ Same(e, EncryptAndReturnRandomness(e.m, e.x))
                 ELSE ~EncryptAndReturnRandomness(e.m, SomeUnit).ok
    [] e.op = "EncryptAny" ->
         IF e.ok THEN \E x \in Units : Same(e, EncryptAndReturnRandomness(e.m, x))
                 ELSE ~EncryptAndReturnRandomness(e.m, SomeUnit).ok
    [] e.op = "Decrypt"  -> Same(e, Decrypt(e.c))
    [] e.op = "HomoAdd"  -> Same(e, HomoAdd(e.c1, e.c2))
    [] e.op = "HomoMult" -> Same(e, HomoMult(e.k, e.c1))
    [] e.op = "Class"    -> e.ok = ClassOutcome(e.fn, e.a, e.b)

TraceCall ==
  /\ l <= Len(TraceLog) /\ TraceLog[l].op \in CallOps /\ l' = l + 1
  /\ ExplainsCall(TraceLog[l])
  /\ UNCHANGED vars

-----------------------------------------------------------------------------
(* session lines *)

TraceReset ==
  /\ IsEvent("Reset")
  /\ acc' = NoCt /\ pt' = -1

TraceFresh ==
  /\ IsEvent("Fresh")
  /\ acc = NoCt
  /\ LET e == TraceLog[l] IN e.x \in Units /\ Fresh(e.m, e.x) /\ acc' = e.c

TraceAdd ==
  /\ IsEvent("Add")
  /\ LET e == TraceLog[l] IN e.x \in Units /\ e.m \in 0..(N - 1) /\ Add(e.m, e.x) /\ acc' = e.c

TraceMult ==
  /\ IsEvent("Mult")
  /\ LET e == TraceLog[l] IN Mult(e.k) /\ acc' = e.c

TraceDec ==
  /\ IsEvent("Dec")
  /\ acc # NoCt
  /\ LET e == TraceLog[l] IN Same(e, Decrypt(acc)) /\ e.ok /\ e.v = pt
  /\ UNCHANGED vars

TraceNext == TraceCall \/ TraceReset \/ TraceFresh \/ TraceAdd \/ TraceMult \/ TraceDec
TraceSpec == TraceInit /\ [][TraceNext]_tvars

(* the invariants of the design, on every state the real calls drive the model through *)
TraceInv == TypeOK /\ AccIsUnit /\ AccDecrypts

(* high-water mark of consumed lines; needs -workers 1 *)
ASSUME TLCSet(1, 0)
HighWater == TLCSet(1, IF l > TLCGet(1) THEN l ELSE TLCGet(1))
(* self-test of the binding: the harness hands over copies of logged calls in which one  *)
(* number was altered by one (file BAD); none of them may be explained                   *)
BadLog == IF "BAD" \in DOMAIN IOEnv THEN ndJsonDeserialize(IOEnv.BAD) ELSE <<>>
Rejected == {i \in DOMAIN BadLog : ~ExplainsCall(BadLog[i])}

TraceAccepted ==
  /\ PrintT(<<"TRACE_HW", TLCGet(1) - 1, Len(TraceLog)>>)
  /\ PrintT(<<"SELFTEST", Cardinality(Rejected), Len(BadLog)>>)
  /\ TLCGet(1) = Len(TraceLog) + 1
  /\ Cardinality(Rejected) = Len(BadLog)
=============================================================================
