----------------------------- MODULE PointDoors -----------------------------
(* The doors through which a curve point enters tss-lib from outside, and the *)
(* classes of coordinate pairs that can be presented at them (property C17:   *)
(* "every way a point enters the library from outside accepts it only if it   *)
(* lies on the stated curve, and re-encoding what was decoded gives back the  *)
(* same point and curve").                                                    *)
(*                                                                            *)
(* A door checks the pair against ONE curve, the stated curve:                *)
(*   argument : the elliptic.Curve handed to the function                     *)
(*              (crypto.NewECPoint, crypto.UnFlattenECPoints, the Unmarshal.. *)
(*              functions of the protocol messages, mta.ProofBobWCFromBytes)  *)
(*   payload  : the registry name carried in the encoding (ECPoint JSON with  *)
(*              a "Curve" member, resolved by tss.GetCurveByName)             *)
(*   global   : the library-wide default tss.EC() at decoding time (ECPoint   *)
(*              JSON without "Curve" - the legacy form - and Gob, whose       *)
(*              encoding carries coordinates only)                            *)
(* The model is a small state machine: the default curve can be switched      *)
(* (tss.SetCurve), and any input can be presented at any door.  TLC explores  *)
(* all (default curve, door, input) combinations, checks the design-level     *)
(* statements below and prints every explored case with the expected verdict; *)
(* the harness (harness/props/c17.go) builds concrete coordinate pairs for    *)
(* each case with its own arithmetic, presents them at the real door and      *)
(* compares accept / reject, the curve of the result and the re-encoding.     *)
(* No constants: the sets below are the model.                                *)
EXTENDS Integers, Sequences, FiniteSets, TLC, Json

Curves == {"ed25519", "secp256k1"}           \* registry names, tss/curve.go
Other(c) == IF c = "ed25519" THEN "secp256k1" ELSE "ed25519"
Cofactor(c) == IF c = "ed25519" THEN 8 ELSE 1
HasAffineIdentity(c) == c = "ed25519"        \* (0,1); secp256k1's neutral element has no affine coordinates

StatedBy ==
  [ d \in { "crypto.NewECPoint", "crypto.UnFlattenECPoints",
            "eddsa/keygen.KGRound2Message2.UnmarshalZKProof",
            "eddsa/signing.SignRound2Message.UnmarshalZKProof",
            "eddsa/resharing.DGRound1Message.UnmarshalEDDSAPub",
            "ecdsa/signing.SignRound4Message.UnmarshalZKProof",
            "ecdsa/signing.SignRound6Message.UnmarshalZKProof",
            "ecdsa/signing.SignRound6Message.UnmarshalZKVProof",
            "ecdsa/resharing.DGRound1Message.UnmarshalECDSAPub",
            "crypto/mta.ProofBobWCFromBytes" } |-> "argument" ]
  @@ [ d \in {"ECPoint.UnmarshalJSON"} |-> "payload" ]
  @@ [ d \in {"ECPoint.UnmarshalJSON(no Curve member)", "ECPoint.GobDecode"} |-> "global" ]
Doors == DOMAIN StatedBy

(* Input classes.  Each is built from a point of the curve `base`.            *)
OnCurveClasses  == {"generator", "random", "identity", "torsion", "mixed"}
OffCurveClasses == {"perturbed_x", "perturbed_y", "swapped",
                    "ge_p_alias",      \* a coordinate c replaced by c + p (where that differs from the next class)
                    "ge_p_topbit",     \* c + 2^255 (edwards25519) / c + 2^256: beyond the field's bit length
                    "ge_p_overlong"}   \* c * 2^8 + r: one byte longer than the field
Classes == OnCurveClasses \cup OffCurveClasses

(* classes that exist for a base curve: small-order and mixed-order points    *)
(* need a cofactor; "identity" for secp256k1 is the conventional stand-in     *)
(* (0,0), which is no point of either curve                                   *)
Exists(base, class) == class \in {"torsion", "mixed"} => Cofactor(base) = 8

(* does the coordinate pair lie on curve c ?  A pair built from a point of    *)
(* `base` lies on `base` iff it was left intact, and never on the other       *)
(* curve (the two curves share no affine point the harness could draw:        *)
(* checked by the harness for every pair it builds, not assumed).             *)
LiesOn(base, class, c) ==
  /\ c = base
  /\ class \in OnCurveClasses
  /\ class = "identity" => HasAffineIdentity(base)

Inputs == { in \in [base : Curves, class : Classes, claim : Curves] : Exists(in.base, in.class) }

Stated(d, in, g) == IF StatedBy[d] = "global" THEN g ELSE in.claim

(* what a door does *)
Decode(d, in, g) ==
  LET st == Stated(d, in, g)
  IN  [accept |-> LiesOn(in.base, in.class, st), curve |-> st]

(* what re-encoding an accepted point yields: the same coordinates, and the   *)
(* curve only where the encoding has room for it                              *)
Encode(d, in, curve) == [base |-> in.base, class |-> in.class, claim |-> curve]

VARIABLES global, last
vars == <<global, last>>

Init == global = "secp256k1" /\ last = <<>>

SetCurve(c) == global' = c /\ last' = <<>>

(* doors keep no state, so one presentation per visit of a default curve is     *)
(* enough: after it only SetCurve is enabled (keeps the state graph linear)    *)
Present(d, in) ==
  /\ last = <<>>
  /\ LET out == Decode(d, in, global)
     IN last' = << [door |-> d, stated_by |-> StatedBy[d], base |-> in.base, class |-> in.class,
                    claim |-> in.claim, global |-> global, stated |-> out.curve,
                    wrong_curve |-> (in.base # out.curve),
                    expect |-> IF out.accept THEN "accept" ELSE "reject"] >>
  /\ UNCHANGED global

Next == (\E c \in Curves : SetCurve(c)) \/ (\E d \in Doors, in \in Inputs : Present(d, in))
Spec == Init /\ [][Next]_vars

-----------------------------------------------------------------------------
(* The statements quantify over all doors and inputs and depend on the state   *)
(* only through the default curve: they are evaluated in the states where no   *)
(* case is on display (last = <<>>), once per default curve.                   *)
TypeOK == global \in Curves /\ Len(last) <= 1

(* nothing that is not a point of the stated curve gets in, through any door   *)
NothingOffCurveGetsIn == last = <<>> =>
  \A d \in Doors, in \in Inputs :
     Decode(d, in, global).accept =>
        /\ in.class \in OnCurveClasses
        /\ in.base = Stated(d, in, global)
        /\ Decode(d, in, global).curve = in.base

(* every intact point of a curve is accepted when that curve is the stated one *)
(* (otherwise "reject everything" would satisfy the previous statement)        *)
IntactPointsGetIn == last = <<>> =>
  \A d \in Doors, in \in Inputs :
     (in.class \in OnCurveClasses /\ (in.class = "identity" => HasAffineIdentity(in.base))
        /\ Stated(d, in, global) = in.base) => Decode(d, in, global).accept

(* small-order points ARE points of edwards25519: the doors let them in, which *)
(* is why the EdDSA rounds clear the cofactor afterwards (Points!CofactorMap)  *)
SmallOrderPointsGetIn ==
  \A d \in Doors : Decode(d, [base |-> "ed25519", class |-> "torsion", claim |-> "ed25519"], "ed25519").accept

(* re-encoding what was decoded and decoding it again - at the same door, under *)
(* any default curve - gives the same point on the same curve or is refused;    *)
(* it is never re-interpreted on the other curve                                *)
RoundTrip == last = <<>> =>
  \A d \in Doors, in \in Inputs :
     LET out == Decode(d, in, global)
     IN  out.accept =>
           \A g2 \in Curves :
              LET back == Decode(d, Encode(d, in, out.curve), g2)
              IN  /\ back.accept => back.curve = out.curve
                  /\ (StatedBy[d] # "global" \/ g2 = global) => back.accept

(* catalogue generation: one line per explored case (-workers 1) *)
EmitRow == last # <<>> => PrintT(<<"ROW", ToJson(last[1])>>)
=============================================================================
