----------------------------- MODULE PointDoors -----------------------------
(* The doors through which a curve point enters tss-lib from outside, and the *)
(* classes of coordinate pairs that can be presented at them (property C17:   *)
(* "every way a point enters the library from outside accepts it only if it   *)
(* lies on the stated curve, and re-encoding what was decoded gives back the  *)
(* same point and curve").                                                    *)
(*                                                                            *)
(* A door checks the pair against ONE curve, the stated curve:                *)
(*   argument : the elliptic.Curve handed to the function                     *)
(*              (crypto.NewECPoint, crypto.UnFlattenECPoints, the Unmarshal.. *)
(*              functions of the protocol messages, mta.ProofBobWCFromBytes)  *)
(*   payload  : the registry name carried in the encoding (ECPoint JSON with  *)
(*              a "Curve" member, resolved by tss.GetCurveByName)             *)
(*   global   : the library-wide default tss.EC() at decoding time (ECPoint   *)
(*              JSON without "Curve" - the legacy form - and Gob, whose       *)
(*              encoding carries coordinates only)                            *)
(*                                                                            *)
(* HISTORIES.  A presentation does not happen in a vacuum: the process has    *)
(* used the door before, and three doors (UnmarshalJSON with and without a    *)
(* curve name, GobDecode) are METHODS OF AN EXISTING OBJECT - encoding/json   *)
(* and encoding/gob decode into a non-nil *ECPoint they find in the target    *)
(* (a field of a struct that is reloaded, an element of a slice) instead of   *)
(* allocating a new one.  The pre-state of a presentation is therefore a      *)
(* dimension of the table:                                                    *)
(*   fresh : nothing before, a new object                                     *)
(*   seen  : the same door was used immediately before, in the same process   *)
(*           (and, for the message doors, on the same message object):        *)
(*           with the same pair under the other curve, or with the intact     *)
(*           point the pair was made from under that point's own curve; for   *)
(*           the list door also: that intact point directly before the pair   *)
(*           in the same list                                                 *)
(*   reuse : (receiver doors) the object decoded into was used before: it is  *)
(*           bound to curve b because it was decoded from JSON naming b,      *)
(*           from legacy JSON / Gob while b was the default, made by the      *)
(*           constructor for b, marked with SetCurve(b), or because a decode  *)
(*           naming b FAILED on it (which leaves curve and coordinates set)   *)
(* What a door does must not depend on the pre-state (HistoryIndependent).    *)
(* The wrong designs in which it does are part of the model (WrongDesigns):   *)
(* TLC must refute each of them (WrongDesignsAreRefuted), which shows that    *)
(* the pre-state dimension of the table is able to tell them apart.           *)
(*                                                                            *)
(* The model is a small state machine: the default curve can be switched      *)
(* (tss.SetCurve), and any input can be presented at any door in any          *)
(* pre-state.  TLC explores all (default curve, door, input, pre-state)       *)
(* combinations, checks the design-level statements below and prints every    *)
(* explored case with the expected verdict; the harness                       *)
(* (harness/props/c17.go) builds concrete coordinate pairs for each case with *)
(* its own arithmetic, brings the real door / target object into the          *)
(* pre-state with real calls, presents the pair and compares accept / reject, *)
(* the curve of the result and the re-encoding.                               *)
(* No constants: the sets below are the model.                                *)
EXTENDS Integers, Sequences, FiniteSets, TLC, Json

Curves == {"ed25519", "secp256k1"}           \* registry names, tss/curve.go
Other(c) == IF c = "ed25519" THEN "secp256k1" ELSE "ed25519"
Cofactor(c) == IF c = "ed25519" THEN 8 ELSE 1
HasAffineIdentity(c) == c = "ed25519"        \* (0,1); secp256k1's neutral element has no affine coordinates

StatedBy ==
  [ d \in { "crypto.NewECPoint", "crypto.UnFlattenECPoints",
            "eddsa/keygen.KGRound2Message2.UnmarshalZKProof",
            "eddsa/signing.SignRound2Message.UnmarshalZKProof",
            "eddsa/resharing.DGRound1Message.UnmarshalEDDSAPub",
            "ecdsa/signing.SignRound4Message.UnmarshalZKProof",
            "ecdsa/signing.SignRound6Message.UnmarshalZKProof",
            "ecdsa/signing.SignRound6Message.UnmarshalZKVProof",
            "ecdsa/resharing.DGRound1Message.UnmarshalECDSAPub",
            "crypto/mta.ProofBobWCFromBytes" } |-> "argument" ]
  @@ [ d \in {"ECPoint.UnmarshalJSON"} |-> "payload" ]
  @@ [ d \in {"ECPoint.UnmarshalJSON(no Curve member)", "ECPoint.GobDecode"} |-> "global" ]
Doors == DOMAIN StatedBy

(* doors that are methods of an ECPoint that exists before the call *)
HasReceiver(d) == d \in {"ECPoint.UnmarshalJSON", "ECPoint.UnmarshalJSON(no Curve member)", "ECPoint.GobDecode"}

(* Input classes.  Each is built from a point of the curve `base`.            *)
OnCurveClasses  == {"generator", "random", "identity", "torsion", "mixed"}
OffCurveClasses == {"perturbed_x", "perturbed_y", "swapped",
                    "ge_p_alias",      \* a coordinate c replaced by c + p (where that differs from the next class)
                    "ge_p_topbit",     \* c + 2^255 (edwards25519) / c + 2^256: beyond the field's bit length
                    "ge_p_overlong",   \* c * 2^8 + r: one byte longer than the field
                    "absent"}          \* a coordinate is missing (nil *big.Int, JSON null, short or missing Coords):
                                       \* no pair at all - whatever the target held before must not fill the gap
Classes == OnCurveClasses \cup OffCurveClasses

(* classes that exist for a base curve: small-order and mixed-order points    *)
(* need a cofactor; "identity" for secp256k1 is the conventional stand-in     *)
(* (0,0), which is no point of either curve                                   *)
Exists(base, class) == class \in {"torsion", "mixed"} => Cofactor(base) = 8

(* a missing coordinate can be expressed where coordinates are *big.Int or    *)
(* JSON values; byte fields and the Gob form always denote a number           *)
Expressible(d, class) ==
  class = "absent" => d \in {"crypto.NewECPoint", "crypto.UnFlattenECPoints",
                             "ECPoint.UnmarshalJSON", "ECPoint.UnmarshalJSON(no Curve member)"}

(* does the coordinate pair lie on curve c ?  A pair built from a point of    *)
(* `base` lies on `base` iff it was left intact, and never on the other       *)
(* curve (the two curves share no affine point the harness could draw:        *)
(* checked by the harness for every pair it builds, not assumed).             *)
LiesOn(base, class, c) ==
  /\ c = base
  /\ class \in OnCurveClasses
  /\ class = "identity" => HasAffineIdentity(base)

Inputs == { in \in [base : Curves, class : Classes, claim : Curves] : Exists(in.base, in.class) }

(* Pre-states *)
BindingWays == {"json", "legacy_json", "gob", "constructor", "setcurve", "failed_json"}
LeavesAPoint(h) == h \in {"json", "legacy_json", "gob", "constructor"}   \* the target holds a valid point of its curve
SeenWays == {"same_pair_other_curve", "intact_point_own_curve"}
Fresh == [kind |-> "fresh", how |-> "-", curve |-> "-"]
PreStates(d) ==
  {Fresh}
  \cup { [kind |-> "seen", how |-> h, curve |-> "-"] : h \in SeenWays }
  \cup (IF HasReceiver(d) THEN { [kind |-> "reuse", how |-> h, curve |-> c] : h \in BindingWays, c \in Curves } ELSE {})
  \* the list door: "before" can also be an earlier position of the same list (same call, same stated curve)
  \cup (IF d = "crypto.UnFlattenECPoints" THEN { [kind |-> "seen", how |-> "intact_point_earlier_in_the_list", curve |-> "-"] } ELSE {})

Cases == { c \in [door : Doors, in : Inputs] : Expressible(c.door, c.in.class) }

(* Wrong designs (each one a plausible "convenience" or "optimisation"):      *)
(*  sticky_target       : a decode without a curve name keeps the curve the   *)
(*                        receiver is already bound to                        *)
(*  memo_by_coordinates : the on-curve verdict is remembered per coordinate   *)
(*                        pair, not per (curve, pair)                         *)
(*  merge_coordinates   : a coordinate missing from the payload is taken from *)
(*                        what the receiver held before                       *)
WrongDesigns == {"sticky_target", "memo_by_coordinates", "merge_coordinates"}

(* the curve the door is told to check against: never a matter of history *)
Stated(d, in, g) == IF StatedBy[d] = "global" THEN g ELSE in.claim

(* the curve a door of design W checks against *)
CheckedW(d, in, g, pre, W) ==
  IF StatedBy[d] = "global" /\ "sticky_target" \in W /\ pre.kind = "reuse" THEN pre.curve ELSE Stated(d, in, g)

(* what a door of design W does; W = {} is the design the code is held to *)
DecodeW(d, in, g, pre, W) ==
  LET st == CheckedW(d, in, g, pre, W)
      remembered ==
        /\ "memo_by_coordinates" \in W /\ pre.kind = "seen"
        /\ \/ pre.how = "same_pair_other_curve"  /\ LiesOn(in.base, in.class, Other(st))
           \/ pre.how = "intact_point_own_curve" /\ LiesOn(in.base, in.class, in.base)
      filled ==
        /\ "merge_coordinates" \in W /\ pre.kind = "reuse" /\ LeavesAPoint(pre.how)
        /\ in.class = "absent" /\ pre.curve = st
  IN  [accept |-> LiesOn(in.base, in.class, st) \/ remembered \/ filled, curve |-> st]

Decode(d, in, g, pre) == DecodeW(d, in, g, pre, {})

(* what re-encoding an accepted point yields: the same coordinates, and the   *)
(* curve only where the encoding has room for it                              *)
Encode(d, in, curve) == [base |-> in.base, class |-> in.class, claim |-> curve]

VARIABLES global, last
vars == <<global, last>>

Init == global = "secp256k1" /\ last = <<>>

SetCurve(c) == global' = c /\ last' = <<>>

(* doors keep no state, so one presentation per visit of a default curve is     *)
(* enough: after it only SetCurve is enabled (keeps the state graph linear)    *)
Present(d, in, pre) ==
  /\ last = <<>>
  /\ LET out == Decode(d, in, global, pre)
     IN last' = << [door |-> d, stated_by |-> StatedBy[d], base |-> in.base, class |-> in.class,
                    claim |-> in.claim, global |-> global, stated |-> out.curve,
                    pre_kind |-> pre.kind, pre_how |-> pre.how, pre_curve |-> pre.curve,
                    wrong_curve |-> (in.base # out.curve),
                    expect |-> IF out.accept THEN "accept" ELSE "reject"] >>
  /\ UNCHANGED global

Next == \/ \E c \in Curves : SetCurve(c)
        \/ \E c \in Cases : \E pre \in PreStates(c.door) : Present(c.door, c.in, pre)
Spec == Init /\ [][Next]_vars

-----------------------------------------------------------------------------
(* The statements quantify over all doors, inputs and pre-states and depend on *)
(* the state only through the default curve: they are evaluated in the states  *)
(* where no case is on display (last = <<>>), once per default curve.  Each is *)
(* written for a design W so that the wrong designs can be refuted below.      *)
TypeOK == global \in Curves /\ Len(last) <= 1

(* nothing that is not a point of the stated curve gets in, through any door,  *)
(* whatever happened before                                                    *)
NothingOffCurveGetsInW(W, g) ==
  \A c \in Cases : \A pre \in PreStates(c.door) :
     LET out == DecodeW(c.door, c.in, g, pre, W)
     IN  out.accept =>
           /\ c.in.class \in OnCurveClasses
           /\ c.in.base = Stated(c.door, c.in, g)
           /\ out.curve = c.in.base
NothingOffCurveGetsIn == last = <<>> => NothingOffCurveGetsInW({}, global)

(* every intact point of a curve is accepted when that curve is the stated one *)
(* (otherwise "reject everything" would satisfy the previous statement)        *)
IntactPointsGetInW(W, g) ==
  \A c \in Cases : \A pre \in PreStates(c.door) :
     (/\ c.in.class \in OnCurveClasses
      /\ c.in.class = "identity" => HasAffineIdentity(c.in.base)
      /\ Stated(c.door, c.in, g) = c.in.base) => DecodeW(c.door, c.in, g, pre, W).accept
IntactPointsGetIn == last = <<>> => IntactPointsGetInW({}, global)

(* doors keep no state: verdict and curve are those of a first use *)
HistoryIndependentW(W, g) ==
  \A c \in Cases : \A pre \in PreStates(c.door) :
     DecodeW(c.door, c.in, g, pre, W) = DecodeW(c.door, c.in, g, Fresh, W)
HistoryIndependent == last = <<>> => HistoryIndependentW({}, global)

(* small-order points ARE points of edwards25519: the doors let them in, which *)
(* is why the EdDSA rounds clear the cofactor afterwards (Points!CofactorMap)  *)
SmallOrderPointsGetIn ==
  \A d \in Doors : \A pre \in PreStates(d) :
     Decode(d, [base |-> "ed25519", class |-> "torsion", claim |-> "ed25519"], "ed25519", pre).accept

(* re-encoding what was decoded and decoding it again - at the same door, under *)
(* any default curve, into a new or a used object - gives the same point on the *)
(* same curve or is refused; it is never re-interpreted on the other curve      *)
RoundTrip == last = <<>> =>
  \A c \in Cases : \A pre \in PreStates(c.door) :
     LET out == Decode(c.door, c.in, global, pre)
     IN  out.accept =>
           \A g2 \in Curves : \A pre2 \in PreStates(c.door) :
              LET back == Decode(c.door, Encode(c.door, c.in, out.curve), g2, pre2)
              IN  /\ back.accept => back.curve = out.curve
                  /\ (StatedBy[c.door] # "global" \/ g2 = global) => back.accept

(* self-test of the table: each wrong design lets something in that does not   *)
(* lie on the stated curve, and is history dependent; the sticky target also   *)
(* refuses valid points of the stated curve (evaluated once, at start-up)      *)
WrongDesignsAreRefuted ==
  /\ \A w \in WrongDesigns : \E g \in Curves : ~NothingOffCurveGetsInW({w}, g)
  /\ \A w \in WrongDesigns : \E g \in Curves : ~HistoryIndependentW({w}, g)
  /\ \E g \in Curves : ~IntactPointsGetInW({"sticky_target"}, g)
  /\ \A g \in Curves : NothingOffCurveGetsInW({}, g) /\ HistoryIndependentW({}, g) /\ IntactPointsGetInW({}, g)
ASSUME WrongDesignsAreRefuted

(* catalogue generation: one line per explored case (-workers 1) *)
EmitRow == last # <<>> => PrintT(<<"ROW", ToJson(last[1])>>)
=============================================================================
