------------------------------- MODULE Points -------------------------------
(* The point type of tss-lib (crypto/ecpoint.go: ECPoint{curve, coords}) over *)
(* the two registered groups (tss/curve.go), abstracted to group structure.   *)
(*                                                                            *)
(*  edwards25519 = Z_8 x Z_l  (cofactor 8; l prime, l = 5 mod 8)              *)
(*  secp256k1    = Z_q        (cofactor 1; the identity has NO representation *)
(*                 as an ECPoint: NewECPoint of it fails, Add returning it    *)
(*                 yields an error, ScalarMult / ScalarBaseMult panic)        *)
(*                                                                            *)
(* An abstract element is <<t, a, b>>: torsion index t in 0..H-1 and the      *)
(* prime-order component written over TWO generators, a*B + b*P0, where B is  *)
(* the base point of the curve and P0 = r*B for a scalar r the harness draws  *)
(* at random per behaviour (so "random points" enter the walks without the    *)
(* model having to know r).  The harness concretises <<t,a,b>> as             *)
(*        a*B + b*P0 + T_t       (T_t = t * (a fixed point of order 8))       *)
(* with its own affine arithmetic (harness/obs) and compares the library's    *)
(* result with the concretisation of the model's result after every step.     *)
(*                                                                            *)
(* a and b live in Z_L for a toy prime L and are kept in the balanced range   *)
(* -(L-1)/2 .. (L-1)/2.  A scalar is written <<c0, c1>> = c0 + c1*L, which    *)
(* the harness reads at real size as c0 + c1*l (so 1, l-1, l, l+1, 2l+3 are   *)
(* expressible).  A step is EXACT when its result computed over the integers  *)
(* (c1*L*a vanishes because L*B = 0) stays inside the balanced range: then    *)
(* the same integers describe the result for every odd prime order >= L, in   *)
(* particular for the real 252/256-bit one.  Only exact steps are replayed;   *)
(* ExactIsSizeIndependent checks that claim against a second toy prime L2.    *)
(* For the torsion part the real scalar acts through (c0 + c1*l) mod 8, which *)
(* equals (c0 + c1*L) mod 8 because L = l = 5 (mod 8) is demanded below.      *)
(*                                                                            *)
(* Constants used by the harness (harness/props/c17.go):                      *)
(*   exhaustive runs  : L = 13, L2 = 29 and L = 29, L2 = 37 (edwards25519,     *)
(*                      1352 and 6728 elements)                                *)
(*                      L = 11, L2 = 13 and L = 31, L2 = 37 (secp256k1, 120    *)
(*                      and 960 elements)                                      *)
(*   behaviour runs   : L = 1021, L2 = 1061, -simulate, MaxLen steps each     *)
(* This module makes no claim about field arithmetic: whether the library     *)
(* adds and multiplies correctly is judged by the independent implementation; *)
(* the specification supplies the group structure, the behaviours and the     *)
(* predicted abstract result of every step.                                   *)
EXTENDS Integers, Sequences, FiniteSets, TLC, Json

CONSTANTS
  Curve,         \* "ed25519" | "secp256k1"   (names as in tss/curve.go)
  L,             \* toy prime order of the prime-order subgroup
  L2,            \* a second, larger toy prime (size-independence check)
  C0s, C1s,      \* scalar coefficients: k = c0 + c1*L with c0 \in C0s, c1 \in C1s, k >= 0
  Coefs,         \* coefficients a, b of operands handed to Load / Add
  MaxLen,        \* length of a recorded behaviour
  Record,        \* TRUE: keep the history variable and stop after MaxLen steps
  RequireExact   \* TRUE: only exact steps are enabled (behaviour generation)

IsPrime(n) == n > 1 /\ \A d \in 2..(n - 1) : d * d > n \/ n % d # 0
H     == IF Curve = "ed25519" THEN 8 ELSE 1          \* cofactor
HasId == Curve = "ed25519"                           \* identity representable as an ECPoint
ASSUME Curve \in {"ed25519", "secp256k1"}
ASSUME IsPrime(L) /\ IsPrime(L2) /\ L2 > L /\ L > 8
ASSUME H = 8 => (L % 8 = 5 /\ L2 % 8 = 5)            \* as the real l

W         == (L - 1) \div 2
Bal       == (-W)..W
Norm(x)   == LET r == x % L IN IF r > W THEN r - L ELSE r
NormM(x, m) == LET r == x % m IN IF r > (m - 1) \div 2 THEN r - m ELSE r
Abs(x)    == IF x < 0 THEN -x ELSE x

Elems     == (0..(H - 1)) \X Bal \X Bal
Id        == <<0, 0, 0>>
Gen       == <<0, 1, 0>>                              \* B
Rnd       == <<0, 0, 1>>                              \* P0 = r*B
Degenerate(e) == ~HasId /\ e = Id                     \* not representable: the library cannot return it

Scalars   == { k \in C0s \X C1s : k[1] + k[2] * L >= 0 /\ (k[2] > 0 \/ k[1] >= 0) }
Val(k)    == k[1] + k[2] * L
Operands  == { e \in (0..(H - 1)) \X Coefs \X Coefs : ~Degenerate(e) }

-----------------------------------------------------------------------------
(* The operations of crypto/ecpoint.go on abstract elements.                  *)

Add(e, f)  == <<(e[1] + f[1]) % H, Norm(e[2] + f[2]), Norm(e[3] + f[3])>>            \* (*ECPoint).Add
Neg(e)     == <<(H - e[1]) % H, -e[2], -e[3]>>
Mul(k, e)  == <<(Val(k) * e[1]) % H, Norm(Val(k) * e[2]), Norm(Val(k) * e[3])>>      \* (*ECPoint).ScalarMult(k)
Base(k)    == Mul(k, Gen)                                                           \* ScalarBaseMult(curve, k)

(* EightInvEight: p.ScalarMult(eight).ScalarMult(eightInv), eightInv = 8^-1 mod the group order *)
Inv8       == CHOOSE x \in 1..(L - 1) : (8 * x) % L = 1
MulInt(n, e) == <<(n * e[1]) % H, Norm(n * e[2]), Norm(n * e[3])>>
E8(e)      == MulInt(Inv8, MulInt(8, e))

(* exactness: the integer result does not leave the balanced range *)
ExactAdd(e, f) == Abs(e[2] + f[2]) <= W /\ Abs(e[3] + f[3]) <= W
ExactMul(k, e) == Abs(k[1] * e[2]) <= W /\ Abs(k[1] * e[3]) <= W

(* the same operations modulo another prime m (used by ExactIsSizeIndependent only) *)
AddM(e, f, m) == <<(e[1] + f[1]) % H, NormM(e[2] + f[2], m), NormM(e[3] + f[3], m)>>
MulM(k, e, m) == LET v == k[1] + k[2] * m
                 IN <<(v * e[1]) % H, NormM(v * e[2], m), NormM(v * e[3], m)>>

-----------------------------------------------------------------------------
(* Behaviours: a walk of one current point.  A step first picks the kind of   *)
(* operation, then its argument (two phases so that -simulate spreads evenly  *)
(* over the kinds).  Operands of Load/Add are built by the harness with the   *)
(* independent arithmetic and enter the library through NewECPoint.           *)

VARIABLES cur, pend, hist
vars == <<cur, pend, hist>>

Kinds == {"Load", "Base", "Add", "Dbl", "Mul"} \cup (IF H = 8 THEN {"E8"} ELSE {})

Entry(op, arg, res, deg) == [op |-> op, arg |-> arg, pre |-> cur, res |-> res, deg |-> deg]

(* outcome of a step: the identity on secp256k1 cannot be returned; the step is  *)
(* recorded as Degenerate and the current point is kept (the harness records     *)
(* what the library did and does not judge it: crashes are another property)     *)
Step(op, arg, res) ==
  /\ cur'  = IF Degenerate(res) THEN cur ELSE res
  /\ hist' = IF Record THEN Append(hist, Entry(op, arg, res, Degenerate(res))) ELSE hist
  /\ pend' = "none"

Init == cur = Gen /\ pend = "none" /\ hist = <<>>

Pick ==
  /\ pend = "none"
  /\ Record => Len(hist) < MaxLen
  /\ \E kd \in Kinds : pend' = kd
  /\ UNCHANGED <<cur, hist>>

Apply ==
  \/ /\ pend = "Load"
     /\ \E e \in Operands : Step("Load", e, e)
  \/ /\ pend = "Base"
     /\ \E k \in Scalars : Step("Base", k, Base(k))
  \/ /\ pend = "Add"
     /\ \E e \in Operands : (RequireExact => ExactAdd(cur, e)) /\ Step("Add", e, Add(cur, e))
  \/ /\ pend = "Dbl"
     /\ IF RequireExact /\ ~ExactAdd(cur, cur)
          THEN Step("Load", Gen, Gen)             \* cannot double inside the window: restart from B
          ELSE Step("Dbl", <<>>, Add(cur, cur))
  \/ /\ pend = "Mul"
     /\ \E k \in Scalars : (RequireExact => ExactMul(k, cur)) /\ Step("Mul", k, Mul(k, cur))
  \/ /\ pend = "E8"
     /\ Step("E8", <<>>, E8(cur))

(* a finished walk takes one last step so that Emit fires once per walk (in       *)
(* -simulate mode TLC evaluates invariants on every candidate successor)         *)
Finish ==
  /\ Record /\ pend = "none" /\ Len(hist) = MaxLen
  /\ pend' = "done"
  /\ UNCHANGED <<cur, hist>>

Next == Pick \/ Apply \/ Finish
Spec == Init /\ [][Next]_vars

View == <<cur, pend>>

-----------------------------------------------------------------------------
(* Invariants: group laws and the cofactor map, for the current point against *)
(* every operand and scalar.  With Record = FALSE and RequireExact = FALSE     *)
(* the reachable set of cur is the whole group, so these are exhaustive.       *)

TypeOK ==
  /\ cur \in Elems /\ ~Degenerate(cur)
  /\ pend \in Kinds \cup {"none", "done"}

AtRest == pend = "none"      \* the laws do not depend on pend: evaluate them once per point

GroupLaws == AtRest =>
  /\ Add(cur, Id) = cur /\ Add(Id, cur) = cur
  /\ Add(cur, Neg(cur)) = Id
  /\ \A e \in Operands : Add(cur, e) = Add(e, cur)
  /\ \A e, f \in Operands : Add(Add(cur, e), f) = Add(cur, Add(e, f))

ScalarLaws == AtRest =>
  /\ Mul(<<1, 0>>, cur) = cur
  /\ Mul(<<2, 0>>, cur) = Add(cur, cur)
  /\ Mul(<<3, 0>>, cur) = Add(cur, Add(cur, cur))
  /\ \A k \in Scalars, e \in Operands : Mul(k, Add(cur, e)) = Add(Mul(k, cur), Mul(k, e))
  /\ \A k1, k2 \in Scalars :
        /\ Mul(k1, Mul(k2, cur)) = Mul(k2, Mul(k1, cur))
        /\ Add(Mul(k1, cur), Mul(k2, cur)) = MulInt(Val(k1) + Val(k2), cur)
  \* the group order annihilates the prime-order component and nothing else
  /\ LET o == Mul(<<0, 1>>, cur) IN o[2] = 0 /\ o[3] = 0 /\ o[1] = (L * cur[1]) % H
  /\ LET o == Mul(<<1, 1>>, cur) IN o[2] = cur[2] /\ o[3] = cur[3]
  /\ MulInt(H * L, cur) = Id

(* "on the Edwards curve the cofactor-clearing map removes any small-order    *)
(* component while leaving prime-order points unchanged"                       *)
CofactorMap ==
  (AtRest /\ H = 8) =>
    /\ E8(cur) = <<0, cur[2], cur[3]>>
    /\ (cur[1] = 0 => E8(cur) = cur)
    /\ E8(E8(cur)) = E8(cur)
    /\ \A t \in 0..7 : E8(Add(cur, <<t, 0, 0>>)) = E8(cur)
    /\ \A e \in Operands : E8(Add(cur, e)) = Add(E8(cur), E8(e))
    /\ MulInt(L, E8(cur)) = Id

(* an exact step has the same integer result modulo the larger prime L2, hence *)
(* (by the same argument) modulo every larger odd prime: what the harness      *)
(* replays at real size is what the model predicts                             *)
ExactIsSizeIndependent == AtRest =>
  /\ \A e \in Operands : ExactAdd(cur, e) => Add(cur, e) = AddM(cur, e, L2)
  /\ ExactAdd(cur, cur) => Add(cur, cur) = AddM(cur, cur, L2)
  /\ \A k \in Scalars : ExactMul(k, cur) => Mul(k, cur) = MulM(k, cur, L2)

(* the unrepresentable identity is reached exactly by the expected steps *)
DegenerateSteps ==
  (AtRest /\ ~HasId) =>
    /\ \A k \in Scalars : Degenerate(Base(k)) <=> Val(k) % L = 0
    /\ \A k \in Scalars : Degenerate(Mul(k, cur)) <=> Val(k) % L = 0
    /\ \A e \in Operands : Degenerate(Add(cur, e)) <=> e = Neg(cur)

(* behaviour generation: print the history of every finished walk (-workers 1) *)
Emit == pend = "done" => PrintT(<<"BEHAVIOUR", ToJson(hist)>>)
=============================================================================
