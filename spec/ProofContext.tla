---------------------------- MODULE ProofContext ----------------------------
(* Property C12, protocol level: "a proof cannot be replayed by another       *)
(* participant (whose context differs by its index) or in another context".   *)
(*                                                                            *)
(* ProofBinding.tla shows, per proof system, that a proof is accepted under   *)
(* exactly the session string it was made for.  This module models where that *)
(* string comes from in the ROUNDS of the protocols:                          *)
(*                                                                            *)
(*   ssid    = H(curve parameters, party keys, [key data: BigXj, NTilde, h1,  *)
(*             h2], round number, nonce)        */rounds.go:getSSID           *)
(*   context = ssid || big.Int(index of the prover).Bytes()                   *)
(*             ContextI (prover) / ContextJ (verifier) in */round_*.go        *)
(*                                                                            *)
(* 1. Context derivation.  BigBytes is big.Int.Bytes(): the minimal           *)
(*    big-endian encoding, EMPTY for 0.  Ctx(enc, ssid, i) = ssid \o enc(i)   *)
(*    must be injective in (ssid, i) - over the index classes around every    *)
(*    byte boundary (0, 1, 127/128, 255/256/257, 65535/65536, 2^24), not only *)
(*    over the handful of indices of a test committee - and distinct session  *)
(*    inputs must give distinct ssids.  Deviations, named: ssids have a fixed *)
(*    length here (the code's ssid is the Bytes() of a 256-bit digest and is  *)
(*    one byte shorter with probability 2^-8); H is an injective oracle.      *)
(* 2. Sites.  One row per place where a round hands a context to a prover and *)
(*    a later round of the RECIPIENT hands one to the verifier: the message   *)
(*    carrying the proof, the messages / fields carrying its statement, the   *)
(*    round that verifies, and what an honest verifier does next when it      *)
(*    accepted (the marker).                                                  *)
(* 3. Replay.  Party i of session x makes a proof under Ctx(ssid(x), i);      *)
(*    party j of session y presents the same proof together with everything   *)
(*    its statement is read from; the verifier of y recomputes                *)
(*    Ctx(ssid(y), j).  By ProofBinding.SessionBound the proof is accepted    *)
(*    iff the two strings are equal.  ReplayRejected: accepted iff x = y and  *)
(*    i = j.                                                                  *)
(* 4. Discrimination.  Each weakened derivation (one index byte, two index    *)
(*    bytes, seven bits, no index; ssid without the party keys / the key      *)
(*    data) VIOLATES ReplayRejected, and the least committee that shows it is *)
(*    printed - so the catalogue rows below are exactly the replays that tell *)
(*    the designs apart, and the ones no executable committee reaches are     *)
(*    listed as such.                                                         *)
(* The catalogue (ASSUME EmitRows) is replayed on real rounds by              *)
(* harness/props/c12_context.go.                                              *)
EXTENDS Integers, Sequences, FiniteSets, TLC, Json

CONSTANT Big      \* TRUE: thorough tier (no difference in the model; kept for the cfg)

-----------------------------------------------------------------------------
(* 1. context derivation *)

RECURSIVE BigBytes(_)
BigBytes(i) == IF i = 0 THEN <<>> ELSE Append(BigBytes(i \div 256), i % 256)

Encoders == {"bigbytes", "lowbyte", "low7", "low2", "none"}
WeakEncoders == Encoders \ {"bigbytes"}
Enc(e, i) ==
  CASE e = "bigbytes" -> BigBytes(i)                         \* the code
    [] e = "lowbyte"  -> <<i % 256>>                         \* byte(index)
    [] e = "low7"     -> <<i % 128>>                         \* a signed byte
    [] e = "low2"     -> <<(i \div 256) % 256, i % 256>>     \* uint16(index)
    [] e = "none"     -> <<>>                                \* the bare ssid

IdxClasses == {0, 1, 2, 3, 4, 127, 128, 129, 254, 255, 256, 257, 511, 512, 513,
               65535, 65536, 65537, 65792, 16777215, 16777216, 16777217}

(* session inputs; the round number (1) and the nonce (0) are constants of the code *)
(* (and so is the curve of a protocol: a proof over one curve is not even well-formed over the other)                 *)
Inputs == [curve : {"ed25519"}, keys : {"K", "K'"}, keydata : {"D", "D'"}, round : {1}, nonce : {0}]
Derivs == {"all", "nokeys", "nokeydata"}
WeakDerivs == Derivs \ {"all"}
Code(d, x) ==       \* injective on what the derivation hashes
  (IF x.curve = "ed25519" THEN 0 ELSE 1) * 100
  + (IF d = "nokeys" THEN 0 ELSE IF x.keys = "K" THEN 1 ELSE 2) * 10
  + (IF d = "nokeydata" THEN 0 ELSE IF x.keydata = "D" THEN 1 ELSE 2)
SsidOf(d, x) == <<7, Code(d, x)>>                             \* fixed length; <<7, ..>> ends in bytes that also occur as index bytes
Ctx(e, d, x, i) == SsidOf(d, x) \o Enc(e, i)

Accepts(e, d, x, i, y, j) == Ctx(e, d, x, i) = Ctx(e, d, y, j)

CtxInjective(e, d) == \A x, y \in Inputs : \A i, j \in IdxClasses : Accepts(e, d, x, i, y, j) => (x = y /\ i = j)
ASSUME DesignInjective == CtxInjective("bigbytes", "all")

-----------------------------------------------------------------------------
(* 2. the sites *)

BigN == 258      \* largest committee the harness can run (EdDSA keygen: rounds 1 and 2 of all, round 3 of the verifiers only)
EcN  == 5        \* five vendored sets of ECDSA pre-parameters; EdDSA signing needs a completed keygen of that size

(* proto, site, proof message, statement carriers, verifying round, marker of acceptance, largest committee,         *)
(* session inputs that can be varied between two executable sessions, whether the statement is self-contained       *)
(* (so that the proof can be presented in ANOTHER session at all)                                                    *)
S(p, s, pm, ver, mk, maxn, vary, of) == [proto |-> p, site |-> s, msg |-> pm, ver |-> ver, marker |-> mk, maxN |-> maxn, vary |-> vary, ctxOf |-> of]
Sites == {
  S("eddsa-keygen",    "schnorr", "KGRound2Message2",  3, "result",             BigN, {"keys"}, "prover"),
  S("eddsa-signing",   "schnorr", "SignRound2Message", 3, "SignRound3Message",  EcN,  {"keys", "keydata"}, "prover"),
  S("ecdsa-keygen",    "modfac",  "KGRound2Message2",  3, "KGRound3Message",    EcN,  {"keys"}, "prover"),  \* ProofMod and ProofFac under the one ContextI of round 2, presented together
  S("ecdsa-keygen",    "mod",     "KGRound2Message2",  3, "KGRound3Message",    EcN,  {}, "prover"),        \* ... each alone (the other switched off: NoProofFac / NoProofMod);
  S("ecdsa-keygen",    "fac",     "KGRound2Message1",  3, "KGRound3Message",    EcN,  {}, "prover"),        \*     the ssid is the protocol's: one site per protocol varies it
  S("ecdsa-signing",   "gamma",   "SignRound4Message", 5, "SignRound5Message",  EcN,  {"keys"}, "prover"),
  S("ecdsa-signing",   "av",      "SignRound6Message", 7, "SignRound7Message",  EcN,  {}, "prover"),        \* statement: the session's R
  S("ecdsa-resharing", "mod",     "DGRound2Message1",  4, "DGRound4Message2",   EcN,  {}, "prover"),
  S("ecdsa-resharing", "fac-to",  "DGRound4Message1",  5, "result",             EcN,  {}, "recipient") }
(* "fac-to": ecdsa/resharing makes ProofFac under ssid || index of the RECIPIENT (round_4_new_step_2.go) and the        *)
(* recipient verifies under its OWN index (round_5_new_step_3.go): the context does not name the prover, so the model  *)
(* ACCEPTS the replay of party i's proof (with i's Paillier modulus) by party j towards the same recipient.  With the  *)
(* modulus proofs on, j cannot claim i's modulus (site "mod"); the row is executed with SetNoProofMod and RECORDED,     *)
(* not judged.                                                                                                          *)
(* not sites: ecdsa-signing ProofBob / ProofBobWC (the statement contains the ciphertext the verifier encrypted afresh *)
(* for THIS prover, and for the proof with check also the prover's public share W_j: another participant cannot       *)
(* present them whatever the context); dln proofs and Alice's range proof take no context; eddsa-resharing has no    *)
(* proofs.                                                                                                            *)

-----------------------------------------------------------------------------
(* 3. replay as a state machine *)
VARIABLES ph, src, dst, verdict
vars == <<ph, src, dst, verdict>>
None == [inp |-> CHOOSE x \in Inputs : TRUE, idx |-> 0]

Init == ph = "idle" /\ src = None /\ dst = None /\ verdict = "none"
Prove ==        \* round k of party src.idx: NewProof(ContextI, ...)
  /\ ph = "idle"
  /\ \E x \in Inputs, i \in IdxClasses : src' = [inp |-> x, idx |-> i]
  /\ ph' = "proved" /\ UNCHANGED <<dst, verdict>>
Replay ==       \* party dst.idx of session dst.inp sends the proof and its statement as its own
  /\ ph = "proved"
  /\ \E y \in Inputs, j \in IdxClasses : dst' = [inp |-> y, idx |-> j]
  /\ ph' = "replayed" /\ UNCHANGED <<src, verdict>>
Verify ==       \* a later round of the recipient: Verify(ContextJ, ...)
  /\ ph = "replayed"
  /\ verdict' = IF Accepts("bigbytes", "all", src.inp, src.idx, dst.inp, dst.idx) THEN "accept" ELSE "reject"
  /\ ph' = "verified" /\ UNCHANGED <<src, dst>>
Next == Prove \/ Replay \/ Verify
Spec == Init /\ [][Next]_vars

ReplayRejected == ph = "verified" => (verdict = "accept" <=> (src.inp = dst.inp /\ src.idx = dst.idx))

-----------------------------------------------------------------------------
(* 4. the weakened designs fail, and where *)
Min(Sn) == CHOOSE m \in Sn : \A k \in Sn : m <= k
Max2(a, b) == IF a > b THEN a ELSE b
Collisions(e) == {p \in IdxClasses \X IdxClasses : p[1] < p[2] /\ Enc(e, p[1]) = Enc(e, p[2])}
LeastCommittee(e) == Min({p[2] + 1 : p \in Collisions(e)})
ASSUME DiscriminatingEnc ==
  \A e \in WeakEncoders : /\ Collisions(e) # {}
                          /\ ~CtxInjective(e, "all")
                          /\ PrintT(<<"WEAKENC", e, LeastCommittee(e)>>)
ASSUME DiscriminatingDeriv ==
  \A d \in WeakDerivs : ~CtxInjective("bigbytes", d) /\ PrintT(<<"WEAKDERIV", d>>)

-----------------------------------------------------------------------------
(* the catalogue *)
X0 == [curve |-> "ed25519", keys |-> "K", keydata |-> "D", round |-> 1, nonce |-> 0]
Other(f) == IF f = "keys" THEN [X0 EXCEPT !.keys = "K'"] ELSE [X0 EXCEPT !.keydata = "D'"]
Verdict(b) == IF b THEN "accept" ELSE "reject"
WeakFlips(x, i, y, j) ==       \* the weakened designs under which this replay would be accepted
  {e \in WeakEncoders : Accepts(e, "all", x, i, y, j)} \cup {d \in WeakDerivs : Accepts("bigbytes", d, x, i, y, j)}
Reach(s) == {i \in IdxClasses : i < s.maxN}
LeastOther(i, j) == Min({k \in 0..2 : k # i /\ k # j})
Named(s, who, v) == IF s.ctxOf = "prover" THEN who ELSE v      \* the index the context of this site names
Row(s, kind, i, j, vary, y) ==
  LET v  == LeastOther(i, j)
      a  == Named(s, i, v)
      b  == Named(s, j, v)
      ok == Accepts("bigbytes", "all", X0, a, y, b)
  IN [kind |-> kind, proto |-> s.proto, site |-> s.site, msg |-> s.msg, ver |-> s.ver, marker |-> s.marker,
      i |-> i, j |-> j, v |-> v, n |-> Max2(3, Max2(i, j) + 1), vary |-> vary, ctxof |-> s.ctxOf,
      predict |-> Verdict(ok), weak |-> IF ok THEN {} ELSE WeakFlips(X0, a, y, b)]
IndexRows   == UNION {{Row(s, "index", p[1], p[2], "none", X0) : p \in {q \in Reach(s) \X Reach(s) : q[1] # q[2]}} : s \in Sites}
(* another session: the party at the SAME index presents the proof it (or its namesake) made elsewhere; the third   *)
(* party (index 2) is the one whose key / whose key data differ, prover and verifier are 0 and 1                     *)
CrossRows   == UNION {{Row(s, "ssid", i, i, f, Other(f)) : i \in {0, 1}, f \in s.vary} : s \in Sites}
ControlRows == {Row(s, "control", i, i, "none", X0) : i \in {0, 1}, s \in {t \in Sites : t.vary # {}}}
AllRows == IndexRows \cup CrossRows \cup ControlRows
ASSUME EmitRows == \A r \in AllRows : PrintT(<<"CTXROW", ToJson(r)>>)
ASSUME EmitEnc  == \A i \in {k \in IdxClasses : k < BigN} : PrintT(<<"CTXENC", ToJson([i |-> i, bytes |-> BigBytes(i), n |-> Len(BigBytes(i))])>>)
(* what no executable committee reaches *)
Unreached(e) == LeastCommittee(e) > BigN
ASSUME EmitUnreached == \A e \in WeakEncoders : Unreached(e) => PrintT(<<"UNREACHED", e, LeastCommittee(e)>>)
(* every weakened design that some committee reaches is told apart by a catalogue row, at every site it can occur at *)
ASSUME CatalogueTellsApart ==
  /\ \A s \in {t \in Sites : t.ctxOf = "prover"} : \A e \in WeakEncoders : LeastCommittee(e) <= s.maxN => \E r \in IndexRows : r.proto = s.proto /\ r.site = s.site /\ e \in r.weak /\ r.predict = "reject"
  /\ \A s \in Sites : \A f \in s.vary : \E r \in CrossRows : r.proto = s.proto /\ r.site = s.site /\ r.predict = "reject" /\ r.weak # {}
=============================================================================
