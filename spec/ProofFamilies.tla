--------------------------- MODULE ProofFamilies ---------------------------
(* The C11 family catalogue (Part 3 of ProofGuards.tla, which checks every row against its guard         *)
(* classification; ProofHistory.tla derives the history catalogue from the same rows).                     *)
(* family = the false statement / the violated bound; trips = the guard or equation that must stop it;     *)
(* prover: "lib" = the library's own prover run on the bad witness, "built" = a transcript the harness     *)
(* builds with the prover's algorithm; sizes = how far outside.                                            *)
Families ==
  { [sys |-> "sch",   family |-> "wrong_dlog",          trips |-> "eq",              prover |-> "lib",   sizes |-> <<"plus1", "neg", "rand">>],
    [sys |-> "schv",  family |-> "wrong_dlog",          trips |-> "eq",              prover |-> "lib",   sizes |-> <<"plus1", "rand", "wrongR">>],
    [sys |-> "dln",   family |-> "wrong_dlog",          trips |-> "eq",              prover |-> "lib",   sizes |-> <<"plus1", "rand">>],
    [sys |-> "dln",   family |-> "h2_outside_group",    trips |-> "eq",              prover |-> "lib",   sizes |-> <<"nonresidue", "minus_h2", "random_unit">>],
    [sys |-> "dln",   family |-> "iteration_unchecked", trips |-> "eq",              prover |-> "built", sizes |-> <<"first", "middle", "last">>],
    [sys |-> "pai",   family |-> "iteration_unchecked", trips |-> "eq",              prover |-> "built", sizes |-> <<"first", "middle", "last">>],
    [sys |-> "mod",   family |-> "iteration_unchecked_X", trips |-> "eqX",           prover |-> "built", sizes |-> <<"first", "middle", "last">>],
    [sys |-> "mod",   family |-> "iteration_unchecked_Z", trips |-> "eqZ",           prover |-> "built", sizes |-> <<"first", "middle", "last">>],
    [sys |-> "pai",   family |-> "shares_factor_with_totient", trips |-> "eq",       prover |-> "built", sizes |-> <<"p_divides_q_minus_1">>],
    [sys |-> "pai",   family |-> "small_prime_factor",  trips |-> "no_small_factor", prover |-> "lib",   sizes |-> <<"3", "5", "997">>],
    [sys |-> "mod",   family |-> "prime",               trips |-> "N_composite",     prover |-> "built", sizes |-> <<"3mod4">>],
    [sys |-> "mod",   family |-> "even",                trips |-> "N_odd_gt1",       prover |-> "built", sizes |-> <<"2P">>],
    [sys |-> "mod",   family |-> "prime_power",         trips |-> "eqZ",             prover |-> "built", sizes |-> <<"P^2", "P^3">>],
    [sys |-> "mod",   family |-> "not_blum",            trips |-> "eqX",             prover |-> "lib",   sizes |-> <<"P=1mod4", "both=1mod4", "three_primes">>],
    [sys |-> "fac",   family |-> "small_factor",        trips |-> "z2_range",        prover |-> "lib",   sizes |-> <<"16bit", "64bit", "200bit">>],
    [sys |-> "fac",   family |-> "z_beyond",            trips |-> "z1_range",        prover |-> "built", sizes |-> <<"plus0", "plus1", "far">>],
    [sys |-> "alice", family |-> "plaintext_beyond_q3", trips |-> "s1_le_q3",        prover |-> "lib",   sizes |-> <<"q3+1", "2q3", "q4", "N-1">>],
    [sys |-> "alice", family |-> "s1_beyond",           trips |-> "s1_le_q3",        prover |-> "built", sizes |-> <<"plus1", "plus2", "far">>],
    [sys |-> "bob",   family |-> "multiplier_beyond_q3", trips |-> "s1_le_q3",       prover |-> "lib",   sizes |-> <<"q3+1", "2q3", "q4", "far">>],
    [sys |-> "bob",   family |-> "mask_beyond_q7",      trips |-> "t1_le_q7",        prover |-> "lib",   sizes |-> <<"q7+1", "2q7", "far">>],
    [sys |-> "bob",   family |-> "s1_beyond",           trips |-> "s1_le_q3",        prover |-> "built", sizes |-> <<"plus1", "far">>],
    [sys |-> "bob",   family |-> "t1_beyond",           trips |-> "t1_le_q7",        prover |-> "built", sizes |-> <<"plus1", "far">>],
    [sys |-> "bobwc", family |-> "multiplier_beyond_q3", trips |-> "s1_le_q3",       prover |-> "lib",   sizes |-> <<"q3+1", "2q3", "far">>],
    [sys |-> "bobwc", family |-> "mask_beyond_q7",      trips |-> "t1_le_q7",        prover |-> "lib",   sizes |-> <<"q7+1", "2q7", "far">>],
    [sys |-> "bobwc", family |-> "point_mismatch",      trips |-> "eqG",             prover |-> "lib",   sizes |-> <<"plus1", "neg", "rand">>] }
=============================================================================
