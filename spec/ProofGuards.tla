----------------------------- MODULE ProofGuards -----------------------------
(* C11 at design level: what each guard of the nine verifiers of Proofs.tla is *)
(* there for, and what happens to the prover's output on a false statement.    *)
(*                                                                             *)
(* Part 1 - guard classification (SPECIFICATION Spec, -workers 1).             *)
(* Every initial state is a SIMULATED transcript: the responses, the challenge *)
(* (oracle input) and the statement are chosen freely - also outside every     *)
(* bound - and the commitments are then solved from the verification equations *)
(* (the zero-knowledge simulator), sometimes shifted by the modulus.  For each *)
(* guard g TLC establishes one of                                              *)
(*   necessary : some transcript satisfies every equation and every other      *)
(*               guard but violates g  (dropping g changes the language)       *)
(*   redundant : g is violated by some transcripts of the domain, but never    *)
(*               alone: the other guards and the equations imply it            *)
(* and the result must be the table Necessary below (POSTCONDITION Classified).*)
(* The first witness found for every necessary guard is printed (WITNESS).     *)
(*                                                                             *)
(* Part 2 - false statements (SPECIFICATION FSpec).  For every family of the   *)
(* property: the honest prover's algorithm run on a witness that does not fit  *)
(* the statement yields a transcript that is rejected for every non-degenerate *)
(* challenge (and which challenges are degenerate), or the number-theoretic    *)
(* fact behind the family (no N-th root, no fourth root) holds on the whole    *)
(* toy domain.                                                                 *)
(*                                                                             *)
(* Part 3 - the C11 family catalogue (SPECIFICATION CSpec) replayed by the     *)
(* harness at real size.                                                       *)
EXTENDS Proofs, ProofFamilies

CONSTANTS Sys,   \* the systems to classify
          Wide   \* larger simulated domains (thorough tier)

VARIABLE tr
vars == <<tr>>

MtaPar == [q |-> 3, N |-> 35, NT |-> 77, h1 |-> 4, h2 |-> 16]
T(sys, par, st, pf, ch) == [sys |-> sys, par |-> par, st |-> st, pf |-> pf, ch |-> ch]

-----------------------------------------------------------------------------
(* Part 1: simulated transcripts *)
Sim_sch(q) ==
  { T("sch", [q |-> q, idrep |-> FALSE], [X |-> X], [alpha |-> (t - c * X) % q, t |-> t], c) :
      X \in 0..(q - 1), t \in 0..(2 * q), c \in 0..(q - 1) }
Sim_schv(q) ==
  { T("schv", [q |-> q, idrep |-> FALSE], [V |-> V, R |-> R], [alpha |-> (t * R + u - c * V) % q, t |-> t, u |-> u], c) :
      V \in 0..(q - 1), R \in 0..(q - 1), t \in {0, 1, 2, q, q + 1}, u \in {0, 1, 3, q, q + 2}, c \in 0..(q - 1) }

(* dln, K = 2: h1, h2 free (also 0, 1, equal, shifted by N), t free, alpha solved *)
Sim_dln(d) ==
  { T("dln", [K |-> 2], [h1 |-> h1, h2 |-> h2, N |-> 77],
      [alpha |-> [i \in 1..2 |-> LET a == Mul(Exp(h1, t[i], 77), Exp(h2, -c[i], 77), 77) IN IF a = Und THEN 0 ELSE a + sh],
       t |-> t], c) :
      h1 \in (IF Wide THEN {0, 1, 4, 16, 77 + 4, 78} ELSE {0, 1, 4, 77 + 4}),
      h2 \in (IF Wide THEN {0, 1, 4, 16, 25, 77 + 16} ELSE {0, 1, 4, 16, 77 + 16}),
      t \in [1..2 -> (IF Wide THEN {0, 1, 2, 7, 77 + 1, 77 + 5} ELSE {0, 1, 2, 77 + 1})],
      c \in [1..2 -> {0, 1}], sh \in {0, 77} }

(* pai, K = 1: y free, the challenge is solved (x = y^N) *)
Sim_pai(d) ==
  { T("pai", [K |-> 1, bound |-> 4], [N |-> N], [y |-> <<y>>], <<Exp(y, N, N)>>) :
      N \in {15, 21, 33, 35, 55, 77}, y \in 1..76 }

(* mod, K = 1: every (N, W, Y, a, b, X, Z) of the small domain that satisfies both equations (X, Z are looked  *)
(* up, 0 included), then one deviation at a time: a representative shifted by N, a wrong length of A or B    *)
ModBits(a, len) == [i \in 1..len |-> IF i = len THEN 1 ELSE IF i = 1 THEN a ELSE 0]
ModSols(N) ==
  UNION { LET y1 == IF a = 1 THEN (-Y) % N ELSE Y
              tw == IF b = 1 THEN (W * y1) % N ELSE y1
          IN  { <<W, Y, a, b, X, Z>> : X \in {x \in 0..(N - 1) : Exp(x, 4, N) = tw}, Z \in {z \in 0..(N - 1) : Exp(z, N, N) = Y} } :
          W \in 0..(N - 1), Y \in 0..(N - 1), a \in {0, 1}, b \in {0, 1} }
ModVariants == {"none", "W+N", "X+N", "Z+N", "A_short", "A_long", "B_short", "B_long"}
Sim_mod(d) ==
  UNION { { LET W == m[1]  Y == m[2]  a == m[3]  b == m[4]  X == m[5]  Z == m[6] IN
            T("mod", [K |-> 1], [N |-> N],
              [W |-> IF v = "W+N" THEN W + N ELSE W, X |-> <<IF v = "X+N" THEN X + N ELSE X>>, Z |-> <<IF v = "Z+N" THEN Z + N ELSE Z>>,
               A |-> ModBits(a, CASE v = "A_short" -> 1 [] v = "A_long" -> 3 [] OTHER -> 2),
               B |-> ModBits(b, CASE v = "B_short" -> 1 [] v = "B_long" -> 3 [] OTHER -> 2)], <<Y>>) :
              m \in ModSols(N), v \in (IF Wide \/ N = 15 THEN ModVariants ELSE {"none"}) } :
          N \in (IF Wide THEN {7, 9, 15, 21} ELSE {7, 9, 15}) }

(* fac: responses free, A, B, T solved *)
FacSt(N0) == [N0 |-> N0, NC |-> 77, s |-> 4, t |-> 16]
Sim_fac(d) ==
  { LET st == FacSt(N0)
        P == 9   Q == 25
        R == Mul(Exp(4, N0, 77), Exp(16, sg, 77), 77)
    IN T("fac", [q |-> 3], st,
         [P |-> P, Q |-> Q,
          A |-> Mul3(Exp(4, z1, 77), Exp(16, 5, 77), Exp(P, -e, 77), 77),
          B |-> Mul3(Exp(4, z2, 77), Exp(16, 6, 77), Exp(Q, -e, 77), 77),
          T |-> Mul3(Exp(Q, z1, 77), Exp(16, v, 77), Exp(R, -e, 77), 77),
          sigma |-> sg, z1 |-> z1, z2 |-> z2, w1 |-> 5, w2 |-> 6, v |-> v], e) :
      N0 \in {15, 35}, e \in 0..2, z1 \in {-1, 0, 1, 80, 81, 134, 135, 200}, z2 \in {-1, 0, 7, 80, 81, 134, 135, 136},
      sg \in {0, 11}, v \in {0, 3, 100} }

(* alice: z, s, s1, s2, e, c free; u, w solved (and shifted) *)
Sim_alice(d) ==
  { LET par == MtaPar
        u0 == Mul3(Exp(36, s1, 1225), Exp(s, 35, 1225), Exp(c, -e, 1225), 1225)
        w0 == Mul3(Exp(4, s1, 77), Exp(16, s2, 77), Exp(z, -e, 77), 77)
    IN T("alice", par, [c |-> c],
         [z |-> z, u |-> IF u0 = Und THEN 0 ELSE u0 + uw[1] * 1225, w |-> IF w0 = Und THEN 0 ELSE w0 + uw[2] * 77,
          s |-> s, s1 |-> s1, s2 |-> s2], e) :
      c \in (IF Wide THEN {Enc(MtaPar, 2, 3), 35, 1225 + Enc(MtaPar, 2, 3)} ELSE {Enc(MtaPar, 2, 3), 35}),
      z \in {1, 9, 7, 77 + 9}, s \in (IF Wide THEN {1, 3, 5, 35 + 3, 0} ELSE {1, 3, 5, 35 + 3}),
      s1 \in (IF Wide THEN {0, 2, 3, 27, 28} ELSE {2, 3, 27, 28}), s2 \in (IF Wide THEN {0, 2, 3, 9} ELSE {2, 3, 9}), e \in 0..2,
      uw \in (IF Wide THEN {<<0, 0>>, <<1, 0>>, <<0, 1>>, <<1, 1>>} ELSE {<<0, 0>>, <<1, 0>>, <<0, 1>>}) }

(* bob / bobwc: z, t, s, s1, s2, t1, t2, e, c1, c2 free; z', w, v solved, one of them possibly shifted (sh = 1, 2, 3) *)
BobT(wc, z, t, s, s1, s2, t1, t2, e, sh, X) ==
  LET par == MtaPar
      c1  == Enc(MtaPar, 1, 2)
      c2  == Enc(MtaPar, 4, 3)
      zp0 == Mul3(Exp(4, s1, 77), Exp(16, s2, 77), Exp(z, -e, 77), 77)
      w0  == Mul3(Exp(4, t1, 77), Exp(16, t2, 77), Exp(t, -e, 77), 77)
      v0  == Mul(Mul3(Exp(c1, s1, 1225), Exp(s, 35, 1225), Exp(36, t1, 1225), 1225), Exp(c2, -e, 1225), 1225)
      pf  == [z |-> z, zp |-> IF zp0 = Und THEN 0 ELSE zp0 + (IF sh = 1 THEN 77 ELSE 0), t |-> t,
              v |-> IF v0 = Und THEN 0 ELSE v0 + (IF sh = 2 THEN 1225 ELSE 0),
              w |-> IF w0 = Und THEN 0 ELSE w0 + (IF sh = 3 THEN 77 ELSE 0),
              s |-> s, s1 |-> s1, s2 |-> s2, t1 |-> t1, t2 |-> t2]
  IN IF wc THEN T("bobwc", par, [c1 |-> c1, c2 |-> c2, X |-> X], pf @@ [U |-> (s1 - e * X) % 3], e)
           ELSE T("bob", par, [c1 |-> c1, c2 |-> c2], pf, e)
(* bob: one of (z, t) deviates at a time (all of them in the thorough tier); the shifts only on top of z = 9, t = 25, s = 3 *)
ZT == IF Wide THEN {9, 7, 77 + 9} \X {25, 11, 77 + 25} ELSE {<<9, 25>>, <<7, 25>>, <<77 + 9, 25>>, <<9, 11>>, <<9, 77 + 25>>}
SimBobBase(wc) ==
  IF wc THEN
    { BobT(TRUE, 9, 25, 3, s1, s2, t1, t2, e, 0, X) :
        s1 \in {2, 3, 4, 27, 28}, s2 \in {2, 3}, t1 \in {2, 3, 2187, 2188}, t2 \in {2, 3}, e \in 0..2, X \in {0, 1, 2} }
  ELSE
    { BobT(FALSE, zt[1], zt[2], s, s1, s2, t1, t2, e, 0, 0) :
        zt \in ZT, s \in {3, 5, 0, 35 + 3}, s1 \in {2, 4, 27, 28}, s2 \in {2, 3}, t1 \in {2, 2187, 2188}, t2 \in {2, 3}, e \in 0..2 }
    \cup
    { BobT(FALSE, 9, 25, 3, s1, s2, t1, t2, e, sh, 0) :
        s1 \in {2, 4, 27, 28}, s2 \in {2, 3}, t1 \in {2, 2187, 2188}, t2 \in {2, 3}, e \in 0..2, sh \in 1..3 }

Sim(s) ==
  CASE s = "sch" -> Sim_sch(5) [] s = "schv" -> Sim_schv(5) [] s = "dln" -> Sim_dln(0) [] s = "pai" -> Sim_pai(0)
    [] s = "mod" -> Sim_mod(0) [] s = "fac" -> Sim_fac(0) [] s = "alice" -> Sim_alice(0)
    [] s = "bob" -> SimBobBase(FALSE) [] s = "bobwc" -> SimBobBase(TRUE)

Init == tr \in UNION {Sim(s) : s \in Sys}
Next == UNCHANGED tr
Spec == Init /\ [][Next]_vars

-----------------------------------------------------------------------------
(* the classification TLC must arrive at *)
Necessary(s) ==
  CASE s = "sch"   -> {"X_valid", "t_nonzero"}
    [] s = "schv"  -> {"V_valid", "R_valid", "alpha_valid", "t_nonzero", "u_nonzero"}
    [] s = "dln"   -> {"h1_range", "h2_range", "h1_ne_h2", "t_range", "alpha_range"}
    [] s = "pai"   -> {"no_small_factor"}
    [] s = "mod"   -> {"W_jacobi", "W_range", "W_unit", "Z_range", "X_range", "A_bitlen", "B_bitlen", "N_composite"}
    [] s = "fac"   -> {"z1_range", "z2_range"}
    [] s = "alice" -> {"c_unit", "z_range", "s_range", "z_unit", "u_unit", "s1_ge_q", "s2_ge_q", "s_ne_1", "z_ne_1",
                       "s1_ne_s2", "s1_le_q3"}
    [] s = "bob"   -> {"z_range", "zp_range", "t_range", "v_range", "w_range", "s_range", "z_unit", "t_unit",
                       "s1_ge_q", "s2_ge_q", "t1_ge_q", "t2_ge_q", "s1_le_q3", "t1_le_q7"}
                      \* s_unit and v_unit are never violated alone: a response s that is no unit makes v = c1^s1 s^N G^t1 c2^-e
                      \* no unit either (and v_unitN, s_nonzero, v_nonzero follow from them): the two are necessary only jointly
    [] s = "bobwc" -> {"s1_ge_q", "s2_ge_q", "t1_ge_q", "t2_ge_q", "s1_le_q3", "t1_le_q7", "X_valid", "U_valid", "s1_modq_nz"}
(* guards that only keep the verifier's arithmetic defined (a modulus <= 1 or even): not part of the simulated domains *)
Definedness(s) ==
  CASE s = "dln" -> {"N_pos"} [] s = "pai" -> {"N_gt_1"} [] s = "mod" -> {"N_odd_gt1"} [] s = "fac" -> {"N0_pos", "NC_pos"}
    [] OTHER -> {}

(* the guards in the order of the code *)
GuardSeq(s) ==
  CASE s = "sch"   -> <<"X_valid", "t_nonzero">>
    [] s = "schv"  -> <<"V_valid", "R_valid", "alpha_valid", "t_nonzero", "u_nonzero">>
    [] s = "dln"   -> <<"N_pos", "h1_range", "h2_range", "h1_ne_h2", "t_range", "alpha_range">>
    [] s = "pai"   -> <<"N_gt_1", "no_small_factor">>
    [] s = "mod"   -> <<"N_odd_gt1", "W_jacobi", "W_range", "W_unit", "Z_range", "X_range", "A_bitlen", "B_bitlen", "N_composite">>
    [] s = "fac"   -> <<"N0_pos", "NC_pos", "z1_range", "z2_range">>
    [] s = "alice" -> <<"c_unit", "z_range", "u_range", "w_range", "s_range", "z_unit", "u_unit", "w_unit", "s1_ge_q", "s2_ge_q",
                        "s_ne_1", "z_ne_1", "s1_ne_s2", "s1_le_q3">>
    [] s = "bob"   -> <<"z_range", "zp_range", "t_range", "v_range", "w_range", "s_range", "z_unit", "zp_unit", "t_unit", "v_unit",
                        "w_unit", "s_nonzero", "s_unit", "v_nonzero", "v_unitN", "s1_ge_q", "s2_ge_q", "t1_ge_q", "t2_ge_q",
                        "s1_le_q3", "t1_le_q7">>
    [] s = "bobwc" -> <<"z_range", "zp_range", "t_range", "v_range", "w_range", "s_range", "z_unit", "zp_unit", "t_unit", "v_unit",
                        "w_unit", "s_nonzero", "s_unit", "v_nonzero", "v_unitN", "s1_ge_q", "s2_ge_q", "t1_ge_q", "t2_ge_q",
                        "s1_le_q3", "t1_le_q7", "X_valid", "U_valid", "s1_modq_nz">>
GuardNames(s) == {GuardSeq(s)[i] : i \in 1..Len(GuardSeq(s))}
(* the guards the simulated domain of a system is built to violate (bobwc shares the code of bob: only the guards *)
(* of the check variant and the bounds are re-established there)                                               *)
Tracked(s) ==
  IF s = "bobwc" THEN {"s1_ge_q", "s2_ge_q", "t1_ge_q", "t2_ge_q", "s1_le_q3", "t1_le_q7", "X_valid", "U_valid", "s1_modq_nz"}
  ELSE GuardNames(s) \ Definedness(s)

SysSeq == <<"sch", "schv", "dln", "pai", "mod", "fac", "alice", "bob", "bobwc">>
RECURSIVE Off(_)
Off(k) == IF k = 1 THEN 0 ELSE Off(k - 1) + Len(GuardSeq(SysSeq[k - 1]))
Idx(s, g) == LET k == CHOOSE j \in 1..9 : SysSeq[j] = s
                 i == CHOOSE j \in 1..Len(GuardSeq(s)) : GuardSeq(s)[j] = g
             IN  Off(k) + i
NP == 100

ASSUME \A i \in 1..(2 * NP) : TLCSet(i, FALSE)

(* side effects only: registers i (g violated alone, all equations true) and NP+i (g violated at all) *)
Track ==
  LET G  == Guards(tr.sys, tr.par, tr.st, tr.pf)
      F  == FailSet(G)
      eq == All(Eqs(tr.sys, tr.par, tr.st, tr.pf, tr.ch))
  IN  /\ DOMAIN G = GuardNames(tr.sys)
      /\ \A g \in F : TLCSet(NP + Idx(tr.sys, g), TRUE)
      /\ (eq /\ Cardinality(F) = 1) =>
           LET g == CHOOSE x \in F : TRUE
               i == Idx(tr.sys, g)
           IN  IF TLCGet(i) THEN TRUE
               ELSE TLCSet(i, TRUE) /\ PrintT(<<"WITNESS", tr.sys, g, ToJson(tr)>>)

Classified ==
  {} = { <<s, g>> \in UNION { {<<s2, g2>> : g2 \in Tracked(s2)} : s2 \in Sys } :
         ~ LET
             i == Idx(s, g)
             ok == /\ TLCGet(i) = (g \in Necessary(s))
                   /\ TLCGet(NP + i)
           IN  ok \/ ~PrintT(<<"MISCLASSIFIED", s, g, "witnessed", TLCGet(i), "violated", TLCGet(NP + i)>>) }

-----------------------------------------------------------------------------
(* Part 2: false statements.  One state; every conjunct is a closed formula.  *)
FInit == tr = "fs"
FSpec == FInit /\ [][Next]_vars

(* wrong discrete logarithm: the prover holds x, the statement says X = x' # x. Accepted only for c = 0 (edwards), *)
(* where multiplying by c forgets the statement                                                                     *)
FS_sch(q) ==
  \A x \in 1..(q - 1), xs \in 1..(q - 1), a \in 1..(q - 1), c \in 0..(q - 1), id \in BOOLEAN :
     xs # x =>
       LET par == [q |-> q, idrep |-> id]
           out == Out_sch(par, [X |-> xs], P_sch(par, x, a, c), c)
       IN  IF c # 0 THEN out = "rej" ELSE IF id THEN out = "acc" ELSE out = "panic"
FS_schv(q) ==
  \A R \in 1..(q - 1), s \in 0..(q - 1), l \in 0..(q - 1), d \in 1..(q - 1), a \in 1..(q - 1), b \in 1..(q - 1), c \in 1..(q - 1) :
     LET par == [q |-> q, idrep |-> FALSE]
         Vs  == (s * R + l + d) % q                 \* not s*R + l*G
     IN  Vs # 0 => Out_schv(par, [V |-> Vs, R |-> R], P_schv(par, R, s, l, a, b, c), c) \in {"rej", "panic"}
                   /\ ~All(E_schv(par, [V |-> Vs, R |-> R], P_schv(par, R, s, l, a, b, c), c))

(* h2 outside <h1> (or simply h2 # h1^x): every iteration with challenge bit 1 fails *)
FS_dln ==
  LET N == 77  QR == {Exp(4, k, N) : k \in 0..14} IN
  /\ \A h2 \in {u \in 2..(N - 1) : GCD(u, N) = 1 /\ u \notin QR /\ u < 40}, x \in {1, 2, 7, 14}, a \in {<<3, 5>>, <<0, 9>>},
        c \in [1..2 -> {0, 1}] :
       LET st == [h1 |-> 4, h2 |-> h2, N |-> N]
           out == Out_dln([K |-> 2], st, P_dln([K |-> 2], st, x, 15, a, c), c)
       IN  (c # <<0, 0>>) => out = "rej"
  /\ \A x \in 1..14, xs \in 2..14, c \in [1..2 -> {0, 1}] :        \* h2 in the group, wrong exponent
       LET st == [h1 |-> 4, h2 |-> Exp(4, xs, N), N |-> N] IN
       (x # xs /\ c # <<0, 0>>) => Out_dln([K |-> 2], st, P_dln([K |-> 2], st, x, 15, <<3, 5>>, c), c) = "rej"

(* gcd(N, phi(N)) > 1: x -> x^N is not onto the units; the units that have an N-th root are at most half *)
Units(N) == {x \in 1..(N - 1) : GCD(x, N) = 1}
Phi(N) == Cardinality(Units(N))
FS_pai ==
  \A N \in {n \in 5..121 : GCD(n, 6) = 1} :
     LET U == Units(N)
         Img == {Exp(y, N, N) : y \in U}
     IN  IF GCD(N, Phi(N)) = 1 THEN Img = U
         ELSE 2 * Cardinality(Img) <= Cardinality(U)
(* a small prime factor alone does not stop the equations: 15 = 3*5 has gcd(15, 8) = 1 *)
FS_pai_small == {Exp(y, 15, 15) : y \in Units(15)} = Units(15)

(* the modulus proof: for which odd N can EVERY unit challenge be answered ?  Exactly the Paillier-Blum N with *)
(* gcd(N, phi) = 1 and the primes that are not 1 mod 8 (which is what the compositeness test of the verifier *)
(* is for); for every other N at most half of the unit challenges can                                        *)
IsBlum(N) == \E p \in Primes(3, N) : \E q \in Primes(3, N) : p # q /\ p * q = N /\ p % 4 = 3 /\ q % 4 = 3
Answerable(N, W, Y) ==
  /\ \E Z \in 1..(N - 1) : Exp(Z, N, N) = Y
  /\ \E a \in {0, 1}, b \in {0, 1}, X \in 1..(N - 1) :
       Exp(X, 4, N) = (LET y1 == IF a = 1 THEN (-Y) % N ELSE Y IN IF b = 1 THEN (W * y1) % N ELSE y1)
FS_mod ==
  \A N \in {n \in 3..(IF Wide THEN 77 ELSE 45) : n % 2 = 1} :
     LET U  == Units(N)
         Ws == {w \in U : Jacobi(w, N) = -1}
     IN  \A W \in Ws :
           LET ok == {Y \in U : Answerable(N, W, Y)} IN
           IF (IsBlum(N) /\ GCD(N, Phi(N)) = 1) \/ (IsPrime(N) /\ N % 8 # 1) THEN ok = U
           ELSE 2 * Cardinality(ok) <= Cardinality(U)

(* a factor far below the square root: z of the large factor leaves the range for every e >= 1, *)
(* whatever beta; near the boundary it depends on beta (honest-verifier slack)                  *)
FS_fac ==
  \A pq \in {<<3, 5>>, <<3, 11>>, <<2, 17>>, <<3, 29>>, <<5, 7>>, <<2, 367>>}, e \in 0..2, be \in {0, 1, 50, 100, 134} :
     LET p == pq[1]  qq == pq[2]
         st == [N0 |-> p * qq, NC |-> 77, s |-> 4, t |-> 16]
         B  == FacBound([q |-> 3], st)
         r  == [alpha |-> 1, beta |-> be % B, mu |-> 2, nu |-> 3, sigma |-> 200, rr |-> 1, x |-> 1, y |-> 2]
         pf == P_fac([q |-> 3], st, p, qq, r, e)
     IN  /\ All(E_fac([q |-> 3], st, pf, e))
         /\ (e * qq >= B => Out_fac([q |-> 3], st, pf, e) = "rej")
         /\ (e * qq + (be % B) < B /\ e * p + 1 < B => Out_fac([q |-> 3], st, pf, e) = "acc")

(* plaintext beyond q^3 / multiplier beyond q^3 / mask beyond q^7: the response leaves the range for every e >= 1 *)
FS_alice ==
  \A m \in 28..34, e \in 0..2, al \in {0, 1, 26} :
     LET par == MtaPar
         rn == [alpha |-> al, beta |-> 3, gamma |-> 100, rho |-> 7]
         pf == P_alice(par, m, 2, rn, e)
         st == [c |-> Enc(par, m, 2)]
     IN  /\ All(E_alice(par, st, pf, e))
         /\ (e >= 1 => Out_alice(par, st, pf, e) = "rej" /\ ~G_alice(par, st, pf).s1_le_q3)
FS_bob ==
  \A x \in {28, 34, 100}, y \in {5, 2188, 3000}, e \in 0..2 :
     LET par == MtaPar
         c1 == Enc(par, 1, 2)
         st == [c1 |-> c1, c2 |-> Mul(Exp(c1, x, 1225), Enc(par, y, 3), 1225)]
         rn == [alpha |-> 13, rho |-> 7, sigma |-> 1, tau |-> 30, rhop |-> 9, beta |-> 3, gamma |-> 500]
         pf == P_bob(par, st, x, y, 3, rn, e)
         G  == G_bob(par, st, pf)
     IN  /\ All(E_bob(par, st, pf, e))
         /\ (e >= 1 => ~G.s1_le_q3)
         /\ (e >= 1 /\ y >= 2188 => ~G.t1_le_q7)
(* multiplier inconsistent with the public point *)
FS_bobwc ==
  \A x \in 1..2, Xs \in 1..2, e \in 1..2, al \in {4, 5, 7} :
     LET par == MtaPar
         c1 == Enc(par, 1, 2)
         st == [c1 |-> c1, c2 |-> Mul(Exp(c1, x, 1225), Enc(par, 5, 3), 1225), X |-> Xs]
         rn == [alpha |-> al, rho |-> 7, sigma |-> 1, tau |-> 30, rhop |-> 9, beta |-> 3, gamma |-> 500]
         pf == P_bob(par, st, x, 5, 3, rn, e)
     IN  Xs # x => ~E_bobwc(par, st, pf, e).eqG /\ Out_bobwc(par, st, pf, e) = "rej"

(* one iteration of an honest proof replaced by response + 1: that iteration's equation fails, whatever the challenge *)
FS_iter ==
  /\ \A x \in {2, 7, 14}, c \in [1..3 -> {0, 1}], i \in 1..3 :
       LET st == [h1 |-> 4, h2 |-> Exp(4, x, 77), N |-> 77]
           pf == P_dln([K |-> 3], st, x, 15, <<3, 5, 9>>, c)
           bad == [pf EXCEPT !.t[i] = @ + 1]
       IN  All(E_dln([K |-> 3], st, pf, c)) /\ ~All(E_dln([K |-> 3], st, bad, c))
  /\ \A xs \in [1..2 -> {2, 3, 8, 33}], i \in 1..2 :
       LET st == [N |-> 35]
           pf == P_pai([K |-> 2, bound |-> 4], st, 24, xs)
           bad == [pf EXCEPT !.y[i] = (@ + 1) % 35]
       IN  All(E_pai([K |-> 2, bound |-> 4], st, pf, xs)) /\ ~All(E_pai([K |-> 2, bound |-> 4], st, bad, xs))
  /\ \A Y \in [1..2 -> {1, 2, 4, 5, 7, 8, 10}], i \in 1..2 :
       LET st == [N |-> 33]
           pf == P_mod([K |-> 2], st, 3, 11, 5, Y)
           badZ == [pf EXCEPT !.Z[i] = (@ + 1) % 33]
           badX == [pf EXCEPT !.X[i] = (@ + 1) % 33]
       IN  /\ All(E_mod([K |-> 2], st, pf, Y))
           /\ ~E_mod([K |-> 2], st, badZ, Y).eqZ /\ E_mod([K |-> 2], st, badZ, Y).eqX
           /\ (~E_mod([K |-> 2], st, badX, Y).eqX \/ Exp(badX.X[i], 4, 33) = Exp(pf.X[i], 4, 33))   \* (X+1)^4 = X^4 happens for toy N
           /\ E_mod([K |-> 2], st, badX, Y).eqZ

FalseStatements ==
  /\ FS_sch(5) /\ FS_sch(7) /\ FS_schv(5) /\ FS_dln /\ FS_pai /\ FS_pai_small /\ FS_mod /\ FS_fac
  /\ FS_alice /\ FS_bob /\ FS_bobwc /\ FS_iter

-----------------------------------------------------------------------------
(* Part 3: the C11 catalogue.  family = the false statement / the violated bound; trips = the guard or equation *)
(* that must stop it (iteration_unchecked: an honest proof of a true statement in which the response of ONE of   *)
(* the 128 / 13 / 80 iterations - first, middle, last - is replaced by response + 1: every equation holds but   *)
(* that one; a verifier that skips an iteration accepts it);                                                    *)
(* prover: "lib" = the library's own prover run on the bad witness, "built" = a transcript                      *)
(* the harness builds with the prover's algorithm and out-of-range coins so that every equation holds and only  *)
(* that bound fails; sizes = how far outside; demand: "reject" (the property demands it) or "record".           *)
(* Families: see ProofFamilies.tla (shared with ProofHistory.tla) *)

(* the guard or equation a family trips must be one the model knows, and (guards) one it found necessary *)
FamilyOK(f) ==
  \/ f.trips \in Necessary(f.sys) \cup Definedness(f.sys)
  \/ f.trips \in {"eq", "eqZ", "eqX", "eqG"}

CInit == tr \in {f \in Families : f.sys \in Sys}
CSpec == CInit /\ [][Next]_vars
EmitFamily == FamilyOK(tr) /\ PrintT(<<"ROW", ToJson(tr)>>)
=============================================================================
