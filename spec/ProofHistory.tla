---------------------------- MODULE ProofHistory ----------------------------
(* C11, histories: a verifier is a FUNCTION of (parameters, statement, proof). *)
(* ProofGuards.tla presents every false-statement family to a verifier that    *)
(* has seen nothing.  This module models the PROCESS the verifiers live in:    *)
(* genuine proofs are accepted first, false ones are presented afterwards, and *)
(* the verdict on a presentation must not depend on what was accepted before   *)
(* (invariant HistoryFree).  A verifier that remembers verdicts - a cache of   *)
(* verified statements, of verified Fiat-Shamir inputs, of verified proofs,    *)
(* keyed by the statement, by too little of it, or by an UNFRAMED              *)
(* concatenation of its byte strings - breaks exactly that and nothing a       *)
(* history-free check can see.                                                 *)
(*                                                                             *)
(*   hs.seen     history variable: the transcripts accepted so far             *)
(*   Accept(g)   a genuine transcript (the prover's algorithm on a true        *)
(*               statement with its witness) is verified and accepted          *)
(*   Present(f)  any transcript is verified; hs.last records the verdict of    *)
(*               the modelled verifier and the verdict Outcome(f) of the       *)
(*               history-free verifier of Proofs.tla                           *)
(*   hs.d        the DESIGN of the modelled verifier: "none" is the reference  *)
(*               (what the code is supposed to be: no memory); the others are  *)
(*               wrong designs, kept as self tests of this module and as the   *)
(*               justification of the history catalogue: for each of them TLC  *)
(*               establishes which CLASS of history exposes it (Exposes), and  *)
(*               the catalogue replayed on the real verifiers contains every   *)
(*               class that exposes some design:                               *)
(*     st      remembers the (framed) arguments of accepted proofs             *)
(*     concat  remembers the unframed concatenation of their byte strings      *)
(*     part    remembers one argument only (the modulus, the key, ...)         *)
(*     commit  remembers arguments and commitments (the Fiat-Shamir input)     *)
(*     proof   remembers the unframed arguments together with the proof        *)
(*                                                                             *)
(* The class of a presentation f after Accept(g) is (rel, how):                *)
(*   rel : same     f has the arguments of g (only possible for families whose *)
(*                  statement is TRUE: wrong witness, coin beyond its range,   *)
(*                  altered iteration)                                         *)
(*         collide  other arguments, same concatenation of the byte strings    *)
(*                  (digits move across the boundary of two adjacent integers) *)
(*         partial  some arguments coincide (the verifier's own parameters,    *)
(*                  the modulus ...), not all                                  *)
(*   how : fresh    the prover's algorithm with other coins                    *)
(*         coins    ... with the coins of g (the commitments coincide)         *)
(*         replay   the proof of g itself, presented for other arguments       *)
(*                                                                             *)
(* Byte strings are digit strings in base HB = 10 here (the toy numbers have   *)
(* one to four digits); big.Int.Bytes() of 0 is empty, so is Digits(0).        *)
(*                                                                             *)
(* Bound to the code by (B) the catalogue HistRows, replayed at real size in   *)
(* ONE process per history (harness/props/c11_history.go) and (A) toy-sized    *)
(* histories on the real verifiers, validated by ProofHistory_Trace.tla.       *)
EXTENDS Proofs, ProofFamilies

CONSTANTS Sys,             \* the systems to explore
          MaxSeen          \* bound on the number of accepted transcripts (1 quick, 2 thorough)

VARIABLE hs                \* [d, sys, seen, last]
hvars == <<hs>>

MtaPar == [q |-> 3, N |-> 35, NT |-> 77, h1 |-> 4, h2 |-> 16]      \* as in ProofGuards.tla

HB == 10
RECURSIVE Digits(_)
Digits(n) == IF n <= 0 THEN <<>> ELSE Append(Digits(n \div HB), n % HB)
RECURSIVE Val(_)
Val(ds) == IF ds = <<>> THEN 0 ELSE Val(SubSeq(ds, 1, Len(ds) - 1)) * HB + ds[Len(ds)]
RECURSIVE Cat(_)
Cat(a) == IF a = <<>> THEN <<>> ELSE Digits(Head(a)) \o Cat(Tail(a))

-----------------------------------------------------------------------------
(* the integer arguments of Verify, in the order of its signature (points as their discrete logarithms;   *)
(* the session only where it is adjacent to an integer; pai carries the number k that enters its challenge) *)
Args(sys, par, st) ==
  CASE sys = "sch"   -> <<par.q, st.X>>
    [] sys = "schv"  -> <<par.q, st.V, st.R>>
    [] sys = "dln"   -> <<st.h1, st.h2, st.N>>
    [] sys = "pai"   -> <<st.N, st.k>>
    [] sys = "mod"   -> <<st.sess, st.N>>
    [] sys = "fac"   -> <<st.N0, st.NC, st.s, st.t>>
    [] sys = "alice" -> <<par.N, par.NT, par.h1, par.h2, st.c>>
    [] sys = "bob"   -> <<par.N, par.NT, par.h1, par.h2, st.c1, st.c2>>
    [] sys = "bobwc" -> <<par.N, par.NT, par.h1, par.h2, st.c1, st.c2, st.X>>
WithArgs(sys, par, st, a) ==
  CASE sys = "dln"   -> [par |-> par, st |-> [h1 |-> a[1], h2 |-> a[2], N |-> a[3]]]
    [] sys = "pai"   -> [par |-> par, st |-> [N |-> a[1], k |-> a[2]]]
    [] sys = "mod"   -> [par |-> par, st |-> [sess |-> a[1], N |-> a[2]]]
    [] sys = "fac"   -> [par |-> par, st |-> [N0 |-> a[1], NC |-> a[2], s |-> a[3], t |-> a[4]]]
    [] sys = "alice" -> [par |-> [par EXCEPT !.h2 = a[4]], st |-> [c |-> a[5]]]
    [] sys = "bob"   -> [par |-> par, st |-> [c1 |-> a[5], c2 |-> a[6]]]
    [] sys = "bobwc" -> [par |-> par, st |-> [c1 |-> a[5], c2 |-> a[6], X |-> st.X]]
    [] OTHER         -> [par |-> par, st |-> st]
(* the boundary (index of its left neighbour) across which bytes can move so that the part of the statement *)
(* that carries the falsity changes while a witness for the genuine side is known; 0: the statement consists *)
(* of curve points (a shifted coordinate is not a point)                                                    *)
Boundary(sys) ==
  CASE sys = "dln" -> 1 [] sys = "pai" -> 1 [] sys = "mod" -> 1 [] sys = "fac" -> 1
    [] sys = "alice" -> 4 [] sys = "bob" -> 5 [] sys = "bobwc" -> 5 [] OTHER -> 0
Shifts(a, k) ==
  IF k = 0 THEN {}
  ELSE LET da == Digits(a[k])  db == Digits(a[k + 1]) IN
       { b \in { [a EXCEPT ![k] = Val(SubSeq(da, 1, Len(da) - j)), ![k + 1] = Val(SubSeq(da, Len(da) - j + 1, Len(da)) \o db)] : j \in 1..Len(da) }
               \cup { [a EXCEPT ![k] = Val(da \o SubSeq(db, 1, j)), ![k + 1] = Val(SubSeq(db, j + 1, Len(db)))] : j \in 1..Len(db) } :
           b # a /\ Cat(b) = Cat(a) /\ b[k] # 0 /\ b[k + 1] # 0 }

(* the commitments: what enters the Fiat-Shamir hash besides the arguments *)
Commit(sys, pf) ==
  CASE sys \in {"sch", "schv"} -> <<pf.alpha>>
    [] sys = "dln"   -> <<pf.alpha>>
    [] sys = "pai"   -> <<>>
    [] sys = "mod"   -> <<pf.W>>
    [] sys = "fac"   -> <<pf.P, pf.Q, pf.A, pf.B, pf.T, pf.sigma>>
    [] sys = "alice" -> <<pf.z, pf.u, pf.w>>
    [] sys = "bob"   -> <<pf.z, pf.zp, pf.t, pf.v, pf.w>>
    [] sys = "bobwc" -> <<pf.z, pf.zp, pf.t, pf.v, pf.w, pf.U>>

-----------------------------------------------------------------------------
(* toy cases: [sys, par, st, w (witness and coins the prover is run with), fam] *)
Case(sys, par, st, w, fam) == [sys |-> sys, par |-> par, st |-> st, w |-> w, fam |-> fam]
SchPar == [q |-> 5, idrep |-> FALSE]
DlnPar == [K |-> 2]
PaiPar == [K |-> 2, bound |-> 4]
ModPar == [K |-> 2]
FacPar == [q |-> 3]
AliceRn(al) == [alpha |-> al, beta |-> 3, gamma |-> 100, rho |-> 7]
BobRn(al)   == [alpha |-> al, rho |-> 7, sigma |-> 1, tau |-> 30, rhop |-> 9, beta |-> 3, gamma |-> 500]
FacR(al)    == [alpha |-> al, beta |-> 1, mu |-> 2, nu |-> 3, sigma |-> 200, rr |-> 1, x |-> 1, y |-> 2]
FacSt2(N0)  == [N0 |-> N0, NC |-> 77, s |-> 4, t |-> 16]
BobC1       == Enc(MtaPar, 1, 2)
BobSt(x, y) == [c1 |-> BobC1, c2 |-> Mul(Exp(BobC1, x, 1225), Enc(MtaPar, y, 3), 1225)]

Prove(c, ch) ==
  LET w == c.w IN
  CASE c.sys = "sch"   -> P_sch(c.par, w.x, w.a, ch)
    [] c.sys = "schv"  -> P_schv(c.par, c.st.R, w.s, w.l, w.a, w.b, ch)
    [] c.sys = "dln"   -> LET pf == P_dln(c.par, c.st, w.x, 15, w.a, ch) IN IF w.alter = 0 THEN pf ELSE [pf EXCEPT !.t[w.alter] = @ + 1]
    [] c.sys = "pai"   -> LET pf == P_pai(c.par, c.st, w.phi, ch) IN IF w.alter = 0 THEN pf ELSE [pf EXCEPT !.y[w.alter] = (@ + 1) % c.st.N]
    [] c.sys = "mod"   -> LET pf == P_mod(c.par, c.st, w.p, w.q, w.W, ch) IN IF w.alter = 0 THEN pf ELSE [pf EXCEPT !.Z[w.alter] = (@ + 1) % c.st.N]
    [] c.sys = "fac"   -> P_fac(c.par, c.st, w.p, w.qq, w.r, ch)
    [] c.sys = "alice" -> P_alice(c.par, w.m, w.r, w.rn, ch)
    [] c.sys = "bob"   -> P_bob(c.par, c.st, w.x, w.y, w.r, w.rn, ch)
    [] c.sys = "bobwc" -> P_bob(c.par, c.st, w.x, w.y, w.r, w.rn, ch)

(* the prover on a true statement with its witness *)
Genuine(sys) ==
  CASE sys = "sch"   -> { Case(sys, SchPar, [X |-> x], [x |-> x, a |-> a], "genuine") : x \in 1..4, a \in {1, 2} }
    [] sys = "schv"  -> { Case(sys, SchPar, [V |-> (s * R + l) % 5, R |-> R], [s |-> s, l |-> l, a |-> 1, b |-> 2], "genuine") :
                            R \in {1, 2}, s \in {0, 1}, l \in {1, 2, 3} }
    [] sys = "dln"   -> { Case(sys, DlnPar, [h1 |-> 4, h2 |-> Exp(4, x, 77), N |-> 77], [x |-> x, a |-> <<3, 5>>, alter |-> 0], "genuine") : x \in {2, 3, 7} }
    [] sys = "pai"   -> { Case(sys, PaiPar, [N |-> 35, k |-> k], [phi |-> 24, alter |-> 0], "genuine") : k \in {5, 51} }
    [] sys = "mod"   -> { Case(sys, ModPar, [sess |-> s, N |-> 33], [p |-> 3, q |-> 11, W |-> 5, alter |-> 0], "genuine") : s \in {1, 2} }
    [] sys = "fac"   -> { Case(sys, FacPar, FacSt2(35), [p |-> 5, qq |-> 7, r |-> FacR(al)], "genuine") : al \in {1, 2} }
    [] sys = "alice" -> { Case(sys, MtaPar, [c |-> Enc(MtaPar, m, 2)], [m |-> m, r |-> 2, rn |-> AliceRn(5)], "genuine") : m \in {0, 1, 2} }
    [] sys = "bob"   -> { Case(sys, MtaPar, BobSt(x, 5 * x), [x |-> x, y |-> 5 * x, r |-> 3, rn |-> BobRn(13)], "genuine") : x \in {0, 1, 2} }
    [] sys = "bobwc" -> { Case(sys, MtaPar, BobSt(x, 5) @@ [X |-> x], [x |-> x, y |-> 5, r |-> 3, rn |-> BobRn(13)], "genuine") : x \in {1, 2} }

(* the families of ProofGuards.tla (a representative of each kind per system); fam = the catalogue's name *)
False(sys) ==
  CASE sys = "sch"   -> { Case(sys, SchPar, [X |-> p[2]], [x |-> p[1], a |-> a], "wrong_dlog") : p \in {pp \in (1..4) \X (1..4) : pp[1] # pp[2]}, a \in {1, 2} }
    [] sys = "schv"  -> { Case(sys, SchPar, [V |-> (p[2] * p[1] + p[3] + p[4]) % 5, R |-> p[1]], [s |-> p[2], l |-> p[3], a |-> 1, b |-> 2], "wrong_dlog") :
                            p \in {pp \in {1, 2} \X {0, 1} \X {1, 2, 3} \X {1, 2} : (pp[2] * pp[1] + pp[3] + pp[4]) % 5 # 0} }
    [] sys = "dln"   -> { Case(sys, DlnPar, [h1 |-> 4, h2 |-> Exp(4, x, 77), N |-> 77], [x |-> xw, a |-> <<3, 5>>, alter |-> 0], "wrong_dlog") :
                            x \in {2, 3, 7}, xw \in {4, 8} }
                        \cup { Case(sys, DlnPar, [h1 |-> 4, h2 |-> h2, N |-> 77], [x |-> 2, a |-> <<3, 5>>, alter |-> 0], "h2_outside_group") : h2 \in {5, 6, 77 - 16} }
                        \cup { Case(sys, DlnPar, [h1 |-> 4, h2 |-> Exp(4, x, 77), N |-> 77], [x |-> x, a |-> <<3, 5>>, alter |-> i], "iteration_unchecked") :
                                 x \in {2, 3}, i \in 1..2 }
    [] sys = "pai"   -> { Case(sys, PaiPar, [N |-> 15, k |-> 5], [phi |-> 8, alter |-> 0], "small_prime_factor"),
                          Case(sys, PaiPar, [N |-> 55, k |-> 5], [phi |-> 8, alter |-> 0], "shares_factor_with_totient") }
                        \cup { Case(sys, PaiPar, [N |-> 35, k |-> 5], [phi |-> 24, alter |-> i], "iteration_unchecked") : i \in 1..2 }
    [] sys = "mod"   -> { Case(sys, ModPar, [sess |-> 1, N |-> 35], [p |-> 5, q |-> 7, W |-> 3, alter |-> 0], "not_blum") }
                        \cup { Case(sys, ModPar, [sess |-> 1, N |-> 33], [p |-> 3, q |-> 11, W |-> 5, alter |-> i], "iteration_unchecked_Z") : i \in 1..2 }
    [] sys = "fac"   -> { Case(sys, FacPar, FacSt2(734), [p |-> 2, qq |-> 367, r |-> FacR(1)], "small_factor"),
                          Case(sys, FacPar, FacSt2(35), [p |-> 5, qq |-> 7, r |-> FacR(135)], "z_beyond") }
    [] sys = "alice" -> { Case(sys, MtaPar, [c |-> Enc(MtaPar, m, 2)], [m |-> m, r |-> 2, rn |-> AliceRn(5)], "plaintext_beyond_q3") : m \in {28, 30} }
                        \cup { Case(sys, MtaPar, [c |-> Enc(MtaPar, 0, 2)], [m |-> 0, r |-> 2, rn |-> AliceRn(28)], "s1_beyond"),
                               \* coins beyond their range that give the COMMITMENTS of the genuine run with alpha = 5, gamma = 100:
                               \* alpha + N (Gamma has order N) and gamma + 5 (h1^35 * h2^5 = 4^45 = 1 modulo 77)
                               Case(sys, MtaPar, [c |-> Enc(MtaPar, 0, 2)], [m |-> 0, r |-> 2, rn |-> [AliceRn(40) EXCEPT !.gamma = 105]], "s1_beyond") }
    [] sys = "bob"   -> { Case(sys, MtaPar, BobSt(x, 5), [x |-> x, y |-> 5, r |-> 3, rn |-> BobRn(13)], "multiplier_beyond_q3") : x \in {28, 34} }
                        \cup { Case(sys, MtaPar, BobSt(0, 0), [x |-> 0, y |-> 0, r |-> 3, rn |-> BobRn(28)], "s1_beyond") }
    [] sys = "bobwc" -> { Case(sys, MtaPar, BobSt(p[1], 5) @@ [X |-> p[2]], [x |-> p[1], y |-> 5, r |-> 3, rn |-> BobRn(13)], "point_mismatch") :
                            p \in {<<1, 2>>, <<2, 1>>} }

ChDom(sys) ==
  CASE sys \in {"sch", "schv"} -> 1..4
    [] sys = "dln" -> [1..2 -> {0, 1}]
    [] sys = "pai" -> {<<2, 3>>, <<8, 3>>}
    [] sys = "mod" -> {<<1, 2>>, <<4, 5>>, <<7, 8>>}
    [] OTHER -> 1..2

(* a transcript carries the verdict of the history-free verifier of Proofs.tla on it (out) *)
Mk(sys, par, st, pf, ch, fam) == [sys |-> sys, par |-> par, st |-> st, pf |-> pf, ch |-> ch, fam |-> fam, out |-> Outcome(sys, par, st, pf, ch)]
Tr(c, ch) == Mk(c.sys, c.par, c.st, Prove(c, ch), ch, c.fam)
Out(t)  == t.out
ArgsT(t) == Args(t.sys, t.par, t.st)
Nbr(c) == { WithArgs(c.sys, c.par, c.st, a) : a \in Shifts(Args(c.sys, c.par, c.st), Boundary(c.sys)) }

(* zero-arity: evaluated once *)
GenTab == [s \in Systems |-> { t \in { Tr(c, ch) : c \in Genuine(s), ch \in ChDom(s) } : Out(t) = "acc" }]
FalTab == [s \in Systems |->
             { Tr(c, ch) : c \in False(s), ch \in ChDom(s) }
             \* the prover's algorithm, with the witness and the coins of a genuine case, on a colliding statement
             \cup UNION { { Tr([c EXCEPT !.par = n.par, !.st = n.st, !.fam = "collide"], ch) : n \in Nbr(c), ch \in ChDom(s) } : c \in Genuine(s) }
             \* an accepted proof presented for a colliding statement (the hash gives another challenge: any)
             \cup UNION { { Mk(s, n.par, n.st, g.pf, ch, "replay") : n \in Nbr(g), ch \in ChDom(s) } : g \in GenTab[s] } ]

-----------------------------------------------------------------------------
Designs == {"none", "st", "concat", "part", "commit", "proof"}
Hit(d, g, f) ==
  LET ag == ArgsT(g)  af == ArgsT(f) IN
  CASE d = "st"     -> ag = af
    [] d = "concat" -> Cat(ag) = Cat(af)
    [] d = "part"   -> \E k \in 1..Len(ag) : ag[k] = af[k]
    [] d = "commit" -> ag = af /\ Commit(g.sys, g.pf) = Commit(f.sys, f.pf)
    [] d = "proof"  -> Cat(ag) = Cat(af) /\ g.pf = f.pf
    [] OTHER        -> FALSE
Verdict(d, seen, f) == IF \E g \in seen : Hit(d, g, f) THEN "acc" ELSE Out(f)

Rel(g, f) ==
  LET ag == ArgsT(g)  af == ArgsT(f) IN
  IF ag = af THEN "same" ELSE IF Cat(ag) = Cat(af) THEN "collide"
  ELSE IF \E k \in 1..Len(ag) : ag[k] = af[k] THEN "partial" ELSE "unrelated"
How(g, f) == IF g.pf = f.pf THEN "replay" ELSE IF Commit(g.sys, g.pf) = Commit(f.sys, f.pf) THEN "coins" ELSE "fresh"

HInit == hs \in { [d |-> d, sys |-> s, seen |-> {}, last |-> <<>>] : d \in Designs, s \in Sys }
(* the challenge is a hash of arguments and commitments: two transcripts of one behaviour that agree on those agree on it *)
OracleOK(seen, f) == \A g \in seen : (ArgsT(g) = ArgsT(f) /\ Commit(g.sys, g.pf) = Commit(f.sys, f.pf)) => g.ch = f.ch
Accept(g) == /\ Cardinality(hs.seen) < MaxSeen
             /\ g \notin hs.seen
             /\ OracleOK(hs.seen, g)
             /\ Verdict(hs.d, hs.seen, g) = "acc"
             /\ hs' = [hs EXCEPT !.seen = @ \cup {g}, !.last = <<>>]
Present(f) == /\ hs.last = <<>>          \* (a presentation changes nothing: the next one starts from the same state)
              /\ OracleOK(hs.seen, f)
              /\ hs' = [hs EXCEPT !.last = <<[t |-> f, verdict |-> Verdict(hs.d, hs.seen, f), free |-> Out(f)]>>]
HNext == \/ \E g \in GenTab[hs.sys] : Accept(g)
         \/ \E f \in FalTab[hs.sys] \cup GenTab[hs.sys] : Present(f)
HSpec == HInit /\ [][HNext]_hvars

(* THE property: the verdict on a presentation is the verdict of the verifier that has seen nothing; in *)
(* particular no transcript that the history-free verifier rejects is accepted after any history        *)
HistoryFree == (hs.d = "none" /\ hs.last # <<>>) => hs.last[1].verdict = hs.last[1].free

(* classification of the wrong designs: registers 300 + ... (side effects only, -workers 1) *)
DSeq == <<"st", "concat", "part", "commit", "proof">>
RSeq == <<"same", "collide", "partial", "unrelated">>
WSeq == <<"fresh", "coins", "replay">>
Ix(seq, x) == CHOOSE i \in 1..Len(seq) : seq[i] = x
Reg(d, r, w) == 300 + (Ix(DSeq, d) - 1) * 12 + (Ix(RSeq, r) - 1) * 3 + Ix(WSeq, w)
ASSUME \A i \in 301..(300 + 60 + 20) : TLCSet(i, FALSE)
HTrack ==
  (hs.d # "none" /\ hs.last # <<>> /\ Cardinality(hs.seen) = 1 /\ hs.last[1].verdict # hs.last[1].free) =>
     LET g == CHOOSE x \in hs.seen : TRUE
         f == hs.last[1].t
         i == Reg(hs.d, Rel(g, f), How(g, f))
     IN  IF TLCGet(i) THEN TRUE ELSE TLCSet(i, TRUE) /\ PrintT(<<"EXPOSED", hs.d, Rel(g, f), How(g, f), g.sys, f.fam>>)

(* which classes of history expose which design (found by TLC, pinned here) *)
Exposes(d) ==
  CASE d = "st"     -> {<<"same", "fresh">>, <<"same", "coins">>}
    [] d = "concat" -> {<<"same", "fresh">>, <<"same", "coins">>, <<"collide", "fresh">>, <<"collide", "coins">>, <<"collide", "replay">>}
    [] d = "part"   -> {<<"same", "fresh">>, <<"same", "coins">>, <<"collide", "fresh">>, <<"collide", "coins">>, <<"collide", "replay">>,
                        <<"partial", "fresh">>, <<"partial", "coins">>, <<"partial", "replay">>}
    [] d = "commit" -> {<<"same", "coins">>}
    [] d = "proof"  -> {<<"collide", "replay">>}
ExposedBy(d) == { rw \in {<<r, w>> : r \in {"same", "collide", "partial", "unrelated"}, w \in {"fresh", "coins", "replay"}} : TLCGet(Reg(d, rw[1], rw[2])) }

-----------------------------------------------------------------------------
(* facts about the toy cases the catalogue below relies on (closed formulas, evaluated in the postcondition) *)
TrueStatementFam == {"wrong_dlog", "iteration_unchecked", "iteration_unchecked_X", "iteration_unchecked_Z", "z_beyond", "s1_beyond", "t1_beyond"}
ToyFacts ==
  /\ \A s \in Sys : GenTab[s] # {}
  \* a family's statement also has a genuine proof iff the family is one of the true-statement families
  /\ \A s \in Sys : \A c \in False(s) :
       (\E g \in Genuine(s) : Args(s, g.par, g.st) = Args(s, c.par, c.st)) <=> (c.fam \in TrueStatementFam)
  \* colliding statements exist exactly where a boundary is named
  /\ \A s \in Sys : (Boundary(s) # 0) <=> (\E c \in Genuine(s) : Nbr(c) # {})
  \* the out-of-range coins of alice / s1_beyond that reproduce the commitments of a genuine run do so, and are rejected
  /\ ("alice" \in Sys) =>
       \E g \in GenTab["alice"], f \in FalTab["alice"] :
          /\ f.fam = "s1_beyond" /\ ArgsT(f) = ArgsT(g) /\ Commit("alice", f.pf) = Commit("alice", g.pf) /\ f.ch = g.ch
          /\ f.pf # g.pf /\ Out(f) = "rej" /\ All(E_alice(f.par, f.st, f.pf, f.ch))

(* Paillier operations (Encrypt, HomoMult, HomoAdd, Decrypt): the domain test must not depend on values that *)
(* passed it before; the wrong design remembers residues                                                   *)
DomN == 35
InDom(v) == 0 <= v /\ v < DomN
Refuses(design, seenv, v) == IF design = "residue" /\ (v % DomN) \in {x % DomN : x \in seenv} THEN FALSE ELSE ~InDom(v)
DomFacts ==
  /\ \A v0 \in 0..(DomN - 1), v \in (-40)..110 : Refuses("none", {v0}, v) = Refuses("none", {}, v)
  /\ \A v \in ((-40)..110) \ (0..(DomN - 1)) : ~Refuses("residue", {v % DomN}, v)      \* the congruent in-domain value exposes it

-----------------------------------------------------------------------------
(* The history catalogue replayed at real size.  One row = a family row of ProofGuards!Families and the kind *)
(* of history it is presented after:                                                                        *)
(*   same     Accept(the library's prover on the SAME statement with its witness), then the family's        *)
(*            transcript made with the same coins                                                           *)
(*   partial  Accept(the library's prover on the true statement the bad witness belongs to / a true          *)
(*            statement that shares every other argument), then the family's transcript, same coins          *)
(*   collide  Accept(genuine proof for arguments whose concatenation equals that of a false statement),      *)
(*            then the prover's algorithm on the false statement, then the accepted proof itself             *)
CollideFamily(sys) ==
  CASE sys = "dln" -> "h2_outside_group" [] sys = "pai" -> "small_prime_factor" [] sys = "mod" -> "not_blum"
    [] sys = "fac" -> "small_factor" [] sys = "alice" -> "plaintext_beyond_q3" [] OTHER -> "multiplier_beyond_q3"
(* families built with a coin beyond its range on a true statement: the coin can be chosen so that the commitments - hence *)
(* the Fiat-Shamir input - are those of an accepted genuine run (size "same_commitments": the class (same, coins))      *)
SameCommitFam == {"z_beyond", "s1_beyond", "t1_beyond"}
HistRows ==
  { [sys |-> f.sys, family |-> f.family, trips |-> f.trips, prover |-> f.prover,
     sizes |-> IF f.family \in SameCommitFam THEN Append(f.sizes, "same_commitments") ELSE f.sizes,
     hist |-> IF f.family \in TrueStatementFam THEN "same" ELSE "partial"] : f \in {x \in Families : x.sys \in Sys} }
  \cup { [sys |-> f.sys, family |-> f.family, trips |-> f.trips, prover |-> f.prover, sizes |-> <<"shift">>, hist |-> "collide"] :
           f \in {x \in Families : x.sys \in Sys /\ Boundary(x.sys) # 0 /\ x.family = CollideFamily(x.sys)} }
DomRows == { [op |-> op, prefix |-> "congruent_in_domain"] : op \in {"Encrypt", "HomoMult", "HomoAdd", "Decrypt"} }

(* every class that exposes some wrong design is replayed by some kind of row *)
ClassesReplayed == {<<"same", "coins">>, <<"partial", "coins">>, <<"collide", "fresh">>, <<"collide", "replay">>}
Covered == \A d \in Designs \ {"none"} : Exposes(d) \cap ClassesReplayed # {}

HClassified ==
  /\ ToyFacts /\ DomFacts /\ Covered
  /\ \A d \in Designs \ {"none"} :
       \/ ExposedBy(d) = Exposes(d)
       \/ ~PrintT(<<"MISCLASSIFIED_DESIGN", d, ExposedBy(d)>>)
  /\ \A r \in HistRows : PrintT(<<"HROW", ToJson(r)>>)
  /\ \A r \in DomRows : PrintT(<<"PROW", ToJson(r)>>)
=============================================================================
