------------------------- MODULE ProofHistory_Trace -------------------------
(* Binding of ProofHistory.tla to the code (C11): toy-sized HISTORIES on the   *)
(* real verifiers.  The lines of the trace file were produced IN ORDER by ONE  *)
(* process: the file is the history of that process.  A line is a line of      *)
(* Proofs_Trace.tla (transcript, the twin's vector, what the real Verify did)  *)
(* plus                                                                        *)
(*   step : "accept"  a genuine proof (library prover, true statement) that    *)
(*                    the real verifier accepted                               *)
(*          "present" a transcript presented afterwards                        *)
(*   args : the integer arguments of the real Verify call in the order of its  *)
(*          signature (sessions of at most three bytes as integers)            *)
(*   rel  : the relation to an accepted line that the harness claims to have   *)
(*          constructed: "same" | "collide" | "partial" | "none"               *)
(* A line is explained iff (1) the history-free model of Proofs.tla computes   *)
(* the same vector and the same outcome (LineOK: the verdict of the real       *)
(* verifier does not depend on `seen`, the set of accepted argument tuples,    *)
(* which the model does not even consult), (2) an "accept" line was accepted,  *)
(* (3) the claimed relation holds between args and some tuple of seen - TLC,   *)
(* not the harness, establishes that the histories are the ones the catalogue  *)
(* of ProofHistory.tla names (byte strings are digits in base 256 here).       *)
EXTENDS Proofs_Trace

VARIABLE seen
hvars == <<l, seen>>

RECURSIVE Dig256(_)
Dig256(n) == IF n <= 0 THEN <<>> ELSE Append(Dig256(n \div 256), n % 256)
RECURSIVE Cat256(_)
Cat256(a) == IF a = <<>> THEN <<>> ELSE Dig256(Head(a)) \o Cat256(Tail(a))

RelOK(e) ==
  LET S == {s \in seen : s.sys = e.sys /\ Len(s.args) = Len(e.args)} IN
  CASE e.rel = "same"    -> \E s \in S : s.args = e.args
    [] e.rel = "collide" -> \E s \in S : s.args # e.args /\ Cat256(s.args) = Cat256(e.args)
    [] e.rel = "partial" -> \E s \in S : s.args # e.args /\ \E k \in 1..Len(e.args) : s.args[k] = e.args[k]
    [] OTHER             -> TRUE

(* the integers of the statement are among the arguments (args is not a free invention of the harness) *)
ArgsBound(e) ==
  \A k \in DOMAIN e.st : \E i \in 1..Len(e.args) : e.args[i] = e.st[k]

HLineOK(e) ==
  /\ LineOK(e)
  /\ ArgsBound(e) \/ (PrintT(<<"HLINE_ARGS", e.id>>) /\ FALSE)
  /\ (e.step = "accept" => e.out = "acc") \/ (PrintT(<<"HLINE_NOT_ACCEPTED", e.id>>) /\ FALSE)
  /\ RelOK(e) \/ (PrintT(<<"HLINE_REL", e.id, e.rel>>) /\ FALSE)

HTraceInit == l = 1 /\ seen = {}
HTraceNext ==
  /\ l <= Len(TraceLog)
  /\ HLineOK(TraceLog[l])
  /\ l' = l + 1
  /\ seen' = IF TraceLog[l].step = "accept" THEN seen \cup {[sys |-> TraceLog[l].sys, args |-> TraceLog[l].args]} ELSE seen
HTraceSpec == HTraceInit /\ [][HTraceNext]_hvars
=============================================================================
