------------------------------- MODULE Proofs -------------------------------
(* The nine zero-knowledge proof systems of tss-lib, transcribed from the code *)
(*   sch    crypto/schnorr  ZKProof   (knowledge of x with X = x*G)            *)
(*   schv   crypto/schnorr  ZKVProof  (knowledge of s,l with V = s*R + l*G)    *)
(*   dln    crypto/dlnproof Proof     (h2 in <h1> modulo a safe-prime product) *)
(*   pai    crypto/paillier Proof     (gcd(N, phi(N)) = 1, no small factor)    *)
(*   mod    crypto/modproof ProofMod  (N is a Paillier-Blum modulus)           *)
(*   fac    crypto/facproof ProofFac  (N0 has no small factor)                 *)
(*   alice  crypto/mta RangeProofAlice (plaintext of c is below q^3)           *)
(*   bob    crypto/mta ProofBob       (c2 = c1^x * Enc(y), x <= q^3, y <= q^7) *)
(*   bobwc  crypto/mta ProofBobWC     (... and X = x*G)                        *)
(*                                                                             *)
(* For every system:                                                           *)
(*   G_<sys>(par, st, pf)     the verifier's guards, one named BOOLEAN each,   *)
(*                            in the order of the code                         *)
(*   E_<sys>(par, st, pf, ch) the verification equations                       *)
(*   Out_<sys>(...)           "acc" | "rej" | "panic": what Verify does        *)
(*                            (a panic is what the code does where a scalar    *)
(*                            multiplication yields the identity, which        *)
(*                            crypto.ECPoint cannot represent)                 *)
(*   P_<sys>(...)             the prover                                       *)
(* par = group parameters, st = statement, pf = proof parts, ch = the          *)
(* Fiat-Shamir challenge, which is an ORACLE INPUT here (TLC cannot hash):     *)
(* every statement below is "for all challenges".                              *)
(*                                                                             *)
(* Groups are toy sized (TLC integers have 32 bits): curve points are their    *)
(* discrete logarithms in Z_q (0 = the identity = "no valid point"), the       *)
(* hidden-order group is Z*_NT with NT = 77 = 7*11 or 253 = 11*23, Paillier    *)
(* moduli N <= 215 so that products modulo N^2 fit.                            *)
(*                                                                             *)
(* Deliberate deviations from the code:                                        *)
(*  - nil checks (ValidateBasic) are not modelled: parts are always present    *)
(*  - iteration counts 128 / 13 / 80 are the parameter K (small in the model   *)
(*    checking runs, the real constants in trace validation)                   *)
(*  - the 81 bit numbers A, B of the modulus proof are bit sequences (least    *)
(*    significant first, the last element is the top bit)                      *)
(*  - big.Int.Exp with a negative exponent and a base that is no unit returns  *)
(*    nil in Go (the next operation dereferences it): here the value Und,      *)
(*    every equation containing it is FALSE                                    *)
(*                                                                             *)
(* Used by: harness/props/c10.go, c11.go (see ProofGuards.tla, Proofs_Trace.tla)*)
EXTENDS Integers, Sequences, FiniteSets, TLC, Json

-----------------------------------------------------------------------------
(* Arithmetic on 32 bit integers.                                              *)
Abs(x) == IF x < 0 THEN -x ELSE x
Und    == -1                                   \* "no value" (nil in the code)

RECURSIVE GCDr(_, _)
GCDr(a, b) == IF b = 0 THEN a ELSE GCDr(b, a % b)
GCD(a, b)  == GCDr(Abs(a), Abs(b))

RECURSIVE Pow(_, _)
Pow(b, e) == IF e = 0 THEN 1 ELSE b * Pow(b, e - 1)

RECURSIVE ExpP(_, _, _)                        \* b^e mod n, 0 <= b < n, e >= 0
ExpP(b, e, n) ==
  IF e = 0 THEN 1 % n
  ELSE LET h  == ExpP(b, e \div 2, n)
           hh == (h * h) % n
       IN  IF e % 2 = 0 THEN hh ELSE (hh * b) % n

RECURSIVE EG(_, _)                             \* <<g, x, y>> with a*x + b*y = g
EG(a, b) == IF b = 0 THEN <<a, 1, 0>>
            ELSE LET r == EG(b, a % b) IN <<r[1], r[3], r[2] - (a \div b) * r[3]>>
Inv(a, n) == LET r == EG(a % n, n) IN IF r[1] = 1 THEN r[2] % n ELSE Und

(* big.Int.Exp(b, e, n) for any integer e *)
Exp(b, e, n) ==
  IF e >= 0 THEN ExpP(b % n, e, n)
  ELSE LET i == Inv(b, n) IN IF i = Und THEN Und ELSE ExpP(i, -e, n)

Mul(a, b, n)     == IF a = Und \/ b = Und THEN Und ELSE (a * b) % n
Mul3(a, b, c, n) == Mul(Mul(a, b, n), c, n)

RECURSIVE JacR(_, _, _)                        \* Jacobi symbol, n odd > 0
JacR(a0, n, s) ==
  LET a == a0 % n IN
  IF a = 0 THEN (IF n = 1 THEN s ELSE 0)
  ELSE IF a % 2 = 0 THEN JacR(a \div 2, n, IF (n % 8) \in {3, 5} THEN -s ELSE s)
  ELSE IF a = 1 THEN s
  ELSE JacR(n, a, IF a % 4 = 3 /\ n % 4 = 3 THEN -s ELSE s)
Jacobi(a, n) == JacR(a, n, 1)

RECURSIVE IsqR(_, _)
IsqR(n, r) == IF (r + 1) * (r + 1) > n THEN r ELSE IsqR(n, r + 1)
Isqrt(n)   == IsqR(n, 0)                       \* big.Int.Sqrt: floor

IsPrime(n) == n > 1 /\ \A d \in 2..Isqrt(n) : n % d # 0
Primes(lo, hi) == {p \in lo..hi : IsPrime(p)}

InIv(b, bound) == 0 <= b /\ b < bound          \* common.IsInInterval
All(f) == \A k \in DOMAIN f : f[k]
FailSet(f) == {k \in DOMAIN f : ~f[k]}

-----------------------------------------------------------------------------
(* sch : schnorr.ZKProof.  par [q, idrep]  st [X]  pf [alpha, t]  ch c         *)
(* idrep: the identity has affine coordinates (edwards25519), so multiplying   *)
(* by 0 does not panic                                                         *)
P_sch(par, x, a, c) == [alpha |-> a % par.q, t |-> (a + c * x) % par.q]
G_sch(par, st, pf) ==
  [ X_valid   |-> par.idrep \/ st.X % par.q # 0,   \* X.ValidateBasic(): an on-curve, representable point
    t_nonzero |-> pf.t % par.q # 0 ]           \* t*G would be the identity
E_sch(par, st, pf, c) ==
  [ eq |-> (pf.t - pf.alpha - c * st.X) % par.q = 0 ]      \* t*G = alpha + c*X
Out_sch(par, st, pf, c) ==
  IF ~All(G_sch(par, st, pf)) THEN "rej"
  ELSE IF c = 0 /\ ~par.idrep THEN "panic"     \* X.ScalarMult(0)
  ELSE IF All(E_sch(par, st, pf, c)) THEN "acc" ELSE "rej"

(* schv : schnorr.ZKVProof.  st [V, R]  pf [alpha, t, u]                       *)
P_schv(par, R, s, l, a, b, c) ==
  [alpha |-> (a * R + b) % par.q, t |-> (a + c * s) % par.q, u |-> (b + c * l) % par.q]
G_schv(par, st, pf) ==
  [ V_valid     |-> par.idrep \/ st.V % par.q # 0,
    R_valid     |-> par.idrep \/ st.R % par.q # 0,
    alpha_valid |-> par.idrep \/ pf.alpha % par.q # 0,
    t_nonzero   |-> pf.t % par.q # 0,
    u_nonzero   |-> pf.u % par.q # 0 ]
E_schv(par, st, pf, c) ==
  [ eq |-> (pf.t * st.R + pf.u - pf.alpha - c * st.V) % par.q = 0 ]   \* t*R + u*G = alpha + c*V
Out_schv(par, st, pf, c) ==
  IF ~All(G_schv(par, st, pf)) THEN "rej"
  ELSE IF c = 0 /\ ~par.idrep THEN "panic"                             \* V.ScalarMult(0)
  ELSE IF (pf.alpha + c * st.V) % par.q = 0 /\ ~par.idrep THEN "rej"  \* Alpha.Add(Vc) fails
  ELSE IF (pf.t * st.R + pf.u) % par.q = 0 /\ ~par.idrep THEN "panic" \* tR.Add(uG) ignored its error: nil
  ELSE IF All(E_schv(par, st, pf, c)) THEN "acc" ELSE "rej"

-----------------------------------------------------------------------------
(* dln : dlnproof.Proof.  par [K]  st [h1, h2, N]  pf [alpha, t] (sequences of *)
(* length K)  ch: sequence of K bits                                           *)
P_dln(par, st, x, pq, a, c) ==
  [ alpha |-> [i \in 1..par.K |-> Exp(st.h1, a[i], st.N)],
    t     |-> [i \in 1..par.K |-> (a[i] + c[i] * x) % pq] ]
G_dln(par, st, pf) ==
  [ N_pos       |-> st.N > 0,
    h1_range    |-> st.N > 0 => st.h1 % st.N > 1,
    h2_range    |-> st.N > 0 => st.h2 % st.N > 1,
    h1_ne_h2    |-> st.N > 0 => st.h1 % st.N # st.h2 % st.N,
    t_range     |-> st.N > 0 => \A i \in 1..par.K : pf.t[i] % st.N > 1,
    alpha_range |-> st.N > 0 => \A i \in 1..par.K : pf.alpha[i] % st.N > 1 ]
E_dln(par, st, pf, c) ==
  [ eq |-> \A i \in 1..par.K :
             Exp(st.h1, pf.t[i], st.N) = Mul(pf.alpha[i] % st.N, Exp(st.h2, c[i], st.N), st.N) ]
Out_dln(par, st, pf, c) ==
  IF All(G_dln(par, st, pf)) /\ All(E_dln(par, st, pf, c)) THEN "acc" ELSE "rej"

-----------------------------------------------------------------------------
(* pai : paillier.Proof.  par [K, bound]  st [N]  pf [y]  ch xs: K units < N   *)
(* prover: y_i = x_i^(N^-1 mod phi) mod N                                      *)
P_pai(par, st, phi, xs) ==
  LET M == Inv(st.N, phi) IN [ y |-> [i \in 1..par.K |-> IF M = Und THEN Und ELSE Exp(xs[i], M, st.N)] ]
G_pai(par, st, pf) ==
  [ N_gt_1          |-> st.N > 1,
    no_small_factor |-> \A p \in Primes(2, par.bound - 1) : st.N % p # 0 ]
E_pai(par, st, pf, xs) ==
  [ eq |-> st.N > 1 => \A i \in 1..par.K : xs[i] % st.N = Exp(pf.y[i], st.N, st.N) ]
Out_pai(par, st, pf, xs) ==
  IF All(G_pai(par, st, pf)) /\ All(E_pai(par, st, pf, xs)) THEN "acc" ELSE "rej"

-----------------------------------------------------------------------------
(* mod : modproof.ProofMod.  par [K]  st [N]  pf [W, X, A, B, Z]  ch Y         *)
(* A, B : bit sequences (see head of file); the code demands BitLen = K + 1    *)
BitOf(bits, i) == IF i <= Len(bits) THEN bits[i] ELSE 0        \* i from 1
Twist(par, st, pf, Y, i) ==                                     \* (-1)^a * W^b * Y_i mod N
  LET y1 == IF BitOf(pf.A, i) > 0 THEN (-Y[i]) % st.N ELSE Y[i] % st.N
  IN  IF BitOf(pf.B, i) > 0 THEN ((pf.W % st.N) * y1) % st.N ELSE y1
G_mod(par, st, pf) ==
  LET odd == st.N > 1 /\ st.N % 2 = 1 IN
  [ N_odd_gt1   |-> odd,
    W_jacobi    |-> odd => Jacobi(pf.W, st.N) # 1,
    W_range     |-> 0 < pf.W /\ pf.W < st.N,
    W_unit      |-> GCD(pf.W, st.N) = 1,
    Z_range     |-> \A i \in 1..par.K : 0 < pf.Z[i] /\ pf.Z[i] < st.N,
    X_range     |-> \A i \in 1..par.K : 0 < pf.X[i] /\ pf.X[i] < st.N,
    A_bitlen    |-> Len(pf.A) = par.K + 1,
    B_bitlen    |-> Len(pf.B) = par.K + 1,
    N_composite |-> ~IsPrime(st.N) ]
E_mod(par, st, pf, Y) ==
  LET ok == st.N > 1 IN
  [ eqZ |-> ok => \A i \in 1..par.K : Exp(pf.Z[i], st.N, st.N) = Y[i],
    eqX |-> ok => \A i \in 1..par.K : Exp(pf.X[i], 4, st.N) = Twist(par, st, pf, Y, i) ]
Out_mod(par, st, pf, Y) ==
  IF All(G_mod(par, st, pf)) /\ All(E_mod(par, st, pf, Y)) THEN "acc" ELSE "rej"

(* the prover: for each Y_i the first (a, b) in the order 00, 10, 01, 11 for which *)
(* (-1)^a W^b Y_i is a quadratic residue modulo both primes; none => the element   *)
(* stays nil and nothing can be sent (Und here)                                    *)
ModPick(N, p, q, W, y) ==
  LET tw(a, b) == LET y1 == IF a = 1 THEN (-y) % N ELSE y % N IN IF b = 1 THEN (W * y1) % N ELSE y1
      good(a, b) == Jacobi(tw(a, b), p) = 1 /\ Jacobi(tw(a, b), q) = 1
  IN  IF good(0, 0) THEN <<0, 0>> ELSE IF good(1, 0) THEN <<1, 0>>
      ELSE IF good(0, 1) THEN <<0, 1>> ELSE IF good(1, 1) THEN <<1, 1>> ELSE <<Und, Und>>
P_mod(par, st, p, q, W, Y) ==
  LET N    == st.N
      phi  == (p - 1) * (q - 1)
      ex   == LET h == (phi + 4) \div 8 IN (h * h) % phi            \* fourth root exponent
      invN == Inv(N, phi)
      ab   == [i \in 1..par.K |-> ModPick(N, p, q, W, Y[i])]
      tw(i) == LET y1 == IF ab[i][1] = 1 THEN (-Y[i]) % N ELSE Y[i] % N
               IN  IF ab[i][2] = 1 THEN (W * y1) % N ELSE y1
  IN [ W |-> W,
       X |-> [i \in 1..par.K |-> IF ab[i][1] = Und THEN Und ELSE Exp(tw(i), ex, N)],
       Z |-> [i \in 1..par.K |-> IF ab[i][1] = Und \/ invN = Und THEN Und ELSE Exp(Y[i], invN, N)],
       A |-> [i \in 1..(par.K + 1) |-> IF i = par.K + 1 THEN 1 ELSE IF ab[i][1] = 1 THEN 1 ELSE 0],
       B |-> [i \in 1..(par.K + 1) |-> IF i = par.K + 1 THEN 1 ELSE IF ab[i][2] = 1 THEN 1 ELSE 0] ]

-----------------------------------------------------------------------------
(* fac : facproof.ProofFac.  par [q]  st [N0, NC, s, t]                        *)
(* pf [P, Q, A, B, T, sigma, z1, z2, w1, w2, v]  ch e                          *)
FacBound(par, st) == Pow(par.q, 3) * Isqrt(st.N0)
P_fac(par, st, p, qq, r, e) ==                \* r [alpha, beta, mu, nu, sigma, rr, x, y]
  LET NC == st.NC
      Q  == Mul(Exp(st.s, qq, NC), Exp(st.t, r.nu, NC), NC)
  IN [ P |-> Mul(Exp(st.s, p, NC), Exp(st.t, r.mu, NC), NC),
       Q |-> Q,
       A |-> Mul(Exp(st.s, r.alpha, NC), Exp(st.t, r.x, NC), NC),
       B |-> Mul(Exp(st.s, r.beta, NC), Exp(st.t, r.y, NC), NC),
       T |-> Mul(Exp(Q, r.alpha, NC), Exp(st.t, r.rr, NC), NC),
       sigma |-> r.sigma,
       z1 |-> e * p + r.alpha,
       z2 |-> e * qq + r.beta,
       w1 |-> e * r.mu + r.x,
       w2 |-> e * r.nu + r.y,
       v  |-> e * (r.sigma - r.nu * p) + r.rr ]
G_fac(par, st, pf) ==
  [ N0_pos   |-> st.N0 > 0,
    NC_pos   |-> st.NC > 0,
    z1_range |-> st.N0 > 0 => InIv(pf.z1, FacBound(par, st)),
    z2_range |-> st.N0 > 0 => InIv(pf.z2, FacBound(par, st)) ]
E_fac(par, st, pf, e) ==
  LET NC == st.NC
      R  == Mul(Exp(st.s, st.N0, NC), Exp(st.t, pf.sigma, NC), NC)
      ok == st.N0 > 0 /\ NC > 0
  IN [ eq1 |-> ok => LET l == Mul(Exp(st.s, pf.z1, NC), Exp(st.t, pf.w1, NC), NC)
                         rr == Mul(pf.A % NC, Exp(pf.P, e, NC), NC)
                     IN  l # Und /\ l = rr,
       eq2 |-> ok => LET l == Mul(Exp(st.s, pf.z2, NC), Exp(st.t, pf.w2, NC), NC)
                         rr == Mul(pf.B % NC, Exp(pf.Q, e, NC), NC)
                     IN  l # Und /\ l = rr,
       eq3 |-> ok => LET l == Mul(Exp(pf.Q, pf.z1, NC), Exp(st.t, pf.v, NC), NC)
                         rr == Mul(pf.T % NC, Exp(R, e, NC), NC)
                     IN  l # Und /\ l = rr ]
Out_fac(par, st, pf, e) ==
  IF All(G_fac(par, st, pf)) /\ All(E_fac(par, st, pf, e)) THEN "acc" ELSE "rej"

-----------------------------------------------------------------------------
(* alice : mta.RangeProofAlice.  par [q, N, NT, h1, h2]  st [c]                *)
(* pf [z, u, w, s, s1, s2]  ch e                                               *)
Gam(par) == par.N + 1
N2(par)  == par.N * par.N
P_alice(par, m, r, rn, e) ==                  \* rn [alpha, beta, gamma, rho]; c = Gam^m r^N
  [ z  |-> Mul(Exp(par.h1, m, par.NT), Exp(par.h2, rn.rho, par.NT), par.NT),
    u  |-> Mul(Exp(Gam(par), rn.alpha, N2(par)), Exp(rn.beta, par.N, N2(par)), N2(par)),
    w  |-> Mul(Exp(par.h1, rn.alpha, par.NT), Exp(par.h2, rn.gamma, par.NT), par.NT),
    s  |-> Mul(Exp(r, e, par.N), rn.beta % par.N, par.N),
    s1 |-> e * m + rn.alpha,
    s2 |-> e * rn.rho + rn.gamma ]
Enc(par, m, r) == Mul(Exp(Gam(par), m, N2(par)), Exp(r, par.N, N2(par)), N2(par))
G_alice(par, st, pf) ==
  LET q3 == Pow(par.q, 3) IN
  [ c_unit    |-> InIv(st.c, N2(par)) /\ GCD(st.c, N2(par)) = 1,
    z_range   |-> InIv(pf.z, par.NT),
    u_range   |-> InIv(pf.u, N2(par)),
    w_range   |-> InIv(pf.w, par.NT),
    s_range   |-> InIv(pf.s, par.N),
    z_unit    |-> GCD(pf.z, par.NT) = 1,
    u_unit    |-> GCD(pf.u, N2(par)) = 1,
    w_unit    |-> GCD(pf.w, par.NT) = 1,
    s1_ge_q   |-> pf.s1 >= par.q,
    s2_ge_q   |-> pf.s2 >= par.q,
    s_ne_1    |-> pf.s # 1,
    z_ne_1    |-> pf.z # 1,
    s1_ne_s2  |-> pf.s1 # pf.s2,
    s1_le_q3  |-> pf.s1 <= q3 ]
E_alice(par, st, pf, e) ==
  [ eqU |-> LET p == Mul3(Exp(Gam(par), pf.s1, N2(par)), Exp(pf.s, par.N, N2(par)), Exp(st.c, -e, N2(par)), N2(par))
            IN  p # Und /\ pf.u = p,
    eqW |-> LET p == Mul3(Exp(par.h1, pf.s1, par.NT), Exp(par.h2, pf.s2, par.NT), Exp(pf.z, -e, par.NT), par.NT)
            IN  p # Und /\ pf.w = p ]
Out_alice(par, st, pf, e) ==
  IF All(G_alice(par, st, pf)) /\ All(E_alice(par, st, pf, e)) THEN "acc" ELSE "rej"

-----------------------------------------------------------------------------
(* bob / bobwc : mta.ProofBob, ProofBobWC.  par as alice                       *)
(* st [c1, c2] (+ X, the discrete log of the public point, for bobwc)          *)
(* pf [z, zp, t, v, w, s, s1, s2, t1, t2] (+ U)  ch e                          *)
P_bob(par, st, x, y, r, rn, e) ==             \* rn [alpha, rho, sigma, tau, rhop, beta, gamma]
  [ z  |-> Mul(Exp(par.h1, x, par.NT), Exp(par.h2, rn.rho, par.NT), par.NT),
    zp |-> Mul(Exp(par.h1, rn.alpha, par.NT), Exp(par.h2, rn.rhop, par.NT), par.NT),
    t  |-> Mul(Exp(par.h1, y, par.NT), Exp(par.h2, rn.sigma, par.NT), par.NT),
    v  |-> Mul3(Exp(st.c1, rn.alpha, N2(par)), Exp(Gam(par), rn.gamma, N2(par)), Exp(rn.beta, par.N, N2(par)), N2(par)),
    w  |-> Mul(Exp(par.h1, rn.gamma, par.NT), Exp(par.h2, rn.tau, par.NT), par.NT),
    s  |-> Mul(Exp(r, e, par.N), rn.beta % par.N, par.N),
    s1 |-> e * x + rn.alpha,
    s2 |-> e * rn.rho + rn.rhop,
    t1 |-> e * y + rn.gamma,
    t2 |-> e * rn.sigma + rn.tau,
    U  |-> rn.alpha % par.q ]                 \* alpha*G (bobwc only)
G_bob(par, st, pf) ==
  LET q3 == Pow(par.q, 3)
      q7 == Pow(par.q, 7)
  IN
  [ z_range   |-> InIv(pf.z, par.NT),
    zp_range  |-> InIv(pf.zp, par.NT),
    t_range   |-> InIv(pf.t, par.NT),
    v_range   |-> InIv(pf.v, N2(par)),
    w_range   |-> InIv(pf.w, par.NT),
    s_range   |-> InIv(pf.s, par.N),
    z_unit    |-> GCD(pf.z, par.NT) = 1,
    zp_unit   |-> GCD(pf.zp, par.NT) = 1,
    t_unit    |-> GCD(pf.t, par.NT) = 1,
    v_unit    |-> GCD(pf.v, N2(par)) = 1,
    w_unit    |-> GCD(pf.w, par.NT) = 1,
    s_nonzero |-> pf.s # 0,
    s_unit    |-> GCD(pf.s, par.N) = 1,
    v_nonzero |-> pf.v # 0,
    v_unitN   |-> GCD(pf.v, par.N) = 1,
    s1_ge_q   |-> pf.s1 >= par.q,
    s2_ge_q   |-> pf.s2 >= par.q,
    t1_ge_q   |-> pf.t1 >= par.q,
    t2_ge_q   |-> pf.t2 >= par.q,
    s1_le_q3  |-> pf.s1 <= q3,
    t1_le_q7  |-> pf.t1 <= q7 ]
E_bob(par, st, pf, e) ==
  [ eqZ |-> Mul(Exp(par.h1, pf.s1, par.NT), Exp(par.h2, pf.s2, par.NT), par.NT)
              = Mul(Exp(pf.z, e, par.NT), pf.zp % par.NT, par.NT),
    eqT |-> Mul(Exp(par.h1, pf.t1, par.NT), Exp(par.h2, pf.t2, par.NT), par.NT)
              = Mul(Exp(pf.t, e, par.NT), pf.w % par.NT, par.NT),
    eqV |-> Mul3(Exp(st.c1, pf.s1, N2(par)), Exp(pf.s, par.N, N2(par)), Exp(Gam(par), pf.t1, N2(par)), N2(par))
              = Mul(Exp(st.c2, e, N2(par)), pf.v % N2(par), N2(par)) ]
Out_bob(par, st, pf, e) ==
  IF All(G_bob(par, st, pf)) /\ All(E_bob(par, st, pf, e)) THEN "acc" ELSE "rej"

GX_bobwc(par, st, pf) ==                      \* the additional guards of the check variant
  [ X_valid    |-> st.X % par.q # 0,
    U_valid    |-> pf.U % par.q # 0,
    s1_modq_nz |-> pf.s1 % par.q # 0 ]        \* s1*G would be the identity
G_bobwc(par, st, pf) == G_bob(par, st, pf) @@ GX_bobwc(par, st, pf)
E_bobwc(par, st, pf, e) ==
  E_bob(par, st, pf, e) @@ [ eqG |-> (pf.s1 - e * st.X - pf.U) % par.q = 0 ]   \* s1*G = e*X + U
Out_bobwc(par, st, pf, e) ==
  IF ~All(G_bobwc(par, st, pf)) THEN "rej"
  ELSE IF e = 0 THEN "panic"                  \* X.ScalarMult(0)
  ELSE IF All(E_bobwc(par, st, pf, e)) THEN "acc" ELSE "rej"

-----------------------------------------------------------------------------
(* Uniform access.                                                             *)
Systems == {"sch", "schv", "dln", "pai", "mod", "fac", "alice", "bob", "bobwc"}

Guards(sys, par, st, pf) ==
  CASE sys = "sch"   -> G_sch(par, st, pf)   [] sys = "schv"  -> G_schv(par, st, pf)
    [] sys = "dln"   -> G_dln(par, st, pf)   [] sys = "pai"   -> G_pai(par, st, pf)
    [] sys = "mod"   -> G_mod(par, st, pf)   [] sys = "fac"   -> G_fac(par, st, pf)
    [] sys = "alice" -> G_alice(par, st, pf) [] sys = "bob"   -> G_bob(par, st, pf)
    [] sys = "bobwc" -> G_bobwc(par, st, pf)
Eqs(sys, par, st, pf, ch) ==
  CASE sys = "sch"   -> E_sch(par, st, pf, ch)   [] sys = "schv"  -> E_schv(par, st, pf, ch)
    [] sys = "dln"   -> E_dln(par, st, pf, ch)   [] sys = "pai"   -> E_pai(par, st, pf, ch)
    [] sys = "mod"   -> E_mod(par, st, pf, ch)   [] sys = "fac"   -> E_fac(par, st, pf, ch)
    [] sys = "alice" -> E_alice(par, st, pf, ch) [] sys = "bob"   -> E_bob(par, st, pf, ch)
    [] sys = "bobwc" -> E_bobwc(par, st, pf, ch)
Outcome(sys, par, st, pf, ch) ==
  CASE sys = "sch"   -> Out_sch(par, st, pf, ch)   [] sys = "schv"  -> Out_schv(par, st, pf, ch)
    [] sys = "dln"   -> Out_dln(par, st, pf, ch)   [] sys = "pai"   -> Out_pai(par, st, pf, ch)
    [] sys = "mod"   -> Out_mod(par, st, pf, ch)   [] sys = "fac"   -> Out_fac(par, st, pf, ch)
    [] sys = "alice" -> Out_alice(par, st, pf, ch) [] sys = "bob"   -> Out_bob(par, st, pf, ch)
    [] sys = "bobwc" -> Out_bobwc(par, st, pf, ch)

(* the wire form: every part is big.Int.Bytes(), i.e. the ABSOLUTE value;      *)
(* number of byte strings a proof travels as                                   *)
WireParts(sys, K) ==
  CASE sys = "sch" -> 3 [] sys = "schv" -> 4 [] sys = "dln" -> 2 + 2 * K [] sys = "pai" -> K
    [] sys = "mod" -> 2 * K + 3 [] sys = "fac" -> 11 [] sys = "alice" -> 6 [] sys = "bob" -> 10
    [] sys = "bobwc" -> 12
RealK(sys) == CASE sys = "dln" -> 128 [] sys = "pai" -> 13 [] sys = "mod" -> 80 [] OTHER -> 0
WireFac(pf) == [pf EXCEPT !.v = Abs(pf.v)]   \* the only part that can be negative in an honest proof

=============================================================================
