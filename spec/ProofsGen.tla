------------------------------ MODULE ProofsGen ------------------------------
(* C10 scenario catalogue, generated from the completeness model ProofsMC.tla. *)
EXTENDS ProofsMC

(* C10 scenario catalogue.                                                     *)
(* One row = (system, witness class, session class, curve, number of vendored  *)
(* parameter sets involved).  A witness class is listed for a system only if   *)
(* the MODEL says that honest runs of that class exist (the statement is a     *)
(* representable point, the parameters pass the verifier's parameter guards)   *)
(* and are accepted outside the gap; the harness concretises every row at real *)
(* size (class -> value, parameter index (pairs) -> vendored sets) and the     *)
(* REAL Verify must return true before and after the wire round trip.          *)
(* expect_parts is the number of byte strings the proof travels as.            *)
(*   witness classes: 0, 1, 2, max (largest admissible value), lz (a value     *)
(*   whose big endian encoding is shorter than the group order's), rand;       *)
(*   l0 (schv only): l = 0 with a random s;  key (pai, mod, fac): the witness  *)
(*   is the factorisation of a vendored modulus;  key / keyrev (dln): the      *)
(*   vendored h1, h2 with their exponent, in both directions                   *)
WClasses == {"0", "1", "2", "max", "lz", "rand", "l0", "key", "keyrev"}
SessClasses == {"empty", "short", "long"}
(* pai has no session but a number k (the prover's party key) that enters its challenge: empty -> 0, short -> 1, long -> 512 bits *)
HasSession(s) == s \in {"sch", "schv", "pai", "mod", "fac", "bob", "bobwc"}
Curves(s) == IF s \in {"sch", "schv"} THEN {"secp256k1", "ed25519"}
             ELSE IF s \in {"fac", "alice", "bob", "bobwc"} THEN {"secp256k1"} ELSE {"-"}
ParamSets(s) == CASE s \in {"sch", "schv"} -> 0 [] s \in {"dln", "pai", "mod"} -> 1 [] OTHER -> 2

(* the toy order the witness lives in, and the toy value of a class *)
ToyOrd(s) == CASE s \in {"alice", "bob", "bobwc"} -> 3 [] s = "dln" -> 15 [] OTHER -> 7
ToyW(s, cls) ==
  CASE cls = "0" -> 0 [] cls = "1" -> 1 [] cls = "2" -> 2 [] cls = "max" -> ToyOrd(s) - 1
    [] cls = "lz" -> (IF ToyOrd(s) > 3 THEN 3 ELSE 1) [] cls = "key" -> 7 [] cls = "keyrev" -> 13   \* 7 * 13 = 1 mod 15
    [] OTHER -> (ToyOrd(s) \div 2) + 1

ToyRuns(s, cls, id) ==
  LET v == ToyW(s, cls) w == FALSE IN
  CASE s = "sch"  -> { r \in Dom_sch(w) : r.par.q = 7 /\ r.x = v /\ r.par.idrep = id }
    [] s = "schv" -> { [sys |-> "schv", par |-> [q |-> 7, idrep |-> FALSE], R |-> 3, s |-> ss, l |-> l, a |-> 2, b |-> 2, c |-> c] :
                         ss \in {IF cls = "l0" THEN 4 ELSE v}, l \in {IF cls = "l0" THEN 0 ELSE IF cls = "0" THEN 4 ELSE v},
                         c \in 1..6 }
    [] s = "dln"  -> { r \in Dom_dln(w) : r.x = v /\ r.a = [i \in 1..DlnK |-> 7] }
    [] s = "alice" -> { r \in Dom_alice(w) : r.m = v /\ r.rn.alpha = 13 /\ r.rn.beta = 3 /\ r.r = 2 }
    [] s \in {"bob", "bobwc"} -> { r \in (IF s = "bob" THEN Dom_bob(w) ELSE Dom_bobwc(w)) : r.x = v /\ r.rn.alpha = 13 /\ r.rn.beta = 3 /\ r.r = 2 }
    [] OTHER -> { r \in (CASE s = "pai" -> Dom_pai(w) [] s = "mod" -> Dom_mod(w) [] OTHER -> {d \in Dom_fac(w) : Keep_fac(d)}) :
                   cls = "key" /\ (s = "pai" => r.xs[1] < 5) /\ (s = "mod" => r.Y[1] < 6) /\ (s = "fac" => r.r.alpha < 3) }
RowOK(s, cls, id) ==
  /\ (cls = "l0") => (s = "schv")
  /\ (cls = "key") => (s \in {"pai", "mod", "fac", "dln"})
  /\ (s \in {"pai", "mod", "fac"}) => (cls = "key")
  /\ (cls = "keyrev") => (s = "dln")
  /\ (cls \notin {"key", "keyrev"} => ToyW(s, cls) < ToyOrd(s))
  /\ ToyRuns(s, cls, id) # {}
  /\ \A r \in ToyRuns(s, cls, id) :
       LET st == St(r) IN
       /\ (s = "sch" => id \/ st.X # 0)
       /\ (s = "schv" => st.V # 0)
       /\ (s = "bobwc" => st.X # 0)
       /\ (s = "dln" => FailSet(Guards(s, r.par, st, Pf(r))) \cap {"h1_range", "h2_range", "h1_ne_h2"} = {})
       /\ (Produced(r) /\ GapSet(r) = {} /\ ~PanicGap(r) /\ ~RejGap(r) => Outcome(s, r.par, st, Pf(r), Ch(r)) = "acc")

(* zero-arity: TLC evaluates it once, when it loads the module *)
Adm == [s \in Systems |-> [id \in BOOLEAN |-> {cls \in WClasses : RowOK(s, cls, id)}]]
Catalogue(S) ==
  { [sys |-> s, wclass |-> cls, sess |-> se, curve |-> cv, psets |-> ParamSets(s),
     expect |-> "acc", expect_parts |-> WireParts(s, RealK(s))] :
      s \in S, cls \in WClasses, se \in SessClasses \cup {"-"}, cv \in {"secp256k1", "ed25519", "-"} }
Keep(r) == /\ r.wclass \in Adm[r.sys][r.curve = "ed25519"]
           /\ r.curve \in Curves(r.sys)
           /\ (IF HasSession(r.sys) THEN r.sess \in SessClasses ELSE r.sess = "-")

(* generator: one state per row, printed once (-workers 1) *)
GInit == run \in {r \in Catalogue(Sys) : Keep(r)}
GSpec == GInit /\ [][Next]_vars
EmitRow == PrintT(<<"ROW", ToJson(run)>>)
=============================================================================
